(* Refinement of the executable model (Inst/Model.v) to the documentation
   (Inst/SpecHelpers.v) through the abstraction Inst/Abs.v, and the relations
   between call forms that property C05 states (no-ops, in-place identity,
   assignment = with_ in place, update = iterated assignment). *)
From Coq Require Import List ZArith Bool Arith Lia.
From SC Require Import Base.Res Base.PyList Inst.Heap Inst.ClassTable Inst.Model Inst.Canon
  Inst.Abs Inst.SpecHelpers Inst.ElemProofs.
Import ListNotations.
Open Scope nat_scope.

(* ------------------------------------------------------------------ *)
(** * The monad *)

Lemma bind_ok {A B} (m : M A) (k : A -> M B) s a s1 : m s = (Ok a, s1) -> bind m k s = k a s1.
Proof. unfold bind. now intros ->. Qed.
Lemma bind_err {A B} (m : M A) (k : A -> M B) s e s1 : m s = (Err e, s1) -> bind m k s = (Err e, s1).
Proof. unfold bind. now intros ->. Qed.

Lemma bind_inv {A B} (m : M A) (k : A -> M B) s r s' :
  bind m k s = (Ok r, s') -> exists a s1, m s = (Ok a, s1) /\ k a s1 = (Ok r, s').
Proof.
  unfold bind. destruct (m s) as [[a|e] s1]; intro H; [eauto|discriminate].
Qed.

Lemma bind_ret {A B} (a : A) (k : A -> M B) : bind (ret a) k = k a.
Proof. reflexivity. Qed.

Lemma bind_assoc {A B C} (m : M A) (f : A -> M B) (g : B -> M C) s :
  bind (bind m f) g s = bind m (fun a => bind (f a) g) s.
Proof. unfold bind. destruct (m s) as [[a|e] s1]; reflexivity. Qed.

Lemma read_inst_ok l s p s1 :
  read_inst l s = (Ok p, s1) -> nth_error (heap s) l = Some (OInst (fst p) (snd p)) /\ s1 = s.
Proof.
  unfold read_inst, bind, read. destruct (nth_error (heap s) l) as [[| | |c d]|]; intro H; inversion H; auto.
Qed.
Lemma read_inst_at l s c d :
  nth_error (heap s) l = Some (OInst c d) -> read_inst l s = (Ok (c, d), s).
Proof. intro H. unfold read_inst, bind, read. now rewrite H. Qed.
Lemma cls_of_ok ct c s k s1 : cls_of ct c s = (Ok k, s1) -> lookup_cls ct c = Some k /\ s1 = s.
Proof. unfold cls_of. destruct (lookup_cls ct c); intro H; inversion H; auto. Qed.
Lemma cls_of_at ct c s k : lookup_cls ct c = Some k -> cls_of ct c s = (Ok k, s).
Proof. intro H. unfold cls_of. now rewrite H. Qed.

(* computations that only read *)
Definition reads {A} (m : M A) : Prop := forall s r s', m s = (r, s') -> s' = s.

Lemma reads_ret {A} (a : A) : reads (ret a).
Proof. intros s r s' H. inversion H; auto. Qed.
Lemma reads_fail {A} e : reads (@fail A e).
Proof. intros s r s' H. inversion H; auto. Qed.
Lemma reads_bind {A B} (m : M A) (k : A -> M B) : reads m -> (forall a, reads (k a)) -> reads (bind m k).
Proof.
  intros Hm Hk s r s' H. unfold bind in H. destruct (m s) as [[a|e] s1] eqn:E.
  - apply Hm in E. subst. eapply Hk; eauto.
  - apply Hm in E. inversion H; subst; auto.
Qed.
Lemma reads_read l : reads (read l).
Proof. intros s r s' H. unfold read in H. destruct (nth_error (heap s) l); inversion H; auto. Qed.
Lemma reads_get_heap : reads get_heap.
Proof. intros s r s' H. inversion H; auto. Qed.

Ltac reads_tac :=
  repeat first [ apply reads_ret | apply reads_fail | apply reads_read | apply reads_get_heap
               | apply reads_bind; [|intro] | match goal with |- reads (match ?x with _ => _ end) => destruct x end
               | match goal with |- reads (if ?x then _ else _) => destruct x end ].

Lemma reads_read_inst l : reads (read_inst l).
Proof. unfold read_inst. reads_tac. Qed.
Lemma reads_cls_of ct c : reads (cls_of ct c).
Proof. unfold cls_of. reads_tac. Qed.
Lemma reads_spec_for ct l a : reads (spec_for ct l a).
Proof. unfold spec_for. apply reads_bind; [apply reads_read_inst|intro]. apply reads_bind; [apply reads_cls_of|intro]. reads_tac. Qed.
Lemma reads_getattr_default ct l a : reads (getattr_default ct l a).
Proof.
  unfold getattr_default. apply reads_bind; [apply reads_read_inst|intro p].
  destruct (assoc a (snd p)); [apply reads_ret|]. apply reads_bind; [apply reads_cls_of|intro]. apply reads_ret.
Qed.
Lemma reads_check_typeM ct v t : reads (check_typeM ct v t).
Proof. unfold check_typeM. reads_tac. Qed.

Lemma exec_S ct f k : exec ct (S f) k = body ct (exec ct f) k.
Proof. reflexivity. Qed.
Lemma XFUEL_S : XFUEL = S 39.
Proof. reflexivity. Qed.

Lemma thawed_false {A} ct l (m : M A) s c d k :
  nth_error (heap s) l = Some (OInst c d) -> lookup_cls ct c = Some k ->
  thawed ct l false m s = m s.
Proof.
  intros Hl Hc. unfold thawed, bind, read. rewrite Hl. cbn [ret]. unfold cls_of. rewrite Hc. reflexivity.
Qed.

(* ------------------------------------------------------------------ *)
(** * C05: calls that are no-ops *)

Section NoOps.
  Variable ct : ctable.

  (* _if=False: every helper returns the receiver, nothing changes *)
  Theorem if_false_noop l hp h s :
    h_if h = false -> run_helper ct l hp h s = (Ok (VRef l), s).
  Proof. intro H. unfold run_helper. rewrite H. reflexivity. Qed.

  Lemma with_attr_unchanged l sp attrs inplace s :
    with_attr ct l sp VUnchanged attrs inplace s = (Ok (VRef l), s).
  Proof. reflexivity. Qed.

  (* with_<a>(UNCHANGED): the receiver is returned, nothing changes *)
  Theorem with_unchanged_noop l a h s v s' :
    pos0 h = VUnchanged ->
    run_helper ct l (HWith a) h s = (Ok v, s') -> v = VRef l /\ s' = s.
  Proof.
    intros Hp H. unfold run_helper in H. destruct (negb (h_if h)); [inversion H; auto|].
    apply bind_inv in H. destruct H as [r [s1 [H1 H2]]].
    apply reads_spec_for in H1. subst s1. rewrite Hp, with_attr_unchanged in H2.
    inversion H2; auto.
  Qed.

  (* update_<a>(UNCHANGED) *)
  Theorem update_unchanged_noop l a h s :
    pos0 h = VUnchanged -> run_helper ct l (HUpdate a) h s = (Ok (VRef l), s).
  Proof. intro Hp. unfold run_helper. destruct (negb (h_if h)); [reflexivity|]. now rewrite Hp. Qed.

  (* update(UNCHANGED, ...) and update() / update(MISSING) without keywords *)
  Theorem update_top_noop l h s :
    pos0 h = VUnchanged \/
    ((pos0 h = VMissing \/ pos0 h = VEmpty) /\ (h_kw h = None \/ h_kw h = Some [])) ->
    run_helper ct l HUpdateTop h s = (Ok (VRef l), s).
  Proof.
    intro H. unfold run_helper. destruct (negb (h_if h)); [reflexivity|].
    rewrite XFUEL_S, exec_S. cbn [body]. unfold mutate_value. cbn [mv_new mv_old].
    destruct H as [->|[[-> | ->] [-> | ->]]]; reflexivity.
  Qed.

  (* x.a = UNCHANGED *)
  Theorem setattr_unchanged_noop roots x a s l :
    nth x roots VNone = VRef l ->
    forall r s', step ct roots (OpSetAttr x a VUnchanged) s = (Ok r, s') -> s' = s.
  Proof.
    intros Hx r s' H. unfold step in H. rewrite Hx in H. cbn [loc_of] in H.
    unfold bind at 1 in H. cbn [ret] in H.
    rewrite XFUEL_S, exec_S in H. cbn [body] in H. unfold setattr_ in H.
    apply bind_inv in H. destruct H as [v [s2 [H1 H3]]]. inversion H3; subst. clear H3.
    apply bind_inv in H1. destruct H1 as [p [s3 [H1 H3]]]. apply reads_read_inst in H1. subst s3.
    apply bind_inv in H3. destruct H3 as [k [s4 [H3 H4]]]. apply reads_cls_of in H3. subst s4.
    destruct (lookup_attr k a) as [sp|].
    - cbn in H4. inversion H4; auto.
    - cbn in H4. inversion H4; auto.
  Qed.
End NoOps.

(* ------------------------------------------------------------------ *)
(** * C05: in-place calls hand back the receiver itself *)

Section InPlace.
  Variable ct : ctable.
  Variable rec : call -> M val.

  Lemma mutate_attr_inplace_result l a v tc force skip s r s' :
    mutate_attr ct rec l a v true tc force skip s = (Ok r, s') -> r = VRef l.
  Proof.
    unfold mutate_attr. destruct (is_sentinel v); [intro H; inversion H; auto|].
    intro H.
    do 4 (apply bind_inv in H; destruct H as [? [? [_ H]]]).
    cbn [negb orb] in H.
    apply bind_inv in H. destruct H as [l' [? [Hl H]]]. inversion Hl; subst.
    do 2 (apply bind_inv in H; destruct H as [? [? [_ H]]]).
    inversion H; auto.
  Qed.
End InPlace.

Section InPlaceHelpers.
  Variable ct : ctable.

  Theorem inplace_returns_receiver l hp h s r s' :
    h_inplace h = true ->
    match hp with HUpdateTop | HTransformTop => False | _ => True end ->
    run_helper ct l hp h s = (Ok r, s') -> r = VRef l.
  Proof.
    intros Hin Hhp H. unfold run_helper in H. destruct (negb (h_if h)); [inversion H; auto|].
    rewrite Hin in H. destruct hp; try contradiction.
    - (* with *) apply bind_inv in H. destruct H as [? [? [_ H]]]. unfold with_attr in H.
      apply bind_inv in H. destruct H as [? [? [_ H]]]. eapply mutate_attr_inplace_result; eauto.
    - (* update *) destruct (pos0 h); try (inversion H; auto; fail);
        (do 3 (apply bind_inv in H; destruct H as [? [? [_ H]]]); unfold with_attr in H;
         apply bind_inv in H; destruct H as [? [? [_ H]]]; eapply mutate_attr_inplace_result; eauto).
    - (* transform *) do 3 (apply bind_inv in H; destruct H as [? [? [_ H]]]). unfold with_attr in H.
      apply bind_inv in H. destruct H as [? [? [_ H]]]. eapply mutate_attr_inplace_result; eauto.
    - (* reset *) cbn in H. apply bind_inv in H. destruct H as [? [? [_ H]]]. inversion H; auto.
    - (* with_item *) do 3 (apply bind_inv in H; destruct H as [? [? [_ H]]]).
      eapply mutate_attr_inplace_result; eauto.
    - do 3 (apply bind_inv in H; destruct H as [? [? [_ H]]]). eapply mutate_attr_inplace_result; eauto.
    - do 3 (apply bind_inv in H; destruct H as [? [? [_ H]]]). eapply mutate_attr_inplace_result; eauto.
    - do 4 (apply bind_inv in H; destruct H as [? [? [_ H]]]). eapply mutate_attr_inplace_result; eauto.
    - (* reset top *) cbn in H. do 3 (apply bind_inv in H; destruct H as [? [? [_ H]]]). inversion H; auto.
  Qed.
End InPlaceHelpers.

(* ------------------------------------------------------------------ *)
(** * C05: obj.a = v is with_a(v, _inplace=True) *)

Section SetAttrIsWith.
  Variable ct : ctable.
  Variable rec : call -> M val.

  (* with_<a>(v, _inplace=True) with the recursion oracle made explicit *)
  Definition with_inplace_gen (l : loc) (a : aid) (v : val) : M val :=
    r <- spec_for ct l a ;;
    v' <- prepare_attr_value ct rec (snd r) l v None ;;
    mutate_attr ct rec l (a_name (snd r)) v' true true false false.

  Theorem setattr_is_with_inplace l a v s :
    (forall c d k, nth_error (heap s) l = Some (OInst c d) -> lookup_cls ct c = Some k ->
                   lookup_attr k a <> None) ->
    setattr_ ct rec l a v false false s = with_inplace_gen l a v s.
  Proof.
    intro Hman. unfold setattr_, with_inplace_gen, spec_for.
    destruct (read_inst l s) as [[p|e] s1] eqn:E1.
    2: { rewrite (bind_err _ _ _ _ _ E1), bind_assoc, (bind_err _ _ _ _ _ E1). reflexivity. }
    rewrite (bind_ok _ _ _ _ _ E1), bind_assoc, (bind_ok _ _ _ _ _ E1).
    destruct (cls_of ct (fst p) s1) as [[k|e] s2] eqn:E2.
    2: { rewrite (bind_err _ _ _ _ _ E2), bind_assoc, (bind_err _ _ _ _ _ E2). reflexivity. }
    rewrite (bind_ok _ _ _ _ _ E2), bind_assoc, (bind_ok _ _ _ _ _ E2).
    apply read_inst_ok in E1. destruct E1 as [E1 ->]. apply cls_of_ok in E2. destruct E2 as [E2 ->].
    specialize (Hman _ _ _ E1 E2).
    destruct (lookup_attr k a) as [sp|] eqn:Ea; [|congruence].
    assert (a_name sp = a) as Hn.
    { unfold lookup_attr in Ea. apply find_some in Ea. destruct Ea as [_ Ea]. now apply Nat.eqb_eq in Ea. }
    subst a. reflexivity.
  Qed.
End SetAttrIsWith.

(* the generated helper is that function with rec := exec ct XFUEL ... *)
Lemma run_helper_with_inplace ct l a v s :
  run_helper ct l (HWith a) (mkh [v] true true VMissing false None None [] None) s =
  with_inplace_gen ct (exec ct XFUEL) l a v s.
Proof. reflexivity. Qed.

(* ... and the assignment statement is it with rec := exec ct (XFUEL - 1): the
   two differ in the recursion budget only *)
Lemma step_setattr ct roots x a v l s :
  nth x roots VNone = VRef l ->
  step ct roots (OpSetAttr x a v) s =
  bind (setattr_ ct (exec ct 39) l a v false false) (fun _ => ret VNone) s.
Proof. intro H. unfold step. rewrite H. reflexivity. Qed.

(* ------------------------------------------------------------------ *)
(** * C05: update with keywords is the keywords assigned one after the other *)

Section UpdateIsIterated.
  Variable ct : ctable.

  Definition assign_all (rec : call -> M val) (l : loc) (kws : list (aid * val)) : M unit :=
    iterM (fun p => if is_missing (snd p) then ret tt
                    else rec (KSetAttr l (fst p) (snd p) false false) ;;; ret tt) kws.

  Lemma iterM_ext {A} (f g : A -> M unit) l : (forall x, f x = g x) -> iterM f l = iterM g l.
  Proof. intro H. induction l; simpl; auto. now rewrite H, IHl. Qed.

  Local Opaque iterM thawed.

  Lemma update_body_inplace rec l p0 ps s c d k :
    nth_error (heap s) l = Some (OInst c d) -> lookup_cls ct c = Some k ->
    mutate_value ct rec (mkmv (VRef l) VMissing false PNone (Some (p0 :: ps)) None None None [] true) s =
    bind (assign_all rec l (p0 :: ps)) (fun _ => ret (VRef l)) s.
  Proof.
    intros Hl Hc. unfold mutate_value. cbn [mv_new]. unfold mutate_value_body.
    cbn [mv_new mv_old mv_replace mv_prepare mv_attrs mv_ctor mv_expected mv_transform mv_attr_transforms
         mv_inplace is_missing negb andb orb].
    cbn [bind ret get_heap thawed_val loc_of existsb].
    rewrite !bind_ret. cbn [thawed_val loc_of].
    unfold bind at 1. unfold bind at 1.
    rewrite (thawed_false ct l _ s c d k Hl Hc).
    unfold assign_all.
    match goal with |- context [iterM ?f (p0 :: ps) s] => set (F := f) end.
    match goal with |- context [bind (iterM ?g (p0 :: ps)) _ s] => set (G := g) end.
    assert (E : iterM F (p0 :: ps) = iterM G (p0 :: ps)).
    { apply iterM_ext. intros [a0 v0]. subst F G. cbv beta. cbn [snd fst]. destruct (is_missing v0); reflexivity. }
    unfold bind. rewrite E. destruct (iterM G (p0 :: ps) s) as [[u|e] s1]; reflexivity.
  Qed.

  (* in place: exactly the assignments, in keyword order; MISSING keywords are skipped *)
  Theorem update_inplace_is_iterated_setattr l p0 ps s c d k :
    nth_error (heap s) l = Some (OInst c d) -> lookup_cls ct c = Some k ->
    run_helper ct l HUpdateTop (mkh [] true true VMissing false None (Some (p0 :: ps)) [] None) s =
    bind (assign_all (exec ct 39) l (p0 :: ps)) (fun _ => ret (VRef l)) s.
  Proof.
    intros Hl Hc. unfold run_helper. cbn [h_if negb pos0 h_pos nth h_kw h_inplace].
    rewrite XFUEL_S, exec_S. cbn [body]. eapply update_body_inplace; eauto.
  Qed.
End UpdateIsIterated.

(* ------------------------------------------------------------------ *)
(** * Records: instance dictionaries and sorted abstract field lists as finite maps *)

Section Records.
  Context {V : Type}.
  Notation kv := (nat * V)%type.
  Notation key := (fun p : kv => Z.of_nat (fst p)).

  (* strictly increasing keys *)
  Fixpoint ssorted (l : list kv) : Prop :=
    match l with
    | [] => True
    | p :: t => (forall q, In q t -> fst p < fst q) /\ ssorted t
    end.

  Lemma assoc_cons k (p : kv) l : assoc k (p :: l) = if fst p =? k then Some (snd p) else assoc k l.
  Proof. unfold assoc. simpl. destruct (fst p =? k); reflexivity. Qed.

  Lemma assoc_none_notin k (l : list kv) : assoc k l = None <-> ~ In k (map fst l).
  Proof.
    induction l as [|p l IH]; simpl; [rewrite (eq_refl : assoc k [] = None); tauto|].
    rewrite assoc_cons. destruct (fst p =? k) eqn:E.
    - apply Nat.eqb_eq in E. split; [discriminate|]. intro H. exfalso. apply H. auto.
    - apply Nat.eqb_neq in E. rewrite IH. tauto.
  Qed.

  Lemma assoc_in k v (l : list kv) : assoc k l = Some v -> In (k, v) l.
  Proof.
    induction l as [|[a w] l IH]; [discriminate|]. rewrite assoc_cons. simpl.
    destruct (a =? k) eqn:E; [apply Nat.eqb_eq in E; intro H; inversion H; subst; auto|auto].
  Qed.

  Lemma ssorted_head_notin p l : ssorted (p :: l) -> assoc (fst p) l = None.
  Proof.
    intros [H _]. apply assoc_none_notin. intro Hin. apply in_map_iff in Hin.
    destruct Hin as [q [E Hq]]. specialize (H q Hq). lia.
  Qed.

  (* a strictly sorted list is determined by its lookups *)
  Lemma ssorted_ext (l1 l2 : list kv) :
    ssorted l1 -> ssorted l2 -> (forall k, assoc k l1 = assoc k l2) -> l1 = l2.
  Proof.
    revert l2. induction l1 as [|[a v] l1 IH]; intros [|[b w] l2] S1 S2 H.
    - reflexivity.
    - specialize (H b). rewrite assoc_cons in H. simpl in H. rewrite Nat.eqb_refl in H. discriminate.
    - specialize (H a). rewrite assoc_cons in H. simpl in H. rewrite Nat.eqb_refl in H. discriminate.
    - assert (a = b).
      { destruct (Nat.lt_trichotomy a b) as [L|[E|L]]; auto; exfalso.
        - pose proof (H a) as Ha. rewrite !assoc_cons in Ha. simpl in Ha. rewrite Nat.eqb_refl in Ha.
          destruct (b =? a) eqn:E; [apply Nat.eqb_eq in E; lia|].
          symmetry in Ha. apply assoc_in in Ha. destruct S2 as [S2 _]. specialize (S2 _ Ha). simpl in S2. lia.
        - pose proof (H b) as Hb. rewrite !assoc_cons in Hb. simpl in Hb. rewrite Nat.eqb_refl in Hb.
          destruct (a =? b) eqn:E; [apply Nat.eqb_eq in E; lia|].
          apply assoc_in in Hb. destruct S1 as [S1 _]. specialize (S1 _ Hb). simpl in S1. lia. }
      subst b.
      pose proof (H a) as Ha. rewrite !assoc_cons in Ha. simpl in Ha. rewrite Nat.eqb_refl in Ha.
      inversion Ha; subst w. f_equal.
      apply IH; [apply S1|apply S2|].
      intro k. specialize (H k). rewrite !assoc_cons in H. simpl in H.
      destruct (a =? k) eqn:E; auto. apply Nat.eqb_eq in E. subst k.
      pose proof (ssorted_head_notin (a, v) l1 S1) as N1. pose proof (ssorted_head_notin (a, v) l2 S2) as N2.
      simpl in N1, N2. rewrite N1, N2. reflexivity.
  Qed.

  (* insertion sort *)
  Lemma assoc_insert_by k (x : kv) l :
    ~ In (fst x) (map fst l) ->
    assoc k (insert_by key x l) = if fst x =? k then Some (snd x) else assoc k l.
  Proof.
    induction l as [|y l IH]; intro Hn; simpl.
    - rewrite assoc_cons. reflexivity.
    - destruct (Z.of_nat (fst x) <=? Z.of_nat (fst y))%Z.
      + rewrite assoc_cons. reflexivity.
      + rewrite !assoc_cons, IH.
        * destruct (fst y =? k) eqn:E1; destruct (fst x =? k) eqn:E2; auto.
          apply Nat.eqb_eq in E1. apply Nat.eqb_eq in E2. exfalso. apply Hn. simpl. left. congruence.
        * intro Hin. apply Hn. simpl. auto.
  Qed.

  Lemma keys_insert_by (x : kv) l y : In y (map fst (insert_by key x l)) <-> y = fst x \/ In y (map fst l).
  Proof.
    rewrite !in_map_iff. split.
    - intros [q [E Hq]]. apply In_insert_by in Hq. destruct Hq as [->|Hq]; [auto|right; exists q; auto].
    - intros [->|[q [E Hq]]]; [exists x; split; auto; apply In_insert_by; auto|].
      exists q. split; auto. apply In_insert_by; auto.
  Qed.

  Lemma ssorted_insert_by (x : kv) l :
    ssorted l -> ~ In (fst x) (map fst l) -> ssorted (insert_by key x l).
  Proof.
    induction l as [|y l IH]; intros S Hn; simpl.
    - split; [intros q []|exact I].
    - destruct S as [Sy S]. destruct (Z.of_nat (fst x) <=? Z.of_nat (fst y))%Z eqn:E.
      + apply Z.leb_le in E. split; [|split; auto].
        intros q [<-|Hq].
        * assert (fst x <> fst y) by (intro F; apply Hn; simpl; auto). lia.
        * specialize (Sy q Hq). lia.
      + apply Z.leb_gt in E. split.
        * intros q Hq. apply In_insert_by in Hq. destruct Hq as [->|Hq]; [lia|auto].
        * apply IH; auto. intro Hin. apply Hn. simpl. auto.
  Qed.

  Lemma sort_by_props (l : list kv) : NoDup (map fst l) ->
    ssorted (sort_by key l) /\ (forall k, assoc k (sort_by key l) = assoc k l) /\
    (forall y, In y (map fst (sort_by key l)) <-> In y (map fst l)).
  Proof.
    induction l as [|x l IH]; intro Hd; simpl.
    - split; [exact I|]. split; [reflexivity|tauto].
    - inversion Hd as [|? ? Hx Hd']; subst. destruct (IH Hd') as [S [A K]].
      assert (Hn : ~ In (fst x) (map fst (sort_by key l))) by (rewrite K; exact Hx).
      split; [apply ssorted_insert_by; auto|]. split.
      + intro k. rewrite assoc_insert_by by exact Hn. rewrite assoc_cons, A. reflexivity.
      + intro y. rewrite keys_insert_by, K. simpl. intuition.
  Qed.

  (* assoc_set on an instance dictionary *)
  Lemma assoc_app k (l1 l2 : list kv) :
    assoc k (l1 ++ l2) = match assoc k l1 with Some x => Some x | None => assoc k l2 end.
  Proof.
    induction l1 as [|p l1 IH]; [reflexivity|]. simpl. rewrite !assoc_cons.
    destruct (fst p =? k); auto.
  Qed.

  Lemma existsb_key_assoc a (l : list kv) :
    existsb (fun p => fst p =? a) l = match assoc a l with Some _ => true | None => false end.
  Proof.
    induction l as [|p l IH]; [reflexivity|]. simpl. rewrite assoc_cons.
    destruct (fst p =? a); simpl; auto.
  Qed.

  Lemma assoc_assoc_set k a v (l : list kv) :
    assoc k (assoc_set a v l) = if a =? k then Some v else assoc k l.
  Proof.
    unfold assoc_set. rewrite existsb_key_assoc.
    destruct (assoc a l) as [w|] eqn:E.
    - induction l as [|p l IH]; [discriminate|]. simpl. rewrite assoc_cons in E.
      destruct (fst p =? a) eqn:F.
      + rewrite !assoc_cons. simpl. apply Nat.eqb_eq in F. rewrite F.
        destruct (a =? k) eqn:G; auto.
        (* the rest of the list is mapped too, but is looked up only for other keys *)
        clear IH E. induction l as [|q l IH]; [reflexivity|]. simpl. rewrite !assoc_cons.
        destruct (fst q =? a) eqn:H; simpl.
        * rewrite G. apply Nat.eqb_eq in H. rewrite H, G. exact IH.
        * destruct (fst q =? k); auto.
      + rewrite !assoc_cons. destruct (fst p =? k) eqn:G.
        * destruct (a =? k) eqn:H; auto. apply Nat.eqb_eq in G. apply Nat.eqb_eq in H.
          apply Nat.eqb_neq in F. congruence.
        * apply IH. exact E.
    - rewrite assoc_app, assoc_cons. simpl.
      destruct (a =? k) eqn:G.
      + apply Nat.eqb_eq in G. subst k. rewrite E. reflexivity.
      + destruct (assoc k l); reflexivity.
  Qed.

  Lemma keys_assoc_set a v (l : list kv) y :
    In y (map fst (assoc_set a v l)) <-> y = a \/ In y (map fst l).
  Proof.
    unfold assoc_set. rewrite existsb_key_assoc. destruct (assoc a l) as [w|] eqn:E.
    - rewrite map_map.
      assert (map (fun x : kv => fst (if fst x =? a then (a, v) else x)) l = map fst l) as ->.
      { apply map_ext. intro p. destruct (fst p =? a) eqn:F; auto. apply Nat.eqb_eq in F. auto. }
      split; auto. intros [->|H]; auto. apply assoc_in in E. apply in_map_iff. exists (a, w). auto.
    - rewrite map_app, in_app_iff. simpl. intuition.
  Qed.

  Lemma nodup_assoc_set a v (l : list kv) : NoDup (map fst l) -> NoDup (map fst (assoc_set a v l)).
  Proof.
    intro H. unfold assoc_set. rewrite existsb_key_assoc. destruct (assoc a l) as [w|] eqn:E.
    - rewrite map_map.
      assert (map (fun x : kv => fst (if fst x =? a then (a, v) else x)) l = map fst l) as ->; auto.
      apply map_ext. intro p. destruct (fst p =? a) eqn:F; auto. apply Nat.eqb_eq in F. auto.
    - rewrite map_app. simpl. apply assoc_none_notin in E. revert E H.
      generalize (map fst l). intros ks E H. induction H as [|x ks Hx H IH]; simpl.
      + constructor; [intros []|constructor].
      + constructor.
        * rewrite in_app_iff. simpl. intros [F|[F|[]]]; [auto|]. apply E. simpl. auto.
        * apply IH. intro F. apply E. simpl. auto.
  Qed.
End Records.
