(* Refinement of the executable model (Inst/Model.v) to the documentation
   (Inst/SpecHelpers.v) through the abstraction Inst/Abs.v, and the relations
   between call forms that property C05 states (no-ops, in-place identity,
   assignment = with_ in place, update = iterated assignment). *)
From Coq Require Import List ZArith Bool Arith Lia.
From SC Require Import Base.Res Base.PyList Inst.Heap Inst.ClassTable Inst.Model Inst.Canon
  Inst.Abs Inst.SpecHelpers Inst.ElemProofs Inst.Framed.
Import ListNotations.
Open Scope nat_scope.

(* ------------------------------------------------------------------ *)
(** * The monad *)

Lemma bind_ok {A B} (m : M A) (k : A -> M B) s a s1 : m s = (Ok a, s1) -> bind m k s = k a s1.
Proof. unfold bind. now intros ->. Qed.
Lemma bind_err {A B} (m : M A) (k : A -> M B) s e s1 : m s = (Err e, s1) -> bind m k s = (Err e, s1).
Proof. unfold bind. now intros ->. Qed.

Lemma bind_inv {A B} (m : M A) (k : A -> M B) s r s' :
  bind m k s = (Ok r, s') -> exists a s1, m s = (Ok a, s1) /\ k a s1 = (Ok r, s').
Proof.
  unfold bind. destruct (m s) as [[a|e] s1]; intro H; [eauto|discriminate].
Qed.

Lemma bind_ret {A B} (a : A) (k : A -> M B) : bind (ret a) k = k a.
Proof. reflexivity. Qed.

Lemma bind_assoc {A B C} (m : M A) (f : A -> M B) (g : B -> M C) s :
  bind (bind m f) g s = bind m (fun a => bind (f a) g) s.
Proof. unfold bind. destruct (m s) as [[a|e] s1]; reflexivity. Qed.

Lemma read_inst_ok l s p s1 :
  read_inst l s = (Ok p, s1) -> nth_error (heap s) l = Some (OInst (fst p) (snd p)) /\ s1 = s.
Proof.
  unfold read_inst, bind, read. destruct (nth_error (heap s) l) as [[| | |c d]|]; intro H; inversion H; auto.
Qed.
Lemma read_inst_at l s c d :
  nth_error (heap s) l = Some (OInst c d) -> read_inst l s = (Ok (c, d), s).
Proof. intro H. unfold read_inst, bind, read. now rewrite H. Qed.
Lemma cls_of_ok ct c s k s1 : cls_of ct c s = (Ok k, s1) -> lookup_cls ct c = Some k /\ s1 = s.
Proof. unfold cls_of. destruct (lookup_cls ct c); intro H; inversion H; auto. Qed.
Lemma cls_of_at ct c s k : lookup_cls ct c = Some k -> cls_of ct c s = (Ok k, s).
Proof. intro H. unfold cls_of. now rewrite H. Qed.

(* computations that only read *)
Definition reads {A} (m : M A) : Prop := forall s r s', m s = (r, s') -> s' = s.

Lemma reads_ret {A} (a : A) : reads (ret a).
Proof. intros s r s' H. inversion H; auto. Qed.
Lemma reads_fail {A} e : reads (@fail A e).
Proof. intros s r s' H. inversion H; auto. Qed.
Lemma reads_bind {A B} (m : M A) (k : A -> M B) : reads m -> (forall a, reads (k a)) -> reads (bind m k).
Proof.
  intros Hm Hk s r s' H. unfold bind in H. destruct (m s) as [[a|e] s1] eqn:E.
  - apply Hm in E. subst. eapply Hk; eauto.
  - apply Hm in E. inversion H; subst; auto.
Qed.
Lemma reads_read l : reads (read l).
Proof. intros s r s' H. unfold read in H. destruct (nth_error (heap s) l); inversion H; auto. Qed.
Lemma reads_get_heap : reads get_heap.
Proof. intros s r s' H. inversion H; auto. Qed.

Ltac reads_tac :=
  repeat first [ apply reads_ret | apply reads_fail | apply reads_read | apply reads_get_heap
               | apply reads_bind; [|intro] | match goal with |- reads (match ?x with _ => _ end) => destruct x end
               | match goal with |- reads (if ?x then _ else _) => destruct x end ].

Lemma reads_read_inst l : reads (read_inst l).
Proof. unfold read_inst. reads_tac. Qed.
Lemma reads_cls_of ct c : reads (cls_of ct c).
Proof. unfold cls_of. reads_tac. Qed.
Lemma reads_spec_for ct l a : reads (spec_for ct l a).
Proof. unfold spec_for. apply reads_bind; [apply reads_read_inst|intro]. apply reads_bind; [apply reads_cls_of|intro]. reads_tac. Qed.
Lemma reads_getattr_default ct l a : reads (getattr_default ct l a).
Proof.
  unfold getattr_default. apply reads_bind; [apply reads_read_inst|intro p].
  destruct (assoc a (snd p)); [apply reads_ret|]. apply reads_bind; [apply reads_cls_of|intro]. apply reads_ret.
Qed.
Lemma reads_check_typeM ct v t : reads (check_typeM ct v t).
Proof. unfold check_typeM. reads_tac. Qed.

Lemma exec_S ct f k : exec ct (S f) k = body ct (exec ct f) k.
Proof. reflexivity. Qed.
Lemma XFUEL_S : XFUEL = S 39.
Proof. reflexivity. Qed.
(* always rewrite with this lemma: never let the kernel convert `absv` into `abs (S 23)` by itself *)
Lemma absv_unfold h v : absv h v = abs (S 23) h v.
Proof. reflexivity. Qed.

Lemma thawed_false {A} ct l (m : M A) s c d k :
  nth_error (heap s) l = Some (OInst c d) -> lookup_cls ct c = Some k ->
  thawed ct l false m s = m s.
Proof.
  intros Hl Hc. unfold thawed, bind, read. rewrite Hl. cbn [ret]. unfold cls_of. rewrite Hc. reflexivity.
Qed.

(* ------------------------------------------------------------------ *)
(** * C05: calls that are no-ops *)

Section NoOps.
  Variable ct : ctable.

  (* _if=False: every helper returns the receiver, nothing changes *)
  Theorem if_false_noop l hp h s :
    h_if h = false -> run_helper ct l hp h s = (Ok (VRef l), s).
  Proof. intro H. unfold run_helper. rewrite H. reflexivity. Qed.

  Lemma with_attr_unchanged l sp attrs inplace s :
    with_attr ct l sp VUnchanged attrs inplace s = (Ok (VRef l), s).
  Proof. reflexivity. Qed.

  (* with_<a>(UNCHANGED): the receiver is returned, nothing changes *)
  Theorem with_unchanged_noop l a h s v s' :
    pos0 h = VUnchanged ->
    run_helper ct l (HWith a) h s = (Ok v, s') -> v = VRef l /\ s' = s.
  Proof.
    intros Hp H. unfold run_helper in H. destruct (negb (h_if h)); [inversion H; auto|].
    apply bind_inv in H. destruct H as [r [s1 [H1 H2]]].
    apply reads_spec_for in H1. subst s1. rewrite Hp, with_attr_unchanged in H2.
    inversion H2; auto.
  Qed.

  (* update_<a>(UNCHANGED) *)
  Theorem update_unchanged_noop l a h s :
    pos0 h = VUnchanged -> run_helper ct l (HUpdate a) h s = (Ok (VRef l), s).
  Proof. intro Hp. unfold run_helper. destruct (negb (h_if h)); [reflexivity|]. now rewrite Hp. Qed.

  (* update(UNCHANGED, ...) and update() / update(MISSING) without keywords *)
  Theorem update_top_noop l h s :
    pos0 h = VUnchanged \/
    ((pos0 h = VMissing \/ pos0 h = VEmpty) /\ (h_kw h = None \/ h_kw h = Some [])) ->
    run_helper ct l HUpdateTop h s = (Ok (VRef l), s).
  Proof.
    intro H. unfold run_helper. destruct (negb (h_if h)); [reflexivity|].
    rewrite XFUEL_S, exec_S. cbn [body]. unfold mutate_value. cbn [mv_new mv_old].
    destruct H as [->|[[-> | ->] [-> | ->]]]; reflexivity.
  Qed.

  (* x.a = UNCHANGED *)
  Theorem setattr_unchanged_noop roots x a s l :
    nth x roots VNone = VRef l ->
    forall r s', step ct roots (OpSetAttr x a VUnchanged) s = (Ok r, s') -> s' = s.
  Proof.
    intros Hx r s' H. unfold step in H. rewrite Hx in H. cbn [loc_of] in H.
    unfold bind at 1 in H. cbn [ret] in H.
    rewrite XFUEL_S, exec_S in H. cbn [body] in H. unfold setattr_ in H.
    apply bind_inv in H. destruct H as [v [s2 [H1 H3]]]. inversion H3; subst. clear H3.
    apply bind_inv in H1. destruct H1 as [p [s3 [H1 H3]]]. apply reads_read_inst in H1. subst s3.
    apply bind_inv in H3. destruct H3 as [k [s4 [H3 H4]]]. apply reads_cls_of in H3. subst s4.
    destruct (lookup_attr k a) as [sp|].
    - cbn in H4. inversion H4; auto.
    - cbn in H4. inversion H4; auto.
  Qed.
End NoOps.

(* ------------------------------------------------------------------ *)
(** * C05: in-place calls hand back the receiver itself *)

Section InPlace.
  Variable ct : ctable.
  Variable rec : call -> M val.

  Lemma mutate_attr_inplace_result l a v tc force skip s r s' :
    mutate_attr ct rec l a v true tc force skip s = (Ok r, s') -> r = VRef l.
  Proof.
    unfold mutate_attr. destruct (is_sentinel v); [intro H; inversion H; auto|].
    intro H.
    do 4 (apply bind_inv in H; destruct H as [? [? [_ H]]]).
    cbn [negb orb] in H.
    apply bind_inv in H. destruct H as [l' [? [Hl H]]]. inversion Hl; subst.
    do 2 (apply bind_inv in H; destruct H as [? [? [_ H]]]).
    inversion H; auto.
  Qed.
End InPlace.

Section InPlaceHelpers.
  Variable ct : ctable.

  Theorem inplace_returns_receiver l hp h s r s' :
    h_inplace h = true ->
    match hp with HUpdateTop | HTransformTop => False | _ => True end ->
    run_helper ct l hp h s = (Ok r, s') -> r = VRef l.
  Proof.
    intros Hin Hhp H. unfold run_helper in H. destruct (negb (h_if h)); [inversion H; auto|].
    rewrite Hin in H. destruct hp; try contradiction.
    - (* with *) apply bind_inv in H. destruct H as [? [? [_ H]]]. unfold with_attr in H.
      apply bind_inv in H. destruct H as [? [? [_ H]]]. eapply mutate_attr_inplace_result; eauto.
    - (* update *) destruct (pos0 h); try (inversion H; auto; fail);
        (do 3 (apply bind_inv in H; destruct H as [? [? [_ H]]]); unfold with_attr in H;
         apply bind_inv in H; destruct H as [? [? [_ H]]]; eapply mutate_attr_inplace_result; eauto).
    - (* transform *) do 3 (apply bind_inv in H; destruct H as [? [? [_ H]]]). unfold with_attr in H.
      apply bind_inv in H. destruct H as [? [? [_ H]]]. eapply mutate_attr_inplace_result; eauto.
    - (* reset *) cbn in H. apply bind_inv in H. destruct H as [? [? [_ H]]]. inversion H; auto.
    - (* with_item *) do 3 (apply bind_inv in H; destruct H as [? [? [_ H]]]).
      eapply mutate_attr_inplace_result; eauto.
    - do 3 (apply bind_inv in H; destruct H as [? [? [_ H]]]). eapply mutate_attr_inplace_result; eauto.
    - do 3 (apply bind_inv in H; destruct H as [? [? [_ H]]]). eapply mutate_attr_inplace_result; eauto.
    - do 4 (apply bind_inv in H; destruct H as [? [? [_ H]]]). eapply mutate_attr_inplace_result; eauto.
    - (* reset top *) cbn in H. do 3 (apply bind_inv in H; destruct H as [? [? [_ H]]]). inversion H; auto.
  Qed.
End InPlaceHelpers.

(* ------------------------------------------------------------------ *)
(** * C05: obj.a = v is with_a(v, _inplace=True) *)

Section SetAttrIsWith.
  Variable ct : ctable.
  Variable rec : call -> M val.

  (* with_<a>(v, _inplace=True) with the recursion oracle made explicit *)
  Definition with_inplace_gen (l : loc) (a : aid) (v : val) : M val :=
    r <- spec_for ct l a ;;
    v' <- prepare_attr_value ct rec (snd r) l v None ;;
    mutate_attr ct rec l (a_name (snd r)) v' true true false false.

  Theorem setattr_is_with_inplace l a v s :
    (forall c d k, nth_error (heap s) l = Some (OInst c d) -> lookup_cls ct c = Some k ->
                   lookup_attr k a <> None) ->
    setattr_ ct rec l a v false false s = with_inplace_gen l a v s.
  Proof.
    intro Hman. unfold setattr_, with_inplace_gen, spec_for.
    destruct (read_inst l s) as [[p|e] s1] eqn:E1.
    2: { rewrite (bind_err _ _ _ _ _ E1), bind_assoc, (bind_err _ _ _ _ _ E1). reflexivity. }
    rewrite (bind_ok _ _ _ _ _ E1), bind_assoc, (bind_ok _ _ _ _ _ E1).
    destruct (cls_of ct (fst p) s1) as [[k|e] s2] eqn:E2.
    2: { rewrite (bind_err _ _ _ _ _ E2), bind_assoc, (bind_err _ _ _ _ _ E2). reflexivity. }
    rewrite (bind_ok _ _ _ _ _ E2), bind_assoc, (bind_ok _ _ _ _ _ E2).
    apply read_inst_ok in E1. destruct E1 as [E1 ->]. apply cls_of_ok in E2. destruct E2 as [E2 ->].
    specialize (Hman _ _ _ E1 E2).
    destruct (lookup_attr k a) as [sp|] eqn:Ea; [|congruence].
    assert (a_name sp = a) as Hn.
    { unfold lookup_attr in Ea. apply find_some in Ea. destruct Ea as [_ Ea]. now apply Nat.eqb_eq in Ea. }
    subst a. reflexivity.
  Qed.
End SetAttrIsWith.

(* the generated helper is that function with rec := exec ct XFUEL ... *)
Lemma run_helper_with_inplace ct l a v s :
  run_helper ct l (HWith a) (mkh [v] true true VMissing false None None [] None) s =
  with_inplace_gen ct (exec ct XFUEL) l a v s.
Proof. reflexivity. Qed.

(* ... and the assignment statement is it with rec := exec ct (XFUEL - 1): the
   two differ in the recursion budget only *)
Lemma step_setattr ct roots x a v l s :
  nth x roots VNone = VRef l ->
  step ct roots (OpSetAttr x a v) s =
  bind (setattr_ ct (exec ct 39) l a v false false) (fun _ => ret VNone) s.
Proof. intro H. unfold step. rewrite H. reflexivity. Qed.

(* ------------------------------------------------------------------ *)
(** * C05: update with keywords is the keywords assigned one after the other *)

Section UpdateIsIterated.
  Variable ct : ctable.

  Definition assign_all (rec : call -> M val) (l : loc) (kws : list (aid * val)) : M unit :=
    iterM (fun p => if is_missing (snd p) then ret tt
                    else rec (KSetAttr l (fst p) (snd p) false false) ;;; ret tt) kws.

  Lemma iterM_ext {A} (f g : A -> M unit) l : (forall x, f x = g x) -> iterM f l = iterM g l.
  Proof. intro H. induction l; simpl; auto. now rewrite H, IHl. Qed.

  Local Opaque iterM thawed.

  Lemma update_body_inplace rec l p0 ps s c d k :
    nth_error (heap s) l = Some (OInst c d) -> lookup_cls ct c = Some k ->
    mutate_value ct rec (mkmv (VRef l) VMissing false PNone (Some (p0 :: ps)) None None None [] true) s =
    bind (assign_all rec l (p0 :: ps)) (fun _ => ret (VRef l)) s.
  Proof.
    intros Hl Hc. unfold mutate_value. cbn [mv_new]. unfold mutate_value_body.
    cbn [mv_new mv_old mv_replace mv_prepare mv_attrs mv_ctor mv_expected mv_transform mv_attr_transforms
         mv_inplace is_missing negb andb orb].
    cbn [bind ret get_heap thawed_val loc_of existsb].
    rewrite !bind_ret. cbn [thawed_val loc_of].
    unfold bind at 1. unfold bind at 1.
    rewrite (thawed_false ct l _ s c d k Hl Hc).
    unfold assign_all.
    match goal with |- context [iterM ?f (p0 :: ps) s] => set (F := f) end.
    match goal with |- context [bind (iterM ?g (p0 :: ps)) _ s] => set (G := g) end.
    assert (E : iterM F (p0 :: ps) = iterM G (p0 :: ps)).
    { apply iterM_ext. intros [a0 v0]. subst F G. cbv beta. cbn [snd fst]. destruct (is_missing v0); reflexivity. }
    unfold bind. rewrite E. destruct (iterM G (p0 :: ps) s) as [[u|e] s1]; reflexivity.
  Qed.

  (* in place: exactly the assignments, in keyword order; MISSING keywords are skipped *)
  Theorem update_inplace_is_iterated_setattr l p0 ps s c d k :
    nth_error (heap s) l = Some (OInst c d) -> lookup_cls ct c = Some k ->
    run_helper ct l HUpdateTop (mkh [] true true VMissing false None (Some (p0 :: ps)) [] None) s =
    bind (assign_all (exec ct 39) l (p0 :: ps)) (fun _ => ret (VRef l)) s.
  Proof.
    intros Hl Hc. unfold run_helper. cbn [h_if negb pos0 h_pos nth h_kw h_inplace].
    rewrite XFUEL_S, exec_S. cbn [body]. eapply update_body_inplace; eauto.
  Qed.
End UpdateIsIterated.

(* ------------------------------------------------------------------ *)
(** * Records: instance dictionaries and sorted abstract field lists as finite maps *)

Section Records.
  Context {V : Type}.
  Notation kv := (nat * V)%type.
  Notation key := (fun p : kv => Z.of_nat (fst p)).

  (* strictly increasing keys *)
  Fixpoint ssorted (l : list kv) : Prop :=
    match l with
    | [] => True
    | p :: t => (forall q, In q t -> fst p < fst q) /\ ssorted t
    end.

  Lemma assoc_cons k (p : kv) l : assoc k (p :: l) = if fst p =? k then Some (snd p) else assoc k l.
  Proof. unfold assoc. simpl. destruct (fst p =? k); reflexivity. Qed.

  Lemma assoc_none_notin k (l : list kv) : assoc k l = None <-> ~ In k (map fst l).
  Proof.
    induction l as [|p l IH]; simpl; [rewrite (eq_refl : assoc k [] = None); tauto|].
    rewrite assoc_cons. destruct (fst p =? k) eqn:E.
    - apply Nat.eqb_eq in E. split; [discriminate|]. intro H. exfalso. apply H. auto.
    - apply Nat.eqb_neq in E. rewrite IH. tauto.
  Qed.

  Lemma assoc_in k v (l : list kv) : assoc k l = Some v -> In (k, v) l.
  Proof.
    induction l as [|[a w] l IH]; [discriminate|]. rewrite assoc_cons. simpl.
    destruct (a =? k) eqn:E; [apply Nat.eqb_eq in E; intro H; inversion H; subst; auto|auto].
  Qed.

  Lemma ssorted_head_notin p l : ssorted (p :: l) -> assoc (fst p) l = None.
  Proof.
    intros [H _]. apply assoc_none_notin. intro Hin. apply in_map_iff in Hin.
    destruct Hin as [q [E Hq]]. specialize (H q Hq). lia.
  Qed.

  (* a strictly sorted list is determined by its lookups *)
  Lemma ssorted_ext (l1 l2 : list kv) :
    ssorted l1 -> ssorted l2 -> (forall k, assoc k l1 = assoc k l2) -> l1 = l2.
  Proof.
    revert l2. induction l1 as [|[a v] l1 IH]; intros [|[b w] l2] S1 S2 H.
    - reflexivity.
    - specialize (H b). rewrite assoc_cons in H. simpl in H. rewrite Nat.eqb_refl in H. discriminate.
    - specialize (H a). rewrite assoc_cons in H. simpl in H. rewrite Nat.eqb_refl in H. discriminate.
    - assert (a = b).
      { destruct (Nat.lt_trichotomy a b) as [L|[E|L]]; auto; exfalso.
        - pose proof (H a) as Ha. rewrite !assoc_cons in Ha. simpl in Ha. rewrite Nat.eqb_refl in Ha.
          destruct (b =? a) eqn:E; [apply Nat.eqb_eq in E; lia|].
          symmetry in Ha. apply assoc_in in Ha. destruct S2 as [S2 _]. specialize (S2 _ Ha). simpl in S2. lia.
        - pose proof (H b) as Hb. rewrite !assoc_cons in Hb. simpl in Hb. rewrite Nat.eqb_refl in Hb.
          destruct (a =? b) eqn:E; [apply Nat.eqb_eq in E; lia|].
          apply assoc_in in Hb. destruct S1 as [S1 _]. specialize (S1 _ Hb). simpl in S1. lia. }
      subst b.
      pose proof (H a) as Ha. rewrite !assoc_cons in Ha. simpl in Ha. rewrite Nat.eqb_refl in Ha.
      inversion Ha; subst w. f_equal.
      apply IH; [apply S1|apply S2|].
      intro k. specialize (H k). rewrite !assoc_cons in H. simpl in H.
      destruct (a =? k) eqn:E; auto. apply Nat.eqb_eq in E. subst k.
      pose proof (ssorted_head_notin (a, v) l1 S1) as N1. pose proof (ssorted_head_notin (a, v) l2 S2) as N2.
      simpl in N1, N2. rewrite N1, N2. reflexivity.
  Qed.

  (* insertion sort *)
  Lemma assoc_insert_by k (x : kv) l :
    ~ In (fst x) (map fst l) ->
    assoc k (insert_by key x l) = if fst x =? k then Some (snd x) else assoc k l.
  Proof.
    induction l as [|y l IH]; intro Hn; simpl.
    - rewrite assoc_cons. reflexivity.
    - destruct (Z.of_nat (fst x) <=? Z.of_nat (fst y))%Z.
      + rewrite assoc_cons. reflexivity.
      + rewrite !assoc_cons, IH.
        * destruct (fst y =? k) eqn:E1; destruct (fst x =? k) eqn:E2; auto.
          apply Nat.eqb_eq in E1. apply Nat.eqb_eq in E2. exfalso. apply Hn. simpl. left. congruence.
        * intro Hin. apply Hn. simpl. auto.
  Qed.

  Lemma keys_insert_by (x : kv) l y : In y (map fst (insert_by key x l)) <-> y = fst x \/ In y (map fst l).
  Proof.
    rewrite !in_map_iff. split.
    - intros [q [E Hq]]. apply In_insert_by in Hq. destruct Hq as [->|Hq]; [auto|right; exists q; auto].
    - intros [->|[q [E Hq]]]; [exists x; split; auto; apply In_insert_by; auto|].
      exists q. split; auto. apply In_insert_by; auto.
  Qed.

  Lemma ssorted_insert_by (x : kv) l :
    ssorted l -> ~ In (fst x) (map fst l) -> ssorted (insert_by key x l).
  Proof.
    induction l as [|y l IH]; intros S Hn; simpl.
    - split; [intros q []|exact I].
    - destruct S as [Sy S]. destruct (Z.of_nat (fst x) <=? Z.of_nat (fst y))%Z eqn:E.
      + apply Z.leb_le in E. split; [|split; auto].
        intros q [<-|Hq].
        * assert (fst x <> fst y) by (intro F; apply Hn; simpl; auto). lia.
        * specialize (Sy q Hq). lia.
      + apply Z.leb_gt in E. split.
        * intros q Hq. apply In_insert_by in Hq. destruct Hq as [->|Hq]; [lia|auto].
        * apply IH; auto. intro Hin. apply Hn. simpl. auto.
  Qed.

  Lemma sort_by_props (l : list kv) : NoDup (map fst l) ->
    ssorted (sort_by key l) /\ (forall k, assoc k (sort_by key l) = assoc k l) /\
    (forall y, In y (map fst (sort_by key l)) <-> In y (map fst l)).
  Proof.
    induction l as [|x l IH]; intro Hd; simpl.
    - split; [exact I|]. split; [reflexivity|tauto].
    - inversion Hd as [|? ? Hx Hd']; subst. destruct (IH Hd') as [S [A K]].
      assert (Hn : ~ In (fst x) (map fst (sort_by key l))) by (rewrite K; exact Hx).
      split; [apply ssorted_insert_by; auto|]. split.
      + intro k. rewrite assoc_insert_by by exact Hn. rewrite assoc_cons, A. reflexivity.
      + intro y. rewrite keys_insert_by, K. simpl. intuition.
  Qed.

  (* assoc_set on an instance dictionary *)
  Lemma assoc_app k (l1 l2 : list kv) :
    assoc k (l1 ++ l2) = match assoc k l1 with Some x => Some x | None => assoc k l2 end.
  Proof.
    induction l1 as [|p l1 IH]; [reflexivity|]. simpl. rewrite !assoc_cons.
    destruct (fst p =? k); auto.
  Qed.

  Lemma existsb_key_assoc a (l : list kv) :
    existsb (fun p => fst p =? a) l = match assoc a l with Some _ => true | None => false end.
  Proof.
    induction l as [|p l IH]; [reflexivity|]. simpl. rewrite assoc_cons.
    destruct (fst p =? a); simpl; auto.
  Qed.

  Lemma assoc_assoc_set k a v (l : list kv) :
    assoc k (assoc_set a v l) = if a =? k then Some v else assoc k l.
  Proof.
    unfold assoc_set. rewrite existsb_key_assoc.
    destruct (assoc a l) as [w|] eqn:E.
    - induction l as [|p l IH]; [discriminate|]. simpl. rewrite assoc_cons in E.
      destruct (fst p =? a) eqn:F.
      + rewrite !assoc_cons. simpl. apply Nat.eqb_eq in F. rewrite F.
        destruct (a =? k) eqn:G; auto.
        (* the rest of the list is mapped too, but is looked up only for other keys *)
        clear IH E. induction l as [|q l IH]; [reflexivity|]. simpl. rewrite !assoc_cons.
        destruct (fst q =? a) eqn:H; simpl.
        * rewrite G. apply Nat.eqb_eq in H. rewrite H, G. exact IH.
        * destruct (fst q =? k); auto.
      + rewrite !assoc_cons. destruct (fst p =? k) eqn:G.
        * destruct (a =? k) eqn:H; auto. apply Nat.eqb_eq in G. apply Nat.eqb_eq in H.
          apply Nat.eqb_neq in F. congruence.
        * apply IH. exact E.
    - rewrite assoc_app, assoc_cons. simpl.
      destruct (a =? k) eqn:G.
      + apply Nat.eqb_eq in G. subst k. rewrite E. reflexivity.
      + destruct (assoc k l); reflexivity.
  Qed.

  Lemma keys_assoc_set a v (l : list kv) y :
    In y (map fst (assoc_set a v l)) <-> y = a \/ In y (map fst l).
  Proof.
    unfold assoc_set. rewrite existsb_key_assoc. destruct (assoc a l) as [w|] eqn:E.
    - rewrite map_map.
      assert (map (fun x : kv => fst (if fst x =? a then (a, v) else x)) l = map fst l) as ->.
      { apply map_ext. intro p. destruct (fst p =? a) eqn:F; auto. apply Nat.eqb_eq in F. auto. }
      split; auto. intros [->|H]; auto. apply assoc_in in E. apply in_map_iff. exists (a, w). auto.
    - rewrite map_app, in_app_iff. simpl. intuition.
  Qed.

  Lemma nodup_assoc_set a v (l : list kv) : NoDup (map fst l) -> NoDup (map fst (assoc_set a v l)).
  Proof.
    intro H. unfold assoc_set. rewrite existsb_key_assoc. destruct (assoc a l) as [w|] eqn:E.
    - rewrite map_map.
      assert (map (fun x : kv => fst (if fst x =? a then (a, v) else x)) l = map fst l) as ->; auto.
      apply map_ext. intro p. destruct (fst p =? a) eqn:F; auto. apply Nat.eqb_eq in F. auto.
    - rewrite map_app. simpl. apply assoc_none_notin in E. revert E H.
      generalize (map fst l). intros ks E H. induction H as [|x ks Hx H IH]; simpl.
      + constructor; [intros []|constructor].
      + constructor.
        * rewrite in_app_iff. simpl. intros [F|[F|[]]]; [auto|]. apply E. simpl. auto.
        * apply IH. intro F. apply E. simpl. auto.
  Qed.
End Records.

(* ------------------------------------------------------------------ *)
(** * Acyclic graphs: a cell is not reachable from what it refers to *)

Fixpoint asize (a : aval) : nat :=
  match a with
  | AList xs => S ((fix go (l : list aval) : nat := match l with [] => 0 | x :: t => asize x + go t end) xs)
  | ASet xs => S ((fix go (l : list aval) : nat := match l with [] => 0 | x :: t => asize x + go t end) xs)
  | ADict kvs => S ((fix go (l : list (aval * aval)) : nat :=
                       match l with [] => 0 | p :: t => asize (fst p) + asize (snd p) + go t end) kvs)
  | AInst _ d => S ((fix go (l : list (aid * aval)) : nat :=
                       match l with [] => 0 | p :: t => asize (snd p) + go t end) d)
  | _ => 1
  end.

Definition sum_sizes (l : list aval) : nat := fold_right (fun x n => asize x + n) 0 l.

Lemma asize_list xs : asize (AList xs) = S (sum_sizes xs).
Proof. reflexivity. Qed.
Lemma asize_set xs : asize (ASet xs) = S (sum_sizes xs).
Proof. reflexivity. Qed.
Lemma asize_dict kvs : asize (ADict kvs) = S (sum_sizes (flat_map (fun p => [fst p; snd p]) kvs)).
Proof.
  change (asize (ADict kvs)) with
    (S ((fix go (l : list (aval * aval)) : nat :=
           match l with [] => 0 | p :: t => asize (fst p) + asize (snd p) + go t end) kvs)).
  f_equal. induction kvs as [|p kvs IH]; [reflexivity|]. rewrite IH. simpl. lia.
Qed.
Lemma asize_inst c d : asize (AInst c d) = S (sum_sizes (map snd d)).
Proof.
  change (asize (AInst c d)) with
    (S ((fix go (l : list (aid * aval)) : nat := match l with [] => 0 | p :: t => asize (snd p) + go t end) d)).
  f_equal. induction d as [|p d IH]; [reflexivity|]. rewrite IH. reflexivity.
Qed.

Lemma sum_sizes_in x l : In x l -> asize x <= sum_sizes l.
Proof. induction l as [|y l IH]; simpl; [tauto|]. intros [->|H]; [lia|]. specialize (IH H). lia. Qed.

Lemma aok_list xs x : aok (AList xs) = true -> In x xs -> aok x = true.
Proof. simpl. rewrite forallb_forall. auto. Qed.

Section Indep.
  Variable h : list obj.
  Variable l : loc.
  Variable o : obj.
  Variable N : nat.

  Lemma abs_indep_size : forall m w, m <= N ->
    aok (abs m h w) = true -> asize (abs m h w) < asize (abs N h (VRef l)) ->
    abs m (set_nth l o h) w = abs m h w.
  Proof.
    induction m as [|m IH]; intros w Hm Hok Hsz.
    - destruct w; reflexivity.
    - destruct w as [| | | | | | | |l']; try reflexivity.
      destruct (Nat.eq_dec l' l) as [->|Hne].
      + exfalso. replace N with ((N - S m) + S m) in Hsz at 1 by lia.
        rewrite aok_mono_le in Hsz by exact Hok. lia.
      + cbn [abs] in *. rewrite set_nth_other by auto.
        destruct (nth_error h l') as [[xs|kvs|xs|c d]|]; auto.
        * f_equal. apply map_ext_in. intros x Hx. apply IH; [lia| |].
          -- eapply aok_list; eauto. now apply in_map.
          -- rewrite asize_list in Hsz. pose proof (sum_sizes_in (abs m h x) _ (in_map _ _ _ Hx)). lia.
        * f_equal. apply map_ext_in. intros p Hp.
          simpl in Hok. rewrite forallb_forall in Hok. specialize (Hok _ (in_map _ _ _ Hp)). simpl in Hok.
          apply andb_true_iff in Hok. destruct Hok as [Ok1 Ok2].
          rewrite asize_dict in Hsz.
          assert (In (abs m h (fst p)) (flat_map (fun q => [fst q; snd q]) (map (fun q => (abs m h (fst q), abs m h (snd q))) kvs)))
            by (apply in_flat_map; exists (abs m h (fst p), abs m h (snd p)); split; [now apply (in_map (fun q => (abs m h (fst q), abs m h (snd q))))|simpl; auto]).
          assert (In (abs m h (snd p)) (flat_map (fun q => [fst q; snd q]) (map (fun q => (abs m h (fst q), abs m h (snd q))) kvs)))
            by (apply in_flat_map; exists (abs m h (fst p), abs m h (snd p)); split; [now apply (in_map (fun q => (abs m h (fst q), abs m h (snd q))))|simpl; auto]).
          pose proof (sum_sizes_in _ _ H). pose proof (sum_sizes_in _ _ H0).
          f_equal; apply IH; auto; lia.
        * f_equal. apply map_ext_in. intros x Hx. apply IH; [lia| |].
          -- simpl in Hok. rewrite forallb_forall in Hok. apply Hok. now apply in_map.
          -- rewrite asize_set in Hsz. pose proof (sum_sizes_in (abs m h x) _ (in_map _ _ _ Hx)). lia.
        * f_equal. apply map_ext_in. intros p Hp. f_equal. apply IH; [lia| |].
          -- simpl in Hok. rewrite forallb_forall in Hok. apply (Hok _ (in_map _ _ _ Hp)).
          -- rewrite asize_inst in Hsz.
             assert (In (abs m h (snd p)) (map snd (map (fun q => (fst q, abs m h (snd q))) (sorted_fields d))))
               by (rewrite map_map; simpl; now apply (in_map (fun q => abs m h (snd q)))).
             pose proof (sum_sizes_in _ _ H). lia.
  Qed.
End Indep.

(* what an instance refers to does not reach the instance (in an acyclic graph) *)
Lemma abs_indep_field h l c d n o a w :
  nth_error h l = Some (OInst c d) -> aok (abs (S n) h (VRef l)) = true -> In (a, w) d ->
  abs n (set_nth l o h) w = abs n h w.
Proof.
  intros Hl Hok Hin. apply (abs_indep_size h l o (S n) n w); [lia| |].
  - cbn [abs] in Hok. rewrite Hl in Hok. simpl in Hok. rewrite forallb_forall in Hok.
    assert (In (a, abs n h w) (map (fun p => (fst p, abs n h (snd p))) (sorted_fields d))).
    { apply (in_map (fun p => (fst p, abs n h (snd p))) _ (a, w)). unfold sorted_fields. now apply In_sort_by. }
    apply (Hok _ H).
  - cbn [abs]. rewrite Hl, asize_inst.
    assert (In (abs n h w) (map snd (map (fun p => (fst p, abs n h (snd p))) (sorted_fields d)))).
    { rewrite map_map. simpl. apply (in_map (fun p => abs n h (snd p)) _ (a, w)). unfold sorted_fields. now apply In_sort_by. }
    pose proof (sum_sizes_in _ _ H). lia.
Qed.

(* ------------------------------------------------------------------ *)
(** * Writing one attribute of an instance, abstractly *)

Lemma assoc_fset k a v (l : list (aid * aval)) :
  assoc k (fset a v l) = if a =? k then Some v else assoc k l.
Proof.
  induction l as [|[b w] l IH]; simpl.
  - rewrite assoc_cons. reflexivity.
  - destruct (a =? b) eqn:E1.
    + apply Nat.eqb_eq in E1. subst b. rewrite !assoc_cons. simpl. destruct (a =? k); reflexivity.
    + destruct (a <? b) eqn:E2.
      * rewrite assoc_cons. reflexivity.
      * rewrite !assoc_cons, IH. simpl. destruct (b =? k) eqn:E3; auto.
        destruct (a =? k) eqn:E4; auto. apply Nat.eqb_eq in E3. apply Nat.eqb_eq in E4.
        apply Nat.eqb_neq in E1. congruence.
Qed.

Lemma in_fset q a v (l : list (aid * aval)) : In q (fset a v l) -> q = (a, v) \/ In q l.
Proof.
  induction l as [|[b w] l IH]; simpl; [intros [<-|[]]; auto|].
  destruct (a =? b); [simpl; intros [<-|H]; auto|]. destruct (a <? b); simpl; [intros [<-|[<-|H]]; auto|].
  intros [<-|H]; auto. destruct (IH H); auto.
Qed.

Lemma ssorted_fset a v (l : list (aid * aval)) : ssorted l -> ssorted (fset a v l).
Proof.
  induction l as [|[b w] l IH]; intro S; simpl.
  - split; [intros q []|exact I].
  - destruct S as [Sb S]. destruct (a =? b) eqn:E1.
    + apply Nat.eqb_eq in E1. subst b. split; auto.
    + destruct (a <? b) eqn:E2.
      * apply Nat.ltb_lt in E2. split; [|split; auto].
        intros q [<-|Hq]; simpl; auto. specialize (Sb q Hq). simpl in Sb. lia.
      * apply Nat.ltb_ge in E2. apply Nat.eqb_neq in E1. split; auto.
        intros q Hq. apply in_fset in Hq. destruct Hq as [->|Hq]; simpl; [lia|auto].
Qed.

Section MapFields.
  Context {V W : Type} (g : V -> W).
  Notation G := (fun p : nat * V => (fst p, g (snd p))).

  Lemma assoc_map_fields k (l : list (nat * V)) : assoc k (map G l) = option_map g (assoc k l).
  Proof.
    induction l as [|p l IH]; [reflexivity|]. simpl. rewrite !assoc_cons. simpl.
    destruct (fst p =? k); auto.
  Qed.

  Lemma ssorted_map_fields (l : list (nat * V)) : ssorted l -> ssorted (map G l).
  Proof.
    induction l as [|p l IH]; simpl; auto. intros [Sp S]. split; auto.
    intros q Hq. apply in_map_iff in Hq. destruct Hq as [r [<- Hr]]. simpl. auto.
  Qed.
End MapFields.

Lemma in_assoc_set {V} (q : nat * V) a v l : In q (assoc_set a v l) -> q = (a, v) \/ In q l.
Proof.
  unfold assoc_set. destruct (existsb _ l).
  - intro H. apply in_map_iff in H. destruct H as [p [E Hp]]. destruct (fst p =? a); subst; auto.
  - rewrite in_app_iff. simpl. intros [H|[<-|[]]]; auto.
Qed.

Lemma sorted_fields_props (d : list (aid * val)) : NoDup (map fst d) ->
  ssorted (sorted_fields d) /\ (forall k, assoc k (sorted_fields d) = assoc k d).
Proof. intro H. destruct (sort_by_props d H) as [S [A _]]. split; auto. Qed.

Lemma abs_inst h l c d n :
  nth_error h l = Some (OInst c d) ->
  abs (S n) h (VRef l) = AInst c (map (fun p => (fst p, abs n h (snd p))) (sorted_fields d)).
Proof. intro H. cbn [abs]. now rewrite H. Qed.

Lemma nth_error_set_nth_same {A} n (x : A) l : n < length l -> nth_error (set_nth n x l) n = Some x.
Proof. revert n; induction l as [|y l IH]; intros [|n] H; simpl in *; try lia; auto. apply IH. lia. Qed.

(* the instance after `raw_setattr l a v`, provided the graph is acyclic and
   the new value does not reach the instance *)
Lemma abs_inst_update h l c d n a v :
  nth_error h l = Some (OInst c d) -> NoDup (map fst d) ->
  aok (abs (S n) h (VRef l)) = true ->
  (forall o, abs n (set_nth l o h) v = abs n h v) ->
  abs (S n) (set_nth l (OInst c (assoc_set a v d)) h) (VRef l) =
  AInst c (fset a (abs n h v) (map (fun p => (fst p, abs n h (snd p))) (sorted_fields d))).
Proof.
  intros Hl Hd Hok Hv.
  assert (Hlen : l < length h) by (apply nth_error_Some; congruence).
  rewrite (abs_inst _ l c (assoc_set a v d)) by (now apply nth_error_set_nth_same).
  f_equal.
  transitivity (map (fun p => (fst p, abs n h (snd p))) (sorted_fields (assoc_set a v d))).
  - apply map_ext_in. intros [b w] Hb. simpl. f_equal.
    unfold sorted_fields in Hb. apply In_sort_by in Hb. apply in_assoc_set in Hb.
    destruct Hb as [E|Hb]; [inversion E; subst; apply Hv|].
    eapply abs_indep_field; eauto.
  - pose proof (nodup_assoc_set a v d Hd) as Hd'.
    destruct (sorted_fields_props d Hd) as [S A]. destruct (sorted_fields_props _ Hd') as [S' A'].
    apply ssorted_ext.
    + now apply ssorted_map_fields.
    + apply ssorted_fset. now apply ssorted_map_fields.
    + intro k. rewrite assoc_fset, !assoc_map_fields, A', A, assoc_assoc_set.
      destruct (a =? k); reflexivity.
Qed.

(* ------------------------------------------------------------------ *)
(** * Running the model: the in-place store *)

Definition upd (s : state) (l : loc) (o : obj) : state :=
  mkst (set_nth l o (heap s)) (ncalls s) (fail_at s).

(* classes without invalidation *)
Definition no_inval (k : cls) : Prop := forall sp, In sp (c_attrs k) -> a_inv_by sp = [].

Lemma dependants_none k x : no_inval k -> dependants k x = [].
Proof.
  intro H. unfold dependants. unfold no_inval in H. revert H. generalize (c_attrs k). intro l.
  induction l as [|sp l IH]; intro H; simpl; auto.
  rewrite (H sp) by (simpl; auto). simpl. apply IH. intros; apply H; simpl; auto.
Qed.

Lemma inv_closure_none k a : no_inval k -> forall fuel, inv_closure fuel k [a] [a] = [a].
Proof.
  intros H fuel. destruct fuel as [|f]; [reflexivity|]. simpl. rewrite dependants_none by auto. simpl.
  destruct f; reflexivity.
Qed.

Lemma iterM_ret_tt {A} (f : A -> M unit) l s : (forall x, In x l -> f x = ret tt) -> iterM f l s = (Ok tt, s).
Proof.
  induction l as [|x l IH]; intro H; simpl; [reflexivity|].
  rewrite (H x) by (simpl; auto). rewrite bind_ret. apply IH. intros; apply H; simpl; auto.
Qed.

Section RunStore.
  Variable ct : ctable.
  Variable rec : call -> M val.

  Lemma invalidate_attrs_none l a s c d k :
    nth_error (heap s) l = Some (OInst c d) -> lookup_cls ct c = Some k -> no_inval k ->
    invalidate_attrs ct rec l a s = (Ok tt, s).
  Proof.
    intros Hl Hc Hn. unfold invalidate_attrs.
    rewrite (bind_ok _ _ _ _ _ (read_inst_at l s c d Hl)). cbn [fst].
    rewrite (bind_ok _ _ _ _ _ (cls_of_at ct c s k Hc)).
    rewrite inv_closure_none by auto.
    apply iterM_ret_tt. intros sp _. simpl.
    destruct (a =? a_name sp) eqn:E; simpl; auto.
    apply Nat.eqb_eq in E. subst a. now rewrite Nat.eqb_refl.
  Qed.

  Lemma raw_setattr_at l a v s c d :
    nth_error (heap s) l = Some (OInst c d) ->
    raw_setattr l a v s = (Ok tt, upd s l (OInst c (assoc_set a v d))).
  Proof.
    intro Hl. unfold raw_setattr. rewrite (bind_ok _ _ _ _ _ (read_inst_at l s c d Hl)). cbn [fst snd].
    unfold write. assert (l <? length (heap s) = true) as ->; [|reflexivity].
    apply Nat.ltb_lt. apply nth_error_Some. congruence.
  Qed.

  Lemma upd_at s l o : l < length (heap s) -> nth_error (heap (upd s l o)) l = Some o.
  Proof. intro H. unfold upd. simpl. now apply nth_error_set_nth_same. Qed.

  (* mutate_attr(obj, a, v, inplace=True) on an unfrozen instance of a class without invalidation *)
  Lemma mutate_attr_inplace_run l a v tc s c d k :
    nth_error (heap s) l = Some (OInst c d) -> lookup_cls ct c = Some k -> c_frozen k = false ->
    is_sentinel v = false -> no_inval k ->
    mutate_attr ct rec l a v true tc false false s =
    match (if tc then match lookup_attr k a with
                      | Some sp => check_type FUEL ct (heap s) v (a_ty sp)
                      | None => true end
           else true) with
    | true => (Ok (VRef l), upd s l (OInst c (assoc_set a v d)))
    | false => (Err TypeErr, s)
    end.
  Proof.
    intros Hl Hc Hf Hs Hn. unfold mutate_attr. rewrite Hs.
    rewrite (bind_ok _ _ _ _ _ (read_inst_at l s c d Hl)). cbn [fst snd].
    rewrite (bind_ok _ _ _ _ _ (cls_of_at ct c s k Hc)).
    rewrite Hf, andb_false_r. rewrite bind_ret.
    assert (Hlen : l < length (heap s)) by (apply nth_error_Some; congruence).
    assert (Hstore : forall s0, s0 = s ->
      (l' <- (if negb (true || c_dnc k) then v0 <- deepcopy ct (VRef l);; loc_of v0 else ret l);;
       value <- (if negb (true || c_dnc k) && same_object (assoc a d) v
                 then p' <- read_inst l';; ret match assoc a (snd p') with Some v' => v' | None => v end
                 else ret v);;
       thawed ct l' (negb (true || c_dnc k))
         (raw_setattr l' a value;;; (if false then ret tt else invalidate_attrs ct rec l' a));;;
       ret (VRef l')) s0 = (Ok (VRef l), upd s l (OInst c (assoc_set a v d)))).
    { intros s0 ->. cbn [orb negb andb]. rewrite !bind_ret.
      unfold bind at 1. rewrite (thawed_false ct l _ s c d k Hl Hc).
      rewrite (bind_ok _ _ _ _ _ (raw_setattr_at l a v s c d Hl)).
      rewrite (invalidate_attrs_none l a _ c (assoc_set a v d) k); auto.
      now apply upd_at. }
    destruct tc.
    - destruct (lookup_attr k a) as [sp|].
      + rewrite bind_assoc.
        rewrite (bind_ok (check_typeM ct v (a_ty sp)) _ s (check_type FUEL ct (heap s) v (a_ty sp)) s eq_refl).
        destruct (check_type FUEL ct (heap s) v (a_ty sp)).
        * rewrite bind_ret. now apply Hstore.
        * reflexivity.
      + rewrite bind_ret. now apply Hstore.
    - destruct (lookup_attr k a); rewrite bind_ret; now apply Hstore.
  Qed.
End RunStore.

(* ------------------------------------------------------------------ *)
(** * Scalars: type check, pure functions, the value procedure *)

Definition nonref (v : val) : bool := match v with VRef _ => false | _ => true end.
(* a proper scalar: not a reference, not a sentinel *)
Definition vscalar (v : val) : bool :=
  match v with VRef _ | VMissing | VEmpty | VUnchanged => false | _ => true end.

Fixpoint ty_depth (t : ty) : nat :=
  match t with
  | TOpt t' => S (ty_depth t')
  | TUnion a b => S (Nat.max (ty_depth a) (ty_depth b))
  | TList t' => S (ty_depth t') | TSet t' => S (ty_depth t')
  | TDict a b => S (Nat.max (ty_depth a) (ty_depth b))
  | _ => 0
  end.

Lemma check_type_nonref ct h v : nonref v = true ->
  forall t f, ty_depth t < f -> check_type f ct h v t = conforms ct t (abs0 v).
Proof.
  intros Hv t. induction t; intros [|f] Hd; try lia; simpl in Hd; simpl;
    try (destruct v; simpl in *; try discriminate; reflexivity).
  - rewrite IHt by lia. destruct v; simpl in *; try discriminate; reflexivity.
  - rewrite IHt1, IHt2 by lia. reflexivity.
Qed.

Lemma abs_nonref_eq n h v : nonref v = true -> abs n h v = abs0 v.
Proof. intro H. apply abs_nonref. destruct v; simpl in *; auto; discriminate. Qed.

Lemma vscalar_nonref v : vscalar v = true -> nonref v = true.
Proof. destruct v; simpl; auto. Qed.

(* the pure functions of the pool that map scalars to scalars *)
Definition scalar_fn (f : fn) : bool :=
  match f with
  | FId | FAddInt _ => true
  | FConst c => vscalar c
  | _ => false
  end.

Definition ticked (s : state) : state := mkst (heap s) (S (ncalls s)) (fail_at s).

Lemma tick_run s : fail_at s = None -> tick s = (Ok tt, ticked s).
Proof. intro H. unfold tick, ticked. now rewrite H. Qed.

Lemma apply_fn_scalar f v s : fail_at s = None -> scalar_fn f = true -> vscalar v = true ->
  match afn f (abs0 v) with
  | SOk a => exists v', apply_fn f v s = (Ok v', ticked s) /\ a = abs0 v' /\ vscalar v' = true
  | SErr e => apply_fn f v s = (Err e, ticked s)
  | _ => False
  end.
Proof.
  intros Hs Hf Hv. unfold apply_fn. rewrite (bind_ok _ _ _ _ _ (tick_run s Hs)).
  destruct f; simpl in Hf; try discriminate.
  - simpl. exists v. repeat split; auto.
  - destruct v; simpl in *; try discriminate; try reflexivity; eexists; repeat split.
  - destruct v0; simpl in *; try discriminate; eexists; repeat split.
Qed.

Section ValueProc.
  Variable ct : ctable.
  Variable rec : call -> M val.

  (* steps 3-8 do nothing to a proper scalar when there are no keywords and no transforms *)
  Lemma mutate_value_scalar old new replace ctor ety inp s :
    vscalar new = true ->
    mutate_value ct rec (mkmv old new replace PNone None (Some ctor) (Some ety) None [] inp) s = (Ok new, s).
  Proof. intro H. destruct new; simpl in H; try discriminate; reflexivity. Qed.

  Lemma mutate_value_scalar_prep old new replace f ctor ety inp s :
    fail_at s = None -> scalar_fn f = true -> vscalar new = true ->
    match afn f (abs0 new) with
    | SOk a => exists v', mutate_value ct rec (mkmv old new replace (PAttr f) None (Some ctor) (Some ety) None [] inp) s
                          = (Ok v', ticked s) /\ a = abs0 v' /\ vscalar v' = true
    | SErr e => mutate_value ct rec (mkmv old new replace (PAttr f) None (Some ctor) (Some ety) None [] inp) s
                = (Err e, ticked s)
    | _ => False
    end.
  Proof.
    intros Hs Hf Hv. pose proof (apply_fn_scalar f new s Hs Hf Hv) as H.
    destruct (afn f (abs0 new)) as [a|e| |]; auto.
    - destruct H as [v' [H1 [H2 H3]]]. exists v'. split; auto.
      assert (E : mutate_value ct rec (mkmv old new replace (PAttr f) None (Some ctor) (Some ety) None [] inp) s =
                  bind (apply_fn f new) (fun value1 =>
                    mutate_value ct rec (mkmv old value1 replace PNone None (Some ctor) (Some ety) None [] inp)) s).
      { destruct new; simpl in Hv; try discriminate; unfold mutate_value; cbn [mv_new]; unfold mutate_value_body;
          cbn [mv_new mv_old mv_replace mv_prepare is_missing negb andb orb];
          rewrite (bind_ok _ _ _ _ _ H1); rewrite (bind_ok _ _ _ _ _ H1);
          destruct v'; simpl in H3; try discriminate; reflexivity. }
      rewrite E, (bind_ok _ _ _ _ _ H1). now apply mutate_value_scalar.
    - destruct new; simpl in Hv; try discriminate; unfold mutate_value; cbn [mv_new]; unfold mutate_value_body;
        cbn [mv_new mv_old mv_replace mv_prepare is_missing negb andb orb];
        rewrite (bind_err _ _ _ _ _ H); reflexivity.
  Qed.
End ValueProc.

(* ------------------------------------------------------------------ *)
(** * C05 refinement, layer (i)+(ii): with_<a>(v, _inplace=True) on a scalar attribute *)

Lemma invalidatees_none k a : no_inval k -> invalidatees k a = [].
Proof.
  intro H. unfold invalidatees. cbn [inval_close].
  assert (E : forall l0, fold_left (fun l sp => if depends_on sp a && negb (in_names (a_name sp) ([a] ++ l))
                                               then l ++ [a_name sp] else l) (c_attrs k) l0 = l0).
  { unfold no_inval in H. revert H. generalize (c_attrs k). intro l. induction l as [|sp l IH]; intros H l0; cbn [fold_left]; auto.
    assert (depends_on sp a = false) as -> by (unfold depends_on; rewrite (H sp) by (simpl; auto); reflexivity).
    cbn [andb]. apply IH. intros; apply H; simpl; auto. }
  rewrite E. cbn [app]. destruct (length (c_attrs k)); reflexivity.
Qed.

Lemma heap_ticked s : heap (ticked s) = heap s.
Proof. reflexivity. Qed.
Lemma heap_upd s l o : heap (upd s l o) = set_nth l o (heap s).
Proof. reflexivity. Qed.

Section WithScalar.
  Variable ct : ctable.
  Variable h0 : list obj.

  Variables (l : loc) (a : aid) (c : cid) (d : list (aid * val)) (k : cls) (sp : attr_spec).
  Variable s : state.
  Hypothesis Hl : nth_error (heap s) l = Some (OInst c d).
  Hypothesis Hc : lookup_cls ct c = Some k.
  Hypothesis Ha : lookup_attr k a = Some sp.
  Hypothesis Hd : NoDup (map fst d).
  Hypothesis Hok : aok (absv (heap s) (VRef l)) = true.
  Hypothesis Hfz : c_frozen k = false.
  Hypothesis Hni : no_inval k.
  Hypothesis Hfa : fail_at s = None.
  Hypothesis Hty : ty_depth (a_ty sp) < FUEL.
  Hypothesis Hnc : ty_is_collection (a_ty sp) = false.

  Let flds := map (fun p => (fst p, abs 23 (heap s) (snd p))) (sorted_fields d).

  Lemma Hok' : aok (abs (S 23) (heap s) (VRef l)) = true.
  Proof. rewrite <- absv_unfold. exact Hok. Qed.

  Lemma absv_recv : absv (heap s) (VRef l) = AInst c flds.
  Proof. rewrite absv_unfold. now rewrite (abs_inst _ l c d 23 Hl). Qed.

  Lemma a_name_sp : a_name sp = a.
  Proof. unfold lookup_attr in Ha. apply find_some in Ha. destruct Ha as [_ E]. now apply Nat.eqb_eq in E. Qed.

  (* the state after storing the proper scalar v' into attribute a *)
  Lemma abs_after_store s1 v' :
    heap s1 = heap s -> vscalar v' = true ->
    absv (heap (upd s1 l (OInst c (assoc_set a v' d)))) (VRef l) = AInst c (fset a (abs0 v') flds).
  Proof.
    intros Hh Hv. rewrite heap_upd, Hh. rewrite absv_unfold.
    rewrite (abs_inst_update (heap s) l c d 23 a v' Hl Hd Hok').
    - rewrite (abs_nonref_eq 23 (heap s) v') by (now apply vscalar_nonref). reflexivity.
    - intro o. rewrite !abs_nonref_eq by (now apply vscalar_nonref). reflexivity.
  Qed.

  (* the specification's store of a proper scalar *)
  Lemma spec_store_scalar rec v' : vscalar v' = true ->
    store ct rec (AInst c flds) sp (abs0 v') true =
    if conforms ct (a_ty sp) (abs0 v') then SOk (AInst c (fset a (abs0 v') flds)) else SErr TypeErr.
  Proof.
    intro Hv. unfold store.
    assert (a_is_sentinel (abs0 v') = false) as ->
      by (destruct v'; cbn [vscalar] in Hv; try discriminate; reflexivity).
    destruct (conforms ct (a_ty sp) (abs0 v')); cbn [negb]; auto.
    rewrite a_name_sp. unfold invalidate, cls_for. rewrite Hc. cbn [sbind].
    rewrite invalidatees_none by auto. reflexivity.
  Qed.

  (* the model's store of a proper scalar, in place *)
  Lemma model_store_scalar rec s1 v' :
    heap s1 = heap s -> vscalar v' = true ->
    mutate_attr ct rec l a v' true true false false s1 =
    if conforms ct (a_ty sp) (abs0 v')
    then (Ok (VRef l), upd s1 l (OInst c (assoc_set a v' d))) else (Err TypeErr, s1).
  Proof.
    intros Hh Hv.
    rewrite (mutate_attr_inplace_run ct rec l a v' true s1 c d k); auto.
    - rewrite Ha, Hh. rewrite check_type_nonref by (auto using vscalar_nonref). reflexivity.
    - now rewrite Hh.
    - destruct v'; cbn [vscalar] in Hv; try discriminate; reflexivity.
  Qed.

  (* the in-place store of a proper scalar through with_<a> / assignment, for every
     recursion budget S f of the dispatcher *)
  Theorem with_gen_scalar_refines f0 v :
    vscalar v = true ->
    match a_prepare sp with Some f => scalar_fn f = true | None => True end ->
    let ah := mkah [abs0 v] true true AMissing false None None [] None in
    match with_inplace_gen ct (exec ct (S f0)) l a v s with
    | (Ok r, s') => r = VRef l /\
                    spec_helper ct h0 (absv (heap s) (VRef l)) (SWith a) ah = SOk (absv (heap s') (VRef l))
    | (Err e, s') => spec_helper ct h0 (absv (heap s) (VRef l)) (SWith a) ah = SErr e /\ heap s' = heap s
    end.
  Proof.
    intros Hv Hp ah.
    (* the specification side *)
    assert (Hspec : spec_helper ct h0 (absv (heap s) (VRef l)) (SWith a) ah =
                    (pv <~ (match a_prepare sp with Some f => afn f (abs0 v) | None => SOk (abs0 v) end) ;;
                     store ct (sexec ct h0 SFUEL) (AInst c flds) sp pv true)).
    { rewrite absv_recv. unfold spec_helper, ah. cbn [ah_if negb mutates_in_place ah_inplace andb].
      unfold frozen_class. rewrite Hc, Hfz. cbn [andb]. unfold spec_unfrozen, spec_with, cls_for.
      rewrite Hc. cbn [sbind]. rewrite Ha. unfold apos0. cbn [ah_pos nth ah_kw].
      unfold prepared. rewrite Hnc.
      destruct (a_prepare sp) as [f|].
      - destruct f as [|z|c0| | | |]; cbn [scalar_fn] in Hp; try discriminate;
          [| |destruct c0; cbn [vscalar] in Hp; try discriminate];
          destruct v as [| | | |[|]| | | |]; cbn [vscalar] in Hv; try discriminate; reflexivity.
      - destruct v; cbn [vscalar] in Hv; try discriminate; reflexivity. }
    (* the model side *)
    unfold with_inplace_gen.
    assert (Hsf : spec_for ct l a s = (Ok (k, sp), s)).
    { unfold spec_for. rewrite (bind_ok _ _ _ _ _ (read_inst_at l s c d Hl)). cbn [fst].
      rewrite (bind_ok _ _ _ _ _ (cls_of_at ct c s k Hc)). now rewrite Ha. }
    rewrite (bind_ok _ _ _ _ _ Hsf). cbn [snd]. unfold prepare_attr_value.
    rewrite Hnc. rewrite a_name_sp.
    destruct (a_prepare sp) as [f|].
    - pose proof (mutate_value_scalar_prep ct (exec ct f0) VMissing v false f (ctor_of_ty (a_ty sp)) (a_ty sp) false s Hfa Hp Hv) as Hm.
      rewrite Hspec. destruct (afn f (abs0 v)) as [pv|e| |]; try contradiction.
      + destruct Hm as [v' [Hm [-> Hv']]].
        assert (E : (match v with VUnchanged => ret VUnchanged
                     | _ => v0 <- exec ct (S f0) (KMutateValue (mkmv VMissing v false (PAttr f) None
                                   (Some (ctor_of_ty (a_ty sp))) (Some (a_ty sp)) None [] false));; ret v0 end) s
                    = (Ok v', ticked s)).
        { destruct v; cbn [vscalar] in Hv; try discriminate; rewrite exec_S; cbn [body]; rewrite (bind_ok _ _ _ _ _ Hm); reflexivity. }
        rewrite (bind_ok _ _ _ _ _ E). cbn [sbind].
        rewrite (model_store_scalar _ (ticked s) v' (heap_ticked s) Hv'), spec_store_scalar by auto.
        destruct (conforms ct (a_ty sp) (abs0 v')).
        * split; auto. now rewrite (abs_after_store (ticked s) v' (heap_ticked s) Hv').
        * split; auto.
      + assert (E : (match v with VUnchanged => ret VUnchanged
                     | _ => v0 <- exec ct (S f0) (KMutateValue (mkmv VMissing v false (PAttr f) None
                                   (Some (ctor_of_ty (a_ty sp))) (Some (a_ty sp)) None [] false));; ret v0 end) s
                    = (Err e, ticked s)).
        { destruct v; cbn [vscalar] in Hv; try discriminate; rewrite exec_S; cbn [body]; rewrite (bind_err _ _ _ _ _ Hm); reflexivity. }
        rewrite (bind_err _ _ _ _ _ E). cbn [sbind]. split; auto.
    - assert (E : (match v with VUnchanged => ret VUnchanged
                   | _ => v0 <- exec ct (S f0) (KMutateValue (mkmv VMissing v false PNone None
                                 (Some (ctor_of_ty (a_ty sp))) (Some (a_ty sp)) None [] false));; ret v0 end) s
                  = (Ok v, s)).
      { destruct v; cbn [vscalar] in Hv; try discriminate; rewrite exec_S; cbn [body];
          (erewrite bind_ok; [reflexivity|apply mutate_value_scalar; reflexivity]). }
      rewrite (bind_ok _ _ _ _ _ E). rewrite Hspec. cbn [sbind].
      rewrite (model_store_scalar _ s v eq_refl Hv), spec_store_scalar by auto.
      destruct (conforms ct (a_ty sp) (abs0 v)).
      + split; auto. now rewrite (abs_after_store s v eq_refl Hv).
      + split; auto.
  Qed.

  (* with_<a>(v, _inplace=True) *)
  Corollary with_scalar_inplace_refines v :
    vscalar v = true ->
    match a_prepare sp with Some f => scalar_fn f = true | None => True end ->
    let h := mkh [v] true true VMissing false None None [] None in
    let ah := mkah [abs0 v] true true AMissing false None None [] None in
    match run_helper ct l (HWith a) h s with
    | (Ok r, s') => r = VRef l /\
                    spec_helper ct h0 (absv (heap s) (VRef l)) (SWith a) ah = SOk (absv (heap s') (VRef l))
    | (Err e, s') => spec_helper ct h0 (absv (heap s) (VRef l)) (SWith a) ah = SErr e /\ heap s' = heap s
    end.
  Proof.
    intros Hv Hp h ah. unfold h. rewrite run_helper_with_inplace, XFUEL_S.
    exact (with_gen_scalar_refines 39 v Hv Hp).
  Qed.

  (* obj.a = v : the same specification (SSetAttrOp is specified as with_<a> in place) *)
  Corollary setattr_scalar_refines roots x v :
    nth x roots VNone = VRef l ->
    vscalar v = true ->
    match a_prepare sp with Some f => scalar_fn f = true | None => True end ->
    let ah := mkah [abs0 v] true true AMissing false None None [] None in
    match step ct roots (OpSetAttr x a v) s with
    | (Ok r, s') => spec_helper ct h0 (absv (heap s) (VRef l)) (SSetAttrOp a) ah = SOk (absv (heap s') (VRef l))
    | (Err e, s') => spec_helper ct h0 (absv (heap s) (VRef l)) (SSetAttrOp a) ah = SErr e /\ heap s' = heap s
    end.
  Proof.
    intros Hx Hv Hp ah. rewrite (step_setattr ct roots x a v l s Hx).
    assert (Hman : forall c0 d0 k0, nth_error (heap s) l = Some (OInst c0 d0) -> lookup_cls ct c0 = Some k0 ->
                                    lookup_attr k0 a <> None).
    { intros c0 d0 k0 E1 E2. rewrite Hl in E1. inversion E1; subst. rewrite Hc in E2. inversion E2; subst.
      rewrite Ha. discriminate. }
    unfold bind. rewrite (setattr_is_with_inplace ct (exec ct 39) l a v s Hman).
    pose proof (with_gen_scalar_refines 38 v Hv Hp) as H. cbv zeta in H.
    assert (Hsame : spec_helper ct h0 (absv (heap s) (VRef l)) (SSetAttrOp a) ah =
                    spec_helper ct h0 (absv (heap s) (VRef l)) (SWith a) ah).
    { rewrite absv_recv. unfold spec_helper, ah. cbn [ah_if negb mutates_in_place ah_inplace andb].
      unfold frozen_class. rewrite Hc, Hfz. reflexivity. }
    rewrite Hsame.
    destruct (with_inplace_gen ct (exec ct 39) l a v s) as [[r|e] s']; [destruct H as [_ H]|]; exact H.
  Qed.
End WithScalar.
