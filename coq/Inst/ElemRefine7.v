(* C06: seventh layer: the copy-on-write flag for update_<item> and
   transform_<item> on a list attribute of proper scalars (the in-place
   versions are in ElemRefine3.v, the copy frame in ElemRefine6.v). *)
From Coq Require Import List ZArith Bool Arith Lia.
From SC Require Import Base.Res Base.PyList Inst.Heap Inst.ClassTable Inst.Model Inst.Canon
  Inst.Abs Inst.SpecHelpers Inst.ElemProofs Inst.Framed Inst.RefineProofs Inst.CopyProofs Inst.ElemRefineDep Inst.CopyStore
  Inst.ElemRefine Inst.ElemRefine2 Inst.ElemRefine3 Inst.ElemRefine4 Inst.ElemRefine5 Inst.ElemRefine6.
Import ListNotations.
Open Scope nat_scope.

#[local] Opaque FUEL.
Local Opaque py_eq.

(* ------------------------------------------------------------------ *)
(** * The pool functions on scalars, as a pure function *)

Definition pool_apply (f : fn) (v : val) : res val :=
  match f with
  | FId => Ok v
  | FAddInt z => match v with
                 | VInt x => Ok (VInt (x + z)%Z)
                 | VBool b => Ok (VInt ((if b then 1 else 0) + z)%Z)
                 | _ => Err TypeErr end
  | FConst c => Ok c
  | FRaise => Err UserErr
  | _ => Err RuntimeErr
  end.

Lemma pool_apply_run f v s : fail_at s = None -> pool_fn f = true -> vscalar v = true ->
  apply_fn f v s = (pool_apply f v, ticked s).
Proof.
  intros Hs Hf Hv. unfold apply_fn. rewrite (bind_ok _ _ _ _ _ (tick_run s Hs)).
  destruct f; cbn [pool_fn scalar_fn orb] in Hf; try discriminate; cbn [pool_apply]; try reflexivity.
  - destruct v; cbn [vscalar] in Hv; try discriminate; reflexivity.
  - destruct v0; cbn [vscalar] in Hf; try discriminate; reflexivity.
Qed.

Lemma pool_apply_scalar f v v' : pool_fn f = true -> vscalar v = true -> pool_apply f v = Ok v' -> vscalar v' = true.
Proof.
  intros Hf Hv. destruct f; cbn [pool_fn scalar_fn orb] in Hf; try discriminate; cbn [pool_apply].
  - intro E; inversion E; subst; auto.
  - destruct v; cbn [vscalar] in Hv; try discriminate; intro E; inversion E; reflexivity.
  - intro E; inversion E; subst. destruct v'; cbn [vscalar] in Hf |- *; auto.
Qed.

Lemma pool_apply_afn f v : pool_fn f = true -> vscalar v = true ->
  afn f (abs0 v) = match pool_apply f v with Ok v' => SOk (abs0 v') | Err e => SErr e end.
Proof.
  intros Hf Hv. destruct f; cbn [pool_fn scalar_fn orb] in Hf; try discriminate; cbn [pool_apply afn]; try reflexivity.
  destruct v; cbn [vscalar] in Hv; try discriminate; reflexivity.
Qed.

(* what the value procedure returns for the element it is handed (transform_<item>) *)
Definition trp (fo : option fn) (old : val) : res val :=
  if vscalar old then match fo with Some f => pool_apply f old | None => Ok old end
  else Err RuntimeErr.

(* the pure outcome of update_<item> / transform_<item> on a list *)
Definition list_change_fin (ct : ctable) (ity : ty) (xs : list val) (pr : val -> res val) (n : nat) : obj + err :=
  match pr (nth n xs VMissing) with
  | Ok v' => if conforms ct ity (abs0 v') then inl (OList (set_at n v' xs)) else inr ValueErr
  | Err e => inr e
  end.

Definition list_change_pure (ct : ctable) (ity : ty) (xs : list val) (voi : val) (bi : option bool)
           (pr : val -> res val) : obj + err :=
  if by_index_rule ct ity (abs0 voi) bi then
    match vint_of voi with
    | Some i => match norm_index (zlen xs) i with
                | Some n => list_change_fin ct ity xs pr n
                | None => inr IndexErr end
    | None => inr TypeErr
    end
  else match find_index (fun y => py_eq ct y (abs0 voi)) (map abs0 xs) with
       | Some n => list_change_fin ct ity xs pr n
       | None => inr ValueErr
       end.

(* ------------------------------------------------------------------ *)
(** * The code of update_<item> / transform_<item> after the mutator has been built *)

Definition update_tail (ct : ctable) (l : loc) (a : aid) (sp : attr_spec) (h : hargs) (c0 : val) : M val :=
  c' <- (match family_of (a_ty sp) with
         | Some FSeq =>
             mutate_collection ct (exec ct XFUEL) FSeq sp l c0
               (mkio (pos0 h) (pos1 h) (h_kw h) None [] false
                     (negb (is_missing (pos0 h))) (tri_of (h_by_index h)) false)
         | Some FMap =>
             mutate_collection ct (exec ct XFUEL) FMap sp l c0
               (mkio (pos0 h) (pos1 h) (h_kw h) None [] false true TriTrue false)
         | Some FSet =>
             mutate_collection ct (exec ct XFUEL) FSet sp l c0
               (mkio (pos0 h) (pos1 h) (h_kw h) None [] false
                     (negb (is_missing (pos0 h))) TriTrue false)
         | None => fail AttrErr end) ;;
  mutate_attr ct (exec ct XFUEL) l a c' (h_inplace h) false false false.

Lemma run_update_tail ct l a h s : h_if h = true ->
  run_helper ct l (HUpdateItem a) h s =
  bind (spec_for ct l a) (fun r => bind (mk_mutator ct (snd r) l (h_inplace h)) (update_tail ct l a (snd r) h)) s.
Proof. intro H. unfold run_helper. rewrite H. reflexivity. Qed.

Definition transform_tail (ct : ctable) (l : loc) (a : aid) (sp : attr_spec) (h : hargs) (c0 : val) : M val :=
  c' <- (match family_of (a_ty sp) with
         | Some fam =>
             mutate_collection ct (exec ct XFUEL) fam sp l c0
               (mkio (pos0 h) VMissing None
                     (match h_fn h with Some f => Some (XFn f, @None (attr_spec * loc)) | None => None end)
                     (h_kwfn h) false true (tri_of (h_by_index h)) false)
         | None => fail AttrErr end) ;;
  mutate_attr ct (exec ct XFUEL) l a c' (h_inplace h) false false false.

Lemma run_transform_tail ct l a h s : h_if h = true ->
  run_helper ct l (HTransformItem a) h s =
  bind (spec_for ct l a) (fun r => bind (mk_mutator ct (snd r) l (h_inplace h)) (transform_tail ct l a (snd r) h)) s.
Proof. intro H. unfold run_helper. rewrite H. reflexivity. Qed.

(* ------------------------------------------------------------------ *)
(** * Copy-on-write update_<item> / transform_<item> on a list attribute of proper scalars *)

Section CopyChange.
  Variable ct : ctable.
  Variable h0 : list obj.
  Variables (l : loc) (a : aid) (c : cid) (d : list (aid * val)) (k : cls) (sp : attr_spec).
  Variable s : state.
  Variables (lc : loc) (xs : list val) (ity : ty).
  Hypothesis Hl : nth_error (heap s) l = Some (OInst c d).
  Hypothesis Hc : lookup_cls ct c = Some k.
  Hypothesis Ha : lookup_attr k a = Some sp.
  Hypothesis Hd : NoDup (map fst d).
  Hypothesis Hdnc : c_dnc k = false.
  Hypothesis Hpc : c_post_copy k = None.
  Hypothesis Hni : no_dep k a.
  Hypothesis Hty : a_ty sp = TList ity.
  Hypothesis Hdepth : ty_depth ity < FUEL.
  Hypothesis Hfld : assoc a d = Some (VRef lc).
  Hypothesis Hlc : nth_error (heap s) lc = Some (OList xs).
  Hypothesis Hxs : forallb vscalar xs = true.
  Hypothesis Hflat : flat_fields (heap s) d.
  Hypothesis Hinit : assoc A_INITIALIZING d = None.
  Hypothesis Ha0 : a <> A_INITIALIZING.

  Lemma cc_xn : forallb nonref xs = true.
  Proof. now apply vscalar_forall_nonref. Qed.

  Lemma cc_coll : ty_is_collection (a_ty sp) = true.
  Proof. now rewrite Hty. Qed.

  Section Generic.
    Variable new : val.
    Variable x : option (xform * option (attr_spec * loc)).
    Variable okold : val -> Prop.
    Variable pr : val -> res val.
    Variable stf : state -> state.
    Hypothesis Hstf : forall s1, heap (stf s1) = heap s1.
    Hypothesis Hmv : forall s1, fail_at s1 = fail_at s -> forall old, okold old ->
      mutate_value ct (exec ct 39) (mkmv old new false (PItem sp l) None (Some (ctor_of_ty ity)) (Some ity) x [] false) s1
      = (pr old, stf s1).
    Hypothesis Hpr : forall old v', pr old = Ok v' -> nonref v' = true.
    Hypothesis Hin : forall old, In old xs -> okold old.

    Lemma cc_whole voi bi (hp : shelper) (ah : ahargs) (transform : bool) (res : res val * state) :
      nonref voi = true -> is_missing voi = false ->
      (by_index_rule ct ity (abs0 voi) bi = false ->
       forall n, find_index (fun y => py_eq ct y (abs0 voi)) (map abs0 xs) = Some n ->
                 okold voi /\ pr voi = pr (nth n xs VMissing)) ->
      apos0 ah = abs0 voi -> ah_by_index ah = bi ->
      (forall old, In old xs ->
         elem_pipeline ct h0 sp (abs0 old) (if transform then AMissing else apos1 ah) false
                       (if transform then None else ah_kw ah) (if transform then ah_fn ah else None)
                       (if transform then ah_kwfn ah else []) =
         match pr old with
         | Ok v' => if conforms ct ity (abs0 v') then SOk (abs0 v') else SErr ValueErr
         | Err e => SErr e end) ->
      ah_if ah = true -> mutates_in_place hp ah = false ->
      spec_unfrozen ct h0 (AInst c (map (fun p => (fst p, abs 23 (heap s) (snd p))) (sorted_fields d))) hp ah =
        spec_elem_helper ct h0 (AInst c (map (fun p => (fst p, abs 23 (heap s) (snd p))) (sorted_fields d))) a ah
                         (fun sp c h => spec_change_item ct h0 sp c h transform) ->
      res = bind (mk_mutator ct sp l false)
                 (fun c0 => c' <- mutate_collection ct (exec ct XFUEL) FSeq sp l c0
                                    (mkio voi new None x [] false true (tri_of bi) false) ;;
                            mutate_attr ct (exec ct XFUEL) l a c' false false false false) s ->
      match res with
      | (Ok r, s') => exists l', r = VRef l' /\ length (heap s) <= l' /\ old_cells_kept s s' /\
                      spec_helper ct h0 (absv (heap s) (VRef l)) hp ah = SOk (absv (heap s') (VRef l'))
      | (Err e, s') => spec_helper ct h0 (absv (heap s) (VRef l)) hp ah = SErr e /\ old_cells_kept s s'
      end.
    Proof.
      intros Hv Hm Hval Hp0 Hbi Hpipe Hif Hmp Hun Hres.
      apply (fc_whole_gen ct h0 l a c d k sp s lc (OList xs) Hl Hc Ha Hd Hdnc Hpc Hni cc_coll Hfld Hlc cc_xn Hflat Hinit Ha0
               (fun c0 => c' <- mutate_collection ct (exec ct XFUEL) FSeq sp l c0
                                  (mkio voi new None x [] false true (tri_of bi) false) ;;
                          mutate_attr ct (exec ct XFUEL) l a c' false false false false)
               (list_change_pure ct ity xs voi bi pr))
        with (edit := fun sp c h => spec_change_item ct h0 sp c h transform); auto.
      - (* the tail of the model *)
        intros s1 lc1 Hlc1 Hfa1.
        pose proof (mc_change ct l sp s1 lc1 xs ity Hty Hdepth Hlc1 Hxs new x okold pr (stf s1) (Hstf s1)
                      (Hmv s1 Hfa1) Hpr Hin voi bi Hv Hm Hval) as Hmc.
        unfold list_change_pure.
        assert (Hfin : forall n, mutate_collection ct (exec ct XFUEL) FSeq sp l (VRef lc1)
                                   (mkio voi new None x [] false true (tri_of bi) false) s1 =
                                 ch_finish ct lc1 xs ity pr (stf s1) n ->
                  exists st, heap st = heap s1 /\
                    (c' <- mutate_collection ct (exec ct XFUEL) FSeq sp l (VRef lc1)
                             (mkio voi new None x [] false true (tri_of bi) false) ;;
                     mutate_attr ct (exec ct XFUEL) l a c' false false false false) s1 =
                    match list_change_fin ct ity xs pr n with
                    | inl o' => mutate_attr ct (exec ct XFUEL) l a (VRef lc1) false false false false (upd st lc1 o')
                    | inr e => (Err e, st) end).
        { intros n E. exists (stf s1). split; [apply Hstf|]. unfold ch_finish in E. unfold list_change_fin.
          destruct (pr (nth n xs VMissing)) as [v'|e]; [|now rewrite (bind_err _ _ _ _ _ E)].
          destruct (conforms ct ity (abs0 v')); [now rewrite (bind_ok _ _ _ _ _ E)|now rewrite (bind_err _ _ _ _ _ E)]. }
        destruct (by_index_rule ct ity (abs0 voi) bi).
        + destruct (vint_of voi) as [i|]; [|exists s1; split; auto; now rewrite (bind_err _ _ _ _ _ Hmc)].
          destruct (norm_index (zlen xs) i) as [n|]; [|exists s1; split; auto; now rewrite (bind_err _ _ _ _ _ Hmc)].
          now apply Hfin.
        + destruct (find_index (fun y => py_eq ct y (abs0 voi)) (map abs0 xs)) as [n|];
            [|exists s1; split; auto; now rewrite (bind_err _ _ _ _ _ Hmc)].
          now apply Hfin.
      - (* the new content is a list of scalars *)
        intros o'. unfold list_change_pure, list_change_fin. intro E.
        assert (H1 : forall n v', pr (nth n xs VMissing) = Ok v' -> forallb nonref (set_at n v' xs) = true).
        { intros n v' Ep. apply forallb_set_at; [apply cc_xn|exact (Hpr _ _ Ep)]. }
        destruct (by_index_rule ct ity (abs0 voi) bi).
        + destruct (vint_of voi) as [i|]; [|discriminate].
          destruct (norm_index (zlen xs) i) as [n|]; [|discriminate].
          destruct (pr (nth n xs VMissing)) as [v'|e] eqn:Ep; [|discriminate].
          destruct (conforms ct ity (abs0 v')); inversion E; subst. now apply H1.
        + destruct (find_index _ (map abs0 xs)) as [n|]; [|discriminate].
          destruct (pr (nth n xs VMissing)) as [v'|e] eqn:Ep; [|discriminate].
          destruct (conforms ct ity (abs0 v')); inversion E; subst. now apply H1.
      - (* the specification of the edit *)
        change (aobj (OList xs)) with (AList (map abs0 xs)).
        rewrite <- (abs_list_scalars (heap s) lc xs 22 Hlc cc_xn).
        rewrite (ch_spec ct h0 sp s lc xs ity Hty Hlc Hxs pr ah transform voi bi Hm Hp0 Hbi Hpipe).
        unfold list_change_pure, list_change_fin, ch_spec_finish.
        destruct (by_index_rule ct ity (abs0 voi) bi).
        + destruct (vint_of voi) as [i|]; [|reflexivity].
          destruct (norm_index (zlen xs) i) as [n|]; [|reflexivity].
          destruct (pr (nth n xs VMissing)) as [v'|e]; [|reflexivity].
          destruct (conforms ct ity (abs0 v')); [|reflexivity]. cbn [aobj]. now rewrite map_set_at.
        + destruct (find_index _ (map abs0 xs)) as [n|]; [|reflexivity].
          destruct (pr (nth n xs VMissing)) as [v'|e]; [|reflexivity].
          destruct (conforms ct ity (abs0 v')); [|reflexivity]. cbn [aobj]. now rewrite map_set_at.
    Qed.
  End Generic.

  (* ---------------- transform_<item> ---------------- *)

  Theorem transform_item_list_copy_refines voi fo bi :
    nonref voi = true -> is_missing voi = false -> fail_at s = None ->
    match fo with Some f => pool_fn f = true | None => True end ->
    (by_index_rule ct ity (abs0 voi) bi = false -> ident_on_eq ct xs voi = true) ->
    copy_refines_spec ct h0 s l (HTransformItem a) (mkh [voi] false true VMissing false bi None [] fo)
                      (STransformItem a) (mkah [abs0 voi] false true AMissing false bi None [] fo).
  Proof.
    intros Hv Hm Hfa Hfo Hid. unfold copy_refines_spec.
    set (h := mkh [voi] false true VMissing false bi None [] fo).
    set (ah := mkah [abs0 voi] false true AMissing false bi None [] fo).
    set (x := match fo with Some f => Some (XFn f, @None (attr_spec * loc)) | None => None end).
    set (stf := fun s1 : state => match fo with Some _ => ticked s1 | None => s1 end).
    assert (Hstf : forall s1, heap (stf s1) = heap s1) by (intro s1; unfold stf; destruct fo; reflexivity).
    assert (Hin : forall old, In old xs -> vscalar old = true).
    { intros old Ho. rewrite forallb_forall in Hxs. auto. }
    assert (Hmv : forall s1, fail_at s1 = fail_at s -> forall old, vscalar old = true ->
              mutate_value ct (exec ct 39) (mkmv old VMissing false (PItem sp l) None (Some (ctor_of_ty ity)) (Some ity) x [] false) s1
              = (trp fo old, stf s1)).
    { intros s1 Hf1 old Ho. unfold x. rewrite (mutate_value_transform_scalar ct (exec ct 39) sp ity l old fo s1 Ho).
      unfold trp, stf. rewrite Ho. destruct fo as [f|]; [|reflexivity].
      apply pool_apply_run; auto. congruence. }
    assert (Hpr : forall old v', trp fo old = Ok v' -> nonref v' = true).
    { intros old v'. unfold trp. destruct (vscalar old) eqn:Ho; [|discriminate].
      destruct fo as [f|]; [|intro E; inversion E; subst; now apply vscalar_nonref].
      intro E. apply vscalar_nonref. exact (pool_apply_scalar f old v' Hfo Ho E). }
    assert (Hval : by_index_rule ct ity (abs0 voi) bi = false ->
                   forall n, find_index (fun y => py_eq ct y (abs0 voi)) (map abs0 xs) = Some n ->
                     vscalar voi = true /\ trp fo voi = trp fo (nth n xs VMissing)).
    { intros Hb n Ef.
      assert (Hn : n < length xs) by (apply find_index_lt in Ef; now rewrite map_length in Ef).
      rewrite (ident_on_eq_found ct xs voi n cc_xn Hv (Hid Hb) Ef). split; auto.
      rewrite <- (ident_on_eq_found ct xs voi n cc_xn Hv (Hid Hb) Ef). apply Hin. now apply nth_In. }
    assert (Hpipe : forall old, In old xs ->
              elem_pipeline ct h0 sp (abs0 old) AMissing false None fo [] =
              match trp fo old with
              | Ok v' => if conforms ct ity (abs0 v') then SOk (abs0 v') else SErr ValueErr
              | Err e => SErr e end).
    { intros old Ho. pose proof (Hin old Ho) as Hso. unfold elem_pipeline. rewrite Hty. cbn [item_type].
      rewrite (spec_value_keep ct h0 sp ity old AMissing fo _ Hso eq_refl). unfold trp. rewrite Hso.
      destruct fo as [f|]; [|reflexivity].
      rewrite (pool_apply_afn f old Hfo Hso). destruct (pool_apply f old); reflexivity. }
    apply (cc_whole VMissing x (fun old => vscalar old = true) (trp fo) stf Hstf Hmv Hpr Hin
             voi bi (STransformItem a) ah true (run_helper ct l (HTransformItem a) h s)
             Hv Hm Hval eq_refl eq_refl Hpipe eq_refl eq_refl eq_refl).
    rewrite (run_transform_tail ct l a h s eq_refl).
    rewrite (bind_ok _ _ _ _ _ (fr_spec_for ct l a c d k sp s Hl Hc Ha)). cbn [snd].
    unfold transform_tail, h. rewrite Hty. reflexivity.
  Qed.

  (* ---------------- update_<item> ---------------- *)

  Theorem update_item_list_copy_refines voi v bi :
    a_prepare_item sp = None -> spec_of_ty_strict ity = None ->
    nonref voi = true -> is_missing voi = false -> nonref v = true ->
    (vscalar v = false -> by_index_rule ct ity (abs0 voi) bi = false -> ident_on_eq ct xs voi = true) ->
    copy_refines_spec ct h0 s l (HUpdateItem a) (mkh [voi; v] false true VMissing false bi None [] None)
                      (SUpdateItem a) (mkah [abs0 voi; abs0 v] false true AMissing false bi None [] None).
  Proof.
    intros Hprep Hstrict Hv Hm Hnv Hid. unfold copy_refines_spec.
    set (h := mkh [voi; v] false true VMissing false bi None [] None).
    set (ah := mkah [abs0 voi; abs0 v] false true AMissing false bi None [] None).
    set (okold := fun old : val => vscalar v = true \/ vscalar old = true).
    assert (Hmv : forall s1, fail_at s1 = fail_at s -> forall old, okold old ->
              mutate_value ct (exec ct 39) (mkmv old v false (PItem sp l) None (Some (ctor_of_ty ity)) (Some ity) None [] false) s1
              = (up_pr v old, s1)).
    { intros s1 _ old Ho. unfold up_pr. destruct (vscalar v) eqn:Esv.
      - now apply mutate_value_update_scalar.
      - destruct Ho as [Ho|Ho]; [discriminate|]. rewrite Ho. now apply mutate_value_update_sentinel. }
    assert (Hpr : forall old v', up_pr v old = Ok v' -> nonref v' = true).
    { intros old v'. unfold up_pr. destruct (vscalar v) eqn:Esv.
      - intro E; inversion E; subst; auto.
      - destruct (vscalar old) eqn:Eso; [|discriminate]. intro E; inversion E; subst. now apply vscalar_nonref. }
    assert (Hin : forall old, In old xs -> okold old).
    { intros old Ho. right. rewrite forallb_forall in Hxs. auto. }
    assert (Hval : by_index_rule ct ity (abs0 voi) bi = false ->
                   forall n, find_index (fun y => py_eq ct y (abs0 voi)) (map abs0 xs) = Some n ->
                     okold voi /\ up_pr v voi = up_pr v (nth n xs VMissing)).
    { intros Hb n Ef. unfold okold, up_pr. destruct (vscalar v) eqn:Esv; [split; auto|].
      assert (Hn : n < length xs) by (apply find_index_lt in Ef; now rewrite map_length in Ef).
      rewrite (ident_on_eq_found ct xs voi n cc_xn Hv (Hid eq_refl Hb) Ef). split; auto. right.
      rewrite <- (ident_on_eq_found ct xs voi n cc_xn Hv (Hid eq_refl Hb) Ef).
      rewrite forallb_forall in Hxs. apply Hxs. now apply nth_In. }
    assert (Hpipe : forall old, In old xs ->
              elem_pipeline ct h0 sp (abs0 old) (abs0 v) false None None [] =
              match up_pr v old with
              | Ok v' => if conforms ct ity (abs0 v') then SOk (abs0 v') else SErr ValueErr
              | Err e => SErr e end).
    { intros old Ho. unfold up_pr. destruct (vscalar v) eqn:Esv.
      - now apply (elem_pipeline_new_scalar ct h0 sp ity Hty).
      - assert (Hso : vscalar old = true) by (rewrite forallb_forall in Hxs; auto). rewrite Hso.
        unfold elem_pipeline. rewrite Hty. cbn [item_type].
        destruct v; cbn [vscalar nonref] in Esv, Hnv; try discriminate; cbn [abs0].
        + now rewrite (spec_value_keep ct h0 sp ity old AMissing None _ Hso eq_refl).
        + now rewrite (spec_value_keep ct h0 sp ity old AEmpty None _ Hso eq_refl).
        + reflexivity. }
    apply (cc_whole v None okold (up_pr v) (fun s1 => s1) (fun s1 => eq_refl) Hmv Hpr Hin
             voi bi (SUpdateItem a) ah false (run_helper ct l (HUpdateItem a) h s)
             Hv Hm Hval eq_refl eq_refl Hpipe eq_refl eq_refl eq_refl).
    rewrite (run_update_tail ct l a h s eq_refl).
    rewrite (bind_ok _ _ _ _ _ (fr_spec_for ct l a c d k sp s Hl Hc Ha)). cbn [snd].
    unfold update_tail, h. rewrite Hty. cbn [family_of pos0 pos1 h_pos nth h_kw h_by_index h_inplace]. rewrite Hm.
    reflexivity.
  Qed.
End CopyChange.
