(* C06: the side conditions of the element-helper refinement theorems
   (ElemRefine*.v) as ONE computable predicate over (class table, state,
   receiver, attribute), with its soundness, and the theorems restated under
   that predicate: nothing but the guard, the arguments of the call, the model
   run and the specification appear in the statements. *)
From Coq Require Import List ZArith Bool Arith Lia.
From SC Require Import Base.Res Base.PyList Inst.Heap Inst.ClassTable Inst.Model Inst.Canon
  Inst.Abs Inst.SpecHelpers Inst.ElemProofs Inst.Framed Inst.RefineProofs Inst.CopyProofs Inst.ElemRefineDep Inst.ElemRefine
  Inst.ElemRefine2 Inst.ElemRefine3 Inst.ElemRefine4 Inst.ElemRefine5 Inst.ElemRefine6 Inst.ElemRefine7 Inst.ElemRefine8 Inst.ElemRefine9 Inst.ElemRefine10 Inst.ElemRefine11 Inst.ElemRefine12 Inst.ElemRefine13 Inst.ElemRefine14 Inst.ElemRefine15 Inst.ElemRefine16.
Import ListNotations.
Open Scope nat_scope.

Local Opaque py_eq.

(* ------------------------------------------------------------------ *)
(** * Decision procedures for the side conditions *)

Fixpoint nodupb (l : list nat) : bool :=
  match l with
  | [] => true
  | x :: t => negb (existsb (Nat.eqb x) t) && nodupb t
  end.

Lemma nodupb_sound l : nodupb l = true -> NoDup l.
Proof.
  induction l as [|x t IH]; intro H; [constructor|].
  cbn [nodupb] in H. apply andb_true_iff in H. destruct H as [H1 H2]. constructor; auto.
  intro Hin. apply negb_true_iff in H1.
  assert (existsb (Nat.eqb x) t = true) by (apply existsb_exists; exists x; split; auto; apply Nat.eqb_refl).
  congruence.
Qed.

Definition flat_valb (h : list obj) (x : val) : bool :=
  match x with
  | VRef lx => match nth_error h lx with Some o => scalar_obj o | None => false end
  | _ => true
  end.
Definition flat_fieldsb (h : list obj) (d : list (aid * val)) : bool :=
  forallb (fun p => flat_valb h (snd p)) d.

Lemma flat_fieldsb_sound h d : flat_fieldsb h d = true -> flat_fields h d.
Proof.
  unfold flat_fieldsb, flat_fields. rewrite forallb_forall. intros H p Hp. specialize (H p Hp).
  unfold flat_val. destruct (snd p) as [| | | | | | | |lx] eqn:E; try (left; reflexivity).
  right. cbn [flat_valb] in H. destruct (nth_error h lx) as [o|] eqn:Eo; [|discriminate].
  exists lx, o. auto.
Qed.

Definition unsharedb (a : aid) (lc : loc) (d : list (aid * val)) : bool :=
  forallb (fun p => (fst p =? a) || negb (match snd p with VRef x => x =? lc | _ => false end)) d.

Lemma unsharedb_sound a lc d : unsharedb a lc d = true ->
  forall b w, In (b, w) d -> b <> a -> w <> VRef lc.
Proof.
  unfold unsharedb. rewrite forallb_forall. intros H b w Hin Hb Hw. specialize (H (b, w) Hin).
  cbn [fst snd] in H. subst w. rewrite Nat.eqb_refl in H. cbn [negb] in H. rewrite orb_false_r in H.
  apply Nat.eqb_eq in H. contradiction.
Qed.

(* ------------------------------------------------------------------ *)
(** * The guard *)

Inductive ckind := KList | KDict | KSet.

Definition kind_ok (kd : ckind) (t : ty) (o : obj) : bool :=
  match kd, t, o with
  | KList, TList _, OList _ => true
  | KDict, TDict _ _, ODict _ => true
  | KSet, TSet _, OSet _ => true
  | _, _, _ => false
  end.

(* the cell of the container held by attribute a of the instance at l, and the container *)
Definition attr_cell (s : state) (l : loc) (a : aid) : option loc :=
  match nth_error (heap s) l with
  | Some (OInst _ d) => match assoc a d with Some (VRef lc) => Some lc | _ => None end
  | _ => None
  end.
Definition attr_obj (s : state) (l : loc) (a : aid) : option obj :=
  match attr_cell s l a with Some lc => nth_error (heap s) lc | None => None end.
Definition list_of (s : state) (l : loc) (a : aid) : list val :=
  match attr_obj s l a with Some (OList xs) => xs | Some (OSet xs) => xs | _ => [] end.

Definition attr_spec_of (ct : ctable) (s : state) (l : loc) (a : aid) : option attr_spec :=
  match nth_error (heap s) l with
  | Some (OInst c _) => match lookup_cls ct c with Some k => lookup_attr k a | None => None end
  | _ => None
  end.

(* flat receiver of an unfrozen class in which nothing is invalidated by a, whose attribute a is declared
   as a list / dict / set and holds, unshared, a container of scalars of that family *)
Definition elem_guard (ct : ctable) (s : state) (l : loc) (a : aid) (kd : ckind) : bool :=
  match nth_error (heap s) l with
  | Some (OInst c d) =>
      match lookup_cls ct c with
      | Some k =>
          match lookup_attr k a, assoc a d with
          | Some sp, Some (VRef lc) =>
              match nth_error (heap s) lc with
              | Some o =>
                  nodupb (map fst d) && negb (c_frozen k) && no_depb k a
                  && (ty_depth (a_ty sp) <=? FUEL) && flat_fieldsb (heap s) d && unsharedb a lc d
                  && scalar_obj o && kind_ok kd (a_ty sp) o
              | None => false
              end
          | _, _ => false
          end
      | None => false
      end
  | _ => false
  end.

(* no item preparer, element type without spec class: a new element is taken as it is *)
Definition plain_items (ct : ctable) (s : state) (l : loc) (a : aid) : bool :=
  match attr_spec_of ct s l a with
  | Some sp => match a_prepare_item sp, spec_of_ty_strict (item_type (a_ty sp)) with
               | None, None => true | _, _ => false end
  | None => false
  end.

(* the list holds proper scalars only (no sentinel objects) *)
Definition proper_elems (s : state) (l : loc) (a : aid) : bool := forallb vscalar (list_of s l a).

Record guard_facts (ct : ctable) (s : state) (l : loc) (a : aid) (c : cid) (d : list (aid * val))
       (k : cls) (sp : attr_spec) (lc : loc) (o : obj) : Prop := mkgf {
  gf_l : nth_error (heap s) l = Some (OInst c d);
  gf_c : lookup_cls ct c = Some k;
  gf_a : lookup_attr k a = Some sp;
  gf_d : NoDup (map fst d);
  gf_fz : c_frozen k = false;
  gf_ni : no_dep k a;
  gf_dep : ty_depth (a_ty sp) <= FUEL;
  gf_fld : assoc a d = Some (VRef lc);
  gf_lc : nth_error (heap s) lc = Some o;
  gf_o : scalar_obj o = true;
  gf_flat : flat_fields (heap s) d;
  gf_sh : forall b w, In (b, w) d -> b <> a -> w <> VRef lc }.

Lemma elem_guard_sound ct s l a kd : elem_guard ct s l a kd = true ->
  exists c d k sp lc o, guard_facts ct s l a c d k sp lc o /\ kind_ok kd (a_ty sp) o = true /\
    attr_spec_of ct s l a = Some sp /\ attr_obj s l a = Some o.
Proof.
  unfold elem_guard, attr_spec_of, attr_obj, attr_cell. intro H.
  destruct (nth_error (heap s) l) as [[| | |c d]|] eqn:El; try discriminate.
  destruct (lookup_cls ct c) as [k|] eqn:Ec; try discriminate.
  destruct (lookup_attr k a) as [sp|] eqn:Ea; try discriminate.
  destruct (assoc a d) as [[| | | | | | | |lc]|] eqn:Ef; try discriminate.
  destruct (nth_error (heap s) lc) as [o|] eqn:Eo; try discriminate.
  repeat (apply andb_true_iff in H; destruct H as [H ?]).
  exists c, d, k, sp, lc, o. split; [|auto].
  constructor; auto.
  - now apply nodupb_sound.
  - now apply negb_true_iff.
  - now apply no_depb_sound.
  - now apply Nat.leb_le.
  - now apply flat_fieldsb_sound.
  - now apply unsharedb_sound.
Qed.

(* ------------------------------------------------------------------ *)
(** * The refinement statement *)

(* the model run of helper hp agrees with the specification: result state and error class *)
Definition refines_spec (ct : ctable) (h0 : list obj) (s : state) (l : loc)
           (hp : helper) (h : hargs) (shp : shelper) (ah : ahargs) : Prop :=
  match run_helper ct l hp h s with
  | (Ok r, s') => r = VRef l /\
                  spec_helper ct h0 (absv (heap s) (VRef l)) shp ah = SOk (absv (heap s') (VRef l))
  | (Err e, s') => spec_helper ct h0 (absv (heap s) (VRef l)) shp ah = SErr e /\ heap s' = heap s
  end.

Section Guarded.
  Variable ct : ctable.
  Variable h0 : list obj.
  Variable s : state.
  Variables (l : loc) (a : aid).

  Ltac list_facts H c d k sp lc xs ity G Hty :=
    destruct (elem_guard_sound ct s l a KList H) as [c [d [k [sp [lc [o [G [Hk [Hsp Hob]]]]]]]]];
    destruct (a_ty sp) as [| | | | | | |ity| |ity'|] eqn:Hty; try discriminate Hk;
    destruct o as [xs| | |]; try discriminate Hk.

  Lemma depth_list sp ity : a_ty sp = TList ity -> ty_depth (a_ty sp) <= FUEL -> ty_depth ity < FUEL.
  Proof. intros -> H. cbn [ty_depth] in H. lia. Qed.
  Lemma depth_set sp ity : a_ty sp = TSet ity -> ty_depth (a_ty sp) <= FUEL -> ty_depth ity < FUEL.
  Proof. intros -> H. cbn [ty_depth] in H. lia. Qed.
  Lemma depth_dict sp tk tv : a_ty sp = TDict tk tv -> ty_depth (a_ty sp) <= FUEL ->
    ty_depth tk < FUEL /\ ty_depth tv < FUEL.
  Proof. intros -> H. cbn [ty_depth] in H. lia. Qed.

  Lemma plain_items_facts sp : attr_spec_of ct s l a = Some sp -> plain_items ct s l a = true ->
    a_prepare_item sp = None /\ spec_of_ty_strict (item_type (a_ty sp)) = None.
  Proof.
    unfold plain_items. intros -> H. destruct (a_prepare_item sp); [discriminate|].
    destruct (spec_of_ty_strict (item_type (a_ty sp))); [discriminate|auto].
  Qed.

  Lemma list_of_list xs : attr_obj s l a = Some (OList xs) -> list_of s l a = xs.
  Proof. unfold list_of. now intros ->. Qed.
  Lemma list_of_set xs : attr_obj s l a = Some (OSet xs) -> list_of s l a = xs.
  Proof. unfold list_of. now intros ->. Qed.

  (* ---------------- lists ---------------- *)

  Theorem with_item_list_guarded idx v ins :
    elem_guard ct s l a KList = true -> plain_items ct s l a = true ->
    vscalar v = true -> (idx = VMissing \/ exists i, idx = VInt i) ->
    refines_spec ct h0 s l (HWithItem a) (mkh [v] true true idx ins None None [] None)
                 (SWithItem a) (mkah [abs0 v] true true (abs0 idx) ins None None [] None).
  Proof.
    intros H Hp Hv Hi. list_facts H c d k sp lc xs ity G Hty. destruct G.
    destruct (plain_items_facts sp Hsp Hp) as [P1 P2]. rewrite Hty in P2. cbn [item_type] in P2.
    exact (with_item_list_inplace_refines2 ct h0 l a c d k sp s lc xs ity gf_l0 gf_c0 gf_a0 gf_d0 gf_fz0 gf_ni0 Hty
             P1 P2 (depth_list sp ity Hty gf_dep0) gf_fld0 gf_lc0 gf_o0 gf_flat0 gf_sh0 idx v ins Hv Hi).
  Qed.

  Theorem without_item_list_guarded voi bi :
    elem_guard ct s l a KList = true -> nonref voi = true ->
    refines_spec ct h0 s l (HWithoutItem a) (mkh [voi] true true VMissing false bi None [] None)
                 (SWithoutItem a) (mkah [abs0 voi] true true AMissing false bi None [] None).
  Proof.
    intros H Hv. list_facts H c d k sp lc xs ity G Hty. destruct G.
    exact (without_item_list_inplace_refines ct h0 l a c d k sp s lc xs ity gf_l0 gf_c0 gf_a0 gf_d0 gf_fz0 gf_ni0 Hty
             (depth_list sp ity Hty gf_dep0) gf_fld0 gf_lc0 gf_o0 gf_flat0 gf_sh0 voi bi Hv).
  Qed.

  (* by-value addressing of an element whose old value is used: see ident_on_eq *)
  Definition by_value_ok (voi : val) (bi : option bool) : bool :=
    match attr_spec_of ct s l a with
    | Some sp => by_index_rule ct (item_type (a_ty sp)) (abs0 voi) bi || ident_on_eq ct (list_of s l a) voi
    | None => false
    end.

  Lemma by_value_ok_facts sp ity xs voi bi :
    attr_spec_of ct s l a = Some sp -> a_ty sp = TList ity -> list_of s l a = xs ->
    by_value_ok voi bi = true ->
    by_index_rule ct ity (abs0 voi) bi = false -> ident_on_eq ct xs voi = true.
  Proof.
    unfold by_value_ok. intros -> -> -> H Hb. cbn [item_type] in H. rewrite Hb in H. exact H.
  Qed.

  Theorem transform_item_list_guarded voi fo bi :
    elem_guard ct s l a KList = true -> proper_elems s l a = true -> fail_at s = None ->
    nonref voi = true -> is_missing voi = false ->
    match fo with Some f => pool_fn f = true | None => True end ->
    by_value_ok voi bi = true ->
    refines_spec ct h0 s l (HTransformItem a) (mkh [voi] true true VMissing false bi None [] fo)
                 (STransformItem a) (mkah [abs0 voi] true true AMissing false bi None [] fo).
  Proof.
    intros H Hpe Hfa Hv Hm Hfo Hbv. list_facts H c d k sp lc xs ity G Hty. destruct G.
    unfold proper_elems in Hpe. rewrite (list_of_list xs Hob) in Hpe.
    exact (transform_item_list_inplace_refines ct h0 l a c d k sp s lc xs ity gf_l0 gf_c0 gf_a0 gf_d0 gf_fz0 gf_ni0 Hty
             (depth_list sp ity Hty gf_dep0) gf_fld0 gf_lc0 Hpe gf_flat0 gf_sh0 voi fo bi Hv Hm Hfa Hfo
             (by_value_ok_facts sp ity xs voi bi Hsp Hty (list_of_list xs Hob) Hbv)).
  Qed.

  Theorem update_item_list_guarded voi v bi :
    elem_guard ct s l a KList = true -> proper_elems s l a = true -> plain_items ct s l a = true ->
    nonref voi = true -> is_missing voi = false -> nonref v = true ->
    vscalar v || by_value_ok voi bi = true ->
    refines_spec ct h0 s l (HUpdateItem a) (mkh [voi; v] true true VMissing false bi None [] None)
                 (SUpdateItem a) (mkah [abs0 voi; abs0 v] true true AMissing false bi None [] None).
  Proof.
    intros H Hpe Hp Hv Hm Hnv Hbv. list_facts H c d k sp lc xs ity G Hty. destruct G.
    unfold proper_elems in Hpe. rewrite (list_of_list xs Hob) in Hpe.
    destruct (plain_items_facts sp Hsp Hp) as [P1 P2]. rewrite Hty in P2. cbn [item_type] in P2.
    refine (update_item_list_inplace_refines ct h0 l a c d k sp s lc xs ity gf_l0 gf_c0 gf_a0 gf_d0 gf_fz0 gf_ni0 Hty
             (depth_list sp ity Hty gf_dep0) gf_fld0 gf_lc0 Hpe gf_flat0 gf_sh0 voi v bi P1 P2 Hv Hm Hnv _).
    intros Hsv Hb. rewrite Hsv in Hbv. cbn [orb] in Hbv.
    exact (by_value_ok_facts sp ity xs voi bi Hsp Hty (list_of_list xs Hob) Hbv Hb).
  Qed.

  (* ---------------- dicts ---------------- *)

  Ltac dict_facts H c d k sp lc kvs tk tv G Hty :=
    destruct (elem_guard_sound ct s l a KDict H) as [c [d [k [sp [lc [o [G [Hk [Hsp Hob]]]]]]]]];
    destruct (a_ty sp) as [| | | | | | | |tk tv| |] eqn:Hty; try discriminate Hk;
    destruct o as [|kvs| |]; try discriminate Hk.

  Theorem with_item_dict_guarded key v :
    elem_guard ct s l a KDict = true -> plain_items ct s l a = true ->
    nonref key = true -> vscalar v = true ->
    refines_spec ct h0 s l (HWithItem a) (mkh [key; v] true true VMissing false None None [] None)
                 (SWithItem a) (mkah [abs0 key; abs0 v] true true AMissing false None None [] None).
  Proof.
    intros H Hp Hkey Hv. dict_facts H c d k sp lc kvs tk tv G Hty. destruct G.
    destruct (plain_items_facts sp Hsp Hp) as [P1 P2]. rewrite Hty in P2. cbn [item_type] in P2.
    destruct (depth_dict sp tk tv Hty gf_dep0) as [D1 D2].
    exact (with_item_dict_inplace_refines ct h0 l a c d k sp s lc kvs tk tv gf_l0 gf_c0 gf_a0 gf_d0 gf_fz0 gf_ni0 Hty
             D1 D2 gf_fld0 gf_lc0 gf_o0 gf_flat0 gf_sh0 key v P1 P2 Hkey Hv).
  Qed.

  Theorem without_item_dict_guarded key :
    elem_guard ct s l a KDict = true -> nonref key = true ->
    refines_spec ct h0 s l (HWithoutItem a) (mkh [key] true true VMissing false None None [] None)
                 (SWithoutItem a) (mkah [abs0 key] true true AMissing false None None [] None).
  Proof.
    intros H Hkey. dict_facts H c d k sp lc kvs tk tv G Hty. destruct G.
    exact (without_item_dict_inplace_refines ct h0 l a c d k sp s lc kvs tk tv gf_l0 gf_c0 gf_a0 gf_d0 gf_fz0 gf_ni0 Hty
             gf_fld0 gf_lc0 gf_o0 gf_flat0 gf_sh0 key Hkey).
  Qed.

  (* ---------------- sets ---------------- *)

  Ltac set_facts H c d k sp lc xs ity G Hty :=
    destruct (elem_guard_sound ct s l a KSet H) as [c [d [k [sp [lc [o [G [Hk [Hsp Hob]]]]]]]]];
    destruct (a_ty sp) as [| | | | | | |ity'| |ity|] eqn:Hty; try discriminate Hk;
    destruct o as [| |xs|]; try discriminate Hk.

  Theorem with_item_set_guarded v :
    elem_guard ct s l a KSet = true -> plain_items ct s l a = true ->
    vscalar v = true -> set_key_free ct (list_of s l a) v = true ->
    refines_spec ct h0 s l (HWithItem a) (mkh [v] true true VMissing false None None [] None)
                 (SWithItem a) (mkah [abs0 v] true true AMissing false None None [] None).
  Proof.
    intros H Hp Hv Hkf. set_facts H c d k sp lc xs ity G Hty. destruct G.
    destruct (plain_items_facts sp Hsp Hp) as [P1 P2]. rewrite Hty in P2. cbn [item_type] in P2.
    rewrite (list_of_set xs Hob) in Hkf.
    exact (with_item_set_inplace_refines ct h0 l a c d k sp s lc xs ity gf_l0 gf_c0 gf_a0 gf_d0 gf_fz0 gf_ni0 Hty
             (depth_set sp ity Hty gf_dep0) gf_fld0 gf_lc0 gf_o0 gf_flat0 gf_sh0 v P1 P2 Hv Hkf).
  Qed.

  Theorem without_item_set_guarded voi :
    elem_guard ct s l a KSet = true -> nonref voi = true ->
    refines_spec ct h0 s l (HWithoutItem a) (mkh [voi] true true VMissing false None None [] None)
                 (SWithoutItem a) (mkah [abs0 voi] true true AMissing false None None [] None).
  Proof.
    intros H Hv. set_facts H c d k sp lc xs ity G Hty. destruct G.
    exact (without_item_set_inplace_refines ct h0 l a c d k sp s lc xs ity gf_l0 gf_c0 gf_a0 gf_d0 gf_fz0 gf_ni0 Hty
             gf_fld0 gf_lc0 gf_o0 gf_flat0 gf_sh0 voi Hv).
  Qed.
End Guarded.

(* ------------------------------------------------------------------ *)
(** * The guard of the copy-on-write calls *)

(* flat receiver, not being initialised, of a class (frozen or not) in which nothing is invalidated by a,
   without do_not_copy and without __post_copy__ hook, whose attribute a is declared as a
   list / dict / set and holds a container of scalars of that family (sharing allowed) *)
Definition copy_guard (ct : ctable) (s : state) (l : loc) (a : aid) (kd : ckind) : bool :=
  match nth_error (heap s) l with
  | Some (OInst c d) =>
      match lookup_cls ct c with
      | Some k =>
          match lookup_attr k a, assoc a d with
          | Some sp, Some (VRef lc) =>
              match nth_error (heap s) lc with
              | Some o =>
                  nodupb (map fst d) && negb (c_dnc k) && no_depb k a
                  && (ty_depth (a_ty sp) <=? FUEL) && flat_fieldsb (heap s) d
                  && match c_post_copy k with None => true | Some _ => false end
                  && match assoc A_INITIALIZING d with None => true | Some _ => false end
                  && negb (a =? A_INITIALIZING)
                  && scalar_obj o && kind_ok kd (a_ty sp) o
              | None => false
              end
          | _, _ => false
          end
      | None => false
      end
  | _ => false
  end.

Record copy_facts (ct : ctable) (s : state) (l : loc) (a : aid) (c : cid) (d : list (aid * val))
       (k : cls) (sp : attr_spec) (lc : loc) (o : obj) : Prop := mkcf {
  cf_l : nth_error (heap s) l = Some (OInst c d);
  cf_c : lookup_cls ct c = Some k;
  cf_a : lookup_attr k a = Some sp;
  cf_d : NoDup (map fst d);
  cf_dnc : c_dnc k = false;
  cf_pc : c_post_copy k = None;
  cf_ni : no_dep k a;
  cf_dep : ty_depth (a_ty sp) <= FUEL;
  cf_fld : assoc a d = Some (VRef lc);
  cf_lc : nth_error (heap s) lc = Some o;
  cf_o : scalar_obj o = true;
  cf_flat : flat_fields (heap s) d;
  cf_init : assoc A_INITIALIZING d = None;
  cf_a0 : a <> A_INITIALIZING }.

Lemma copy_guard_sound ct s l a kd : copy_guard ct s l a kd = true ->
  exists c d k sp lc o, copy_facts ct s l a c d k sp lc o /\ kind_ok kd (a_ty sp) o = true /\
    attr_spec_of ct s l a = Some sp /\ attr_obj s l a = Some o.
Proof.
  unfold copy_guard, attr_spec_of, attr_obj, attr_cell. intro H.
  destruct (nth_error (heap s) l) as [[| | |c d]|] eqn:El; try discriminate.
  destruct (lookup_cls ct c) as [k|] eqn:Ec; try discriminate.
  destruct (lookup_attr k a) as [sp|] eqn:Ea; try discriminate.
  destruct (assoc a d) as [[| | | | | | | |lc]|] eqn:Ef; try discriminate.
  destruct (nth_error (heap s) lc) as [o|] eqn:Eo; try discriminate.
  repeat (apply andb_true_iff in H; destruct H as [H ?]).
  exists c, d, k, sp, lc, o. split; [|auto].
  constructor; auto.
  - now apply nodupb_sound.
  - now apply negb_true_iff.
  - destruct (c_post_copy k); [discriminate|reflexivity].
  - now apply no_depb_sound.
  - now apply Nat.leb_le.
  - now apply flat_fieldsb_sound.
  - destruct (assoc A_INITIALIZING d); [discriminate|reflexivity].
  - apply Nat.eqb_neq. now apply negb_true_iff.
Qed.

Section GuardedCopy.
  Variable ct : ctable.
  Variable h0 : list obj.
  Variable s : state.
  Variables (l : loc) (a : aid).

  Ltac cfacts kd H c d k sp lc o G Hk Hsp Hob :=
    destruct (copy_guard_sound ct s l a kd H) as [c [d [k [sp [lc [o [G [Hk [Hsp Hob]]]]]]]]].

  Theorem with_item_list_copy_guarded idx v ins :
    copy_guard ct s l a KList = true -> plain_items ct s l a = true ->
    vscalar v = true -> (idx = VMissing \/ exists i, idx = VInt i) ->
    copy_refines_spec ct h0 s l (HWithItem a) (mkh [v] false true idx ins None None [] None)
                      (SWithItem a) (mkah [abs0 v] false true (abs0 idx) ins None None [] None).
  Proof.
    intros H Hp Hv Hi. cfacts KList H c d k sp lc o G Hk Hsp Hob.
    destruct (a_ty sp) as [| | | | | | |ity| |ity'|] eqn:Hty; try discriminate Hk.
    destruct o as [xs| | |]; try discriminate Hk. destruct G as [Gl Gc Ga Gd Gdnc Gpc Gni Gdep Gfld Glc Go Gflat Ginit Ga0].
    destruct (plain_items_facts ct s l a sp Hsp Hp) as [P1 P2]. rewrite Hty in P2. cbn [item_type] in P2.
    exact (with_item_list_copy_refines ct h0 l a c d k sp s lc xs ity Gl Gc Ga Gd Gdnc Gpc Gni Hty
             (depth_list sp ity Hty Gdep) Gfld Glc Go Gflat Ginit Ga0 idx v ins P1 P2 Hv Hi).
  Qed.

  Theorem without_item_list_copy_guarded voi bi :
    copy_guard ct s l a KList = true -> nonref voi = true ->
    copy_refines_spec ct h0 s l (HWithoutItem a) (mkh [voi] false true VMissing false bi None [] None)
                      (SWithoutItem a) (mkah [abs0 voi] false true AMissing false bi None [] None).
  Proof.
    intros H Hv. cfacts KList H c d k sp lc o G Hk Hsp Hob.
    destruct (a_ty sp) as [| | | | | | |ity| |ity'|] eqn:Hty; try discriminate Hk.
    destruct o as [xs| | |]; try discriminate Hk. destruct G as [Gl Gc Ga Gd Gdnc Gpc Gni Gdep Gfld Glc Go Gflat Ginit Ga0].
    exact (without_item_list_copy_refines ct h0 l a c d k sp s lc xs ity Gl Gc Ga Gd Gdnc Gpc Gni Hty
             (depth_list sp ity Hty Gdep) Gfld Glc Go Gflat Ginit Ga0 voi bi Hv).
  Qed.

  Theorem with_item_dict_copy_guarded key v :
    copy_guard ct s l a KDict = true -> plain_items ct s l a = true ->
    nonref key = true -> vscalar v = true ->
    copy_refines_spec ct h0 s l (HWithItem a) (mkh [key; v] false true VMissing false None None [] None)
                      (SWithItem a) (mkah [abs0 key; abs0 v] false true AMissing false None None [] None).
  Proof.
    intros H Hp Hkey Hv. cfacts KDict H c d k sp lc o G Hk Hsp Hob.
    destruct (a_ty sp) as [| | | | | | | |tk tv| |] eqn:Hty; try discriminate Hk.
    destruct o as [|kvs| |]; try discriminate Hk. destruct G as [Gl Gc Ga Gd Gdnc Gpc Gni Gdep Gfld Glc Go Gflat Ginit Ga0].
    destruct (plain_items_facts ct s l a sp Hsp Hp) as [P1 P2]. rewrite Hty in P2. cbn [item_type] in P2.
    destruct (depth_dict sp tk tv Hty Gdep) as [D1 D2].
    exact (with_item_dict_copy_refines ct h0 l a c d k sp s lc kvs tk tv Gl Gc Ga Gd Gdnc Gpc Gni Hty
             D1 D2 Gfld Glc Go Gflat Ginit Ga0 key v P1 P2 Hkey Hv).
  Qed.

  Theorem without_item_dict_copy_guarded key :
    copy_guard ct s l a KDict = true -> nonref key = true ->
    copy_refines_spec ct h0 s l (HWithoutItem a) (mkh [key] false true VMissing false None None [] None)
                      (SWithoutItem a) (mkah [abs0 key] false true AMissing false None None [] None).
  Proof.
    intros H Hkey. cfacts KDict H c d k sp lc o G Hk Hsp Hob.
    destruct (a_ty sp) as [| | | | | | | |tk tv| |] eqn:Hty; try discriminate Hk.
    destruct o as [|kvs| |]; try discriminate Hk. destruct G as [Gl Gc Ga Gd Gdnc Gpc Gni Gdep Gfld Glc Go Gflat Ginit Ga0].
    exact (without_item_dict_copy_refines ct h0 l a c d k sp s lc kvs tk tv Gl Gc Ga Gd Gdnc Gpc Gni Hty
             Gfld Glc Go Gflat Ginit Ga0 key Hkey).
  Qed.

  Theorem with_item_set_copy_guarded v :
    copy_guard ct s l a KSet = true -> plain_items ct s l a = true ->
    vscalar v = true -> set_key_free ct (list_of s l a) v = true ->
    copy_refines_spec ct h0 s l (HWithItem a) (mkh [v] false true VMissing false None None [] None)
                      (SWithItem a) (mkah [abs0 v] false true AMissing false None None [] None).
  Proof.
    intros H Hp Hv Hkf. cfacts KSet H c d k sp lc o G Hk Hsp Hob.
    destruct (a_ty sp) as [| | | | | | |ity'| |ity|] eqn:Hty; try discriminate Hk.
    destruct o as [| |xs|]; try discriminate Hk. destruct G as [Gl Gc Ga Gd Gdnc Gpc Gni Gdep Gfld Glc Go Gflat Ginit Ga0].
    destruct (plain_items_facts ct s l a sp Hsp Hp) as [P1 P2]. rewrite Hty in P2. cbn [item_type] in P2.
    rewrite (list_of_set s l a xs Hob) in Hkf.
    exact (with_item_set_copy_refines ct h0 l a c d k sp s lc xs ity Gl Gc Ga Gd Gdnc Gpc Gni Hty
             (depth_set sp ity Hty Gdep) Gfld Glc Go Gflat Ginit Ga0 v P1 P2 Hv Hkf).
  Qed.

  Theorem without_item_set_copy_guarded voi :
    copy_guard ct s l a KSet = true -> nonref voi = true ->
    copy_refines_spec ct h0 s l (HWithoutItem a) (mkh [voi] false true VMissing false None None [] None)
                      (SWithoutItem a) (mkah [abs0 voi] false true AMissing false None None [] None).
  Proof.
    intros H Hv. cfacts KSet H c d k sp lc o G Hk Hsp Hob.
    destruct (a_ty sp) as [| | | | | | |ity'| |ity|] eqn:Hty; try discriminate Hk.
    destruct o as [| |xs|]; try discriminate Hk. destruct G as [Gl Gc Ga Gd Gdnc Gpc Gni Gdep Gfld Glc Go Gflat Ginit Ga0].
    exact (without_item_set_copy_refines ct h0 l a c d k sp s lc xs ity Gl Gc Ga Gd Gdnc Gpc Gni Hty
             Gfld Glc Go Gflat Ginit Ga0 voi Hv).
  Qed.
  Theorem transform_item_list_copy_guarded voi fo bi :
    copy_guard ct s l a KList = true -> proper_elems s l a = true -> fail_at s = None ->
    nonref voi = true -> is_missing voi = false ->
    match fo with Some f => pool_fn f = true | None => True end ->
    by_value_ok ct s l a voi bi = true ->
    copy_refines_spec ct h0 s l (HTransformItem a) (mkh [voi] false true VMissing false bi None [] fo)
                      (STransformItem a) (mkah [abs0 voi] false true AMissing false bi None [] fo).
  Proof.
    intros H Hpe Hfa Hv Hm Hfo Hbv. cfacts KList H c d k sp lc o G Hk Hsp Hob.
    destruct (a_ty sp) as [| | | | | | |ity| |ity'|] eqn:Hty; try discriminate Hk.
    destruct o as [xs| | |]; try discriminate Hk.
    destruct G as [Gl Gc Ga Gd Gdnc Gpc Gni Gdep Gfld Glc Go Gflat Ginit Ga0].
    unfold proper_elems in Hpe. rewrite (list_of_list s l a xs Hob) in Hpe.
    exact (transform_item_list_copy_refines ct h0 l a c d k sp s lc xs ity Gl Gc Ga Gd Gdnc Gpc Gni Hty
             (depth_list sp ity Hty Gdep) Gfld Glc Hpe Gflat Ginit Ga0 voi fo bi Hv Hm Hfa Hfo
             (by_value_ok_facts ct s l a sp ity xs voi bi Hsp Hty (list_of_list s l a xs Hob) Hbv)).
  Qed.

  Theorem update_item_list_copy_guarded voi v bi :
    copy_guard ct s l a KList = true -> proper_elems s l a = true -> plain_items ct s l a = true ->
    nonref voi = true -> is_missing voi = false -> nonref v = true ->
    vscalar v || by_value_ok ct s l a voi bi = true ->
    copy_refines_spec ct h0 s l (HUpdateItem a) (mkh [voi; v] false true VMissing false bi None [] None)
                      (SUpdateItem a) (mkah [abs0 voi; abs0 v] false true AMissing false bi None [] None).
  Proof.
    intros H Hpe Hp Hv Hm Hnv Hbv. cfacts KList H c d k sp lc o G Hk Hsp Hob.
    destruct (a_ty sp) as [| | | | | | |ity| |ity'|] eqn:Hty; try discriminate Hk.
    destruct o as [xs| | |]; try discriminate Hk.
    destruct G as [Gl Gc Ga Gd Gdnc Gpc Gni Gdep Gfld Glc Go Gflat Ginit Ga0].
    unfold proper_elems in Hpe. rewrite (list_of_list s l a xs Hob) in Hpe.
    destruct (plain_items_facts ct s l a sp Hsp Hp) as [P1 P2]. rewrite Hty in P2. cbn [item_type] in P2.
    refine (update_item_list_copy_refines ct h0 l a c d k sp s lc xs ity Gl Gc Ga Gd Gdnc Gpc Gni Hty
             (depth_list sp ity Hty Gdep) Gfld Glc Hpe Gflat Ginit Ga0 voi v bi P1 P2 Hv Hm Hnv _).
    intros Hsv Hb. rewrite Hsv in Hbv. cbn [orb] in Hbv.
    exact (by_value_ok_facts ct s l a sp ity xs voi bi Hsp Hty (list_of_list s l a xs Hob) Hbv Hb).
  Qed.
End GuardedCopy.

(* ------------------------------------------------------------------ *)
(** * The guard of the calls that create the container *)

Definition kind_ty (kd : ckind) (t : ty) : bool :=
  match kd, t with
  | KList, TList _ | KDict, TDict _ _ | KSet, TSet _ => true
  | _, _ => false
  end.

(* flat receiver of an unfrozen class in which nothing is invalidated by a, whose attribute a is
   declared as a list / dict / set and holds NOTHING: no entry in the instance, no class-level default *)
Definition missing_guard (ct : ctable) (s : state) (l : loc) (a : aid) (kd : ckind) : bool :=
  match nth_error (heap s) l with
  | Some (OInst c d) =>
      match lookup_cls ct c with
      | Some k =>
          match lookup_attr k a, assoc a d, assoc a (c_overrides k) with
          | Some sp, None, None =>
              nodupb (map fst d) && negb (c_frozen k) && no_depb k a
              && (ty_depth (a_ty sp) <=? FUEL) && flat_fieldsb (heap s) d
              && match a_default sp with VMissing => true | _ => false end
              && kind_ty kd (a_ty sp)
          | _, _, _ => false
          end
      | None => false
      end
  | _ => false
  end.

Section GuardedMissing.
  Variable ct : ctable.
  Variable h0 : list obj.
  Variable s : state.
  Variables (l : loc) (a : aid).

  Lemma missing_guard_sound kd : missing_guard ct s l a kd = true ->
    exists c d k sp,
      nth_error (heap s) l = Some (OInst c d) /\ lookup_cls ct c = Some k /\ lookup_attr k a = Some sp /\
      NoDup (map fst d) /\ c_frozen k = false /\ no_dep k a /\ ty_depth (a_ty sp) <= FUEL /\
      assoc a d = None /\ assoc a (c_overrides k) = None /\ a_default sp = VMissing /\
      flat_fields (heap s) d /\ kind_ty kd (a_ty sp) = true /\ attr_spec_of ct s l a = Some sp.
  Proof.
    unfold missing_guard, attr_spec_of. intro H.
    destruct (nth_error (heap s) l) as [[| | |c d]|] eqn:El; try discriminate.
    destruct (lookup_cls ct c) as [k|] eqn:Ec; try discriminate.
    destruct (lookup_attr k a) as [sp|] eqn:Ea; try discriminate.
    destruct (assoc a d) eqn:Ef; try discriminate.
    destruct (assoc a (c_overrides k)) eqn:Eo; try discriminate.
    repeat (apply andb_true_iff in H; destruct H as [H ?]).
    exists c, d, k, sp. repeat (split; [auto|]); auto.
    - now apply nodupb_sound.
    - now apply negb_true_iff.
    - now apply no_depb_sound.
    - now apply Nat.leb_le.
    - destruct (a_default sp); try discriminate; reflexivity.
    - now apply flat_fieldsb_sound.
  Qed.

  Ltac mfacts kd H :=
    destruct (missing_guard_sound kd H) as [c [d [k [sp [Gl [Gc [Ga [Gd [Gfz [Gni [Gdep [Gnone [Gov [Gdef [Gflat [Gk Gsp]]]]]]]]]]]]]]]].

  Theorem with_item_list_missing_guarded idx v ins :
    missing_guard ct s l a KList = true -> plain_items ct s l a = true ->
    vscalar v = true -> (idx = VMissing \/ exists i, idx = VInt i) ->
    missing_refines_spec ct h0 s l (HWithItem a) (mkh [v] true true idx ins None None [] None)
                         (SWithItem a) (mkah [abs0 v] true true (abs0 idx) ins None None [] None).
  Proof.
    intros H Hp Hv Hi. mfacts KList H.
    destruct (a_ty sp) as [| | | | | | |ity| |ity'|] eqn:Hty; try discriminate Gk.
    destruct (plain_items_facts ct s l a sp Gsp Hp) as [P1 P2]. rewrite Hty in P2. cbn [item_type] in P2.
    exact (with_item_list_missing_refines ct h0 l a c d k sp s Gl Gc Ga Gd Gfz Gni Gnone Gov Gdef Gflat ity idx v ins
             Hty P1 P2 ltac:(cbn [ty_depth] in Gdep; lia) Hv Hi).
  Qed.

  Theorem without_item_list_missing_guarded voi bi :
    missing_guard ct s l a KList = true -> nonref voi = true ->
    missing_refines_spec ct h0 s l (HWithoutItem a) (mkh [voi] true true VMissing false bi None [] None)
                         (SWithoutItem a) (mkah [abs0 voi] true true AMissing false bi None [] None).
  Proof.
    intros H Hv. mfacts KList H.
    destruct (a_ty sp) as [| | | | | | |ity| |ity'|] eqn:Hty; try discriminate Gk.
    exact (without_item_list_missing_refines ct h0 l a c d k sp s Gl Gc Ga Gd Gfz Gni Gnone Gov Gdef Gflat ity voi bi
             Hty ltac:(cbn [ty_depth] in Gdep; lia) Hv).
  Qed.

  Theorem with_item_dict_missing_guarded key v :
    missing_guard ct s l a KDict = true -> plain_items ct s l a = true ->
    nonref key = true -> vscalar v = true ->
    missing_refines_spec ct h0 s l (HWithItem a) (mkh [key; v] true true VMissing false None None [] None)
                         (SWithItem a) (mkah [abs0 key; abs0 v] true true AMissing false None None [] None).
  Proof.
    intros H Hp Hkey Hv. mfacts KDict H.
    destruct (a_ty sp) as [| | | | | | | |tk tv| |] eqn:Hty; try discriminate Gk.
    destruct (plain_items_facts ct s l a sp Gsp Hp) as [P1 P2]. rewrite Hty in P2. cbn [item_type] in P2.
    assert (D1 : ty_depth tk < FUEL) by (cbn [ty_depth] in Gdep; lia).
    assert (D2 : ty_depth tv < FUEL) by (cbn [ty_depth] in Gdep; lia).
    exact (with_item_dict_missing_refines ct h0 l a c d k sp s Gl Gc Ga Gd Gfz Gni Gnone Gov Gdef Gflat tk tv key v
             Hty P1 P2 D1 D2 Hkey Hv).
  Qed.

  Theorem without_item_dict_missing_guarded key :
    missing_guard ct s l a KDict = true -> nonref key = true ->
    missing_refines_spec ct h0 s l (HWithoutItem a) (mkh [key] true true VMissing false None None [] None)
                         (SWithoutItem a) (mkah [abs0 key] true true AMissing false None None [] None).
  Proof.
    intros H Hkey. mfacts KDict H.
    destruct (a_ty sp) as [| | | | | | | |tk tv| |] eqn:Hty; try discriminate Gk.
    exact (without_item_dict_missing_refines ct h0 l a c d k sp s Gl Gc Ga Gd Gfz Gni Gnone Gov Gdef Gflat tk tv key Hty Hkey).
  Qed.

  Theorem with_item_set_missing_guarded v :
    missing_guard ct s l a KSet = true -> plain_items ct s l a = true -> vscalar v = true ->
    missing_refines_spec ct h0 s l (HWithItem a) (mkh [v] true true VMissing false None None [] None)
                         (SWithItem a) (mkah [abs0 v] true true AMissing false None None [] None).
  Proof.
    intros H Hp Hv. mfacts KSet H.
    destruct (a_ty sp) as [| | | | | | |ity'| |ity|] eqn:Hty; try discriminate Gk.
    destruct (plain_items_facts ct s l a sp Gsp Hp) as [P1 P2]. rewrite Hty in P2. cbn [item_type] in P2.
    exact (with_item_set_missing_refines ct h0 l a c d k sp s Gl Gc Ga Gd Gfz Gni Gnone Gov Gdef Gflat ity v
             Hty P1 P2 ltac:(cbn [ty_depth] in Gdep; lia) Hv).
  Qed.

  Theorem without_item_set_missing_guarded voi :
    missing_guard ct s l a KSet = true -> nonref voi = true ->
    missing_refines_spec ct h0 s l (HWithoutItem a) (mkh [voi] true true VMissing false None None [] None)
                         (SWithoutItem a) (mkah [abs0 voi] true true AMissing false None None [] None).
  Proof.
    intros H Hv. mfacts KSet H.
    destruct (a_ty sp) as [| | | | | | |ity'| |ity|] eqn:Hty; try discriminate Gk.
    exact (without_item_set_missing_refines ct h0 l a c d k sp s Gl Gc Ga Gd Gfz Gni Gnone Gov Gdef Gflat ity voi Hty Hv).
  Qed.
End GuardedMissing.

(* ------------------------------------------------------------------ *)
(** * update_<item> / transform_<item> on dicts and sets under the guards *)

(* every value of the dict is a proper scalar *)
Definition dict_vals_proper (s : state) (l : loc) (a : aid) : bool :=
  match attr_obj s l a with Some (ODict kvs) => vals_proper kvs | _ => false end.

(* set element addressed by value: the equal element is the very same scalar, and the element
   the value procedure returns (r) has an unambiguous place in the canonical order *)
Definition set_change_ok (ct : ctable) (s : state) (l : loc) (a : aid) (voi : val) (r : res val) : bool :=
  ident_on_eq ct (list_of s l a) voi &&
  match r with Ok v' => set_key_free ct (list_of s l a) v' | Err _ => true end.

Lemma set_change_ok_facts ct s l a xs voi (pr : val -> res val) :
  list_of s l a = xs -> set_change_ok ct s l a voi (pr voi) = true ->
  ident_on_eq ct xs voi = true /\ (forall v', pr voi = Ok v' -> set_key_free ct xs v' = true).
Proof.
  unfold set_change_ok. intros -> H. apply andb_true_iff in H. destruct H as [H1 H2]. split; auto.
  intros v' E. now rewrite E in H2.
Qed.

Section GuardedChange.
  Variable ct : ctable.
  Variable h0 : list obj.
  Variable s : state.
  Variables (l : loc) (a : aid).

  Ltac ipfacts kd H :=
    destruct (elem_guard_sound ct s l a kd H) as [c [d [k [sp [lc [o [G [Hk [Hsp Hob]]]]]]]]];
    destruct G as [Gl Gc Ga Gd Gfz Gni Gdep Gfld Glc Go Gflat Gsh].
  Ltac cpfacts kd H :=
    destruct (copy_guard_sound ct s l a kd H) as [c [d [k [sp [lc [o [G [Hk [Hsp Hob]]]]]]]]];
    destruct G as [Gl Gc Ga Gd Gdnc Gpc Gni Gdep Gfld Glc Go Gflat Ginit Ga0].
  Ltac dict_shape Hty Hk :=
    match goal with sp : attr_spec, o : obj |- _ =>
      destruct (a_ty sp) as [| | | | | | | |tk tv| |] eqn:Hty; try discriminate Hk;
      destruct o as [|kvs| |]; try discriminate Hk end.
  Ltac set_shape Hty Hk :=
    match goal with sp : attr_spec, o : obj |- _ =>
      destruct (a_ty sp) as [| | | | | | |ity'| |ity|] eqn:Hty; try discriminate Hk;
      destruct o as [| |xs|]; try discriminate Hk end.

  Lemma dvp_facts kvs : attr_obj s l a = Some (ODict kvs) -> dict_vals_proper s l a = true -> vals_proper kvs = true.
  Proof. unfold dict_vals_proper. now intros ->. Qed.

  (* ---------------- dicts ---------------- *)
  Theorem transform_item_dict_guarded key fo bi :
    elem_guard ct s l a KDict = true -> dict_vals_proper s l a = true -> fail_at s = None ->
    nonref key = true -> is_missing key = false -> fo_ok fo ->
    refines_spec ct h0 s l (HTransformItem a) (mkh [key] true true VMissing false bi None [] fo)
                 (STransformItem a) (mkah [abs0 key] true true AMissing false bi None [] fo).
  Proof.
    intros H Hvp Hfa Hkey Hm Hfo. ipfacts KDict H. dict_shape Hty Hk.
    exact (transform_item_dict_inplace_refines ct h0 l a c d k sp s lc Gl Gc Ga Gd Gni Gfld Gflat kvs tk tv Hty
             ltac:(cbn [ty_depth] in Gdep; lia) ltac:(cbn [ty_depth] in Gdep; lia) Glc Go (dvp_facts kvs Hob Hvp)
             Gfz Gsh key fo bi Hkey Hm Hfa Hfo).
  Qed.

  Theorem update_item_dict_guarded key v :
    elem_guard ct s l a KDict = true -> dict_vals_proper s l a = true -> plain_items ct s l a = true ->
    nonref key = true -> is_missing key = false -> nonref v = true ->
    refines_spec ct h0 s l (HUpdateItem a) (mkh [key; v] true true VMissing false None None [] None)
                 (SUpdateItem a) (mkah [abs0 key; abs0 v] true true AMissing false None None [] None).
  Proof.
    intros H Hvp Hp Hkey Hm Hnv. ipfacts KDict H.
    destruct (plain_items_facts ct s l a sp Hsp Hp) as [P1 P2]. dict_shape Hty Hk. cbn [item_type] in P2.
    exact (update_item_dict_inplace_refines ct h0 l a c d k sp s lc Gl Gc Ga Gd Gni Gfld Gflat kvs tk tv Hty
             ltac:(cbn [ty_depth] in Gdep; lia) ltac:(cbn [ty_depth] in Gdep; lia) Glc Go (dvp_facts kvs Hob Hvp)
             Gfz Gsh key v P1 P2 Hkey Hm Hnv).
  Qed.

  Theorem transform_item_dict_copy_guarded key fo bi :
    copy_guard ct s l a KDict = true -> dict_vals_proper s l a = true -> fail_at s = None ->
    nonref key = true -> is_missing key = false -> fo_ok fo ->
    copy_refines_spec ct h0 s l (HTransformItem a) (mkh [key] false true VMissing false bi None [] fo)
                      (STransformItem a) (mkah [abs0 key] false true AMissing false bi None [] fo).
  Proof.
    intros H Hvp Hfa Hkey Hm Hfo. cpfacts KDict H. dict_shape Hty Hk.
    exact (transform_item_dict_copy_refines ct h0 l a c d k sp s lc Gl Gc Ga Gd Gni Gfld Gflat kvs tk tv Hty
             ltac:(cbn [ty_depth] in Gdep; lia) ltac:(cbn [ty_depth] in Gdep; lia) Glc Go (dvp_facts kvs Hob Hvp)
             Gdnc Gpc Ginit Ga0 key fo bi Hkey Hm Hfa Hfo).
  Qed.

  Theorem update_item_dict_copy_guarded key v :
    copy_guard ct s l a KDict = true -> dict_vals_proper s l a = true -> plain_items ct s l a = true ->
    nonref key = true -> is_missing key = false -> nonref v = true ->
    copy_refines_spec ct h0 s l (HUpdateItem a) (mkh [key; v] false true VMissing false None None [] None)
                      (SUpdateItem a) (mkah [abs0 key; abs0 v] false true AMissing false None None [] None).
  Proof.
    intros H Hvp Hp Hkey Hm Hnv. cpfacts KDict H.
    destruct (plain_items_facts ct s l a sp Hsp Hp) as [P1 P2]. dict_shape Hty Hk. cbn [item_type] in P2.
    exact (update_item_dict_copy_refines ct h0 l a c d k sp s lc Gl Gc Ga Gd Gni Gfld Gflat kvs tk tv Hty
             ltac:(cbn [ty_depth] in Gdep; lia) ltac:(cbn [ty_depth] in Gdep; lia) Glc Go (dvp_facts kvs Hob Hvp)
             Gdnc Gpc Ginit Ga0 key v P1 P2 Hkey Hm Hnv).
  Qed.

  (* ---------------- sets ---------------- *)
  Theorem transform_item_set_guarded voi fo bi :
    elem_guard ct s l a KSet = true -> fail_at s = None -> vscalar voi = true -> fo_ok fo ->
    set_change_ok ct s l a voi (trp fo voi) = true ->
    refines_spec ct h0 s l (HTransformItem a) (mkh [voi] true true VMissing false bi None [] fo)
                 (STransformItem a) (mkah [abs0 voi] true true AMissing false bi None [] fo).
  Proof.
    intros H Hfa Hv Hfo Hok. ipfacts KSet H. set_shape Hty Hk.
    destruct (set_change_ok_facts ct s l a xs voi (trp fo) (list_of_set s l a xs Hob) Hok) as [Hid Hkf].
    exact (transform_item_set_inplace_refines ct h0 l a c d k sp s lc Gl Gc Ga Gd Gni Gfld Gflat xs ity Hty
             ltac:(cbn [ty_depth] in Gdep; lia) Glc Go Gfz Gsh voi fo bi Hv Hfa Hfo Hid Hkf).
  Qed.

  Theorem update_item_set_guarded voi v :
    elem_guard ct s l a KSet = true -> plain_items ct s l a = true -> vscalar voi = true -> nonref v = true ->
    set_change_ok ct s l a voi (up_pr v voi) = true ->
    refines_spec ct h0 s l (HUpdateItem a) (mkh [voi; v] true true VMissing false None None [] None)
                 (SUpdateItem a) (mkah [abs0 voi; abs0 v] true true AMissing false None None [] None).
  Proof.
    intros H Hp Hv Hnv Hok. ipfacts KSet H.
    destruct (plain_items_facts ct s l a sp Hsp Hp) as [P1 P2]. set_shape Hty Hk. cbn [item_type] in P2.
    destruct (set_change_ok_facts ct s l a xs voi (up_pr v) (list_of_set s l a xs Hob) Hok) as [Hid Hkf].
    exact (update_item_set_inplace_refines ct h0 l a c d k sp s lc Gl Gc Ga Gd Gni Gfld Gflat xs ity Hty
             ltac:(cbn [ty_depth] in Gdep; lia) Glc Go Gfz Gsh voi v P1 P2 Hv Hnv Hid Hkf).
  Qed.

  Theorem transform_item_set_copy_guarded voi fo bi :
    copy_guard ct s l a KSet = true -> fail_at s = None -> vscalar voi = true -> fo_ok fo ->
    set_change_ok ct s l a voi (trp fo voi) = true ->
    copy_refines_spec ct h0 s l (HTransformItem a) (mkh [voi] false true VMissing false bi None [] fo)
                      (STransformItem a) (mkah [abs0 voi] false true AMissing false bi None [] fo).
  Proof.
    intros H Hfa Hv Hfo Hok. cpfacts KSet H. set_shape Hty Hk.
    destruct (set_change_ok_facts ct s l a xs voi (trp fo) (list_of_set s l a xs Hob) Hok) as [Hid Hkf].
    exact (transform_item_set_copy_refines ct h0 l a c d k sp s lc Gl Gc Ga Gd Gni Gfld Gflat xs ity Hty
             ltac:(cbn [ty_depth] in Gdep; lia) Glc Go Gdnc Gpc Ginit Ga0 voi fo bi Hv Hfa Hfo Hid Hkf).
  Qed.

  Theorem update_item_set_copy_guarded voi v :
    copy_guard ct s l a KSet = true -> plain_items ct s l a = true -> vscalar voi = true -> nonref v = true ->
    set_change_ok ct s l a voi (up_pr v voi) = true ->
    copy_refines_spec ct h0 s l (HUpdateItem a) (mkh [voi; v] false true VMissing false None None [] None)
                      (SUpdateItem a) (mkah [abs0 voi; abs0 v] false true AMissing false None None [] None).
  Proof.
    intros H Hp Hv Hnv Hok. cpfacts KSet H.
    destruct (plain_items_facts ct s l a sp Hsp Hp) as [P1 P2]. set_shape Hty Hk. cbn [item_type] in P2.
    destruct (set_change_ok_facts ct s l a xs voi (up_pr v) (list_of_set s l a xs Hob) Hok) as [Hid Hkf].
    exact (update_item_set_copy_refines ct h0 l a c d k sp s lc Gl Gc Ga Gd Gni Gfld Gflat xs ity Hty
             ltac:(cbn [ty_depth] in Gdep; lia) Glc Go Gdnc Gpc Ginit Ga0 voi v P1 P2 Hv Hnv Hid Hkf).
  Qed.
End GuardedChange.

(* ------------------------------------------------------------------ *)
(** * with_<item> through an item preparer, under the guards *)

(* element type without spec class; item preparer absent or a pool function on scalars *)
Definition prep_items (ct : ctable) (s : state) (l : loc) (a : aid) : bool :=
  match attr_spec_of ct s l a with
  | Some sp => match spec_of_ty_strict (item_type (a_ty sp)) with
               | None => match a_prepare_item sp with Some f => pool_fn f | None => true end
               | Some _ => false end
  | None => false
  end.

(* the prepared element has an unambiguous place in the canonical order of the set *)
Definition set_prep_ok (ct : ctable) (s : state) (l : loc) (a : aid) (v : val) : bool :=
  match attr_spec_of ct s l a with
  | Some sp => match prep_val sp v with Ok v' => set_key_free ct (list_of s l a) v' | Err _ => true end
  | None => false
  end.

Section GuardedPrep.
  Variable ct : ctable.
  Variable h0 : list obj.
  Variable s : state.
  Variables (l : loc) (a : aid).

  Lemma prep_items_facts sp : attr_spec_of ct s l a = Some sp -> prep_items ct s l a = true ->
    prep_ok sp /\ spec_of_ty_strict (item_type (a_ty sp)) = None.
  Proof.
    unfold prep_items, prep_ok. intros -> H.
    destruct (spec_of_ty_strict (item_type (a_ty sp))); [discriminate|]. split; auto.
    destruct (a_prepare_item sp); auto.
  Qed.

  Lemma set_prep_ok_facts sp xs v : attr_spec_of ct s l a = Some sp -> list_of s l a = xs ->
    set_prep_ok ct s l a v = true -> forall v', prep_val sp v = Ok v' -> set_key_free ct xs v' = true.
  Proof. unfold set_prep_ok. intros -> -> H v' E. now rewrite E in H. Qed.

  Ltac ipfacts kd H :=
    destruct (elem_guard_sound ct s l a kd H) as [c [d [k [sp [lc [o [G [Hk [Hsp Hob]]]]]]]]];
    destruct G as [Gl Gc Ga Gd Gfz Gni Gdep Gfld Glc Go Gflat Gsh].
  Ltac cpfacts kd H :=
    destruct (copy_guard_sound ct s l a kd H) as [c [d [k [sp [lc [o [G [Hk [Hsp Hob]]]]]]]]];
    destruct G as [Gl Gc Ga Gd Gdnc Gpc Gni Gdep Gfld Glc Go Gflat Ginit Ga0].

  Theorem with_item_list_prep_guarded idx v ins :
    elem_guard ct s l a KList = true -> prep_items ct s l a = true -> fail_at s = None ->
    vscalar v = true -> (idx = VMissing \/ exists i, idx = VInt i) ->
    refines_spec ct h0 s l (HWithItem a) (mkh [v] true true idx ins None None [] None)
                 (SWithItem a) (mkah [abs0 v] true true (abs0 idx) ins None None [] None).
  Proof.
    intros H Hp Hfa Hv Hi. ipfacts KList H. destruct (prep_items_facts sp Hsp Hp) as [P1 P2].
    destruct (a_ty sp) as [| | | | | | |ity| |ity'|] eqn:Hty; try discriminate Hk.
    destruct o as [xs| | |]; try discriminate Hk. cbn [item_type] in P2.
    exact (with_item_list_prep_inplace_refines ct h0 l a c d k sp s lc Gl Gc Ga Gd Gni Gfld Gflat P1 Hfa xs ity Hty P2
             ltac:(cbn [ty_depth] in Gdep; lia) Glc Go idx v ins Gfz Gsh Hv Hi).
  Qed.

  Theorem with_item_list_prep_copy_guarded idx v ins :
    copy_guard ct s l a KList = true -> prep_items ct s l a = true -> fail_at s = None ->
    vscalar v = true -> (idx = VMissing \/ exists i, idx = VInt i) ->
    copy_refines_spec ct h0 s l (HWithItem a) (mkh [v] false true idx ins None None [] None)
                      (SWithItem a) (mkah [abs0 v] false true (abs0 idx) ins None None [] None).
  Proof.
    intros H Hp Hfa Hv Hi. cpfacts KList H. destruct (prep_items_facts sp Hsp Hp) as [P1 P2].
    destruct (a_ty sp) as [| | | | | | |ity| |ity'|] eqn:Hty; try discriminate Hk.
    destruct o as [xs| | |]; try discriminate Hk. cbn [item_type] in P2.
    exact (with_item_list_prep_copy_refines ct h0 l a c d k sp s lc Gl Gc Ga Gd Gni Gfld Gflat P1 Hfa xs ity Hty P2
             ltac:(cbn [ty_depth] in Gdep; lia) Glc Go idx v ins Gdnc Gpc Ginit Ga0 Hv Hi).
  Qed.

  Theorem with_item_dict_prep_guarded key v :
    elem_guard ct s l a KDict = true -> prep_items ct s l a = true -> fail_at s = None ->
    nonref key = true -> vscalar v = true ->
    refines_spec ct h0 s l (HWithItem a) (mkh [key; v] true true VMissing false None None [] None)
                 (SWithItem a) (mkah [abs0 key; abs0 v] true true AMissing false None None [] None).
  Proof.
    intros H Hp Hfa Hkey Hv. ipfacts KDict H. destruct (prep_items_facts sp Hsp Hp) as [P1 P2].
    destruct (a_ty sp) as [| | | | | | | |tk tv| |] eqn:Hty; try discriminate Hk.
    destruct o as [|kvs| |]; try discriminate Hk. cbn [item_type] in P2.
    exact (with_item_dict_prep_inplace_refines ct h0 l a c d k sp s lc Gl Gc Ga Gd Gni Gfld Gflat P1 Hfa kvs tk tv Hty P2
             ltac:(cbn [ty_depth] in Gdep; lia) ltac:(cbn [ty_depth] in Gdep; lia) Glc Go key v Gfz Gsh Hkey Hv).
  Qed.

  Theorem with_item_dict_prep_copy_guarded key v :
    copy_guard ct s l a KDict = true -> prep_items ct s l a = true -> fail_at s = None ->
    nonref key = true -> vscalar v = true ->
    copy_refines_spec ct h0 s l (HWithItem a) (mkh [key; v] false true VMissing false None None [] None)
                      (SWithItem a) (mkah [abs0 key; abs0 v] false true AMissing false None None [] None).
  Proof.
    intros H Hp Hfa Hkey Hv. cpfacts KDict H. destruct (prep_items_facts sp Hsp Hp) as [P1 P2].
    destruct (a_ty sp) as [| | | | | | | |tk tv| |] eqn:Hty; try discriminate Hk.
    destruct o as [|kvs| |]; try discriminate Hk. cbn [item_type] in P2.
    exact (with_item_dict_prep_copy_refines ct h0 l a c d k sp s lc Gl Gc Ga Gd Gni Gfld Gflat P1 Hfa kvs tk tv Hty P2
             ltac:(cbn [ty_depth] in Gdep; lia) ltac:(cbn [ty_depth] in Gdep; lia) Glc Go key v Gdnc Gpc Ginit Ga0 Hkey Hv).
  Qed.

  Theorem with_item_set_prep_guarded v :
    elem_guard ct s l a KSet = true -> prep_items ct s l a = true -> fail_at s = None ->
    vscalar v = true -> set_prep_ok ct s l a v = true ->
    refines_spec ct h0 s l (HWithItem a) (mkh [v] true true VMissing false None None [] None)
                 (SWithItem a) (mkah [abs0 v] true true AMissing false None None [] None).
  Proof.
    intros H Hp Hfa Hv Hok. ipfacts KSet H. destruct (prep_items_facts sp Hsp Hp) as [P1 P2].
    destruct (a_ty sp) as [| | | | | | |ity'| |ity|] eqn:Hty; try discriminate Hk.
    destruct o as [| |xs|]; try discriminate Hk. cbn [item_type] in P2.
    exact (with_item_set_prep_inplace_refines ct h0 l a c d k sp s lc Gl Gc Ga Gd Gni Gfld Gflat P1 Hfa xs ity Hty P2
             ltac:(cbn [ty_depth] in Gdep; lia) Glc Go v Gfz Gsh Hv
             (set_prep_ok_facts sp xs v Hsp (list_of_set s l a xs Hob) Hok)).
  Qed.

  Theorem with_item_set_prep_copy_guarded v :
    copy_guard ct s l a KSet = true -> prep_items ct s l a = true -> fail_at s = None ->
    vscalar v = true -> set_prep_ok ct s l a v = true ->
    copy_refines_spec ct h0 s l (HWithItem a) (mkh [v] false true VMissing false None None [] None)
                      (SWithItem a) (mkah [abs0 v] false true AMissing false None None [] None).
  Proof.
    intros H Hp Hfa Hv Hok. cpfacts KSet H. destruct (prep_items_facts sp Hsp Hp) as [P1 P2].
    destruct (a_ty sp) as [| | | | | | |ity'| |ity|] eqn:Hty; try discriminate Hk.
    destruct o as [| |xs|]; try discriminate Hk. cbn [item_type] in P2.
    exact (with_item_set_prep_copy_refines ct h0 l a c d k sp s lc Gl Gc Ga Gd Gni Gfld Gflat P1 Hfa xs ity Hty P2
             ltac:(cbn [ty_depth] in Gdep; lia) Glc Go v Gdnc Gpc Ginit Ga0 Hv
             (set_prep_ok_facts sp xs v Hsp (list_of_set s l a xs Hob) Hok)).
  Qed.
End GuardedPrep.

(* ------------------------------------------------------------------ *)
(** * update_<item> through an item preparer, under the guards *)

Definition set_update_ok (ct : ctable) (s : state) (l : loc) (a : aid) (voi v : val) : bool :=
  match attr_spec_of ct s l a with
  | Some sp => set_change_ok ct s l a voi (up_pr_p sp v voi)
  | None => false
  end.

Section GuardedUpdatePrep.
  Variable ct : ctable.
  Variable h0 : list obj.
  Variable s : state.
  Variables (l : loc) (a : aid).

  Ltac ipfacts kd H :=
    destruct (elem_guard_sound ct s l a kd H) as [c [d [k [sp [lc [o [G [Hk [Hsp Hob]]]]]]]]];
    destruct G as [Gl Gc Ga Gd Gfz Gni Gdep Gfld Glc Go Gflat Gsh].
  Ltac cpfacts kd H :=
    destruct (copy_guard_sound ct s l a kd H) as [c [d [k [sp [lc [o [G [Hk [Hsp Hob]]]]]]]]];
    destruct G as [Gl Gc Ga Gd Gdnc Gpc Gni Gdep Gfld Glc Go Gflat Ginit Ga0].

  Lemma set_update_ok_facts sp xs voi v : attr_spec_of ct s l a = Some sp -> list_of s l a = xs ->
    set_update_ok ct s l a voi v = true ->
    ident_on_eq ct xs voi = true /\ (forall v', up_pr_p sp v voi = Ok v' -> set_key_free ct xs v' = true).
  Proof.
    unfold set_update_ok. intros -> Hx H. exact (set_change_ok_facts ct s l a xs voi (up_pr_p sp v) Hx H).
  Qed.

  Theorem update_item_list_prep_guarded voi v bi :
    elem_guard ct s l a KList = true -> proper_elems s l a = true -> prep_items ct s l a = true -> fail_at s = None ->
    nonref voi = true -> is_missing voi = false -> nonref v = true ->
    vscalar v || by_value_ok ct s l a voi bi = true ->
    refines_spec ct h0 s l (HUpdateItem a) (mkh [voi; v] true true VMissing false bi None [] None)
                 (SUpdateItem a) (mkah [abs0 voi; abs0 v] true true AMissing false bi None [] None).
  Proof.
    intros H Hpe Hp Hfa Hv Hm Hnv Hbv. ipfacts KList H. destruct (prep_items_facts ct s l a sp Hsp Hp) as [P1 P2].
    destruct (a_ty sp) as [| | | | | | |ity| |ity'|] eqn:Hty; try discriminate Hk.
    destruct o as [xs| | |]; try discriminate Hk. cbn [item_type] in P2.
    unfold proper_elems in Hpe. rewrite (list_of_list s l a xs Hob) in Hpe.
    refine (update_item_list_prep_inplace_refines ct h0 l a c d k sp s lc Gl Gc Ga Gd Gni Gfld Gflat P1 Hfa xs ity Hty P2
             ltac:(cbn [ty_depth] in Gdep; lia) Glc Hpe voi v bi Gfz Gsh Hv Hm Hnv _).
    intros Hsv Hb. rewrite Hsv in Hbv. cbn [orb] in Hbv.
    exact (by_value_ok_facts ct s l a sp ity xs voi bi Hsp Hty (list_of_list s l a xs Hob) Hbv Hb).
  Qed.

  Theorem update_item_list_prep_copy_guarded voi v bi :
    copy_guard ct s l a KList = true -> proper_elems s l a = true -> prep_items ct s l a = true -> fail_at s = None ->
    nonref voi = true -> is_missing voi = false -> nonref v = true ->
    vscalar v || by_value_ok ct s l a voi bi = true ->
    copy_refines_spec ct h0 s l (HUpdateItem a) (mkh [voi; v] false true VMissing false bi None [] None)
                      (SUpdateItem a) (mkah [abs0 voi; abs0 v] false true AMissing false bi None [] None).
  Proof.
    intros H Hpe Hp Hfa Hv Hm Hnv Hbv. cpfacts KList H. destruct (prep_items_facts ct s l a sp Hsp Hp) as [P1 P2].
    destruct (a_ty sp) as [| | | | | | |ity| |ity'|] eqn:Hty; try discriminate Hk.
    destruct o as [xs| | |]; try discriminate Hk. cbn [item_type] in P2.
    unfold proper_elems in Hpe. rewrite (list_of_list s l a xs Hob) in Hpe.
    refine (update_item_list_prep_copy_refines ct h0 l a c d k sp s lc Gl Gc Ga Gd Gni Gfld Gflat P1 Hfa xs ity Hty P2
             ltac:(cbn [ty_depth] in Gdep; lia) Glc Hpe voi v bi Gdnc Gpc Ginit Ga0 Hv Hm Hnv _).
    intros Hsv Hb. rewrite Hsv in Hbv. cbn [orb] in Hbv.
    exact (by_value_ok_facts ct s l a sp ity xs voi bi Hsp Hty (list_of_list s l a xs Hob) Hbv Hb).
  Qed.

  Theorem update_item_dict_prep_guarded key v :
    elem_guard ct s l a KDict = true -> dict_vals_proper s l a = true -> prep_items ct s l a = true -> fail_at s = None ->
    nonref key = true -> is_missing key = false -> nonref v = true ->
    refines_spec ct h0 s l (HUpdateItem a) (mkh [key; v] true true VMissing false None None [] None)
                 (SUpdateItem a) (mkah [abs0 key; abs0 v] true true AMissing false None None [] None).
  Proof.
    intros H Hvp Hp Hfa Hkey Hm Hnv. ipfacts KDict H. destruct (prep_items_facts ct s l a sp Hsp Hp) as [P1 P2].
    destruct (a_ty sp) as [| | | | | | | |tk tv| |] eqn:Hty; try discriminate Hk.
    destruct o as [|kvs| |]; try discriminate Hk. cbn [item_type] in P2.
    exact (update_item_dict_prep_inplace_refines ct h0 l a c d k sp s lc Gl Gc Ga Gd Gni Gfld Gflat P1 Hfa kvs tk tv Hty P2
             ltac:(cbn [ty_depth] in Gdep; lia) ltac:(cbn [ty_depth] in Gdep; lia) Glc Go (dvp_facts s l a kvs Hob Hvp)
             key v Gfz Gsh Hkey Hm Hnv).
  Qed.

  Theorem update_item_dict_prep_copy_guarded key v :
    copy_guard ct s l a KDict = true -> dict_vals_proper s l a = true -> prep_items ct s l a = true -> fail_at s = None ->
    nonref key = true -> is_missing key = false -> nonref v = true ->
    copy_refines_spec ct h0 s l (HUpdateItem a) (mkh [key; v] false true VMissing false None None [] None)
                      (SUpdateItem a) (mkah [abs0 key; abs0 v] false true AMissing false None None [] None).
  Proof.
    intros H Hvp Hp Hfa Hkey Hm Hnv. cpfacts KDict H. destruct (prep_items_facts ct s l a sp Hsp Hp) as [P1 P2].
    destruct (a_ty sp) as [| | | | | | | |tk tv| |] eqn:Hty; try discriminate Hk.
    destruct o as [|kvs| |]; try discriminate Hk. cbn [item_type] in P2.
    exact (update_item_dict_prep_copy_refines ct h0 l a c d k sp s lc Gl Gc Ga Gd Gni Gfld Gflat P1 Hfa kvs tk tv Hty P2
             ltac:(cbn [ty_depth] in Gdep; lia) ltac:(cbn [ty_depth] in Gdep; lia) Glc Go (dvp_facts s l a kvs Hob Hvp)
             key v Gdnc Gpc Ginit Ga0 Hkey Hm Hnv).
  Qed.

  Theorem update_item_set_prep_guarded voi v :
    elem_guard ct s l a KSet = true -> prep_items ct s l a = true -> fail_at s = None ->
    vscalar voi = true -> nonref v = true -> set_update_ok ct s l a voi v = true ->
    refines_spec ct h0 s l (HUpdateItem a) (mkh [voi; v] true true VMissing false None None [] None)
                 (SUpdateItem a) (mkah [abs0 voi; abs0 v] true true AMissing false None None [] None).
  Proof.
    intros H Hp Hfa Hv Hnv Hok. ipfacts KSet H. destruct (prep_items_facts ct s l a sp Hsp Hp) as [P1 P2].
    destruct (a_ty sp) as [| | | | | | |ity'| |ity|] eqn:Hty; try discriminate Hk.
    destruct o as [| |xs|]; try discriminate Hk. cbn [item_type] in P2.
    destruct (set_update_ok_facts sp xs voi v Hsp (list_of_set s l a xs Hob) Hok) as [Hid Hkf].
    exact (update_item_set_prep_inplace_refines ct h0 l a c d k sp s lc Gl Gc Ga Gd Gni Gfld Gflat P1 Hfa xs ity Hty P2
             ltac:(cbn [ty_depth] in Gdep; lia) Glc Go voi v Gfz Gsh Hv Hnv Hid Hkf).
  Qed.

  Theorem update_item_set_prep_copy_guarded voi v :
    copy_guard ct s l a KSet = true -> prep_items ct s l a = true -> fail_at s = None ->
    vscalar voi = true -> nonref v = true -> set_update_ok ct s l a voi v = true ->
    copy_refines_spec ct h0 s l (HUpdateItem a) (mkh [voi; v] false true VMissing false None None [] None)
                      (SUpdateItem a) (mkah [abs0 voi; abs0 v] false true AMissing false None None [] None).
  Proof.
    intros H Hp Hfa Hv Hnv Hok. cpfacts KSet H. destruct (prep_items_facts ct s l a sp Hsp Hp) as [P1 P2].
    destruct (a_ty sp) as [| | | | | | |ity'| |ity|] eqn:Hty; try discriminate Hk.
    destruct o as [| |xs|]; try discriminate Hk. cbn [item_type] in P2.
    destruct (set_update_ok_facts sp xs voi v Hsp (list_of_set s l a xs Hob) Hok) as [Hid Hkf].
    exact (update_item_set_prep_copy_refines ct h0 l a c d k sp s lc Gl Gc Ga Gd Gni Gfld Gflat P1 Hfa xs ity Hty P2
             ltac:(cbn [ty_depth] in Gdep; lia) Glc Go voi v Gdnc Gpc Ginit Ga0 Hv Hnv Hid Hkf).
  Qed.
End GuardedUpdatePrep.

(* ------------------------------------------------------------------ *)
(** * The guard of the copy-on-write calls that create the container *)

(* flat receiver, not being initialised, of a class (frozen or not) in which nothing is
   invalidated by a, without do_not_copy and __post_copy__ hook, whose attribute a is declared as a
   list / dict / set and holds NOTHING *)
Definition missing_copy_guard (ct : ctable) (s : state) (l : loc) (a : aid) (kd : ckind) : bool :=
  match nth_error (heap s) l with
  | Some (OInst c d) =>
      match lookup_cls ct c with
      | Some k =>
          match lookup_attr k a, assoc a d, assoc a (c_overrides k) with
          | Some sp, None, None =>
              nodupb (map fst d) && negb (c_dnc k) && no_depb k a
              && (ty_depth (a_ty sp) <=? FUEL) && flat_fieldsb (heap s) d
              && match c_post_copy k with None => true | Some _ => false end
              && match assoc A_INITIALIZING d with None => true | Some _ => false end
              && negb (a =? A_INITIALIZING)
              && match a_default sp with VMissing => true | _ => false end
              && kind_ty kd (a_ty sp)
          | _, _, _ => false
          end
      | None => false
      end
  | _ => false
  end.

Section GuardedMissingCopy.
  Variable ct : ctable.
  Variable h0 : list obj.
  Variable s : state.
  Variables (l : loc) (a : aid).

  Lemma missing_copy_guard_sound kd : missing_copy_guard ct s l a kd = true ->
    exists c d k sp,
      nth_error (heap s) l = Some (OInst c d) /\ lookup_cls ct c = Some k /\ lookup_attr k a = Some sp /\
      NoDup (map fst d) /\ c_dnc k = false /\ c_post_copy k = None /\ no_dep k a /\ ty_depth (a_ty sp) <= FUEL /\
      assoc a d = None /\ assoc a (c_overrides k) = None /\ a_default sp = VMissing /\
      flat_fields (heap s) d /\ assoc A_INITIALIZING d = None /\ a <> A_INITIALIZING /\
      kind_ty kd (a_ty sp) = true /\ attr_spec_of ct s l a = Some sp.
  Proof.
    unfold missing_copy_guard, attr_spec_of. intro H.
    destruct (nth_error (heap s) l) as [[| | |c d]|] eqn:El; try discriminate.
    destruct (lookup_cls ct c) as [k|] eqn:Ec; try discriminate.
    destruct (lookup_attr k a) as [sp|] eqn:Ea; try discriminate.
    destruct (assoc a d) eqn:Ef; try discriminate.
    destruct (assoc a (c_overrides k)) eqn:Eo; try discriminate.
    repeat (apply andb_true_iff in H; destruct H as [H ?]).
    exists c, d, k, sp. repeat (split; [auto|]); auto.
    - now apply nodupb_sound.
    - now apply negb_true_iff.
    - destruct (c_post_copy k); [discriminate|reflexivity].
    - now apply no_depb_sound.
    - now apply Nat.leb_le.
    - destruct (a_default sp); try discriminate; reflexivity.
    - now apply flat_fieldsb_sound.
    - destruct (assoc A_INITIALIZING d); [discriminate|reflexivity].
    - apply Nat.eqb_neq. now apply negb_true_iff.
  Qed.

  Ltac mcfacts kd H :=
    destruct (missing_copy_guard_sound kd H)
      as [c [d [k [sp [Gl [Gc [Ga [Gd [Gdnc [Gpc [Gni [Gdep [Gnone [Gov [Gdef [Gflat [Ginit [Ga0 [Gk Gsp]]]]]]]]]]]]]]]]]]].

  Theorem with_item_list_missing_copy_guarded idx v ins :
    missing_copy_guard ct s l a KList = true -> plain_items ct s l a = true ->
    vscalar v = true -> (idx = VMissing \/ exists i, idx = VInt i) ->
    copy_refines_spec ct h0 s l (HWithItem a) (mkh [v] false true idx ins None None [] None)
                      (SWithItem a) (mkah [abs0 v] false true (abs0 idx) ins None None [] None).
  Proof.
    intros H Hp Hv Hi. mcfacts KList H.
    destruct (a_ty sp) as [| | | | | | |ity| |ity'|] eqn:Hty; try discriminate Gk.
    destruct (plain_items_facts ct s l a sp Gsp Hp) as [P1 P2]. rewrite Hty in P2. cbn [item_type] in P2.
    exact (with_item_list_missing_copy_refines ct h0 l a c d k sp s Gl Gc Ga Gd Gdnc Gpc Gni Gnone Gov Gdef Gflat Ginit Ga0
             ity idx v ins Hty P1 P2 ltac:(cbn [ty_depth] in Gdep; lia) Hv Hi).
  Qed.

  Theorem without_item_list_missing_copy_guarded voi bi :
    missing_copy_guard ct s l a KList = true -> nonref voi = true ->
    copy_refines_spec ct h0 s l (HWithoutItem a) (mkh [voi] false true VMissing false bi None [] None)
                      (SWithoutItem a) (mkah [abs0 voi] false true AMissing false bi None [] None).
  Proof.
    intros H Hv. mcfacts KList H.
    destruct (a_ty sp) as [| | | | | | |ity| |ity'|] eqn:Hty; try discriminate Gk.
    exact (without_item_list_missing_copy_refines ct h0 l a c d k sp s Gl Gc Ga Gd Gdnc Gpc Gni Gnone Gov Gdef Gflat Ginit Ga0
             ity voi bi Hty ltac:(cbn [ty_depth] in Gdep; lia) Hv).
  Qed.

  Theorem with_item_dict_missing_copy_guarded key v :
    missing_copy_guard ct s l a KDict = true -> plain_items ct s l a = true ->
    nonref key = true -> vscalar v = true ->
    copy_refines_spec ct h0 s l (HWithItem a) (mkh [key; v] false true VMissing false None None [] None)
                      (SWithItem a) (mkah [abs0 key; abs0 v] false true AMissing false None None [] None).
  Proof.
    intros H Hp Hkey Hv. mcfacts KDict H.
    destruct (a_ty sp) as [| | | | | | | |tk tv| |] eqn:Hty; try discriminate Gk.
    destruct (plain_items_facts ct s l a sp Gsp Hp) as [P1 P2]. rewrite Hty in P2. cbn [item_type] in P2.
    exact (with_item_dict_missing_copy_refines ct h0 l a c d k sp s Gl Gc Ga Gd Gdnc Gpc Gni Gnone Gov Gdef Gflat Ginit Ga0
             tk tv key v Hty P1 P2 ltac:(cbn [ty_depth] in Gdep; lia) ltac:(cbn [ty_depth] in Gdep; lia) Hkey Hv).
  Qed.

  Theorem without_item_dict_missing_copy_guarded key :
    missing_copy_guard ct s l a KDict = true -> nonref key = true ->
    copy_refines_spec ct h0 s l (HWithoutItem a) (mkh [key] false true VMissing false None None [] None)
                      (SWithoutItem a) (mkah [abs0 key] false true AMissing false None None [] None).
  Proof.
    intros H Hkey. mcfacts KDict H.
    destruct (a_ty sp) as [| | | | | | | |tk tv| |] eqn:Hty; try discriminate Gk.
    exact (without_item_dict_missing_copy_refines ct h0 l a c d k sp s Gl Gc Ga Gd Gdnc Gpc Gni Gnone Gov Gdef Gflat Ginit Ga0
             tk tv key Hty Hkey).
  Qed.

  Theorem with_item_set_missing_copy_guarded v :
    missing_copy_guard ct s l a KSet = true -> plain_items ct s l a = true -> vscalar v = true ->
    copy_refines_spec ct h0 s l (HWithItem a) (mkh [v] false true VMissing false None None [] None)
                      (SWithItem a) (mkah [abs0 v] false true AMissing false None None [] None).
  Proof.
    intros H Hp Hv. mcfacts KSet H.
    destruct (a_ty sp) as [| | | | | | |ity'| |ity|] eqn:Hty; try discriminate Gk.
    destruct (plain_items_facts ct s l a sp Gsp Hp) as [P1 P2]. rewrite Hty in P2. cbn [item_type] in P2.
    exact (with_item_set_missing_copy_refines ct h0 l a c d k sp s Gl Gc Ga Gd Gdnc Gpc Gni Gnone Gov Gdef Gflat Ginit Ga0
             ity v Hty P1 P2 ltac:(cbn [ty_depth] in Gdep; lia) Hv).
  Qed.

  Theorem without_item_set_missing_copy_guarded voi :
    missing_copy_guard ct s l a KSet = true -> nonref voi = true ->
    copy_refines_spec ct h0 s l (HWithoutItem a) (mkh [voi] false true VMissing false None None [] None)
                      (SWithoutItem a) (mkah [abs0 voi] false true AMissing false None None [] None).
  Proof.
    intros H Hv. mcfacts KSet H.
    destruct (a_ty sp) as [| | | | | | |ity'| |ity|] eqn:Hty; try discriminate Gk.
    exact (without_item_set_missing_copy_refines ct h0 l a c d k sp s Gl Gc Ga Gd Gdnc Gpc Gni Gnone Gov Gdef Gflat Ginit Ga0
             ity voi Hty Hv).
  Qed.
End GuardedMissingCopy.

(* ------------------------------------------------------------------ *)
(** * Nested receivers (in place) *)

(* instance of an unfrozen class in which nothing is invalidated by a, whose attribute a is declared
   as a list / dict / set and holds a container of scalars of that family that NO OTHER attribute
   reaches (the other attributes may hold anything: instances, containers of containers, ...) *)
Definition nested_guard (ct : ctable) (s : state) (l : loc) (a : aid) (kd : ckind) : bool :=
  match nth_error (heap s) l with
  | Some (OInst c d) =>
      match lookup_cls ct c with
      | Some k =>
          match lookup_attr k a, assoc a d with
          | Some sp, Some (VRef lc) =>
              match nth_error (heap s) lc with
              | Some o =>
                  nodupb (map fst d) && negb (c_frozen k) && no_depb k a
                  && (ty_depth (a_ty sp) <=? FUEL)
                  && forallb (fun p => (fst p =? a) || negb (reaches 23 (heap s) (snd p) lc)) d
                  && scalar_obj o && kind_ok kd (a_ty sp) o
              | None => false
              end
          | _, _ => false
          end
      | None => false
      end
  | _ => false
  end.

Section GuardedNested.
  Variable ct : ctable.
  Variable h0 : list obj.
  Variable s : state.
  Variables (l : loc) (a : aid).

  Lemma nested_guard_sound kd : nested_guard ct s l a kd = true ->
    exists c d k sp lc o,
      nth_error (heap s) l = Some (OInst c d) /\ lookup_cls ct c = Some k /\ lookup_attr k a = Some sp /\
      NoDup (map fst d) /\ c_frozen k = false /\ no_dep k a /\ ty_depth (a_ty sp) <= FUEL /\
      assoc a d = Some (VRef lc) /\ nth_error (heap s) lc = Some o /\ scalar_obj o = true /\
      (forall b w, In (b, w) d -> b <> a -> reaches 23 (heap s) w lc = false) /\
      kind_ok kd (a_ty sp) o = true /\ attr_spec_of ct s l a = Some sp /\ attr_obj s l a = Some o.
  Proof.
    unfold nested_guard, attr_spec_of, attr_obj, attr_cell. intro H.
    destruct (nth_error (heap s) l) as [[| | |c d]|] eqn:El; try discriminate.
    destruct (lookup_cls ct c) as [k|] eqn:Ec; try discriminate.
    destruct (lookup_attr k a) as [sp|] eqn:Ea; try discriminate.
    destruct (assoc a d) as [[| | | | | | | |lc]|] eqn:Ef; try discriminate.
    destruct (nth_error (heap s) lc) as [o|] eqn:Eo; try discriminate.
    apply andb_true_iff in H. destruct H as [H Hkind].
    apply andb_true_iff in H. destruct H as [H Hsc].
    apply andb_true_iff in H. destruct H as [H Hreach].
    apply andb_true_iff in H. destruct H as [H Hdep].
    apply andb_true_iff in H. destruct H as [H Hnd].
    apply andb_true_iff in H. destruct H as [Hdup Hfz].
    exists c, d, k, sp, lc, o.
    split; [first [reflexivity|assumption]|]. split; [first [reflexivity|assumption]|]. split; [first [reflexivity|assumption]|].
    split; [now apply nodupb_sound|]. split; [now apply negb_true_iff|]. split; [now apply no_depb_sound|].
    split; [now apply Nat.leb_le|]. split; [first [reflexivity|assumption]|]. split; [first [reflexivity|assumption]|]. split; [exact Hsc|].
    split; [|split; [exact Hkind|split; reflexivity]].
    intros b w Hin Hb. rewrite forallb_forall in Hreach. specialize (Hreach (b, w) Hin).
    apply Nat.eqb_neq in Hb.
    change (((b =? a) || negb (reaches 23 (heap s) w lc)) = true) in Hreach.
    rewrite Hb in Hreach.
    assert (R : forall x : bool, false || negb x = true -> x = false) by (intros [|] E; [discriminate E|reflexivity]).
    exact (R _ Hreach).
  Qed.

  Ltac nfacts kd H :=
    destruct (nested_guard_sound kd H)
      as [c [d [k [sp [lc [o [Gl [Gc [Ga [Gd [Gfz [Gni [Gdep [Gfld [Glc [Go [Gun [Hk [Hsp Hob]]]]]]]]]]]]]]]]]]].
  Ltac lshape Hty Hk :=
    match goal with sp : attr_spec, o : obj |- _ =>
      destruct (a_ty sp) as [| | | | | | |ity| |ity'|] eqn:Hty; try discriminate Hk;
      destruct o as [xs| | |]; try discriminate Hk end.
  Ltac dshape Hty Hk :=
    match goal with sp : attr_spec, o : obj |- _ =>
      destruct (a_ty sp) as [| | | | | | | |tk tv| |] eqn:Hty; try discriminate Hk;
      destruct o as [|kvs| |]; try discriminate Hk end.
  Ltac sshape Hty Hk :=
    match goal with sp : attr_spec, o : obj |- _ =>
      destruct (a_ty sp) as [| | | | | | |ity'| |ity|] eqn:Hty; try discriminate Hk;
      destruct o as [| |xs|]; try discriminate Hk end.
  Ltac dep := cbn [ty_depth] in *; lia.

  (* ---- lists ---- *)
  Theorem with_item_list_nested_guarded idx v ins :
    nested_guard ct s l a KList = true -> plain_items ct s l a = true ->
    vscalar v = true -> (idx = VMissing \/ exists i, idx = VInt i) ->
    refines_spec ct h0 s l (HWithItem a) (mkh [v] true true idx ins None None [] None)
                 (SWithItem a) (mkah [abs0 v] true true (abs0 idx) ins None None [] None).
  Proof.
    intros H Hp Hv Hi. nfacts KList H. destruct (plain_items_facts ct s l a sp Hsp Hp) as [P1 P2].
    lshape Hty Hk. cbn [item_type] in P2.
    exact (with_item_list_nested_refines ct h0 l a c d k sp s lc Gl Gc Ga Gd Gfz Gni Gfld Gun xs ity Hty ltac:(dep) Glc Go
             idx v ins P1 P2 Hv Hi).
  Qed.

  Theorem without_item_list_nested_guarded voi bi :
    nested_guard ct s l a KList = true -> nonref voi = true ->
    refines_spec ct h0 s l (HWithoutItem a) (mkh [voi] true true VMissing false bi None [] None)
                 (SWithoutItem a) (mkah [abs0 voi] true true AMissing false bi None [] None).
  Proof.
    intros H Hv. nfacts KList H. lshape Hty Hk.
    exact (without_item_list_nested_refines ct h0 l a c d k sp s lc Gl Gc Ga Gd Gfz Gni Gfld Gun xs ity Hty ltac:(dep) Glc Go
             voi bi Hv).
  Qed.

  Theorem transform_item_list_nested_guarded voi fo bi :
    nested_guard ct s l a KList = true -> proper_elems s l a = true -> fail_at s = None ->
    nonref voi = true -> is_missing voi = false -> fo_ok fo -> by_value_ok ct s l a voi bi = true ->
    refines_spec ct h0 s l (HTransformItem a) (mkh [voi] true true VMissing false bi None [] fo)
                 (STransformItem a) (mkah [abs0 voi] true true AMissing false bi None [] fo).
  Proof.
    intros H Hpe Hfa Hv Hm Hfo Hbv. nfacts KList H. lshape Hty Hk.
    unfold proper_elems in Hpe. rewrite (list_of_list s l a xs Hob) in Hpe.
    exact (transform_item_list_nested_refines ct h0 l a c d k sp s lc xs ity Gl Gc Ga Gd Gfz Gni Gfld Gun Hty ltac:(dep) Glc Hpe
             voi fo bi Hv Hm Hfa Hfo (by_value_ok_facts ct s l a sp ity xs voi bi Hsp Hty (list_of_list s l a xs Hob) Hbv)).
  Qed.

  Theorem update_item_list_nested_guarded voi v bi :
    nested_guard ct s l a KList = true -> proper_elems s l a = true -> plain_items ct s l a = true ->
    nonref voi = true -> is_missing voi = false -> nonref v = true ->
    vscalar v || by_value_ok ct s l a voi bi = true ->
    refines_spec ct h0 s l (HUpdateItem a) (mkh [voi; v] true true VMissing false bi None [] None)
                 (SUpdateItem a) (mkah [abs0 voi; abs0 v] true true AMissing false bi None [] None).
  Proof.
    intros H Hpe Hp Hv Hm Hnv Hbv. nfacts KList H. destruct (plain_items_facts ct s l a sp Hsp Hp) as [P1 P2].
    lshape Hty Hk. cbn [item_type] in P2.
    unfold proper_elems in Hpe. rewrite (list_of_list s l a xs Hob) in Hpe.
    refine (update_item_list_nested_refines ct h0 l a c d k sp s lc xs ity Gl Gc Ga Gd Gfz Gni Gfld Gun Hty ltac:(dep) Glc Hpe
             voi v bi P1 P2 Hv Hm Hnv _).
    intros Hsv Hb. rewrite Hsv in Hbv. cbn [orb] in Hbv.
    exact (by_value_ok_facts ct s l a sp ity xs voi bi Hsp Hty (list_of_list s l a xs Hob) Hbv Hb).
  Qed.

  (* ---- dicts ---- *)
  Theorem with_item_dict_nested_guarded key v :
    nested_guard ct s l a KDict = true -> plain_items ct s l a = true -> nonref key = true -> vscalar v = true ->
    refines_spec ct h0 s l (HWithItem a) (mkh [key; v] true true VMissing false None None [] None)
                 (SWithItem a) (mkah [abs0 key; abs0 v] true true AMissing false None None [] None).
  Proof.
    intros H Hp Hkey Hv. nfacts KDict H. destruct (plain_items_facts ct s l a sp Hsp Hp) as [P1 P2].
    dshape Hty Hk. cbn [item_type] in P2.
    exact (with_item_dict_nested_refines ct h0 l a c d k sp s lc Gl Gc Ga Gd Gfz Gni Gfld Gun kvs tk tv Hty ltac:(dep) ltac:(dep)
             Glc Go key v P1 P2 Hkey Hv).
  Qed.

  Theorem without_item_dict_nested_guarded key :
    nested_guard ct s l a KDict = true -> nonref key = true ->
    refines_spec ct h0 s l (HWithoutItem a) (mkh [key] true true VMissing false None None [] None)
                 (SWithoutItem a) (mkah [abs0 key] true true AMissing false None None [] None).
  Proof.
    intros H Hkey. nfacts KDict H. dshape Hty Hk.
    exact (without_item_dict_nested_refines ct h0 l a c d k sp s lc Gl Gc Ga Gd Gfz Gni Gfld Gun kvs tk tv Hty Glc Go key Hkey).
  Qed.

  Theorem transform_item_dict_nested_guarded key fo bi :
    nested_guard ct s l a KDict = true -> dict_vals_proper s l a = true -> fail_at s = None ->
    nonref key = true -> is_missing key = false -> fo_ok fo ->
    refines_spec ct h0 s l (HTransformItem a) (mkh [key] true true VMissing false bi None [] fo)
                 (STransformItem a) (mkah [abs0 key] true true AMissing false bi None [] fo).
  Proof.
    intros H Hvp Hfa Hkey Hm Hfo. nfacts KDict H. dshape Hty Hk.
    exact (transform_item_dict_nested_refines ct h0 l a c d k sp s lc Gl Gc Ga Gd Gfz Gni Gfld Gun kvs tk tv Hty ltac:(dep) ltac:(dep)
             Glc Go (dvp_facts s l a kvs Hob Hvp) key fo bi Hkey Hm Hfa Hfo).
  Qed.

  Theorem update_item_dict_nested_guarded key v :
    nested_guard ct s l a KDict = true -> dict_vals_proper s l a = true -> plain_items ct s l a = true ->
    nonref key = true -> is_missing key = false -> nonref v = true ->
    refines_spec ct h0 s l (HUpdateItem a) (mkh [key; v] true true VMissing false None None [] None)
                 (SUpdateItem a) (mkah [abs0 key; abs0 v] true true AMissing false None None [] None).
  Proof.
    intros H Hvp Hp Hkey Hm Hnv. nfacts KDict H. destruct (plain_items_facts ct s l a sp Hsp Hp) as [P1 P2].
    dshape Hty Hk. cbn [item_type] in P2.
    exact (update_item_dict_nested_refines ct h0 l a c d k sp s lc Gl Gc Ga Gd Gfz Gni Gfld Gun kvs tk tv Hty ltac:(dep) ltac:(dep)
             Glc Go (dvp_facts s l a kvs Hob Hvp) key v P1 P2 Hkey Hm Hnv).
  Qed.

  (* ---- sets ---- *)
  Theorem with_item_set_nested_guarded v :
    nested_guard ct s l a KSet = true -> plain_items ct s l a = true -> vscalar v = true ->
    set_key_free ct (list_of s l a) v = true ->
    refines_spec ct h0 s l (HWithItem a) (mkh [v] true true VMissing false None None [] None)
                 (SWithItem a) (mkah [abs0 v] true true AMissing false None None [] None).
  Proof.
    intros H Hp Hv Hkf. nfacts KSet H. destruct (plain_items_facts ct s l a sp Hsp Hp) as [P1 P2].
    sshape Hty Hk. cbn [item_type] in P2. rewrite (list_of_set s l a xs Hob) in Hkf.
    exact (with_item_set_nested_refines ct h0 l a c d k sp s lc Gl Gc Ga Gd Gfz Gni Gfld Gun xs ity Hty ltac:(dep) Glc Go
             v P1 P2 Hv Hkf).
  Qed.

  Theorem without_item_set_nested_guarded voi :
    nested_guard ct s l a KSet = true -> nonref voi = true ->
    refines_spec ct h0 s l (HWithoutItem a) (mkh [voi] true true VMissing false None None [] None)
                 (SWithoutItem a) (mkah [abs0 voi] true true AMissing false None None [] None).
  Proof.
    intros H Hv. nfacts KSet H. sshape Hty Hk.
    exact (without_item_set_nested_refines ct h0 l a c d k sp s lc Gl Gc Ga Gd Gfz Gni Gfld Gun xs ity Hty Glc Go voi Hv).
  Qed.

  Theorem transform_item_set_nested_guarded voi fo bi :
    nested_guard ct s l a KSet = true -> fail_at s = None -> vscalar voi = true -> fo_ok fo ->
    set_change_ok ct s l a voi (trp fo voi) = true ->
    refines_spec ct h0 s l (HTransformItem a) (mkh [voi] true true VMissing false bi None [] fo)
                 (STransformItem a) (mkah [abs0 voi] true true AMissing false bi None [] fo).
  Proof.
    intros H Hfa Hv Hfo Hok. nfacts KSet H. sshape Hty Hk.
    destruct (set_change_ok_facts ct s l a xs voi (trp fo) (list_of_set s l a xs Hob) Hok) as [Hid Hkf].
    exact (transform_item_set_nested_refines ct h0 l a c d k sp s lc Gl Gc Ga Gd Gfz Gni Gfld Gun xs ity Hty ltac:(dep) Glc Go
             voi fo bi Hv Hfa Hfo Hid Hkf).
  Qed.

  Theorem update_item_set_nested_guarded voi v :
    nested_guard ct s l a KSet = true -> plain_items ct s l a = true -> vscalar voi = true -> nonref v = true ->
    set_change_ok ct s l a voi (up_pr v voi) = true ->
    refines_spec ct h0 s l (HUpdateItem a) (mkh [voi; v] true true VMissing false None None [] None)
                 (SUpdateItem a) (mkah [abs0 voi; abs0 v] true true AMissing false None None [] None).
  Proof.
    intros H Hp Hv Hnv Hok. nfacts KSet H. destruct (plain_items_facts ct s l a sp Hsp Hp) as [P1 P2].
    sshape Hty Hk. cbn [item_type] in P2.
    destruct (set_change_ok_facts ct s l a xs voi (up_pr v) (list_of_set s l a xs Hob) Hok) as [Hid Hkf].
    exact (update_item_set_nested_refines ct h0 l a c d k sp s lc Gl Gc Ga Gd Gfz Gni Gfld Gun xs ity Hty ltac:(dep) Glc Go
             voi v P1 P2 Hv Hnv Hid Hkf).
  Qed.
End GuardedNested.

(* ------------------------------------------------------------------ *)
(** * with_<item> through an item preparer on a nested receiver (in place) *)

Section GuardedNestedPrep.
  Variable ct : ctable.
  Variable h0 : list obj.
  Variable s : state.
  Variables (l : loc) (a : aid).

  Ltac nfacts kd H :=
    destruct (nested_guard_sound ct s l a kd H)
      as [c [d [k [sp [lc [o [Gl [Gc [Ga [Gd [Gfz [Gni [Gdep [Gfld [Glc [Go [Gun [Hk [Hsp Hob]]]]]]]]]]]]]]]]]]].
  Ltac dep := cbn [ty_depth] in *; lia.

  Theorem with_item_list_prep_nested_guarded idx v ins :
    nested_guard ct s l a KList = true -> prep_items ct s l a = true -> fail_at s = None ->
    vscalar v = true -> (idx = VMissing \/ exists i, idx = VInt i) ->
    refines_spec ct h0 s l (HWithItem a) (mkh [v] true true idx ins None None [] None)
                 (SWithItem a) (mkah [abs0 v] true true (abs0 idx) ins None None [] None).
  Proof.
    intros H Hp Hfa Hv Hi. nfacts KList H. destruct (prep_items_facts ct s l a sp Hsp Hp) as [P1 P2].
    destruct (a_ty sp) as [| | | | | | |ity| |ity'|] eqn:Hty; try discriminate Hk.
    destruct o as [xs| | |]; try discriminate Hk. cbn [item_type] in P2.
    exact (with_item_list_prep_nested_refines ct h0 l a c d k sp s lc Gl Gc Ga Gd Gfz Gni Gfld Gun P1 Hfa xs ity idx v ins
             Hty P2 ltac:(dep) Glc Go Hv Hi).
  Qed.

  Theorem with_item_dict_prep_nested_guarded key v :
    nested_guard ct s l a KDict = true -> prep_items ct s l a = true -> fail_at s = None ->
    nonref key = true -> vscalar v = true ->
    refines_spec ct h0 s l (HWithItem a) (mkh [key; v] true true VMissing false None None [] None)
                 (SWithItem a) (mkah [abs0 key; abs0 v] true true AMissing false None None [] None).
  Proof.
    intros H Hp Hfa Hkey Hv. nfacts KDict H. destruct (prep_items_facts ct s l a sp Hsp Hp) as [P1 P2].
    destruct (a_ty sp) as [| | | | | | | |tk tv| |] eqn:Hty; try discriminate Hk.
    destruct o as [|kvs| |]; try discriminate Hk. cbn [item_type] in P2.
    exact (with_item_dict_prep_nested_refines ct h0 l a c d k sp s lc Gl Gc Ga Gd Gfz Gni Gfld Gun P1 Hfa kvs tk tv key v
             Hty P2 ltac:(dep) ltac:(dep) Glc Go Hkey Hv).
  Qed.

  Theorem with_item_set_prep_nested_guarded v :
    nested_guard ct s l a KSet = true -> prep_items ct s l a = true -> fail_at s = None ->
    vscalar v = true -> set_prep_ok ct s l a v = true ->
    refines_spec ct h0 s l (HWithItem a) (mkh [v] true true VMissing false None None [] None)
                 (SWithItem a) (mkah [abs0 v] true true AMissing false None None [] None).
  Proof.
    intros H Hp Hfa Hv Hok. nfacts KSet H. destruct (prep_items_facts ct s l a sp Hsp Hp) as [P1 P2].
    destruct (a_ty sp) as [| | | | | | |ity'| |ity|] eqn:Hty; try discriminate Hk.
    destruct o as [| |xs|]; try discriminate Hk. cbn [item_type] in P2.
    exact (with_item_set_prep_nested_refines ct h0 l a c d k sp s lc Gl Gc Ga Gd Gfz Gni Gfld Gun P1 Hfa xs ity v
             Hty P2 ltac:(dep) Glc Go Hv (set_prep_ok_facts ct s l a sp xs v Hsp (list_of_set s l a xs Hob) Hok)).
  Qed.
End GuardedNestedPrep.

(* ------------------------------------------------------------------ *)
(** * Histories: the guard holds again after a successful in-place call *)

Lemma kind_ok_same kd t o o' : obj_kind o' = obj_kind o -> kind_ok kd t o' = kind_ok kd t o.
Proof. destruct o, o'; cbn [obj_kind]; intro E; try discriminate E; reflexivity. Qed.

Lemma flat_fieldsb_rewritten h lc o' d :
  scalar_obj o' = true -> flat_fieldsb h d = true -> flat_fieldsb (set_nth lc o' h) d = true.
Proof.
  intros Hsc. unfold flat_fieldsb. rewrite !forallb_forall. intros H p Hp. specialize (H p Hp).
  destruct (snd p) as [| | | | | | | |lx]; auto. cbn [flat_valb] in *.
  destruct (Nat.eq_dec lc lx) as [->|Hne].
  - destruct (nth_error h lx) eqn:E; [|discriminate].
    rewrite nth_error_set_nth_same by (apply nth_error_Some; congruence). exact Hsc.
  - now rewrite set_nth_other by auto.
Qed.

Lemma elem_guard_kept ct s s' l a kd lc o :
  elem_guard ct s l a kd = true -> attr_cell s l a = Some lc -> attr_obj s l a = Some o ->
  cell_rewritten s s' lc o -> elem_guard ct s' l a kd = true.
Proof.
  intros G Hcell Hobj [o' [Hh [Hsc Hkd]]].
  unfold attr_obj in Hobj. rewrite Hcell in Hobj.
  unfold elem_guard, attr_cell in *. rewrite Hh.
  destruct (nth_error (heap s) l) as [[| | |c d]|] eqn:El; try discriminate.
  destruct (lookup_cls ct c) as [k|] eqn:Ec; try discriminate.
  destruct (lookup_attr k a) as [sp|] eqn:Ea; try discriminate.
  destruct (assoc a d) as [[| | | | | | | |lc0]|] eqn:Ef; try discriminate.
  inversion Hcell; subst lc0. rewrite Hobj in G.
  assert (Hne : lc <> l).
  { intro E. subst lc. rewrite El in Hobj. inversion Hobj; subst o.
    repeat (apply andb_true_iff in G; destruct G as [G ?]). discriminate. }
  rewrite (set_nth_other lc l o' (heap s) Hne), El, Ec, Ea, Ef.
  rewrite nth_error_set_nth_same by (apply nth_error_Some; congruence).
  apply andb_true_iff in G. destruct G as [G Hkind].
  apply andb_true_iff in G. destruct G as [G Hsco].
  apply andb_true_iff in G. destruct G as [G Hush].
  apply andb_true_iff in G. destruct G as [G Hflat].
  rewrite G, Hush, Hsc, (kind_ok_same kd (a_ty sp) o o' Hkd), Hkind.
  rewrite (flat_fieldsb_rewritten (heap s) lc o' d Hsc Hflat). reflexivity.
Qed.

(* after the call: the guard holds again (success), or nothing happened to the heap (error) *)
Definition guard_kept (ct : ctable) (s : state) (l : loc) (a : aid) (kd : ckind) (hp : helper) (h : hargs) : Prop :=
  match run_helper ct l hp h s with
  | (Ok _, s') => elem_guard ct s' l a kd = true
  | (Err _, s') => heap s' = heap s
  end.

Section GuardedKeeps.
  Variable ct : ctable.
  Variable s : state.
  Variables (l : loc) (a : aid).

  Lemma keeps_to_guard kd hp h lc o :
    elem_guard ct s l a kd = true -> attr_cell s l a = Some lc -> attr_obj s l a = Some o ->
    keeps_cell ct s l hp h lc o -> guard_kept ct s l a kd hp h.
  Proof.
    intros G Hc Ho K. unfold keeps_cell in K. unfold guard_kept.
    destruct (run_helper ct l hp h s) as [[r|e] s']; auto.
    exact (elem_guard_kept ct s s' l a kd lc o G Hc Ho K).
  Qed.

  Ltac ipfacts kd H :=
    destruct (elem_guard_sound ct s l a kd H) as [c [d [k [sp [lc [o [G [Hk [Hsp Hob]]]]]]]]];
    destruct G as [Gl Gc Ga Gd Gfz Gni Gdep Gfld Glc Go Gflat Gsh];
    assert (Hcell : attr_cell s l a = Some lc) by (unfold attr_cell; now rewrite Gl, Gfld).
  Ltac lshape Hty Hk :=
    match goal with sp : attr_spec, o : obj |- _ =>
      destruct (a_ty sp) as [| | | | | | |ity| |ity'|] eqn:Hty; try discriminate Hk;
      destruct o as [xs| | |]; try discriminate Hk end.
  Ltac dshape Hty Hk :=
    match goal with sp : attr_spec, o : obj |- _ =>
      destruct (a_ty sp) as [| | | | | | | |tk tv| |] eqn:Hty; try discriminate Hk;
      destruct o as [|kvs| |]; try discriminate Hk end.
  Ltac sshape Hty Hk :=
    match goal with sp : attr_spec, o : obj |- _ =>
      destruct (a_ty sp) as [| | | | | | |ity'| |ity|] eqn:Hty; try discriminate Hk;
      destruct o as [| |xs|]; try discriminate Hk end.
  Ltac dep := cbn [ty_depth] in *; lia.

  (* ---- lists ---- *)
  Theorem with_item_list_keeps_guard idx v ins :
    elem_guard ct s l a KList = true -> plain_items ct s l a = true ->
    vscalar v = true -> (idx = VMissing \/ exists i, idx = VInt i) ->
    guard_kept ct s l a KList (HWithItem a) (mkh [v] true true idx ins None None [] None).
  Proof.
    intros H Hp Hv Hi. pose proof H as H0. ipfacts KList H. destruct (plain_items_facts ct s l a sp Hsp Hp) as [P1 P2].
    lshape Hty Hk. cbn [item_type] in P2.
    apply (keeps_to_guard KList _ _ lc (OList xs) H0 Hcell Hob).
    exact (with_item_list_keeps ct l a c d k sp s lc Gl Gc Ga Gd Gfz Gni Gfld Gsh xs ity Hty ltac:(dep) Glc idx v ins Go P1 P2 Hv Hi).
  Qed.

  Theorem without_item_list_keeps_guard voi bi :
    elem_guard ct s l a KList = true -> nonref voi = true ->
    guard_kept ct s l a KList (HWithoutItem a) (mkh [voi] true true VMissing false bi None [] None).
  Proof.
    intros H Hv. pose proof H as H0. ipfacts KList H. lshape Hty Hk.
    apply (keeps_to_guard KList _ _ lc (OList xs) H0 Hcell Hob).
    exact (without_item_list_keeps ct l a c d k sp s lc Gl Gc Ga Gd Gfz Gni Gfld Gsh xs ity Hty ltac:(dep) Glc voi bi Go Hv).
  Qed.

  Theorem transform_item_list_keeps_guard voi fo bi :
    elem_guard ct s l a KList = true -> proper_elems s l a = true -> fail_at s = None ->
    nonref voi = true -> is_missing voi = false -> fo_ok fo -> by_value_ok ct s l a voi bi = true ->
    guard_kept ct s l a KList (HTransformItem a) (mkh [voi] true true VMissing false bi None [] fo).
  Proof.
    intros H Hpe Hfa Hv Hm Hfo Hbv. pose proof H as H0. ipfacts KList H. lshape Hty Hk.
    unfold proper_elems in Hpe. rewrite (list_of_list s l a xs Hob) in Hpe.
    apply (keeps_to_guard KList _ _ lc (OList xs) H0 Hcell Hob).
    exact (transform_item_list_keeps ct l a c d k sp s lc Gl Gc Ga Gd Gfz Gni Gfld Gsh xs ity Hty ltac:(dep) Glc voi fo bi Hpe Hv Hm Hfa Hfo
             (by_value_ok_facts ct s l a sp ity xs voi bi Hsp Hty (list_of_list s l a xs Hob) Hbv)).
  Qed.

  Theorem update_item_list_keeps_guard voi v bi :
    elem_guard ct s l a KList = true -> proper_elems s l a = true -> plain_items ct s l a = true ->
    nonref voi = true -> is_missing voi = false -> nonref v = true ->
    vscalar v || by_value_ok ct s l a voi bi = true ->
    guard_kept ct s l a KList (HUpdateItem a) (mkh [voi; v] true true VMissing false bi None [] None).
  Proof.
    intros H Hpe Hp Hv Hm Hnv Hbv. pose proof H as H0. ipfacts KList H.
    destruct (plain_items_facts ct s l a sp Hsp Hp) as [P1 P2]. lshape Hty Hk. cbn [item_type] in P2.
    unfold proper_elems in Hpe. rewrite (list_of_list s l a xs Hob) in Hpe.
    apply (keeps_to_guard KList _ _ lc (OList xs) H0 Hcell Hob).
    refine (update_item_list_keeps ct l a c d k sp s lc Gl Gc Ga Gd Gfz Gni Gfld Gsh xs ity Hty ltac:(dep) Glc voi v bi Hpe P1 P2 Hv Hm Hnv _).
    intros Hsv Hb. rewrite Hsv in Hbv. cbn [orb] in Hbv.
    exact (by_value_ok_facts ct s l a sp ity xs voi bi Hsp Hty (list_of_list s l a xs Hob) Hbv Hb).
  Qed.

  (* ---- dicts ---- *)
  Theorem with_item_dict_keeps_guard key v :
    elem_guard ct s l a KDict = true -> plain_items ct s l a = true -> nonref key = true -> vscalar v = true ->
    guard_kept ct s l a KDict (HWithItem a) (mkh [key; v] true true VMissing false None None [] None).
  Proof.
    intros H Hp Hkey Hv. pose proof H as H0. ipfacts KDict H.
    destruct (plain_items_facts ct s l a sp Hsp Hp) as [P1 P2]. dshape Hty Hk. cbn [item_type] in P2.
    apply (keeps_to_guard KDict _ _ lc (ODict kvs) H0 Hcell Hob).
    exact (with_item_dict_keeps ct l a c d k sp s lc Gl Gc Ga Gd Gfz Gni Gfld Gsh kvs tk tv Hty ltac:(dep) ltac:(dep) Glc Go key v P1 P2 Hkey Hv).
  Qed.

  Theorem without_item_dict_keeps_guard key :
    elem_guard ct s l a KDict = true -> nonref key = true ->
    guard_kept ct s l a KDict (HWithoutItem a) (mkh [key] true true VMissing false None None [] None).
  Proof.
    intros H Hkey. pose proof H as H0. ipfacts KDict H. dshape Hty Hk.
    apply (keeps_to_guard KDict _ _ lc (ODict kvs) H0 Hcell Hob).
    exact (without_item_dict_keeps ct l a c d k sp s lc Gl Gc Ga Gd Gfz Gni Gfld Gsh kvs tk tv Hty Glc Go key Hkey).
  Qed.

  Theorem transform_item_dict_keeps_guard key fo bi :
    elem_guard ct s l a KDict = true -> dict_vals_proper s l a = true -> fail_at s = None ->
    nonref key = true -> fo_ok fo ->
    guard_kept ct s l a KDict (HTransformItem a) (mkh [key] true true VMissing false bi None [] fo).
  Proof.
    intros H Hvp Hfa Hkey Hfo. pose proof H as H0. ipfacts KDict H. dshape Hty Hk.
    apply (keeps_to_guard KDict _ _ lc (ODict kvs) H0 Hcell Hob).
    exact (transform_item_dict_keeps ct l a c d k sp s lc Gl Gc Ga Gd Gfz Gni Gfld Gsh kvs tk tv Hty ltac:(dep) ltac:(dep) Glc Go
             key fo bi (dvp_facts s l a kvs Hob Hvp) Hkey Hfa Hfo).
  Qed.

  Theorem update_item_dict_keeps_guard key v :
    elem_guard ct s l a KDict = true -> dict_vals_proper s l a = true -> plain_items ct s l a = true ->
    nonref key = true -> nonref v = true ->
    guard_kept ct s l a KDict (HUpdateItem a) (mkh [key; v] true true VMissing false None None [] None).
  Proof.
    intros H Hvp Hp Hkey Hnv. pose proof H as H0. ipfacts KDict H.
    destruct (plain_items_facts ct s l a sp Hsp Hp) as [P1 P2]. dshape Hty Hk. cbn [item_type] in P2.
    apply (keeps_to_guard KDict _ _ lc (ODict kvs) H0 Hcell Hob).
    exact (update_item_dict_keeps ct l a c d k sp s lc Gl Gc Ga Gd Gfz Gni Gfld Gsh kvs tk tv Hty ltac:(dep) ltac:(dep) Glc Go
             key v (dvp_facts s l a kvs Hob Hvp) P1 P2 Hkey Hnv).
  Qed.

  (* ---- sets ---- *)
  Theorem with_item_set_keeps_guard v :
    elem_guard ct s l a KSet = true -> plain_items ct s l a = true -> vscalar v = true ->
    guard_kept ct s l a KSet (HWithItem a) (mkh [v] true true VMissing false None None [] None).
  Proof.
    intros H Hp Hv. pose proof H as H0. ipfacts KSet H.
    destruct (plain_items_facts ct s l a sp Hsp Hp) as [P1 P2]. sshape Hty Hk. cbn [item_type] in P2.
    apply (keeps_to_guard KSet _ _ lc (OSet xs) H0 Hcell Hob).
    exact (with_item_set_keeps ct l a c d k sp s lc Gl Gc Ga Gd Gfz Gni Gfld Gsh xs ity Hty ltac:(dep) Glc Go v P1 P2 Hv).
  Qed.

  Theorem without_item_set_keeps_guard voi :
    elem_guard ct s l a KSet = true -> nonref voi = true ->
    guard_kept ct s l a KSet (HWithoutItem a) (mkh [voi] true true VMissing false None None [] None).
  Proof.
    intros H Hv. pose proof H as H0. ipfacts KSet H. sshape Hty Hk.
    apply (keeps_to_guard KSet _ _ lc (OSet xs) H0 Hcell Hob).
    exact (without_item_set_keeps ct l a c d k sp s lc Gl Gc Ga Gd Gfz Gni Gfld Gsh xs ity Hty Glc Go voi Hv).
  Qed.

  Theorem transform_item_set_keeps_guard voi fo bi :
    elem_guard ct s l a KSet = true -> fail_at s = None -> vscalar voi = true -> fo_ok fo ->
    guard_kept ct s l a KSet (HTransformItem a) (mkh [voi] true true VMissing false bi None [] fo).
  Proof.
    intros H Hfa Hv Hfo. pose proof H as H0. ipfacts KSet H. sshape Hty Hk.
    apply (keeps_to_guard KSet _ _ lc (OSet xs) H0 Hcell Hob).
    exact (transform_item_set_keeps ct l a c d k sp s lc Gl Gc Ga Gd Gfz Gni Gfld Gsh xs ity Hty ltac:(dep) Glc Go voi fo bi Hv Hfa Hfo).
  Qed.

  Theorem update_item_set_keeps_guard voi v :
    elem_guard ct s l a KSet = true -> plain_items ct s l a = true -> vscalar voi = true -> nonref v = true ->
    guard_kept ct s l a KSet (HUpdateItem a) (mkh [voi; v] true true VMissing false None None [] None).
  Proof.
    intros H Hp Hv Hnv. pose proof H as H0. ipfacts KSet H.
    destruct (plain_items_facts ct s l a sp Hsp Hp) as [P1 P2]. sshape Hty Hk. cbn [item_type] in P2.
    apply (keeps_to_guard KSet _ _ lc (OSet xs) H0 Hcell Hob).
    exact (update_item_set_keeps ct l a c d k sp s lc Gl Gc Ga Gd Gfz Gni Gfld Gsh xs ity Hty ltac:(dep) Glc Go voi v P1 P2 Hv Hnv).
  Qed.
End GuardedKeeps.

(* ------------------------------------------------------------------ *)
(** * Histories of copy-on-write calls: the guard holds for the returned instance *)

Lemma nodupb_complete l : NoDup l -> nodupb l = true.
Proof.
  induction 1 as [|x l Hx Hl IH]; [reflexivity|]. cbn [nodupb]. rewrite IH, andb_true_r. apply negb_true_iff.
  destruct (existsb (Nat.eqb x) l) eqn:E; auto. apply existsb_exists in E. destruct E as [y [Hy Ey]].
  apply Nat.eqb_eq in Ey. subst y. contradiction.
Qed.

Lemma flat_fieldsb_complete h d : flat_fields h d -> flat_fieldsb h d = true.
Proof.
  unfold flat_fields, flat_fieldsb. intro H. apply forallb_forall. intros p Hp.
  destruct (H p Hp) as [Hn|[lx [o [E [Ho Hs]]]]].
  - destruct (snd p); cbn [nonref] in Hn; try discriminate; reflexivity.
  - rewrite E. cbn [flat_valb]. now rewrite Ho.
Qed.

Lemma copy_guard_result ct s s' l l' a kd c d o :
  copy_guard ct s l a kd = true -> nth_error (heap s) l = Some (OInst c d) -> attr_obj s l a = Some o ->
  copy_shape s' l' a c o -> copy_guard ct s' l' a kd = true.
Proof.
  intros G Hl Hobj [dfin [lp [o' [H1 [H2 [H3 [H4 [H5 [H6 [H7 H8]]]]]]]]]].
  unfold attr_obj, attr_cell in Hobj. rewrite Hl in Hobj.
  unfold copy_guard in *. rewrite Hl in G. rewrite H1.
  destruct (lookup_cls ct c) as [k|]; try discriminate.
  destruct (lookup_attr k a) as [sp|]; try discriminate.
  destruct (assoc a d) as [[| | | | | | | |lc]|]; try discriminate.
  rewrite Hobj in G. rewrite H4, H6.
  apply andb_true_iff in G. destruct G as [G Gkind].
  apply andb_true_iff in G. destruct G as [G Gsc].
  apply andb_true_iff in G. destruct G as [G Ga0].
  apply andb_true_iff in G. destruct G as [G Ginit].
  apply andb_true_iff in G. destruct G as [G Gpc].
  apply andb_true_iff in G. destruct G as [G Gflat].
  apply andb_true_iff in G. destruct G as [G Gdep].
  apply andb_true_iff in G. destruct G as [G Gnd].
  apply andb_true_iff in G. destruct G as [Gdup Gdnc].
  rewrite (nodupb_complete _ H2), Gdnc, Gnd, Gdep, (flat_fieldsb_complete _ _ H3), Gpc, H5, Ga0, H7.
  rewrite (kind_ok_same kd (a_ty sp) o o' H8), Gkind. reflexivity.
Qed.

(* after the call: the guard holds for the instance it returned *)
Definition copy_guard_kept (ct : ctable) (s : state) (l : loc) (a : aid) (kd : ckind) (hp : helper) (h : hargs) : Prop :=
  match run_helper ct l hp h s with
  | (Ok r, s') => exists l', r = VRef l' /\ copy_guard ct s' l' a kd = true
  | (Err _, s') => True
  end.

Section GuardedCopyKeeps.
  Variable ct : ctable.
  Variable s : state.
  Variables (l : loc) (a : aid).

  Lemma shape_to_guard kd hp h c d o :
    copy_guard ct s l a kd = true -> nth_error (heap s) l = Some (OInst c d) -> attr_obj s l a = Some o ->
    keeps_shape ct s l a c hp h o -> copy_guard_kept ct s l a kd hp h.
  Proof.
    intros G Hl Ho K. unfold keeps_shape in K. unfold copy_guard_kept.
    destruct (run_helper ct l hp h s) as [[r|e] s']; auto.
    destruct K as [l' [-> K]]. exists l'. split; auto.
    exact (copy_guard_result ct s s' l l' a kd c d o G Hl Ho K).
  Qed.

  Ltac ipfacts kd H :=
    destruct (copy_guard_sound ct s l a kd H) as [c [d [k [sp [lc [o [G [Hk [Hsp Hob]]]]]]]]];
    destruct G as [Gl Gc Ga Gd Gdnc Gpc Gni Gdep Gfld Glc Go Gflat Ginit Ga0].
  Ltac lshape Hty Hk :=
    match goal with sp : attr_spec, o : obj |- _ =>
      destruct (a_ty sp) as [| | | | | | |ity| |ity'|] eqn:Hty; try discriminate Hk;
      destruct o as [xs| | |]; try discriminate Hk end.
  Ltac dshape Hty Hk :=
    match goal with sp : attr_spec, o : obj |- _ =>
      destruct (a_ty sp) as [| | | | | | | |tk tv| |] eqn:Hty; try discriminate Hk;
      destruct o as [|kvs| |]; try discriminate Hk end.
  Ltac sshape Hty Hk :=
    match goal with sp : attr_spec, o : obj |- _ =>
      destruct (a_ty sp) as [| | | | | | |ity'| |ity|] eqn:Hty; try discriminate Hk;
      destruct o as [| |xs|]; try discriminate Hk end.
  Ltac dep := cbn [ty_depth] in *; lia.

  (* ---- lists ---- *)
  Theorem with_item_list_copy_keeps_guard idx v ins :
    copy_guard ct s l a KList = true -> plain_items ct s l a = true ->
    vscalar v = true -> (idx = VMissing \/ exists i, idx = VInt i) ->
    copy_guard_kept ct s l a KList (HWithItem a) (mkh [v] false true idx ins None None [] None).
  Proof.
    intros H Hp Hv Hi. pose proof H as H0. ipfacts KList H. destruct (plain_items_facts ct s l a sp Hsp Hp) as [P1 P2].
    lshape Hty Hk. cbn [item_type] in P2.
    apply (shape_to_guard KList _ _ c d (OList xs) H0 Gl Hob).
    exact (with_item_list_copy_keeps ct l a c d k sp s lc Gl Gc Ga Gd Gdnc Gpc Gni Gfld Gflat Ginit Ga0 xs ity Hty ltac:(dep) Glc idx v ins Go P1 P2 Hv Hi).
  Qed.

  Theorem without_item_list_copy_keeps_guard voi bi :
    copy_guard ct s l a KList = true -> nonref voi = true ->
    copy_guard_kept ct s l a KList (HWithoutItem a) (mkh [voi] false true VMissing false bi None [] None).
  Proof.
    intros H Hv. pose proof H as H0. ipfacts KList H. lshape Hty Hk.
    apply (shape_to_guard KList _ _ c d (OList xs) H0 Gl Hob).
    exact (without_item_list_copy_keeps ct l a c d k sp s lc Gl Gc Ga Gd Gdnc Gpc Gni Gfld Gflat Ginit Ga0 xs ity Hty ltac:(dep) Glc voi bi Go Hv).
  Qed.

  Theorem transform_item_list_copy_keeps_guard voi fo bi :
    copy_guard ct s l a KList = true -> proper_elems s l a = true -> fail_at s = None ->
    nonref voi = true -> is_missing voi = false -> fo_ok fo -> by_value_ok ct s l a voi bi = true ->
    copy_guard_kept ct s l a KList (HTransformItem a) (mkh [voi] false true VMissing false bi None [] fo).
  Proof.
    intros H Hpe Hfa Hv Hm Hfo Hbv. pose proof H as H0. ipfacts KList H. lshape Hty Hk.
    unfold proper_elems in Hpe. rewrite (list_of_list s l a xs Hob) in Hpe.
    apply (shape_to_guard KList _ _ c d (OList xs) H0 Gl Hob).
    exact (transform_item_list_copy_keeps ct l a c d k sp s lc Gl Gc Ga Gd Gdnc Gpc Gni Gfld Gflat Ginit Ga0 xs ity Hty ltac:(dep) Glc voi fo bi Hpe Hv Hm Hfa Hfo
             (by_value_ok_facts ct s l a sp ity xs voi bi Hsp Hty (list_of_list s l a xs Hob) Hbv)).
  Qed.

  Theorem update_item_list_copy_keeps_guard voi v bi :
    copy_guard ct s l a KList = true -> proper_elems s l a = true -> plain_items ct s l a = true ->
    nonref voi = true -> is_missing voi = false -> nonref v = true ->
    vscalar v || by_value_ok ct s l a voi bi = true ->
    copy_guard_kept ct s l a KList (HUpdateItem a) (mkh [voi; v] false true VMissing false bi None [] None).
  Proof.
    intros H Hpe Hp Hv Hm Hnv Hbv. pose proof H as H0. ipfacts KList H.
    destruct (plain_items_facts ct s l a sp Hsp Hp) as [P1 P2]. lshape Hty Hk. cbn [item_type] in P2.
    unfold proper_elems in Hpe. rewrite (list_of_list s l a xs Hob) in Hpe.
    apply (shape_to_guard KList _ _ c d (OList xs) H0 Gl Hob).
    refine (update_item_list_copy_keeps ct l a c d k sp s lc Gl Gc Ga Gd Gdnc Gpc Gni Gfld Gflat Ginit Ga0 xs ity Hty ltac:(dep) Glc voi v bi Hpe P1 P2 Hv Hm Hnv _).
    intros Hsv Hb. rewrite Hsv in Hbv. cbn [orb] in Hbv.
    exact (by_value_ok_facts ct s l a sp ity xs voi bi Hsp Hty (list_of_list s l a xs Hob) Hbv Hb).
  Qed.

  (* ---- dicts ---- *)
  Theorem with_item_dict_copy_keeps_guard key v :
    copy_guard ct s l a KDict = true -> plain_items ct s l a = true -> nonref key = true -> vscalar v = true ->
    copy_guard_kept ct s l a KDict (HWithItem a) (mkh [key; v] false true VMissing false None None [] None).
  Proof.
    intros H Hp Hkey Hv. pose proof H as H0. ipfacts KDict H.
    destruct (plain_items_facts ct s l a sp Hsp Hp) as [P1 P2]. dshape Hty Hk. cbn [item_type] in P2.
    apply (shape_to_guard KDict _ _ c d (ODict kvs) H0 Gl Hob).
    exact (with_item_dict_copy_keeps ct l a c d k sp s lc Gl Gc Ga Gd Gdnc Gpc Gni Gfld Gflat Ginit Ga0 kvs tk tv Hty ltac:(dep) ltac:(dep) Glc Go key v P1 P2 Hkey Hv).
  Qed.

  Theorem without_item_dict_copy_keeps_guard key :
    copy_guard ct s l a KDict = true -> nonref key = true ->
    copy_guard_kept ct s l a KDict (HWithoutItem a) (mkh [key] false true VMissing false None None [] None).
  Proof.
    intros H Hkey. pose proof H as H0. ipfacts KDict H. dshape Hty Hk.
    apply (shape_to_guard KDict _ _ c d (ODict kvs) H0 Gl Hob).
    exact (without_item_dict_copy_keeps ct l a c d k sp s lc Gl Gc Ga Gd Gdnc Gpc Gni Gfld Gflat Ginit Ga0 kvs tk tv Hty Glc Go key Hkey).
  Qed.

  Theorem transform_item_dict_copy_keeps_guard key fo bi :
    copy_guard ct s l a KDict = true -> dict_vals_proper s l a = true -> fail_at s = None ->
    nonref key = true -> fo_ok fo ->
    copy_guard_kept ct s l a KDict (HTransformItem a) (mkh [key] false true VMissing false bi None [] fo).
  Proof.
    intros H Hvp Hfa Hkey Hfo. pose proof H as H0. ipfacts KDict H. dshape Hty Hk.
    apply (shape_to_guard KDict _ _ c d (ODict kvs) H0 Gl Hob).
    exact (transform_item_dict_copy_keeps ct l a c d k sp s lc Gl Gc Ga Gd Gdnc Gpc Gni Gfld Gflat Ginit Ga0 kvs tk tv Hty ltac:(dep) ltac:(dep) Glc Go
             key fo bi (dvp_facts s l a kvs Hob Hvp) Hkey Hfa Hfo).
  Qed.

  Theorem update_item_dict_copy_keeps_guard key v :
    copy_guard ct s l a KDict = true -> dict_vals_proper s l a = true -> plain_items ct s l a = true ->
    nonref key = true -> nonref v = true ->
    copy_guard_kept ct s l a KDict (HUpdateItem a) (mkh [key; v] false true VMissing false None None [] None).
  Proof.
    intros H Hvp Hp Hkey Hnv. pose proof H as H0. ipfacts KDict H.
    destruct (plain_items_facts ct s l a sp Hsp Hp) as [P1 P2]. dshape Hty Hk. cbn [item_type] in P2.
    apply (shape_to_guard KDict _ _ c d (ODict kvs) H0 Gl Hob).
    exact (update_item_dict_copy_keeps ct l a c d k sp s lc Gl Gc Ga Gd Gdnc Gpc Gni Gfld Gflat Ginit Ga0 kvs tk tv Hty ltac:(dep) ltac:(dep) Glc Go
             key v (dvp_facts s l a kvs Hob Hvp) P1 P2 Hkey Hnv).
  Qed.

  (* ---- sets ---- *)
  Theorem with_item_set_copy_keeps_guard v :
    copy_guard ct s l a KSet = true -> plain_items ct s l a = true -> vscalar v = true ->
    copy_guard_kept ct s l a KSet (HWithItem a) (mkh [v] false true VMissing false None None [] None).
  Proof.
    intros H Hp Hv. pose proof H as H0. ipfacts KSet H.
    destruct (plain_items_facts ct s l a sp Hsp Hp) as [P1 P2]. sshape Hty Hk. cbn [item_type] in P2.
    apply (shape_to_guard KSet _ _ c d (OSet xs) H0 Gl Hob).
    exact (with_item_set_copy_keeps ct l a c d k sp s lc Gl Gc Ga Gd Gdnc Gpc Gni Gfld Gflat Ginit Ga0 xs ity Hty ltac:(dep) Glc Go v P1 P2 Hv).
  Qed.

  Theorem without_item_set_copy_keeps_guard voi :
    copy_guard ct s l a KSet = true -> nonref voi = true ->
    copy_guard_kept ct s l a KSet (HWithoutItem a) (mkh [voi] false true VMissing false None None [] None).
  Proof.
    intros H Hv. pose proof H as H0. ipfacts KSet H. sshape Hty Hk.
    apply (shape_to_guard KSet _ _ c d (OSet xs) H0 Gl Hob).
    exact (without_item_set_copy_keeps ct l a c d k sp s lc Gl Gc Ga Gd Gdnc Gpc Gni Gfld Gflat Ginit Ga0 xs ity Hty Glc Go voi Hv).
  Qed.

  Theorem transform_item_set_copy_keeps_guard voi fo bi :
    copy_guard ct s l a KSet = true -> fail_at s = None -> vscalar voi = true -> fo_ok fo ->
    copy_guard_kept ct s l a KSet (HTransformItem a) (mkh [voi] false true VMissing false bi None [] fo).
  Proof.
    intros H Hfa Hv Hfo. pose proof H as H0. ipfacts KSet H. sshape Hty Hk.
    apply (shape_to_guard KSet _ _ c d (OSet xs) H0 Gl Hob).
    exact (transform_item_set_copy_keeps ct l a c d k sp s lc Gl Gc Ga Gd Gdnc Gpc Gni Gfld Gflat Ginit Ga0 xs ity Hty ltac:(dep) Glc Go voi fo bi Hv Hfa Hfo).
  Qed.

  Theorem update_item_set_copy_keeps_guard voi v :
    copy_guard ct s l a KSet = true -> plain_items ct s l a = true -> vscalar voi = true -> nonref v = true ->
    copy_guard_kept ct s l a KSet (HUpdateItem a) (mkh [voi; v] false true VMissing false None None [] None).
  Proof.
    intros H Hp Hv Hnv. pose proof H as H0. ipfacts KSet H.
    destruct (plain_items_facts ct s l a sp Hsp Hp) as [P1 P2]. sshape Hty Hk. cbn [item_type] in P2.
    apply (shape_to_guard KSet _ _ c d (OSet xs) H0 Gl Hob).
    exact (update_item_set_copy_keeps ct l a c d k sp s lc Gl Gc Ga Gd Gdnc Gpc Gni Gfld Gflat Ginit Ga0 xs ity Hty ltac:(dep) Glc Go voi v P1 P2 Hv Hnv).
  Qed.
End GuardedCopyKeeps.

(* ------------------------------------------------------------------ *)
(** * A concrete class and receiver: xs : List[int], m : Dict[str, int], t : Set[int] *)

Definition ex_list_sp : attr_spec := mkattr 1 (TList TInt) VMissing None 0 true false None None [].
Definition ex_dict_sp : attr_spec := mkattr 2 (TDict TStr TInt) VMissing None 0 true false None None [].
Definition ex_set_sp : attr_spec := mkattr 3 (TSet TInt) VMissing None 0 true false None None [].
Definition ex_cls : cls := mkcls 0 [ex_list_sp; ex_dict_sp; ex_set_sp] false false None [0] 0 [] None None.
Definition ex_ct : ctable := [ex_cls].
(* A(xs=[1, 0, 1, 0], m={'': 0, 'a7': 1}, t={2, 0}) *)
Definition ex_state : state :=
  mkst [OInst 0 [(1, VRef 1); (2, VRef 2); (3, VRef 3)];
        OList [VInt 1; VInt 0; VInt 1; VInt 0];
        ODict [(VStr 0, VInt 0); (VStr 7, VInt 1)];
        OSet [VInt 2; VInt 0]] 0 None.

(* the same class declared frozen: copy-on-write calls work on it, in-place calls do not *)
Definition ex_cls_frozen : cls := mkcls 0 [ex_list_sp; ex_dict_sp; ex_set_sp] true false None [0] 0 [] None None.
Definition ex_ct_frozen : ctable := [ex_cls_frozen].

(* an instance of the same class whose three collection attributes hold nothing *)
Definition ex_state_missing : state := mkst [OInst 0 []] 0 None.

(* the same class with item preparers: xs and t add 10 to a new element, m takes it as it is *)
Definition ex_list_sp_p : attr_spec := mkattr 1 (TList TInt) VMissing None 0 true false None (Some (FAddInt 10)) [].
Definition ex_set_sp_p : attr_spec := mkattr 3 (TSet TInt) VMissing None 0 true false None (Some (FAddInt 10)) [].
Definition ex_cls_prep : cls := mkcls 0 [ex_list_sp_p; ex_dict_sp; ex_set_sp_p] false false None [0] 0 [] None None.
Definition ex_ct_prep : ctable := [ex_cls_prep].

(* the same class with a fourth attribute n : int that is invalidated by m: editing xs or t is
   within the guard, editing m is not *)
Definition ex_dep_sp : attr_spec := mkattr 4 TInt (VInt 0) None 0 true false None None [2].
Definition ex_cls_dep : cls := mkcls 0 [ex_list_sp; ex_dict_sp; ex_set_sp; ex_dep_sp] false false None [0] 0 [] None None.
Definition ex_ct_dep : ctable := [ex_cls_dep].

(* a NESTED receiver: xs : List[int] next to `sub`, an attribute holding another instance whose own
   attribute holds a list of lists with sharing *)
Definition ex_sub_sp : attr_spec := mkattr 5 TAny VMissing None 0 true false None None [].
Definition ex_cls_nest : cls := mkcls 0 [ex_list_sp; ex_sub_sp] false false None [0] 0 [] None None.
Definition ex_ct_nest : ctable := [ex_cls_nest].
Definition ex_state_nest : state :=
  mkst [OInst 0 [(1, VRef 1); (5, VRef 2)];
        OList [VInt 1; VInt 0];
        OInst 0 [(1, VRef 3); (5, VRef 4)];
        OList [VInt 9];
        OList [VRef 5; VRef 5; VRef 3];
        OList [VInt 7]] 0 None.
