(* C06: tenth layer: item preparers.  with_<item> on a List / Dict / Set
   attribute of scalars whose class declares an item preparer `_prepare_<item>`
   (a pool function mapping scalars to scalars, or raising): the new element is
   run through the preparer first; in place and copy-on-write. *)
From Coq Require Import List ZArith Bool Arith Lia.
From SC Require Import Base.Res Base.PyList Inst.Heap Inst.ClassTable Inst.Model Inst.Canon
  Inst.Abs Inst.SpecHelpers Inst.ElemProofs Inst.Framed Inst.RefineProofs Inst.CopyProofs Inst.ElemRefineDep Inst.CopyStore
  Inst.ElemRefine Inst.ElemRefine2 Inst.ElemRefine3 Inst.ElemRefine4 Inst.ElemRefine5 Inst.ElemRefine6
  Inst.ElemRefine7 Inst.ElemRefine8 Inst.ElemRefine9.
Import ListNotations.
Open Scope nat_scope.

#[local] Opaque FUEL.
Local Opaque py_eq.

(* ------------------------------------------------------------------ *)
(** * The value procedure on a new proper scalar, item preparer included *)

Definition prep_val (sp : attr_spec) (v : val) : res val :=
  match a_prepare_item sp with Some f => pool_apply f v | None => Ok v end.
Definition prep_st (sp : attr_spec) (s1 : state) : state :=
  match a_prepare_item sp with Some _ => ticked s1 | None => s1 end.
Definition prep_ok (sp : attr_spec) : Prop :=
  match a_prepare_item sp with Some f => pool_fn f = true | None => True end.

Lemma prep_st_heap sp s1 : heap (prep_st sp s1) = heap s1.
Proof. unfold prep_st. destruct (a_prepare_item sp); reflexivity. Qed.

Lemma prep_val_scalar sp v v' : prep_ok sp -> vscalar v = true -> prep_val sp v = Ok v' -> vscalar v' = true.
Proof.
  unfold prep_ok, prep_val. destruct (a_prepare_item sp) as [f|]; intros Hf Hv E.
  - exact (pool_apply_scalar f v v' Hf Hv E).
  - inversion E; subst; auto.
Qed.

Section NewPrep.
  Variable ct : ctable.
  Variable h0 : list obj.
  Variable sp : attr_spec.
  Hypothesis Hpok : prep_ok sp.
  Hypothesis Hstrict : spec_of_ty_strict (item_type (a_ty sp)) = None.

  Lemma mutate_value_new_prep rec inst old v replace s1 :
    vscalar v = true -> fail_at s1 = None ->
    mutate_value ct rec (mkmv old v replace (PItem sp inst) None (Some (ctor_of_ty (item_type (a_ty sp))))
                              (Some (item_type (a_ty sp))) None [] false) s1 = (prep_val sp v, prep_st sp s1).
  Proof.
    intros Hv Hfa. unfold prep_val, prep_st. unfold prep_ok in Hpok.
    destruct (a_prepare_item sp) as [f|] eqn:Ep.
    - assert (E : prepare_item ct rec sp inst v s1 = (pool_apply f v, ticked s1)).
      { unfold prepare_item. rewrite Ep. pose proof (pool_apply_run f v s1 Hfa Hpok Hv) as R.
        destruct (pool_apply f v) as [v'|e].
        - rewrite (bind_ok _ _ _ _ _ R). rewrite Hstrict. reflexivity.
        - now rewrite (bind_err _ _ _ _ _ R). }
      destruct (pool_apply f v) as [v'|e] eqn:Epv.
      + pose proof (pool_apply_scalar f v v' Hpok Hv Epv) as Hv'.
        destruct v; cbn [vscalar] in Hv; try discriminate;
          unfold mutate_value; cbn [mv_new]; unfold mutate_value_body;
          cbn [mv_new mv_old mv_replace mv_prepare is_missing negb andb orb];
          rewrite (bind_ok _ _ _ _ _ E);
          destruct v'; cbn [vscalar] in Hv'; try discriminate; reflexivity.
      + destruct v; cbn [vscalar] in Hv; try discriminate;
          unfold mutate_value; cbn [mv_new]; unfold mutate_value_body;
          cbn [mv_new mv_old mv_replace mv_prepare is_missing negb andb orb];
          rewrite (bind_err _ _ _ _ _ E); reflexivity.
    - apply mutate_value_new_scalar; auto.
  Qed.

  Lemma elem_pipeline_new_prep old v (replace : bool) :
    vscalar v = true ->
    elem_pipeline ct h0 sp old (abs0 v) replace None None [] =
    match prep_val sp v with
    | Ok v' => if conforms ct (item_type (a_ty sp)) (abs0 v') then SOk (abs0 v') else SErr ValueErr
    | Err e => SErr e end.
  Proof.
    intros Hv. unfold prep_val. unfold prep_ok in Hpok.
    destruct (a_prepare_item sp) as [f|] eqn:Ep.
    - pose proof (pool_apply_afn f v Hpok Hv) as Hafn.
      unfold elem_pipeline.
      assert (E : spec_value ct h0 (sexec ct h0 SFUEL) old (abs0 v) replace (SPItem sp) None
                             (Some (ctor_for (item_type (a_ty sp)))) (Some (item_type (a_ty sp))) None [] =
                  match pool_apply f v with Ok v' => SOk (abs0 v') | Err e => SErr e end).
      { destruct (pool_apply f v) as [v'|e] eqn:Epv.
        - pose proof (pool_apply_scalar f v v' Hpok Hv Epv) as Hv'.
          destruct v; cbn [vscalar] in Hv; try discriminate; cbn [abs0] in Hafn |- *;
            unfold spec_value; cbn [a_not_given negb run_prep]; unfold prepare_elem; rewrite Ep, Hafn; cbn [sbind];
            rewrite Hstrict; destruct v'; cbn [vscalar] in Hv'; try discriminate; reflexivity.
        - destruct v; cbn [vscalar] in Hv; try discriminate; cbn [abs0] in Hafn |- *;
            unfold spec_value; cbn [a_not_given negb run_prep]; unfold prepare_elem; rewrite Ep, Hafn; reflexivity. }
      rewrite E. destruct (pool_apply f v); reflexivity.
    - now apply elem_pipeline_new_scalar_gen.
  Qed.
End NewPrep.

(* ------------------------------------------------------------------ *)
(** * The pure outcome of with_<item> when the new element goes through the preparer *)

Definition with_fin (ct : ctable) (ity : ty) (pv : res val) (g : val -> obj) : obj + err :=
  match pv with
  | Ok v' => if conforms ct ity (abs0 v') then inl (g v') else inr ValueErr
  | Err e => inr e
  end.

Definition list_with_pure_p (ct : ctable) (ity : ty) (xs : list val) (idx : val) (pv : res val) (ins : bool) : obj + err :=
  match idx with
  | VInt i =>
      if ins then with_fin ct ity pv (fun v' => OList (insert_at (clamp_index (zlen xs) i) v' xs))
      else match norm_index (zlen xs) i with
           | Some n => with_fin ct ity pv (fun v' => OList (set_at n v' xs))
           | None => inr IndexErr end
  | _ => with_fin ct ity pv (fun v' => OList (xs ++ [v']))
  end.

Definition dict_with_pure_p (ct : ctable) (tk tv : ty) (kvs : list (val * val)) (key : val) (pv : res val) : obj + err :=
  match pv with Ok v' => dict_with_pure ct tk tv kvs key v' | Err e => inr e end.

Definition set_with_pure_p (ct : ctable) (ity : ty) (xs : list val) (pv : res val) : obj + err :=
  match pv with Ok v' => set_with_pure ct ity xs v' | Err e => inr e end.

Section PrepTails.
  Variable ct : ctable.
  Variable h0 : list obj.
  Variables (l : loc) (a : aid) (sp : attr_spec).
  Hypothesis Hpok : prep_ok sp.
  Hypothesis Hstrict : spec_of_ty_strict (item_type (a_ty sp)) = None.

  Lemma prep_run v s1 : vscalar v = true -> fail_at s1 = None ->
    forall old, exec ct XFUEL (KMutateValue (mkmv old v true (PItem sp l) None
                   (Some (ctor_of_ty (item_type (a_ty sp)))) (Some (item_type (a_ty sp))) None [] false)) s1
                = (prep_val sp v, prep_st sp s1).
  Proof.
    intros Hv Hfa old. rewrite XFUEL_S, exec_S. cbn [body]. now apply mutate_value_new_prep.
  Qed.

  (* ---------------- list ---------------- *)
  Lemma with_tail_list_p ity ip idx v ins s1 lc1 xs :
    a_ty sp = TList ity -> ty_depth ity < FUEL ->
    vscalar v = true -> (idx = VMissing \/ exists i, idx = VInt i) ->
    nth_error (heap s1) lc1 = Some (OList xs) -> fail_at s1 = None ->
    exists st, heap st = heap s1 /\
      with_tail ct l a sp (mkh [v] ip true idx ins None None [] None) (VRef lc1) s1 =
      match list_with_pure_p ct ity xs idx (prep_val sp v) ins with
      | inl o' => mutate_attr ct (exec ct XFUEL) l a (VRef lc1) ip false false false (upd st lc1 o')
      | inr e => (Err e, st) end.
  Proof.
    intros Hty Hdepth Hv Hidx Hlc1 Hfa.
    pose proof (prep_run v s1 Hv Hfa) as Hrun.
    set (st := prep_st sp s1) in *.
    assert (Hst : heap st = heap s1) by (apply prep_st_heap).
    assert (Hlc' : nth_error (heap st) lc1 = Some (OList xs)) by (now rewrite Hst).
    assert (Hpv : forall v', prep_val sp v = Ok v' -> nonref v' = true).
    { intros v' E. apply vscalar_nonref. exact (prep_val_scalar sp v v' Hpok Hv E). }
    (* what happens once the target has been located *)
    assert (Hfin : forall (ex : val * val) (g : val -> obj),
              (forall v', nonref v' = true -> conforms ct ity (abs0 v') = true ->
                          seq_inserter ct sp (VRef lc1) (fst ex) v' ins st = (Ok tt, upd st lc1 (g v'))) ->
              bind (new_item <- exec ct XFUEL (KMutateValue (mkmv (snd ex) v true (PItem sp l) None
                               (Some (ctor_of_ty (item_type (a_ty sp)))) (Some (item_type (a_ty sp))) None [] false)) ;;
                    seq_inserter ct sp (VRef lc1) (fst ex) new_item ins ;;; ret (VRef lc1))
                   (fun c' => mutate_attr ct (exec ct XFUEL) l a c' ip false false false) s1 =
              match with_fin ct ity (prep_val sp v) g with
              | inl o' => mutate_attr ct (exec ct XFUEL) l a (VRef lc1) ip false false false (upd st lc1 o')
              | inr e => (Err e, st) end).
    { intros ex g Hins. rewrite !bind_assoc. unfold with_fin.
      destruct (prep_val sp v) as [v'|e] eqn:Epv; [|now rewrite (bind_err _ _ _ _ _ (Hrun (snd ex)))].
      rewrite (bind_ok _ _ _ _ _ (Hrun (snd ex))). rewrite !bind_assoc.
      pose proof (seq_inserter_run ct sp ity Hty Hdepth lc1 xs (fst ex) v' ins st Hlc' (Hpv v' eq_refl)) as Hsi.
      destruct (conforms ct ity (abs0 v')) eqn:Ec.
      - rewrite (bind_ok _ _ _ _ _ (Hins v' (Hpv v' eq_refl) Ec)). now rewrite !bind_ret.
      - now rewrite (bind_err _ _ _ _ _ Hsi). }
    unfold with_tail. rewrite Hty. cbn [family_of h_index pos0 h_pos nth h_kw h_insert h_inplace].
    unfold mutate_collection.
    cbn [is_missing io_voi io_require io_by_index io_new io_replace io_attrs io_transform io_attr_transforms io_insert].
    rewrite bind_ret. unfold list_with_pure_p.
    destruct Hidx as [->|[i ->]].
    - (* append *)
      exists st. split; auto. cbn [is_missing negb andb].
      assert (Eex : seq_extractor ct sp (VRef lc1) VMissing false TriTrue s1 = (Ok (VNone, VMissing), s1)) by reflexivity.
      rewrite !bind_assoc. rewrite (bind_ok _ _ _ _ _ Eex).
      apply (Hfin (VNone, VMissing) (fun v' => OList (xs ++ [v']))).
      intros v' Hn Hc. cbn [fst].
      rewrite (seq_inserter_run ct sp ity Hty Hdepth lc1 xs VNone v' ins st Hlc' Hn). now rewrite Hc.
    - cbn [is_missing negb andb].
      pose proof (seq_extractor_index ct sp ity Hdepth lc1 xs i (negb ins) s1 Hlc1) as Eex.
      destruct ins; cbn [negb] in Eex |- *.
      + (* insert *)
        exists st. split; auto.
        assert (Hex : exists old, seq_extractor ct sp (VRef lc1) (VInt i) false TriTrue s1 = (Ok (VInt i, old), s1)).
        { rewrite Eex. destruct (norm_index (zlen xs) i); eexists; reflexivity. }
        destruct Hex as [old Hex]. rewrite !bind_assoc. rewrite (bind_ok _ _ _ _ _ Hex).
        apply (Hfin (VInt i, old) (fun v' => OList (insert_at (clamp_index (zlen xs) i) v' xs))).
        intros v' Hn Hc. cbn [fst].
        rewrite (seq_inserter_run ct sp ity Hty Hdepth lc1 xs (VInt i) v' true st Hlc' Hn). now rewrite Hc.
      + (* replace *)
        destruct (norm_index (zlen xs) i) as [n|] eqn:En.
        * exists st. split; auto. rewrite !bind_assoc. rewrite (bind_ok _ _ _ _ _ Eex).
          apply (Hfin (VInt i, nth n xs VMissing) (fun v' => OList (set_at n v' xs))).
          intros v' Hn Hc. cbn [fst].
          rewrite (seq_inserter_run ct sp ity Hty Hdepth lc1 xs (VInt i) v' false st Hlc' Hn). now rewrite Hc, En.
        * exists s1. split; auto. rewrite !bind_assoc. now rewrite (bind_err _ _ _ _ _ Eex).
  Qed.

  Lemma list_with_pure_p_scalar ity xs idx pv ins o' :
    forallb nonref xs = true -> (forall v', pv = Ok v' -> nonref v' = true) ->
    list_with_pure_p ct ity xs idx pv ins = inl o' -> scalar_obj o' = true.
  Proof.
    intros Hxs Hpv. unfold list_with_pure_p, with_fin. intro E.
    assert (H1 : forall v', nonref v' = true -> forallb nonref (xs ++ [v']) = true)
      by (intros v' Hn; apply forallb_app_true; auto; cbn [forallb]; now rewrite Hn).
    assert (H2 : forall n v', nonref v' = true -> forallb nonref (insert_at n v' xs) = true).
    { intros n v' Hn. unfold insert_at. apply forallb_app_true; [now apply forallb_firstn|]. cbn [forallb]. rewrite Hn.
      cbn [andb]. now apply forallb_skipn. }
    assert (H3 : forall n v', nonref v' = true -> forallb nonref (set_at n v' xs) = true)
      by (intros n v' Hn; now apply forallb_set_at).
    destruct pv as [v'|e].
    - specialize (Hpv v' eq_refl).
      destruct idx; try (destruct (conforms ct ity (abs0 v')); inversion E; subst; now apply H1).
      destruct ins.
      + destruct (conforms ct ity (abs0 v')); inversion E; subst; now apply H2.
      + destruct (norm_index (zlen xs) z); [|discriminate].
        destruct (conforms ct ity (abs0 v')); inversion E; subst; now apply H3.
    - destruct idx; try discriminate. destruct ins; [discriminate|]. destruct (norm_index (zlen xs) z); discriminate.
  Qed.

  Lemma list_with_pure_p_spec ity xs ip idx v ins :
    a_ty sp = TList ity -> vscalar v = true -> (idx = VMissing \/ exists i, idx = VInt i) ->
    spec_with_item ct h0 sp (aobj (OList xs)) (mkah [abs0 v] ip true (abs0 idx) ins None None [] None) =
    match list_with_pure_p ct ity xs idx (prep_val sp v) ins with inl o' => SOk (aobj o') | inr e => SErr e end.
  Proof.
    intros Hty Hv Hidx.
    assert (Hitem : item_type (a_ty sp) = ity) by (now rewrite Hty).
    assert (Hpipe : forall old, elem_pipeline ct h0 sp old (abs0 v) true None None [] =
                                match prep_val sp v with
                                | Ok v' => if conforms ct ity (abs0 v') then SOk (abs0 v') else SErr ValueErr
                                | Err e => SErr e end).
    { intro old. rewrite (elem_pipeline_new_prep ct h0 sp Hpok Hstrict old v true Hv). now rewrite Hitem. }
    cbn [aobj]. unfold spec_with_item, list_with_pure_p, with_fin. rewrite Hty.
    cbn [ah_index ah_insert ah_kw apos0 ah_pos nth].
    destruct Hidx as [->|[i ->]]; cbn [abs0 a_is_missing].
    - rewrite Hpipe. destruct (prep_val sp v) as [v'|e]; [|reflexivity].
      destruct (conforms ct ity (abs0 v')); cbn [sbind apply_elem spec_elem_op aobj]; [now rewrite map_app|reflexivity].
    - destruct ins.
      + cbn [int_of]. rewrite Hpipe. destruct (prep_val sp v) as [v'|e]; [|reflexivity].
        destruct (conforms ct ity (abs0 v')); cbn [sbind apply_elem spec_elem_op aobj]; [|reflexivity].
        now rewrite map_insert_at, zlen_map.
      + unfold seq_index. cbn [int_of]. rewrite zlen_map.
        destruct (norm_index (zlen xs) i) as [n|]; cbn [sbind]; [|reflexivity].
        rewrite Hpipe. destruct (prep_val sp v) as [v'|e]; [|reflexivity].
        destruct (conforms ct ity (abs0 v')); cbn [sbind apply_elem spec_elem_op aobj]; [|reflexivity].
        now rewrite map_set_at.
  Qed.
End PrepTails.

Section PrepTails2.
  Variable ct : ctable.
  Variable h0 : list obj.
  Variables (l : loc) (a : aid) (sp : attr_spec).
  Hypothesis Hpok : prep_ok sp.
  Hypothesis Hstrict : spec_of_ty_strict (item_type (a_ty sp)) = None.

  (* ---------------- dict ---------------- *)
  Lemma with_tail_dict_p tk tv ip key v s1 lc1 kvs :
    a_ty sp = TDict tk tv -> ty_depth tk < FUEL -> ty_depth tv < FUEL -> forallb pair_nonref kvs = true ->
    nonref key = true -> vscalar v = true ->
    nth_error (heap s1) lc1 = Some (ODict kvs) -> fail_at s1 = None ->
    exists st, heap st = heap s1 /\
      with_tail ct l a sp (mkh [key; v] ip true VMissing false None None [] None) (VRef lc1) s1 =
      match dict_with_pure_p ct tk tv kvs key (prep_val sp v) with
      | inl o' => mutate_attr ct (exec ct XFUEL) l a (VRef lc1) ip false false false (upd st lc1 o')
      | inr e => (Err e, st) end.
  Proof.
    intros Hty Hdk Hdv Hkvs Hk Hv Hlc1 Hfa.
    pose proof (prep_run ct l sp Hpok Hstrict v s1 Hv Hfa) as Hrun.
    exists (prep_st sp s1). split; [apply prep_st_heap|].
    set (st := prep_st sp s1) in *.
    assert (Hst : heap st = heap s1) by (apply prep_st_heap).
    assert (Hlc' : nth_error (heap st) lc1 = Some (ODict kvs)) by (now rewrite Hst).
    unfold with_tail. rewrite Hty. cbn [family_of h_pos h_kw h_inplace].
    unfold mutate_collection.
    cbn [is_missing io_voi io_require io_by_index io_new io_replace io_attrs io_transform io_attr_transforms io_insert].
    rewrite bind_ret.
    assert (Hex : exists old, map_extractor ct (VRef lc1) key false s1 = (Ok (key, old), s1)).
    { rewrite (map_extractor_run ct lc1 kvs key false s1 Hlc1 Hk).
      destruct (find (fun p => val_eqb FUEL ct (heap s1) (fst p) key) kvs) as [p|]; eexists; reflexivity. }
    destruct Hex as [old Hex]. rewrite !bind_assoc. rewrite (bind_ok _ _ _ _ _ Hex). cbn [fst snd].
    rewrite !bind_assoc. unfold dict_with_pure_p.
    destruct (prep_val sp v) as [v'|e] eqn:Epv; [|now rewrite (bind_err _ _ _ _ _ (Hrun old))].
    rewrite (bind_ok _ _ _ _ _ (Hrun old)). rewrite !bind_assoc.
    assert (Hnv' : nonref v' = true) by (apply vscalar_nonref; exact (prep_val_scalar sp v v' Hpok Hv Epv)).
    pose proof (map_inserter_run ct sp tk tv lc1 kvs key v' st Hty Hdk Hdv Hlc' Hk Hnv') as Hins.
    rewrite (dassign_heap_indep ct (heap st) kvs key v' Hkvs Hk) in Hins.
    unfold dict_with_pure.
    destruct (conforms ct tk (abs0 key) && conforms ct tv (abs0 v')).
    - rewrite (bind_ok _ _ _ _ _ Hins). now rewrite !bind_ret.
    - now rewrite (bind_err _ _ _ _ _ Hins).
  Qed.

  Lemma dict_with_pure_p_scalar tk tv kvs key pv o' :
    forallb pair_nonref kvs = true -> nonref key = true -> (forall v', pv = Ok v' -> nonref v' = true) ->
    dict_with_pure_p ct tk tv kvs key pv = inl o' -> scalar_obj o' = true.
  Proof.
    intros Hkvs Hk Hpv. unfold dict_with_pure_p. destruct pv as [v'|e]; [|discriminate].
    apply dict_with_pure_scalar; auto.
  Qed.

  Lemma dict_with_pure_p_spec tk tv kvs ip key v :
    a_ty sp = TDict tk tv -> forallb pair_nonref kvs = true -> nonref key = true -> vscalar v = true ->
    spec_with_item ct h0 sp (aobj (ODict kvs)) (mkah [abs0 key; abs0 v] ip true AMissing false None None [] None) =
    match dict_with_pure_p ct tk tv kvs key (prep_val sp v) with inl o' => SOk (aobj o') | inr e => SErr e end.
  Proof.
    intros Hty Hkvs Hk Hv.
    assert (Hitem : item_type (a_ty sp) = tv) by (now rewrite Hty).
    cbn [aobj]. unfold spec_with_item, dict_with_pure_p, dict_with_pure. rewrite Hty. cbn [ah_pos apos1 nth ah_kw].
    rewrite (a_hashable_abs0 key Hk). cbn [negb].
    rewrite (elem_pipeline_new_prep ct h0 sp Hpok Hstrict _ v true Hv). rewrite Hitem.
    destruct (prep_val sp v) as [v'|e]; [|reflexivity].
    destruct (conforms ct tv (abs0 v')); cbn [sbind]; [|now rewrite andb_false_r].
    rewrite andb_true_r. destruct (conforms ct tk (abs0 key)); [|reflexivity].
    cbn [apply_elem spec_elem_op aobj]. now rewrite dassign_abs.
  Qed.

  (* ---------------- set ---------------- *)
  Lemma with_tail_set_p ity ip v s1 lc1 xs :
    a_ty sp = TSet ity -> ty_depth ity < FUEL -> forallb nonref xs = true -> vscalar v = true ->
    nth_error (heap s1) lc1 = Some (OSet xs) -> fail_at s1 = None ->
    exists st, heap st = heap s1 /\
      with_tail ct l a sp (mkh [v] ip true VMissing false None None [] None) (VRef lc1) s1 =
      match set_with_pure_p ct ity xs (prep_val sp v) with
      | inl o' => mutate_attr ct (exec ct XFUEL) l a (VRef lc1) ip false false false (upd st lc1 o')
      | inr e => (Err e, st) end.
  Proof.
    intros Hty Hdepth Hxs Hv Hlc1 Hfa.
    assert (Hitem : item_type (a_ty sp) = ity) by (now rewrite Hty).
    pose proof (prep_run ct l sp Hpok Hstrict v s1 Hv Hfa) as Hrun.
    exists (prep_st sp s1). split; [apply prep_st_heap|].
    set (st := prep_st sp s1) in *.
    assert (Hst : heap st = heap s1) by (apply prep_st_heap).
    assert (Hlc' : nth_error (heap st) lc1 = Some (OSet xs)) by (now rewrite Hst).
    unfold with_tail. rewrite Hty. cbn [family_of pos0 h_pos nth h_kw h_inplace].
    unfold mutate_collection.
    cbn [is_missing io_voi io_require io_by_index io_new io_replace io_attrs io_transform io_attr_transforms io_insert].
    rewrite bind_ret.
    assert (Hex : exists old, set_extractor ct (VRef lc1) VMissing false s1 = (Ok (VMissing, old), s1)).
    { rewrite (set_extractor_run ct lc1 xs VMissing false s1 Hlc1 eq_refl).
      destruct (existsb (fun x => val_eqb FUEL ct (heap s1) x VMissing) xs); eexists; reflexivity. }
    destruct Hex as [old Hex]. rewrite !bind_assoc. rewrite (bind_ok _ _ _ _ _ Hex). cbn [fst snd].
    rewrite !bind_assoc. unfold set_with_pure_p.
    destruct (prep_val sp v) as [v'|e] eqn:Epv; [|now rewrite (bind_err _ _ _ _ _ (Hrun old))].
    rewrite (bind_ok _ _ _ _ _ (Hrun old)). rewrite !bind_assoc.
    assert (Hnv' : nonref v' = true) by (apply vscalar_nonref; exact (prep_val_scalar sp v v' Hpok Hv Epv)).
    set (mem := existsb (fun x => val_eqb FUEL ct [] x v') xs).
    assert (Hins : set_inserter ct sp (VRef lc1) VMissing v' st =
                   if conforms ct ity (abs0 v')
                   then (Ok tt, upd st lc1 (OSet (if mem then xs else xs ++ [v'])))
                   else (Err ValueErr, st)).
    { unfold set_inserter.
      rewrite (bind_ok (check_typeM ct v' (item_type (a_ty sp))) _ st
                       (check_type FUEL ct (heap st) v' (item_type (a_ty sp))) st eq_refl).
      rewrite Hitem, check_type_nonref by auto.
      destruct (conforms ct ity (abs0 v')); [|reflexivity]. cbn [negb].
      rewrite (bind_ok _ _ _ _ _ (read_set_at lc1 xs st Hlc')). cbn [fst snd is_missing negb]. rewrite bind_ret.
      rewrite (bind_ok _ _ _ _ _ (set_mem_run ct xs v' st Hnv')). rewrite (mem_heap_indep ct (heap st) xs v' Hxs Hnv').
      fold mem. apply write_run. apply nth_error_Some. congruence. }
    unfold set_with_pure. fold mem.
    destruct (conforms ct ity (abs0 v')).
    - rewrite (bind_ok _ _ _ _ _ Hins). now rewrite !bind_ret.
    - now rewrite (bind_err _ _ _ _ _ Hins).
  Qed.

  Lemma set_with_pure_p_scalar ity xs pv o' :
    forallb nonref xs = true -> (forall v', pv = Ok v' -> nonref v' = true) ->
    set_with_pure_p ct ity xs pv = inl o' -> scalar_obj o' = true.
  Proof.
    intros Hxs Hpv. unfold set_with_pure_p. destruct pv as [v'|e]; [|discriminate].
    apply set_with_pure_scalar; auto.
  Qed.

  Lemma set_with_pure_p_spec ity xs ip v :
    a_ty sp = TSet ity -> forallb nonref xs = true -> vscalar v = true ->
    (forall v', prep_val sp v = Ok v' -> set_key_free ct xs v' = true) ->
    spec_with_item ct h0 sp (aobj (OSet xs)) (mkah [abs0 v] ip true AMissing false None None [] None) =
    match set_with_pure_p ct ity xs (prep_val sp v) with inl o' => SOk (aobj o') | inr e => SErr e end.
  Proof.
    intros Hty Hxs Hv Hkf.
    assert (Hitem : item_type (a_ty sp) = ity) by (now rewrite Hty).
    cbn [aobj]. unfold spec_with_item, set_with_pure_p, set_with_pure. rewrite Hty. cbn [ah_pos apos0 nth ah_kw].
    rewrite (elem_pipeline_new_prep ct h0 sp Hpok Hstrict _ v true Hv). rewrite Hitem.
    destruct (prep_val sp v) as [v'|e] eqn:Epv; [|reflexivity].
    assert (Hnv' : nonref v' = true) by (apply vscalar_nonref; exact (prep_val_scalar sp v v' Hpok Hv Epv)).
    set (mem := existsb (fun x => val_eqb FUEL ct [] x v') xs).
    assert (Hmem : set_has ct (cset xs) (abs0 v') = mem) by (symmetry; apply mem_abs; auto).
    destruct (conforms ct ity (abs0 v')); cbn [sbind]; [|reflexivity].
    rewrite (a_hashable_abs0 v' Hnv'). cbn [apply_elem spec_elem_op aobj]. unfold set_add. rewrite Hmem.
    destruct mem eqn:Em; [reflexivity|].
    rewrite (cset_snoc ct xs v' Hxs Hnv' (Hkf v' eq_refl)); [reflexivity|]. now rewrite Hmem.
  Qed.
End PrepTails2.

(* ------------------------------------------------------------------ *)
(** * with_<item> through an item preparer: in place and copy-on-write *)

Section PrepThms.
  Variable ct : ctable.
  Variable h0 : list obj.
  Variables (l : loc) (a : aid) (c : cid) (d : list (aid * val)) (k : cls) (sp : attr_spec).
  Variable s : state.
  Variable lc : loc.
  Hypothesis Hl : nth_error (heap s) l = Some (OInst c d).
  Hypothesis Hc : lookup_cls ct c = Some k.
  Hypothesis Ha : lookup_attr k a = Some sp.
  Hypothesis Hd : NoDup (map fst d).
  Hypothesis Hni : no_dep k a.
  Hypothesis Hfld : assoc a d = Some (VRef lc).
  Hypothesis Hflat : flat_fields (heap s) d.
  Hypothesis Hpok : prep_ok sp.
  Hypothesis Hfa : fail_at s = None.

  Lemma run_with_ip h : h_if h = true -> h_inplace h = true ->
    run_helper ct l (HWithItem a) h s = bind (mk_mutator ct sp l true) (with_tail ct l a sp h) s.
  Proof.
    intros Hif Hin. rewrite (run_with_tail ct l a h s Hif).
    rewrite (bind_ok _ _ _ _ _ (fr_spec_for ct l a c d k sp s Hl Hc Ha)). cbn [snd]. now rewrite Hin.
  Qed.
  Lemma run_with_cp h : h_if h = true -> h_inplace h = false ->
    run_helper ct l (HWithItem a) h s = bind (mk_mutator ct sp l false) (with_tail ct l a sp h) s.
  Proof.
    intros Hif Hin. rewrite (run_with_tail ct l a h s Hif).
    rewrite (bind_ok _ _ _ _ _ (fr_spec_for ct l a c d k sp s Hl Hc Ha)). cbn [snd]. now rewrite Hin.
  Qed.

  Lemma prep_nonref v : vscalar v = true -> forall v', prep_val sp v = Ok v' -> nonref v' = true.
  Proof. intros Hv v' E. apply vscalar_nonref. exact (prep_val_scalar sp v v' Hpok Hv E). Qed.

  (* ======================= lists ======================= *)
  Section ListP.
    Variables (xs : list val) (ity : ty).
    Hypothesis Hty : a_ty sp = TList ity.
    Hypothesis Hstrict : spec_of_ty_strict ity = None.
    Hypothesis Hdepth : ty_depth ity < FUEL.
    Hypothesis Hlc : nth_error (heap s) lc = Some (OList xs).
    Hypothesis Hxs : forallb nonref xs = true.

    Lemma lp_coll : ty_is_collection (a_ty sp) = true.
    Proof. now rewrite Hty. Qed.
    Lemma lp_strict : spec_of_ty_strict (item_type (a_ty sp)) = None.
    Proof. now rewrite Hty. Qed.

    Theorem with_item_list_prep_inplace_refines idx v ins :
      c_frozen k = false -> (forall b w, In (b, w) d -> b <> a -> w <> VRef lc) ->
      vscalar v = true -> (idx = VMissing \/ exists i, idx = VInt i) ->
      inplace_refines_spec ct h0 s l (HWithItem a) (mkh [v] true true idx ins None None [] None)
                           (SWithItem a) (mkah [abs0 v] true true (abs0 idx) ins None None [] None).
    Proof.
      intros Hfz Hshare Hv Hidx. unfold inplace_refines_spec.
      apply (ip_whole ct h0 l a c d k sp s lc (OList xs) Hl Hc Ha Hd Hfz Hni lp_coll Hfld Hlc Hxs Hflat Hshare
               (with_tail ct l a sp (mkh [v] true true idx ins None None [] None))
               (list_with_pure_p ct ity xs idx (prep_val sp v) ins))
        with (edit := spec_with_item ct h0); try reflexivity.
      - intros s1 lc1 H1 Hf1. apply (with_tail_list_p ct l a sp Hpok lp_strict ity); auto. congruence.
      - intros o'. apply (list_with_pure_p_scalar ct ity xs idx (prep_val sp v) ins o' Hxs (prep_nonref v Hv)).
      - exact (list_with_pure_p_spec ct h0 sp Hpok lp_strict ity xs true idx v ins Hty Hv Hidx).
      - now apply run_with_ip.
    Qed.

    Theorem with_item_list_prep_copy_refines idx v ins :
      c_dnc k = false -> c_post_copy k = None -> assoc A_INITIALIZING d = None -> a <> A_INITIALIZING ->
      vscalar v = true -> (idx = VMissing \/ exists i, idx = VInt i) ->
      copy_refines_spec ct h0 s l (HWithItem a) (mkh [v] false true idx ins None None [] None)
                        (SWithItem a) (mkah [abs0 v] false true (abs0 idx) ins None None [] None).
    Proof.
      intros Hdnc Hpc Hinit Ha0 Hv Hidx. unfold copy_refines_spec.
      apply (fc_whole_gen ct h0 l a c d k sp s lc (OList xs) Hl Hc Ha Hd Hdnc Hpc Hni lp_coll Hfld Hlc Hxs Hflat Hinit Ha0
               (with_tail ct l a sp (mkh [v] false true idx ins None None [] None))
               (list_with_pure_p ct ity xs idx (prep_val sp v) ins))
        with (edit := spec_with_item ct h0); try reflexivity.
      - intros s1 lc1 H1 Hf1. apply (with_tail_list_p ct l a sp Hpok lp_strict ity); auto. congruence.
      - intros o'. apply (list_with_pure_p_scalar ct ity xs idx (prep_val sp v) ins o' Hxs (prep_nonref v Hv)).
      - exact (list_with_pure_p_spec ct h0 sp Hpok lp_strict ity xs false idx v ins Hty Hv Hidx).
      - now apply run_with_cp.
    Qed.
  End ListP.

  (* ======================= dicts ======================= *)
  Section DictP.
    Variables (kvs : list (val * val)) (tk tv : ty).
    Hypothesis Hty : a_ty sp = TDict tk tv.
    Hypothesis Hstrict : spec_of_ty_strict tv = None.
    Hypothesis Hdk : ty_depth tk < FUEL.
    Hypothesis Hdv : ty_depth tv < FUEL.
    Hypothesis Hlc : nth_error (heap s) lc = Some (ODict kvs).
    Hypothesis Hkvs : forallb pair_nonref kvs = true.

    Lemma dp_coll : ty_is_collection (a_ty sp) = true.
    Proof. now rewrite Hty. Qed.
    Lemma dp_strict : spec_of_ty_strict (item_type (a_ty sp)) = None.
    Proof. now rewrite Hty. Qed.

    Theorem with_item_dict_prep_inplace_refines key v :
      c_frozen k = false -> (forall b w, In (b, w) d -> b <> a -> w <> VRef lc) ->
      nonref key = true -> vscalar v = true ->
      inplace_refines_spec ct h0 s l (HWithItem a) (mkh [key; v] true true VMissing false None None [] None)
                           (SWithItem a) (mkah [abs0 key; abs0 v] true true AMissing false None None [] None).
    Proof.
      intros Hfz Hshare Hk Hv. unfold inplace_refines_spec.
      apply (ip_whole ct h0 l a c d k sp s lc (ODict kvs) Hl Hc Ha Hd Hfz Hni dp_coll Hfld Hlc Hkvs Hflat Hshare
               (with_tail ct l a sp (mkh [key; v] true true VMissing false None None [] None))
               (dict_with_pure_p ct tk tv kvs key (prep_val sp v)))
        with (edit := spec_with_item ct h0); try reflexivity.
      - intros s1 lc1 H1 Hf1. apply (with_tail_dict_p ct l a sp Hpok dp_strict tk tv); auto. congruence.
      - intros o'. apply (dict_with_pure_p_scalar ct tk tv kvs key (prep_val sp v) o' Hkvs Hk (prep_nonref v Hv)).
      - exact (dict_with_pure_p_spec ct h0 sp Hpok dp_strict tk tv kvs true key v Hty Hkvs Hk Hv).
      - now apply run_with_ip.
    Qed.

    Theorem with_item_dict_prep_copy_refines key v :
      c_dnc k = false -> c_post_copy k = None -> assoc A_INITIALIZING d = None -> a <> A_INITIALIZING ->
      nonref key = true -> vscalar v = true ->
      copy_refines_spec ct h0 s l (HWithItem a) (mkh [key; v] false true VMissing false None None [] None)
                        (SWithItem a) (mkah [abs0 key; abs0 v] false true AMissing false None None [] None).
    Proof.
      intros Hdnc Hpc Hinit Ha0 Hk Hv. unfold copy_refines_spec.
      apply (fc_whole_gen ct h0 l a c d k sp s lc (ODict kvs) Hl Hc Ha Hd Hdnc Hpc Hni dp_coll Hfld Hlc Hkvs Hflat Hinit Ha0
               (with_tail ct l a sp (mkh [key; v] false true VMissing false None None [] None))
               (dict_with_pure_p ct tk tv kvs key (prep_val sp v)))
        with (edit := spec_with_item ct h0); try reflexivity.
      - intros s1 lc1 H1 Hf1. apply (with_tail_dict_p ct l a sp Hpok dp_strict tk tv); auto. congruence.
      - intros o'. apply (dict_with_pure_p_scalar ct tk tv kvs key (prep_val sp v) o' Hkvs Hk (prep_nonref v Hv)).
      - exact (dict_with_pure_p_spec ct h0 sp Hpok dp_strict tk tv kvs false key v Hty Hkvs Hk Hv).
      - now apply run_with_cp.
    Qed.
  End DictP.

  (* ======================= sets ======================= *)
  Section SetP.
    Variables (xs : list val) (ity : ty).
    Hypothesis Hty : a_ty sp = TSet ity.
    Hypothesis Hstrict : spec_of_ty_strict ity = None.
    Hypothesis Hdepth : ty_depth ity < FUEL.
    Hypothesis Hlc : nth_error (heap s) lc = Some (OSet xs).
    Hypothesis Hxs : forallb nonref xs = true.

    Lemma sp_coll : ty_is_collection (a_ty sp) = true.
    Proof. now rewrite Hty. Qed.
    Lemma sp_strict : spec_of_ty_strict (item_type (a_ty sp)) = None.
    Proof. now rewrite Hty. Qed.

    Theorem with_item_set_prep_inplace_refines v :
      c_frozen k = false -> (forall b w, In (b, w) d -> b <> a -> w <> VRef lc) ->
      vscalar v = true -> (forall v', prep_val sp v = Ok v' -> set_key_free ct xs v' = true) ->
      inplace_refines_spec ct h0 s l (HWithItem a) (mkh [v] true true VMissing false None None [] None)
                           (SWithItem a) (mkah [abs0 v] true true AMissing false None None [] None).
    Proof.
      intros Hfz Hshare Hv Hkf. unfold inplace_refines_spec.
      apply (ip_whole ct h0 l a c d k sp s lc (OSet xs) Hl Hc Ha Hd Hfz Hni sp_coll Hfld Hlc Hxs Hflat Hshare
               (with_tail ct l a sp (mkh [v] true true VMissing false None None [] None))
               (set_with_pure_p ct ity xs (prep_val sp v)))
        with (edit := spec_with_item ct h0); try reflexivity.
      - intros s1 lc1 H1 Hf1. apply (with_tail_set_p ct l a sp Hpok sp_strict ity); auto. congruence.
      - intros o'. apply (set_with_pure_p_scalar ct ity xs (prep_val sp v) o' Hxs (prep_nonref v Hv)).
      - exact (set_with_pure_p_spec ct h0 sp Hpok sp_strict ity xs true v Hty Hxs Hv Hkf).
      - now apply run_with_ip.
    Qed.

    Theorem with_item_set_prep_copy_refines v :
      c_dnc k = false -> c_post_copy k = None -> assoc A_INITIALIZING d = None -> a <> A_INITIALIZING ->
      vscalar v = true -> (forall v', prep_val sp v = Ok v' -> set_key_free ct xs v' = true) ->
      copy_refines_spec ct h0 s l (HWithItem a) (mkh [v] false true VMissing false None None [] None)
                        (SWithItem a) (mkah [abs0 v] false true AMissing false None None [] None).
    Proof.
      intros Hdnc Hpc Hinit Ha0 Hv Hkf. unfold copy_refines_spec.
      apply (fc_whole_gen ct h0 l a c d k sp s lc (OSet xs) Hl Hc Ha Hd Hdnc Hpc Hni sp_coll Hfld Hlc Hxs Hflat Hinit Ha0
               (with_tail ct l a sp (mkh [v] false true VMissing false None None [] None))
               (set_with_pure_p ct ity xs (prep_val sp v)))
        with (edit := spec_with_item ct h0); try reflexivity.
      - intros s1 lc1 H1 Hf1. apply (with_tail_set_p ct l a sp Hpok sp_strict ity); auto. congruence.
      - intros o'. apply (set_with_pure_p_scalar ct ity xs (prep_val sp v) o' Hxs (prep_nonref v Hv)).
      - exact (set_with_pure_p_spec ct h0 sp Hpok sp_strict ity xs false v Hty Hxs Hv Hkf).
      - now apply run_with_cp.
    Qed.
  End SetP.
End PrepThms.
