(* C05 refinement with invalidation, continued (RefineMore3.v): the in-place
   store of a proper scalar into an attribute with direct dependants
   (`inval_flat`) as a reusable building block -- outcome, specification and
   the guard re-established afterwards -- and from it transform_<a>, reset_<a>
   in place and update(_inplace=True, a=v, ...) as a whole for classes WITH
   invalidated_by. *)
From Coq Require Import List ZArith Bool Arith Lia.
From SC Require Import Base.Res Base.PyList Inst.Heap Inst.ClassTable Inst.Model Inst.Canon
  Inst.Abs Inst.SpecHelpers Inst.ElemProofs Inst.Framed Inst.RefineProofs Inst.CopyProofs Inst.RefineMore
  Inst.RefineMore3 Inst.RefineMore4.
Import ListNotations.
Open Scope nat_scope.

#[local] Opaque FUEL.

(* the receiver is a well-formed instance cell again *)
Definition recv_ok (c : cid) (l : loc) (s : state) : Prop :=
  (exists d, nth_error (heap s) l = Some (OInst c d) /\ NoDup (map fst d)) /\
  aok (absv (heap s) (VRef l)) = true /\ fail_at s = None.

Section LoopGuard.
  Variable ct : ctable.
  Variables (l : loc) (c : cid) (k : cls).
  Hypothesis Hc : lookup_cls ct c = Some k.
  Hypothesis Hfz : c_frozen k = false.

  Lemma inval_loop_guard f0 : forall L s,
    recv_ok c l s ->
    (forall sp, In sp L -> lookup_attr k (a_name sp) = Some sp /\ dep_ok k sp = true) ->
    forall u s', iterM (reset_step ct (exec ct (S (S f0))) l) L s = (Ok u, s') -> recv_ok c l s'.
  Proof.
    induction L as [|sp L IH]; intros s Hg HL u s' H.
    - cbn [iterM] in H. inversion H; subst. exact Hg.
    - cbn [iterM] in H. destruct Hg as [[d [Hl Hd]] [Hok Hfa]].
      destruct (HL sp (or_introl eq_refl)) as [Hb Hdep].
      pose proof (reset_step_refines ct [] (fun _ => SAny) l c k Hc Hfz f0 sp d s Hl Hd Hok Hfa Hb Hdep) as Hs.
      destruct (reset_step ct (exec ct (S (S f0))) l sp s) as [[u1|e] s1] eqn:E.
      + rewrite (bind_ok _ _ _ _ _ E) in H. destruct Hs as [Hd1 [Hok1 [Hfa1 _]]].
        exact (IH s1 (conj Hd1 (conj Hok1 Hfa1)) (fun sp0 H0 => HL sp0 (or_intror H0)) u s' H).
      + rewrite (bind_err _ _ _ _ _ E) in H. discriminate H.
  Qed.
End LoopGuard.

(* ------------------------------------------------------------------ *)
(** * The building block *)

Section AssignInval.
  Variable ct : ctable.
  Variable h0 : list obj.
  Variables (l : loc) (a : aid) (c : cid) (d : list (aid * val)) (k : cls) (sp : attr_spec).
  Variable s : state.
  Hypothesis Hl : nth_error (heap s) l = Some (OInst c d).
  Hypothesis Hc : lookup_cls ct c = Some k.
  Hypothesis Ha : lookup_attr k a = Some sp.
  Hypothesis Hd : NoDup (map fst d).
  Hypothesis Hok : aok (absv (heap s) (VRef l)) = true.
  Hypothesis Hfz : c_frozen k = false.
  Hypothesis Hflat : inval_flat k a.
  Hypothesis Hty : ty_depth (a_ty sp) < FUEL.
  Hypothesis Hnc : ty_is_collection (a_ty sp) = false.
  Hypothesis Hp : match a_prepare sp with Some f => scalar_fn f = true | None => True end.

  Let flds := map (fun p => (fst p, abs 23 (heap s) (snd p))) (sorted_fields d).
  Let L := filter (dep_of a) (c_attrs k).

  Lemma L_cov : forall sp', In sp' L -> lookup_attr k (a_name sp') = Some sp' /\ dep_ok k sp' = true.
  Proof.
    intros sp' Hin. apply filter_In in Hin. destruct Hin as [Hin Hdep].
    destruct Hflat as [Hnd [_ [_ Hcov]]]. split; [|now apply Hcov].
    unfold lookup_attr. now apply find_nodup_name.
  Qed.

  (* the documented outcome: prepared value stored, every direct dependant reset *)
  Definition spec_store_inval (n : nat) (v : val) : sres aval :=
    pv <~ pv_of sp v ;;
    if conforms ct (a_ty sp) pv
    then sfold (fun y b => sexec ct h0 (S n) (SResetAttr y b false)) (map a_name L) (AInst c (fset a pv flds))
    else SErr TypeErr.

  Lemma prepared_store_inval n v : vscalar v = true ->
    (pv <~ prepared ct h0 (sexec ct h0 (S n)) sp (abs0 v) None ;;
     store ct (sexec ct h0 (S n)) (AInst c flds) sp pv true) = spec_store_inval n v.
  Proof.
    intro Hv. rewrite (prepared_scalar ct h0 sp Hnc Hp _ v Hv). unfold spec_store_inval.
    pose proof (pv_of_scalar sp Hp v Hv) as Hpv.
    destruct (pv_of sp v) as [pv|e| |]; try contradiction; [|reflexivity].
    destruct Hpv as [v' [-> Hv']]. cbn [sbind]. unfold store. rewrite (not_asentinel_scalar v' Hv').
    destruct (conforms ct (a_ty sp) (abs0 v')); cbn [negb]; [|reflexivity].
    rewrite (a_name_sp a k sp Ha). unfold invalidate, cls_for. rewrite Hc. cbn [sbind].
    rewrite (invalidatees_flat k a Hflat), dependants_eq. reflexivity.
  Qed.

  (* the store itself done, the dependants reset: from the state s1 = receiver with a := v' *)
  Lemma inval_after_store f0 n s2 v' :
    heap s2 = heap s -> fail_at s2 = None -> vscalar v' = true ->
    let s1 := upd s2 l (OInst c (assoc_set a v' d)) in
    match invalidate_attrs ct (exec ct (S (S f0))) l a s1 with
    | (Ok _, s') =>
        recv_ok c l s' /\
        sfold (fun y b => sexec ct h0 (S n) (SResetAttr y b false)) (map a_name L) (AInst c (fset a (abs0 v') flds))
          = SOk (absv (heap s') (VRef l)) /\
        (forall i, i <> l -> nth_error (heap s') i = nth_error (heap s) i) /\
        length (heap s') = length (heap s)
    | (Err e, s') =>
        sfold (fun y b => sexec ct h0 (S n) (SResetAttr y b false)) (map a_name L) (AInst c (fset a (abs0 v') flds))
          = SErr e /\
        (forall i, i <> l -> nth_error (heap s') i = nth_error (heap s) i) /\
        length (heap s') = length (heap s)
    end.
  Proof.
    intros Hh2 Hf2 Hv' s1.
    destruct (guard_after_store l a c d s Hl Hd Hok s2 v' Hh2 Hv') as [Hl' [Hd' [Hok' [Hoth Hlen']]]].
    fold s1 in Hl', Hok', Hoth, Hlen'.
    assert (Hfa1 : fail_at s1 = None) by exact (eq_trans (fail_at_upd s2 l _) Hf2).
    rewrite (invalidate_attrs_flat ct _ l a s1 c _ k Hl' Hc Hflat). fold L.
    pose proof (inval_loop_refines ct h0 l c k Hc Hfz f0 n L _ s1 Hl' Hd' Hok' Hfa1 L_cov) as H.
    pose proof (inval_loop_guard ct l c k Hc Hfz f0 L s1
                  (conj (ex_intro _ _ (conj Hl' Hd')) (conj Hok' Hfa1)) L_cov) as Hg.
    assert (Habs1 : absv (heap s1) (VRef l) = AInst c (fset a (abs0 v') flds))
      by (exact (abs_after_store l a c d s Hl Hd Hok s2 v' Hh2 Hv')).
    rewrite Habs1 in H.
    destruct (iterM (reset_step ct (exec ct (S (S f0))) l) L s1) as [[u|e] s'].
    - destruct H as [E1 [E2 E3]]. split; [exact (Hg u s' eq_refl)|]. split; [exact E1|]. split; [|congruence].
      intros i Hi. rewrite E2 by exact Hi. now apply Hoth.
    - destruct H as [E1 [E2 E3]]. split; [exact E1|]. split; [|congruence].
      intros i Hi. rewrite E2 by exact Hi. now apply Hoth.
  Qed.

  Theorem assign_inval_closed f0 n force v s1 :
    heap s1 = heap s -> fail_at s1 = None -> vscalar v = true ->
    match assign_gen ct l a sp (exec ct (S (S f0))) force v s1 with
    | (Ok r, s') =>
        r = VRef l /\ recv_ok c l s' /\
        spec_store_inval n v = SOk (absv (heap s') (VRef l)) /\
        (forall i, i <> l -> nth_error (heap s') i = nth_error (heap s) i) /\
        length (heap s') = length (heap s)
    | (Err e, s') =>
        spec_store_inval n v = SErr e /\
        (forall i, i <> l -> nth_error (heap s') i = nth_error (heap s) i) /\
        length (heap s') = length (heap s)
    end.
  Proof.
    intros Hh1 Hf1 Hv. unfold assign_gen, spec_store_inval.
    pose proof (prepare_scalar_run ct l sp Hnc Hp (S f0) v s1 Hf1 Hv) as Hpr.
    destruct (pv_of sp v) as [pv|e| |]; try contradiction.
    - destruct Hpr as [v' [s2 [Hrun [Hh2 [Hf2 [Hv' ->]]]]]]. cbn [sbind].
      rewrite (bind_ok _ _ _ _ _ Hrun).
      assert (Hh2' : heap s2 = heap s) by (now rewrite Hh2).
      assert (Hl2 : nth_error (heap s2) l = Some (OInst c d)) by (now rewrite Hh2').
      assert (Hpass : negb (force || initializing d) && c_frozen k = false) by (rewrite Hfz; apply andb_false_r).
      rewrite (mutate_attr_inplace_open ct _ l a v' true force false s2 c d k Hl2 Hc Hpass (not_sentinel_scalar v' Hv')).
      rewrite Ha. rewrite check_type_nonref by (auto using vscalar_nonref).
      destruct (conforms ct (a_ty sp) (abs0 v')).
      + pose proof (inval_after_store f0 n s2 v' Hh2' Hf2 Hv') as H. cbv zeta in H.
        unfold bind. cbv beta iota.
        destruct (invalidate_attrs ct (exec ct (S (S f0))) l a (upd s2 l (OInst c (assoc_set a v' d)))) as [[u|e] s'].
        * destruct H as [Hg [E1 [E2 E3]]]. unfold ret. auto.
        * exact H.
      + split; [reflexivity|]. split; [intros i _; now rewrite Hh2'|now rewrite Hh2'].
    - destruct Hpr as [s2 [Hrun [Hh2 Hf2]]]. cbn [sbind].
      rewrite (bind_err _ _ _ _ _ Hrun). split; [reflexivity|]. split; [intros i _; now rewrite Hh2, Hh1|now rewrite Hh2, Hh1].
  Qed.
End AssignInval.

(* invalidation started from any well-formed receiver state *)
Section InvalFrom.
  Variable ct : ctable.
  Variable h0 : list obj.
  Variables (l : loc) (a : aid) (c : cid) (k : cls).
  Hypothesis Hc : lookup_cls ct c = Some k.
  Hypothesis Hfz : c_frozen k = false.
  Hypothesis Hflat : inval_flat k a.

  Lemma inval_from f0 n d1 s1 :
    nth_error (heap s1) l = Some (OInst c d1) -> NoDup (map fst d1) ->
    aok (absv (heap s1) (VRef l)) = true -> fail_at s1 = None ->
    match invalidate_attrs ct (exec ct (S (S f0))) l a s1 with
    | (Ok _, s') =>
        recv_ok c l s' /\
        sfold (fun y b => sexec ct h0 (S n) (SResetAttr y b false))
              (map a_name (filter (dep_of a) (c_attrs k))) (absv (heap s1) (VRef l))
          = SOk (absv (heap s') (VRef l)) /\
        (forall i, i <> l -> nth_error (heap s') i = nth_error (heap s1) i) /\
        length (heap s') = length (heap s1)
    | (Err e, s') =>
        sfold (fun y b => sexec ct h0 (S n) (SResetAttr y b false))
              (map a_name (filter (dep_of a) (c_attrs k))) (absv (heap s1) (VRef l))
          = SErr e /\
        (forall i, i <> l -> nth_error (heap s') i = nth_error (heap s1) i) /\
        length (heap s') = length (heap s1)
    end.
  Proof.
    intros Hl1 Hd1 Hok1 Hfa1.
    assert (Lcov : forall sp', In sp' (filter (dep_of a) (c_attrs k)) ->
                   lookup_attr k (a_name sp') = Some sp' /\ dep_ok k sp' = true).
    { intros sp' Hin. apply filter_In in Hin. destruct Hin as [Hin Hdep].
      destruct Hflat as [Hnd [_ [_ Hcov]]]. split; [|now apply Hcov].
      unfold lookup_attr. now apply find_nodup_name. }
    rewrite (invalidate_attrs_flat ct _ l a s1 c _ k Hl1 Hc Hflat).
    pose proof (inval_loop_refines ct h0 l c k Hc Hfz f0 n _ _ s1 Hl1 Hd1 Hok1 Hfa1 Lcov) as H.
    pose proof (inval_loop_guard ct l c k Hc Hfz f0 _ s1
                  (conj (ex_intro _ _ (conj Hl1 Hd1)) (conj Hok1 Hfa1)) Lcov) as Hg.
    destruct (iterM (reset_step ct (exec ct (S (S f0))) l) (filter (dep_of a) (c_attrs k)) s1) as [[u|e] s'].
    - destruct H as [E1 [E2 E3]]. split; [exact (Hg u s' eq_refl)|]. auto.
    - exact H.
  Qed.
End InvalFrom.

(* ------------------------------------------------------------------ *)
(** * transform_<a>, reset_<a> in place with invalidation *)

Section InplaceInval.
  Variable ct : ctable.
  Variable h0 : list obj.
  Variables (l : loc) (a : aid) (c : cid) (d : list (aid * val)) (k : cls) (sp : attr_spec).
  Variable s : state.
  Hypothesis Hl : nth_error (heap s) l = Some (OInst c d).
  Hypothesis Hc : lookup_cls ct c = Some k.
  Hypothesis Ha : lookup_attr k a = Some sp.
  Hypothesis Hd : NoDup (map fst d).
  Hypothesis Hok : aok (absv (heap s) (VRef l)) = true.
  Hypothesis Hfz : c_frozen k = false.
  Hypothesis Hflat : inval_flat k a.
  Hypothesis Hfa : fail_at s = None.
  Hypothesis Hty : ty_depth (a_ty sp) < FUEL.
  Hypothesis Hnc : ty_is_collection (a_ty sp) = false.
  Hypothesis Hp : match a_prepare sp with Some f => scalar_fn f = true | None => True end.

  Let flds := map (fun p => (fst p, abs 23 (heap s) (snd p))) (sorted_fields d).

  Lemma spec_with_inval_core v : vscalar v = true ->
    spec_with ct h0 (AInst c flds) a (abs0 v) None = spec_store_inval ct h0 a c d k sp s 29 v.
  Proof.
    intro Hv. unfold spec_with, cls_for. rewrite Hc. cbn [sbind]. rewrite Ha. rewrite SFUEL_S.
    exact (prepared_store_inval ct h0 a c d k sp s Hc Ha Hflat Hnc Hp 29 v Hv).
  Qed.

  Theorem transform_scalar_inplace_inval_refines f :
    scalar_fn f = true -> vscalar (cur_val a d k) = true ->
    let h := mkh [] true true VMissing false None None [] (Some f) in
    let ah := mkah [] true true AMissing false None None [] (Some f) in
    match run_helper ct l (HTransform a) h s with
    | (Ok r, s') => r = VRef l /\
                    spec_helper ct h0 (absv (heap s) (VRef l)) (STransform a) ah = SOk (absv (heap s') (VRef l)) /\
                    (forall i, i <> l -> nth_error (heap s') i = nth_error (heap s) i)
    | (Err e, s') => spec_helper ct h0 (absv (heap s) (VRef l)) (STransform a) ah = SErr e /\
                     (forall i, i <> l -> nth_error (heap s') i = nth_error (heap s) i)
    end.
  Proof.
    intros Hf Hcur h ah.
    assert (Hspec : spec_helper ct h0 (absv (heap s) (VRef l)) (STransform a) ah =
                    (nv <~ afn f (abs0 (cur_val a d k)) ;; spec_with ct h0 (AInst c flds) a nv None)).
    { rewrite (spec_helper_inplace_unfrozen ct h0 l c d k s Hl Hc Hfz (STransform a) ah eq_refl). fold flds.
      unfold spec_unfrozen, spec_transform, attr_of, cls_for, ah. cbn [ah_fn ah_kwfn].
      rewrite Hc. cbn [sbind]. rewrite Ha.
      unfold flds. rewrite (read_attr_cur ct h0 a c d k sp s Hc Ha Hd (vscalar_nonref _ Hcur)). cbn [sbind].
      rewrite (spec_value_transform_scalar ct h0 _ (cur_val a d k) f _ _ Hcur).
      destruct (afn f (abs0 (cur_val a d k))); reflexivity. }
    rewrite Hspec. clear Hspec.
    unfold run_helper, h. cbn [h_if negb h_inplace h_fn h_kwfn].
    rewrite (bind_ok _ _ _ _ _ (spec_for_run ct l a c d k sp s Hl Hc Ha s eq_refl)). cbn [snd].
    rewrite (bind_ok _ _ _ _ _ (current_value_run ct l a c d k sp s Hl Hc Ha true true s eq_refl (vscalar_nonref _ Hcur))).
    rewrite exec_XFUEL_mv.
    pose proof (apply_fn_scalar f (cur_val a d k) s Hfa Hf Hcur) as Hap.
    destruct (afn f (abs0 (cur_val a d k))) as [nv|e| |]; try contradiction.
    - destruct Hap as [v' [Hrun [-> Hv']]].
      rewrite (bind_ok _ _ _ _ _ (eq_trans (mutate_value_transform_scalar ct _ (cur_val a d k) f _ _ false s Hcur) Hrun)).
      cbn [sbind]. rewrite (spec_with_inval_core v' Hv').
      unfold with_attr. rewrite (a_name_sp a k sp Ha).
      pose proof (assign_inval_closed ct h0 l a c d k sp s Hl Hc Ha Hd Hok Hfz Hflat Hty Hnc Hp 38 29 false v' (ticked s)
                    (heap_ticked s) Hfa Hv') as H.
      unfold assign_gen in H. rewrite <- XFUEL_S in H.
      destruct (bind (prepare_attr_value ct (exec ct XFUEL) sp l v' None)
                     (fun v0 => mutate_attr ct (exec ct XFUEL) l a v0 true true false false) (ticked s)) as [[r|e] s'].
      + destruct H as [-> [_ [Hs [Hoth _]]]]. auto.
      + destruct H as [Hs [Hoth _]]. auto.
    - rewrite (bind_err _ _ _ _ _ (eq_trans (mutate_value_transform_scalar ct _ (cur_val a d k) f _ _ false s Hcur) Hap)).
      cbn [sbind]. split; [reflexivity|]. auto.
  Qed.

  Theorem reset_scalar_inplace_inval_refines :
    literal_default a k sp -> vscalar (class_default k a) = true \/ class_default k a = VMissing ->
    let h := mkh [] true true VMissing false None None [] None in
    let ah := mkah [] true true AMissing false None None [] None in
    match run_helper ct l (HReset a) h s with
    | (Ok r, s') => r = VRef l /\
                    spec_helper ct h0 (absv (heap s) (VRef l)) (SReset a) ah = SOk (absv (heap s') (VRef l)) /\
                    (forall i, i <> l -> nth_error (heap s') i = nth_error (heap s) i)
    | (Err e, s') => spec_helper ct h0 (absv (heap s) (VRef l)) (SReset a) ah = SErr e /\
                     (forall i, i <> l -> nth_error (heap s') i = nth_error (heap s) i)
    end.
  Proof.
    intros Hlit Hdv h ah.
    rewrite (spec_helper_inplace_unfrozen ct h0 l c d k s Hl Hc Hfz (SReset a) ah eq_refl). fold flds.
    unfold spec_unfrozen, spec_reset_attr.
    unfold run_helper, h. cbn [h_if negb h_inplace]. rewrite bind_ret.
    rewrite (bind_thawed_false ct l _ _ s c d k Hl Hc).
    rewrite exec_XFUEL_del.
    assert (Hpass : negb (false || initializing d) && c_frozen k = false) by (rewrite Hfz; apply andb_false_r).
    unfold reset_attr, cls_for. rewrite Hc. cbn [sbind]. rewrite Ha.
    destruct Hdv as [Hdv|Hdv].
    - rewrite (default_of_literal h0 a k sp Ha _ Hlit (vscalar_nonref _ Hdv)). cbn [sbind].
      rewrite (not_amissing_scalar _ Hdv). rewrite SFUEL_S.
      unfold flds. rewrite (prepared_store_inval ct h0 a c d k sp s Hc Ha Hflat Hnc Hp 29 _ Hdv).
      unfold bind. rewrite (delattr_default_run ct l a c d k sp s Hl Hc Ha 38 s eq_refl Hpass Hlit Hdv).
      pose proof (assign_inval_closed ct h0 l a c d k sp s Hl Hc Ha Hd Hok Hfz Hflat Hty Hnc Hp 37 29 true (class_default k a) s
                    eq_refl Hfa Hdv) as H.
      destruct (assign_gen ct l a sp (exec ct 39) true (class_default k a) s) as [[r|e] s'].
      + destruct H as [_ [_ [Hs [Hoth _]]]]. unfold ret. auto.
      + destruct H as [Hs [Hoth _]]. auto.
    - assert (Hnr : nonref (class_default k a) = true) by (now rewrite Hdv).
      rewrite (default_of_literal h0 a k sp Ha _ Hlit Hnr). rewrite Hdv. cbn [sbind abs0 a_is_missing].
      unfold bind. rewrite (delattr_unfold ct l a c d k sp s Hl Hc Ha _ s eq_refl Hpass).
      rewrite (bind_ok _ _ _ _ _ (lookup_default_run ct a k sp Ha _ s Hlit Hnr)). rewrite Hdv. cbn [is_missing].
      unfold fhas, flds. rewrite (assoc_flds d s Hd a). fold flds.
      destruct (assoc a d) as [w|] eqn:Ea; cbn [option_map].
      + rewrite (bind_ok _ _ _ _ _ (raw_delattr_at l a s c d w Hl Ea)).
        destruct (guard_after_delete l c a d s Hl Hd Hok) as [Hl' [Hd' [Hok' [Hoth Hlen']]]].
        pose proof (inval_from ct h0 l a c k Hc Hfz Hflat 37 29 (assoc_del a d) _ Hl' Hd' Hok'
                      (eq_trans (fail_at_upd s l _) Hfa)) as H.
        rewrite (abs_after_delete l a c d s Hl Hd Hok s eq_refl) in H. fold flds in H.
        unfold invalidate, cls_for. rewrite Hc. cbn [sbind].
        rewrite (invalidatees_flat k a Hflat), dependants_eq, SFUEL_S.
        unfold bind.
        destruct (invalidate_attrs ct (exec ct 39) l a (upd s l (OInst c (assoc_del a d)))) as [[u|e] s'].
        * destruct H as [_ [E1 [E2 _]]]. unfold ret. split; [reflexivity|]. split; [exact E1|].
          intros i Hi. rewrite E2 by exact Hi. now apply Hoth.
        * destruct H as [E1 [E2 _]]. split; [exact E1|].
          intros i Hi. rewrite E2 by exact Hi. now apply Hoth.
      + assert (E : raw_delattr l a s = (Err AttrErr, s)).
        { unfold raw_delattr. rewrite (bind_ok _ _ _ _ _ (read_inst_at l s c d Hl)). cbn [fst snd]. now rewrite Ea. }
        rewrite (bind_err _ _ _ _ _ E). split; [reflexivity|]. auto.
  Qed.
End InplaceInval.

(* ------------------------------------------------------------------ *)
(** * update(_inplace=True, a=v, ...) as a whole, with invalidation *)

Definition kw_inval_ok (k : cls) (p : aid * val) : Prop :=
  kw_ok k p = true /\ (is_missing (snd p) = false -> inval_flat k (fst p)).

Section UpdateTopInval.
  Variable ct : ctable.
  Variable h0 : list obj.
  Variables (l : loc) (c : cid) (k : cls).
  Hypothesis Hc : lookup_cls ct c = Some k.
  Hypothesis Hfz : c_frozen k = false.

  Lemma assign_all_inval_refines f0 : forall kws s,
    recv_ok c l s -> Forall (kw_inval_ok k) kws ->
    match assign_all (exec ct (S (S (S f0)))) l kws s with
    | (Ok _, s') =>
        recv_ok c l s' /\
        sfold (spec_kw_step ct h0) (akw kws) (absv (heap s) (VRef l)) = SOk (absv (heap s') (VRef l)) /\
        (forall i, i <> l -> nth_error (heap s') i = nth_error (heap s) i) /\
        length (heap s') = length (heap s)
    | (Err e, s') =>
        sfold (spec_kw_step ct h0) (akw kws) (absv (heap s) (VRef l)) = SErr e /\
        (forall i, i <> l -> nth_error (heap s') i = nth_error (heap s) i) /\
        length (heap s') = length (heap s)
    end.
  Proof.
    induction kws as [|[a0 v0] kws IH]; intros s Hg Hkws.
    - unfold assign_all. cbn [iterM]. unfold ret. cbn [akw map sfold]. auto.
    - inversion Hkws as [|? ? [Hk0 Hinv] Hrest]; subst.
      unfold kw_ok in Hk0. cbn [fst snd] in Hk0, Hinv.
      destruct (lookup_attr k a0) as [sp|] eqn:Ha0; [|discriminate].
      apply andb_true_iff in Hk0. destruct Hk0 as [Hk0 Hp0].
      apply andb_true_iff in Hk0. destruct Hk0 as [Hk0 Hv0].
      apply andb_true_iff in Hk0. destruct Hk0 as [Hty Hnc].
      apply Nat.ltb_lt in Hty. apply negb_true_iff in Hnc.
      assert (Hp : match a_prepare sp with Some f => scalar_fn f = true | None => True end)
        by (destruct (a_prepare sp); auto).
      rewrite assign_all_cons. cbn [akw map fst snd sfold].
      destruct (is_missing v0) eqn:Em.
      + destruct v0; try discriminate. cbn [abs0]. unfold spec_kw_step at 1. cbn [fst snd a_is_missing].
        rewrite orb_true_r. cbn [sbind]. exact (IH s Hg Hrest).
      + rewrite ?Em in Hv0. rewrite orb_false_r in Hv0. specialize (Hinv eq_refl).
        destruct Hg as [[d [Hl Hd]] [Hok Hfa]].
        rewrite exec_S_set. rewrite (setattr_unfold ct _ l a0 c d k sp v0 false s Hl Hc Ha0).
        assert (Hstep : spec_kw_step ct h0 (absv (heap s) (VRef l)) (a0, abs0 v0) =
                        spec_store_inval ct h0 a0 c d k sp s 28 v0).
        { unfold spec_kw_step. cbn [fst snd in_names existsb orb].
          rewrite (not_amissing_scalar v0 Hv0). rewrite SFUEL_S, sexec_S. cbn [sbody].
          rewrite (absv_recv l c d s Hl). unfold set_attr, cls_for. rewrite Hc. cbn [sbind]. rewrite Ha0.
          exact (prepared_store_inval ct h0 a0 c d k sp s Hc Ha0 Hinv Hnc Hp 28 v0 Hv0). }
        rewrite Hstep. clear Hstep.
        pose proof (assign_inval_closed ct h0 l a0 c d k sp s Hl Hc Ha0 Hd Hok Hfz Hinv Hty Hnc Hp f0 28 false v0 s
                      eq_refl Hfa Hv0) as H.
        destruct (assign_gen ct l a0 sp (exec ct (S (S f0))) false v0 s) as [[r|e] s1].
        * destruct H as [_ [Hg1 [Hs [Hoth Hlen]]]]. rewrite Hs. cbn [sbind].
          pose proof (IH s1 Hg1 Hrest) as IH'.
          destruct (assign_all (exec ct (S (S (S f0)))) l kws s1) as [[u|e] s'].
          -- destruct IH' as [Hg' [E1 [E2 E3]]]. split; [exact Hg'|]. split; [exact E1|]. split; [|congruence].
             intros i Hi. rewrite E2 by exact Hi. now apply Hoth.
          -- destruct IH' as [E1 [E2 E3]]. split; [exact E1|]. split; [|congruence].
             intros i Hi. rewrite E2 by exact Hi. now apply Hoth.
        * destruct H as [Hs [Hoth Hlen]]. rewrite Hs. cbn [sbind]. auto.
  Qed.

  Theorem update_top_inplace_inval_refines d s p0 ps :
    nth_error (heap s) l = Some (OInst c d) -> NoDup (map fst d) ->
    aok (absv (heap s) (VRef l)) = true -> fail_at s = None ->
    Forall (kw_inval_ok k) (p0 :: ps) ->
    let h := mkh [] true true VMissing false None (Some (p0 :: ps)) [] None in
    let ah := mkah [] true true AMissing false None (Some (akw (p0 :: ps))) [] None in
    match run_helper ct l HUpdateTop h s with
    | (Ok r, s') => r = VRef l /\
                    spec_helper ct h0 (absv (heap s) (VRef l)) SUpdateTop ah = SOk (absv (heap s') (VRef l)) /\
                    (forall i, i <> l -> nth_error (heap s') i = nth_error (heap s) i)
    | (Err e, s') => spec_helper ct h0 (absv (heap s) (VRef l)) SUpdateTop ah = SErr e /\
                     (forall i, i <> l -> nth_error (heap s') i = nth_error (heap s) i)
    end.
  Proof.
    intros Hl Hd Hok Hfa Hkws h ah.
    assert (Hspec : spec_helper ct h0 (absv (heap s) (VRef l)) SUpdateTop ah =
                    (v5 <~ sfold (spec_kw_step ct h0) (akw (p0 :: ps)) (absv (heap s) (VRef l)) ;; SOk v5)).
    { rewrite (spec_helper_inplace_unfrozen ct h0 l c d k s Hl Hc Hfz SUpdateTop ah eq_refl).
      rewrite (absv_recv l c d s Hl). unfold spec_unfrozen, apos0, ah. cbn [ah_pos nth ah_kw akw map].
      apply spec_update_top_kws. }
    rewrite Hspec. clear Hspec.
    unfold h. rewrite (update_inplace_is_iterated_setattr ct l p0 ps s c d k Hl Hc).
    pose proof (assign_all_inval_refines 36 (p0 :: ps) s
                  (conj (ex_intro _ d (conj Hl Hd)) (conj Hok Hfa)) Hkws) as H.
    unfold bind. destruct (assign_all (exec ct 39) l (p0 :: ps) s) as [[u|e] s'].
    - destruct H as [_ [E1 [E2 E3]]]. rewrite E1. cbn [sbind]. unfold ret. auto.
    - destruct H as [E1 [E2 E3]]. rewrite E1. cbn [sbind]. auto.
  Qed.
End UpdateTopInval.
