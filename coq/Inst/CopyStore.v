(* Copy-on-write store on flat instances (continuation of CopyProofs.v). *)
From Coq Require Import List ZArith Bool Arith Lia.
From SC Require Import Base.Res Base.PyList Inst.Heap Inst.ClassTable Inst.Model Inst.Canon
  Inst.Abs Inst.SpecHelpers Inst.ElemProofs Inst.Framed Inst.RefineProofs Inst.CopyProofs.
Import ListNotations.
Open Scope nat_scope.

(* deepcopy of a flat instance succeeds when no __post_copy__ hook can interfere *)
Lemma deepcopy_flat_ok ct l s c d k :
  nth_error (heap s) l = Some (OInst c d) -> lookup_cls ct c = Some k -> c_dnc k = false ->
  flat_fields (heap s) d -> c_post_copy k = None ->
  exists r s', deepcopy ct (VRef l) s = (Ok r, s').
Proof.
  intros Hl Hc Hdnc Hflat Hpc. rewrite deepcopy_unfold.
  assert (E : exists r0 s', dc ct (S (S (S 61))) (VRef l) [] s = (Ok r0, s')).
  { rewrite (dc_inst_unfold ct 61 l (@nil (loc * loc)) s c d k eq_refl Hl Hc Hdnc).
    rewrite (bind_ok _ _ _ _ _ (alloc_run (OInst c []) s)).
    set (new := length (heap s)).
    assert (Hfr0 : framed_from (heap s) (push s (OInst c []))).
    { split; simpl; [rewrite app_length; lia|]. intros i Hi. now apply nth_error_app1. }
    assert (Hcell0 : nth_error (heap (push s (OInst c []))) new = Some (OInst c [])).
    { simpl. unfold new. now rewrite nth_error_app2, Nat.sub_diag by lia. }
    assert (Hm0 : memo_ok (heap s) new [] (push s (OInst c []))) by (intros lx lx' E; discriminate).
    destruct (field_loop ct (heap s) new c k 61 (le_n _) d [] [] _ Hfr0 Hcell0 Hm0 Hflat)
      as [m' [s1 [Eloop _]]].
    rewrite (bind_ok _ _ _ _ _ Eloop). rewrite Hpc. rewrite bind_ret. unfold ret. eauto. }
  destruct E as [r0 [s' E]]. rewrite (bind_ok _ _ _ _ _ E). unfold ret. eauto.
Qed.

Lemma conforms_scalar_any_table ct1 ct2 v : nonref v = true ->
  forall t, conforms ct1 t (abs0 v) = conforms ct2 t (abs0 v).
Proof.
  intros Hv t. induction t; simpl; auto;
    try (destruct v; simpl in *; try discriminate; reflexivity).
  - destruct v; simpl in *; try discriminate; auto.
  - now rewrite IHt1, IHt2.
Qed.

(* ------------------------------------------------------------------ *)
(** * mutate_attr(obj, a, v, inplace=False) on a flat instance: a fresh copy holding v *)

Section CopyStore.
  Variable ct : ctable.
  Variable rec : call -> M val.

  (* the shape of mutate_attr for a copy-on-write store of a proper scalar *)
  Lemma mutate_attr_copy_unfold l a v s c d k sp :
    nth_error (heap s) l = Some (OInst c d) -> lookup_cls ct c = Some k -> lookup_attr k a = Some sp ->
    c_dnc k = false -> vscalar v = true -> ty_depth (a_ty sp) < FUEL ->
    mutate_attr ct rec l a v false true false false s =
    (if conforms ct (a_ty sp) (abs0 v)
     then (r0 <- deepcopy ct (VRef l) ;; l' <- loc_of r0 ;;
           thawed ct l' true (raw_setattr l' a v ;;; invalidate_attrs ct rec l' a) ;;;
           ret (VRef l')) s
     else (Err TypeErr, s)).
  Proof.
    intros Hl Hc Ha Hdnc Hv Hty. unfold mutate_attr.
    assert (is_sentinel v = false) as -> by (destruct v; cbn [vscalar] in Hv; try discriminate; reflexivity).
    rewrite (bind_ok _ _ _ _ _ (read_inst_at l s c d Hl)). cbn [fst snd].
    rewrite (bind_ok _ _ _ _ _ (cls_of_at ct c s k Hc)).
    rewrite andb_false_r. cbn [andb]. rewrite bind_ret.
    rewrite Ha. rewrite bind_assoc.
    rewrite (bind_ok (check_typeM ct v (a_ty sp)) _ s (check_type FUEL ct (heap s) v (a_ty sp)) s eq_refl).
    rewrite check_type_nonref by (auto using vscalar_nonref).
    destruct (conforms ct (a_ty sp) (abs0 v)); [|reflexivity].
    rewrite bind_ret. rewrite Hdnc.
    assert (Hso : same_object (assoc a d) v = false).
    { unfold same_object. destruct (assoc a d) as [[]|]; auto. destruct v; cbn [vscalar] in Hv; try discriminate; reflexivity. }
    rewrite Hso. cbn [orb negb andb]. rewrite bind_assoc.
    unfold bind. destruct (deepcopy ct (VRef l) s) as [[r0|e] s1]; [|reflexivity].
    destruct (loc_of r0 s1) as [[l'|e] s2]; reflexivity.
  Qed.

  Lemma mutate_attr_copy_flat l a v s c d k sp r s' :
    nth_error (heap s) l = Some (OInst c d) -> lookup_cls ct c = Some k -> lookup_attr k a = Some sp ->
    c_dnc k = false -> no_inval k -> flat_fields (heap s) d -> NoDup (map fst d) ->
    assoc A_INITIALIZING d = None -> a <> A_INITIALIZING ->
    vscalar v = true -> ty_depth (a_ty sp) < FUEL ->
    mutate_attr ct rec l a v false true false false s = (Ok r, s') ->
    conforms ct (a_ty sp) (abs0 v) = true /\
    exists l' d',
      r = VRef l' /\ length (heap s) <= l' /\
      (forall i, i < length (heap s) -> nth_error (heap s') i = nth_error (heap s) i) /\
      nth_error (heap s') l' = Some (OInst c (stored (c_frozen k) a v d')) /\
      assoc A_INITIALIZING (stored (c_frozen k) a v d') = None /\
      fail_at s' = fail_at s /\
      forall n, abs (S (S n)) (heap s') (VRef l') =
                AInst c (fset a (abs0 v) (map (fun p => (fst p, abs (S n) (heap s) (snd p))) (sorted_fields d))).
  Proof.
    intros Hl Hc Ha Hdnc Hni Hflat Hnd Hinit Ha0 Hv Hty H.
    rewrite (mutate_attr_copy_unfold l a v s c d k sp Hl Hc Ha Hdnc Hv Hty) in H.
    destruct (conforms ct (a_ty sp) (abs0 v)) eqn:Hconf; [|discriminate H].
    split; [reflexivity|].
    (* the deep copy *)
    apply bind_inv in H. destruct H as [r0 [s2' [Hdc H]]].
    destruct (deepcopy_flat_abs ct l s c d k r0 s2' 0 Hl Hc Hdnc Hflat Hdc)
      as [l0 [d' [-> [Hfresh [Hcell' [Hkeys [Hflat' [_ [Hfail Hsame]]]]]]]]].
    cbn [loc_of] in H. rewrite bind_ret in H. rename l0 into l'. rename s2' into s2.
    assert (Hinit' : assoc A_INITIALIZING d' = None).
    { pose proof (proj1 (assoc_none_notin A_INITIALIZING d) Hinit) as Hn.
      apply assoc_none_notin. intro Hin. apply Hn.
      exact (eq_ind _ (fun l0 => In A_INITIALIZING l0) Hin _ Hkeys). }
    apply bind_inv in H. destruct H as [u [s3 [Hth Hret]]]. inversion Hret; subst r s'. clear Hret.
    rewrite (thawed_store_run ct rec l' a v s2 c d' k Hcell' Hc Hni Hinit') in Hth.
    inversion Hth; subst s3. clear Hth.
    assert (Hlen' : l' < length (heap s2)) by (apply nth_error_Some; congruence).
    assert (Hnd' : NoDup (map fst d')) by (exact (eq_ind _ (fun l0 => NoDup l0) Hnd _ (eq_sym Hkeys))).
    exists l', d'. split; [reflexivity|]. split; [exact Hfresh|]. split.
    { intros i Hi. rewrite heap_upd, set_nth_other by lia. now apply Hsame. }
    split; [now apply upd_at|]. split.
    { rewrite stored_lookup by auto. destruct (a =? A_INITIALIZING) eqn:E; auto.
      apply Nat.eqb_eq in E. congruence. }
    split; [exact Hfail|].
    intro n.
    (* the copy made by deepcopy is abstractly the receiver, at every depth *)
    assert (Hcopy_abs : map (fun p => (fst p, abs (S n) (heap s2) (snd p))) (sorted_fields d') =
                        map (fun p => (fst p, abs (S n) (heap s) (snd p))) (sorted_fields d)).
    { destruct (deepcopy_flat_abs ct l s c d k (VRef l') s2 n Hl Hc Hdnc Hflat Hdc)
        as [l1 [d1 [E1 [_ [Hcell1 [_ [_ [Habs _]]]]]]]].
      inversion E1; subst l1. rewrite Hcell' in Hcell1. inversion Hcell1; subst d1.
      rewrite (abs_inst _ l' c d' (S n) Hcell'), (abs_inst _ l c d (S n) Hl) in Habs. now inversion Habs. }
    rewrite (abs_inst _ l' c _ (S n) (upd_at s2 l' _ Hlen')). f_equal.
    set (dfin := stored (c_frozen k) a v d').
    transitivity (map (fun p => (fst p, abs (S n) (heap s2) (snd p))) (sorted_fields dfin)).
    - apply map_ext_in. intros [b0 w] Hb. cbn [fst snd]. f_equal.
      unfold sorted_fields in Hb. apply In_sort_by in Hb. apply stored_in in Hb.
      destruct Hb as [E|Hb]; [inversion E; subst; now rewrite !abs_nonref_eq by (auto using vscalar_nonref)|].
      destruct (Hflat' (b0, w) Hb) as [Hw|[lx [o [Ew [Ho Hso']]]]]; cbn [snd] in *.
      + now rewrite !abs_nonref_eq.
      + subst w. assert (lx <> l') by (intro; subst lx; rewrite Hcell' in Ho; inversion Ho; subst o; discriminate).
        eapply abs_scalar_obj; eauto. rewrite heap_upd, set_nth_other; auto.
    - rewrite <- Hcopy_abs.
      pose proof (stored_nodup (c_frozen k) a v d' Hnd') as Hndf.
      destruct (sorted_fields_props d' Hnd') as [S1 A1]. destruct (sorted_fields_props dfin Hndf) as [S2 A2].
      apply ssorted_ext.
      + now apply ssorted_map_fields.
      + apply ssorted_fset. now apply ssorted_map_fields.
      + intro k0. rewrite assoc_fset, !assoc_map_fields, A2, A1. unfold dfin. rewrite stored_lookup by auto.
        destruct (a =? k0); [cbn [option_map]; now rewrite abs_nonref_eq by (auto using vscalar_nonref)|reflexivity].
  Qed.
End CopyStore.

(* ------------------------------------------------------------------ *)
(** * C05 refinement, copy-on-write: with_<a>(v) on a flat instance, frozen or not *)

Section WithScalarCopy.
  Variable ct : ctable.
  Variable h0 : list obj.
  Variables (l : loc) (a : aid) (c : cid) (d : list (aid * val)) (k : cls) (sp : attr_spec).
  Variable s : state.
  Hypothesis Hl : nth_error (heap s) l = Some (OInst c d).
  Hypothesis Hc : lookup_cls ct c = Some k.
  Hypothesis Ha : lookup_attr k a = Some sp.
  Hypothesis Hd : NoDup (map fst d).
  Hypothesis Hflat : flat_fields (heap s) d.
  Hypothesis Hdnc : c_dnc k = false.
  Hypothesis Hni : no_inval k.
  Hypothesis Hfa : fail_at s = None.
  Hypothesis Hty : ty_depth (a_ty sp) < FUEL.
  Hypothesis Hnc : ty_is_collection (a_ty sp) = false.
  Hypothesis Hinit : assoc A_INITIALIZING d = None.      (* the receiver is not being initialised *)
  Hypothesis Ha0 : a <> A_INITIALIZING.

  Let flds := map (fun p => (fst p, abs 23 (heap s) (snd p))) (sorted_fields d).

  (* the specification, in closed form: it does not look at the frozen flag *)
  Lemma spec_with_copy_scalar v :
    vscalar v = true ->
    match a_prepare sp with Some f => scalar_fn f = true | None => True end ->
    spec_helper ct h0 (absv (heap s) (VRef l)) (SWith a) (mkah [abs0 v] false true AMissing false None None [] None) =
    (pv <~ (match a_prepare sp with Some f => afn f (abs0 v) | None => SOk (abs0 v) end) ;;
     store ct (sexec ct h0 SFUEL) (AInst c flds) sp pv true).
  Proof.
    intros Hv Hp. rewrite absv_unfold, (abs_inst _ l c d 23 Hl). fold flds.
    unfold spec_helper. cbn [ah_if negb mutates_in_place ah_inplace andb].
    unfold spec_unfrozen, spec_with, cls_for.
    rewrite Hc. cbn [sbind]. rewrite Ha. unfold apos0. cbn [ah_pos nth ah_kw].
    unfold prepared. rewrite Hnc.
    destruct (a_prepare sp) as [f|].
    - destruct f as [|z|c0| | | |]; cbn [scalar_fn] in Hp; try discriminate;
        [| |destruct c0; cbn [vscalar] in Hp; try discriminate];
        destruct v as [| | | |[|]| | | |]; cbn [vscalar] in Hv; try discriminate; reflexivity.
    - destruct v; cbn [vscalar] in Hv; try discriminate; reflexivity.
  Qed.

  Theorem with_scalar_copy_refines v r s' :
    vscalar v = true ->
    match a_prepare sp with Some f => scalar_fn f = true | None => True end ->
    run_helper ct l (HWith a) (mkh [v] false true VMissing false None None [] None) s = (Ok r, s') ->
    exists l' dfin,
      r = VRef l' /\ length (heap s) <= l' /\
      (forall i, i < length (heap s) -> nth_error (heap s') i = nth_error (heap s) i) /\
      spec_helper ct h0 (absv (heap s) (VRef l)) (SWith a)
                  (mkah [abs0 v] false true AMissing false None None [] None) = SOk (absv (heap s') (VRef l')) /\
      nth_error (heap s') l' = Some (OInst c dfin) /\ assoc A_INITIALIZING dfin = None.
  Proof.
    intros Hv Hp H. rewrite (spec_with_copy_scalar v Hv Hp).
    unfold run_helper in H. cbn [h_if negb pos0 h_pos nth h_kw h_inplace] in H.
    assert (Hsf : spec_for ct l a s = (Ok (k, sp), s)).
    { unfold spec_for. rewrite (bind_ok _ _ _ _ _ (read_inst_at l s c d Hl)). cbn [fst].
      rewrite (bind_ok _ _ _ _ _ (cls_of_at ct c s k Hc)). now rewrite Ha. }
    rewrite (bind_ok _ _ _ _ _ Hsf) in H. cbn [snd] in H. unfold with_attr in H.
    assert (Hname : a_name sp = a).
    { unfold lookup_attr in Ha. apply find_some in Ha. destruct Ha as [_ E]. now apply Nat.eqb_eq in E. }
    rewrite Hname in H.
    (* the prepared value *)
    assert (Hprep : exists v' s1, prepare_attr_value ct (exec ct XFUEL) sp l v None s = (Ok v', s1) /\
                                  heap s1 = heap s /\ fail_at s1 = fail_at s /\ vscalar v' = true /\
                                  (match a_prepare sp with Some f => afn f (abs0 v) | None => SOk (abs0 v) end) = SOk (abs0 v')).
    { apply bind_inv in H. destruct H as [v' [s1 [Hpv _]]].
      unfold prepare_attr_value in Hpv |- *. rewrite Hnc in Hpv |- *. rewrite XFUEL_S in Hpv |- *.
      destruct (a_prepare sp) as [f|].
      - pose proof (mutate_value_scalar_prep ct (exec ct 39) VMissing v false f (ctor_of_ty (a_ty sp)) (a_ty sp) false s Hfa Hp Hv) as Hm.
        destruct (afn f (abs0 v)) as [pv|e| |]; try contradiction.
        + destruct Hm as [w [Hm [-> Hw]]]. exists w, (ticked s).
          split; [|repeat split; auto].
          destruct v; cbn [vscalar] in Hv; try discriminate; rewrite exec_S; cbn [body]; rewrite (bind_ok _ _ _ _ _ Hm); reflexivity.
        + exfalso. destruct v; cbn [vscalar] in Hv; try discriminate; rewrite exec_S in Hpv; cbn [body] in Hpv;
            rewrite (bind_err _ _ _ _ _ Hm) in Hpv; discriminate.
      - exists v, s. split; [|repeat split; auto].
        destruct v; cbn [vscalar] in Hv; try discriminate; rewrite exec_S; cbn [body];
          (erewrite bind_ok; [reflexivity|apply mutate_value_scalar; reflexivity]). }
    destruct Hprep as [v' [s1 [Hpv [Hh1 [Hf1 [Hv' Hafn]]]]]].
    rewrite (bind_ok _ _ _ _ _ Hpv) in H.
    (* the store on a copy *)
    assert (Hl1 : nth_error (heap s1) l = Some (OInst c d)) by (now rewrite Hh1).
    assert (Hflat1 : flat_fields (heap s1) d) by (now rewrite Hh1).
    destruct (mutate_attr_copy_flat ct (exec ct XFUEL) l a v' s1 c d k sp r s' Hl1 Hc Ha Hdnc Hni Hflat1 Hd Hinit Ha0 Hv' Hty H)
      as [Hconf [l' [d' [-> [Hfresh [Hsame [Hcell [Hnoinit [_ Habs]]]]]]]]].
    exists l', (stored (c_frozen k) a v' d').
    split; [reflexivity|]. split; [now rewrite <- Hh1|]. split; [intros i Hi; rewrite Hsame, Hh1 by (now rewrite Hh1); reflexivity|].
    split; [|split; auto].
    rewrite Hafn. cbn [sbind].
    unfold flds. rewrite (spec_store_scalar ct a c d k sp s Hc Ha Hni (sexec ct h0 SFUEL) v' Hv'), Hconf.
    rewrite absv_unfold, Habs, Hh1. reflexivity.
  Qed.

  (* the call succeeds whenever the specification says so (no __post_copy__ hook declared) *)
  Theorem with_scalar_copy_total v x :
    vscalar v = true ->
    match a_prepare sp with Some f => scalar_fn f = true | None => True end ->
    c_post_copy k = None ->
    spec_helper ct h0 (absv (heap s) (VRef l)) (SWith a)
                (mkah [abs0 v] false true AMissing false None None [] None) = SOk x ->
    exists r s', run_helper ct l (HWith a) (mkh [v] false true VMissing false None None [] None) s = (Ok r, s').
  Proof.
    intros Hv Hp Hpc Hspec. rewrite (spec_with_copy_scalar v Hv Hp) in Hspec.
    unfold run_helper. cbn [h_if negb pos0 h_pos nth h_kw h_inplace].
    assert (Hsf : spec_for ct l a s = (Ok (k, sp), s)).
    { unfold spec_for. rewrite (bind_ok _ _ _ _ _ (read_inst_at l s c d Hl)). cbn [fst].
      rewrite (bind_ok _ _ _ _ _ (cls_of_at ct c s k Hc)). now rewrite Ha. }
    rewrite (bind_ok _ _ _ _ _ Hsf). cbn [snd]. unfold with_attr.
    assert (Hname : a_name sp = a).
    { unfold lookup_attr in Ha. apply find_some in Ha. destruct Ha as [_ E]. now apply Nat.eqb_eq in E. }
    rewrite Hname.
    (* the prepared value exists *)
    assert (Hprep : exists v' s1, prepare_attr_value ct (exec ct XFUEL) sp l v None s = (Ok v', s1) /\
                                  heap s1 = heap s /\ vscalar v' = true /\
                                  (match a_prepare sp with Some f => afn f (abs0 v) | None => SOk (abs0 v) end) = SOk (abs0 v')).
    { unfold prepare_attr_value. rewrite Hnc, XFUEL_S.
      destruct (a_prepare sp) as [f|].
      - pose proof (mutate_value_scalar_prep ct (exec ct 39) VMissing v false f (ctor_of_ty (a_ty sp)) (a_ty sp) false s Hfa Hp Hv) as Hm.
        destruct (afn f (abs0 v)) as [pv|e| |]; try contradiction; [|discriminate Hspec].
        destruct Hm as [w [Hm [-> Hw]]]. exists w, (ticked s). split; [|repeat split; auto].
        destruct v; cbn [vscalar] in Hv; try discriminate; rewrite exec_S; cbn [body]; rewrite (bind_ok _ _ _ _ _ Hm); reflexivity.
      - exists v, s. split; [|repeat split; auto].
        destruct v; cbn [vscalar] in Hv; try discriminate; rewrite exec_S; cbn [body];
          (erewrite bind_ok; [reflexivity|apply mutate_value_scalar; reflexivity]). }
    destruct Hprep as [v' [s1 [Hpv [Hh1 [Hv' Hafn]]]]].
    rewrite (bind_ok _ _ _ _ _ Hpv).
    rewrite Hafn in Hspec. cbn [sbind] in Hspec.
    assert (Hconf : conforms ct (a_ty sp) (abs0 v') = true).
    { unfold store in Hspec.
      assert (a_is_sentinel (abs0 v') = false) as Hsent
        by (destruct v'; cbn [vscalar] in Hv'; try discriminate; reflexivity).
      rewrite Hsent in Hspec. destruct (conforms ct (a_ty sp) (abs0 v')); [reflexivity|discriminate Hspec]. }
    assert (Hl1 : nth_error (heap s1) l = Some (OInst c d)) by (now rewrite Hh1).
    assert (Hflat1 : flat_fields (heap s1) d) by (now rewrite Hh1).
    rewrite (mutate_attr_copy_unfold ct (exec ct XFUEL) l a v' s1 c d k sp Hl1 Hc Ha Hdnc Hv' Hty), Hconf.
    destruct (deepcopy_flat_ok ct l s1 c d k Hl1 Hc Hdnc Hflat1 Hpc) as [r0 [s2 Hdc]].
    rewrite (bind_ok _ _ _ _ _ Hdc).
    destruct (deepcopy_flat_abs ct l s1 c d k r0 s2 0 Hl1 Hc Hdnc Hflat1 Hdc)
      as [l' [d' [-> [_ [Hcell' [Hkeys _]]]]]].
    cbn [loc_of]. rewrite bind_ret.
    assert (Hinit' : assoc A_INITIALIZING d' = None).
    { pose proof (proj1 (assoc_none_notin A_INITIALIZING d) Hinit) as Hn.
      apply assoc_none_notin. intro Hin. apply Hn.
      exact (eq_ind _ (fun l0 => In A_INITIALIZING l0) Hin _ Hkeys). }
    rewrite (bind_ok _ _ _ _ _ (thawed_store_run ct (exec ct XFUEL) l' a v' s2 c d' k Hcell' Hc Hni Hinit')).
    unfold ret. eauto.
  Qed.

  (* the result in closed form: determined by the attribute declaration, the
     receiver's abstraction and the argument only (no class table, no frozen flag) *)
  Corollary with_scalar_copy_result v r s' :
    vscalar v = true ->
    match a_prepare sp with Some f => scalar_fn f = true | None => True end ->
    run_helper ct l (HWith a) (mkh [v] false true VMissing false None None [] None) s = (Ok r, s') ->
    exists l' pv,
      r = VRef l' /\
      (match a_prepare sp with Some f => afn f (abs0 v) | None => SOk (abs0 v) end) = SOk pv /\
      absv (heap s') (VRef l') = AInst c (fset a pv flds).
  Proof.
    intros Hv Hp H.
    destruct (with_scalar_copy_refines v r s' Hv Hp H) as [l' [dfin [-> [_ [_ [Hspec _]]]]]].
    rewrite (spec_with_copy_scalar v Hv Hp) in Hspec.
    destruct (match a_prepare sp with Some f => afn f (abs0 v) | None => SOk (abs0 v) end) as [pv|e| |] eqn:E;
      cbn [sbind] in Hspec; try discriminate.
    assert (Hw : exists w, pv = abs0 w /\ vscalar w = true).
    { destruct (a_prepare sp) as [f|].
      - pose proof (apply_fn_scalar f v s Hfa Hp Hv) as Hf. rewrite E in Hf. destruct Hf as [w [_ [-> Hw]]]. eauto.
      - inversion E; subst. eauto. }
    destruct Hw as [w [-> Hw]].
    exists l', (abs0 w). split; [reflexivity|]. split; [reflexivity|].
    assert (a_is_sentinel (abs0 w) = false) as Hsent
      by (destruct w; cbn [vscalar] in Hw; try discriminate; reflexivity).
    unfold store in Hspec. rewrite Hsent in Hspec.
    destruct (negb (conforms ct (a_ty sp) (abs0 w))); [discriminate|].
    assert (a_name sp = a) as Hname.
    { unfold lookup_attr in Ha. apply find_some in Ha. destruct Ha as [_ E0]. now apply Nat.eqb_eq in E0. }
    rewrite Hname in Hspec. unfold invalidate, cls_for in Hspec. rewrite Hc in Hspec. cbn [sbind] in Hspec.
    rewrite invalidatees_none in Hspec by auto. cbn [sfold] in Hspec. now inversion Hspec.
  Qed.
End WithScalarCopy.

(* the same call on two class tables that declare the attribute identically (in
   particular: a table and its twin with the frozen flags cleared) yields
   abstractly equal results *)
Theorem with_scalar_copy_twin ct1 ct2 l a c d k1 k2 sp s v r1 s1' r2 s2' :
  nth_error (heap s) l = Some (OInst c d) ->
  lookup_cls ct1 c = Some k1 -> lookup_cls ct2 c = Some k2 ->
  lookup_attr k1 a = Some sp -> lookup_attr k2 a = Some sp ->
  NoDup (map fst d) -> flat_fields (heap s) d ->
  c_dnc k1 = false -> c_dnc k2 = false -> no_inval k1 -> no_inval k2 ->
  fail_at s = None -> ty_depth (a_ty sp) < FUEL -> ty_is_collection (a_ty sp) = false ->
  assoc A_INITIALIZING d = None -> a <> A_INITIALIZING ->
  vscalar v = true ->
  match a_prepare sp with Some f => scalar_fn f = true | None => True end ->
  run_helper ct1 l (HWith a) (mkh [v] false true VMissing false None None [] None) s = (Ok r1, s1') ->
  run_helper ct2 l (HWith a) (mkh [v] false true VMissing false None None [] None) s = (Ok r2, s2') ->
  absv (heap s1') r1 = absv (heap s2') r2.
Proof.
  intros Hl Hc1 Hc2 Ha1 Ha2 Hd Hflat Hd1 Hd2 Hn1 Hn2 Hfa Hty Hnc Hinit Ha0 Hv Hp H1 H2.
  destruct (with_scalar_copy_result ct1 [] l a c d k1 sp s Hl Hc1 Ha1 Hd Hflat Hd1 Hn1 Hfa Hty Hnc Hinit Ha0 v r1 s1' Hv Hp H1)
    as [l1 [pv1 [-> [E1 A1]]]].
  destruct (with_scalar_copy_result ct2 [] l a c d k2 sp s Hl Hc2 Ha2 Hd Hflat Hd2 Hn2 Hfa Hty Hnc Hinit Ha0 v r2 s2' Hv Hp H2)
    as [l2 [pv2 [-> [E2 A2]]]].
  rewrite E1 in E2. inversion E2; subst pv2. now rewrite A1, A2.
Qed.

(* ... and only ONE of the two runs has to be known to succeed: if the call
   succeeds on table 2 (say, the twin without frozen=True) it succeeds on table 1
   (the frozen one: no FrozenInstanceError) with an abstractly equal result *)
Theorem with_scalar_copy_twin_total ct1 ct2 l a c d k1 k2 sp s v r2 s2' :
  nth_error (heap s) l = Some (OInst c d) ->
  lookup_cls ct1 c = Some k1 -> lookup_cls ct2 c = Some k2 ->
  lookup_attr k1 a = Some sp -> lookup_attr k2 a = Some sp ->
  NoDup (map fst d) -> flat_fields (heap s) d ->
  c_dnc k1 = false -> c_dnc k2 = false -> no_inval k1 -> no_inval k2 -> c_post_copy k1 = None ->
  fail_at s = None -> ty_depth (a_ty sp) < FUEL -> ty_is_collection (a_ty sp) = false ->
  assoc A_INITIALIZING d = None -> a <> A_INITIALIZING ->
  vscalar v = true ->
  match a_prepare sp with Some f => scalar_fn f = true | None => True end ->
  run_helper ct2 l (HWith a) (mkh [v] false true VMissing false None None [] None) s = (Ok r2, s2') ->
  exists r1 s1',
    run_helper ct1 l (HWith a) (mkh [v] false true VMissing false None None [] None) s = (Ok r1, s1') /\
    absv (heap s1') r1 = absv (heap s2') r2.
Proof.
  intros Hl Hc1 Hc2 Ha1 Ha2 Hd Hflat Hd1 Hd2 Hn1 Hn2 Hpc Hfa Hty Hnc Hinit Ha0 Hv Hp H2.
  (* table 2: the specification's closed form is SOk *)
  destruct (with_scalar_copy_refines ct2 [] l a c d k2 sp s Hl Hc2 Ha2 Hd Hflat Hd2 Hn2 Hfa Hty Hnc Hinit Ha0 v r2 s2' Hv Hp H2)
    as [l2 [dfin2 [E2 [_ [_ [Hspec2 _]]]]]].
  rewrite (spec_with_copy_scalar ct2 [] l a c d k2 sp s Hl Hc2 Ha2 Hnc v Hv Hp) in Hspec2.
  (* the same closed form on table 1 *)
  assert (Hspec1 : exists x, spec_helper ct1 [] (absv (heap s) (VRef l)) (SWith a)
                               (mkah [abs0 v] false true AMissing false None None [] None) = SOk x).
  { rewrite (spec_with_copy_scalar ct1 [] l a c d k1 sp s Hl Hc1 Ha1 Hnc v Hv Hp).
    destruct (match a_prepare sp with Some f => afn f (abs0 v) | None => SOk (abs0 v) end) as [pv|e| |] eqn:E;
      cbn [sbind] in Hspec2 |- *; try discriminate.
    assert (Hw : exists w, pv = abs0 w /\ vscalar w = true).
    { destruct (a_prepare sp) as [f|].
      - pose proof (apply_fn_scalar f v s Hfa Hp Hv) as Hf. rewrite E in Hf. destruct Hf as [w [_ [-> Hw]]]. eauto.
      - inversion E; subst. eauto. }
    destruct Hw as [w [-> Hw]].
    assert (a_is_sentinel (abs0 w) = false) as Hsent
      by (destruct w; cbn [vscalar] in Hw; try discriminate; reflexivity).
    unfold store in Hspec2 |- *. rewrite Hsent in Hspec2 |- *.
    rewrite (conforms_scalar_any_table ct1 ct2 w (vscalar_nonref w Hw)).
    destruct (conforms ct2 (a_ty sp) (abs0 w)); cbn [negb] in Hspec2 |- *; [|discriminate].
    assert (a_name sp = a) as Hname.
    { unfold lookup_attr in Ha1. apply find_some in Ha1. destruct Ha1 as [_ E0]. now apply Nat.eqb_eq in E0. }
    rewrite Hname. unfold invalidate, cls_for. rewrite Hc1. cbn [sbind].
    rewrite invalidatees_none by auto. cbn [sfold]. eauto. }
  destruct Hspec1 as [x Hspec1].
  destruct (with_scalar_copy_total ct1 [] l a c d k1 sp s Hl Hc1 Ha1 Hflat Hd1 Hn1 Hfa Hty Hnc Hinit v x Hv Hp Hpc Hspec1)
    as [r1 [s1' H1]].
  exists r1, s1'. split; [exact H1|].
  exact (with_scalar_copy_twin ct1 ct2 l a c d k1 k2 sp s v r1 s1' r2 s2' Hl Hc1 Hc2 Ha1 Ha2 Hd Hflat Hd1 Hd2 Hn1 Hn2
           Hfa Hty Hnc Hinit Ha0 Hv Hp H1 H2).
Qed.

(* ------------------------------------------------------------------ *)
(** * update_<a>(v) with a proper scalar v is with_<a>(v): in the model and in the specification *)

Section UpdateScalar.
  Variable ct : ctable.
  Variable h0 : list obj.
  Variables (l : loc) (a : aid) (c : cid) (d : list (aid * val)) (k : cls) (sp : attr_spec).
  Variable s : state.
  Hypothesis Hl : nth_error (heap s) l = Some (OInst c d).
  Hypothesis Hc : lookup_cls ct c = Some k.
  Hypothesis Ha : lookup_attr k a = Some sp.

  Lemma update_scalar_model v inp :
    vscalar v = true ->
    run_helper ct l (HUpdate a) (mkh [v] inp true VMissing false None None [] None) s =
    run_helper ct l (HWith a) (mkh [v] inp true VMissing false None None [] None) s.
  Proof.
    intro Hv. unfold run_helper. cbn [h_if negb pos0 h_pos nth h_kw h_inplace].
    assert (Hsf : spec_for ct l a s = (Ok (k, sp), s)).
    { unfold spec_for. rewrite (bind_ok _ _ _ _ _ (read_inst_at l s c d Hl)). cbn [fst].
      rewrite (bind_ok _ _ _ _ _ (cls_of_at ct c s k Hc)). now rewrite Ha. }
    assert (Hcv : exists old, current_value ct l sp inp (is_sentinel v) s = (Ok old, s)).
    { unfold current_value, getattr_default.
      rewrite bind_assoc. rewrite (bind_ok _ _ _ _ _ (read_inst_at l s c d Hl)). cbn [fst snd].
      assert (is_sentinel v = false) as -> by (destruct v; cbn [vscalar] in Hv; try discriminate; reflexivity).
      cbn [negb]. rewrite !orb_true_r.
      destruct (assoc (a_name sp) d) as [w|].
      - rewrite bind_ret. unfold ret. eauto.
      - rewrite bind_assoc. rewrite (bind_ok _ _ _ _ _ (cls_of_at ct c s k Hc)). rewrite !bind_ret. unfold ret. eauto. }
    destruct Hcv as [old Hcv].
    destruct v; cbn [vscalar] in Hv; try discriminate;
      rewrite !(bind_ok _ _ _ _ _ Hsf); cbn [snd];
      rewrite (bind_ok _ _ _ _ _ Hcv); rewrite XFUEL_S, exec_S; cbn [body];
      (erewrite bind_ok; [reflexivity|apply mutate_value_scalar; reflexivity]).
  Qed.

  Lemma update_scalar_spec v inp :
    vscalar v = true ->
    spec_helper ct h0 (absv (heap s) (VRef l)) (SUpdate a) (mkah [abs0 v] inp true AMissing false None None [] None) =
    spec_helper ct h0 (absv (heap s) (VRef l)) (SWith a) (mkah [abs0 v] inp true AMissing false None None [] None).
  Proof.
    intro Hv. rewrite absv_unfold, (abs_inst _ l c d 23 Hl).
    unfold spec_helper. cbn [ah_if negb].
    assert (E : spec_unfrozen ct h0 (AInst c (map (fun p => (fst p, abs 23 (heap s) (snd p))) (sorted_fields d)))
                  (SUpdate a) (mkah [abs0 v] inp true AMissing false None None [] None) =
                spec_unfrozen ct h0 (AInst c (map (fun p => (fst p, abs 23 (heap s) (snd p))) (sorted_fields d)))
                  (SWith a) (mkah [abs0 v] inp true AMissing false None None [] None)).
    { unfold spec_unfrozen, spec_update, attr_of, cls_for. unfold apos0. cbn [ah_pos nth ah_kw].
      rewrite Hc. cbn [sbind]. rewrite Ha.
      destruct (read_attr ct h0 _ a) as [cur| | |] eqn:Er;
        try (unfold read_attr, cls_for in Er; rewrite Hc in Er; cbn [sbind] in Er;
             destruct (assoc a _); [discriminate|]; destruct (assoc a (c_overrides k)); [discriminate|];
             rewrite Ha in Er; discriminate).
      destruct v; cbn [vscalar] in Hv; try discriminate; reflexivity. }
    unfold mutates_in_place. cbn [ah_inplace ah_if].
    destruct (inp && true && frozen_class ct c); [|exact E].
    unfold apos0. cbn [ah_pos nth]. rewrite E.
    destruct v; cbn [vscalar] in Hv; try discriminate; reflexivity.
  Qed.
End UpdateScalar.
