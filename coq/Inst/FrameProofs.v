(* Frame proofs for the instance model: which heap cells the library code
   can write.  Main results: exec_framed / helper_framed (copy-on-write calls
   write only cells allocated during the call). *)
From Coq Require Import List ZArith Bool Arith Lia.
From SC Require Import Base.Res Base.PyList Inst.Heap Inst.ClassTable Inst.Model Inst.Framed.
Import ListNotations.
Open Scope nat_scope.

Tactic Notation "fbind" := eapply framed_bind.
Ltac fret := apply framed_ret.
Ltac ftriv := first [ apply framed_fail | apply framed_ret; auto; fail ].

Lemma framed_get_heap b : framed b get_heap (fun _ => True).
Proof. intros s _. simpl. split; auto using frame_refl. Qed.

Lemma framed_check_typeM b ct v t : framed b (check_typeM ct v t) (fun _ => True).
Proof. unfold check_typeM. fbind; [apply framed_get_heap|]. intros; now fret. Qed.

Lemma framed_val_eqM b ct x y : framed b (val_eqM ct x y) (fun _ => True).
Proof. unfold val_eqM. fbind; [apply framed_get_heap|]. intros; now fret. Qed.

(* user callbacks only allocate: the result is the argument, a scalar, or fresh *)
Lemma framed_apply_fn b f v : framed b (apply_fn f v) (fun r => r = v \/ freshv b r).
Proof.
  unfold apply_fn. fbind; [apply framed_tick|]. intros _ _.
  destruct f.
  - fret; auto.
  - destruct v; try apply framed_fail; fret; right; exact I.
  - destruct v0; try apply framed_fail; fret; right; exact I.
  - fbind; [apply framed_alloc|]. intros; fret; right; assumption.
  - destruct v; try apply framed_fail.
    fbind; [apply framed_read|]. intros o _. destruct o; try apply framed_fail.
    fbind; [apply framed_alloc|]. intros; fret; right; assumption.
  - fbind; [apply framed_alloc|]. intros; fret; right; assumption.
  - apply framed_fail.
Qed.

Section Frame.
  Variable ct : ctable.
  Hypothesis no_dnc : forall c k, lookup_cls ct c = Some k -> c_dnc k = false.
  Variable b : nat.

  Definition memo_ok (memo : memo_t) : Prop := forall l l', In (l, l') memo -> b <= l'.

  Lemma memo_ok_assoc memo l l' : memo_ok memo -> assoc l memo = Some l' -> b <= l'.
  Proof.
    unfold assoc. intros H E.
    destruct (find (fun p : nat * loc => fst p =? l) memo) as [[x y]|] eqn:F; simpl in E; [|discriminate].
    inversion E; subst. apply find_some in F. destruct F as [F _]. eapply H; eauto.
  Qed.

  Lemma memo_ok_cons memo l l' : memo_ok memo -> b <= l' -> memo_ok ((l, l') :: memo).
  Proof. intros H Hl x y [E|Hin]; [inversion E; subst; auto|eapply H; eauto]. Qed.

  Definition Qdc (v : val) (r : val * memo_t) : Prop :=
    (match v with VRef _ => exists l', fst r = VRef l' /\ b <= l' | _ => fst r = v end)
    /\ memo_ok (snd r).

  Lemma dc_framed fuel : forall v memo, memo_ok memo -> framed b (dc ct fuel v memo) (Qdc v).
  Proof.
    induction fuel as [|f IH]; intros v memo Hm; simpl; [apply framed_fail|].
    destruct v; try (fret; split; simpl; auto; fail).
    destruct (assoc l memo) as [l'|] eqn:A.
    { fret. split; simpl; auto. exists l'. split; auto. eapply memo_ok_assoc; eauto. }
    fbind; [apply framed_read|]. intros o _. destruct o as [xs|kvs|xs|c d].
    - (* list *)
      fbind; [apply framed_alloc|]. intros l' Hl'.
      fbind.
      + apply framed_foldM with (P := memo_ok).
        * intros m x _ Hmm. fbind; [apply IH; exact Hmm|]. intros r [_ Hr].
          fbind; [apply framed_read|]. intros o' _. destruct o'; try apply framed_fail.
          fbind; [apply framed_write; exact Hl'|]. intros _ _. now fret.
        * now apply memo_ok_cons.
      + intros memo' Hm'. fret. split; simpl; auto. eauto.
    - (* dict *)
      fbind; [apply framed_alloc|]. intros l' Hl'.
      fbind.
      + apply framed_foldM with (P := memo_ok).
        * intros m p _ Hmm. fbind; [apply IH; exact Hmm|]. intros rk [_ Hrk].
          fbind; [apply IH; exact Hrk|]. intros rv [_ Hrv].
          fbind; [apply framed_read|]. intros o' _. destruct o'; try apply framed_fail.
          fbind; [apply framed_write; exact Hl'|]. intros _ _. now fret.
        * now apply memo_ok_cons.
      + intros memo' Hm'. fret. split; simpl; auto. eauto.
    - (* set *)
      fbind.
      + apply framed_foldM with (P := fun acc : list val * memo_t => memo_ok (snd acc)).
        * intros acc x _ Hacc. fbind; [apply IH; exact Hacc|]. intros r [_ Hr]. now fret.
        * exact Hm.
      + intros r Hr. fbind; [apply framed_alloc|]. intros l' Hl'.
        fret. split; simpl; eauto. now apply memo_ok_cons.
    - (* instance *)
      destruct (lookup_cls ct c) as [k|] eqn:Ek; [|apply framed_fail].
      rewrite (no_dnc c k Ek).
      fbind; [apply framed_alloc|]. intros new Hnew.
      fbind.
      + apply framed_foldM with (P := memo_ok); [|exact Hm].
        intros m [a x] _ Hmm.
        eapply framed_bind with (Q := fun r : val * memo_t => memo_ok (snd r)).
        * destruct (lookup_attr k a) as [sp|].
          -- destruct (a_dnc sp); [now fret|].
             destruct (val_is_scalar x); [now fret|].
             eapply framed_weaken; [apply IH; exact Hmm|]. intros r [_ Hr]; exact Hr.
          -- destruct (val_is_scalar x); [now fret|].
             eapply framed_weaken; [apply IH; exact Hmm|]. intros r [_ Hr]; exact Hr.
        * intros r Hr. fbind; [apply framed_read|]. intros o' _. destruct o'; try apply framed_fail.
          fbind; [apply framed_write; exact Hnew|]. intros _ _. now fret.
      + intros memo' Hm'.
        eapply framed_bind with (Q := fun _ : unit => True).
        * destruct (c_post_copy k); [|now fret].
          fbind; [apply framed_apply_fn|]. intros; now fret.
        * intros _ _. fret. split; simpl; eauto. now apply memo_ok_cons.
  Qed.

  Lemma deepcopy_framed v :
    framed b (deepcopy ct v)
           (fun r => match v with VRef _ => exists l', r = VRef l' /\ b <= l' | _ => r = v end).
  Proof.
    unfold deepcopy. fbind; [apply dc_framed; intros ? ? []|].
    intros r [H _]. fret. exact H.
  Qed.

  Lemma protect_framed v : framed b (protect ct v) (freshv b).
  Proof.
    unfold protect. destruct (val_is_scalar v) eqn:E.
    - fret. destruct v; simpl in *; auto; discriminate.
    - eapply framed_weaken; [apply deepcopy_framed|].
      intros r H. destruct v; subst; simpl; auto. destruct H as [l' [-> H]]. exact H.
  Qed.
End Frame.

(* ------------------------------------------------------------------ *)
(* automation *)
Create HintDb fr.
#[export] Hint Resolve framed_alloc framed_read framed_tick framed_get_heap framed_check_typeM
  framed_val_eqM framed_apply_fn : fr.
#[export] Hint Extern 1 (_ <= _) => (assumption || lia) : fr.
#[export] Hint Extern 1 (framed _ (write _ _) _) => (apply framed_write; (assumption || lia)) : fr.

Ltac fprim := eauto with fr.
Ltac fbindT := eapply framed_bind with (Q := fun _ => True).
Ltac fstep :=
  lazymatch goal with
  | |- framed _ (ret _) _ => apply framed_ret; auto
  | |- framed _ (fail _) _ => apply framed_fail
  | |- framed _ (bind _ _) _ => eapply framed_bind; [ solve [fprim] | intros; cbv beta in * ]
  | |- framed _ (let _ := _ in _) _ => cbv zeta
  | |- framed _ (if ?c then _ else _) _ => destruct c eqn:?
  | |- framed _ (match ?x with _ => _ end) _ => destruct x eqn:?
  end.
Ltac fgo := repeat fstep.
Tactic Notation "fbi" ident(x) ident(H) := eapply framed_bind; [ solve [fprim] | intros x H; cbv beta in * ].

Section Core.
  Variable ct : ctable.
  Hypothesis no_dnc : forall c k, lookup_cls ct c = Some k -> c_dnc k = false.
  Variable b : nat.
  Variable rec : call -> M val.

  Definition call_ok (k : call) : Prop :=
    match k with
    | KSetAttr l _ _ _ _ => b <= l
    | KDelAttr l _ _ _ => b <= l
    | KInit _ l _ => b <= l
    | KConstruct _ _ _ => True
    | KMutateValue m => mv_inplace m = false
    end.
  Definition post (k : call) (v : val) : Prop :=
    match k with KConstruct _ _ _ => freshv b v | _ => True end.
  Hypothesis Hrec : forall k, call_ok k -> framed b (rec k) (post k).

  Lemma rec_framed k : call_ok k -> framed b (rec k) (fun _ => True).
  Proof. intro H. eapply framed_weaken; [apply Hrec; exact H|auto]. Qed.

  Lemma rec_construct_framed c pos kw : framed b (rec (KConstruct c pos kw)) (freshv b).
  Proof. apply (Hrec (KConstruct c pos kw)). exact I. Qed.

  Hint Resolve rec_construct_framed (protect_framed ct no_dnc b) : fr.

  Lemma loc_of_framed v : freshv b v -> framed b (loc_of v) (fun l => b <= l).
  Proof. intro H. destruct v; simpl; try apply framed_fail. now apply framed_ret. Qed.
  Lemma loc_of_framed_any v : framed b (loc_of v) (fun _ => True).
  Proof. destruct v; simpl; try apply framed_fail. now apply framed_ret. Qed.
  Hint Resolve loc_of_framed : fr.

  Lemma read_inst_framed l : framed b (read_inst l) (fun _ => True).
  Proof. unfold read_inst. fgo. Qed.
  Lemma cls_of_framed c : framed b (cls_of ct c) (fun k => c_dnc k = false).
  Proof. unfold cls_of. destruct (lookup_cls ct c) eqn:E; fgo. eapply no_dnc; eauto. Qed.
  Hint Resolve read_inst_framed cls_of_framed : fr.

  Lemma raw_setattr_framed l a v : b <= l -> framed b (raw_setattr l a v) (fun _ => True).
  Proof. intro H. unfold raw_setattr. fgo. fprim. Qed.
  Lemma raw_delattr_framed l a : b <= l -> framed b (raw_delattr l a) (fun _ => True).
  Proof. intro H. unfold raw_delattr. fgo. fprim. Qed.
  Lemma getattr_default_framed l a : framed b (getattr_default ct l a) (fun _ => True).
  Proof. unfold getattr_default. fgo. Qed.
  Hint Resolve raw_setattr_framed raw_delattr_framed getattr_default_framed : fr.

  Lemma thawed_framed {A} l thaw (m : M A) Q :
    (thaw = true -> b <= l) -> framed b m Q -> framed b (thawed ct l thaw m) Q.
  Proof.
    intros Hl Hm. unfold thawed. fstep. fstep; auto. fstep.
    destruct thaw; simpl; auto.
    destruct (negb (c_frozen a0) || initializing d); auto.
    fbindT; [apply raw_setattr_framed; auto|]. intros _ _.
    apply framed_finally; auto. apply raw_delattr_framed; auto.
  Qed.

  Lemma thawed_val_framed {A} v thaw (m : M A) Q :
    (thaw = true -> freshv b v) -> framed b m Q -> framed b (thawed_val ct v thaw m) Q.
  Proof. intros Hv Hm. destruct v; simpl; auto. apply thawed_framed; auto. Qed.

  Lemma invalidate_attrs_framed l a : b <= l -> framed b (invalidate_attrs ct rec l a) (fun _ => True).
  Proof.
    intro Hl. unfold invalidate_attrs. fstep. fstep. cbv zeta. apply framed_iterM. intros sp _.
    fstep; [|fstep]. apply framed_catch; [|fstep].
    fbindT; [apply rec_framed; exact Hl|]. intros; fstep.
  Qed.
  Hint Resolve invalidate_attrs_framed : fr.

  Lemma mutate_attr_framed l a v inplace tc force skip :
    (inplace = true -> b <= l) ->
    framed b (mutate_attr ct rec l a v inplace tc force skip) (fun _ => True).
  Proof.
    intro Hl. unfold mutate_attr. fstep; [fstep|]. fstep. fstep.
    fbindT; [fgo|]. intros _ _.
    fbindT; [fgo|]. intros _ _.
    eapply framed_bind with (Q := fun l' => b <= l').
    - destruct (negb (inplace || c_dnc a1)) eqn:C.
      + eapply framed_bind; [apply (deepcopy_framed ct no_dnc b)|].
        intros r [l' [-> H']]. simpl. now apply framed_ret.
      + apply framed_ret. apply Hl. destruct inplace; auto.
        simpl in C. cbv beta in *. match goal with H : c_dnc _ = false |- _ => rewrite H in C end. discriminate.
    - intros l' Hl'. fbindT; [fgo|]. intros value' _. fbindT; [|intros; fstep].
      apply thawed_framed; auto. fbindT; [fprim|]. intros _ _. fgo. fprim.
  Qed.

  Hint Resolve mutate_attr_framed : fr.

  Lemma run_factory_framed f : framed b (run_factory rec f) (freshv b).
  Proof.
    unfold run_factory. fstep. destruct f.
    - fstep. fstep.
    - fstep. fstep.
    - fstep. fstep.
    - apply rec_construct_framed.
  Qed.

  Lemma default_value_framed sp : framed b (default_value ct rec sp) (freshv b).
  Proof.
    unfold default_value. destruct (a_factory sp); [apply run_factory_framed|].
    apply protect_framed; auto.
  Qed.

  Lemma lookup_default_value_framed sp k : framed b (lookup_default_value ct rec sp k) (freshv b).
  Proof.
    unfold lookup_default_value. destruct (assoc _ _); [apply protect_framed; auto|].
    apply default_value_framed.
  Qed.
  Hint Resolve run_factory_framed default_value_framed lookup_default_value_framed : fr.

  Lemma instantiate_ty_framed t : framed b (instantiate_ty rec t) (freshv b).
  Proof.
    unfold instantiate_ty. destruct t; try (fstep; simpl; auto; fail); try (fstep; fstep; fail).
    apply rec_construct_framed.
  Qed.
  Hint Resolve instantiate_ty_framed : fr.

  Lemma prepare_item_framed sp inst item :
    framed b (prepare_item ct rec sp inst item) (fun r => r = item \/ freshv b r).
  Proof.
    unfold prepare_item.
    eapply framed_bind with (Q := fun r => r = item \/ freshv b r).
    - destruct (a_prepare_item sp); [apply framed_apply_fn|fret; auto].
    - intros item1 H1.
      destruct (spec_of_ty_strict (item_type (a_ty sp))); [|fret; auto].
      fbi k Hk. destruct (c_key k) as [ka|]; [|fret; auto].
      destruct (lookup_attr k ka) as [ksp|]; [|fret; auto].
      destruct (is_missing item1); [fret; auto|].
      fbi ok1 Hok1. fbi ok2 Hok2. destruct (negb ok1 && ok2); [|fret; auto].
      eapply framed_weaken; [apply rec_construct_framed|]. intros; right; assumption.
  Qed.

  Lemma apply_xform_framed x v :
    framed b (apply_xform ct rec x v) (fun r => r = v \/ freshv b r).
  Proof.
    unfold apply_xform. destruct x as [[f|] o].
    - apply framed_apply_fn.
    - destruct o as [[sp inst]|]; [apply prepare_item_framed|apply framed_fail].
  Qed.

  Lemma str_key_framed v : framed b (str_key_to_aid v) (fun _ => True).
  Proof. unfold str_key_to_aid. destruct v; fgo. Qed.
  Hint Resolve str_key_framed : fr.

  Definition Q3 (r : val * bool * list aid) : Prop :=
    let '(v, safe, _) := r in safe = true -> freshv b v.

  Lemma construct_args_framed m c attrs :
    framed b (k <- cls_of ct c ;;
              let names := init_names k in
              let args := filter (fun p => existsb (fun n => n =? fst p) names
                                           && negb (is_missing (snd p))) attrs in
              v <- rec (KConstruct c None args) ;;
              ret (v, true, match mv_attrs m with Some _ => names | None => [] end)) Q3.
  Proof. fbi k Hk. cbv zeta. fbi v Hv. fret. unfold Q3. auto. Qed.

  Lemma mutate_value_body_framed m :
    mv_inplace m = false -> framed b (mutate_value_body ct rec m) (fun _ => True).
  Proof.
    intro Hin. unfold mutate_value_body.
    fbindT.
    { match goal with |- framed _ (match ?p with _ => _ end) _ => destruct p as [|f|sp inst] end.
      - fstep.
      - eapply framed_weaken; [apply framed_apply_fn|auto].
      - eapply framed_weaken; [apply prepare_item_framed|auto]. }
    intros value1 _. fstep.
    eapply framed_bind with (Q := Q3).
    { destruct (mv_ctor m) as [ctor|]; [|fret; unfold Q3; rewrite Hin; discriminate].
      destruct (mv_expected m) as [ety|].
      - match goal with |- framed _ (if ?c then _ else _) _ => destruct c end.
        + fbind; [apply loc_of_framed_any|intros l0 _]. fbi o0 Ho0. destruct o0; try apply framed_fail.
          eapply framed_bind with (Q := fun _ => True).
          { apply framed_mapM. intros p _. fstep. fstep. }
          intros kw _. destruct ctor.
          * fstep. fret. unfold Q3. discriminate.
          * destruct (fold_left _ kw _); [|apply framed_fail].
            fstep. fret. unfold Q3. discriminate.
        + destruct (is_missing value1).
          * destruct ctor; [apply construct_args_framed|].
            fstep. fret. unfold Q3. auto.
          * fret. unfold Q3. rewrite Hin. discriminate.
      - destruct (is_missing value1).
        + destruct ctor; [apply construct_args_framed|].
          fstep. fret. unfold Q3. auto.
        + fret. unfold Q3. rewrite Hin. discriminate. }
    intros [[value2 safe2] used] H2. unfold Q3 in H2.
    eapply framed_bind with (Q := fun r5 : val * bool => snd r5 = true -> freshv b (fst r5)).
    { destruct (match mv_attrs m with Some l => l | None => [] end) as [|p0 attrs'] eqn:Ea.
      - fret. exact H2.
      - assert (Hbody : framed b
          (value3 <- (if safe2 then ret value2 else protect ct value2) ;;
           thawed_val ct value3 (negb (mv_inplace m))
             (iterM (fun p => if existsb (fun n => n =? fst p) used then ret tt
                              else if is_missing (snd p) then ret tt
                              else (l <- loc_of value3 ;;
                                    rec (KSetAttr l (fst p) (snd p) false false) ;;; ret tt))
                    (p0 :: attrs')) ;;;
           ret (value3, true))
          (fun r5 : val * bool => snd r5 = true -> freshv b (fst r5))).
        { eapply framed_bind with (Q := freshv b).
          - destruct safe2; [fret; auto|apply protect_framed; auto].
          - intros value3 H3. fbindT.
            + apply thawed_val_framed; auto. apply framed_iterM. intros p _.
              fgo.
            + intros _ _. fret. auto. }
        destruct value2; try exact Hbody; apply framed_fail. }
    intros [value3 safe3] H3. simpl in H3.
    eapply framed_bind with (Q := fun value4 => safe3 = true -> freshv b value4).
    { destruct (mv_transform m) as [x|]; [|fret; auto].
      eapply framed_weaken; [apply apply_xform_framed|].
      intros r [->|Hr]; auto. }
    intros value4 H4.
    destruct (mv_attr_transforms m) as [|q0 ats]; [fret; auto|].
    eapply framed_bind with (Q := freshv b).
    { destruct safe3; [fret; auto|apply protect_framed; auto]. }
    intros value5 H5. fbindT; [|intros; fstep].
    apply thawed_val_framed; auto. apply framed_iterM. intros p _.
    fstep. fstep. fstep. fstep; [fstep|].
    fbindT; [apply rec_framed; simpl; assumption|]. intros; fstep.
  Qed.

  Lemma mutate_value_framed m :
    mv_inplace m = false -> framed b (mutate_value ct rec m) (fun _ => True).
  Proof.
    intro H. unfold mutate_value.
    destruct (mv_new m); try (apply mutate_value_body_framed; exact H). now fret.
  Qed.

  (* ---------------- collections ---------------- *)
  Lemma loc_of_t_framed v : framed b (loc_of_t v) (fun l => v = VRef l).
  Proof. destruct v; simpl; try apply framed_fail. now apply framed_ret. Qed.

  Lemma read_list_framed v : framed b (read_list v) (fun p => v = VRef (fst p)).
  Proof.
    unfold read_list. fbind; [apply loc_of_t_framed|]. intros l ->.
    fbi o Ho. destruct o; try apply framed_fail. now fret.
  Qed.
  Lemma read_dict_framed v : framed b (read_dict v) (fun p => v = VRef (fst p)).
  Proof.
    unfold read_dict. fbind; [apply loc_of_t_framed|]. intros l ->.
    fbi o Ho. destruct o; try apply framed_fail. now fret.
  Qed.
  Lemma read_set_framed v : framed b (read_set v) (fun p => v = VRef (fst p)).
  Proof.
    unfold read_set. fbind; [apply loc_of_t_framed|]. intros l ->.
    fbi o Ho. destruct o; try apply framed_fail. now fret.
  Qed.
  Hint Resolve read_list_framed read_dict_framed read_set_framed : fr.

  Lemma find_eq_index_framed xs v : framed b (find_eq_index ct xs v) (fun _ => True).
  Proof. unfold find_eq_index. fgo. Qed.
  Lemma dict_lookup_framed kvs k : framed b (dict_lookup ct kvs k) (fun _ => True).
  Proof. unfold dict_lookup. fgo. Qed.
  Lemma dict_assign_framed kvs k v : framed b (dict_assign ct kvs k v) (fun _ => True).
  Proof. unfold dict_assign. fgo. Qed.
  Lemma set_mem_framed xs v : framed b (set_mem ct xs v) (fun _ => True).
  Proof. unfold set_mem. fgo. Qed.
  Lemma set_discard_framed xs v : framed b (set_discard ct xs v) (fun _ => True).
  Proof. unfold set_discard. fgo. Qed.
  Hint Resolve find_eq_index_framed dict_lookup_framed dict_assign_framed set_mem_framed
       set_discard_framed : fr.

  Lemma seq_extractor_framed sp coll voi r bi :
    framed b (seq_extractor ct sp coll voi r bi) (fun _ => True).
  Proof.
    unfold seq_extractor. fstep; [fstep|].
    fbindT; [destruct bi; fgo|]. intros bi' _.
    fbi p Hp. destruct bi'.
    - destruct voi; try apply framed_fail; cbv zeta; fgo.
    - fgo.
  Qed.

  Lemma seq_inserter_framed sp coll index item ins :
    freshv b coll -> framed b (seq_inserter ct sp coll index item ins) (fun _ => True).
  Proof.
    intro H. unfold seq_inserter. fbi ok Hok. destruct (negb ok); [apply framed_fail|].
    fbi p Hp. subst coll. simpl in H.
    destruct index; try apply framed_fail; cbv zeta; fgo; fprim.
  Qed.

  Lemma map_extractor_framed coll key r : framed b (map_extractor ct coll key r) (fun _ => True).
  Proof. unfold map_extractor. fgo. Qed.

  Lemma map_inserter_framed sp coll key item :
    freshv b coll -> framed b (map_inserter ct sp coll key item) (fun _ => True).
  Proof.
    intro H. unfold map_inserter. fbi okk Hokk. destruct (negb okk); [apply framed_fail|].
    fbi ok Hok. destruct (negb ok); [apply framed_fail|].
    fbi p Hp. subst coll. simpl in H. fbi kvs Hk. fprim.
  Qed.

  Lemma set_extractor_framed coll voi r : framed b (set_extractor ct coll voi r) (fun _ => True).
  Proof. unfold set_extractor. fgo. Qed.

  Lemma set_inserter_framed sp coll index item :
    freshv b coll -> framed b (set_inserter ct sp coll index item) (fun _ => True).
  Proof.
    intro H. unfold set_inserter. fbi ok Hok. destruct (negb ok); [apply framed_fail|].
    fbi p Hp. subst coll. simpl in H.
    fbindT; [destruct (negb (is_missing index)); [fprim|now fret]|]. intros xs1 _. fbi b0 Hb0. fprim.
  Qed.

  Lemma create_collection_framed sp : framed b (create_collection rec sp) (freshv b).
  Proof. unfold create_collection. apply instantiate_ty_framed. Qed.
  Hint Resolve create_collection_framed : fr.

  Lemma mutate_collection_framed fam sp inst coll io :
    freshv b coll -> framed b (mutate_collection ct rec fam sp inst coll io) (freshv b).
  Proof.
    intro H. unfold mutate_collection.
    eapply framed_bind with (Q := freshv b).
    { destruct (is_missing coll); [fprim|fret; auto]. }
    intros coll1 H1.
    fbindT.
    { destruct fam; [apply seq_extractor_framed|apply map_extractor_framed|apply set_extractor_framed]. }
    intros ex _. cbv zeta.
    fbindT; [apply rec_framed; reflexivity|]. intros new_item _.
    fbindT.
    { destruct fam; [apply seq_inserter_framed|apply map_inserter_framed|apply set_inserter_framed]; auto. }
    intros _ _. fret. exact H1.
  Qed.

  Lemma add_items_framed fam sp inst coll items :
    freshv b coll -> framed b (add_items ct rec fam sp inst coll items) (freshv b).
  Proof.
    intro H. unfold add_items. destruct items; try apply framed_fail.
    fbi o Ho.
    destruct fam, o; try apply framed_fail;
      (apply framed_foldM with (P := freshv b); [|exact H]; intros; apply mutate_collection_framed; auto).
  Qed.

  Lemma prepare_items_framed fam sp inst coll :
    freshv b coll -> framed b (prepare_items ct rec fam sp inst coll) (freshv b).
  Proof.
    intro H. unfold prepare_items. destruct fam.
    - fbi p Hp. apply framed_foldM with (P := freshv b); [|exact H].
      intros; apply mutate_collection_framed; auto.
    - apply add_items_framed; auto.
    - fbi p Hp. apply framed_foldM with (P := freshv b); [|exact H].
      intros; apply mutate_collection_framed; auto.
  Qed.

  Lemma truthy_collection_framed v : framed b (truthy_collection v) (fun _ => True).
  Proof. unfold truthy_collection. destruct v; fgo. Qed.
  Hint Resolve truthy_collection_framed : fr.

  Lemma coll_prepare_framed sp inst coll :
    framed b (coll_prepare ct rec sp inst coll) (fun _ => True).
  Proof.
    unfold coll_prepare. destruct (family_of (a_ty sp)) as [fam|]; [|now fret].
    fbindT. { destruct coll; try (now fret); (eapply framed_weaken; [apply create_collection_framed|auto]). }
    intros coll1 _. fbi ok Hok. destruct (negb ok).
    - fbind; [apply create_collection_framed|]. intros fresh Hf.
      eapply framed_weaken; [apply add_items_framed; exact Hf|auto].
    - fbi t Ht. destruct (a_prepare_item sp); [|now fret].
      destruct t; [|now fret].
      fbind; [apply loc_of_framed_any|]. intros l _. fbi o Ho. fbi l' Hl'.
      eapply framed_weaken; [apply prepare_items_framed; simpl; exact Hl'|auto].
  Qed.

  Lemma prepare_attr_value_framed sp inst value attrs :
    framed b (prepare_attr_value ct rec sp inst value attrs) (fun _ => True).
  Proof.
    unfold prepare_attr_value.
    assert (H : framed b
      (v <- rec (KMutateValue
                  (mkmv VMissing value false
                        (match a_prepare sp with Some f => PAttr f | None => PNone end)
                        attrs (Some (ctor_of_ty (a_ty sp))) (Some (a_ty sp)) None [] false)) ;;
       if ty_is_collection (a_ty sp) then coll_prepare ct rec sp inst v else ret v) (fun _ => True)).
    { fbindT; [apply rec_framed; reflexivity|]. intros v _.
      destruct (ty_is_collection (a_ty sp)); [apply coll_prepare_framed|now fret]. }
    destruct value; try exact H. now fret.
  Qed.
  Hint Resolve prepare_attr_value_framed : fr.

  Lemma delattr_framed l a force skip : b <= l -> framed b (delattr_ ct rec l a force skip) (fun _ => True).
  Proof.
    intro Hl. unfold delattr_. fstep. fstep.
    fbindT; [fgo|]. intros _ _.
    destruct (if force then None else lookup_attr a1 a) as [sp|].
    - fstep. fstep.
      + fbindT; [fprim|]. intros _ _. fbindT; [fgo; fprim|]. intros; fstep.
      + fbindT; [apply prepare_attr_value_framed|]. intros v _. apply mutate_attr_framed; auto.
    - fbindT; [fprim|]. intros _ _. fbindT; [fgo; fprim|]. intros; fstep.
  Qed.

  Lemma setattr_framed l a v force skip :
    b <= l -> framed b (setattr_ ct rec l a v force skip) (fun _ => True).
  Proof.
    intro Hl. unfold setattr_. fbi p Hp. fbi k Hk.
    fbindT; [destruct (lookup_attr k a); [fprim|now fret]|]. intros value _.
    apply mutate_attr_framed; auto.
  Qed.

  Lemma init_framed c self kw0 : b <= self -> framed b (init_ ct rec c self kw0) (fun _ => True).
  Proof.
    intro Hs. unfold init_. fbi ks Hks. destruct (negb (init_wrapper_ok ks kw0)); [apply framed_fail|].
    fbi p Hp. fbi im Him. cbv zeta.
    fbindT.
    { destruct (c_owner im =? c); [|now fret].
      fbindT; [fprim|]. intros _ _.
      apply framed_foldM with (P := fun _ => True); auto.
      intros kw parent _ _. fbi pk Hpk.
      fbindT.
      { apply framed_foldM with (P := fun _ => True); auto.
        intros [pkw kw'] psp _ _.
        destruct (lookup_attr im (a_name psp)) as [isp|]; [|now fret].
        destruct (negb (a_owner isp =? parent)); [now fret|].
        destruct (assoc (a_name psp) kw').
        - fbindT; [destruct (a_dnc isp); [now fret|eapply framed_weaken; [apply protect_framed; auto|auto]]|].
          intros; now fret.
        - fbi d Hd. destruct (is_missing d); now fret. }
      intros [pkw kw'] _.
      fbindT; [apply rec_framed; exact Hs|]. intros; now fret. }
    intros kw1 _.
    fbindT.
    { apply framed_iterM. intros sp _.
      destruct (negb (a_init sp) || negb (a_owner sp =? c)); [now fret|].
      fbindT.
      { destruct (assoc (a_name sp) kw1) as [v|].
        - destruct (is_missing v); [fbi d Hd; now fret|now fret].
        - fbi d Hd. now fret. }
      intros [value copy_required] _.
      destruct (is_missing value); [now fret|].
      fbindT; [destruct copy_required; [eapply framed_weaken; [apply protect_framed; auto|auto]|now fret]|].
      intros value' _. fbindT; [apply rec_framed; exact Hs|]. intros; now fret. }
    intros _ _.
    fbindT.
    { destruct (c_owner im =? c); [|now fret].
      fbindT; [destruct (c_post_init im); [fbindT; [eapply framed_weaken; [apply framed_apply_fn|auto]|intros; now fret]|now fret]|].
      intros _ _. fprim. }
    intros; now fret.
  Qed.

  Lemma construct_framed c pos kw : framed b (construct ct rec c pos kw) (freshv b).
  Proof.
    unfold construct. fbi k Hk.
    fbindT. { destruct pos; [destruct (c_key k); [destruct (kw_has _ kw)|]|]; fgo. }
    intros kw' _.
    fbindT. { destruct (c_key k) as [ka|]; [|now fret]. destruct (lookup_attr k ka); [|now fret]. fgo. }
    intros _ _.
    fbindT; [fgo|]. intros _ _.
    fbi l Hl. fbindT; [apply rec_framed; exact Hl|]. intros _ _. fret. exact Hl.
  Qed.

  Theorem body_framed k : call_ok k -> framed b (body ct rec k) (post k).
  Proof.
    destruct k; simpl; intro H.
    - apply setattr_framed; auto.
    - apply delattr_framed; auto.
    - apply construct_framed.
    - apply init_framed; auto.
    - apply mutate_value_framed; auto.
  Qed.
End Core.

(* ------------------------------------------------------------------ *)
Section Exec.
  Variable ct : ctable.
  Hypothesis no_dnc : forall c k, lookup_cls ct c = Some k -> c_dnc k = false.
  Variable b : nat.

  Theorem exec_framed fuel : forall k, call_ok b k -> framed b (exec ct fuel k) (post b k).
  Proof.
    induction fuel as [|f IH]; intros k Hk; simpl; [apply framed_fail|].
    apply body_framed; auto.
  Qed.
End Exec.

(* ------------------------------------------------------------------ *)
Section Helpers.
  Variable ct : ctable.
  Hypothesis no_dnc : forall c k, lookup_cls ct c = Some k -> c_dnc k = false.
  Variable b : nat.

  Notation rec := (exec ct XFUEL).
  Let Hrec := exec_framed ct no_dnc b XFUEL.
  Local Opaque exec XFUEL.

  Local Hint Resolve (read_inst_framed b) (cls_of_framed ct no_dnc b) (getattr_default_framed ct no_dnc b)
    (protect_framed ct no_dnc b) (read_list_framed b) (read_dict_framed b) (read_set_framed b)
    (set_discard_framed ct b) : fr.

  Lemma spec_for_framed l a : framed b (spec_for ct l a) (fun _ => True).
  Proof. unfold spec_for. fbi p Hp. fbi k Hk. destruct (lookup_attr k a); fgo. Qed.

  Lemma mk_mutator_framed sp l : framed b (mk_mutator ct sp l false) (freshv b).
  Proof.
    unfold mk_mutator. fbi p Hp. fbi k Hk. fbindT; [fgo|]. intros _ _.
    fbi c Hc. destruct (is_missing c || false) eqn:E.
    - fret. destruct c; simpl in *; auto; discriminate.
    - apply protect_framed; auto.
  Qed.

  Lemma current_value_framed l sp inplace used :
    framed b (current_value ct l sp inplace used) (fun _ => True).
  Proof.
    unfold current_value. fbi v Hv. destruct (inplace || a_dnc sp || negb used); [now fret|].
    eapply framed_weaken; [apply protect_framed; auto|auto].
  Qed.

  Lemma with_attr_framed l sp new attrs :
    framed b (with_attr ct l sp new attrs false) (fun _ => True).
  Proof.
    unfold with_attr. fbindT; [apply prepare_attr_value_framed; auto|]. intros v _.
    apply mutate_attr_framed; auto. discriminate.
  Qed.

  Lemma copy_loc_framed l :
    framed b (v <- deepcopy ct (VRef l) ;; loc_of v) (fun l' => b <= l').
  Proof.
    fbind; [apply deepcopy_framed; auto|]. intros r [l' [-> H]]. simpl. now fret.
  Qed.

  Theorem run_helper_framed l hp h :
    h_inplace h = false -> framed b (run_helper ct l hp h) (fun _ => True).
  Proof.
    intro Hin. unfold run_helper. destruct (negb (h_if h)); [now fret|]. rewrite Hin.
    destruct hp.
    - (* HWith *) fbindT; [apply spec_for_framed|]. intros r _. apply with_attr_framed.
    - (* HUpdate *)
      assert (H : forall p0, framed b
        (r <- spec_for ct l a ;; let sp := snd r in
         old <- current_value ct l sp false (is_sentinel p0) ;;
         v <- rec (KMutateValue (mkmv old p0 false PNone (h_kw h)
                                      (Some (ctor_of_ty (a_ty sp))) (Some (a_ty sp)) None [] false)) ;;
         with_attr ct l sp v None false) (fun _ => True)).
      { intro p0. fbindT; [apply spec_for_framed|]. intros r _. cbv zeta.
        fbindT; [apply current_value_framed|]. intros old _.
        fbindT; [eapply framed_weaken; [apply Hrec; reflexivity|auto]|]. intros v _.
        apply with_attr_framed. }
      destruct (pos0 h) eqn:Ep; try apply H. now fret.
    - (* HTransform *) fbindT; [apply spec_for_framed|]. intros r _. cbv zeta.
      fbindT; [apply current_value_framed|]. intros old _.
      fbindT; [eapply framed_weaken; [apply Hrec; reflexivity|auto]|]. intros v _.
      apply with_attr_framed.
    - (* HReset *) simpl. fbind; [apply copy_loc_framed|]. intros l' Hl'.
      fbindT; [|intros; now fret].
      apply thawed_framed; auto. eapply framed_weaken; [apply Hrec; exact Hl'|auto].
    - (* HWithItem *) fbindT; [apply spec_for_framed|]. intros r _. cbv zeta.
      fbind; [apply mk_mutator_framed|]. intros c Hc.
      fbindT.
      { destruct (family_of (a_ty (snd r))) as [[| |]|]; try apply framed_fail;
          (eapply framed_weaken; [apply mutate_collection_framed; auto|auto]). }
      intros c' _. apply mutate_attr_framed; auto. discriminate.
    - (* HUpdateItem *) fbindT; [apply spec_for_framed|]. intros r _. cbv zeta.
      fbind; [apply mk_mutator_framed|]. intros c Hc.
      fbindT.
      { destruct (family_of (a_ty (snd r))) as [[| |]|]; try apply framed_fail;
          (eapply framed_weaken; [apply mutate_collection_framed; auto|auto]). }
      intros c' _. apply mutate_attr_framed; auto. discriminate.
    - (* HTransformItem *) fbindT; [apply spec_for_framed|]. intros r _. cbv zeta.
      fbind; [apply mk_mutator_framed|]. intros c Hc.
      fbindT.
      { destruct (family_of (a_ty (snd r))) as [fam|]; try apply framed_fail;
          (eapply framed_weaken; [apply mutate_collection_framed; auto|auto]). }
      intros c' _. apply mutate_attr_framed; auto. discriminate.
    - (* HWithoutItem *) fbindT; [apply spec_for_framed|]. intros r _. cbv zeta.
      fbind; [apply mk_mutator_framed|]. intros c0 Hc0.
      eapply framed_bind with (Q := freshv b).
      { destruct (is_missing c0); [apply create_collection_framed; auto|now fret]. }
      intros c Hc.
      fbindT.
      { destruct (family_of (a_ty (snd r))) as [[| |]|]; try apply framed_fail.
        - fbindT; [apply seq_extractor_framed|]. intros ex _.
          destruct (fst ex); try apply framed_fail; try (now fret); cbv zeta.
          + fbi p Hp. subst c. simpl in Hc. fgo. fprim.
          + fbi p Hp. subst c. simpl in Hc. fgo. fprim.
        - fbindT; [apply map_extractor_framed|]. intros ex _.
          fbi p Hp. subst c. simpl in Hc. fbi h' Hh. fprim.
        - fbindT; [apply set_extractor_framed|]. intros ex _.
          fbi p Hp. subst c. simpl in Hc. fbi xs Hxs. fprim. }
      intros _ _. apply mutate_attr_framed; auto. discriminate.
    - (* HUpdateTop *) eapply framed_weaken; [apply Hrec; reflexivity|auto].
    - (* HTransformTop *) eapply framed_weaken; [apply Hrec; reflexivity|auto].
    - (* HResetTop *) simpl. fbind; [apply copy_loc_framed|]. intros l' Hl'.
      fbi p Hp. fbi k Hk. fbindT; [|intros; now fret].
      apply thawed_framed; auto. apply framed_iterM. intros sp _.
      apply framed_catch; [|now fret].
      fbindT; [eapply framed_weaken; [apply Hrec; exact Hl'|auto]|]. intros; now fret.
  Qed.

  (* the operations that must never write a pre-existing cell *)
  Definition cow_op (o : op) : bool :=
    match o with
    | OpHelper _ _ h => negb (h_inplace h)
    | OpDeepCopy _ | OpConstruct _ _ _ | OpAlloc _ => true
    | _ => false
    end.

  Theorem step_framed roots o : cow_op o = true -> framed b (step ct roots o) (fun _ => True).
  Proof.
    destruct o; simpl; intro H; try discriminate.
    - eapply framed_weaken; [apply Hrec; exact I|auto].
    - fbind; [apply loc_of_framed_any|]. intros l _. apply run_helper_framed.
      now apply negb_true_iff in H.
    - eapply framed_weaken; [apply deepcopy_framed; auto|auto].
    - fbi l Hl. now fret.
  Qed.
End Helpers.
