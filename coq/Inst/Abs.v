(* Abstract, identity-free values.  `abs h v` unfolds the object graph below
   a heap value into a tree: scalars stay, a list becomes the list of its
   abstracted elements, a dict an association list in insertion order, a set
   a canonically ordered duplicate-free list, an instance its class id and
   its fields sorted by attribute id.  Sharing is forgotten; a cycle (or a
   dangling reference) shows up as ABad once the fuel is used up.  The
   specification of the helper methods (Inst/SpecHelpers.v) is written over
   these trees only. *)
From Coq Require Import List ZArith Bool Arith Lia.
From SC Require Import Base.Res Inst.Heap Inst.Canon.
Import ListNotations.
Open Scope nat_scope.

Inductive aval :=
| AMissing | AEmpty | AUnchanged                 (* sentinels *)
| ANone | ABool (b : bool) | AInt (z : Z) | AStr (z : Z) | AAtom (z : Z)
| AList (xs : list aval)
| ADict (kvs : list (aval * aval))               (* insertion order *)
| ASet (xs : list aval)                          (* canonical order, no duplicates *)
| AInst (c : cid) (d : list (aid * aval))        (* fields sorted by attribute id *)
| ABad.                                          (* cycle / dangling reference *)

(* scalars *)
Definition abs0 (v : val) : aval :=
  match v with
  | VMissing => AMissing | VEmpty => AEmpty | VUnchanged => AUnchanged
  | VNone => ANone | VBool b => ABool b | VInt z => AInt z | VStr z => AStr z
  | VAtom z => AAtom z
  | VRef _ => ABad
  end.

Fixpoint abs (fuel : nat) (h : list obj) (v : val) : aval :=
  match v with
  | VRef l =>
      match fuel with
      | O => ABad
      | S f =>
          match nth_error h l with
          | Some (OList xs) => AList (map (abs f h) xs)
          | Some (ODict kvs) => ADict (map (fun p => (abs f h (fst p), abs f h (snd p))) kvs)
          | Some (OSet xs) => ASet (map (abs f h) (sort_by atom_key xs))
          | Some (OInst c d) => AInst c (map (fun p => (fst p, abs f h (snd p))) (sorted_fields d))
          | None => ABad
          end
      end
  | _ => abs0 v
  end.

Definition AFUEL : nat := 24.
Definition absv (h : list obj) (v : val) : aval := abs AFUEL h v.

(* ---------- no ABad anywhere: the graph below v is acyclic, closed, and
   not deeper than the fuel ---------- *)
Fixpoint aok (a : aval) : bool :=
  match a with
  | ABad => false
  | AList xs => forallb aok xs
  | ADict kvs => forallb (fun p => aok (fst p) && aok (snd p)) kvs
  | ASet xs => forallb aok xs
  | AInst _ d => forallb (fun p => aok (snd p)) d
  | _ => true
  end.

(* ---------- syntactic equality of abstract values ---------- *)
Section ListEq.
  Context {A : Type} (e : A -> A -> bool).
  Fixpoint leqb (a b : list A) : bool :=
    match a, b with
    | [], [] => true
    | x :: a', y :: b' => e x y && leqb a' b'
    | _, _ => false
    end.
End ListEq.

Fixpoint aval_eqb (a b : aval) {struct a} : bool :=
  match a, b with
  | AMissing, AMissing | AEmpty, AEmpty | AUnchanged, AUnchanged | ANone, ANone | ABad, ABad => true
  | ABool x, ABool y => Bool.eqb x y
  | AInt x, AInt y => Z.eqb x y
  | AStr x, AStr y => Z.eqb x y
  | AAtom x, AAtom y => Z.eqb x y
  | AList xs, AList ys => (fix go (xs ys : list aval) {struct xs} : bool :=
                             match xs, ys with
                             | [], [] => true
                             | x :: xs', y :: ys' => aval_eqb x y && go xs' ys'
                             | _, _ => false end) xs ys
  | ASet xs, ASet ys => (fix go (xs ys : list aval) {struct xs} : bool :=
                           match xs, ys with
                           | [], [] => true
                           | x :: xs', y :: ys' => aval_eqb x y && go xs' ys'
                           | _, _ => false end) xs ys
  | ADict xs, ADict ys => (fix go (xs ys : list (aval * aval)) {struct xs} : bool :=
                             match xs, ys with
                             | [], [] => true
                             | x :: xs', y :: ys' => aval_eqb (fst x) (fst y) && aval_eqb (snd x) (snd y) && go xs' ys'
                             | _, _ => false end) xs ys
  | AInst c xs, AInst d ys => (c =? d) &&
                              (fix go (xs ys : list (aid * aval)) {struct xs} : bool :=
                                 match xs, ys with
                                 | [], [] => true
                                 | x :: xs', y :: ys' => (fst x =? fst y) && aval_eqb (snd x) (snd y) && go xs' ys'
                                 | _, _ => false end) xs ys
  | _, _ => false
  end.

(* a stronger induction principle for the nested inductive *)
Section AvalInd.
  Variable P : aval -> Prop.
  Hypothesis Hm : P AMissing.
  Hypothesis He : P AEmpty.
  Hypothesis Hu : P AUnchanged.
  Hypothesis Hn : P ANone.
  Hypothesis Hb : forall b, P (ABool b).
  Hypothesis Hi : forall z, P (AInt z).
  Hypothesis Hs : forall z, P (AStr z).
  Hypothesis Ha : forall z, P (AAtom z).
  Hypothesis Hl : forall xs, Forall P xs -> P (AList xs).
  Hypothesis Hd : forall kvs, Forall (fun p => P (fst p) /\ P (snd p)) kvs -> P (ADict kvs).
  Hypothesis Hst : forall xs, Forall P xs -> P (ASet xs).
  Hypothesis Hin : forall c d, Forall (fun p => P (snd p)) d -> P (AInst c d).
  Hypothesis Hbad : P ABad.

  Fixpoint aval_ind' (a : aval) : P a :=
    match a with
    | AMissing => Hm | AEmpty => He | AUnchanged => Hu | ANone => Hn
    | ABool b => Hb b | AInt z => Hi z | AStr z => Hs z | AAtom z => Ha z
    | AList xs => Hl xs ((fix go (l : list aval) : Forall P l :=
                            match l with [] => Forall_nil _ | x :: t => Forall_cons _ (aval_ind' x) (go t) end) xs)
    | ADict kvs => Hd kvs ((fix go (l : list (aval * aval)) : Forall (fun p => P (fst p) /\ P (snd p)) l :=
                              match l with
                              | [] => Forall_nil _
                              | x :: t => Forall_cons _ (conj (aval_ind' (fst x)) (aval_ind' (snd x))) (go t) end) kvs)
    | ASet xs => Hst xs ((fix go (l : list aval) : Forall P l :=
                            match l with [] => Forall_nil _ | x :: t => Forall_cons _ (aval_ind' x) (go t) end) xs)
    | AInst c d => Hin c d ((fix go (l : list (aid * aval)) : Forall (fun p => P (snd p)) l :=
                               match l with [] => Forall_nil _ | x :: t => Forall_cons _ (aval_ind' (snd x)) (go t) end) d)
    | ABad => Hbad
    end.
End AvalInd.

Lemma aval_eqb_refl a : aval_eqb a a = true.
Proof.
  induction a using aval_ind'; simpl; auto using Bool.eqb_reflx, Z.eqb_refl.
  - induction H; simpl; auto. rewrite H. exact IHForall.
  - induction H; simpl; auto. destruct H as [H1 H2]. rewrite H1, H2. exact IHForall.
  - induction H; simpl; auto. rewrite H. exact IHForall.
  - rewrite Nat.eqb_refl. simpl. induction H; simpl; auto. rewrite Nat.eqb_refl, H. exact IHForall.
Qed.

Lemma aval_eqb_eq a : forall b, aval_eqb a b = true -> a = b.
Proof.
  induction a using aval_ind'; intros [] E; simpl in E; try discriminate; auto.
  - apply Bool.eqb_prop in E. now subst.
  - apply Z.eqb_eq in E. now subst.
  - apply Z.eqb_eq in E. now subst.
  - apply Z.eqb_eq in E. now subst.
  - f_equal. revert xs0 E. induction H; intros [|y ys] E; try discriminate; auto.
    apply andb_true_iff in E. destruct E as [E1 E2]. f_equal; auto.
  - f_equal. revert kvs0 E. induction H; intros [|y ys] E; try discriminate; auto.
    apply andb_true_iff in E. destruct E as [E1 E2]. apply andb_true_iff in E1. destruct E1 as [E0 E1].
    destruct H as [H1 H2]. f_equal; auto. destruct x, y; simpl in *. f_equal; auto.
  - f_equal. revert xs0 E. induction H; intros [|y ys] E; try discriminate; auto.
    apply andb_true_iff in E. destruct E as [E1 E2]. f_equal; auto.
  - apply andb_true_iff in E. destruct E as [Ec E]. apply Nat.eqb_eq in Ec. subst. f_equal.
    revert d0 E. induction H; intros [|y ys] E; try discriminate; auto.
    apply andb_true_iff in E. destruct E as [E1 E2]. apply andb_true_iff in E1. destruct E1 as [E0 E1].
    apply Nat.eqb_eq in E0. f_equal; auto. destruct x, y; simpl in *. f_equal; auto.
Qed.

(* ---------- abs and the heap ---------- *)

Lemma abs_nonref fuel h v : match v with VRef _ => False | _ => True end -> abs fuel h v = abs0 v.
Proof. destruct fuel, v; intros H; try reflexivity; destruct H. Qed.

(* references stored in an object *)
Definition refs_of (o : obj) : list val :=
  match o with
  | OList xs => xs
  | ODict kvs => flat_map (fun p => [fst p; snd p]) kvs
  | OSet xs => xs
  | OInst _ d => map snd d
  end.

Definition val_below (b : nat) (v : val) : Prop :=
  match v with VRef l => l < b | _ => True end.

(* every cell below b only refers to cells below b *)
Definition closed (b : nat) (h : list obj) : Prop :=
  forall l o, l < b -> nth_error h l = Some o -> Forall (val_below b) (refs_of o).

Definition agree (b : nat) (h h' : list obj) : Prop :=
  forall l, l < b -> nth_error h' l = nth_error h l.

Lemma Forall_insert_by {A} (key : A -> Z) (P : A -> Prop) x l :
  P x -> Forall P l -> Forall P (insert_by key x l).
Proof.
  intros Hx Hl. induction Hl; simpl; auto.
  destruct (key x <=? key x0)%Z; auto.
Qed.

Lemma Forall_sort_by {A} (key : A -> Z) (P : A -> Prop) l :
  Forall P l -> Forall P (sort_by key l).
Proof.
  induction 1; simpl; auto. apply Forall_insert_by; auto.
Qed.

Lemma In_insert_by {A} (key : A -> Z) x y (l : list A) :
  In y (insert_by key x l) <-> y = x \/ In y l.
Proof.
  induction l as [|z l IH]; simpl.
  - intuition.
  - destruct (key x <=? key z)%Z; simpl; [intuition|]. rewrite IH. intuition.
Qed.

Lemma In_sort_by {A} (key : A -> Z) y (l : list A) : In y (sort_by key l) <-> In y l.
Proof.
  induction l as [|z l IH]; simpl; [tauto|]. rewrite In_insert_by, IH. intuition.
Qed.

(* abs only looks at cells below a closed watermark *)
Lemma abs_agree b h h' : closed b h -> agree b h h' ->
  forall fuel v, val_below b v -> abs fuel h' v = abs fuel h v.
Proof.
  intros Hc Ha. induction fuel as [|f IH]; intros v Hv; destruct v; simpl; auto.
  simpl in Hv. rewrite (Ha l Hv).
  destruct (nth_error h l) as [o|] eqn:E; auto.
  pose proof (Hc l o Hv E) as Hr. destruct o; simpl in Hr.
  - f_equal. apply map_ext_in. intros x Hx. apply IH. rewrite Forall_forall in Hr. auto.
  - f_equal. apply map_ext_in. intros [k v] Hx. rewrite Forall_forall in Hr. simpl.
    f_equal; apply IH; apply Hr; apply in_flat_map; exists (k, v); simpl; auto.
  - f_equal. apply map_ext_in. intros x Hx. apply IH. rewrite Forall_forall in Hr.
    apply Hr. now apply In_sort_by in Hx.
  - f_equal. apply map_ext_in. intros [a x] Hx. simpl. f_equal. apply IH.
    rewrite Forall_forall in Hr. apply Hr. unfold sorted_fields in Hx. apply In_sort_by in Hx.
    apply in_map_iff. exists (a, x). auto.
Qed.

(* a successful abstraction does not depend on extra fuel *)
Lemma aok_mono : forall fuel h v, aok (abs fuel h v) = true -> abs (S fuel) h v = abs fuel h v.
Proof.
  induction fuel as [|f IH]; intros h v H.
  - destruct v; simpl in *; auto; discriminate.
  - destruct v; try reflexivity.
    change (abs (S (S f)) h (VRef l)) with
      (match nth_error h l with
       | Some (OList xs) => AList (map (abs (S f) h) xs)
       | Some (ODict kvs) => ADict (map (fun p => (abs (S f) h (fst p), abs (S f) h (snd p))) kvs)
       | Some (OSet xs) => ASet (map (abs (S f) h) (sort_by atom_key xs))
       | Some (OInst c d) => AInst c (map (fun p => (fst p, abs (S f) h (snd p))) (sorted_fields d))
       | None => ABad end).
    change (abs (S f) h (VRef l)) with
      (match nth_error h l with
       | Some (OList xs) => AList (map (abs f h) xs)
       | Some (ODict kvs) => ADict (map (fun p => (abs f h (fst p), abs f h (snd p))) kvs)
       | Some (OSet xs) => ASet (map (abs f h) (sort_by atom_key xs))
       | Some (OInst c d) => AInst c (map (fun p => (fst p, abs f h (snd p))) (sorted_fields d))
       | None => ABad end) in *.
    destruct (nth_error h l) as [[xs|kvs|xs|c d]|]; simpl in H; auto.
    + f_equal. apply map_ext_in. intros x Hx. apply IH.
      rewrite forallb_forall in H. apply H. now apply in_map.
    + f_equal. apply map_ext_in. intros p Hp. rewrite forallb_forall in H.
      specialize (H _ (in_map _ _ _ Hp)). simpl in H. apply andb_true_iff in H. destruct H.
      f_equal; apply IH; auto.
    + f_equal. apply map_ext_in. intros x Hx. apply IH.
      rewrite forallb_forall in H. apply H. now apply in_map.
    + f_equal. apply map_ext_in. intros p Hp. rewrite forallb_forall in H.
      specialize (H _ (in_map _ _ _ Hp)). simpl in H. f_equal. apply IH; auto.
Qed.

Lemma aok_mono_le fuel h v n : aok (abs fuel h v) = true -> abs (n + fuel) h v = abs fuel h v.
Proof.
  intro H. induction n as [|n IH]; auto. simpl plus.
  rewrite aok_mono; auto. now rewrite IH.
Qed.
