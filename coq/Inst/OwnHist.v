(* C03, ownership: histories.  The invariant TypeInv /\ Owned is inductive: a history of
   operations each of which is covered (computable guard evaluated in the state in which it
   starts) preserves it.  Same bookkeeping as Corr/InstCorr.trace and SepProofs.run_ops:
   callback counter reset, failure point set, the result appended to the roots. *)
From Coq Require Import List ZArith Bool Arith Lia.
From SC Require Import Base.Res Base.PyList Inst.Heap Inst.ClassTable Inst.Model Inst.Framed
  Inst.TypeProofs Inst.OwnProofs Inst.OwnProofs2 Inst.OwnAll.
Import ListNotations.
Open Scope nat_scope.

Fixpoint run_hist (ct : ctable) (s : state) (roots : list val) (ops : list (op * option nat))
  : state * list val :=
  match ops with
  | [] => (s, roots)
  | (o, fa) :: t =>
      let '(r, s') := step ct roots o (mkst (heap s) 0 fa) in
      run_hist ct s' (roots ++ [match r with Ok v => v | Err _ => VNone end]) t
  end.

(* every operation of the history is covered in the state in which it starts *)
Fixpoint hist_covered (ct : ctable) (s : state) (roots : list val) (ops : list (op * option nat)) : bool :=
  match ops with
  | [] => true
  | (o, fa) :: t =>
      owned_opi_b ct (heap s) roots o &&
      let '(r, s') := step ct roots o (mkst (heap s) 0 fa) in
      hist_covered ct s' (roots ++ [match r with Ok v => v | Err _ => VNone end]) t
  end.

Theorem history_preserves_owned ct :
  flat_table ct -> inval_ok_b ct = true -> no_reserved_b ct = true ->
  forall ops s roots,
    hist_covered ct s roots ops = true ->
    TypeInv ct s -> Owned ct (heap s) ->
    TypeInv ct (fst (run_hist ct s roots ops)) /\ Owned ct (heap (fst (run_hist ct s roots ops))).
Proof.
  intros Hf Hn Hr. induction ops as [|[o fa] t IH]; intros s roots Hc T O; simpl in *; auto.
  apply andb_true_iff in Hc. destruct Hc as [H1 H2].
  pose proof (step_preserves_owned_i ct roots o (mkst (heap s) 0 fa) Hf Hn Hr H1 T O) as [T1 O1].
  destruct (step ct roots o (mkst (heap s) 0 fa)) as [r s'] eqn:E. simpl in T1, O1.
  apply IH; auto.
Qed.
