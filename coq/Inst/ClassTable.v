(* Class tables (resolved spec-class metadata), annotations, user callbacks. *)
From Coq Require Import List ZArith Bool Arith.
From SC Require Import Base.Res Inst.Heap.
Import ListNotations.

Inductive ty :=
| TAny | TInt | TStr | TBool | TNoneT
| TOpt (t : ty)
| TUnion (a b : ty)
| TList (t : ty) | TDict (k v : ty) | TSet (t : ty)
| TSpec (c : cid).

(* user callbacks: a finite pool with executable semantics (see Callbacks.apply_fn) *)
Inductive fn :=
| FId                      (* lambda x: x *)
| FAddInt (z : Z)          (* lambda x: x + z          (TypeError unless int) *)
| FConst (v : val)         (* lambda x: <scalar> *)
| FNewList (xs : list val) (* lambda x: [<scalars>]    (fresh list) *)
| FAppended (v : val)      (* lambda x: x + [v]        (fresh list; TypeError unless list) *)
| FDictOf (k : Z) (v : val)(* lambda x: {"k": v}       (fresh dict) *)
| FRaise.                  (* raises *)

(* default_factory pool *)
Inductive fac :=
| FacList (xs : list val) | FacDict (kvs : list (val * val)) | FacSet (xs : list val)
| FacInst (c : cid).       (* lambda: C() *)

Record attr_spec := mkattr {
  a_name : aid;
  a_ty : ty;
  a_default : val;              (* class-level default object (VMissing: none); lives in the heap if mutable *)
  a_factory : option fac;
  a_owner : cid;
  a_init : bool;
  a_dnc : bool;                 (* do_not_copy *)
  a_prepare : option fn;        (* _prepare_<attr> *)
  a_prepare_item : option fn;   (* _prepare_<item> *)
  a_inv_by : list aid;          (* invalidated_by *)
}.

Record cls := mkcls {
  c_id : cid;
  c_attrs : list attr_spec;     (* resolved, in metadata order (inherited first) *)
  c_frozen : bool;
  c_dnc : bool;                 (* do_not_copy=True on the class *)
  c_key : option aid;
  c_mro : list cid;             (* spec classes of the MRO, self first *)
  c_owner : cid;                (* the spec class whose metadata the class uses (itself unless plain subclass) *)
  c_overrides : list (aid * val); (* class-dict entries of a plain subclass overriding defaults *)
  c_post_init : option fn;      (* __post_init__: applied to nothing, only counted / may raise *)
  c_post_copy : option fn;
}.

Definition ctable := list cls.

Definition lookup_cls (ct : ctable) (c : cid) : option cls :=
  find (fun k => c_id k =? c) ct.

Definition lookup_attr (k : cls) (a : aid) : option attr_spec :=
  find (fun s => a_name s =? a) (c_attrs k).

Definition is_subclass (ct : ctable) (c1 c2 : cid) : bool :=
  match lookup_cls ct c1 with
  | Some k => existsb (fun c => c =? c2) (c_mro k)
  | None => false
  end.

(* attribute ids reserved for bookkeeping entries of the instance dict *)
Definition A_INITIALIZING : aid := 0.   (* __spec_class_initializing__ *)

Definition ty_is_list (t : ty) := match t with TList _ => true | _ => false end.
Definition ty_is_dict (t : ty) := match t with TDict _ _ => true | _ => false end.
Definition ty_is_set (t : ty) := match t with TSet _ => true | _ => false end.
Definition ty_is_collection (t : ty) := ty_is_list t || ty_is_dict t || ty_is_set t.

(* Attr.item_type *)
Definition item_type (t : ty) : ty :=
  match t with TList i => i | TDict _ v => v | TSet i => i | _ => TAny end.

(* get_spec_class_for_type(..., allow_polymorphic=True) restricted to the grammar *)
Definition spec_of_ty (t : ty) : option cid :=
  match t with
  | TSpec c => Some c
  | TOpt (TSpec c) => Some c
  | TUnion (TSpec c) (TSpec _) => None
  | TUnion (TSpec c) _ => Some c
  | TUnion _ (TSpec c) => Some c
  | _ => None
  end.
(* get_spec_class_for_type(...) (non polymorphic) *)
Definition spec_of_ty_strict (t : ty) : option cid :=
  match t with TSpec c => Some c | _ => None end.
