(* C03, ownership, part 4: the three collection families.

   Generalises OwnProofs2/3 (lists) to leaf collection attributes of every
   family: List[e], Set[e], Dict[k,e] with scalar k, e, no preparers, table
   without invalidated_by.  Operations: obj.a = v, with_<a>(v, _inplace=True)
   (argument nobody references), with_<item>(..., _inplace=True) and
   without_<item>(..., _inplace=True) (any arguments). *)
From Coq Require Import List ZArith Bool Arith Lia.
From SC Require Import Base.Res Base.PyList Inst.Heap Inst.ClassTable Inst.Model Inst.Framed
  Inst.TypeProofs Inst.OwnProofs Inst.OwnProofs2 Inst.OwnProofs3.
Import ListNotations.
Open Scope nat_scope.
Set Warnings "-unused-intro-pattern".
#[local] Opaque FUEL.

Definition nonref (v : val) : Prop := forall c, v <> VRef c.

Lemma norefs_list xs : norefs (OList xs) -> forall x, In x xs -> nonref x.
Proof. intros H x Hx c ->. exact (H c Hx). Qed.
Lemma norefs_set xs : norefs (OSet xs) -> forall x, In x xs -> nonref x.
Proof. intros H x Hx c ->. exact (H c Hx). Qed.
Lemma norefs_dict kvs : norefs (ODict kvs) -> forall p, In p kvs -> nonref (fst p) /\ nonref (snd p).
Proof.
  intros H p Hp. split; intros c E; apply (H c); simpl; apply in_or_app; [left|right];
    apply in_map_iff; exists p; auto.
Qed.

Lemma nonref_is_ref c v : nonref v -> is_ref c v = false.
Proof. intro H. destruct v; auto. exfalso. now apply (H l). Qed.


Lemma forallb_ext_in {A} (f g : A -> bool) l : (forall x, In x l -> f x = g x) -> forallb f l = forallb g l.
Proof. induction l; simpl; auto. intro H. rewrite H, IHl; auto. Qed.



Lemma check_nonref_heap ct f : forall t v h h', nonref v ->
  check_type f ct h v t = check_type f ct h' v t.
Proof.
  induction f as [|f IH]; intros t v h h' Hv; simpl; auto.
  destruct t; auto.
  - destruct v; auto; apply IH; auto.
  - f_equal; auto.
  - destruct v; auto. exfalso. eapply Hv; reflexivity.
  - destruct v; auto. exfalso. eapply Hv; reflexivity.
  - destruct v; auto. exfalso. eapply Hv; reflexivity.
  - destruct v; auto. exfalso. eapply Hv; reflexivity.
Qed.

(* a cell with the same reference-free content conforms to the same annotations *)
Lemma check_same_content ct f : forall t h h' lx l' o,
  nth_error h lx = Some o -> nth_error h' l' = Some o -> norefs o -> shape o < 3 ->
  check_type f ct h (VRef lx) t = check_type f ct h' (VRef l') t.
Proof.
  induction f as [|f IH]; intros t h h' lx l' o N N' Nr So; simpl; auto.
  destruct t; auto.
  - eapply IH; eauto.
  - f_equal; eapply IH; eauto.
  - rewrite N, N'. destruct o; auto. apply forallb_ext_in. intros x Hx.
    apply check_nonref_heap. eapply norefs_list; eauto.
  - rewrite N, N'. destruct o; auto. apply forallb_ext_in. intros p Hp.
    destruct (norefs_dict _ Nr p Hp). f_equal; apply check_nonref_heap; auto.
  - rewrite N, N'. destruct o; auto. apply forallb_ext_in. intros x Hx.
    apply check_nonref_heap. eapply norefs_set; eauto.
  - rewrite N, N'. destruct o; auto.
Qed.

(* a leaf collection attribute: List/Set/Dict of scalars; its preparers, if any, are quiet
   callbacks (qfn: they read nothing from the heap, allocate at most a container of scalars) *)
Definition leaf_coll (sp : attr_spec) (fam : family) : Prop :=
  family_of (a_ty sp) = Some fam /\ scalar_coll (a_ty sp) = true /\ shallow (a_ty sp) /\
  oqfn (a_prepare sp) /\ oqfn (a_prepare_item sp).

(* element operations: with / update / remove forms (no transform), or the item-preparer
   transform used by CollectionAttrMutator.prepare *)
Definition io_plainx (sp : attr_spec) (io : item_op) : Prop :=
  io_attrs io = None /\ io_attr_transforms io = [] /\
  (io_transform io = None \/ (exists inst, io_transform io = Some (XPrepItem, Some (sp, inst))) \/
   exists f, io_transform io = Some (XFn f, None) /\ qfn f).

Lemma io_plain_x sp io : io_plain io -> io_plainx sp io.
Proof. intros (H1 & H2 & H3). split; auto. Qed.


Definition empty_of (fam : family) : obj :=
  match fam with FSeq => OList [] | FMap => ODict [] | FSet => OSet [] end.

Lemma scalar_coll_flat' t : scalar_coll t = true -> flat t = true.
Proof. intro H. unfold flat. rewrite (scalar_coll_flat t H). apply orb_true_r. Qed.

Lemma hpure_read_dict v : hpure (read_dict v).
Proof. unfold read_dict. apply hpure_bind; [apply hpure_loc_of_t|]. intros. hpgo. Qed.
Lemma hpure_read_set v : hpure (read_set v).
Proof. unfold read_set. apply hpure_bind; [apply hpure_loc_of_t|]. intros. hpgo. Qed.
Lemma hpure_dict_lookup ct kvs k : hpure (dict_lookup ct kvs k).
Proof. unfold dict_lookup. destruct (negb (hashable k)); [apply hpure_fail|]. intro s. reflexivity. Qed.
Lemma hpure_set_mem ct xs v : hpure (set_mem ct xs v).
Proof. unfold set_mem. destruct (negb (hashable v)); [apply hpure_fail|]. intro s. reflexivity. Qed.
Lemma hpure_set_discard ct xs v : hpure (set_discard ct xs v).
Proof. unfold set_discard. destruct (negb (hashable v)); [apply hpure_fail|]. intro s. reflexivity. Qed.
#[export] Hint Resolve hpure_read_dict hpure_read_set hpure_dict_lookup hpure_set_mem hpure_set_discard : hp.

Lemma hpure_map_extractor ct coll key r : hpure (map_extractor ct coll key r).
Proof.
  unfold map_extractor. apply hpure_bind; [apply hpure_read_dict|]. intros p.
  apply hpure_bind; [apply hpure_dict_lookup|]. intros x. hpgo.
Qed.
Lemma hpure_set_extractor ct coll voi r : hpure (set_extractor ct coll voi r).
Proof.
  unfold set_extractor. apply hpure_bind; [apply hpure_read_set|]. intros p.
  apply hpure_bind; [apply hpure_set_mem|]. intros x. hpgo.
Qed.
#[export] Hint Resolve hpure_map_extractor hpure_set_extractor : hp.

Section Colls.
  Variable ct : ctable.
  Hypothesis Hflat : flat_table ct.
  Hypothesis Hninv : inval_spec ct.
  Variable rec : call -> M val.
  Hypothesis Hrec_mv : forall m F, astable F -> mv_plain m ->
    T (IF ct F) (rec (KMutateValue m)) (fun r h => IF ct F h /\ mv_res m r h) (IF ct F).
  Notation IF := (IF ct).
  Notation Inv := (Inv ct).

  Definition conf (h : heap_t) (v : val) (sp : attr_spec) : Prop :=
    check_type FUEL ct h v (a_ty sp) = true.

  (* a cell that conforms to a scalar collection annotation holds no reference *)
  Lemma conf_norefs h fc t o :
    scalar_coll t = true -> check_type FUEL ct h (VRef fc) t = true ->
    nth_error h fc = Some o -> norefs o /\ shape o < 3.
  Proof.
    intros St C N. destruct FUEL_SS as [f Ef]. rewrite Ef in C.
    destruct t; simpl in St; try discriminate.
    - change (match nth_error h fc with
              | Some (OList xs) => forallb (fun x => check_type (S f) ct h x t) xs
              | _ => false end = true) in C.
      rewrite N in C. destruct o; try discriminate. split; [|simpl; lia]. intros c I. simpl in I.
      rewrite forallb_forall in C. specialize (C _ I). cbv beta in C.
      exact (scalar_check_noref ct h (S f) t (VRef c) St C c eq_refl).
    - apply andb_true_iff in St. destruct St as [S1 S2].
      change (match nth_error h fc with
              | Some (ODict kvs) => forallb (fun p => check_type (S f) ct h (fst p) t1
                                                     && check_type (S f) ct h (snd p) t2) kvs
              | _ => false end = true) in C.
      rewrite N in C. destruct o; try discriminate. split; [|simpl; lia]. intros c I. simpl in I.
      rewrite forallb_forall in C. apply in_app_or in I.
      destruct I as [I|I]; apply in_map_iff in I; destruct I as [p [E Hp]];
        specialize (C _ Hp); cbv beta in C; apply andb_true_iff in C; destruct C as [C1 C2].
      + rewrite E in C1. exact (scalar_check_noref ct h (S f) t1 (VRef c) S1 C1 c eq_refl).
      + rewrite E in C2. exact (scalar_check_noref ct h (S f) t2 (VRef c) S2 C2 c eq_refl).
    - change (match nth_error h fc with
              | Some (OSet xs) => forallb (fun x => check_type (S f) ct h x t) xs
              | _ => false end = true) in C.
      rewrite N in C. destruct o; try discriminate. split; [|simpl; lia]. intros c I. simpl in I.
      rewrite forallb_forall in C. specialize (C _ I). cbv beta in C.
      exact (scalar_check_noref ct h (S f) t (VRef c) St C c eq_refl).
  Qed.

  Lemma empty_conforms h fc t fam :
    family_of t = Some fam -> nth_error h fc = Some (empty_of fam) ->
    check_type FUEL ct h (VRef fc) t = true.
  Proof.
    intros Hf N. destruct FUEL_SS as [f Ef]. rewrite Ef.
    destruct t; simpl in Hf; try discriminate; inversion Hf; subst fam; simpl in N.
    - change (match nth_error h fc with
              | Some (OList xs) => forallb (fun x => check_type (S f) ct h x t) xs
              | _ => false end = true). now rewrite N.
    - change (match nth_error h fc with
              | Some (ODict kvs) => forallb (fun p => check_type (S f) ct h (fst p) t1
                                                     && check_type (S f) ct h (snd p) t2) kvs
              | _ => false end = true). now rewrite N.
    - change (match nth_error h fc with
              | Some (OSet xs) => forallb (fun x => check_type (S f) ct h x t) xs
              | _ => false end = true). now rewrite N.
  Qed.

  Definition inserter (fam : family) (sp : attr_spec) (coll idx item : val) (ins : bool) : M unit :=
    match fam with
    | FSeq => seq_inserter ct sp coll idx item ins
    | FMap => map_inserter ct sp coll idx item
    | FSet => set_inserter ct sp coll idx item
    end.

  (* a run of an inserter: nothing written, or one write that keeps the cell conforming *)
  Lemma inserter_run fam sp fc idx item ins s r s' :
    leaf_coll sp fam -> conf (heap s) (VRef fc) sp ->
    inserter fam sp (VRef fc) idx item ins s = (r, s') ->
    (s' = s /\ forall u, r <> Ok u) \/
    (exists o0 o, r = Ok tt /\ nth_error (heap s) fc = Some o0 /\ shape o = shape o0 /\
                  heap s' = set_nth fc o (heap s) /\ conf (heap s') (VRef fc) sp).
  Proof.
    intros (Hf & Sc & Sh & _ & _) C H. unfold conf in *.
    destruct (a_ty sp) eqn:Et; simpl in Hf; try discriminate; inversion Hf; subst fam; simpl in Sc, H.
    - destruct (seq_inserter_run ct s sp fc idx item ins r s' H) as [L|(xs & xs' & -> & N & ->)]; [left; exact L|right].
      exists (OList xs), (OList xs'). split; auto. split; auto. split; auto. split; auto.
      apply (seq_inserter_keeps ct s sp fc idx item ins tt _ t Et (scalar_simple _ Sc)); auto.
      rewrite Et. exact Sh.
    - apply andb_true_iff in Sc. destruct Sc as [S1 S2].
      destruct (map_inserter_run ct s sp fc idx item r s' H) as [L|(xs & xs' & -> & N & ->)]; [left; exact L|right].
      exists (ODict xs), (ODict xs'). split; auto. split; auto. split; auto. split; auto.
      apply (map_inserter_keeps ct s sp fc idx item tt _ t1 t2 Et (scalar_simple _ S1) (scalar_simple _ S2)); auto.
      rewrite Et. exact Sh.
    - destruct (set_inserter_run ct s sp fc idx item r s' H) as [L|(xs & xs' & -> & N & ->)]; [left; exact L|right].
      exists (OSet xs), (OSet xs'). split; auto. split; auto. split; auto. split; auto.
      apply (set_inserter_keeps ct s sp fc idx item tt _ t Et (scalar_simple _ Sc)); auto.
      rewrite Et. exact Sh.
  Qed.

  Lemma inserter_inv fam sp fc idx item ins F :
    leaf_coll sp fam -> cstable F ->
    T (fun h => IF F h /\ conf h (VRef fc) sp /\ (refcount h fc = 0 \/ only_view ct h fc (a_ty sp)))
      (inserter fam sp (VRef fc) idx item ins)
      (fun _ h => IF F h /\ conf h (VRef fc) sp) (IF F).
  Proof.
    intros Hl [_ SW] s [[I Fh] [C V]]. pose proof Hl as (Hf & Sc & _).
    destruct (inserter fam sp (VRef fc) idx item ins s) as [r s'] eqn:H.
    destruct (inserter_run fam sp fc idx item ins s r s' Hl C H) as [[-> Hr]|(o0 & o & -> & N & S & E & K)].
    - destruct r as [u|err]; [exfalso; eapply Hr; eauto|]. split; auto.
    - rewrite E in *.
      destruct (conf_norefs (heap s) fc (a_ty sp) o0 Sc C N) as [_ S0].
      assert (Nr : norefs o).
      { eapply (conf_norefs _ fc (a_ty sp) o Sc K). apply nth_error_set_nth_same. apply nth_error_Some. congruence. }
      assert (Le : forall c', orefs c' o <= orefs c' o0).
      { intro c'. rewrite (norefs_orefs _ c' Nr). lia. }
      split; [split|exact K].
      + eapply Inv_write_container; eauto.
        intros t Vt Ft. destruct V as [Z|V].
        * exfalso. eapply refcount_zero_not_viewed; eauto.
        * rewrite (V t Vt Ft). exact K.
      + eapply SW; eauto.
  Qed.

  Lemma item_mv_plain' sp fam inst old io :
    leaf_coll sp fam -> io_plainx sp io ->
    mv_plain (mkmv old (io_new io) (io_replace io) (PItem sp inst) (io_attrs io)
                   (Some (ctor_of_ty (item_type (a_ty sp)))) (Some (item_type (a_ty sp)))
                   (io_transform io) (io_attr_transforms io) false).
  Proof.
    intros (Hf & Sc & _ & _ & Hpi) (H1 & H3 & H2). unfold mv_plain.
    cbn [mv_prepare mv_attrs mv_transform mv_attr_transforms mv_ctor mv_expected prep_plain].
    assert (Se : scalar_ty (item_type (a_ty sp)) = true).
    { destruct (a_ty sp); simpl in *; try discriminate; auto. apply andb_true_iff in Sc. tauto. }
    split; [split; auto|]. split; auto. split.
    { destruct H2 as [->|[[inst' ->]|[f [-> Hq]]]]; simpl; auto. }
    split; auto.
    exists (item_type (a_ty sp)), (item_type (a_ty sp)). unfold ctor_of_ty.
    destruct (scalar_nospec _ Se) as [-> _]. split; auto. split; auto.
    destruct (item_type (a_ty sp)); simpl in *; auto; discriminate.
  Qed.

  Lemma hpure_extractor fam sp coll io :
    hpure (match fam with
           | FSeq => seq_extractor ct sp coll (io_voi io) (io_require io) (io_by_index io)
           | FMap => map_extractor ct coll (io_voi io) (io_require io)
           | FSet => set_extractor ct coll (io_voi io) (io_require io) end).
  Proof. destruct fam; auto with hp. Qed.

  (* one element operation on the collection cell fc *)
  Lemma mutate_collection_leafx fam sp inst fc io F :
    leaf_coll sp fam -> io_plainx sp io -> cstable F ->
    (forall h, Inv h -> F h -> refcount h fc = 0 \/ only_view ct h fc (a_ty sp)) ->
    T (fun h => IF F h /\ conf h (VRef fc) sp)
      (mutate_collection ct rec fam sp inst (VRef fc) io)
      (fun r h => (IF F h /\ conf h (VRef fc) sp) /\ r = VRef fc) (IF F).
  Proof.
    intros Hl Hio SF HV. pose proof Hl as (Hf & Sc & _).
    unfold mutate_collection. cbn [is_missing].
    eapply T_bind with (Q := fun c1 h => (IF F h /\ conf h (VRef fc) sp) /\ c1 = VRef fc).
    { apply T_ret. intros h H. split; auto. }
    intros coll1. apply T_pull. intros ->.
    eapply T_bind with (Q := fun _ h => IF F h /\ conf h (VRef fc) sp).
    { apply T_hpure; [apply hpure_extractor|tauto]. }
    intros ex. cbv zeta.
    eapply T_bind with (Q := fun _ h => IF F h /\ conf h (VRef fc) sp).
    { eapply T_conseq.
      - apply (Hrec_mv _ (fun h => F h /\ conf h (VRef fc) sp)).
        + apply astable_and; [apply SF|]. apply astable_check. now apply scalar_coll_flat'.
        + eapply item_mv_plain'; eauto.
      - intros h [[I Fh] C]. split; auto.
      - intros r h [[I [Fh C]] _]. split; [split|]; auto.
      - intros h [I [Fh _]]. split; auto. }
    intros new_item.
    eapply T_bind with (Q := fun _ h => IF F h /\ conf h (VRef fc) sp).
    { eapply T_pre; [|destruct fam; apply (inserter_inv _ sp fc (fst ex) new_item (io_insert io) F Hl SF)].
      intros h [[I Fh] C]. split; [split; auto|]. split; auto. }
    intros u. apply T_ret. intros h H. split; auto.
  Qed.

  Lemma mutate_collection_leaf fam sp inst fc io F :
    leaf_coll sp fam -> io_plain io -> cstable F ->
    (forall h, Inv h -> F h -> refcount h fc = 0 \/ only_view ct h fc (a_ty sp)) ->
    T (fun h => IF F h /\ conf h (VRef fc) sp)
      (mutate_collection ct rec fam sp inst (VRef fc) io)
      (fun r h => (IF F h /\ conf h (VRef fc) sp) /\ r = VRef fc) (IF F).
  Proof. intros Hl Hio. apply mutate_collection_leafx; auto. now apply io_plain_x. Qed.

  (* create_collection: a fresh empty collection of the family *)
  Lemma create_coll sp fam F :
    family_of (a_ty sp) = Some fam -> astable F ->
    T (IF F) (create_collection rec sp)
      (fun v h => IF F h /\ exists fc, v = VRef fc /\ loose h v /\ conf h v sp) (IF F).
  Proof.
    intros Hf SF. unfold create_collection.
    assert (Al : T (IF F) (l <- alloc (empty_of fam) ;; ret (VRef l))
                   (fun v h => IF F h /\ exists fc, v = VRef fc /\ loose h v /\ conf h v sp) (IF F)).
    { eapply T_bind; [|intros l; apply T_ret; intros h H; exact H].
      eapply T_pre; [|apply T_alloc]. intros h H. cbv beta.
      destruct (IF_alloc ct Hflat F h (empty_of fam) SF) as [H1 H2]; auto.
      - destruct fam; simpl; lia.
      - destruct fam; intros c [].
      - split; auto. exists (length h). split; auto. split; auto.
        eapply empty_conforms; eauto. rewrite nth_error_app2 by lia. now rewrite Nat.sub_diag. }
    destruct (a_ty sp); simpl in Hf; try discriminate; inversion Hf; subst fam; exact Al.
  Qed.

  (* the loop invariant of add_items / prepare_items on the cell fc nobody references *)
  Definition JJ (F : heap_t -> Prop) (sp : attr_spec) (fc : loc) (c : val) (h : heap_t) : Prop :=
    (IF (fun h => F h /\ loose h (VRef fc)) h /\ conf h (VRef fc) sp) /\ c = VRef fc.

  Lemma mc_step fam sp inst fc io c F :
    leaf_coll sp fam -> cstable F -> io_plainx sp io ->
    T (JJ F sp fc c) (mutate_collection ct rec fam sp inst c io) (JJ F sp fc) (IF F).
  Proof.
    intros Hl SF Hio. unfold JJ.
    set (G := fun h => F h /\ loose h (VRef fc)).
    assert (SG : cstable G) by (apply cstable_and; [exact SF|apply cstable_loose]).
    apply T_pull. intros ->.
    eapply T_conseq; [apply (mutate_collection_leafx fam sp inst fc io G Hl Hio SG)| | |].
    - intros h _ [_ [_ Z]]. left. exact Z.
    - auto.
    - auto.
    - intros h [I [Fh _]]. split; auto.
  Qed.

  Lemma JJ_fin F sp fc c h : JJ F sp fc c h -> IF F h /\ loose h c.
  Proof. intros [[[I [Fh L]] _] ->]. split; [split|]; auto. Qed.
  Lemma JJ_ini F sp fc h :
    IF F h /\ loose h (VRef fc) /\ conf h (VRef fc) sp -> JJ F sp fc (VRef fc) h.
  Proof. intros [[I Fh] [L C]]. unfold JJ, OwnProofs2.IF. tauto. Qed.

  Lemma add_items_leaf fam sp inst fc items F :
    leaf_coll sp fam -> cstable F ->
    T (fun h => IF F h /\ loose h (VRef fc) /\ conf h (VRef fc) sp)
      (add_items ct rec fam sp inst (VRef fc) items)
      (fun r h => IF F h /\ loose h r) (IF F).
  Proof.
    intros Hl SF.
    assert (Plain : forall x, io_plainx sp (io_add x)) by (intro x; apply io_plain_x; repeat split).
    assert (Plain2 : forall k v, io_plainx sp (mkio k v None None [] true false TriTrue false))
      by (intros; apply io_plain_x; repeat split).
    unfold add_items. destruct items; try (apply T_fail; tauto).
    eapply T_bind; [apply T_hpure; [apply hpure_read|tauto]|]. intros o.
    destruct fam, o; try (apply T_fail; tauto);
      (eapply T_conseq; [apply T_foldM with (I := JJ F sp fc); intros; apply (mc_step _ sp inst fc); auto
                        |apply JJ_ini|apply JJ_fin|auto]).
  Qed.

  (* _prepare_items: every element goes through the item preparer and the inserter *)
  Lemma prepare_items_leaf fam sp inst fc F :
    leaf_coll sp fam -> cstable F ->
    T (fun h => IF F h /\ loose h (VRef fc) /\ conf h (VRef fc) sp)
      (prepare_items ct rec fam sp inst (VRef fc))
      (fun r h => IF F h /\ loose h r) (IF F).
  Proof.
    intros Hl SF.
    assert (PlainT : forall voi bi, io_plainx sp (io_transform_item sp inst voi bi)).
    { intros voi bi. split; [reflexivity|]. split; [reflexivity|]. right. left. exists inst. reflexivity. }
    unfold prepare_items. destruct fam.
    - eapply T_bind with (Q := fun _ h => IF F h /\ loose h (VRef fc) /\ conf h (VRef fc) sp);
        [apply T_hpure; [apply hpure_read_list|tauto]|].
      intros p.
      eapply T_conseq; [apply T_foldM with (I := JJ F sp fc); intros; apply (mc_step _ sp inst fc); auto
                       |apply JJ_ini|apply JJ_fin|auto].
    - apply add_items_leaf; auto.
    - eapply T_bind with (Q := fun _ h => IF F h /\ loose h (VRef fc) /\ conf h (VRef fc) sp);
        [apply T_hpure; [apply hpure_read_set|tauto]|].
      intros p.
      eapply T_conseq; [apply T_foldM with (I := JJ F sp fc); intros; apply (mc_step _ sp inst fc); auto
                       |apply JJ_ini|apply JJ_fin|auto].
  Qed.

  Lemma coll_prepare_leaf fam sp inst coll F :
    leaf_coll sp fam -> cstable F ->
    T (fun h => IF F h /\ loose h coll) (coll_prepare ct rec sp inst coll)
      (fun r h => IF F h /\ loose h r) (IF F).
  Proof.
    intros Hl SF. pose proof Hl as (Hf & Sc & _ & _ & Hpi).
    unfold coll_prepare. rewrite Hf.
    eapply T_bind with (Q := fun c1 h => IF F h /\ loose h c1).
    { assert (Cr : T (fun h => IF F h /\ loose h coll) (create_collection rec sp)
                     (fun c1 h => IF F h /\ loose h c1) (IF F)).
      { eapply T_conseq; [apply (create_coll sp fam F Hf (proj1 SF))| | |auto]; [tauto|].
        intros v h [H [fc [-> [L _]]]]. auto. }
      destruct coll; try exact Cr; apply T_ret; auto. }
    intros coll1.
    eapply T_bind; [apply T_check|]. intros ok.
    destruct ok; cbn [negb].
    - (* the value conforms *)
      eapply T_pre with (P := fun h => (IF F h /\ loose h coll1) /\ conf h coll1 sp).
      { intros h [H E]. split; auto. unfold conf. now rewrite <- E. }
      eapply T_bind with (Q := fun _ h => (IF F h /\ loose h coll1) /\ conf h coll1 sp).
      { apply T_hpure; [apply hpure_truthy|]. intros h [[H _] _]. exact H. }
      intros t. destruct (a_prepare_item sp) as [f|]; [|apply T_ret; tauto].
      destruct t; [|apply T_ret; tauto].
      (* copy.copy of the container, then normalise the copy *)
      intros s [[[I Fh] L] C]. unfold conf in C.
      destruct coll1 as [| | | | | | | |lc];
        try (exfalso; destruct FUEL_SS as [f0 Ef]; rewrite Ef in C;
             destruct (a_ty sp); simpl in Hf; try discriminate; simpl in C; discriminate).
      destruct (check_flat_valid ct FUEL (heap s) (a_ty sp) lc (scalar_coll_flat _ Sc) C) as [o [No So]].
      destruct (conf_norefs (heap s) lc (a_ty sp) o Sc C No) as [Nr _].
      cbn [loc_of]. rewrite bind_ret_l. unfold bind at 1. unfold read. rewrite No.
      unfold bind at 1. unfold alloc.
      set (s1 := mkst (heap s ++ [o]) (ncalls s) (fail_at s)).
      apply (prepare_items_leaf fam sp inst (length (heap s)) F Hl SF s1). simpl heap.
      destruct (IF_alloc ct Hflat F (heap s) o (proj1 SF) So Nr (conj I Fh)) as [H1 L1].
      split; auto. split; auto. unfold conf.
      rewrite <- (check_same_content ct FUEL (a_ty sp) (heap s) (heap s ++ [o]) lc (length (heap s)) o No); auto.
      rewrite nth_error_app2 by lia. now rewrite Nat.sub_diag.
    - (* it does not: a fresh collection is filled element by element *)
      eapply T_pre with (P := fun h => IF F h /\ loose h coll1); [intros h [H _]; exact H|].
      set (G := fun h => F h /\ loose h coll1).
      eapply T_bind.
      { eapply T_conseq with (P := IF G) (E := IF G).
        - apply (create_coll sp fam G Hf). apply astable_and; [apply SF|apply astable_loose].
        - intros h [[I Fh] L]. split; [exact I|split; auto].
        - intros a h H; exact H.
        - intros h [I [Fh _]]. split; auto. }
      intros fresh.
      eapply T_pre with (P := fun h => exists fc, fresh = VRef fc /\
                             (IF F h /\ loose h (VRef fc) /\ conf h (VRef fc) sp)).
      { intros h [[I [Fh _]] [fc [-> [L C]]]]. exists fc. split; auto. split; [split; auto|auto]. }
      intros s [fc [-> H]]. apply (add_items_leaf fam sp inst fc coll1 F Hl SF s H).
  Qed.

  (* the same on the collection the attribute already holds (it conforms): it is returned as
     it is, or copied and normalised when there is an item preparer *)
  Lemma coll_prepare_held fam sp inst fc F :
    leaf_coll sp fam -> cstable F ->
    T (fun h => IF F h /\ conf h (VRef fc) sp) (coll_prepare ct rec sp inst (VRef fc))
      (fun r h => IF F h /\ (r = VRef fc \/ loose h r)) (IF F).
  Proof.
    intros Hl SF. pose proof Hl as (Hf & Sc & _ & _ & Hpi).
    unfold coll_prepare. rewrite Hf.
    eapply T_bind with (Q := fun c1 h => (IF F h /\ conf h (VRef fc) sp) /\ c1 = VRef fc).
    { apply T_ret. auto. }
    intros coll1. apply T_pull. intros ->.
    eapply T_bind; [apply T_check|]. intros ok.
    intros s [[IFh C] E]. unfold conf in C. rewrite C in E. subst ok. cbn [negb].
    refine ((_ : T (fun h => IF F h /\ conf h (VRef fc) sp) _ (fun r h => IF F h /\ (r = VRef fc \/ loose h r)) (IF F)) s _);
      [|split; [exact IFh|exact C]].
    eapply T_bind with (Q := fun _ h => IF F h /\ conf h (VRef fc) sp).
    { apply T_hpure; [apply hpure_truthy|]. intros h [H _]. exact H. }
    intros t. destruct (a_prepare_item sp) as [f|]; [|apply T_ret; intros h [H _]; auto].
    destruct t; [|apply T_ret; intros h [H _]; auto].
    intros s0 [[I0 Fh0] C0]. unfold conf in C0.
    destruct (check_flat_valid ct FUEL (heap s0) (a_ty sp) fc (scalar_coll_flat _ Sc) C0) as [o [No So]].
    destruct (conf_norefs (heap s0) fc (a_ty sp) o Sc C0 No) as [Nr _].
    cbn [loc_of]. rewrite bind_ret_l. unfold bind at 1. unfold read. rewrite No.
    unfold bind at 1. unfold alloc.
    set (s1 := mkst (heap s0 ++ [o]) (ncalls s0) (fail_at s0)).
    assert (PI := prepare_items_leaf fam sp inst (length (heap s0)) F Hl SF s1).
    assert (Pre : IF F (heap s1) /\ loose (heap s1) (VRef (length (heap s0))) /\
                  conf (heap s1) (VRef (length (heap s0))) sp).
    { simpl heap. destruct (IF_alloc ct Hflat F (heap s0) o (proj1 SF) So Nr (conj I0 Fh0)) as [H1 L1].
      split; auto. split; auto. unfold conf.
      rewrite <- (check_same_content ct FUEL (a_ty sp) (heap s0) (heap s0 ++ [o]) fc (length (heap s0)) o No); auto.
      rewrite nth_error_app2 by lia. now rewrite Nat.sub_diag. }
    specialize (PI Pre).
    destruct (prepare_items ct rec fam sp inst (VRef (length (heap s0))) s1) as [[r|e] s2]; [|exact PI].
    destruct PI as [H2 L2]. split; auto.
  Qed.

  Lemma attr_mv_plain' sp fam v :
    leaf_coll sp fam ->
    mv_plain (mkmv VMissing v false
                (match a_prepare sp with Some f => PAttr f | None => PNone end)
                None (Some (ctor_of_ty (a_ty sp))) (Some (a_ty sp)) None [] false).
  Proof.
    intros (Hf & _ & _ & Hp & _). unfold mv_plain.
    cbn [mv_prepare mv_attrs mv_transform mv_attr_transforms mv_ctor mv_expected xf_plain].
    split; [destruct (a_prepare sp); simpl; auto|]. split; auto. split; auto. split; auto.
    exists (a_ty sp), (a_ty sp). unfold ctor_of_ty.
    destruct (a_ty sp); simpl in Hf; try discriminate; simpl; auto.
  Qed.

  Lemma prepare_attr_value_leaf fam sp inst v F :
    leaf_coll sp fam -> cstable F ->
    T (fun h => IF F h /\ loose h v) (prepare_attr_value ct rec sp inst v None)
      (fun r h => IF F h /\ loose h r) (IF F).
  Proof.
    intros Hl SF. pose proof Hl as (Hf & _).
    assert (B : T (fun h => IF F h /\ loose h v)
                  (v' <- rec (KMutateValue (mkmv VMissing v false
                                (match a_prepare sp with Some f => PAttr f | None => PNone end)
                                None (Some (ctor_of_ty (a_ty sp))) (Some (a_ty sp)) None [] false)) ;;
                   if ty_is_collection (a_ty sp) then coll_prepare ct rec sp inst v' else ret v')
                  (fun r h => IF F h /\ loose h r) (IF F)).
    { eapply T_bind with (Q := fun v' h => IF F h /\ loose h v').
      - eapply T_conseq.
        + apply (Hrec_mv _ (fun h => F h /\ loose h v)).
          * apply astable_and; [apply SF|apply astable_loose].
          * eapply attr_mv_plain'; eauto.
        + intros h [[I Fh] L]. split; auto.
        + intros r h [[Iv [Fh L]] R]. split; [split; auto|].
          destruct R as [[-> _]|[->|R]]; [exact I|exact L|exact R].
        + intros h [I [Fh _]]. split; auto.
      - intros v'.
        assert (Ec : ty_is_collection (a_ty sp) = true)
          by (destruct (a_ty sp); simpl in Hf; try discriminate; reflexivity).
        rewrite Ec. eapply coll_prepare_leaf; eauto. }
    unfold prepare_attr_value. destruct v; try exact B. apply T_ret. auto.
  Qed.
End Colls.

(* ------------------------------------------------------------------ *)
(** * Whole operations, every family *)
Section CollOps.
  Variable ct : ctable.
  Hypothesis Hflat : flat_table ct.
  Hypothesis Hninv : inval_spec ct.
  Notation Inv := (Inv ct).
  Notation rec := (exec ct XFUEL).

  Definition recv_leafc (l : loc) (a : aid) (h : heap_t) : Prop :=
    forall cl d k sp, nth_error h l = Some (OInst cl d) -> lookup_cls ct cl = Some k ->
      lookup_attr k a = Some sp -> exists fam, leaf_coll sp fam.

  Lemma prepare_then_store' fuel' fuel l a sp fam v :
    leaf_coll sp fam ->
    T (fun h => Inv h /\ loose h v)
      (value <- prepare_attr_value ct (exec ct fuel) sp l v None ;;
       mutate_attr ct (exec ct fuel') l a value true true false false)
      (fun _ h => Inv h) Inv.
  Proof.
    intro Hl. eapply T_bind.
    - eapply T_conseq; [apply (prepare_attr_value_leaf ct Hflat (exec ct fuel) (Hmv ct Hflat fuel) fam sp l v (fun _ => True) Hl cstable_true)| | |].
      + intros h [I L]. split; [apply IF_true; exact I|exact L].
      + intros r h H. exact H.
      + intros h [I _]. exact I.
    - intros value. eapply T_pre; [|apply (mutate_attr_inplace ct Hflat Hninv fuel' l a value true)].
      intros h [[I _] L]. split; auto. split; [left; exact L|discriminate].
  Qed.

  Lemma setattr_Inv' fuel l a v :
    T (fun h => Inv h /\ loose h v /\ recv_leafc l a h)
      (setattr_ ct (exec ct fuel) l a v false false) (fun _ h => Inv h) Inv.
  Proof.
    unfold setattr_.
    eapply T_bind; [apply T_read_inst; tauto|]. intros [cl d]. cbn [fst snd].
    eapply T_bind; [apply T_cls_of; tauto|]. intros k.
    intros s [[[I [L R]] N] Hk].
    destruct (lookup_attr k a) as [sp|] eqn:Ha.
    - destruct (R _ _ _ _ N Hk Ha) as [fam Hl].
      apply (prepare_then_store' fuel fuel l a sp fam v Hl s). auto.
    - rewrite bind_ret_l.
      apply (mutate_attr_inplace ct Hflat Hninv fuel l a v true s).
      split; auto. split; [left; exact L|discriminate].
  Qed.

  (* obj.a = v on a leaf collection attribute of any family *)
  Theorem step_setattr_coll roots x a v s :
    Inv (heap s) -> loose (heap s) v ->
    (forall l, nth x roots VNone = VRef l -> recv_leafc l a (heap s)) ->
    Inv (heap (snd (step ct roots (OpSetAttr x a v) s))).
  Proof.
    intros I L R. unfold step.
    destruct (nth x roots VNone) as [| | | | | | | |l] eqn:Er; try exact I.
    cbn [loc_of]. rewrite bind_ret_l.
    eapply T_run_then with (P := fun h => Inv h /\ loose h v /\ recv_leafc l a h) (Q := fun _ h => Inv h) (E := Inv);
      auto.
    assert (Ex : exists f, XFUEL = S f) by (exists 39; reflexivity). destruct Ex as [f ->].
    rewrite exec_S. apply setattr_Inv'.
  Qed.

  (* obj.with_<a>(v, _inplace=True) *)
  Theorem step_with_inplace_coll roots x a hh s :
    Inv (heap s) -> loose (heap s) (pos0 hh) -> h_inplace hh = true -> h_kw hh = None ->
    (forall l, nth x roots VNone = VRef l -> recv_leafc l a (heap s)) ->
    Inv (heap (snd (step ct roots (OpHelper x (HWith a) hh) s))).
  Proof.
    intros I L Hin Hkw R. unfold step.
    destruct (nth x roots VNone) as [| | | | | | | |l] eqn:Er; try exact I.
    cbn [loc_of]. rewrite bind_ret_l. specialize (R l eq_refl).
    unfold run_helper. destruct (negb (h_if hh)); [exact I|]. rewrite Hin, Hkw.
    eapply T_run with (P := fun h => Inv h /\ loose h (pos0 hh) /\ recv_leafc l a h) (Q := fun _ h => Inv h) (E := Inv);
      auto.
    unfold spec_for.
    eapply T_bind.
    { eapply T_bind; [apply T_read_inst; tauto|]. intros [cl d]. cbn [fst snd].
      eapply T_bind; [apply T_cls_of; tauto|]. intros k.
      instantiate (1 := fun r h => (Inv h /\ loose h (pos0 hh)) /\ a_name (snd r) = a /\ exists fam, leaf_coll (snd r) fam).
      intros s0 [[[I0 [L0 R0]] N] Hk].
      destruct (lookup_attr k a) as [sp|] eqn:Ha; simpl; auto.
      split; auto. split; [eapply lookup_attr_name; eauto|eauto]. }
    intros r. apply T_pull. intros [Hn [fam Hl]]. unfold with_attr. rewrite Hn.
    apply (prepare_then_store' XFUEL XFUEL l a (snd r) fam (pos0 hh) Hl).
  Qed.

  (* ---------- element helpers ---------- *)
  Local Opaque exec XFUEL.
  Let HrecMv := Hmv ct Hflat XFUEL.

  Lemma held_coll h l cl d k a sp fam v :
    Inv h -> nth_error h l = Some (OInst cl d) -> lookup_cls ct cl = Some k ->
    lookup_attr k a = Some sp -> leaf_coll sp fam -> assoc a d = Some v ->
    exists fc, v = VRef fc /\ conf ct h v sp.
  Proof.
    intros [T _] N Hk Ha (Hf & _) As.
    assert (C : check_type FUEL ct h v (a_ty sp) = true).
    { eapply T; eauto. now apply assoc_in. }
    destruct v as [| | | | | | | |fc]; [..|eauto];
      destruct FUEL_SS as [f Ef]; rewrite Ef in C;
      destruct (a_ty sp); simpl in Hf; try discriminate; simpl in C; discriminate.
  Qed.

  Lemma store_held l cl d k a sp fam fc :
    lookup_cls ct cl = Some k -> lookup_attr k a = Some sp -> leaf_coll sp fam ->
    assoc a d = Some (VRef fc) ->
    T (fun h => (Inv h /\ inst_at l cl d h) /\ conf ct h (VRef fc) sp)
      (mutate_attr ct rec l a (VRef fc) true false false false) (fun _ h => Inv h) Inv.
  Proof.
    intros Hk Ha Hl As.
    eapply T_pre; [|apply (mutate_attr_inplace ct Hflat Hninv XFUEL l a (VRef fc) false)].
    intros h [[I N] C]. split; auto. split.
    - right. exists cl, d. auto.
    - intros _ cl' d' k' sp' N' Hk' Ha'. unfold inst_at in N. rewrite N in N'. inversion N'; subst cl' d'.
      rewrite Hk in Hk'. inversion Hk'; subst k'. rewrite Ha in Ha'. inversion Ha'; subst sp'. exact C.
  Qed.

  Lemma store_loose l cl d k a sp fc :
    lookup_cls ct cl = Some k -> lookup_attr k a = Some sp ->
    T (fun h => (Inv h /\ inst_at l cl d h /\ loose h (VRef fc)) /\ conf ct h (VRef fc) sp)
      (mutate_attr ct rec l a (VRef fc) true false false false) (fun _ h => Inv h) Inv.
  Proof.
    intros Hk Ha.
    eapply T_pre; [|apply (mutate_attr_inplace ct Hflat Hninv XFUEL l a (VRef fc) false)].
    intros h [[I [N L]] C]. split; auto. split; [left; exact L|].
    intros _ cl' d' k' sp' N' Hk' Ha'. unfold inst_at in N. rewrite N in N'. inversion N'; subst cl' d'.
    rewrite Hk in Hk'. inversion Hk'; subst k'. rewrite Ha in Ha'. inversion Ha'; subst sp'. exact C.
  Qed.

  Lemma held_view l cl d k a sp fam fc :
    lookup_cls ct cl = Some k -> lookup_attr k a = Some sp -> leaf_coll sp fam ->
    assoc a d = Some (VRef fc) ->
    forall h, Inv h -> inst_at l cl d h -> refcount h fc = 0 \/ only_view ct h fc (a_ty sp).
  Proof.
    intros Hk Ha (_ & Sc & _) As h I N. right.
    eapply Owned_only_view; eauto; [apply I|now apply assoc_in|now apply scalar_coll_flat].
  Qed.

  (* an element operation M on the cell fc, then the store: attribute holds fc *)
  Lemma tail_held l cl d k a sp fam fc (Mid : M val) :
    lookup_cls ct cl = Some k -> lookup_attr k a = Some sp -> leaf_coll sp fam ->
    assoc a d = Some (VRef fc) ->
    (forall F, cstable F ->
       (forall h, Inv h -> F h -> refcount h fc = 0 \/ only_view ct h fc (a_ty sp)) ->
       T (fun h => IF ct F h /\ conf ct h (VRef fc) sp) Mid
         (fun r h => (IF ct F h /\ conf ct h (VRef fc) sp) /\ r = VRef fc) (IF ct F)) ->
    T (fun h => Inv h /\ inst_at l cl d h)
      (c' <- Mid ;; mutate_attr ct rec l a c' true false false false) (fun _ h => Inv h) Inv.
  Proof.
    intros Hk Ha Hl As HM.
    eapply T_bind.
    - eapply T_conseq.
      + apply (HM (inst_at l cl d) (cstable_inst_at l cl d)). eapply held_view; eauto.
      + intros h [I N]. split; [split; auto|].
        destruct (held_coll h l cl d k a sp fam (VRef fc) I N Hk Ha Hl As) as [fc' [_ C]]. exact C.
      + intros r h H. exact H.
      + intros h [I _]. exact I.
    - intros c'. apply T_pull. intros ->. eapply store_held; eauto.
  Qed.

  (* the same on a fresh cell *)
  Lemma tail_loose l cl d k a sp fam fc (Mid : M val) :
    lookup_cls ct cl = Some k -> lookup_attr k a = Some sp -> leaf_coll sp fam ->
    (forall F, cstable F ->
       (forall h, Inv h -> F h -> refcount h fc = 0 \/ only_view ct h fc (a_ty sp)) ->
       T (fun h => IF ct F h /\ conf ct h (VRef fc) sp) Mid
         (fun r h => (IF ct F h /\ conf ct h (VRef fc) sp) /\ r = VRef fc) (IF ct F)) ->
    T (fun h => (Inv h /\ inst_at l cl d h /\ loose h (VRef fc)) /\ conf ct h (VRef fc) sp)
      (c' <- Mid ;; mutate_attr ct rec l a c' true false false false) (fun _ h => Inv h) Inv.
  Proof.
    intros Hk Ha Hl HM.
    set (G := fun h => inst_at l cl d h /\ loose h (VRef fc)).
    assert (SG : cstable G) by (apply cstable_and; [apply cstable_inst_at|apply cstable_loose]).
    eapply T_bind.
    - eapply T_conseq.
      + apply (HM G SG). intros h _ [_ [_ Z]]. left. exact Z.
      + intros h [[I [N L]] C]. split; [split; [exact I|split; auto]|exact C].
      + intros r h H. exact H.
      + intros h [I _]. exact I.
    - intros c'. apply T_pull. intros ->.
      eapply T_pre; [|apply (store_loose l cl d k a sp fc Hk Ha)]. intros h [[I [N L]] C]. split; auto.
  Qed.

  (* the attribute holds nothing: the collection is created first *)
  Lemma tail_missing l cl d k a sp fam io :
    lookup_cls ct cl = Some k -> lookup_attr k a = Some sp -> leaf_coll sp fam -> io_plain io ->
    T (fun h => Inv h /\ inst_at l cl d h)
      (c' <- mutate_collection ct rec fam sp l VMissing io ;;
       mutate_attr ct rec l a c' true false false false)
      (fun _ h => Inv h) Inv.
  Proof.
    intros Hk Ha Hl Hio. pose proof Hl as (Hf & _).
    intros s [I N].
    pose proof (create_coll ct Hflat rec sp fam (inst_at l cl d) Hf (astable_inst_at l cl d) s (conj I N)) as Cr.
    unfold mutate_collection. cbn [is_missing]. unfold bind at 1. unfold bind at 1.
    destruct (create_collection rec sp s) as [[c1|err] s1]; [|exact (proj1 Cr)].
    destruct Cr as [[I1 N1] [fc [-> [L C]]]].
    exact (tail_loose l cl d k a sp fam fc (mutate_collection ct rec fam sp l (VRef fc) io) Hk Ha Hl
             (fun F SF HV => mutate_collection_leaf ct Hflat rec HrecMv fam sp l fc io F Hl Hio SF HV)
             s1 (conj (conj I1 (conj N1 L)) C)).
  Qed.

  Definition dflt_missingc (l : loc) (a : aid) (h : heap_t) : Prop :=
    forall cl d k, nth_error h l = Some (OInst cl d) -> lookup_cls ct cl = Some k ->
      assoc a d = None -> class_default k a = VMissing.

  (* resolve the prefix of an in-place element helper: the spec and the collection held *)
  Lemma elem_prefix l a s (K : cls * attr_spec -> val -> M val) :
    Inv (heap s) -> recv_leafc l a (heap s) -> dflt_missingc l a (heap s) ->
    (forall cl d k sp fam, nth_error (heap s) l = Some (OInst cl d) -> lookup_cls ct cl = Some k ->
        lookup_attr k a = Some sp -> leaf_coll sp fam ->
        (forall fc, assoc a d = Some (VRef fc) -> Inv (heap (snd (K (k, sp) (VRef fc) s)))) /\
        (assoc a d = None -> Inv (heap (snd (K (k, sp) VMissing s))))) ->
    Inv (heap (snd ((r <- spec_for ct l a ;; c <- mk_mutator ct (snd r) l true ;; K r c) s))).
  Proof.
    intros I R D HK.
    destruct (nth_error (heap s) l) as [o|] eqn:N.
    2:{ unfold bind at 1. unfold spec_for, bind at 1. unfold read_inst, bind at 1. unfold read. rewrite N. exact I. }
    destruct o as [xs|kvs|xs|cl d];
      try (unfold bind at 1; unfold spec_for, bind at 1; unfold read_inst, bind at 1; unfold read; rewrite N; exact I).
    destruct (lookup_cls ct cl) as [k|] eqn:Hk.
    2:{ unfold bind at 1. unfold spec_for. erewrite bind_ok'; [|apply read_inst_eq; eauto]. cbn [fst snd].
        unfold bind at 1. unfold cls_of. rewrite Hk. exact I. }
    unfold bind at 1. rewrite (spec_for_run ct l a s cl d k N Hk).
    destruct (lookup_attr k a) as [sp|] eqn:Ha; [|exact I].
    cbn [snd].
    destruct (R _ _ _ _ N Hk Ha) as [fam Hl].
    pose proof (lookup_attr_name k a sp Ha) as Hn.
    unfold bind at 1.
    destruct (mk_mutator_run ct sp l s cl d k N Hk) as [E|E]; rewrite E; [exact I|].
    rewrite Hn. destruct (HK cl d k sp fam eq_refl Hk Ha Hl) as [K1 K2].
    destruct (assoc a d) as [v|] eqn:As.
    - destruct (held_coll (heap s) l cl d k a sp fam v I N Hk Ha Hl As) as [fc [-> _]]. apply K1. reflexivity.
    - rewrite (D _ _ _ N Hk As). apply K2. reflexivity.
  Qed.

  (* with_<item>(..., _inplace=True), every family *)
  Theorem with_item_inplace_coll l a hh s :
    h_inplace hh = true -> h_kw hh = None ->
    Inv (heap s) -> recv_leafc l a (heap s) -> dflt_missingc l a (heap s) ->
    Inv (heap (snd (run_helper ct l (HWithItem a) hh s))).
  Proof.
    intros Hin Hkw I R D. unfold run_helper. destruct (negb (h_if hh)); [exact I|]. rewrite Hin, Hkw.
    cbv zeta.
    apply (elem_prefix l a s (fun r c =>
      c' <- (match family_of (a_ty (snd r)) with
             | Some FSeq =>
                 mutate_collection ct rec FSeq (snd r) l c
                   (mkio (h_index hh) (pos0 hh) None None [] true
                         (negb (is_missing (h_index hh)) && negb (h_insert hh)) TriTrue (h_insert hh))
             | Some FMap =>
                 mutate_collection ct rec FMap (snd r) l c
                   (mkio (match h_pos hh with [] => VNone | k :: _ => k end)
                         (match h_pos hh with _ :: v :: _ => v | _ => VMissing end)
                         None None [] true false TriTrue false)
             | Some FSet =>
                 mutate_collection ct rec FSet (snd r) l c
                   (mkio VMissing (pos0 hh) None None [] true false TriTrue false)
             | None => fail AttrErr end) ;;
      mutate_attr ct rec l a c' true false false false) I R D).
    intros cl d k sp fam N Hk Ha Hl. pose proof Hl as (Hf & _). cbn [snd]. rewrite Hf.
    split.
    - intros fc As.
      destruct fam;
        (eapply (T_run _ _ _ _ Inv s); [eapply (tail_held l cl d k a sp _ fc); eauto| | |]; auto;
         [intros F SF HV; eapply mutate_collection_leaf; eauto; repeat split|split; auto]).
    - intros As.
      destruct fam;
        (eapply (T_run _ _ _ _ Inv s); [eapply (tail_missing l cl d k a sp); eauto; repeat split| | |]; auto;
         split; auto).
  Qed.

  Theorem step_with_item_inplace_coll roots x a hh s :
    h_inplace hh = true -> h_kw hh = None -> Inv (heap s) ->
    (forall l, nth x roots VNone = VRef l -> recv_leafc l a (heap s) /\ dflt_missingc l a (heap s)) ->
    Inv (heap (snd (step ct roots (OpHelper x (HWithItem a) hh) s))).
  Proof.
    intros Hin Hkw I R. unfold step.
    destruct (nth x roots VNone) as [| | | | | | | |l] eqn:Er; try exact I.
    cbn [loc_of]. rewrite bind_ret_l. destruct (R l eq_refl). apply with_item_inplace_coll; auto.
  Qed.
End CollOps.

(* ------------------------------------------------------------------ *)
(** * without_<item>(..., _inplace=True) *)
Lemma T_reassoc {A B} (P : heap_t -> Prop) (m : M A) (c : val) (k : val -> M B)
      (Q : B -> heap_t -> Prop) (E : heap_t -> Prop) :
  T P (c' <- (m ;;; ret c) ;; k c') Q E -> T P (m ;;; k c) Q E.
Proof.
  intros H s Ps. specialize (H s Ps). unfold bind in *. destruct (m s) as [[u|e] s1]; simpl in *; exact H.
Qed.

Lemma T_read_list (P : heap_t -> Prop) c (E : heap_t -> Prop) :
  (forall h, P h -> E h) ->
  T P (read_list (VRef c)) (fun p h => P h /\ fst p = c /\ nth_error h c = Some (OList (snd p))) E.
Proof.
  intros HE s Ps. unfold read_list, loc_of_t, read, bind, ret, fail.
  destruct (nth_error (heap s) c) as [[]|] eqn:N; simpl; auto.
Qed.
Lemma T_read_dict (P : heap_t -> Prop) c (E : heap_t -> Prop) :
  (forall h, P h -> E h) ->
  T P (read_dict (VRef c)) (fun p h => P h /\ fst p = c /\ nth_error h c = Some (ODict (snd p))) E.
Proof.
  intros HE s Ps. unfold read_dict, loc_of_t, read, bind, ret, fail.
  destruct (nth_error (heap s) c) as [[]|] eqn:N; simpl; auto.
Qed.
Lemma T_read_set (P : heap_t -> Prop) c (E : heap_t -> Prop) :
  (forall h, P h -> E h) ->
  T P (read_set (VRef c)) (fun p h => P h /\ fst p = c /\ nth_error h c = Some (OSet (snd p))) E.
Proof.
  intros HE s Ps. unfold read_set, loc_of_t, read, bind, ret, fail.
  destruct (nth_error (heap s) c) as [[]|] eqn:N; simpl; auto.
Qed.

Section Remove.
  Variable ct : ctable.
  Hypothesis Hflat : flat_table ct.
  Notation IF := (IF ct).
  Notation Inv := (Inv ct).

  (* o is obtained from o0 by dropping elements *)
  Definition sub_obj (o o0 : obj) : Prop :=
    match o0, o with
    | OList xs, OList xs' | OSet xs, OSet xs' => forall f : val -> bool, forallb f xs = true -> forallb f xs' = true
    | ODict xs, ODict xs' => forall f : val * val -> bool, forallb f xs = true -> forallb f xs' = true
    | _, _ => False
    end.

  Lemma conf_shrink h fc t o0 o :
    scalar_coll t = true -> check_type FUEL ct h (VRef fc) t = true ->
    nth_error h fc = Some o0 -> sub_obj o o0 ->
    check_type FUEL ct (set_nth fc o h) (VRef fc) t = true /\ shape o = shape o0.
  Proof.
    intros St C N Sub. destruct FUEL_SS as [f Ef]. rewrite Ef in *.
    destruct t; simpl in St; try discriminate.
    - change (match nth_error h fc with
              | Some (OList xs) => forallb (fun x => check_type (S f) ct h x t) xs
              | _ => false end = true) in C.
      rewrite N in C. destruct o0; try discriminate. destruct o; simpl in Sub; try contradiction.
      split; auto. eapply coll_write_list; eauto. now apply scalar_simple.
    - apply andb_true_iff in St. destruct St as [S1 S2].
      change (match nth_error h fc with
              | Some (ODict kvs) => forallb (fun p => check_type (S f) ct h (fst p) t1
                                                     && check_type (S f) ct h (snd p) t2) kvs
              | _ => false end = true) in C.
      rewrite N in C. destruct o0; try discriminate. destruct o; simpl in Sub; try contradiction.
      split; auto. eapply coll_write_dict; eauto; now apply scalar_simple.
    - change (match nth_error h fc with
              | Some (OSet xs) => forallb (fun x => check_type (S f) ct h x t) xs
              | _ => false end = true) in C.
      rewrite N in C. destruct o0; try discriminate. destruct o; simpl in Sub; try contradiction.
      split; auto. eapply coll_write_set; eauto. now apply scalar_simple.
  Qed.

  (* the shrinking write *)
  Lemma shrink_write sp fam fc o F :
    leaf_coll sp fam -> cstable F ->
    (forall h, Inv h -> F h -> refcount h fc = 0 \/ only_view ct h fc (a_ty sp)) ->
    T (fun h => (IF F h /\ conf ct h (VRef fc) sp) /\ exists o0, nth_error h fc = Some o0 /\ sub_obj o o0)
      (write fc o) (fun _ h => IF F h /\ conf ct h (VRef fc) sp) (IF F).
  Proof.
    intros (Hf & Sc & _) [_ SW] HV. apply T_write.
    intros h [[[I Fh] C] [o0 [N Sub]]]. split; [apply nth_error_Some; congruence|].
    destruct (conf_shrink h fc (a_ty sp) o0 o Sc C N Sub) as [K S].
    destruct (conf_norefs ct h fc (a_ty sp) o0 Sc C N) as [_ S0].
    assert (Nr : norefs o).
    { eapply (conf_norefs ct _ fc (a_ty sp) o Sc K). apply nth_error_set_nth_same. apply nth_error_Some. congruence. }
    assert (Le : forall c', orefs c' o <= orefs c' o0).
    { intro c'. rewrite (norefs_orefs _ c' Nr). lia. }
    split; [split|exact K].
    - eapply Inv_write_container; eauto.
      intros t Vt Ft. destruct (HV h I Fh) as [Z|V].
      + exfalso. eapply refcount_zero_not_viewed; eauto.
      + rewrite (V t Vt Ft). exact K.
    - eapply SW; eauto.
  Qed.

  Definition PC sp fc F := fun h => IF F h /\ conf ct h (VRef fc) sp.

  Lemma remove_seq sp fc v bi F :
    leaf_coll sp FSeq -> cstable F ->
    (forall h, Inv h -> F h -> refcount h fc = 0 \/ only_view ct h fc (a_ty sp)) ->
    T (PC sp fc F)
      (ex <- seq_extractor ct sp (VRef fc) v true bi ;;
       match fst ex with
       | VNone => ret tt
       | VInt _ | VBool _ =>
           let i := match fst ex with VInt z => z | VBool true => 1%Z | _ => 0%Z end in
           p <- read_list (VRef fc) ;;
           match norm_index (zlen (snd p)) i with
           | Some n => write (fst p) (OList (remove_at n (snd p)))
           | None => fail IndexErr end
       | _ => fail TypeErr end)
      (fun _ h => PC sp fc F h) (IF F).
  Proof.
    intros Hl SF HV. unfold PC.
    assert (PE : forall h, IF F h /\ conf ct h (VRef fc) sp -> IF F h) by tauto.
    eapply T_bind; [apply T_hpure; [apply hpure_seq_extractor|exact PE]|]. intros ex.
    assert (W : T (fun h => IF F h /\ conf ct h (VRef fc) sp)
                  (let i := match fst ex with VInt z => z | VBool true => 1%Z | _ => 0%Z end in
                   p <- read_list (VRef fc) ;;
                   match norm_index (zlen (snd p)) i with
                   | Some n => write (fst p) (OList (remove_at n (snd p)))
                   | None => fail IndexErr end)
                  (fun _ h => IF F h /\ conf ct h (VRef fc) sp) (IF F)).
    { cbv zeta. eapply T_bind; [apply T_read_list; exact PE|]. intros [c xs]. cbn [fst snd].
      destruct (norm_index _ _) as [n|]; [|apply T_fail; tauto].
      intros s [H [-> N]]. apply (shrink_write sp FSeq fc (OList (remove_at n xs)) F Hl SF HV s).
      split; auto. exists (OList xs). split; auto. simpl. intros f. apply forallb_remove_at. }
    destruct (fst ex); try (apply T_fail; tauto); try exact W. apply T_ret. auto.
  Qed.

  Lemma remove_map sp fc v F :
    leaf_coll sp FMap -> cstable F ->
    (forall h, Inv h -> F h -> refcount h fc = 0 \/ only_view ct h fc (a_ty sp)) ->
    T (PC sp fc F)
      (ex <- map_extractor ct (VRef fc) v true ;;
       p <- read_dict (VRef fc) ;;
       h' <- get_heap ;;
       write (fst p) (ODict (filter (fun q => negb (val_eqb FUEL ct h' (fst q) (fst ex))) (snd p))))
      (fun _ h => PC sp fc F h) (IF F).
  Proof.
    intros Hl SF HV. unfold PC.
    assert (PE : forall h, IF F h /\ conf ct h (VRef fc) sp -> IF F h) by tauto.
    eapply T_bind; [apply T_hpure; [apply hpure_map_extractor|exact PE]|]. intros ex.
    eapply T_bind; [apply T_read_dict; exact PE|]. intros [c xs]. cbn [fst snd].
    eapply T_bind; [apply T_get_heap|]. intros h'.
    intros s [_ [H [-> N]]]. apply (shrink_write sp FMap fc _ F Hl SF HV s).
    split; auto. exists (ODict xs). split; auto. simpl. intros f. apply forallb_filter.
  Qed.

  Lemma T_set_discard (P : heap_t -> Prop) xs v (E : heap_t -> Prop) :
    (forall h, P h -> E h) ->
    T P (set_discard ct xs v) (fun xs' h => P h /\ exists g, xs' = filter g xs) E.
  Proof.
    intros HE. unfold set_discard. destruct (negb (hashable v)); [apply T_fail; auto|].
    intros s Ps. simpl. split; auto. eauto.
  Qed.

  Lemma remove_set sp fc v F :
    leaf_coll sp FSet -> cstable F ->
    (forall h, Inv h -> F h -> refcount h fc = 0 \/ only_view ct h fc (a_ty sp)) ->
    T (PC sp fc F)
      (ex <- set_extractor ct (VRef fc) v true ;;
       p <- read_set (VRef fc) ;;
       xs <- set_discard ct (snd p) (fst ex) ;;
       write (fst p) (OSet xs))
      (fun _ h => PC sp fc F h) (IF F).
  Proof.
    intros Hl SF HV. unfold PC.
    assert (PE : forall h, IF F h /\ conf ct h (VRef fc) sp -> IF F h) by tauto.
    eapply T_bind; [apply T_hpure; [apply hpure_set_extractor|exact PE]|]. intros ex.
    eapply T_bind; [apply T_read_set; exact PE|]. intros [c xs]. cbn [fst snd].
    eapply T_bind; [apply T_set_discard|]. { intros h [H _]. auto. }
    intros xs'.
    intros s [[H [-> N]] [g ->]]. apply (shrink_write sp FSet fc _ F Hl SF HV s).
    split; auto. exists (OSet xs). split; auto. simpl. intros f. apply forallb_filter.
  Qed.
End Remove.

Section WithoutItem.
  Variable ct : ctable.
  Hypothesis Hflat : flat_table ct.
  Hypothesis Hninv : inval_spec ct.
  Notation Inv := (Inv ct).
  Notation rec := (exec ct XFUEL).
  Local Opaque exec XFUEL.

  Definition remove_code (sp : attr_spec) (c : val) (hh : hargs) : M unit :=
    match family_of (a_ty sp) with
    | Some FSeq =>
        ex <- seq_extractor ct sp c (pos0 hh) true (tri_of (h_by_index hh)) ;;
        (match fst ex with
         | VNone => ret tt
         | VInt _ | VBool _ =>
             let i := match fst ex with VInt z => z | VBool true => 1%Z | _ => 0%Z end in
             p <- read_list c ;;
             match norm_index (zlen (snd p)) i with
             | Some n => write (fst p) (OList (remove_at n (snd p)))
             | None => fail IndexErr end
         | _ => fail TypeErr end)
    | Some FMap =>
        ex <- map_extractor ct c (pos0 hh) true ;;
        p <- read_dict c ;;
        h' <- get_heap ;;
        write (fst p) (ODict (filter (fun q => negb (val_eqb FUEL ct h' (fst q) (fst ex))) (snd p)))
    | Some FSet =>
        ex <- set_extractor ct c (pos0 hh) true ;;
        p <- read_set c ;;
        xs <- set_discard ct (snd p) (fst ex) ;;
        write (fst p) (OSet xs)
    | None => fail AttrErr end.

  Lemma remove_code_inv sp fam fc hh F :
    leaf_coll sp fam -> cstable F ->
    (forall h, Inv h -> F h -> refcount h fc = 0 \/ only_view ct h fc (a_ty sp)) ->
    T (fun h => IF ct F h /\ conf ct h (VRef fc) sp)
      (remove_code sp (VRef fc) hh ;;; ret (VRef fc))
      (fun r h => (IF ct F h /\ conf ct h (VRef fc) sp) /\ r = VRef fc) (IF ct F).
  Proof.
    intros Hl SF HV. pose proof Hl as (Hf & _).
    eapply T_bind with (Q := fun _ h => IF ct F h /\ conf ct h (VRef fc) sp);
      [|intros ?; apply T_ret; auto].
    unfold remove_code. rewrite Hf.
    destruct fam.
    - apply (remove_seq ct Hflat sp fc _ _ F Hl SF HV).
    - apply (remove_map ct Hflat sp fc _ F Hl SF HV).
    - apply (remove_set ct Hflat sp fc _ F Hl SF HV).
  Qed.

  (* without_<item>(x, _inplace=True) on a leaf collection attribute, every family *)
  Theorem without_item_inplace_coll l a hh s :
    h_inplace hh = true ->
    Inv (heap s) -> recv_leafc ct l a (heap s) -> dflt_missingc ct l a (heap s) ->
    Inv (heap (snd (run_helper ct l (HWithoutItem a) hh s))).
  Proof.
    intros Hin I R D. unfold run_helper. destruct (negb (h_if hh)); [exact I|]. rewrite Hin.
    cbv zeta.
    apply (elem_prefix ct l a s (fun r c00 =>
      c <- (if is_missing c00 then create_collection rec (snd r) else ret c00) ;;
      (remove_code (snd r) c hh ;;; mutate_attr ct rec l a c true false false false)) I R D).
    intros cl d k sp fam N Hk Ha Hl. pose proof Hl as (Hf & _). cbn [snd].
    split.
    - intros fc As. cbn [is_missing]. rewrite bind_ret_l.
      eapply (T_run _ _ _ _ Inv s); [apply (T_reassoc _ (remove_code sp (VRef fc) hh) (VRef fc) (fun c => mutate_attr ct rec l a c true false false false)); eapply (tail_held ct Hflat Hninv l cl d k a sp fam fc); eauto| | |]; auto.
      + intros F SF HV. apply (remove_code_inv sp fam fc hh F Hl SF HV).
      + split; auto.
    - intros As. cbn [is_missing].
      pose proof (create_coll ct Hflat rec sp fam (inst_at l cl d) Hf (astable_inst_at l cl d) s (conj I N)) as Cr.
      unfold bind at 1.
      destruct (create_collection rec sp s) as [[c1|err] s1]; [|exact (proj1 Cr)].
      destruct Cr as [[I1 N1] [fc [-> [L C]]]].
      eapply (T_run _ _ _ _ Inv s1); [apply (T_reassoc _ (remove_code sp (VRef fc) hh) (VRef fc) (fun c => mutate_attr ct rec l a c true false false false)); eapply (tail_loose ct Hflat Hninv l cl d k a sp fam fc); eauto| | |]; auto.
      + intros F SF HV. apply (remove_code_inv sp fam fc hh F Hl SF HV).
      + cbv beta. split; auto.
  Qed.

  Theorem step_without_item_inplace_coll roots x a hh s :
    h_inplace hh = true -> Inv (heap s) ->
    (forall l, nth x roots VNone = VRef l -> recv_leafc ct l a (heap s) /\ dflt_missingc ct l a (heap s)) ->
    Inv (heap (snd (step ct roots (OpHelper x (HWithoutItem a) hh) s))).
  Proof.
    intros Hin I R. unfold step.
    destruct (nth x roots VNone) as [| | | | | | | |l] eqn:Er; try exact I.
    cbn [loc_of]. rewrite bind_ret_l. destruct (R l eq_refl). apply without_item_inplace_coll; auto.
  Qed.
End WithoutItem.

(* ------------------------------------------------------------------ *)
(** * Computable guards and the combined statement *)
Definition qfn_b (f : fn) : bool :=
  match f with
  | FId | FAddInt _ | FRaise | FConst _ => true
  | FNewList xs => forallb (fun x => match x with VRef _ => false | _ => true end) xs
  | FDictOf _ x => match x with VRef _ => false | _ => true end
  | FAppended _ => false
  end.
Lemma qfn_b_sound f : qfn_b f = true -> qfn f.
Proof.
  destruct f; simpl; auto; try discriminate.
  - rewrite forallb_forall. intros H x Hx c ->. specialize (H _ Hx). discriminate.
  - destruct v; try discriminate; intros _ c E; discriminate.
Qed.
Definition oqfn_b (o : option fn) : bool := match o with Some f => qfn_b f | None => true end.
Lemma oqfn_b_sound o : oqfn_b o = true -> oqfn o.
Proof. destruct o; simpl; auto. apply qfn_b_sound. Qed.

Definition leaf_coll_b (sp : attr_spec) : bool :=
  match family_of (a_ty sp) with
  | Some _ => scalar_coll (a_ty sp) && (ty_depth (a_ty sp) <? FUEL)
              && oqfn_b (a_prepare sp) && oqfn_b (a_prepare_item sp)
  | None => false
  end.

Lemma leaf_coll_b_sound sp : leaf_coll_b sp = true -> exists fam, leaf_coll sp fam.
Proof.
  unfold leaf_coll_b, leaf_coll. destruct (family_of (a_ty sp)) as [fam|]; [|discriminate].
  rewrite !andb_true_iff. intros [[[H1 H2] H3] H4]. exists fam. split; auto. split; auto.
  split; [unfold shallow; now apply Nat.ltb_lt|].
  split; now apply oqfn_b_sound.
Qed.

Definition recv_leafc_b (ct : ctable) (h : heap_t) (recv : val) (a : aid) : bool :=
  match recv with
  | VRef l =>
      match nth_error h l with
      | Some (OInst cl d) =>
          match lookup_cls ct cl with
          | Some k => match lookup_attr k a with Some sp => leaf_coll_b sp | None => true end
          | None => true end
      | _ => true end
  | _ => true
  end.

Lemma recv_leafc_b_sound ct h recv a :
  recv_leafc_b ct h recv a = true -> forall l, recv = VRef l -> recv_leafc ct l a h.
Proof.
  intros H l -> cl d k sp N Hk Ha. simpl in H. rewrite N, Hk, Ha in H. now apply leaf_coll_b_sound.
Qed.

(* Operations covered.  A *leaf collection attribute* is annotated List[e], Set[e] or
   Dict[k,e] with scalar k, e (int/str/bool/None, Optional/Union of those) and has no
   _prepare_<attr> / _prepare_<item> callback.
   - obj.a = v and obj.with_<a>(v, _inplace=True): a leaf (or unmanaged) attribute, v a
     value nobody references (args_fresh; any value: scalars, conforming or ill-typed
     containers, dicts, other instances);
   - obj.with_<item>(..., _inplace=True) without keyword attributes and
     obj.without_<item>(..., _inplace=True): a leaf attribute that holds a collection or
     has no class-level default; ANY item / key / index arguments;
   - the caller building a container of scalars. *)
Definition owned_opc_b (ct : ctable) (h : heap_t) (roots : list val) (o : op) : bool :=
  match o with
  | OpSetAttr x a v => loose_b h v && recv_leafc_b ct h (nth x roots VNone) a
  | OpHelper x (HWith a) hh =>
      h_inplace hh && is_none (h_kw hh) && loose_b h (pos0 hh) && recv_leafc_b ct h (nth x roots VNone) a
  | OpHelper x (HWithItem a) hh =>
      h_inplace hh && is_none (h_kw hh) && recv_leafc_b ct h (nth x roots VNone) a
      && dflt_missing_b ct h (nth x roots VNone) a
  | OpHelper x (HWithoutItem a) hh =>
      h_inplace hh && recv_leafc_b ct h (nth x roots VNone) a && dflt_missing_b ct h (nth x roots VNone) a
  | OpAlloc ob => (shape ob <? 3) && norefs_b ob
  | _ => false
  end.

Theorem step_preserves_owned_coll ct roots o s :
  flat_table ct -> no_inval_b ct = true -> owned_opc_b ct (heap s) roots o = true ->
  TypeInv ct s -> Owned ct (heap s) ->
  TypeInv ct (snd (step ct roots o s)) /\ Owned ct (heap (snd (step ct roots o s))).
Proof.
  intros Hf Hn Hop T O. apply no_inval_b_sound in Hn. apply no_inval_spec in Hn.
  assert (I : Inv ct (heap s)) by (split; auto).
  change (Inv ct (heap (snd (step ct roots o s)))).
  destruct o as [| x a v | | x hp hh | | ob]; simpl in Hop; try discriminate.
  - apply andb_true_iff in Hop. destruct Hop as [H1 H2].
    apply step_setattr_coll; auto; [now apply loose_b_iff|now apply recv_leafc_b_sound].
  - destruct hp; try discriminate.
    + rewrite !andb_true_iff in Hop. destruct Hop as [[[H1 H2] H3] H4].
      apply step_with_inplace_coll; auto; [now apply loose_b_iff| |now apply recv_leafc_b_sound].
      destruct (h_kw hh); auto; discriminate.
    + rewrite !andb_true_iff in Hop. destruct Hop as [[[H1 H2] H3] H4].
      apply step_with_item_inplace_coll; auto.
      * destruct (h_kw hh); auto; discriminate.
      * intros l El. split; [eapply recv_leafc_b_sound; eauto|].
        exact (dflt_missing_b_sound ct (heap s) _ a H4 l El).
    + rewrite !andb_true_iff in Hop. destruct Hop as [[H1 H3] H4].
      apply step_without_item_inplace_coll; auto.
      intros l El. split; [eapply recv_leafc_b_sound; eauto|].
      exact (dflt_missing_b_sound ct (heap s) _ a H4 l El).
  - apply andb_true_iff in Hop. destruct Hop as [H1 H2]. simpl.
    apply Inv_alloc; auto; [now apply Nat.ltb_lt|now apply norefs_b_sound].
Qed.
