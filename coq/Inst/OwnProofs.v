(* C03, ownership of container cells.

   `Owned ct h`: the heap is closed (no dangling reference), instance dicts
   have unique keys, and every container cell held by a managed attribute with
   a List/Set/Dict annotation is referenced exactly once in the whole heap
   (reference count 1): no second managed slot, no unmanaged slot, no element
   position.  Under `Owned` a collection cell is viewed under one annotation
   only (`Owned_only_view`), which is the side condition of the inserter
   theorems of TypeProofs.v.

   This file: reference counting, the invariant `Inv = TI /\ Owned`, and its
   preservation by the single writes of the library (allocation of a cell
   without references, container write that adds no reference, instance-dict
   store of an unreferenced value or of the value already held, delete). *)
From Coq Require Import List ZArith Bool Arith Lia.
From SC Require Import Base.Res Base.PyList Inst.Heap Inst.ClassTable Inst.Model Inst.Framed Inst.TypeProofs.
Import ListNotations.
Open Scope nat_scope.
Set Warnings "-unused-intro-pattern".
#[local] Opaque FUEL.

(* ------------------------------------------------------------------ *)
(** * Reference counts *)
Definition is_ref (c : loc) (v : val) : bool := match v with VRef l => l =? c | _ => false end.
Definition cnt (c : loc) (vs : list val) : nat := length (filter (is_ref c) vs).

Definition obj_vals (o : obj) : list val :=
  match o with
  | OList xs | OSet xs => xs
  | ODict kvs => map fst kvs ++ map snd kvs
  | OInst _ d => map (@snd nat val) d
  end.
Definition orefs (c : loc) (o : obj) : nat := cnt c (obj_vals o).

Fixpoint refcount (h : heap_t) (c : loc) : nat :=
  match h with [] => 0 | o :: t => orefs c o + refcount t c end.

Lemma cnt_app c xs ys : cnt c (xs ++ ys) = cnt c xs + cnt c ys.
Proof. unfold cnt. now rewrite filter_app, app_length. Qed.

Lemma cnt_cons c x xs : cnt c (x :: xs) = (if is_ref c x then 1 else 0) + cnt c xs.
Proof. unfold cnt. simpl. destruct (is_ref c x); reflexivity. Qed.

Lemma is_ref_true c v : is_ref c v = true <-> v = VRef c.
Proof.
  destruct v; simpl; split; try discriminate; intro H.
  - apply Nat.eqb_eq in H. now subst.
  - inversion H. apply Nat.eqb_refl.
Qed.

Lemma cnt_In c vs : In (VRef c) vs -> 1 <= cnt c vs.
Proof.
  induction vs as [|x t IH]; intros []; rewrite cnt_cons.
  - subst. simpl. rewrite Nat.eqb_refl. lia.
  - specialize (IH H). lia.
Qed.

Lemma cnt_pos_In c vs : 1 <= cnt c vs -> In (VRef c) vs.
Proof.
  induction vs as [|x t IH]; [unfold cnt; simpl; lia|]. rewrite cnt_cons.
  destruct (is_ref c x) eqn:E; [apply is_ref_true in E; subst; simpl; auto|].
  intro H. right. apply IH. lia.
Qed.

Lemma refcount_app h1 h2 c : refcount (h1 ++ h2) c = refcount h1 c + refcount h2 c.
Proof. induction h1; simpl; auto. rewrite IHh1. lia. Qed.

Lemma refcount_set_nth h : forall l o o0 c,
  nth_error h l = Some o0 ->
  refcount (set_nth l o h) c + orefs c o0 = refcount h c + orefs c o.
Proof.
  induction h as [|x t IH]; intros [|l] o o0 c N; simpl in *; try discriminate.
  - inversion N; subst. lia.
  - specialize (IH l o o0 c N). lia.
Qed.

Lemma refcount_ge h : forall l o c, nth_error h l = Some o -> orefs c o <= refcount h c.
Proof.
  induction h as [|x t IH]; intros [|l] o c N; simpl in *; try discriminate.
  - inversion N; subst. lia.
  - specialize (IH l o c N). lia.
Qed.

Lemma refcount_ge2 h : forall l1 l2 o1 o2 c, l1 <> l2 ->
  nth_error h l1 = Some o1 -> nth_error h l2 = Some o2 -> orefs c o1 + orefs c o2 <= refcount h c.
Proof.
  induction h as [|x t IH]; intros [|l1] [|l2] o1 o2 c Ne N1 N2; simpl in *; try discriminate; try congruence.
  - inversion N1; subst. pose proof (refcount_ge t l2 o2 c N2). lia.
  - inversion N2; subst. pose proof (refcount_ge t l1 o1 c N1). lia.
  - assert (l1 <> l2) by congruence. specialize (IH l1 l2 o1 o2 c H N1 N2). lia.
Qed.

Lemma refcount_pos h : forall c, 1 <= refcount h c ->
  exists l o, nth_error h l = Some o /\ In (VRef c) (obj_vals o).
Proof.
  induction h as [|x t IH]; intros c H; simpl in H; [lia|].
  destruct (Nat.eq_dec (orefs c x) 0) as [E|E].
  - destruct (IH c) as [l [o [N I]]]; [lia|]. exists (S l), o. auto.
  - exists 0, x. split; auto. apply cnt_pos_In. unfold orefs in E. lia.
Qed.

(* ------------------------------------------------------------------ *)
(** * Well-formed heaps and ownership *)
Definition heap_closed (h : heap_t) : Prop :=
  forall l o c, nth_error h l = Some o -> In (VRef c) (obj_vals o) -> c < length h.

Definition keys_unique (h : heap_t) : Prop :=
  forall l cl d, nth_error h l = Some (OInst cl d) -> NoDup (map (@fst nat val) d).

(* every collection cell held by a managed collection attribute has reference count 1 *)
Definition own_slots (ct : ctable) (h : heap_t) : Prop :=
  forall l cl d k a c sp, nth_error h l = Some (OInst cl d) -> lookup_cls ct cl = Some k ->
    In (a, VRef c) d -> lookup_attr k a = Some sp -> flat_coll (a_ty sp) = true -> refcount h c = 1.

Definition Owned (ct : ctable) (h : heap_t) : Prop :=
  heap_closed h /\ keys_unique h /\ own_slots ct h.

(* executable forms *)
Definition closed_b (h : heap_t) : bool :=
  forallb (fun o => forallb (fun v => match v with VRef c => c <? length h | _ => true end) (obj_vals o)) h.

Fixpoint nodup_b (l : list nat) : bool :=
  match l with [] => true | x :: t => negb (existsb (Nat.eqb x) t) && nodup_b t end.

Definition keys_b (h : heap_t) : bool :=
  forallb (fun o => match o with OInst _ d => nodup_b (map (@fst nat val) d) | _ => true end) h.

Definition slots_b (ct : ctable) (h : heap_t) : bool :=
  forallb (fun o => match o with
                    | OInst cl d =>
                        match lookup_cls ct cl with
                        | Some k => forallb (fun p => match snd p, lookup_attr k (fst p) with
                                                      | VRef c, Some sp =>
                                                          if flat_coll (a_ty sp) then refcount h c =? 1 else true
                                                      | _, _ => true end) d
                        | None => true end
                    | _ => true end) h.

Definition owned_b (ct : ctable) (h : heap_t) : bool := closed_b h && keys_b h && slots_b ct h.

Lemma nodup_b_iff l : nodup_b l = true <-> NoDup l.
Proof.
  induction l as [|x t IH]; simpl.
  - split; intro H; [constructor|reflexivity].
  - split; intro H.
    + apply andb_true_iff in H. destruct H as [H1 H2]. constructor; [|now apply IH].
      intro Hin. apply negb_true_iff in H1. assert (existsb (Nat.eqb x) t = true); [|congruence].
      apply existsb_exists. exists x. split; auto. apply Nat.eqb_refl.
    + inversion H; subst. apply andb_true_iff. split; [|now apply IH].
      apply negb_true_iff. destruct (existsb (Nat.eqb x) t) eqn:E; auto.
      apply existsb_exists in E. destruct E as [y [Hy E]]. apply Nat.eqb_eq in E. subst. contradiction.
Qed.

Lemma closed_b_iff h : closed_b h = true <-> heap_closed h.
Proof.
  unfold closed_b, heap_closed. rewrite forallb_forall. split.
  - intros H l o c N I. apply nth_error_In in N. specialize (H _ N). rewrite forallb_forall in H.
    specialize (H _ I). now apply Nat.ltb_lt in H.
  - intros H o Hin. apply forallb_forall. intros v Hv. destruct v; auto. apply Nat.ltb_lt.
    apply In_nth_error in Hin. destruct Hin as [l0 N]. eapply H; eauto.
Qed.

Lemma keys_b_iff h : keys_b h = true <-> keys_unique h.
Proof.
  unfold keys_b, keys_unique. rewrite forallb_forall. split.
  - intros H l cl d N. apply nth_error_In in N. specialize (H _ N). simpl in H. now apply nodup_b_iff.
  - intros H o Hin. destruct o as [| | |cl d]; auto. apply nodup_b_iff.
    apply In_nth_error in Hin. destruct Hin as [l N]. eapply H; eauto.
Qed.

Lemma slots_b_iff ct h : slots_b ct h = true <-> own_slots ct h.
Proof.
  unfold slots_b, own_slots. rewrite forallb_forall. split.
  - intros H l cl d k a c sp N Hk Hi Ha Hf. apply nth_error_In in N. specialize (H _ N). simpl in H.
    rewrite Hk in H. rewrite forallb_forall in H. specialize (H _ Hi). simpl in H. rewrite Ha, Hf in H.
    now apply Nat.eqb_eq in H.
  - intros H o Hin. destruct o as [| | |cl d]; auto. destruct (lookup_cls ct cl) as [k|] eqn:Hk; auto.
    apply forallb_forall. intros [a v] Hi. simpl. destruct v; auto.
    destruct (lookup_attr k a) as [sp|] eqn:Ha; auto. destruct (flat_coll (a_ty sp)) eqn:Hf; auto.
    apply Nat.eqb_eq. apply In_nth_error in Hin. destruct Hin as [l0 N]. eapply H; eauto.
Qed.

Theorem owned_b_iff ct h : owned_b ct h = true <-> Owned ct h.
Proof.
  unfold owned_b, Owned. rewrite !andb_true_iff, closed_b_iff, keys_b_iff, slots_b_iff. tauto.
Qed.

(* a cell nobody references *)
Lemma refcount_fresh h c : heap_closed h -> length h <= c -> refcount h c = 0.
Proof.
  intros Hc L. destruct (Nat.eq_dec (refcount h c) 0) as [E|E]; auto.
  destruct (refcount_pos h c) as [l [o [N I]]]; [lia|]. specialize (Hc _ _ _ N I). lia.
Qed.

Lemma refcount_zero_no_ref h c l o :
  refcount h c = 0 -> nth_error h l = Some o -> ~ In (VRef c) (obj_vals o).
Proof.
  intros Z N I. pose proof (refcount_ge h l o c N). apply cnt_In in I. unfold orefs in H. lia.
Qed.

(* two entries of a dict hold the same reference: counted twice *)
Lemma cnt_two_entries c (d : list (nat * val)) a a' :
  a <> a' -> In (a, VRef c) d -> In (a', VRef c) d -> 2 <= cnt c (map snd d).
Proof.
  induction d as [|[x v] t IH]; intros Ne [] []; simpl map; rewrite cnt_cons.
  - congruence.
  - inversion H; subst. simpl. rewrite Nat.eqb_refl.
    assert (1 <= cnt c (map snd t)); [|lia]. apply cnt_In. apply in_map_iff. exists (a', VRef c). auto.
  - inversion H0; subst. simpl. rewrite Nat.eqb_refl.
    assert (1 <= cnt c (map snd t)); [|lia]. apply cnt_In. apply in_map_iff. exists (a, VRef c). auto.
  - specialize (IH Ne H H0). lia.
Qed.

Lemma entry_counted c (d : list (nat * val)) a : In (a, VRef c) d -> 1 <= cnt c (map snd d).
Proof. intro H. apply cnt_In. apply in_map_iff. exists (a, VRef c). auto. Qed.

(* the slot that owns a cell is its only view *)
Theorem Owned_only_view ct h l cl d k a c sp :
  Owned ct h -> nth_error h l = Some (OInst cl d) -> lookup_cls ct cl = Some k ->
  In (a, VRef c) d -> lookup_attr k a = Some sp -> flat_coll (a_ty sp) = true ->
  only_view ct h c (a_ty sp).
Proof.
  intros (_ & _ & Ho) N Hk Hi Ha Hf t' (l' & cl' & d' & k' & a' & sp' & N' & Hk' & Hi' & Ha' & <-) _.
  pose proof (Ho _ _ _ _ _ _ _ N Hk Hi Ha Hf) as R1.
  destruct (Nat.eq_dec l l') as [<-|Ne].
  - rewrite N in N'. inversion N'; subst cl' d'. rewrite Hk in Hk'. inversion Hk'; subst k'.
    destruct (Nat.eq_dec a a') as [<-|Na]; [congruence|].
    pose proof (cnt_two_entries c d a a' Na Hi Hi') as C2.
    pose proof (refcount_ge h l _ c N) as G. unfold orefs in G. simpl in G. lia.
  - pose proof (refcount_ge2 h l l' _ _ c Ne N N') as G. unfold orefs in G. simpl in G.
    pose proof (entry_counted c d a Hi). pose proof (entry_counted c d' a' Hi'). lia.
Qed.

Lemma refcount_zero_not_viewed ct h c t : refcount h c = 0 -> ~ viewed ct h c t.
Proof.
  intros Z (l & cl & d & k & a & sp & N & _ & Hi & _). eapply refcount_zero_no_ref; eauto.
  simpl. apply in_map_iff. exists (a, VRef c). auto.
Qed.

(* ------------------------------------------------------------------ *)
(** * The combined invariant and the single writes *)
Definition Inv (ct : ctable) (h : heap_t) : Prop := TI ct h /\ Owned ct h.

Definition norefs (o : obj) : Prop := forall c, ~ In (VRef c) (obj_vals o).

Lemma norefs_orefs o c : norefs o -> orefs c o = 0.
Proof.
  intro H. unfold orefs. destruct (Nat.eq_dec (cnt c (obj_vals o)) 0) as [E|E]; auto.
  exfalso. apply (H c). apply cnt_pos_In. lia.
Qed.

Lemma nth_error_snoc {A} (h : list A) o l x :
  nth_error (h ++ [o]) l = Some x -> (l < length h /\ nth_error h l = Some x) \/ (l = length h /\ x = o).
Proof.
  intro N. destruct (lt_dec l (length h)) as [L|L].
  - left. split; auto. now rewrite nth_error_app1 in N.
  - right. rewrite nth_error_app2 in N by lia.
    destruct (l - length h) as [|n] eqn:E; simpl in N; [|destruct n; discriminate].
    inversion N. split; auto. lia.
Qed.

Lemma NoDup_app_cons_end {A} (l : list A) x : NoDup l -> ~ In x l -> NoDup (l ++ [x]).
Proof.
  induction l as [|y t IH]; simpl; intros Nd Nin; [constructor; auto; constructor|].
  inversion Nd; subst. constructor.
  - intro H. apply in_app_or in H. destruct H as [H|[H|[]]]; [contradiction|subst; apply Nin; auto].
  - apply IH; auto.
Qed.

Section Writes.
  Variable ct : ctable.
  Hypothesis Hflat : flat_table ct.

  (* allocation of a container that holds no reference *)
  Theorem Inv_alloc h o : Inv ct h -> shape o < 3 -> norefs o -> Inv ct (h ++ [o]).
  Proof.
    intros [T (Hc & Hk & Ho)] S Nr. split.
    - apply TI_alloc; auto. destruct o; simpl in *; auto. lia.
    - split; [|split].
      + intros l x c N I. rewrite app_length. simpl.
        apply nth_error_snoc in N. destruct N as [[L N]|[-> ->]].
        * specialize (Hc _ _ _ N I). lia.
        * exfalso. eapply Nr; eauto.
      + intros l cl d N. apply nth_error_snoc in N. destruct N as [[L N]|[-> E]]; [eauto|].
        subst o. simpl in S. lia.
      + intros l cl d k a c sp N Hk' Hi Ha Hf. rewrite refcount_app. simpl.
        rewrite (norefs_orefs o c Nr). apply nth_error_snoc in N. destruct N as [[L N]|[-> E]].
        * rewrite (Ho _ _ _ _ _ _ _ N Hk' Hi Ha Hf). lia.
        * subst o. simpl in S. lia.
  Qed.

  Lemma set_nth_inst_other h c o o0 l cl d :
    nth_error h c = Some o0 -> shape o = shape o0 -> shape o0 < 3 ->
    nth_error (set_nth c o h) l = Some (OInst cl d) -> nth_error h l = Some (OInst cl d) /\ l <> c.
  Proof.
    intros N S Sc N1. destruct (Nat.eq_dec c l) as [<-|Ne].
    - rewrite nth_error_set_nth_same in N1 by (apply nth_error_Some; congruence).
      inversion N1; subst. simpl in S. lia.
    - rewrite set_nth_other in N1 by auto. auto.
  Qed.

  (* a container write that adds no reference, accepted by every view of the cell *)
  Theorem Inv_write_container h c o0 o :
    Inv ct h -> nth_error h c = Some o0 -> shape o = shape o0 -> shape o0 < 3 ->
    (forall c', orefs c' o <= orefs c' o0) ->
    (forall t, viewed ct h c t -> flat_coll t = true ->
               check_type FUEL ct (set_nth c o h) (VRef c) t = true) ->
    Inv ct (set_nth c o h).
  Proof.
    intros [T (Hc & Hk & Ho)] N S Sc Le Hv. split; [eapply TI_write_container; eauto|].
    split; [|split].
    - intros l x c1 N1 I. rewrite set_nth_length.
      destruct (Nat.eq_dec c l) as [<-|Ne].
      + rewrite nth_error_set_nth_same in N1 by (apply nth_error_Some; congruence). inversion N1; subst x.
        apply cnt_In in I. specialize (Le c1). unfold orefs in Le.
        eapply Hc; [exact N|]. apply cnt_pos_In. lia.
      + rewrite set_nth_other in N1 by auto. eapply Hc; eauto.
    - intros l cl d N1. destruct (set_nth_inst_other _ _ _ _ _ _ _ N S Sc N1) as [N0 _]. eauto.
    - intros l cl d k a c1 sp N1 Hk1 Hi Ha Hf.
      destruct (set_nth_inst_other _ _ _ _ _ _ _ N S Sc N1) as [N0 Ne].
      pose proof (Ho _ _ _ _ _ _ _ N0 Hk1 Hi Ha Hf) as R1.
      pose proof (refcount_set_nth h c o o0 c1 N) as E.
      pose proof (refcount_ge2 h l c _ _ c1 Ne N0 N) as G. unfold orefs at 1 in G. simpl in G.
      pose proof (entry_counted c1 d a Hi). specialize (Le c1). lia.
  Qed.

  (* a write to a cell nobody references (a collection being built) *)
  Theorem Inv_write_loose h c o0 o :
    Inv ct h -> nth_error h c = Some o0 -> shape o = shape o0 -> shape o0 < 3 ->
    (forall c', orefs c' o <= orefs c' o0) -> refcount h c = 0 -> Inv ct (set_nth c o h).
  Proof.
    intros I N S Sc Le Z. eapply Inv_write_container; eauto.
    intros t V _. exfalso. eapply refcount_zero_not_viewed; eauto.
  Qed.

  Lemma cnt_le_filter c f (vs : list val) : cnt c (filter f vs) <= cnt c vs.
  Proof.
    induction vs as [|x t IH]; simpl; auto. destruct (f x); rewrite !cnt_cons; lia.
  Qed.

  (* ---------- instance dict ---------- *)
  Lemma map_replace_absent {A} a (v : A) (t : list (nat * A)) :
    ~ In a (map fst t) -> map (fun p : nat * A => if fst p =? a then (a, v) else p) t = t.
  Proof.
    induction t as [|[x y] t IH]; simpl; auto. intro Nin.
    destruct (x =? a) eqn:E.
    - apply Nat.eqb_eq in E. subst. exfalso. apply Nin. auto.
    - f_equal. apply IH. intro H. apply Nin. auto.
  Qed.

  Lemma assoc_set_same {A} a (v : A) d :
    NoDup (map fst d) -> assoc a d = Some v -> assoc_set a v d = d.
  Proof.
    unfold assoc, assoc_set. intros Nd As.
    destruct (find (fun p : nat * A => fst p =? a) d) as [[x y]|] eqn:F; simpl in As; [|discriminate].
    inversion As; subst y. pose proof (find_some _ _ F) as [Hin E]. simpl in E. apply Nat.eqb_eq in E. subst x.
    assert (Ex : existsb (fun p : nat * A => fst p =? a) d = true).
    { apply existsb_exists. exists (a, v). split; auto. simpl. apply Nat.eqb_refl. }
    rewrite Ex. clear F Ex.
    induction d as [|[x y] t IH]; simpl; auto. simpl in Nd. inversion Nd as [|? ? Nin Nd']; subst.
    destruct Hin as [E|Hin].
    - inversion E; subst. simpl. rewrite Nat.eqb_refl. f_equal. now apply map_replace_absent.
    - destruct (x =? a) eqn:E2.
      + apply Nat.eqb_eq in E2. subst. exfalso. apply Nin. apply in_map_iff. exists (a, v). auto.
      + f_equal. apply IH; auto.
  Qed.

  Lemma set_nth_same_val {A} l (x : A) h : nth_error h l = Some x -> set_nth l x h = h.
  Proof. revert l. induction h as [|y t IH]; intros [|l] N; simpl in *; try discriminate; [inversion N; auto|f_equal; auto]. Qed.

  (* the values of assoc_set: the new value replaces the entries of key a, or is appended *)
  Lemma cnt_assoc_set_le c a v (d : list (nat * val)) :
    is_ref c v = false -> cnt c (map snd (assoc_set a v d)) <= cnt c (map snd d).
  Proof.
    intro Hv. unfold assoc_set. destruct (existsb (fun p : nat * val => fst p =? a) d).
    - induction d as [|[x y] t IH]; simpl; auto. rewrite !cnt_cons.
      destruct (x =? a); cbn [snd fst]; [rewrite Hv|]; lia.
    - rewrite map_app, cnt_app. simpl map. rewrite cnt_cons, Hv. assert (Z0 : cnt c [] = 0) by reflexivity. rewrite Z0. lia.
  Qed.

  Lemma cnt_assoc_set_new c a (d : list (nat * val)) :
    NoDup (map fst d) -> cnt c (map snd d) = 0 -> cnt c (map snd (assoc_set a (VRef c) d)) = 1.
  Proof.
    intros Nd Z. unfold assoc_set. destruct (existsb (fun p : nat * val => fst p =? a) d) eqn:Ex.
    - induction d as [|[x y] t IH]; simpl in *; [discriminate|].
      inversion Nd as [|? ? Nin Nd']; subst. rewrite cnt_cons in Z. rewrite cnt_cons.
      destruct (x =? a) eqn:E.
      + apply Nat.eqb_eq in E. subst x. simpl. rewrite Nat.eqb_refl.
        assert (M : map (fun p : nat * val => if fst p =? a then (a, VRef c) else p) t = t)
          by now apply map_replace_absent.
        rewrite M. lia.
      + cbn [orb] in Ex. cbn [snd] in *.
        assert (Zt : cnt c (map snd t) = 0) by lia. rewrite IH; auto. destruct (is_ref c y); lia.
    - rewrite map_app, cnt_app. simpl map. rewrite cnt_cons. simpl is_ref. rewrite Nat.eqb_refl. assert (Z0 : cnt c [] = 0) by reflexivity. rewrite Z0. lia.
  Qed.

  Lemma assoc_set_keys {A} a (v : A) d : NoDup (map fst d) -> NoDup (map fst (assoc_set a v d)).
  Proof.
    intro Nd. unfold assoc_set. destruct (existsb (fun p : nat * A => fst p =? a) d) eqn:Ex.
    - assert (M : map fst (map (fun p : nat * A => if fst p =? a then (a, v) else p) d) = map fst d).
      { rewrite map_map. apply map_ext. intros [x y]. simpl. destruct (x =? a) eqn:E; auto.
        apply Nat.eqb_eq in E. now subst. }
      now rewrite M.
    - rewrite map_app. simpl. apply NoDup_app_cons_end; auto.
      intro Hin. apply in_map_iff in Hin. destruct Hin as [[x y] [E Hin]]. simpl in E. subst x.
      assert (existsb (fun p : nat * A => fst p =? a) d = true); [|congruence].
      apply existsb_exists. exists (a, y). split; auto. simpl. apply Nat.eqb_refl.
  Qed.
End Writes.

(* ------------------------------------------------------------------ *)
(** * Instance-dict writes *)
Definition loose (h : heap_t) (v : val) : Prop :=
  match v with VRef c => c < length h /\ refcount h c = 0 | _ => True end.

Definition loose_b (h : heap_t) (v : val) : bool :=
  match v with VRef c => (c <? length h) && (refcount h c =? 0) | _ => true end.

Lemma loose_b_iff h v : loose_b h v = true <-> loose h v.
Proof.
  destruct v; simpl; try tauto. rewrite andb_true_iff, Nat.ltb_lt, Nat.eqb_eq. tauto.
Qed.

Lemma is_ref_false_ne c v : (forall c0, v = VRef c0 -> c0 <> c) -> is_ref c v = false.
Proof.
  intro H. destruct v; auto. simpl. apply Nat.eqb_neq. now apply H.
Qed.

Lemma NoDup_map_filter {A B} (f : A -> B) g (l : list A) : NoDup (map f l) -> NoDup (map f (filter g l)).
Proof.
  induction l as [|x t IH]; simpl; auto. intro Nd. inversion Nd; subst.
  destruct (g x); simpl; auto. constructor; auto.
  intro Hin. apply H1. apply in_map_iff in Hin. destruct Hin as [y [E Hy]]. apply filter_In in Hy.
  apply in_map_iff. exists y. tauto.
Qed.

Lemma cnt_map_filter_le c (g : nat * val -> bool) (d : list (nat * val)) :
  cnt c (map snd (filter g d)) <= cnt c (map snd d).
Proof.
  induction d as [|x t IH]; simpl; auto. destruct (g x); simpl map; rewrite !cnt_cons; lia.
Qed.

Section InstWrites.
  Variable ct : ctable.
  Hypothesis Hflat : flat_table ct.

  (* writing the dict d' over d in cell l: what Owned needs *)
  Lemma Owned_write_inst h l cl (d d' : list (nat * val)) :
    Owned ct h -> nth_error h l = Some (OInst cl d) ->
    NoDup (map fst d') ->
    (forall a1 c1, In (a1, VRef c1) d' -> c1 < length h) ->
    (* every collection slot of d' is an old slot whose count did not grow, or counts exactly once *)
    (forall a1 c1, In (a1, VRef c1) d' ->
        (In (a1, VRef c1) d /\ cnt c1 (map snd d') <= cnt c1 (map snd d)) \/
        (refcount h c1 = 0 /\ cnt c1 (map snd d') = 1)) ->
    (forall c1, 1 <= refcount h c1 -> cnt c1 (map snd d') <= cnt c1 (map snd d)) ->
    Owned ct (set_nth l (OInst cl d') h).
  Proof.
    intros (Hc & Hk & Ho) N Nd Hcl Hslot Hmono.
    assert (L : l < length h) by (apply nth_error_Some; congruence).
    split; [|split].
    - intros l1 x c1 N1 I. rewrite set_nth_length. destruct (Nat.eq_dec l l1) as [<-|Ne].
      + rewrite nth_error_set_nth_same in N1 by auto. inversion N1; subst x. simpl in I.
        apply in_map_iff in I. destruct I as [[a1 v1] [E I]]. simpl in E. subst v1. eapply Hcl; eauto.
      + rewrite set_nth_other in N1 by auto. eapply Hc; eauto.
    - intros l1 cl1 d1 N1. destruct (Nat.eq_dec l l1) as [<-|Ne].
      + rewrite nth_error_set_nth_same in N1 by auto. inversion N1; subst. exact Nd.
      + rewrite set_nth_other in N1 by auto. eauto.
    - intros l1 cl1 d1 k a1 c1 sp N1 Hk1 Hi Ha Hf.
      pose proof (refcount_set_nth h l (OInst cl d') (OInst cl d) c1 N) as E.
      unfold orefs in E. simpl in E.
      assert (G1 : 1 <= refcount (set_nth l (OInst cl d') h) c1).
      { pose proof (refcount_ge _ _ _ c1 N1) as G. unfold orefs in G. simpl in G.
        pose proof (entry_counted c1 d1 a1 Hi). lia. }
      destruct (Nat.eq_dec l l1) as [<-|Ne].
      + rewrite nth_error_set_nth_same in N1 by auto. inversion N1; subst cl1 d1.
        destruct (Hslot _ _ Hi) as [[Hi0 Le]|[Z One]].
        * pose proof (Ho _ _ _ _ _ _ _ N Hk1 Hi0 Ha Hf) as R1. lia.
        * pose proof (refcount_ge h l _ c1 N) as G. unfold orefs in G. simpl in G. lia.
      + rewrite set_nth_other in N1 by auto.
        pose proof (Ho _ _ _ _ _ _ _ N1 Hk1 Hi Ha Hf) as R1.
        assert (Le := Hmono c1). lia.
  Qed.

  (* storing a value nobody references (or a non-reference) in attribute a of l *)
  Theorem Inv_store h l cl (d : list (nat * val)) a v :
    Inv ct h -> nth_error h l = Some (OInst cl d) ->
    (forall k sp, lookup_cls ct cl = Some k -> lookup_attr k a = Some sp ->
                  check_type FUEL ct h v (a_ty sp) = true) ->
    loose h v -> Inv ct (set_nth l (OInst cl (assoc_set a v d)) h).
  Proof.
    intros [T O] N Hv Lv. pose proof O as (Hc & Hk & Ho). split.
    - eapply TI_write_inst; eauto. intros k a0 v0 sp Hk0 Hi Ha _.
      apply assoc_set_in in Hi. destruct Hi as [Hi|[-> ->]]; [eapply T; eauto|eauto].
    - pose proof (Hk _ _ _ N) as Nd.
      assert (Zd : forall c, v = VRef c -> cnt c (map snd d) = 0).
      { intros c ->. destruct Lv as [_ Z]. pose proof (refcount_ge h l _ c N) as G.
        unfold orefs in G. simpl in G. lia. }
      eapply Owned_write_inst; eauto.
      + now apply assoc_set_keys.
      + intros a1 c1 Hi. apply assoc_set_in in Hi. destruct Hi as [Hi|[-> E]].
        * eapply Hc; [exact N|]. simpl. apply in_map_iff. exists (a1, VRef c1). auto.
        * subst v. apply Lv.
      + intros a1 c1 Hi. apply assoc_set_in in Hi. destruct Hi as [Hi|[-> E]].
        * left. split; auto. apply cnt_assoc_set_le. apply is_ref_false_ne. intros c0 Ev Ec. subst c0.
          specialize (Zd _ Ev). pose proof (entry_counted c1 d a1 Hi). lia.
        * right. subst v. split; [apply Lv|]. apply cnt_assoc_set_new; auto.
      + intros c1 G. apply cnt_assoc_set_le. apply is_ref_false_ne. intros c0 Ev Ec. subst c0 v.
        destruct Lv as [_ Z]. lia.
  Qed.

  (* storing again the value the attribute already holds changes nothing *)
  Theorem Inv_restore h l cl (d : list (nat * val)) a v :
    Inv ct h -> nth_error h l = Some (OInst cl d) -> assoc a d = Some v ->
    set_nth l (OInst cl (assoc_set a v d)) h = h.
  Proof.
    intros [_ (_ & Hk & _)] N As. rewrite assoc_set_same; auto.
    - now apply set_nth_same_val.
    - eapply Hk; eauto.
  Qed.

  Theorem Inv_delete h l cl (d : list (nat * val)) a :
    Inv ct h -> nth_error h l = Some (OInst cl d) -> Inv ct (set_nth l (OInst cl (assoc_del a d)) h).
  Proof.
    intros [T O] N. pose proof O as (Hc & Hk & Ho). split.
    - eapply TI_write_inst; eauto. intros k a0 v0 sp Hk0 Hi Ha _.
      apply assoc_del_in in Hi. eapply T; eauto.
    - eapply Owned_write_inst; eauto.
      + unfold assoc_del. apply NoDup_map_filter. eapply Hk; eauto.
      + intros a1 c1 Hi. apply assoc_del_in in Hi.
        eapply Hc; [exact N|]. simpl. apply in_map_iff. exists (a1, VRef c1). auto.
      + intros a1 c1 Hi. left. split; [eapply assoc_del_in; eauto|]. apply cnt_map_filter_le.
      + intros c1 _. apply cnt_map_filter_le.
  Qed.
End InstWrites.
