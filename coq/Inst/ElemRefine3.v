(* C06: third layer of the refinement of the element helpers: update_<item> and
   transform_<item> in place on a list attribute of proper scalars (target by
   value or by index, `_by_index` given or defaulted, absent targets; new value
   given or not; pool transforms that map scalars to scalars, or raise). *)
From Coq Require Import List ZArith Bool Arith Lia.
From SC Require Import Base.Res Base.PyList Inst.Heap Inst.ClassTable Inst.Model Inst.Canon
  Inst.Abs Inst.SpecHelpers Inst.ElemProofs Inst.Framed Inst.RefineProofs Inst.CopyProofs Inst.ElemRefineDep Inst.ElemRefine
  Inst.ElemRefine2.
Import ListNotations.
Open Scope nat_scope.

#[local] Opaque FUEL.
Local Opaque py_eq.

Lemma bind_ret_r {A} (m : M A) s : bind m ret s = m s.
Proof. unfold bind. destruct (m s) as [[x|e] s1]; reflexivity. Qed.

(* the pool functions an element of scalars can be transformed with *)
Definition pool_fn (f : fn) : bool :=
  scalar_fn f || match f with FRaise => true | _ => false end.

Lemma apply_fn_pool f v s : fail_at s = None -> pool_fn f = true -> vscalar v = true ->
  match afn f (abs0 v) with
  | SOk a => exists v', apply_fn f v s = (Ok v', ticked s) /\ a = abs0 v' /\ vscalar v' = true
  | SErr e => apply_fn f v s = (Err e, ticked s)
  | _ => False
  end.
Proof.
  intros Hs Hf Hv. unfold pool_fn in Hf. destruct (scalar_fn f) eqn:E.
  - now apply apply_fn_scalar.
  - destruct f; cbn [orb] in Hf; try discriminate. cbn [afn]. unfold apply_fn.
    now rewrite (bind_ok _ _ _ _ _ (tick_run s Hs)).
Qed.

Lemma vscalar_forall_nonref xs : forallb vscalar xs = true -> forallb nonref xs = true.
Proof. rewrite !forallb_forall. intros H x Hx. apply vscalar_nonref. auto. Qed.

Lemma forallb_set_at (f : val -> bool) n v (ys : list val) : forallb f ys = true -> f v = true -> forallb f (set_at n v ys) = true.
Proof.
  intros H Hv. unfold set_at. apply forallb_app_true; [now apply forallb_firstn|].
  cbn [forallb]. rewrite Hv. cbn [andb]. now apply forallb_skipn.
Qed.

Lemma nth_In_or_default {A} n (xs : list A) dflt : n < length xs -> In (nth n xs dflt) xs.
Proof. intro H. now apply nth_In. Qed.

(* ------------------------------------------------------------------ *)
(** * The value procedure on an element that is a proper scalar *)

Section ElemValue.
  Variable ct : ctable.
  Variable rec : call -> M val.
  Variable sp : attr_spec.
  Variable ity : ty.

  (* transform_<item>: no new value, the old element is transformed *)
  Lemma mutate_value_transform_scalar inst old fo s :
    vscalar old = true ->
    mutate_value ct rec (mkmv old VMissing false (PItem sp inst) None (Some (ctor_of_ty ity)) (Some ity)
                              (match fo with Some f => Some (XFn f, None) | None => None end) [] false) s
    = match fo with Some f => apply_fn f old s | None => (Ok old, s) end.
  Proof.
    intros Ho.
    destruct old; cbn [vscalar] in Ho; try discriminate; destruct fo as [f|];
      unfold mutate_value; cbn [mv_new]; unfold mutate_value_body;
      cbn [mv_new mv_old mv_replace mv_prepare mv_attrs mv_ctor mv_expected mv_transform mv_attr_transforms
           mv_inplace is_missing negb andb orb];
      rewrite ?bind_ret; unfold get_heap; unfold bind at 1; cbn [is_missing andb];
      rewrite ?bind_ret; cbn [apply_xform]; try (now rewrite bind_ret_r); reflexivity.
  Qed.

  (* update_<item> without a new value (MISSING / EMPTY / UNCHANGED): the old element *)
  Lemma mutate_value_update_sentinel inst old new s :
    vscalar old = true -> vscalar new = false -> nonref new = true ->
    mutate_value ct rec (mkmv old new false (PItem sp inst) None (Some (ctor_of_ty ity)) (Some ity) None [] false) s
    = (Ok old, s).
  Proof.
    intros Ho Hn Hr.
    destruct new; cbn [vscalar nonref] in Hn, Hr; try discriminate; [| |reflexivity];
      destruct old; cbn [vscalar] in Ho; try discriminate; reflexivity.
  Qed.

  (* update_<item> with a new proper scalar: the new element (no item preparer, no key promotion) *)
  Lemma mutate_value_update_scalar inst old new s :
    a_ty sp = TList ity -> a_prepare_item sp = None -> spec_of_ty_strict ity = None ->
    vscalar new = true ->
    mutate_value ct rec (mkmv old new false (PItem sp inst) None (Some (ctor_of_ty ity)) (Some ity) None [] false) s
    = (Ok new, s).
  Proof.
    intros Hty Hprep Hstrict Hv.
    assert (E : prepare_item ct rec sp inst new s = (Ok new, s)).
    { unfold prepare_item. rewrite Hprep, bind_ret, (item_type_sp sp ity Hty), Hstrict. reflexivity. }
    destruct new; cbn [vscalar] in Hv; try discriminate;
      unfold mutate_value; cbn [mv_new]; unfold mutate_value_body;
      cbn [mv_new mv_old mv_replace mv_prepare is_missing negb andb orb];
      rewrite (bind_ok _ _ _ _ _ E); reflexivity.
  Qed.
End ElemValue.

(* ------------------------------------------------------------------ *)
(** * By-value addressing hands the ARGUMENT to the value procedure, not the stored element *)

(* every element equal (==) to the target is the very same scalar (no True/1 mix) *)
Definition ident_on_eq (ct : ctable) (xs : list val) (voi : val) : bool :=
  forallb (fun x => negb (py_eq ct (abs0 x) (abs0 voi)) || aval_eqb (abs0 x) (abs0 voi)) xs.

Lemma abs0_inj a b : nonref a = true -> nonref b = true -> abs0 a = abs0 b -> a = b.
Proof. destruct a, b; cbn [nonref abs0]; intros; try discriminate; congruence. Qed.

Lemma ident_on_eq_found ct xs voi n :
  forallb nonref xs = true -> nonref voi = true -> ident_on_eq ct xs voi = true ->
  find_index (fun x => py_eq ct x (abs0 voi)) (map abs0 xs) = Some n -> nth n xs VMissing = voi.
Proof.
  intros Hxs Hv Hid Hf. rewrite find_index_map in Hf. apply find_index_spec in Hf.
  destruct Hf as [[x [Hx Ex]] _]. rewrite (nth_error_nth _ _ _ Hx).
  apply nth_error_In in Hx. unfold ident_on_eq in Hid. rewrite forallb_forall in Hid, Hxs.
  specialize (Hid x Hx). rewrite Ex in Hid. cbn [negb orb] in Hid. apply aval_eqb_eq in Hid.
  apply abs0_inj; auto.
Qed.

(* ------------------------------------------------------------------ *)
(** * update_<item> / transform_<item> in place on a list attribute of proper scalars *)

Section ChangeItemList.
  Variable ct : ctable.
  Variable h0 : list obj.
  Variables (l : loc) (a : aid) (c : cid) (d : list (aid * val)) (k : cls) (sp : attr_spec).
  Variable s : state.
  Variables (lc : loc) (xs : list val) (ity : ty).
  Hypothesis Hl : nth_error (heap s) l = Some (OInst c d).
  Hypothesis Hc : lookup_cls ct c = Some k.
  Hypothesis Ha : lookup_attr k a = Some sp.
  Hypothesis Hd : NoDup (map fst d).
  Hypothesis Hfz : c_frozen k = false.
  Hypothesis Hni : no_dep k a.
  Hypothesis Hty : a_ty sp = TList ity.
  Hypothesis Hdepth : ty_depth ity < FUEL.
  Hypothesis Hfld : assoc a d = Some (VRef lc).
  Hypothesis Hlc : nth_error (heap s) lc = Some (OList xs).
  Hypothesis Hxs : forallb vscalar xs = true.
  Hypothesis Hflat : flat_fields (heap s) d.
  Hypothesis Hshare : forall b w, In (b, w) d -> b <> a -> w <> VRef lc.

  Let flds := map (fun p => (fst p, abs 23 (heap s) (snd p))) (sorted_fields d).
  Let axs := map abs0 xs.

  Lemma ch_xn : forallb nonref xs = true.
  Proof. now apply vscalar_forall_nonref. Qed.

  Lemma ch_acur : abs 23 (heap s) (VRef lc) = AList axs.
  Proof. exact (abs_list_scalars (heap s) lc xs 22 Hlc ch_xn). Qed.

  Lemma ch_coll : ty_is_collection (a_ty sp) = true.
  Proof. now rewrite Hty. Qed.

  Section Generic.
    (* what the value procedure does to the element handed to it *)
    Variable new : val.
    Variable x : option (xform * option (attr_spec * loc)).
    Variable okold : val -> Prop.
    Variable pr : val -> res val.
    Variable st : state.
    Hypothesis Hst : heap st = heap s.
    Hypothesis Hmv : forall old, okold old ->
      mutate_value ct (exec ct 39) (mkmv old new false (PItem sp l) None (Some (ctor_of_ty ity)) (Some ity) x [] false) s
      = (pr old, st).
    Hypothesis Hpr : forall old v', pr old = Ok v' -> nonref v' = true.
    Hypothesis Hin : forall old, In old xs -> okold old.

    Definition ch_finish (n : nat) : res val * state :=
      match pr (nth n xs VMissing) with
      | Ok v' => if conforms ct ity (abs0 v')
                 then (Ok (VRef lc), upd st lc (OList (set_at n v' xs))) else (Err ValueErr, st)
      | Err e => (Err e, st)
      end.

    Lemma ch_tail idx i n old :
      vint_of idx = Some i -> norm_index (zlen xs) i = Some n -> okold old -> pr old = pr (nth n xs VMissing) ->
      (new_item <- exec ct XFUEL (KMutateValue (mkmv old new false (PItem sp l) None
                       (Some (ctor_of_ty (item_type (a_ty sp)))) (Some (item_type (a_ty sp))) x [] false)) ;;
       seq_inserter ct sp (VRef lc) idx new_item false ;;; ret (VRef lc)) s = ch_finish n.
    Proof.
      intros Hi Hn Hok Hsame. unfold ch_finish. rewrite <- Hsame.
      assert (Hrun : exec ct XFUEL (KMutateValue (mkmv old new false (PItem sp l) None
                       (Some (ctor_of_ty (item_type (a_ty sp)))) (Some (item_type (a_ty sp))) x [] false)) s
                     = (pr old, st)).
      { rewrite XFUEL_S, exec_S. cbn [body]. rewrite (item_type_sp sp ity Hty). now apply Hmv. }
      destruct (pr old) as [v'|e] eqn:Ep; [|now rewrite (bind_err _ _ _ _ _ Hrun)].
      rewrite (bind_ok _ _ _ _ _ Hrun).
      assert (Hlc' : nth_error (heap st) lc = Some (OList xs)) by (now rewrite Hst).
      unfold bind.
      rewrite (seq_inserter_run ct sp ity Hty Hdepth lc xs idx v' false st Hlc' (Hpr old v' Ep)).
      destruct (conforms ct ity (abs0 v')); [|reflexivity].
      destruct idx as [| | | |[|]|z| | |]; cbn [vint_of] in Hi; try discriminate; inversion Hi; subst i;
        cbv zeta; rewrite Hn; reflexivity.
    Qed.

    (* _mutate_collection for update_<item> / transform_<item> *)
    Lemma mc_change voi bi :
      nonref voi = true -> is_missing voi = false ->
      (by_index_rule ct ity (abs0 voi) bi = false ->
       forall n, find_index (fun y => py_eq ct y (abs0 voi)) axs = Some n ->
                 okold voi /\ pr voi = pr (nth n xs VMissing)) ->
      mutate_collection ct (exec ct XFUEL) FSeq sp l (VRef lc)
        (mkio voi new None x [] false true (tri_of bi) false) s =
      if by_index_rule ct ity (abs0 voi) bi then
        match vint_of voi with
        | Some i => match norm_index (zlen xs) i with
                    | Some n => ch_finish n
                    | None => (Err IndexErr, s) end
        | None => (Err TypeErr, s)
        end
      else match find_index (fun y => py_eq ct y (abs0 voi)) axs with
           | Some n => ch_finish n
           | None => (Err ValueErr, s)
           end.
    Proof.
      intros Hv Hm Hval. unfold mutate_collection.
      cbn [is_missing io_voi io_require io_by_index io_new io_replace io_attrs io_transform io_attr_transforms io_insert].
      rewrite bind_ret.
      pose proof (seq_extractor_run ct sp ity Hty Hdepth lc xs voi true bi s Hlc ch_xn Hv) as E.
      rewrite Hm in E.
      destruct (by_index_rule ct ity (abs0 voi) bi) eqn:Ebi.
      - destruct (vint_of voi) as [i|] eqn:Ei; [|now rewrite (bind_err _ _ _ _ _ E)].
        destruct (norm_index (zlen xs) i) as [n|] eqn:En; [|now rewrite (bind_err _ _ _ _ _ E)].
        rewrite (bind_ok _ _ _ _ _ E). cbn [fst snd].
        apply (ch_tail voi i n _ Ei En); auto.
        apply Hin. apply nth_In. now apply (norm_index_lt xs i n).
      - fold axs in E. destruct (find_index (fun y => py_eq ct y (abs0 voi)) axs) as [n|] eqn:Ef;
          [|now rewrite (bind_err _ _ _ _ _ E)].
        rewrite (bind_ok _ _ _ _ _ E). cbn [fst snd].
        assert (Hn : n < length xs).
        { apply find_index_lt in Ef. unfold axs in Ef. now rewrite map_length in Ef. }
        destruct (Hval eq_refl n eq_refl) as [Hok Hsame].
        apply (ch_tail (VInt (Z.of_nat n)) (Z.of_nat n) n voi eq_refl (norm_index_nat xs n Hn) Hok Hsame).
    Qed.

    (* the edit the specification asks for, in the same shape *)
    Definition ch_spec_finish (n : nat) : sres aval :=
      match pr (nth n xs VMissing) with
      | Ok v' => if conforms ct ity (abs0 v') then SOk (AList (set_at n (abs0 v') axs)) else SErr ValueErr
      | Err e => SErr e
      end.

    Lemma ch_spec (ah : ahargs) (transform : bool) (voi : val) (bi : option bool) :
      is_missing voi = false ->
      apos0 ah = abs0 voi -> ah_by_index ah = bi ->
      (forall old, In old xs ->
         elem_pipeline ct h0 sp (abs0 old) (if transform then AMissing else apos1 ah) false
                       (if transform then None else ah_kw ah) (if transform then ah_fn ah else None)
                       (if transform then ah_kwfn ah else []) =
         match pr old with
         | Ok v' => if conforms ct ity (abs0 v') then SOk (abs0 v') else SErr ValueErr
         | Err e => SErr e end) ->
      spec_change_item ct h0 sp (abs 23 (heap s) (VRef lc)) ah transform =
      if by_index_rule ct ity (abs0 voi) bi then
        match vint_of voi with
        | Some i => match norm_index (zlen xs) i with
                    | Some n => ch_spec_finish n
                    | None => SErr IndexErr end
        | None => SErr TypeErr
        end
      else match find_index (fun y => py_eq ct y (abs0 voi)) axs with
           | Some n => ch_spec_finish n
           | None => SErr ValueErr
           end.
    Proof.
      intros Hm Hp0 Hbi Hpipe. rewrite ch_acur. unfold spec_change_item. rewrite Hp0, Hbi.
      assert (Em : a_is_missing (abs0 voi) = false) by (destruct voi; try reflexivity; discriminate).
      rewrite Em. rewrite Hty. unfold axs. rewrite (seq_locate_abs ct ity xs voi bi). fold axs.
      assert (Hfin : forall n, n < length xs ->
                (e <~ elem_pipeline ct h0 sp (nth n axs AMissing) (if transform then AMissing else apos1 ah) false
                        (if transform then None else ah_kw ah) (if transform then ah_fn ah else None)
                        (if transform then ah_kwfn ah else []) ;;
                 apply_elem ct (ESetAt n e) (AList axs)) = ch_spec_finish n).
      { intros n Hn. unfold axs at 1. rewrite nth_map_abs0. rewrite Hpipe by (now apply nth_In).
        unfold ch_spec_finish. destruct (pr (nth n xs VMissing)) as [v'|e]; [|reflexivity].
        destruct (conforms ct ity (abs0 v')); reflexivity. }
      destruct (by_index_rule ct ity (abs0 voi) bi).
      - destruct (vint_of voi) as [i|]; [|reflexivity].
        destruct (norm_index (zlen xs) i) as [n|] eqn:En; [|reflexivity].
        cbn [sbind]. apply Hfin. now apply (norm_index_lt xs i n).
      - destruct (find_index (fun y => py_eq ct y (abs0 voi)) axs) as [n|] eqn:Ef; [|reflexivity].
        cbn [sbind]. apply Hfin. apply find_index_lt in Ef. unfold axs in Ef. now rewrite map_length in Ef.
    Qed.

    (* model outcome and specification outcome side by side *)
    Lemma ch_refines_finish n :
      n < length xs ->
      match (match ch_finish n with
             | (Ok _, s2) => (Ok (VRef l), s2)
             | (Err e, s2) => (Err e, s2) end) with
      | (Ok r, s') => r = VRef l /\
                      (c' <~ ch_spec_finish n ;; SOk (AInst c (fset a c' flds))) = SOk (absv (heap s') (VRef l))
      | (Err e, s') => (c' <~ ch_spec_finish n ;; SOk (AInst c (fset a c' flds))) = SErr e /\ heap s' = heap s
      end.
    Proof.
      intros Hn. unfold ch_finish, ch_spec_finish.
      destruct (pr (nth n xs VMissing)) as [v'|e] eqn:Ep; [|now split].
      destruct (conforms ct ity (abs0 v')); [|now split].
      split; auto. cbn [sbind]. f_equal.
      rewrite (fr_after_edit l a c d s lc (OList xs) Hl Hd Hfld Hlc ch_xn Hflat Hshare st _ Hst).
      f_equal. f_equal.
      assert (Hys : forallb nonref (set_at n v' xs) = true)
        by (apply forallb_set_at; [apply ch_xn|exact (Hpr _ _ Ep)]).
      rewrite (abs_list_scalars (set_nth lc (OList (set_at n v' xs)) (heap s)) lc _ 22
                 (nth_error_set_nth_same lc _ (heap s) (fr_lc_len s lc _ Hlc)) Hys).
      unfold axs. now rewrite map_set_at.
    Qed.

    Lemma ch_bind_finish (m : M val) n :
      m s = ch_finish n ->
      bind m (fun c' => mutate_attr ct (exec ct XFUEL) l a c' true false false false) s =
      match ch_finish n with
      | (Ok _, s2) => (Ok (VRef l), s2)
      | (Err e, s2) => (Err e, s2) end.
    Proof.
      intro Hm. unfold ch_finish in *.
      destruct (pr (nth n xs VMissing)) as [v'|e]; [|now rewrite (bind_err _ _ _ _ _ Hm)].
      destruct (conforms ct ity (abs0 v')); [|now rewrite (bind_err _ _ _ _ _ Hm)].
      rewrite (bind_ok _ _ _ _ _ Hm).
      apply (fr_store_back ct l a c d k lc Hc Hd Hfz Hni Hfld).
      apply (fr_recv_after l a c d s lc (OList xs) Hl Hfld Hlc ch_xn Hshare st _ Hst).
    Qed.

    (* the whole call: locate, run the value procedure, store, put the container back *)
    Lemma ch_whole voi bi (hp : shelper) (ah : ahargs) (transform : bool) (res : res val * state) :
      nonref voi = true -> is_missing voi = false ->
      (by_index_rule ct ity (abs0 voi) bi = false ->
       forall n, find_index (fun y => py_eq ct y (abs0 voi)) axs = Some n ->
                 okold voi /\ pr voi = pr (nth n xs VMissing)) ->
      apos0 ah = abs0 voi -> ah_by_index ah = bi ->
      (forall old, In old xs ->
         elem_pipeline ct h0 sp (abs0 old) (if transform then AMissing else apos1 ah) false
                       (if transform then None else ah_kw ah) (if transform then ah_fn ah else None)
                       (if transform then ah_kwfn ah else []) =
         match pr old with
         | Ok v' => if conforms ct ity (abs0 v') then SOk (abs0 v') else SErr ValueErr
         | Err e => SErr e end) ->
      ah_if ah = true ->
      spec_unfrozen ct h0 (AInst c flds) hp ah =
        spec_elem_helper ct h0 (AInst c flds) a ah (fun sp c h => spec_change_item ct h0 sp c h transform) ->
      res = bind (mutate_collection ct (exec ct XFUEL) FSeq sp l (VRef lc)
                    (mkio voi new None x [] false true (tri_of bi) false))
                 (fun c' => mutate_attr ct (exec ct XFUEL) l a c' true false false false) s ->
      match res with
      | (Ok r, s') => r = VRef l /\
                      spec_helper ct h0 (absv (heap s) (VRef l)) hp ah = SOk (absv (heap s') (VRef l))
      | (Err e, s') => spec_helper ct h0 (absv (heap s) (VRef l)) hp ah = SErr e /\ heap s' = heap s
      end.
    Proof.
      intros Hv Hm Hval Hp0 Hbi Hpipe Hif Hun ->.
      rewrite (fr_spec_closed ct h0 l a c d k sp s lc (OList xs) Hl Hc Ha Hd Hfz Hni ch_coll Hfld Hlc
                 hp (fun sp c h => spec_change_item ct h0 sp c h transform) ah _ Hif Hun
                 (ch_spec ah transform voi bi Hm Hp0 Hbi Hpipe)).
      pose proof (mc_change voi bi Hv Hm Hval) as Hmc.
      destruct (by_index_rule ct ity (abs0 voi) bi).
      - destruct (vint_of voi) as [i|]; [|rewrite (bind_err _ _ _ _ _ Hmc); now split].
        destruct (norm_index (zlen xs) i) as [n|] eqn:En; [|rewrite (bind_err _ _ _ _ _ Hmc); now split].
        rewrite (ch_bind_finish _ n Hmc). apply ch_refines_finish. now apply (norm_index_lt xs i n).
      - destruct (find_index (fun y => py_eq ct y (abs0 voi)) axs) as [n|] eqn:Ef;
          [|rewrite (bind_err _ _ _ _ _ Hmc); now split].
        rewrite (ch_bind_finish _ n Hmc). apply ch_refines_finish.
        apply find_index_lt in Ef. unfold axs in Ef. now rewrite map_length in Ef.
    Qed.
  End Generic.

  Lemma sbind_ret_r {A} (m : sres A) : (x <~ m ;; SOk x) = m.
  Proof. destruct m; reflexivity. Qed.

  (* the specification's value procedure on an element that stays / is transformed *)
  Lemma spec_value_keep old (newa : aval) fo cc :
    vscalar old = true -> a_not_given newa = true ->
    spec_value ct h0 (sexec ct h0 SFUEL) (abs0 old) newa false (SPItem sp) None (Some cc) (Some ity) fo [] =
    match fo with Some g => afn g (abs0 old) | None => SOk (abs0 old) end.
  Proof.
    intros Ho Hn.
    assert (Hnm : a_is_missing (abs0 old) = false) by (destruct old; try reflexivity; discriminate).
    assert (Hnd : a_is_dict (abs0 old) = false) by (destruct old; try reflexivity; discriminate).
    destruct newa; cbn [a_not_given] in Hn; try discriminate;
      unfold spec_value; cbn [a_not_given negb sbind]; rewrite Hnd; cbn [andb]; rewrite Hnm; cbn [sbind];
      destruct fo as [g|]; cbn [sfold]; try reflexivity; apply sbind_ret_r.
  Qed.

  Lemma elem_pipeline_new_scalar old v (replace : bool) :
    a_prepare_item sp = None -> spec_of_ty_strict ity = None ->
    vscalar v = true ->
    elem_pipeline ct h0 sp old (abs0 v) replace None None [] =
    if conforms ct ity (abs0 v) then SOk (abs0 v) else SErr ValueErr.
  Proof.
    intros Hprep Hstrict Hv. unfold elem_pipeline. rewrite Hty. cbn [item_type].
    assert (E : spec_value ct h0 (sexec ct h0 SFUEL) old (abs0 v) replace (SPItem sp) None
                           (Some (ctor_for ity)) (Some ity) None [] = SOk (abs0 v)).
    { destruct v; cbn [vscalar] in Hv; try discriminate; unfold spec_value; cbn [abs0 a_not_given negb run_prep];
        unfold prepare_elem; rewrite Hprep, Hty; cbn [item_type sbind]; rewrite Hstrict; reflexivity. }
    rewrite E. reflexivity.
  Qed.

  (* ---------------- transform_<item> ---------------- *)

  Definition tr_pr (fo : option fn) (old : val) : res val :=
    if vscalar old then match fo with Some f => fst (apply_fn f old s) | None => Ok old end
    else Err RuntimeErr.
  Definition tr_st (fo : option fn) : state := match fo with Some _ => ticked s | None => s end.

  Theorem transform_item_list_inplace_refines voi fo bi :
    nonref voi = true -> is_missing voi = false -> fail_at s = None ->
    match fo with Some f => pool_fn f = true | None => True end ->
    (by_index_rule ct ity (abs0 voi) bi = false -> ident_on_eq ct xs voi = true) ->
    let h := mkh [voi] true true VMissing false bi None [] fo in
    let ah := mkah [abs0 voi] true true AMissing false bi None [] fo in
    match run_helper ct l (HTransformItem a) h s with
    | (Ok r, s') => r = VRef l /\
                    spec_helper ct h0 (absv (heap s) (VRef l)) (STransformItem a) ah = SOk (absv (heap s') (VRef l))
    | (Err e, s') => spec_helper ct h0 (absv (heap s) (VRef l)) (STransformItem a) ah = SErr e /\ heap s' = heap s
    end.
  Proof.
    intros Hv Hm Hfa Hfo Hid h ah.
    set (x := match fo with Some f => Some (XFn f, @None (attr_spec * loc)) | None => None end).
    assert (Hst : heap (tr_st fo) = heap s) by (destruct fo; reflexivity).
    assert (Hmv : forall old, vscalar old = true ->
              mutate_value ct (exec ct 39) (mkmv old VMissing false (PItem sp l) None (Some (ctor_of_ty ity)) (Some ity) x [] false) s
              = (tr_pr fo old, tr_st fo)).
    { intros old Ho. unfold x. rewrite (mutate_value_transform_scalar ct (exec ct 39) sp ity l old fo s Ho).
      unfold tr_pr, tr_st. rewrite Ho. destruct fo as [f|]; [|reflexivity].
      pose proof (apply_fn_pool f old s Hfa Hfo Ho) as P.
      destruct (afn f (abs0 old)) as [a'|e| |]; try contradiction.
      - destruct P as [v' [P _]]. now rewrite P.
      - now rewrite P. }
    assert (Hpr : forall old v', tr_pr fo old = Ok v' -> nonref v' = true).
    { intros old v'. unfold tr_pr. destruct (vscalar old) eqn:Ho; [|discriminate].
      destruct fo as [f|]; [|intro E; inversion E; subst; now apply vscalar_nonref].
      pose proof (apply_fn_pool f old s Hfa Hfo Ho) as P.
      destruct (afn f (abs0 old)) as [a'|e| |]; try contradiction.
      - destruct P as [v2 [P [_ P3]]]. rewrite P. cbn [fst]. intro E; inversion E; subst. now apply vscalar_nonref.
      - rewrite P. discriminate. }
    assert (Hin : forall old, In old xs -> vscalar old = true).
    { intros old Ho. rewrite forallb_forall in Hxs. auto. }
    assert (Hval : by_index_rule ct ity (abs0 voi) bi = false ->
                   forall n, find_index (fun y => py_eq ct y (abs0 voi)) axs = Some n ->
                     vscalar voi = true /\ tr_pr fo voi = tr_pr fo (nth n xs VMissing)).
    { intros Hb n Ef.
      assert (Hn : n < length xs).
      { apply find_index_lt in Ef. unfold axs in Ef. now rewrite map_length in Ef. }
      rewrite (ident_on_eq_found ct xs voi n ch_xn Hv (Hid Hb) Ef). split; auto.
      rewrite <- (ident_on_eq_found ct xs voi n ch_xn Hv (Hid Hb) Ef). apply Hin. now apply nth_In. }
    assert (Hpipe : forall old, In old xs ->
              elem_pipeline ct h0 sp (abs0 old) AMissing false None fo [] =
              match tr_pr fo old with
              | Ok v' => if conforms ct ity (abs0 v') then SOk (abs0 v') else SErr ValueErr
              | Err e => SErr e end).
    { intros old Ho. pose proof (Hin old Ho) as Hso. unfold elem_pipeline. rewrite Hty. cbn [item_type].
      rewrite (spec_value_keep old AMissing fo _ Hso eq_refl). unfold tr_pr. rewrite Hso.
      destruct fo as [f|]; [|reflexivity].
      pose proof (apply_fn_pool f old s Hfa Hfo Hso) as P.
      destruct (afn f (abs0 old)) as [a'|e| |]; try contradiction.
      - destruct P as [v' [P [-> _]]]. rewrite P. reflexivity.
      - rewrite P. reflexivity. }
    apply (ch_whole VMissing x (fun old => vscalar old = true) (tr_pr fo) (tr_st fo) Hst Hmv Hpr Hin
             voi bi (STransformItem a) ah true (run_helper ct l (HTransformItem a) h s)
             Hv Hm Hval eq_refl eq_refl Hpipe eq_refl eq_refl).
    unfold run_helper, h. cbn [h_if negb h_inplace].
    rewrite (bind_ok _ _ _ _ _ (fr_spec_for ct l a c d k sp s Hl Hc Ha)). cbn [snd].
    rewrite (bind_ok _ _ _ _ _ (fr_mk_mutator ct l a c d k sp s lc Hl Hc Ha Hfz Hfld)).
    rewrite Hty. reflexivity.
  Qed.

  (* ---------------- update_<item> ---------------- *)

  Definition up_pr (v : val) (old : val) : res val :=
    if vscalar v then Ok v else if vscalar old then Ok old else Err RuntimeErr.

  Theorem update_item_list_inplace_refines voi v bi :
    a_prepare_item sp = None -> spec_of_ty_strict ity = None ->
    nonref voi = true -> is_missing voi = false -> nonref v = true ->
    (vscalar v = false -> by_index_rule ct ity (abs0 voi) bi = false -> ident_on_eq ct xs voi = true) ->
    let h := mkh [voi; v] true true VMissing false bi None [] None in
    let ah := mkah [abs0 voi; abs0 v] true true AMissing false bi None [] None in
    match run_helper ct l (HUpdateItem a) h s with
    | (Ok r, s') => r = VRef l /\
                    spec_helper ct h0 (absv (heap s) (VRef l)) (SUpdateItem a) ah = SOk (absv (heap s') (VRef l))
    | (Err e, s') => spec_helper ct h0 (absv (heap s) (VRef l)) (SUpdateItem a) ah = SErr e /\ heap s' = heap s
    end.
  Proof.
    intros Hprep Hstrict Hv Hm Hnv Hid h ah.
    set (okold := fun old : val => vscalar v = true \/ vscalar old = true).
    assert (Hmv : forall old, okold old ->
              mutate_value ct (exec ct 39) (mkmv old v false (PItem sp l) None (Some (ctor_of_ty ity)) (Some ity) None [] false) s
              = (up_pr v old, s)).
    { intros old Ho. unfold up_pr. destruct (vscalar v) eqn:Esv.
      - now apply mutate_value_update_scalar.
      - destruct Ho as [Ho|Ho]; [discriminate|]. rewrite Ho. now apply mutate_value_update_sentinel. }
    assert (Hpr : forall old v', up_pr v old = Ok v' -> nonref v' = true).
    { intros old v'. unfold up_pr. destruct (vscalar v) eqn:Esv.
      - intro E; inversion E; subst; auto.
      - destruct (vscalar old) eqn:Eso; [|discriminate]. intro E; inversion E; subst. now apply vscalar_nonref. }
    assert (Hin : forall old, In old xs -> okold old).
    { intros old Ho. right. rewrite forallb_forall in Hxs. auto. }
    assert (Hval : by_index_rule ct ity (abs0 voi) bi = false ->
                   forall n, find_index (fun y => py_eq ct y (abs0 voi)) axs = Some n ->
                     okold voi /\ up_pr v voi = up_pr v (nth n xs VMissing)).
    { intros Hb n Ef. unfold okold, up_pr. destruct (vscalar v) eqn:Esv; [split; auto|].
      assert (Hn : n < length xs).
      { apply find_index_lt in Ef. unfold axs in Ef. now rewrite map_length in Ef. }
      rewrite (ident_on_eq_found ct xs voi n ch_xn Hv (Hid eq_refl Hb) Ef). split; auto. right.
      rewrite <- (ident_on_eq_found ct xs voi n ch_xn Hv (Hid eq_refl Hb) Ef).
      rewrite forallb_forall in Hxs. apply Hxs. now apply nth_In. }
    assert (Hpipe : forall old, In old xs ->
              elem_pipeline ct h0 sp (abs0 old) (abs0 v) false None None [] =
              match up_pr v old with
              | Ok v' => if conforms ct ity (abs0 v') then SOk (abs0 v') else SErr ValueErr
              | Err e => SErr e end).
    { intros old Ho. unfold up_pr. destruct (vscalar v) eqn:Esv.
      - now apply elem_pipeline_new_scalar.
      - assert (Hso : vscalar old = true) by (rewrite forallb_forall in Hxs; auto). rewrite Hso.
        unfold elem_pipeline. rewrite Hty. cbn [item_type].
        destruct v; cbn [vscalar nonref] in Esv, Hnv; try discriminate; cbn [abs0].
        + now rewrite (spec_value_keep old AMissing None _ Hso eq_refl).
        + now rewrite (spec_value_keep old AEmpty None _ Hso eq_refl).
        + reflexivity. }
    apply (ch_whole v None okold (up_pr v) s eq_refl Hmv Hpr Hin
             voi bi (SUpdateItem a) ah false (run_helper ct l (HUpdateItem a) h s)
             Hv Hm Hval eq_refl eq_refl Hpipe eq_refl eq_refl).
    unfold run_helper, h. cbn [h_if negb h_inplace].
    rewrite (bind_ok _ _ _ _ _ (fr_spec_for ct l a c d k sp s Hl Hc Ha)). cbn [snd].
    rewrite (bind_ok _ _ _ _ _ (fr_mk_mutator ct l a c d k sp s lc Hl Hc Ha Hfz Hfld)).
    rewrite Hty. cbn [family_of pos0 pos1 h_pos nth h_kw h_by_index]. rewrite Hm. reflexivity.
  Qed.
End ChangeItemList.
