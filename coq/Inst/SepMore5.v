(* C08 (extension): peers stay disjoint over histories — in-place operations at nesting depth one.

   `gshape b h0 l s'`: relative to the heap h0 (size b) an in-place operation on the instance at
   cell l started from, (i) an old cell is unchanged or belonged to what l reached in h0, (ii) every
   cell allocated since, and every cell of what l reached, refers only to cells allocated since or
   to what l reached.  So an in-place operation is confined to the receiver's own object graph, and
   that graph stays closed.  Sources of gshape:
     - the generalised separation judgement SepGen.v with W = A = "what the receiver reached"
       (every in-place helper that is not update_/transform_<attr>, element helpers included),
     - the footprint `ishape` of SepMore3.v (update_/transform_<attr>, which need the
       holds-defaults invariant instead of "class-level defaults are allowed").
   `peer_step2` / `peers_disjoint_history2`: the invariant PD of SepMore3.v is preserved by the larger
   alphabet `peer_op_ok2`: every helper with _inplace=True (attribute level, element level,
   update/transform/reset) with scalar arguments on a constructor-created instance, assignment and
   deletion, plus the copy-on-write part of SepMore3.v. *)
From Coq Require Import List ZArith Bool Arith Lia.
From SC Require Import Base.Res Base.PyList Inst.Heap Inst.ClassTable Inst.Model Inst.Framed
  Inst.FrameProofs Inst.Reach Inst.FrozenProofs Inst.AtomicProofs Inst.SepProofs Inst.SepMore Inst.SepMore2
  Inst.SepMore3 Inst.SepMore4.
Require SC.Inst.SepGen.
Import ListNotations.
Open Scope nat_scope.

#[local] Opaque FUEL.

Definition gshape (b : nat) (h0 : list obj) (l : loc) (s' : state) : Prop :=
  b <= length (heap s') /\
  (forall x, x < b -> nth_error (heap s') x = nth_error h0 x \/ reach h0 l x) /\
  (forall x o y, (b <= x \/ reach h0 l x) -> nth_error (heap s') x = Some o -> In y (refs_of o) ->
                 b <= y \/ reach h0 l y).

Lemma gshape_reach b h0 l s' : gshape b h0 l s' -> forall z, reach (heap s') l z -> b <= z \/ reach h0 l z.
Proof.
  intros (_ & _ & C) z R. induction R as [|z o y R IH Hn Hin]; [right; constructor|]. eapply C; eauto.
Qed.

Lemma ishape_gshape b h0 l s' : ishape b h0 l s' -> gshape b h0 l s'.
Proof.
  intros (L & S & C & U & _). split; [exact L|]. split.
  - intros x Hx. destruct (Nat.eq_dec x l) as [->|Hne]; [right; constructor|left; auto].
  - intros x o y Hx Hn Hin. destruct (Nat.lt_ge_cases x b) as [Hlt|Hge]; [|eapply C; eauto].
    destruct Hx as [Hx|Hx]; [lia|]. destruct (Nat.eq_dec x l) as [->|Hne]; [eapply U; eauto|].
    rewrite (S x Hlt Hne) in Hn. right. eapply reach_step; eauto.
Qed.

Lemma sinv_gshape b h0 l s' : SepGen.sinv b (RL h0 l) (RL h0 l) h0 s' -> gshape b h0 l s'.
Proof.
  intros (L & Old & Cl). split; [exact L|]. split.
  - intros x Hx. destruct (Old x Hx) as [(Hw & _ & _)|E]; [right; exact Hw|left; exact E].
  - intros x o y Hx Hn Hin. destruct (Nat.lt_ge_cases x b) as [Hlt|Hge].
    + destruct Hx as [Hx|Hx]; [lia|]. destruct (Old x Hlt) as [(_ & _ & Ho)|E].
      * exact (SepGen.obj_ok_refs b (RL h0 l) o y (Ho o Hn) Hin).
      * rewrite E in Hn. right. eapply reach_step; eauto.
    + exact (SepGen.obj_ok_refs b (RL h0 l) o y (Cl x o Hge Hn) Hin).
Qed.

(* a tracked instance whose graph is disjoint from the receiver's is untouched *)
Lemma reach_other_g h0 (s' : state) lx ly b :
  b = length h0 -> wf_heap h0 -> gshape b h0 lx s' -> ly < b ->
  (forall z, reach h0 ly z -> reach h0 lx z -> False) ->
  forall z, reach (heap s') ly z -> reach h0 ly z /\ z < b.
Proof.
  intros Hb WF (_ & S & _) Hly Hdis z R. induction R as [|z o y R [IH1 IH2] Hn Hin]; [split; [constructor|exact Hly]|].
  destruct (S z IH2) as [E|E]; [|exfalso; eapply Hdis; eauto].
  rewrite E in Hn. split; [eapply reach_step; eauto|]. subst b. eapply WF; eauto.
Qed.

Section Peers2.
  Variable ct : ctable.
  Hypothesis no_dnc : forall c k, lookup_cls ct c = Some k -> c_dnc k = false.
  Hypothesis Hscalar : scalar_table ct.
  Hypothesis Hg : tgb ct = true.
  Hypothesis no_dnc_attr : forall k sp, In k ct -> In sp (c_attrs k) -> a_dnc sp = false.
  Hypothesis all_init : forall k sp, In k ct -> In sp (c_attrs k) -> a_init sp = true.
  Hypothesis no_overrides : forall k, In k ct -> c_overrides k = [].

  Let wf_owner := fun c0 k0 => tgb_owner ct c0 k0 Hg.
  Local Opaque exec.

  Lemma GA_closed b h0 l : SepGen.A_closed b (RL h0 l) h0.
  Proof.
    intros x o Hx _ Hn. apply SepGen.obj_ok_of_refs. intros y Hy. right. eapply reach_step; eauto.
  Qed.
  Lemma G_dnc b h0 l : SepGen.dnc_allowed ct b (RL h0 l) h0.
  Proof.
    intros x c d k a sp v _ _ Hk _ Ha Hd. destruct (lookup_cls_In _ _ _ Hk) as [Hkin _].
    destruct (lookup_attr_In _ _ _ Ha) as [Hspin _]. rewrite (no_dnc_attr k sp Hkin Hspin) in Hd. discriminate.
  Qed.
  Lemma G_table b h0 l : SepGen.table_ok ct b (RL h0 l).
  Proof. apply SepGen.scalar_table_ok. exact Hscalar. Qed.

  Definition inplace2 (hp : helper) : Prop :=
    match hp with HUpdate a | HTransform a => a <> A_INITIALIZING | _ => True end.

  Lemma G_hargs b A h :
    Forall val_nonref (h_pos h) -> val_nonref (h_index h) -> h_kw h = None -> h_kwfn h = [] -> ofn_scalar (h_fn h) ->
    SepGen.hargs_ok ct b A h.
  Proof.
    intros H1 H2 H3 H4 H5. split; [now apply SepGen.nonref_Forall|]. split; [now apply SepGen.nonref_okv|].
    split; [rewrite H3; exact I|]. split; [rewrite H4; apply SepGen.ats_ok_nil|now apply SepGen.ofn_scalar_ok].
  Qed.

  (* what the attribute currently holds is the receiver's own (holds-defaults) *)
  Lemma held_wrv l c a s v :
    hd ct l c s -> a <> A_INITIALIZING -> fst (getattr_default ct l a s) = Ok v ->
    SepGen.wrv (length (heap s)) (RL (heap s) l) (RL (heap s) l) v.
  Proof.
    intros Hh Ha Hv. pose proof (getattr_hd ct all_init no_overrides l c a s v Hh Ha Hv) as H.
    destruct v; simpl in *; auto. destruct H as [H|H]; [left; exact H|right; split; exact H].
  Qed.

  (* every helper called with _inplace=True on an instance holding its defaults *)
  Lemma helper_inplace_gshape l c hp h s r s' :
    hd ct l c s -> h_inplace h = true -> inplace2 hp ->
    (forall a, item_helper_attr hp = Some a -> a <> A_INITIALIZING) ->
    Forall val_nonref (h_pos h) -> val_nonref (h_index h) -> h_kw h = None -> h_kwfn h = [] -> ofn_scalar (h_fn h) ->
    run_helper ct l hp h s = (r, s') -> gshape (length (heap s)) (heap s) l s'.
  Proof.
    intros Hhd Hi Hhp Hitem Hpos Hidx Hkw Hkwfn Hfn Hrun.
    set (h0 := heap s). set (b := length h0).
    assert (I0 : SepGen.sinv b (RL h0 l) (RL h0 l) h0 s) by (apply SepGen.sinv_start; reflexivity).
    assert (Hargs := G_hargs b (RL h0 l) h Hpos Hidx Hkw Hkwfn Hfn).
    assert (Hwl : SepGen.wr b (RL h0 l) (RL h0 l) l) by (right; split; constructor).
    assert (Hsep : forall hp0, hp0 = hp -> SepGen.form_ok ct b (RL h0 l) (RL h0 l) l hp0 h ->
              gshape b h0 l s').
    { intros hp0 -> Hform. apply sinv_gshape.
      pose proof (SepGen.run_helper_sep ct no_dnc wf_owner b (RL h0 l) (RL h0 l) h0 (GA_closed b h0 l)
                    (G_table b h0 l) (G_dnc b h0 l) l hp h Hargs Hform s I0) as [I1 _].
      rewrite Hrun in I1. exact I1. }
    assert (Hit : forall a, item_helper_attr hp = Some a -> gshape b h0 l s').
    { intros a Ha. apply sinv_gshape.
      pose proof (SepGen.run_helper_item_inplace ct no_dnc wf_owner b (RL h0 l) (RL h0 l) h0 (GA_closed b h0 l)
                    (G_table b h0 l) (G_dnc b h0 l) l hp h a s) as H.
      assert (Ha' : SepGen.item_helper_attr hp = Some a) by (destruct hp; simpl in *; auto).
      specialize (H Ha' Hi Hargs Hwl). rewrite Hrun in H. apply H; [|exact I0].
      intros v Hv. exact (held_wrv l c a s v Hhd (Hitem a Ha) Hv). }
    assert (Hut : forall a, (hp = HUpdate a \/ hp = HTransform a) -> a <> A_INITIALIZING -> gshape b h0 l s').
    { intros a Hor Ha. apply ishape_gshape.
      exact (update_transform_inplace_shape ct no_dnc Hscalar Hg no_dnc_attr all_init no_overrides l c hp a h s r s'
               Hor Hhd Ha Hi Hpos Hkw Hkwfn Hfn Hrun). }
    destruct hp; simpl in Hhp.
    - eapply Hsep; [reflexivity|]. split; [intros _; split; [exact Hwl|]; split; exact I|exact I].
    - eapply Hut; eauto.
    - eapply Hut; eauto.
    - eapply Hsep; [reflexivity|]. split; [intros _; split; [exact Hwl|]; split; exact I|exact I].
    - eapply Hit; reflexivity.
    - eapply Hit; reflexivity.
    - eapply Hit; reflexivity.
    - eapply Hit; reflexivity.
    - eapply Hsep; [reflexivity|]. split; [intros _; split; [exact Hwl|]; split; [exact I|]|exact I].
      assert (Hp0 : val_nonref (pos0 h)).
      { unfold pos0. destruct (nth_in_or_default 0 (h_pos h) VMissing) as [Hin|E0]; [|rewrite E0; exact I].
        rewrite Forall_forall in Hpos. auto. }
      destruct (pos0 h); simpl in *; auto; contradiction.
    - eapply Hsep; [reflexivity|]. split; [intros _; split; [exact Hwl|]; split; exact I|]. left. right. constructor.
    - eapply Hsep; [reflexivity|]. split; [intros _; split; [exact Hwl|]; split; exact I|exact I].
  Qed.

  (* ---------- the larger alphabet ---------- *)
  Definition peer_op_ok2 (T : list nat) (o : op) : Prop :=
    match o with
    | OpHelper x hp h =>
        if h_inplace h
        then In x T /\ inplace2 hp /\ (forall a, item_helper_attr hp = Some a -> a <> A_INITIALIZING) /\
             Forall val_nonref (h_pos h) /\ val_nonref (h_index h) /\ h_kw h = None /\
             h_kwfn h = [] /\ ofn_scalar (h_fn h)
        else peer_op_ok T o
    | _ => peer_op_ok T o
    end.

  Lemma peer_op_ok2_cow T o : peer_op_ok2 T o -> is_set o = false -> peer_op_ok T o.
  Proof. destruct o; simpl; auto. intros H E. rewrite E in H. simpl in H. rewrite E. exact H. Qed.

  Lemma inplace_step_gshape T roots o s r s' :
    (forall x lx, In x T -> nth x roots VNone = VRef lx -> exists c, hd ct lx c s) ->
    peer_op_ok2 T o -> is_set o = true -> step ct roots o s = (r, s') ->
    exists x, In x T /\
      (s' = s \/ exists lx, nth x roots VNone = VRef lx /\ gshape (length (heap s)) (heap s) lx s').
  Proof.
    intros Hhd Hok Hs Hrun. destruct o; try discriminate.
    - (* assignment *)
      destruct (inplace_step_shape ct no_dnc Hscalar Hg no_dnc_attr all_init no_overrides T roots
                  (OpSetAttr x a v) s r s' Hhd Hok Hs Hrun) as (x0 & Hx & [E|(lx & El & Hsh)]).
      + exists x0. auto.
      + exists x0. split; [exact Hx|]. right. exists lx. split; [exact El|]. apply ishape_gshape. exact Hsh.
    - (* deletion *)
      destruct (inplace_step_shape ct no_dnc Hscalar Hg no_dnc_attr all_init no_overrides T roots
                  (OpDelAttr x a) s r s' Hhd Hok Hs Hrun) as (x0 & Hx & [E|(lx & El & Hsh)]).
      + exists x0. auto.
      + exists x0. split; [exact Hx|]. right. exists lx. split; [exact El|]. apply ishape_gshape. exact Hsh.
    - (* helpers *)
      simpl in Hs, Hok, Hrun. rewrite Hs in Hok.
      destruct Hok as (Hx & Hhp & Hitem & Hpos & Hidx & Hkw & Hkwfn & Hfn). exists x. split; [exact Hx|].
      unfold bind in Hrun.
      destruct (nth x roots VNone) as [| | | |b0|z0|z0|z0|lx] eqn:Ex; try (simpl in Hrun; inversion Hrun; auto; fail).
      simpl loc_of in Hrun. cbn [ret] in Hrun.
      destruct (Hhd x lx Hx Ex) as [c Hc].
      right. exists lx. split; [reflexivity|]. eapply helper_inplace_gshape; eauto.
  Qed.

  Theorem peer_step2 s roots T o fa r s' :
    PD ct s roots T -> wf_heap (heap s) -> peer_op_ok2 T o ->
    step ct roots o (mkst (heap s) 0 fa) = (r, s') ->
    PD ct s' (roots ++ [resv r]) (track (length roots) T o).
  Proof.
    intros Hpd WF Hok Hrun. destruct (is_set o) eqn:Eset.
    2:{ eapply (peer_step ct no_dnc Hscalar Hg no_dnc_attr all_init no_overrides); eauto.
        apply peer_op_ok2_cow; auto. }
    destruct Hpd as (P1 & P2 & P3 & P4 & P5).
    set (s0 := mkst (heap s) 0 fa) in *. set (h0 := heap s). set (b := length h0).
    rewrite (track_set _ _ _ Eset).
    assert (P50 : forall x l, In x T -> nth x roots VNone = VRef l -> exists c, hd ct l c s0).
    { intros x l Hx El. destruct (P5 x l Hx El) as [c Hc]. exists c. exact Hc. }
    assert (P5'' : forall x l, In x T -> nth x (roots ++ [resv r]) VNone = VRef l -> exists c, hd ct l c s').
    { intros x l Hx. rewrite nth_old by auto. intro El. destruct (P50 x l Hx El) as [c Hc]. exists c.
      eapply hd_stable; [|exact Hc]. pose proof (step_kext ct roots o s0) as K. rewrite Hrun in K. exact K. }
    destruct (inplace_step_gshape T roots o s0 r s' P50 Hok Eset Hrun) as (x & Hx & Hcase).
    assert (Hsame : heap s' = h0 -> PD ct s' (roots ++ [resv r]) T).
    { intro Hh. split; [intros y Hy; rewrite app_length; specialize (P1 y Hy); lia|].
      split; [intros y l Hy; rewrite nth_old by auto; rewrite Hh; apply P2; auto|].
      split; [intros y1 y2 l1 l2 H1 H2; rewrite !nth_old by auto; apply P3; auto|].
      split; [|exact P5''].
      intros y1 y2 l1 l2 z H1 H2; rewrite !nth_old by auto; rewrite Hh; apply P4; auto. }
    destruct Hcase as [->|(lx & Ex & Hshape)]; [apply Hsame; reflexivity|].
    change (heap s0) with h0 in Hshape. fold b in Hshape.
    assert (Hlx : lx < b) by (apply (P2 x lx Hx Ex)).
    pose proof (gshape_reach b h0 lx s' Hshape) as Hreach.
    assert (Hlen : b <= length (heap s')) by apply Hshape.
    split; [intros y Hy; rewrite app_length; specialize (P1 y Hy); lia|].
    split; [intros y l Hy; rewrite nth_old by auto; intro Hl; specialize (P2 y l Hy Hl); fold h0 in P2; fold b in P2; lia|].
    split; [intros y1 y2 l1 l2 H1 H2; rewrite !nth_old by auto; apply P3; auto|].
    split; [|exact P5''].
    intros y1 y2 l1 l2 z H1 H2. rewrite !nth_old by auto. intros E1 E2 Hne R1 R2.
    assert (Hb1 : l1 < b) by (apply (P2 y1 l1 H1 E1)). assert (Hb2 : l2 < b) by (apply (P2 y2 l2 H2 E2)).
    assert (Hother : forall y0 l0, In y0 T -> nth y0 roots VNone = VRef l0 -> l0 <> lx ->
                       forall z0, reach (heap s') l0 z0 -> reach h0 l0 z0 /\ z0 < b).
    { intros y0 l0 Hy0 El0 Hne0. apply (reach_other_g h0 s' lx l0 b eq_refl WF Hshape (P2 y0 l0 Hy0 El0)).
      intros z0 Ra Rb. eapply (P4 y0 x l0 lx z0); eauto. }
    destruct (Nat.eq_dec l1 lx) as [->|N1]; destruct (Nat.eq_dec l2 lx) as [->|N2]; try congruence.
    - destruct (Hother y2 l2 H2 E2 N2 z R2) as [R2' Hz].
      destruct (Hreach z R1) as [Hge|R1']; [lia|]. eapply (P4 y1 y2 lx l2 z); eauto.
    - destruct (Hother y1 l1 H1 E1 N1 z R1) as [R1' Hz].
      destruct (Hreach z R2) as [Hge|R2']; [lia|]. eapply (P4 y1 y2 l1 lx z); eauto.
    - destruct (Hother y1 l1 H1 E1 N1 z R1) as [R1' _]. destruct (Hother y2 l2 H2 E2 N2 z R2) as [R2' _].
      eapply (P4 y1 y2 l1 l2 z); eauto.
  Qed.

  Fixpoint ops_ok2 (n : nat) (T : list nat) (ops : list (op * option nat)) : Prop :=
    match ops with
    | [] => True
    | (o, _) :: t => peer_op_ok2 T o /\ ops_ok2 (S n) (track n T o) t
    end.

  Theorem peers_disjoint_history2 ops : forall s roots T,
    ops_ok2 (length roots) T ops -> run_wf ct s roots ops -> PD ct s roots T ->
    PD ct (fst (run_ops ct s roots ops)) (snd (run_ops ct s roots ops)) (tracked (length roots) T ops).
  Proof.
    induction ops as [|[o fa] t IH]; intros s roots T Hok Hwf Hpd; simpl; [exact Hpd|].
    simpl in Hok, Hwf. destruct Hok as [Ho Ht]. destruct Hwf as [Hw Hrest].
    destruct (step ct roots o (mkst (heap s) 0 fa)) as [r s'] eqn:E.
    pose proof (peer_step2 s roots T o fa r s' Hpd Hw Ho E) as Hpd'. unfold resv in Hpd'.
    specialize (IH s' (roots ++ [match r with Ok v => v | Err _ => VNone end]) (track (length roots) T o)).
    rewrite app_length in IH. simpl in IH. rewrite Nat.add_1_r in IH. apply IH; auto.
  Qed.
End Peers2.

(* two instances created by constructor calls of a covered history share no cell at its end *)
Theorem ctor_peers_disjoint2 ct :
  (forall c k, lookup_cls ct c = Some k -> c_dnc k = false) -> scalar_table ct -> tgb ct = true ->
  (forall k sp, In k ct -> In sp (c_attrs k) -> a_dnc sp = false) ->
  (forall k sp, In k ct -> In sp (c_attrs k) -> a_init sp = true) ->
  (forall k, In k ct -> c_overrides k = []) ->
  forall ops s roots,
    ops_ok2 (length roots) [] ops -> run_wf ct s roots ops ->
    forall i j ci pi kwi fi cj pj kwj fj li lj,
      nth_error ops i = Some (OpConstruct ci pi kwi, fi) ->
      nth_error ops j = Some (OpConstruct cj pj kwj, fj) -> i <> j ->
      nth (length roots + i) (snd (run_ops ct s roots ops)) VNone = VRef li ->
      nth (length roots + j) (snd (run_ops ct s roots ops)) VNone = VRef lj ->
      li <> lj /\
      forall z, reach (heap (fst (run_ops ct s roots ops))) li z ->
                reach (heap (fst (run_ops ct s roots ops))) lj z -> False.
Proof.
  intros H1 H2 H3 H4 H5 H6 ops s roots Hok Hwf i j ci pi kwi fi cj pj kwj fj li lj Hi Hj Hne Ei Ej.
  assert (Hpd0 : PD ct s roots []).
  { split; [intros x []|]. split; [intros x l []|]. split; [intros x y lx ly []|]. split; [intros x y lx ly z []|intros x l []]. }
  destruct (peers_disjoint_history2 ct H1 H2 H3 H4 H5 H6 ops s roots [] Hok Hwf Hpd0) as (_ & _ & P3 & P4 & _).
  pose proof (tracked_ctor ops (length roots) [] i ci pi kwi fi Hi) as Ti.
  pose proof (tracked_ctor ops (length roots) [] j cj pj kwj fj Hj) as Tj.
  assert (Hll : li <> lj) by (eapply (P3 (length roots + i) (length roots + j)); eauto; lia).
  split; [exact Hll|]. intros z R1 R2. eapply (P4 (length roots + i) (length roots + j) li lj z); eauto.
Qed.

(* p = C(); q = C(); then in place, at nesting depth one:
   p.with_x(5, _inplace=True); q.with_x(6, _inplace=True); p.without_x(1, _inplace=True);
   q.transform_x(0, lambda v: v + 10, _inplace=True); p.update(n=...)-free forms: p.transform(_inplace=True) *)
Definition exn_ops : list (op * option nat) :=
  [(OpConstruct 2 None [], None);
   (OpConstruct 2 None [], None);
   (OpHelper 1 (HWithItem 50) (mkh [VInt 5] true true VMissing false None None [] None), None);
   (OpHelper 2 (HWithItem 50) (mkh [VInt 6] true true VMissing false None None [] None), None);
   (OpHelper 1 (HWithoutItem 50) (mkh [VInt 1] true true VMissing false None None [] None), None);
   (OpHelper 2 (HTransformItem 50) (mkh [VInt 0] true true VMissing false (Some true) None [] (Some (FAddInt 10))), None);
   (OpHelper 1 HTransformTop (mkh [] true true VMissing false None None [] None), None)].

Example peers_disjoint_nested_nonvacuous :
  ops_ok2 1 [] exn_ops /\
  run_wfb exp_ct (mkst [OList [VInt 1]] 0 None) [VRef 0] exn_ops = true /\
  Forall (fun p => op_scalar (fst p)) exn_ops /\
  (let '(s', roots') := run_ops exp_ct (mkst [OList [VInt 1]] 0 None) [VRef 0] exn_ops in
   roots' = [VRef 0; VRef 1; VRef 3; VRef 1; VRef 3; VRef 1; VRef 3; VRef 1] /\
   firstn 5 (heap s') = [OList [VInt 1];
                         OInst 2 [(50, VRef 2); (51, VInt 3)]; OList [VInt 5];
                         OInst 2 [(50, VRef 4); (51, VInt 3)]; OList [VInt 11; VInt 6]]).
Proof.
  split.
  - simpl. repeat split; auto; try discriminate; repeat constructor; try (intros a E; inversion E; discriminate).
  - split; [vm_compute; reflexivity|]. split; [repeat constructor|]. vm_compute. split; reflexivity.
Qed.
