(* C06: fourteenth layer: with_<item> through an item preparer, in place, on a
   NESTED receiver (frame ip_whole_n of ElemRefine13.v, tails of ElemRefine10.v). *)
From Coq Require Import List ZArith Bool Arith Lia.
From SC Require Import Base.Res Base.PyList Inst.Heap Inst.ClassTable Inst.Model Inst.Canon
  Inst.Abs Inst.SpecHelpers Inst.ElemProofs Inst.Framed Inst.RefineProofs Inst.CopyProofs Inst.ElemRefineDep Inst.CopyStore
  Inst.ElemRefine Inst.ElemRefine2 Inst.ElemRefine3 Inst.ElemRefine4 Inst.ElemRefine5 Inst.ElemRefine6
  Inst.ElemRefine7 Inst.ElemRefine8 Inst.ElemRefine9 Inst.ElemRefine10 Inst.ElemRefine13.
Import ListNotations.
Open Scope nat_scope.

#[local] Opaque FUEL.
Local Opaque py_eq.

Section NestedPrep.
  Variable ct : ctable.
  Variable h0 : list obj.
  Variables (l : loc) (a : aid) (c : cid) (d : list (aid * val)) (k : cls) (sp : attr_spec).
  Variable s : state.
  Variable lc : loc.
  Hypothesis Hl : nth_error (heap s) l = Some (OInst c d).
  Hypothesis Hc : lookup_cls ct c = Some k.
  Hypothesis Ha : lookup_attr k a = Some sp.
  Hypothesis Hd : NoDup (map fst d).
  Hypothesis Hfz : c_frozen k = false.
  Hypothesis Hni : no_dep k a.
  Hypothesis Hfld : assoc a d = Some (VRef lc).
  Hypothesis Hun : forall b w, In (b, w) d -> b <> a -> reaches 23 (heap s) w lc = false.
  Hypothesis Hpok : prep_ok sp.
  Hypothesis Hfa : fail_at s = None.

  Lemma np_run h : h_if h = true -> h_inplace h = true ->
    run_helper ct l (HWithItem a) h s = bind (mk_mutator ct sp l true) (with_tail ct l a sp h) s.
  Proof.
    intros Hif Hin. rewrite (run_with_tail ct l a h s Hif).
    rewrite (bind_ok _ _ _ _ _ (fr_spec_for ct l a c d k sp s Hl Hc Ha)). cbn [snd]. now rewrite Hin.
  Qed.

  Lemma np_nonref v : vscalar v = true -> forall v', prep_val sp v = Ok v' -> nonref v' = true.
  Proof. intros Hv v' E. apply vscalar_nonref. exact (prep_val_scalar sp v v' Hpok Hv E). Qed.

  Theorem with_item_list_prep_nested_refines xs ity idx v ins :
    a_ty sp = TList ity -> spec_of_ty_strict ity = None -> ty_depth ity < FUEL ->
    nth_error (heap s) lc = Some (OList xs) -> forallb nonref xs = true ->
    vscalar v = true -> (idx = VMissing \/ exists i, idx = VInt i) ->
    inplace_refines_spec ct h0 s l (HWithItem a) (mkh [v] true true idx ins None None [] None)
                         (SWithItem a) (mkah [abs0 v] true true (abs0 idx) ins None None [] None).
  Proof.
    intros Hty Hstrict Hdepth Hlc Hxs Hv Hidx. unfold inplace_refines_spec.
    assert (Hcoll : ty_is_collection (a_ty sp) = true) by (now rewrite Hty).
    assert (Hstrict' : spec_of_ty_strict (item_type (a_ty sp)) = None) by (now rewrite Hty).
    apply (ip_whole_n ct h0 l a c d k sp s lc (OList xs) Hl Hc Ha Hd Hfz Hni Hcoll Hfld Hlc Hxs Hun
             (with_tail ct l a sp (mkh [v] true true idx ins None None [] None))
             (list_with_pure_p ct ity xs idx (prep_val sp v) ins))
      with (edit := spec_with_item ct h0); try reflexivity.
    - intros s1 lc1 H1 Hf1. apply (with_tail_list_p ct l a sp Hpok Hstrict' ity); auto. congruence.
    - intros o'. apply (list_with_pure_p_scalar ct ity xs idx (prep_val sp v) ins o' Hxs (np_nonref v Hv)).
    - exact (list_with_pure_p_spec ct h0 sp Hpok Hstrict' ity xs true idx v ins Hty Hv Hidx).
    - now apply np_run.
  Qed.

  Theorem with_item_dict_prep_nested_refines kvs tk tv key v :
    a_ty sp = TDict tk tv -> spec_of_ty_strict tv = None -> ty_depth tk < FUEL -> ty_depth tv < FUEL ->
    nth_error (heap s) lc = Some (ODict kvs) -> forallb pair_nonref kvs = true ->
    nonref key = true -> vscalar v = true ->
    inplace_refines_spec ct h0 s l (HWithItem a) (mkh [key; v] true true VMissing false None None [] None)
                         (SWithItem a) (mkah [abs0 key; abs0 v] true true AMissing false None None [] None).
  Proof.
    intros Hty Hstrict Hdk Hdv Hlc Hkvs Hk Hv. unfold inplace_refines_spec.
    assert (Hcoll : ty_is_collection (a_ty sp) = true) by (now rewrite Hty).
    assert (Hstrict' : spec_of_ty_strict (item_type (a_ty sp)) = None) by (now rewrite Hty).
    apply (ip_whole_n ct h0 l a c d k sp s lc (ODict kvs) Hl Hc Ha Hd Hfz Hni Hcoll Hfld Hlc Hkvs Hun
             (with_tail ct l a sp (mkh [key; v] true true VMissing false None None [] None))
             (dict_with_pure_p ct tk tv kvs key (prep_val sp v)))
      with (edit := spec_with_item ct h0); try reflexivity.
    - intros s1 lc1 H1 Hf1. apply (with_tail_dict_p ct l a sp Hpok Hstrict' tk tv); auto. congruence.
    - intros o'. apply (dict_with_pure_p_scalar ct tk tv kvs key (prep_val sp v) o' Hkvs Hk (np_nonref v Hv)).
    - exact (dict_with_pure_p_spec ct h0 sp Hpok Hstrict' tk tv kvs true key v Hty Hkvs Hk Hv).
    - now apply np_run.
  Qed.

  Theorem with_item_set_prep_nested_refines xs ity v :
    a_ty sp = TSet ity -> spec_of_ty_strict ity = None -> ty_depth ity < FUEL ->
    nth_error (heap s) lc = Some (OSet xs) -> forallb nonref xs = true ->
    vscalar v = true -> (forall v', prep_val sp v = Ok v' -> set_key_free ct xs v' = true) ->
    inplace_refines_spec ct h0 s l (HWithItem a) (mkh [v] true true VMissing false None None [] None)
                         (SWithItem a) (mkah [abs0 v] true true AMissing false None None [] None).
  Proof.
    intros Hty Hstrict Hdepth Hlc Hxs Hv Hkf. unfold inplace_refines_spec.
    assert (Hcoll : ty_is_collection (a_ty sp) = true) by (now rewrite Hty).
    assert (Hstrict' : spec_of_ty_strict (item_type (a_ty sp)) = None) by (now rewrite Hty).
    apply (ip_whole_n ct h0 l a c d k sp s lc (OSet xs) Hl Hc Ha Hd Hfz Hni Hcoll Hfld Hlc Hxs Hun
             (with_tail ct l a sp (mkh [v] true true VMissing false None None [] None))
             (set_with_pure_p ct ity xs (prep_val sp v)))
      with (edit := spec_with_item ct h0); try reflexivity.
    - intros s1 lc1 H1 Hf1. apply (with_tail_set_p ct l a sp Hpok Hstrict' ity); auto. congruence.
    - intros o'. apply (set_with_pure_p_scalar ct ity xs (prep_val sp v) o' Hxs (np_nonref v Hv)).
    - exact (set_with_pure_p_spec ct h0 sp Hpok Hstrict' ity xs true v Hty Hxs Hv Hkf).
    - now apply np_run.
  Qed.
End NestedPrep.
