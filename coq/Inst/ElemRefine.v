(* C06: the model's element helpers refine the specification's plain container
   operations — first layer: with_<item> on a list attribute of scalars, in
   place, for lists of every length and content (append, replace at a
   possibly negative index, insert before a clamped index; IndexError /
   ValueError outcomes included). *)
From Coq Require Import List ZArith Bool Arith Lia.
From SC Require Import Base.Res Base.PyList Inst.Heap Inst.ClassTable Inst.Model Inst.Canon
  Inst.Abs Inst.SpecHelpers Inst.ElemProofs Inst.Framed Inst.RefineProofs Inst.CopyProofs.
Import ListNotations.
Open Scope nat_scope.

(* ------------------------------------------------------------------ *)
(** * Records *)

Lemma map_repl_notin {V} a (v : V) (l : list (nat * V)) :
  ~ In a (map fst l) -> map (fun p : nat * V => if fst p =? a then (a, v) else p) l = l.
Proof.
  induction l as [|q l IH]; intro H; [reflexivity|]. simpl.
  destruct (fst q =? a) eqn:F.
  - exfalso. apply H. apply Nat.eqb_eq in F. simpl. auto.
  - f_equal. apply IH. intro H'. apply H. simpl. auto.
Qed.

Lemma assoc_set_same {V} a (v : V) (l : list (nat * V)) :
  assoc a l = Some v -> NoDup (map fst l) -> assoc_set a v l = l.
Proof.
  intros Ha Hd. unfold assoc_set. rewrite existsb_key_assoc, Ha.
  induction l as [|p l IH]; [reflexivity|]. simpl. rewrite assoc_cons in Ha.
  inversion Hd as [|? ? Hp Hl]; subst.
  destruct (fst p =? a) eqn:E.
  - inversion Ha; subst v. apply Nat.eqb_eq in E. destruct p as [b w]; simpl in *; subst b. f_equal.
    now apply map_repl_notin.
  - f_equal. apply IH; auto.
Qed.

(* the receiver after its list attribute's cell has been rewritten *)
Lemma abs_inst_child_update h l c d n a lc ys :
  nth_error h l = Some (OInst c d) -> NoDup (map fst d) -> assoc a d = Some (VRef lc) -> lc <> l ->
  lc < length h ->
  flat_fields h d -> (forall b w, In (b, w) d -> b <> a -> w <> VRef lc) ->
  forallb nonref ys = true ->
  abs (S (S n)) (set_nth lc (OList ys) h) (VRef l) =
  AInst c (fset a (AList (map abs0 ys)) (map (fun p => (fst p, abs (S n) h (snd p))) (sorted_fields d))).
Proof.
  intros Hl Hd Ha Hne Hlen Hflat Hshare Hys.
  set (h' := set_nth lc (OList ys) h).
  assert (Hl' : nth_error h' l = Some (OInst c d)) by (unfold h'; rewrite set_nth_other; auto).
  assert (Hlc' : nth_error h' lc = Some (OList ys)) by (unfold h'; now apply nth_error_set_nth_same).
  rewrite (abs_inst h' l c d (S n) Hl'). f_equal.
  destruct (sorted_fields_props d Hd) as [S A].
  apply ssorted_ext.
  - now apply ssorted_map_fields.
  - apply ssorted_fset. now apply ssorted_map_fields.
  - intro k0. rewrite assoc_fset, !assoc_map_fields, A.
    destruct (a =? k0) eqn:E.
    + apply Nat.eqb_eq in E. subst k0. rewrite Ha. cbn [option_map]. f_equal.
      cbn [abs]. rewrite Hlc'. f_equal. apply map_ext_in. intros x Hx.
      rewrite forallb_forall in Hys. now rewrite abs_nonref_eq by auto.
    + destruct (assoc k0 d) as [w|] eqn:Ek; [|reflexivity]. cbn [option_map]. f_equal.
      apply assoc_in in Ek. apply Nat.eqb_neq in E.
      destruct (Hflat (k0, w) Ek) as [Hw|[lx [o [Ew [Ho Hso]]]]]; cbn [snd] in *.
      * now rewrite !abs_nonref_eq.
      * subst w. assert (lx <> lc) by (intro; subst lx; apply (Hshare k0 (VRef lc) Ek); auto).
        eapply abs_scalar_obj; eauto. unfold h'. rewrite set_nth_other; auto.
Qed.

(* ------------------------------------------------------------------ *)
(** * The model's pieces on a list of scalars *)

Section SeqScalars.
  Variable ct : ctable.
  Variable rec : call -> M val.
  Variable sp : attr_spec.
  Variable ity : ty.
  Hypothesis Hty : a_ty sp = TList ity.
  Hypothesis Hprep : a_prepare_item sp = None.
  Hypothesis Hstrict : spec_of_ty_strict ity = None.
  Hypothesis Hdepth : ty_depth ity < FUEL.

  Lemma item_type_sp : item_type (a_ty sp) = ity.
  Proof. now rewrite Hty. Qed.

  (* the element pipeline on a given proper scalar: the element itself *)
  Lemma mutate_value_item_scalar inst old new s :
    vscalar new = true ->
    mutate_value ct rec (mkmv old new true (PItem sp inst) None (Some (ctor_of_ty ity)) (Some ity) None [] false) s
    = (Ok new, s).
  Proof.
    intro Hv.
    assert (E : prepare_item ct rec sp inst new s = (Ok new, s)).
    { unfold prepare_item. rewrite Hprep, bind_ret, item_type_sp, Hstrict. reflexivity. }
    destruct new; cbn [vscalar] in Hv; try discriminate;
      unfold mutate_value; cbn [mv_new]; unfold mutate_value_body;
      cbn [mv_new mv_old mv_replace mv_prepare is_missing negb andb orb];
      rewrite (bind_ok _ _ _ _ _ E); reflexivity.
  Qed.

  Lemma read_list_at lc xs s : nth_error (heap s) lc = Some (OList xs) -> read_list (VRef lc) s = (Ok (lc, xs), s).
  Proof. intro H. unfold read_list. cbn [loc_of_t]. rewrite bind_ret. rewrite (bind_ok _ _ _ _ _ (read_run lc s _ H)). reflexivity. Qed.

  (* SequenceMutator._inserter on a list of scalars *)
  Lemma seq_inserter_run lc xs idx item ins s :
    nth_error (heap s) lc = Some (OList xs) -> nonref item = true ->
    seq_inserter ct sp (VRef lc) idx item ins s =
    if conforms ct ity (abs0 item) then
      match idx with
      | VNone => (Ok tt, upd s lc (OList (xs ++ [item])))
      | VInt i =>
          if ins then (Ok tt, upd s lc (OList (insert_at (clamp_index (zlen xs) i) item xs)))
          else match norm_index (zlen xs) i with
               | Some n => (Ok tt, upd s lc (OList (set_at n item xs)))
               | None => (Err IndexErr, s) end
      | VBool b =>
          let i := if b then 1%Z else 0%Z in
          if ins then (Ok tt, upd s lc (OList (insert_at (clamp_index (zlen xs) i) item xs)))
          else match norm_index (zlen xs) i with
               | Some n => (Ok tt, upd s lc (OList (set_at n item xs)))
               | None => (Err IndexErr, s) end
      | _ => (Err TypeErr, s)
      end
    else (Err ValueErr, s).
  Proof.
    intros Hl Hi. unfold seq_inserter.
    rewrite (bind_ok (check_typeM ct item (item_type (a_ty sp))) _ s
                     (check_type FUEL ct (heap s) item (item_type (a_ty sp))) s eq_refl).
    rewrite item_type_sp, check_type_nonref by auto.
    destruct (conforms ct ity (abs0 item)); [|reflexivity]. cbn [negb].
    rewrite (bind_ok _ _ _ _ _ (read_list_at lc xs s Hl)). cbn [fst snd].
    assert (Hlen : lc < length (heap s)) by (apply nth_error_Some; congruence).
    destruct idx as [| | | |[|]|i| | |]; try reflexivity;
      try (destruct ins; [apply write_run; auto|
                         destruct (norm_index (zlen xs) _); [apply write_run; auto|reflexivity]]).
    apply write_run; auto.
  Qed.

  (* SequenceMutator._extractor addressed by an integer index *)
  Lemma seq_extractor_index lc xs i require s :
    nth_error (heap s) lc = Some (OList xs) ->
    seq_extractor ct sp (VRef lc) (VInt i) require TriTrue s =
    match norm_index (zlen xs) i with
    | Some n => (Ok (VInt i, nth n xs VMissing), s)
    | None => if require then (Err IndexErr, s) else (Ok (VInt i, VMissing), s)
    end.
  Proof.
    intro Hl. unfold seq_extractor. cbn [is_missing orb]. rewrite bind_ret.
    rewrite (bind_ok _ _ _ _ _ (read_list_at lc xs s Hl)). cbn [fst snd].
    destruct (norm_index (zlen xs) i) as [n|] eqn:E; [|destruct require; reflexivity].
    pose proof (norm_index_lt xs i n E) as Hn.
    destruct (nth_error xs n) as [x|] eqn:Ex; [|apply nth_error_None in Ex; lia].
    now rewrite (nth_error_nth _ _ _ Ex).
  Qed.
End SeqScalars.

Lemma getattr_default_at ct l a s c d v :
  nth_error (heap s) l = Some (OInst c d) -> assoc a d = Some v -> getattr_default ct l a s = (Ok v, s).
Proof.
  intros Hl Ha. unfold getattr_default. rewrite (bind_ok _ _ _ _ _ (read_inst_at l s c d Hl)). cbn [snd].
  now rewrite Ha.
Qed.

(* ------------------------------------------------------------------ *)
(** * Lists commute with the abstraction of their elements *)

Lemma map_set_at {A B} (g : A -> B) n x l : map g (set_at n x l) = set_at n (g x) (map g l).
Proof. unfold set_at. now rewrite map_app, firstn_map, map_cons, skipn_map. Qed.
Lemma map_insert_at {A B} (g : A -> B) n x l : map g (insert_at n x l) = insert_at n (g x) (map g l).
Proof. unfold insert_at. now rewrite map_app, firstn_map, map_cons, skipn_map. Qed.
Lemma map_remove_at {A B} (g : A -> B) n l : map g (remove_at n l) = remove_at n (map g l).
Proof. unfold remove_at. now rewrite map_app, firstn_map, skipn_map. Qed.
Lemma zlen_map {A B} (g : A -> B) l : zlen (map g l) = zlen l.
Proof. unfold zlen. now rewrite map_length. Qed.
Lemma nth_map_abs0 n xs : nth n (map abs0 xs) AMissing = abs0 (nth n xs VMissing).
Proof. change AMissing with (abs0 VMissing). apply map_nth. Qed.

Lemma forallb_app_true {A} (f : A -> bool) l1 l2 : forallb f l1 = true -> forallb f l2 = true -> forallb f (l1 ++ l2) = true.
Proof. intros. rewrite forallb_app. now rewrite H, H0. Qed.
Lemma forallb_firstn {A} (f : A -> bool) n l : forallb f l = true -> forallb f (firstn n l) = true.
Proof. rewrite !forallb_forall. intros H x Hx. apply H. rewrite <- (firstn_skipn n l). apply in_or_app. auto. Qed.
Lemma forallb_skipn {A} (f : A -> bool) n l : forallb f l = true -> forallb f (skipn n l) = true.
Proof. rewrite !forallb_forall. intros H x Hx. apply H. rewrite <- (firstn_skipn n l). apply in_or_app. auto. Qed.

Lemma abs_list_scalars h lc xs n :
  nth_error h lc = Some (OList xs) -> forallb nonref xs = true -> abs (S n) h (VRef lc) = AList (map abs0 xs).
Proof.
  intros H Hx. cbn [abs]. rewrite H. f_equal. apply map_ext_in. intros x Hi.
  rewrite forallb_forall in Hx. now rewrite abs_nonref_eq by auto.
Qed.

(* ------------------------------------------------------------------ *)
(** * with_<item>(v, _index, _insert, _inplace=True) on a list attribute of scalars *)

Section WithItemList.
  Variable ct : ctable.
  Variable h0 : list obj.
  Variables (l : loc) (a : aid) (c : cid) (d : list (aid * val)) (k : cls) (sp : attr_spec).
  Variable s : state.
  Variables (lc : loc) (xs : list val) (ity : ty).
  Hypothesis Hl : nth_error (heap s) l = Some (OInst c d).
  Hypothesis Hc : lookup_cls ct c = Some k.
  Hypothesis Ha : lookup_attr k a = Some sp.
  Hypothesis Hd : NoDup (map fst d).
  Hypothesis Hfz : c_frozen k = false.
  Hypothesis Hni : no_inval k.
  Hypothesis Hty : a_ty sp = TList ity.
  Hypothesis Hprep : a_prepare_item sp = None.
  Hypothesis Hstrict : spec_of_ty_strict ity = None.
  Hypothesis Hdepth : ty_depth ity < FUEL.
  Hypothesis Hfld : assoc a d = Some (VRef lc).
  Hypothesis Hlc : nth_error (heap s) lc = Some (OList xs).
  Hypothesis Hxs : forallb nonref xs = true.
  Hypothesis Hflat : flat_fields (heap s) d.
  Hypothesis Hshare : forall b w, In (b, w) d -> b <> a -> w <> VRef lc.   (* the list is not shared with another attribute *)

  Let flds := map (fun p => (fst p, abs 23 (heap s) (snd p))) (sorted_fields d).
  Let axs := map abs0 xs.

  Lemma lc_ne_l : lc <> l.
  Proof. intro E. subst lc. rewrite Hl in Hlc. discriminate. Qed.

  Lemma name_sp : a_name sp = a.
  Proof. unfold lookup_attr in Ha. apply find_some in Ha. destruct Ha as [_ E]. now apply Nat.eqb_eq in E. Qed.

  Lemma recv_abs : absv (heap s) (VRef l) = AInst c flds.
  Proof. rewrite absv_unfold. now rewrite (abs_inst _ l c d 23 Hl). Qed.

  Lemma cur_abs : assoc a flds = Some (AList axs).
  Proof.
    unfold flds. destruct (sorted_fields_props d Hd) as [_ A]. rewrite assoc_map_fields, A, Hfld. cbn [option_map].
    f_equal. exact (abs_list_scalars (heap s) lc xs 22 Hlc Hxs).
  Qed.

  (* the state after the list cell has been replaced by ys *)
  Lemma after_edit ys :
    forallb nonref ys = true ->
    absv (heap (upd s lc (OList ys))) (VRef l) = AInst c (fset a (AList (map abs0 ys)) flds).
  Proof.
    intro Hys. rewrite heap_upd, absv_unfold.
    apply (abs_inst_child_update (heap s) l c d 22 a lc ys Hl Hd Hfld lc_ne_l); auto.
    apply nth_error_Some. congruence.
  Qed.

  (* the specification's element pipeline on a proper scalar *)
  Lemma elem_pipeline_scalar old v :
    vscalar v = true ->
    elem_pipeline ct h0 sp old (abs0 v) true None None [] =
    if conforms ct ity (abs0 v) then SOk (abs0 v) else SErr ValueErr.
  Proof.
    intro Hv. unfold elem_pipeline. rewrite Hty. cbn [item_type].
    assert (E : spec_value ct h0 (sexec ct h0 SFUEL) old (abs0 v) true (SPItem sp) None
                           (Some (ctor_for ity)) (Some ity) None [] = SOk (abs0 v)).
    { destruct v; cbn [vscalar] in Hv; try discriminate; unfold spec_value; cbn [abs0 a_not_given negb run_prep];
        unfold prepare_elem; rewrite Hprep, Hty; cbn [item_type sbind]; rewrite Hstrict; reflexivity. }
    rewrite E. reflexivity.
  Qed.

  (* the specification of the whole call, given the edited container *)
  Lemma spec_with_item_closed ah (r : sres aval) :
    ah_if ah = true -> ah_inplace ah = true ->
    spec_with_item ct h0 sp (AList axs) ah = r ->
    spec_helper ct h0 (absv (heap s) (VRef l)) (SWithItem a) ah =
    (c' <~ r ;; SOk (AInst c (fset a c' flds))).
  Proof.
    intros Hif Hin Hr. rewrite recv_abs. unfold spec_helper. rewrite Hif. cbn [negb].
    unfold mutates_in_place. rewrite Hin, Hif. cbn [andb]. unfold frozen_class. rewrite Hc, Hfz.
    unfold spec_unfrozen, spec_elem_helper, attr_of, cls_for. rewrite Hc. cbn [sbind]. rewrite Ha.
    unfold read_attr. rewrite cur_abs. cbn [sbind]. rewrite Hty. cbn [ty_is_collection ty_is_list orb].
    unfold coll_of. cbn [a_is_missing sbind]. rewrite Hr.
    destruct r as [c'| | |]; cbn [sbind]; auto.
    unfold invalidate, cls_for. rewrite Hc. cbn [sbind]. rewrite invalidatees_none by auto. reflexivity.
  Qed.

  (* the model up to the edit of the list cell *)
  Lemma model_with_item_run idx v ins s2 ys :
    mutate_collection ct (exec ct XFUEL) FSeq sp l (VRef lc)
      (mkio idx v None None [] true (negb (is_missing idx) && negb ins) TriTrue ins) s = (Ok (VRef lc), s2) ->
    s2 = upd s lc (OList ys) ->
    run_helper ct l (HWithItem a) (mkh [v] true true idx ins None None [] None) s = (Ok (VRef l), s2).
  Proof.
    intros Hmc Hs2. unfold run_helper. cbn [h_if negb h_inplace h_index h_insert h_kw pos0 h_pos nth].
    assert (Hsf : spec_for ct l a s = (Ok (k, sp), s)).
    { unfold spec_for. rewrite (bind_ok _ _ _ _ _ (read_inst_at l s c d Hl)). cbn [fst].
      rewrite (bind_ok _ _ _ _ _ (cls_of_at ct c s k Hc)). now rewrite Ha. }
    rewrite (bind_ok _ _ _ _ _ Hsf). cbn [snd].
    assert (Hmk : mk_mutator ct sp l true s = (Ok (VRef lc), s)).
    { unfold mk_mutator. rewrite (bind_ok _ _ _ _ _ (read_inst_at l s c d Hl)). cbn [fst snd].
      rewrite (bind_ok _ _ _ _ _ (cls_of_at ct c s k Hc)). rewrite Hfz. cbn [andb]. rewrite bind_ret.
      rewrite name_sp. rewrite (bind_ok _ _ _ _ _ (getattr_default_at ct l a s c d _ Hl Hfld)). reflexivity. }
    rewrite (bind_ok _ _ _ _ _ Hmk). rewrite Hty. cbn [family_of].
    rewrite (bind_ok _ _ _ _ _ Hmc).
    assert (Hl2 : nth_error (heap s2) l = Some (OInst c d)).
    { rewrite Hs2, heap_upd, set_nth_other by (apply lc_ne_l). exact Hl. }
    rewrite (mutate_attr_inplace_run ct (exec ct XFUEL) l a (VRef lc) false s2 c d k Hl2 Hc Hfz eq_refl Hni).
    rewrite (assoc_set_same a (VRef lc) d Hfld Hd). now rewrite (upd_same s2 l _ Hl2).
  Qed.

  Lemma model_with_item_err idx v ins e :
    mutate_collection ct (exec ct XFUEL) FSeq sp l (VRef lc)
      (mkio idx v None None [] true (negb (is_missing idx) && negb ins) TriTrue ins) s = (Err e, s) ->
    run_helper ct l (HWithItem a) (mkh [v] true true idx ins None None [] None) s = (Err e, s).
  Proof.
    intros Hmc. unfold run_helper. cbn [h_if negb h_inplace h_index h_insert h_kw pos0 h_pos nth].
    assert (Hsf : spec_for ct l a s = (Ok (k, sp), s)).
    { unfold spec_for. rewrite (bind_ok _ _ _ _ _ (read_inst_at l s c d Hl)). cbn [fst].
      rewrite (bind_ok _ _ _ _ _ (cls_of_at ct c s k Hc)). now rewrite Ha. }
    rewrite (bind_ok _ _ _ _ _ Hsf). cbn [snd].
    assert (Hmk : mk_mutator ct sp l true s = (Ok (VRef lc), s)).
    { unfold mk_mutator. rewrite (bind_ok _ _ _ _ _ (read_inst_at l s c d Hl)). cbn [fst snd].
      rewrite (bind_ok _ _ _ _ _ (cls_of_at ct c s k Hc)). rewrite Hfz. cbn [andb]. rewrite bind_ret.
      rewrite name_sp. rewrite (bind_ok _ _ _ _ _ (getattr_default_at ct l a s c d _ Hl Hfld)). reflexivity. }
    rewrite (bind_ok _ _ _ _ _ Hmk). rewrite Hty. cbn [family_of].
    now rewrite (bind_err _ _ _ _ _ Hmc).
  Qed.

  (* mutate_collection for with_<item> on the list of scalars *)
  Lemma mc_with_item idx v ins :
    vscalar v = true -> (idx = VMissing \/ exists i, idx = VInt i) ->
    mutate_collection ct (exec ct XFUEL) FSeq sp l (VRef lc)
      (mkio idx v None None [] true (negb (is_missing idx) && negb ins) TriTrue ins) s =
    match idx with
    | VInt i =>
        if ins then
          (if conforms ct ity (abs0 v)
           then (Ok (VRef lc), upd s lc (OList (insert_at (clamp_index (zlen xs) i) v xs)))
           else (Err ValueErr, s))
        else match norm_index (zlen xs) i with
             | Some n => if conforms ct ity (abs0 v)
                         then (Ok (VRef lc), upd s lc (OList (set_at n v xs))) else (Err ValueErr, s)
             | None => (Err IndexErr, s) end
    | _ => if conforms ct ity (abs0 v)
           then (Ok (VRef lc), upd s lc (OList (xs ++ [v]))) else (Err ValueErr, s)
    end.
  Proof.
    intros Hv Hidx. unfold mutate_collection. cbn [is_missing io_voi io_require io_by_index io_new io_replace io_attrs
      io_transform io_attr_transforms io_insert]. rewrite bind_ret.
    assert (Hmv : forall old s1, exec ct XFUEL (KMutateValue (mkmv old v true (PItem sp l) None
                     (Some (ctor_of_ty (item_type (a_ty sp)))) (Some (item_type (a_ty sp))) None [] false)) s1 = (Ok v, s1)).
    { intros old s1. rewrite XFUEL_S, exec_S. cbn [body]. rewrite (item_type_sp sp ity Hty).
      apply (mutate_value_item_scalar ct (exec ct 39) sp ity Hty Hprep Hstrict l old v s1 Hv). }
    assert (Hnr : nonref v = true) by (now apply vscalar_nonref).
    destruct Hidx as [->|[i ->]].
    - (* append *)
      cbn [is_missing negb andb]. unfold seq_extractor. cbn [is_missing orb]. rewrite bind_ret. cbn [fst snd].
      rewrite (bind_ok _ _ _ _ _ (Hmv VMissing s)). unfold bind.
      rewrite (seq_inserter_run ct sp ity Hty Hdepth lc xs VNone v ins s Hlc Hnr).
      destruct (conforms ct ity (abs0 v)); reflexivity.
    - cbn [is_missing negb andb]. unfold bind at 1.
      rewrite (seq_extractor_index ct sp ity Hdepth lc xs i (negb ins) s Hlc).
      destruct ins; cbn [negb].
      + (* insert *)
        assert (E : forall ex : val * val, (new_item <- exec ct XFUEL (KMutateValue (mkmv (snd ex) v true (PItem sp l) None
                       (Some (ctor_of_ty (item_type (a_ty sp)))) (Some (item_type (a_ty sp))) None [] false));;
                     seq_inserter ct sp (VRef lc) (VInt i) new_item true;;; ret (VRef lc)) s =
                    (if conforms ct ity (abs0 v)
                     then (Ok (VRef lc), upd s lc (OList (insert_at (clamp_index (zlen xs) i) v xs)))
                     else (Err ValueErr, s))).
        { intro ex. rewrite (bind_ok _ _ _ _ _ (Hmv (snd ex) s)). unfold bind.
          rewrite (seq_inserter_run ct sp ity Hty Hdepth lc xs (VInt i) v true s Hlc Hnr).
          destruct (conforms ct ity (abs0 v)); reflexivity. }
        destruct (norm_index (zlen xs) i) as [n|].
        * cbv beta iota. cbn [fst]. apply (E (VInt i, nth n xs VMissing)).
        * cbv beta iota. cbn [fst]. apply (E (VInt i, VMissing)).
      + (* replace *)
        destruct (norm_index (zlen xs) i) as [n|] eqn:En; [|reflexivity].
        cbv beta iota. cbn [fst snd]. rewrite (bind_ok _ _ _ _ _ (Hmv _ s)). unfold bind.
        rewrite (seq_inserter_run ct sp ity Hty Hdepth lc xs (VInt i) v false s Hlc Hnr). rewrite En.
        destruct (conforms ct ity (abs0 v)); reflexivity.
  Qed.

  Theorem with_item_list_inplace_refines idx v ins :
    vscalar v = true -> (idx = VMissing \/ exists i, idx = VInt i) ->
    let h := mkh [v] true true idx ins None None [] None in
    let ah := mkah [abs0 v] true true (abs0 idx) ins None None [] None in
    match run_helper ct l (HWithItem a) h s with
    | (Ok r, s') => r = VRef l /\
                    spec_helper ct h0 (absv (heap s) (VRef l)) (SWithItem a) ah = SOk (absv (heap s') (VRef l))
    | (Err e, s') => spec_helper ct h0 (absv (heap s) (VRef l)) (SWithItem a) ah = SErr e /\ heap s' = heap s
    end.
  Proof.
    intros Hv Hidx h ah.
    pose proof (mc_with_item idx v ins Hv Hidx) as Hmc.
    assert (Hnr : nonref v = true) by (now apply vscalar_nonref).
    (* the specification's edit *)
    assert (Hspec : spec_with_item ct h0 sp (AList axs) ah =
              match idx with
              | VInt i =>
                  if ins then
                    (if conforms ct ity (abs0 v)
                     then SOk (AList (insert_at (clamp_index (zlen axs) i) (abs0 v) axs)) else SErr ValueErr)
                  else match norm_index (zlen axs) i with
                       | Some n => if conforms ct ity (abs0 v) then SOk (AList (set_at n (abs0 v) axs)) else SErr ValueErr
                       | None => SErr IndexErr end
              | _ => if conforms ct ity (abs0 v) then SOk (AList (axs ++ [abs0 v])) else SErr ValueErr
              end).
    { unfold spec_with_item, ah. rewrite Hty. cbn [ah_index ah_insert ah_kw apos0 ah_pos nth].
      destruct Hidx as [->|[i ->]]; cbn [abs0 a_is_missing].
      - rewrite (elem_pipeline_scalar AMissing v Hv). destruct (conforms ct ity (abs0 v)); reflexivity.
      - destruct ins.
        + cbn [int_of]. rewrite (elem_pipeline_scalar _ v Hv). destruct (conforms ct ity (abs0 v)); reflexivity.
        + unfold seq_index. cbn [int_of]. destruct (norm_index (zlen axs) i) as [n|]; cbn [sbind]; [|reflexivity].
          rewrite (elem_pipeline_scalar _ v Hv). destruct (conforms ct ity (abs0 v)); reflexivity. }
    rewrite (spec_with_item_closed ah _ eq_refl eq_refl Hspec).
    unfold axs in *. rewrite zlen_map. subst h.
    destruct Hidx as [->|[i ->]].
    - destruct (conforms ct ity (abs0 v)).
      + rewrite (model_with_item_run VMissing v ins _ (xs ++ [v]) Hmc eq_refl). split; auto. cbn [sbind].
        rewrite after_edit by (apply forallb_app_true; simpl; auto; now rewrite Hnr). now rewrite map_app.
      + rewrite (model_with_item_err VMissing v ins ValueErr Hmc). auto.
    - destruct ins.
      + destruct (conforms ct ity (abs0 v)).
        * rewrite (model_with_item_run (VInt i) v true _ _ Hmc eq_refl). split; auto. cbn [sbind].
          rewrite after_edit.
          -- now rewrite map_insert_at.
          -- unfold insert_at. apply forallb_app_true; [now apply forallb_firstn|]. cbn [forallb]. rewrite Hnr. cbn [andb]. now apply forallb_skipn.
        * rewrite (model_with_item_err (VInt i) v true ValueErr Hmc). auto.
      + destruct (norm_index (zlen xs) i) as [n|].
        * destruct (conforms ct ity (abs0 v)).
          -- rewrite (model_with_item_run (VInt i) v false _ _ Hmc eq_refl). split; auto. cbn [sbind].
             rewrite after_edit.
             ++ now rewrite map_set_at.
             ++ unfold set_at. apply forallb_app_true; [now apply forallb_firstn|]. cbn [forallb]. rewrite Hnr. cbn [andb]. now apply forallb_skipn.
          -- rewrite (model_with_item_err (VInt i) v false ValueErr Hmc). auto.
        * rewrite (model_with_item_err (VInt i) v false IndexErr Hmc). auto.
  Qed.
End WithItemList.
