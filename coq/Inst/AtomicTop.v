(* Top-level update / transform with _inplace=True and exactly ONE keyword:
   an exception leaves every pre-existing cell unchanged (when nothing is
   invalidated by the attribute).  With two or more keywords the statement is
   false: Props/C04.v, C04_multi_keyword_inplace_update_refuted. *)
From Coq Require Import List ZArith Bool Arith Lia.
From SC Require Import Base.Res Base.PyList Inst.Heap Inst.ClassTable Inst.Model Inst.Framed
  Inst.FrameProofs Inst.FrozenProofs Inst.AtomicProofs Inst.AtomicElem.
Import ListNotations.
Open Scope nat_scope.

Lemma err_frame_bind_total {A B} b (m : M A) (k : A -> M B) s :
  err_frame b m s -> (forall a s1, exists r, k a s1 = (Ok r, s1)) -> err_frame b (bind m k) s.
Proof.
  intros H Hk e. unfold err_frame, bind in *. destruct (m s) as [[a|e1] s1]; simpl in *.
  - destruct (Hk a s1) as [r Hr]. rewrite Hr. simpl. discriminate.
  - intros _. apply (H e1 eq_refl).
Qed.

Lemma err_frame_ret {A} b (a : A) s : err_frame b (ret a) s.
Proof. intros e E. discriminate. Qed.

Section AtomicTop.
  Variable ct : ctable.
  Hypothesis no_dnc : forall c k, lookup_cls ct c = Some k -> c_dnc k = false.
  Variable rec : call -> M val.

  (* update(_inplace=True, a=v): the whole call is the one assignment *)
  Lemma update_top_single_gen b l a v s c d k :
    nth_error (heap s) l = Some (OInst c d) -> lookup_cls ct c = Some k ->
    err_frame b (rec (KSetAttr l a v false false)) s ->
    err_frame b (mutate_value_body ct rec
                   (mkmv (VRef l) VMissing false PNone (Some [(a, v)]) None None None [] true)) s.
  Proof.
    intros Hn Hk H e. unfold mutate_value_body.
    cbn [mv_new mv_old mv_replace mv_prepare mv_attrs mv_ctor mv_expected mv_transform
         mv_attr_transforms mv_inplace is_missing negb andb orb].
    erewrite bind_ok; [|reflexivity].
    erewrite bind_ok; [|reflexivity]. cbv zeta.
    erewrite bind_ok; [|reflexivity]. cbv iota beta.
    revert e. apply err_frame_bind_total.
    2:{ intros [v3 b3] s1. eexists. reflexivity. }
    intro e. erewrite bind_ok; [|reflexivity]. revert e.
    apply err_frame_then_ret. intro e. unfold thawed_val.
    rewrite (thawed_nothaw_eq ct l _ s c d k Hn Hk). revert e.
    cbn [iterM existsb fst snd]. apply err_frame_then_ret.
    destruct (is_missing v); [apply err_frame_ret|].
    intro e. erewrite bind_ok; [|reflexivity]. revert e.
    apply err_frame_then_ret. exact H.
  Qed.

  (* transform(_inplace=True, a=f): read, apply f (allocates at most), one assignment *)
  Lemma transform_top_single_gen b l a f s c d k :
    l < b -> b <= length (heap s) ->
    nth_error (heap s) l = Some (OInst c d) -> lookup_cls ct c = Some k ->
    (forall t s1, b <= length (heap s1) -> nth_error (heap s1) l = Some (OInst c d) ->
                  err_frame b (rec (KSetAttr l a t false false)) s1) ->
    err_frame b (mutate_value_body ct rec
                   (mkmv (VRef l) VMissing false PNone None None None None [(a, f)] true)) s.
  Proof.
    intros Hl Hb Hn Hk H e. unfold mutate_value_body.
    cbn [mv_new mv_old mv_replace mv_prepare mv_attrs mv_ctor mv_expected mv_transform
         mv_attr_transforms mv_inplace is_missing negb andb orb].
    erewrite bind_ok; [|reflexivity].
    erewrite bind_ok; [|reflexivity]. cbv zeta.
    erewrite bind_ok; [|reflexivity]. cbv iota beta.
    erewrite bind_ok; [|reflexivity]. cbv iota beta.
    erewrite bind_ok; [|reflexivity].
    erewrite bind_ok; [|reflexivity]. revert e.
    apply err_frame_then_ret. intro e. unfold thawed_val.
    rewrite (thawed_nothaw_eq ct l _ s c d k Hn Hk). revert e.
    cbn [iterM fst snd]. apply err_frame_then_ret.
    intro e. erewrite bind_ok; [|reflexivity]. revert e.
    eapply err_frame_bind_framed with (Q := fun _ => True); eauto.
    { apply getattr_default_framed; auto. }
    intros cur s1 Hb1 Hn1.
    eapply err_frame_bind_framed with (Q := fun _ => True); eauto.
    { eapply framed_weaken; [apply framed_apply_fn|auto]. }
    intros t s2 Hb2 Hn2.
    destruct (is_missing t); [apply err_frame_ret|].
    apply err_frame_then_ret. apply H; auto.
  Qed.
End AtomicTop.

Section AtomicTopStep.
  Variable ct : ctable.
  Hypothesis no_dnc : forall c k, lookup_cls ct c = Some k -> c_dnc k = false.

  Lemma exec39_setattr_err_frame b l a v s c d k :
    l < b -> b <= length (heap s) ->
    nth_error (heap s) l = Some (OInst c d) -> lookup_cls ct c = Some k ->
    no_dependants k a ->
    err_frame b (exec ct 39 (KSetAttr l a v false false)) s.
  Proof.
    intros Hl Hb Hn Hk Hd.
    change (exec ct 39 (KSetAttr l a v false false)) with (setattr_ ct (exec ct 38) l a v false false).
    apply (setattr_err_frame ct no_dnc (exec ct 38) b l a v false false s c d k
             (exec_framed ct no_dnc b 38)); auto.
  Qed.

  (* obj.update(a=v, _inplace=True) *)
  Theorem inplace_update_top_single_op_err_frame roots x a v h s l c d k e :
    nth x roots VNone = VRef l -> l < length (heap s) ->
    nth_error (heap s) l = Some (OInst c d) -> lookup_cls ct c = Some k ->
    no_dependants k a ->
    h_inplace h = true -> h_pos h = [] -> h_kw h = Some [(a, v)] ->
    fst (step ct roots (OpHelper x HUpdateTop h) s) = Err e ->
    frame (length (heap s)) s (snd (step ct roots (OpHelper x HUpdateTop h) s)).
  Proof.
    intros Hx Hl Hn Hk Hd Hin Hpos Hkw. unfold step. rewrite Hx. cbn [loc_of].
    rewrite bind_ok with (a := l) (s1 := s) by reflexivity.
    unfold run_helper. destruct (h_if h); cbn [negb]; [|intro E; discriminate].
    unfold pos0. rewrite Hpos, Hkw, Hin. cbn [nth].
    change (exec ct XFUEL (KMutateValue (mkmv (VRef l) VMissing false PNone (Some [(a, v)]) None None None [] true)))
      with (mutate_value_body ct (exec ct 39) (mkmv (VRef l) VMissing false PNone (Some [(a, v)]) None None None [] true)).
    revert e. apply (update_top_single_gen ct (exec ct 39) (length (heap s)) l a v s c d k Hn Hk).
    apply (exec39_setattr_err_frame (length (heap s)) l a v s c d k); auto.
  Qed.

  (* obj.transform(a=f, _inplace=True) *)
  Theorem inplace_transform_top_single_op_err_frame roots x a f h s l c d k e :
    nth x roots VNone = VRef l -> l < length (heap s) ->
    nth_error (heap s) l = Some (OInst c d) -> lookup_cls ct c = Some k ->
    no_dependants k a ->
    h_inplace h = true -> h_fn h = None -> h_kwfn h = [(a, f)] ->
    fst (step ct roots (OpHelper x HTransformTop h) s) = Err e ->
    frame (length (heap s)) s (snd (step ct roots (OpHelper x HTransformTop h) s)).
  Proof.
    intros Hx Hl Hn Hk Hd Hin Hfn Hkw. unfold step. rewrite Hx. cbn [loc_of].
    rewrite bind_ok with (a := l) (s1 := s) by reflexivity.
    unfold run_helper. destruct (h_if h); cbn [negb]; [|intro E; discriminate].
    rewrite Hfn, Hkw, Hin.
    change (exec ct XFUEL (KMutateValue (mkmv (VRef l) VMissing false PNone None None None None [(a, f)] true)))
      with (mutate_value_body ct (exec ct 39) (mkmv (VRef l) VMissing false PNone None None None None [(a, f)] true)).
    revert e. apply (transform_top_single_gen ct no_dnc (exec ct 39) (length (heap s)) l a f s c d k); auto.
    intros t s1 Hb1 Hn1. apply (exec39_setattr_err_frame (length (heap s)) l a t s1 c d k); auto.
  Qed.
End AtomicTopStep.
