(* C06: the model's element helpers refine the specification's plain container
   operations — second layer.  A frame shared by every element helper called
   in place on a flat receiver whose collection attribute holds a container of
   scalars (list, dict or set), and on top of it: without_<item> on a list
   attribute of scalars (by value, by index, `_by_index` given or defaulted,
   present and absent target, no target at all). *)
From Coq Require Import List ZArith Bool Arith Lia.
From SC Require Import Base.Res Base.PyList Inst.Heap Inst.ClassTable Inst.Model Inst.Canon
  Inst.Abs Inst.SpecHelpers Inst.ElemProofs Inst.Framed Inst.RefineProofs Inst.CopyProofs Inst.ElemRefineDep Inst.ElemRefine.
Import ListNotations.
Open Scope nat_scope.

#[local] Opaque FUEL.

(* ------------------------------------------------------------------ *)
(** * == on scalars: the model's val_eqb is the specification's py_eq *)

Lemma val_atom_scalar_eq a b : nonref a = true -> nonref b = true ->
  val_atom_eqb a b = scalar_eq (abs0 a) (abs0 b) /\ exists r, val_atom_eqb a b = Some r.
Proof. destruct a, b; cbn [nonref]; intros; try discriminate; split; try reflexivity; eexists; reflexivity. Qed.

Lemma val_eqb_nonref ct f h a b : nonref a = true -> nonref b = true ->
  val_eqb f ct h a b = py_eq ct (abs0 a) (abs0 b).
Proof.
  intros Ha Hb. destruct (val_atom_scalar_eq a b Ha Hb) as [E [r Er]].
  unfold py_eq. rewrite (aeq_scalar ct EQFUEL _ _ r) by (now rewrite <- E).
  destruct f; cbn [val_eqb]; now rewrite Er.
Qed.

Local Opaque py_eq.

Lemma find_index_map {A B} (g : A -> B) (f : B -> bool) l :
  find_index f (map g l) = find_index (fun x => f (g x)) l.
Proof. induction l as [|x l IH]; [reflexivity|]. cbn [map find_index]. now rewrite IH. Qed.

Lemma find_index_ext_in {A} (f g : A -> bool) l : (forall x, In x l -> f x = g x) -> find_index f l = find_index g l.
Proof.
  induction l as [|x l IH]; intro H; [reflexivity|]. cbn [find_index].
  rewrite (H x) by (simpl; auto). rewrite IH; auto. intros; apply H; simpl; auto.
Qed.

Lemma find_index_lt {A} (f : A -> bool) l n : find_index f l = Some n -> n < length l.
Proof.
  intro H. apply find_index_spec in H. destruct H as [[x [Hx _]] _].
  apply nth_error_Some. congruence.
Qed.

Lemma norm_index_nat {A} (xs : list A) n : n < length xs -> norm_index (zlen xs) (Z.of_nat n) = Some n.
Proof.
  intro H. unfold norm_index, zlen.
  assert ((Z.of_nat n <? 0)%Z = false) as -> by (apply Z.ltb_ge; lia).
  assert ((0 <=? Z.of_nat n)%Z = true) as -> by (apply Z.leb_le; lia).
  assert ((Z.of_nat n <? Z.of_nat (length xs))%Z = true) as -> by (apply Z.ltb_lt; lia).
  cbn [andb]. now rewrite Nat2Z.id.
Qed.

(* integer value of an index argument (bool is an int) *)
Definition vint_of (v : val) : option Z :=
  match v with VInt z => Some z | VBool true => Some 1%Z | VBool false => Some 0%Z | _ => None end.
Lemma int_of_abs0 v : int_of (abs0 v) = vint_of v.
Proof. destruct v as [| | | |[|]| | | |]; reflexivity. Qed.

(* ------------------------------------------------------------------ *)
(** * The receiver after its container cell has been rewritten (any container of scalars) *)

Lemma abs_inst_child_update_gen h l c d n a lc o' :
  nth_error h l = Some (OInst c d) -> NoDup (map fst d) -> assoc a d = Some (VRef lc) -> lc <> l ->
  lc < length h ->
  flat_fields h d -> (forall b w, In (b, w) d -> b <> a -> w <> VRef lc) ->
  abs (S (S n)) (set_nth lc o' h) (VRef l) =
  AInst c (fset a (abs (S n) (set_nth lc o' h) (VRef lc))
                (map (fun p => (fst p, abs (S n) h (snd p))) (sorted_fields d))).
Proof.
  intros Hl Hd Ha Hne Hlen Hflat Hshare.
  set (h' := set_nth lc o' h).
  assert (Hl' : nth_error h' l = Some (OInst c d)) by (unfold h'; rewrite set_nth_other; auto).
  rewrite (abs_inst h' l c d (S n) Hl'). f_equal.
  destruct (sorted_fields_props d Hd) as [S A].
  apply ssorted_ext.
  - now apply ssorted_map_fields.
  - apply ssorted_fset. now apply ssorted_map_fields.
  - intro k0. rewrite assoc_fset, !assoc_map_fields, A.
    destruct (a =? k0) eqn:E.
    + apply Nat.eqb_eq in E. subst k0. rewrite Ha. reflexivity.
    + destruct (assoc k0 d) as [w|] eqn:Ek; [|reflexivity]. cbn [option_map]. f_equal.
      apply assoc_in in Ek. apply Nat.eqb_neq in E.
      destruct (Hflat (k0, w) Ek) as [Hw|[lx [o [Ew [Ho Hso]]]]]; cbn [snd] in *.
      * now rewrite !abs_nonref_eq.
      * subst w. assert (lx <> lc) by (intro; subst lx; apply (Hshare k0 (VRef lc) Ek); auto).
        eapply abs_scalar_obj; eauto. unfold h'. rewrite set_nth_other; auto.
Qed.

Lemma abs_ref_not_missing n h lc o : nth_error h lc = Some o -> a_is_missing (abs (S n) h (VRef lc)) = false.
Proof. intro H. cbn [abs]. rewrite H. destruct o; reflexivity. Qed.

(* ------------------------------------------------------------------ *)
(** * The frame: an element helper called in place on a flat receiver *)

Section ElemFrame.
  Variable ct : ctable.
  Variable h0 : list obj.
  Variables (l : loc) (a : aid) (c : cid) (d : list (aid * val)) (k : cls) (sp : attr_spec).
  Variable s : state.
  Variables (lc : loc) (o : obj).
  Hypothesis Hl : nth_error (heap s) l = Some (OInst c d).
  Hypothesis Hc : lookup_cls ct c = Some k.
  Hypothesis Ha : lookup_attr k a = Some sp.
  Hypothesis Hd : NoDup (map fst d).
  Hypothesis Hfz : c_frozen k = false.
  Hypothesis Hni : no_dep k a.
  Hypothesis Hcoll : ty_is_collection (a_ty sp) = true.
  Hypothesis Hfld : assoc a d = Some (VRef lc).
  Hypothesis Hlc : nth_error (heap s) lc = Some o.
  Hypothesis Ho : scalar_obj o = true.
  Hypothesis Hflat : flat_fields (heap s) d.
  Hypothesis Hshare : forall b w, In (b, w) d -> b <> a -> w <> VRef lc.

  Let flds := map (fun p => (fst p, abs 23 (heap s) (snd p))) (sorted_fields d).
  Let acur := abs 23 (heap s) (VRef lc).

  Lemma fr_lc_ne_l : lc <> l.
  Proof. intro E. subst lc. rewrite Hl in Hlc. inversion Hlc; subst o. discriminate. Qed.

  Lemma fr_cur_abs : assoc a flds = Some acur.
  Proof.
    unfold flds. destruct (sorted_fields_props d Hd) as [_ A]. now rewrite assoc_map_fields, A, Hfld.
  Qed.

  Lemma fr_acur_not_missing : a_is_missing acur = false.
  Proof. exact (abs_ref_not_missing 22 (heap s) lc o Hlc). Qed.

  (* the abstraction of the receiver once the container cell holds o' *)
  Lemma fr_after_edit s1 o' :
    heap s1 = heap s ->
    absv (heap (upd s1 lc o')) (VRef l) = AInst c (fset a (abs 23 (set_nth lc o' (heap s)) (VRef lc)) flds).
  Proof.
    intro Hs1. rewrite heap_upd, Hs1, absv_unfold.
    apply (abs_inst_child_update_gen (heap s) l c d 22 a lc o' Hl Hd Hfld fr_lc_ne_l); auto.
    apply nth_error_Some. congruence.
  Qed.

  (* the specification of the whole call, given the edit of the container *)
  Lemma fr_spec_closed hp (edit : attr_spec -> aval -> ahargs -> sres aval) ah (r : sres aval) :
    ah_if ah = true ->
    spec_unfrozen ct h0 (AInst c flds) hp ah = spec_elem_helper ct h0 (AInst c flds) a ah edit ->
    edit sp acur ah = r ->
    spec_helper ct h0 (absv (heap s) (VRef l)) hp ah =
    (c' <~ r ;; SOk (AInst c (fset a c' flds))).
  Proof.
    intros Hif Hun Hr. rewrite (recv_abs l c d s Hl). fold flds. unfold spec_helper. rewrite Hif. cbn [negb].
    unfold frozen_class. rewrite Hc, Hfz, andb_false_r. rewrite Hun.
    unfold spec_elem_helper, attr_of, cls_for. rewrite Hc. cbn [sbind]. rewrite Ha.
    unfold read_attr. rewrite fr_cur_abs. cbn [sbind]. rewrite Hcoll.
    unfold coll_of. rewrite fr_acur_not_missing. cbn [sbind]. rewrite Hr.
    destruct r as [c'| | |]; cbn [sbind]; auto.
    unfold invalidate, cls_for. rewrite Hc. cbn [sbind]. rewrite invalidatees_nodep by auto. reflexivity.
  Qed.

  (* the model: locating the attribute, building the mutator, storing the container back *)
  Lemma fr_spec_for : spec_for ct l a s = (Ok (k, sp), s).
  Proof.
    unfold spec_for. rewrite (bind_ok _ _ _ _ _ (read_inst_at l s c d Hl)). cbn [fst].
    rewrite (bind_ok _ _ _ _ _ (cls_of_at ct c s k Hc)). now rewrite Ha.
  Qed.

  Lemma fr_mk_mutator : mk_mutator ct sp l true s = (Ok (VRef lc), s).
  Proof.
    unfold mk_mutator. rewrite (bind_ok _ _ _ _ _ (read_inst_at l s c d Hl)). cbn [fst snd].
    rewrite (bind_ok _ _ _ _ _ (cls_of_at ct c s k Hc)). rewrite Hfz. cbn [andb]. rewrite bind_ret.
    rewrite (name_sp a k sp Ha). rewrite (bind_ok _ _ _ _ _ (getattr_default_at ct l a s c d _ Hl Hfld)). reflexivity.
  Qed.

  Lemma fr_store_back s2 :
    nth_error (heap s2) l = Some (OInst c d) ->
    mutate_attr ct (exec ct XFUEL) l a (VRef lc) true false false false s2 = (Ok (VRef l), s2).
  Proof.
    intro Hl2.
    rewrite (mutate_attr_inplace_run_nodep ct (exec ct XFUEL) l a (VRef lc) false s2 c d k Hl2 Hc Hfz eq_refl Hni).
    rewrite (assoc_set_same a (VRef lc) d Hfld Hd). now rewrite (upd_same s2 l _ Hl2).
  Qed.

  Lemma fr_recv_after s1 o' : heap s1 = heap s -> nth_error (heap (upd s1 lc o')) l = Some (OInst c d).
  Proof. intro H. rewrite heap_upd, H, set_nth_other by (apply fr_lc_ne_l). exact Hl. Qed.

  Lemma fr_lc_len : lc < length (heap s).
  Proof. apply nth_error_Some. congruence. Qed.
End ElemFrame.

(* ------------------------------------------------------------------ *)
(** * Addressing an element of a list of scalars *)

Definition opt_of_tri (b : option bool) := b.

Section SeqAddr.
  Variable ct : ctable.
  Variable sp : attr_spec.
  Variable ity : ty.
  Hypothesis Hty : a_ty sp = TList ity.
  Hypothesis Hdepth : ty_depth ity < FUEL.

  (* SequenceMutator._extractor on a list of scalars, every addressing mode *)
  Lemma seq_extractor_run lc xs voi req bi s :
    nth_error (heap s) lc = Some (OList xs) -> forallb nonref xs = true -> nonref voi = true ->
    seq_extractor ct sp (VRef lc) voi req (tri_of bi) s =
    if is_missing voi then (Ok (VNone, VMissing), s) else
    if by_index_rule ct ity (abs0 voi) bi then
      match vint_of voi with
      | Some i => match norm_index (zlen xs) i with
                  | Some n => (Ok (voi, nth n xs VMissing), s)
                  | None => if req then (Err IndexErr, s) else (Ok (voi, VMissing), s) end
      | None => (Err TypeErr, s)
      end
    else match find_index (fun x => py_eq ct x (abs0 voi)) (map abs0 xs) with
         | Some n => (Ok (VInt (Z.of_nat n), voi), s)
         | None => if req then (Err ValueErr, s) else (Ok (VNone, voi), s)
         end.
  Proof.
    intros Hl Hxs Hv. unfold seq_extractor. cbn [is_missing orb].
    destruct (is_missing voi) eqn:Em; [reflexivity|].
    assert (Hbi : (match tri_of bi with
                   | TriTrue => ret true | TriFalse => ret false
                   | TriMissing => ok <- check_typeM ct voi (item_type (a_ty sp)) ;; ret (negb ok) end) s
                  = (Ok (by_index_rule ct ity (abs0 voi) bi), s)).
    { destruct bi as [[|]|]; cbn [tri_of by_index_rule]; try reflexivity.
      rewrite (bind_ok (check_typeM ct voi (item_type (a_ty sp))) _ s
                       (check_type FUEL ct (heap s) voi (item_type (a_ty sp))) s eq_refl).
      rewrite (item_type_sp sp ity Hty), check_type_nonref by auto. reflexivity. }
    rewrite (bind_ok _ _ _ _ _ Hbi).
    rewrite (bind_ok _ _ _ _ _ (read_list_at lc xs s Hl)). cbn [fst snd].
    destruct (by_index_rule ct ity (abs0 voi) bi).
    - assert (Hnth : forall i, match norm_index (zlen xs) i with
                               | Some n => match nth_error xs n with
                                           | Some x => ret (voi, x)
                                           | None => if req then fail IndexErr else ret (voi, VMissing) end
                               | None => if req then fail IndexErr else ret (voi, VMissing) end s =
                               match norm_index (zlen xs) i with
                               | Some n => (Ok (voi, nth n xs VMissing), s)
                               | None => if req then (Err IndexErr, s) else (Ok (voi, VMissing), s) end).
      { intro i. destruct (norm_index (zlen xs) i) as [n|] eqn:E; [|destruct req; reflexivity].
        pose proof (norm_index_lt xs i n E) as Hn.
        destruct (nth_error xs n) as [x|] eqn:Ex; [|apply nth_error_None in Ex; lia].
        now rewrite (nth_error_nth _ _ _ Ex). }
      destruct voi as [| | | |[|]|i| | |]; cbn [vint_of]; try reflexivity; apply Hnth.
    - rewrite (bind_ok (find_eq_index ct xs voi) _ s
                       (find_index (fun x => val_eqb FUEL ct (heap s) x voi) xs) s eq_refl).
      rewrite find_index_map.
      rewrite (find_index_ext_in (fun x => val_eqb FUEL ct (heap s) x voi) (fun x => py_eq ct (abs0 x) (abs0 voi))).
      + destruct (find_index _ xs); [reflexivity|destruct req; reflexivity].
      + intros x Hx. rewrite forallb_forall in Hxs. apply val_eqb_nonref; auto.
  Qed.

  (* the specification's addressing, on the abstraction of the same list *)
  Lemma seq_locate_abs xs voi bi :
    seq_locate ct ity (map abs0 xs) (abs0 voi) bi =
    if by_index_rule ct ity (abs0 voi) bi then
      match vint_of voi with
      | Some i => match norm_index (zlen xs) i with Some n => SOk n | None => SErr IndexErr end
      | None => SErr TypeErr
      end
    else match find_index (fun x => py_eq ct x (abs0 voi)) (map abs0 xs) with
         | Some n => SOk n
         | None => SErr ValueErr end.
  Proof.
    unfold seq_locate, seq_index, seq_find. rewrite int_of_abs0, zlen_map. reflexivity.
  Qed.
End SeqAddr.

(* ------------------------------------------------------------------ *)
(** * without_<item>(target, _by_index, _inplace=True) on a list attribute of scalars *)

Section WithoutItemList.
  Variable ct : ctable.
  Variable h0 : list obj.
  Variables (l : loc) (a : aid) (c : cid) (d : list (aid * val)) (k : cls) (sp : attr_spec).
  Variable s : state.
  Variables (lc : loc) (xs : list val) (ity : ty).
  Hypothesis Hl : nth_error (heap s) l = Some (OInst c d).
  Hypothesis Hc : lookup_cls ct c = Some k.
  Hypothesis Ha : lookup_attr k a = Some sp.
  Hypothesis Hd : NoDup (map fst d).
  Hypothesis Hfz : c_frozen k = false.
  Hypothesis Hni : no_dep k a.
  Hypothesis Hty : a_ty sp = TList ity.
  Hypothesis Hdepth : ty_depth ity < FUEL.
  Hypothesis Hfld : assoc a d = Some (VRef lc).
  Hypothesis Hlc : nth_error (heap s) lc = Some (OList xs).
  Hypothesis Hxs : forallb nonref xs = true.
  Hypothesis Hflat : flat_fields (heap s) d.
  Hypothesis Hshare : forall b w, In (b, w) d -> b <> a -> w <> VRef lc.

  Let flds := map (fun p => (fst p, abs 23 (heap s) (snd p))) (sorted_fields d).
  Let axs := map abs0 xs.

  Lemma wo_coll : ty_is_collection (a_ty sp) = true.
  Proof. now rewrite Hty. Qed.

  Lemma wo_acur : abs 23 (heap s) (VRef lc) = AList axs.
  Proof. exact (abs_list_scalars (heap s) lc xs 22 Hlc Hxs). Qed.

  Lemma forallb_remove_at (f : val -> bool) n (ys : list val) : forallb f ys = true -> forallb f (remove_at n ys) = true.
  Proof. intro H. unfold remove_at. apply forallb_app_true; [now apply forallb_firstn|now apply forallb_skipn]. Qed.

  (* the model: the whole call, given where the target is *)
  Lemma model_without_item voi bi :
    nonref voi = true ->
    run_helper ct l (HWithoutItem a) (mkh [voi] true true VMissing false bi None [] None) s =
    if is_missing voi then (Ok (VRef l), s) else
    if by_index_rule ct ity (abs0 voi) bi then
      match vint_of voi with
      | Some i => match norm_index (zlen xs) i with
                  | Some n => (Ok (VRef l), upd s lc (OList (remove_at n xs)))
                  | None => (Err IndexErr, s) end
      | None => (Err TypeErr, s)
      end
    else match find_index (fun x => py_eq ct x (abs0 voi)) axs with
         | Some n => (Ok (VRef l), upd s lc (OList (remove_at n xs)))
         | None => (Err ValueErr, s)
         end.
  Proof.
    intro Hv. unfold run_helper. cbn [h_if negb h_inplace h_by_index pos0 h_pos nth].
    rewrite (bind_ok _ _ _ _ _ (fr_spec_for ct l a c d k sp s Hl Hc Ha)). cbn [snd].
    rewrite (bind_ok _ _ _ _ _ (fr_mk_mutator ct l a c d k sp s lc Hl Hc Ha Hfz Hfld)).
    cbn [is_missing]. rewrite bind_ret. rewrite Hty. cbn [family_of].
    assert (Hback : forall s2, nth_error (heap s2) l = Some (OInst c d) ->
              mutate_attr ct (exec ct XFUEL) l a (VRef lc) true false false false s2 = (Ok (VRef l), s2))
      by (intros s2 H2; exact (fr_store_back ct l a c d k lc Hc Hd Hfz Hni Hfld s2 H2)).
    assert (Hdel : forall i n, norm_index (zlen xs) i = Some n ->
              (p <- read_list (VRef lc) ;;
               match norm_index (zlen (snd p)) i with
               | Some n => write (fst p) (OList (remove_at n (snd p)))
               | None => fail IndexErr end) s = (Ok tt, upd s lc (OList (remove_at n xs)))).
    { intros i n E. rewrite (bind_ok _ _ _ _ _ (read_list_at lc xs s Hlc)). cbn [fst snd]. rewrite E.
      apply write_run. apply nth_error_Some. congruence. }
    assert (Hl2 : forall ys, nth_error (heap (upd s lc (OList ys))) l = Some (OInst c d)).
    { intro ys. apply (fr_recv_after l a c d s lc (OList xs) Hl Hfld Hlc Hxs Hshare s (OList ys) eq_refl). }
    rewrite bind_assoc.
    pose proof (seq_extractor_run ct sp ity Hty Hdepth lc xs voi true bi s Hlc Hxs Hv) as E.
    destruct (is_missing voi) eqn:Em.
    - rewrite (bind_ok _ _ _ _ _ E). cbn [fst]. rewrite bind_ret. now apply Hback.
    - destruct (by_index_rule ct ity (abs0 voi) bi).
      + destruct (vint_of voi) as [i|] eqn:Ei; [|now rewrite (bind_err _ _ _ _ _ E)].
        destruct (norm_index (zlen xs) i) as [n|] eqn:En; [|now rewrite (bind_err _ _ _ _ _ E)].
        rewrite (bind_ok _ _ _ _ _ E). cbn [fst].
        assert (Evoi : match voi with VInt z => z | VBool true => 1%Z | _ => 0%Z end = i).
        { destruct voi as [| | | |[|]|z| | |]; cbn [vint_of] in Ei; try discriminate; now inversion Ei. }
        destruct voi as [| | | |b|z| | |]; cbn [vint_of] in Ei; try discriminate;
          rewrite Evoi; rewrite (bind_ok _ _ _ _ _ (Hdel i n En)); now apply Hback.
      + fold axs in E. destruct (find_index (fun x => py_eq ct x (abs0 voi)) axs) as [n|] eqn:Ef;
          [|now rewrite (bind_err _ _ _ _ _ E)].
        rewrite (bind_ok _ _ _ _ _ E). cbn [fst].
        assert (Hn : n < length xs).
        { apply find_index_lt in Ef. unfold axs in Ef. now rewrite map_length in Ef. }
        rewrite (bind_ok _ _ _ _ _ (Hdel (Z.of_nat n) n (norm_index_nat xs n Hn))). now apply Hback.
  Qed.

  Theorem without_item_list_inplace_refines voi bi :
    nonref voi = true ->
    let h := mkh [voi] true true VMissing false bi None [] None in
    let ah := mkah [abs0 voi] true true AMissing false bi None [] None in
    match run_helper ct l (HWithoutItem a) h s with
    | (Ok r, s') => r = VRef l /\
                    spec_helper ct h0 (absv (heap s) (VRef l)) (SWithoutItem a) ah = SOk (absv (heap s') (VRef l))
    | (Err e, s') => spec_helper ct h0 (absv (heap s) (VRef l)) (SWithoutItem a) ah = SErr e /\ heap s' = heap s
    end.
  Proof.
    intros Hv h ah.
    assert (Hspec : spec_without_item ct sp (abs 23 (heap s) (VRef lc)) ah =
              if is_missing voi then SOk (AList axs) else
              if by_index_rule ct ity (abs0 voi) bi then
                match vint_of voi with
                | Some i => match norm_index (zlen xs) i with
                            | Some n => SOk (AList (remove_at n axs)) | None => SErr IndexErr end
                | None => SErr TypeErr
                end
              else match find_index (fun x => py_eq ct x (abs0 voi)) axs with
                   | Some n => SOk (AList (remove_at n axs))
                   | None => SErr ValueErr end).
    { rewrite wo_acur. unfold spec_without_item, ah. rewrite Hty. cbn [apos0 ah_pos nth ah_by_index].
      assert (Em : a_is_missing (abs0 voi) = is_missing voi) by (destruct voi; try reflexivity; discriminate).
      rewrite Em. destruct (is_missing voi); [reflexivity|].
      unfold axs. rewrite (seq_locate_abs ct ity xs voi bi). fold axs.
      destruct (by_index_rule ct ity (abs0 voi) bi).
      - destruct (vint_of voi) as [i|]; [|reflexivity]. destruct (norm_index (zlen xs) i); reflexivity.
      - destruct (find_index _ axs); reflexivity. }
    rewrite (fr_spec_closed ct h0 l a c d k sp s lc (OList xs) Hl Hc Ha Hd Hfz Hni wo_coll Hfld Hlc
               (SWithoutItem a) (spec_without_item ct) ah _ eq_refl eq_refl Hspec). clear Hspec.
    subst h. rewrite (model_without_item voi bi Hv).
    assert (Hafter : forall n, absv (heap (upd s lc (OList (remove_at n xs)))) (VRef l) =
                               AInst c (fset a (AList (remove_at n axs)) flds)).
    { intro n. rewrite (after_edit l a c d s lc xs Hl Hd Hfld Hlc Hflat Hshare (remove_at n xs))
        by (now apply forallb_remove_at). unfold axs. now rewrite map_remove_at. }
    destruct (is_missing voi).
    - split; auto. cbn [sbind]. f_equal.
      rewrite <- (upd_same s lc (OList xs) Hlc) at 1.
      rewrite (after_edit l a c d s lc xs Hl Hd Hfld Hlc Hflat Hshare xs Hxs). reflexivity.
    - destruct (by_index_rule ct ity (abs0 voi) bi).
      + destruct (vint_of voi) as [i|]; [|auto].
        destruct (norm_index (zlen xs) i) as [n|]; [|auto].
        split; auto. cbn [sbind]. now rewrite Hafter.
      + destruct (find_index (fun x => py_eq ct x (abs0 voi)) axs) as [n|]; [|auto].
        split; auto. cbn [sbind]. now rewrite Hafter.
  Qed.
End WithoutItemList.
