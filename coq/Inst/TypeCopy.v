(* C03, ingredient (b): the copy made by deepcopy conforms to every flat
   annotation the original conforms to (container annotations included). *)
From Coq Require Import List ZArith Bool Arith Lia.
From SC Require Import Base.Res Base.PyList Inst.Heap Inst.ClassTable Inst.Model Inst.Framed
  Inst.FrameProofs Inst.TypeProofs.
Import ListNotations.
Open Scope nat_scope.
Set Warnings "-unused-intro-pattern".
#[local] Opaque FUEL.

Section DcFrame.
  Variable ct : ctable.

  (* a deepcopy call writes only cells it allocates itself *)
  Lemma dc_fr fuel : forall v memo b, framed b (dc ct fuel v memo) (fun _ => True).
  Proof.
    induction fuel as [|f IH]; intros v memo b; simpl; [apply framed_fail|].
    destruct v; try (apply framed_ret; exact I).
    destruct (assoc l memo); [apply framed_ret; exact I|].
    fbind; [apply framed_read|]. intros o _. destruct o as [xs|kvs|xs|c d].
    - fbind; [apply framed_alloc|]. intros l' Hl'.
      fbind; [|intros; now fret].
      apply framed_foldM with (P := fun _ => True); auto.
      intros m x _ _. fbind; [apply IH|]. intros r _.
      fbind; [apply framed_read|]. intros o' _. destruct o'; try apply framed_fail.
      fbind; [apply framed_write; exact Hl'|]. intros; now fret.
    - fbind; [apply framed_alloc|]. intros l' Hl'.
      fbind; [|intros; now fret].
      apply framed_foldM with (P := fun _ => True); auto.
      intros m p _ _. fbind; [apply IH|]. intros rk _. fbind; [apply IH|]. intros rv _.
      fbind; [apply framed_read|]. intros o' _. destruct o'; try apply framed_fail.
      fbind; [apply framed_write; exact Hl'|]. intros; now fret.
    - fbind.
      + apply framed_foldM with (P := fun _ => True); auto.
        intros acc x _ _. fbind; [apply IH|]. intros; now fret.
      + intros r _. fbind; [apply framed_alloc|]. intros; now fret.
    - destruct (lookup_cls ct c) as [k|]; [|apply framed_fail].
      destruct (c_dnc k); [now fret|].
      fbind; [apply framed_alloc|]. intros new Hnew.
      fbind.
      + apply framed_foldM with (P := fun _ => True); auto.
        intros m [a x] _ _.
        eapply framed_bind with (Q := fun _ => True).
        * destruct (lookup_attr k a) as [sp|]; [destruct (a_dnc sp); [now fret|]|];
            (destruct (val_is_scalar x); [now fret|apply IH]).
        * intros r _. fbind; [apply framed_read|]. intros o' _. destruct o'; try apply framed_fail.
          fbind; [apply framed_write; exact Hnew|]. intros; now fret.
      + intros memo' _. eapply framed_bind with (Q := fun _ => True).
        * destruct (c_post_copy k); [|now fret].
          fbind; [apply framed_apply_fn|]. intros; now fret.
        * intros; now fret.
  Qed.
End DcFrame.

Section CopyFlat.
  Variable ct : ctable.

  Lemma TS_write_container h l o o0 :
    TS ct h -> nth_error h l = Some o0 -> shape o = shape o0 -> shape o < 3 ->
    TS ct (set_nth l o h) /\ ext h (set_nth l o h).
  Proof.
    intros T N S L. assert (E : ext h (set_nth l o h)) by (eapply ext_set_nth; eauto).
    split; auto. eapply TS_step; eauto. intros l1 o' N1.
    destruct (Nat.eq_dec l l1) as [<-|Ne].
    - right. rewrite nth_error_set_nth_same in N1 by (apply nth_error_Some; congruence).
      inversion N1; subst. destruct o'; simpl in *; auto. lia.
    - left. now rewrite set_nth_other in N1.
  Qed.

  (* what a nested deepcopy call does, at the level of states *)
  Lemma dc_run fuel v memo s :
    memo_same memo (heap s) -> TS ct (heap s) ->
    let r := dc ct fuel v memo s in
    ext (heap s) (heap (snd r)) /\ TS ct (heap (snd r)) /\
    (forall l, l < length (heap s) -> nth_error (heap (snd r)) l = nth_error (heap s) l) /\
    match fst r with
    | Ok a => rsame v (fst a) (heap (snd r)) /\ memo_same (snd a) (heap (snd r))
    | Err _ => True end.
  Proof.
    intros M T. destruct (dc_hoare ct fuel v memo s M T) as [E [T' Q]].
    destruct (dc_fr ct fuel v memo (length (heap s)) s (le_n _)) as [[_ F] _].
    simpl. auto.
  Qed.

  Definition lstep (l' : loc) (f : nat) (m : memo_t) (x : val) : M memo_t :=
    r <- dc ct f x m ;;
    o' <- read l' ;;
    match o' with
    | OList ys => write l' (OList (ys ++ [fst r])) ;;; ret (snd r)
    | _ => fail RuntimeErr end.

  Lemma list_fold l' f : forall xs m s ys0 m' s',
    nth_error (heap s) l' = Some (OList ys0) -> memo_same m (heap s) -> TS ct (heap s) ->
    foldM (lstep l' f) xs m s = (Ok m', s') ->
    exists ys, nth_error (heap s') l' = Some (OList (ys0 ++ ys)) /\
               Forall2 (fun x y => rsame x y (heap s')) xs ys /\
               ext (heap s) (heap s') /\ TS ct (heap s') /\ memo_same m' (heap s').
  Proof.
    induction xs as [|x xs IH]; intros m s ys0 m' s' N M T H; simpl in H.
    - inversion H; subst. exists []. rewrite app_nil_r.
      split; [exact N|]. split; [constructor|]. split; [apply ext_refl|]. split; assumption.
    - unfold bind at 1 in H. unfold lstep at 1 in H. unfold bind at 1 in H.
      pose proof (dc_run f x m s M T) as R. simpl in R.
      destruct (dc ct f x m s) as [[r|e] s1]; [|discriminate].
      simpl in R. destruct R as [E1 [T1 [F1 [R1 M1]]]].
      assert (L : l' < length (heap s)) by (apply nth_error_Some; congruence).
      assert (N1 : nth_error (heap s1) l' = Some (OList ys0)) by (rewrite F1; auto).
      unfold bind at 1 in H. unfold read in H. rewrite N1 in H.
      unfold bind at 1 in H. erewrite write_eq in H by eauto. unfold ret at 1 in H.
      set (s2 := mkst (set_nth l' (OList (ys0 ++ [fst r])) (heap s1)) (ncalls s1) (fail_at s1)) in H.
      destruct (TS_write_container (heap s1) l' (OList (ys0 ++ [fst r])) _ T1 N1 eq_refl) as [T2 E2];
        [simpl; lia|].
      assert (N2 : nth_error (heap s2) l' = Some (OList (ys0 ++ [fst r]))).
      { simpl. apply nth_error_set_nth_same. apply nth_error_Some. congruence. }
      assert (M2 : memo_same (snd r) (heap s2)) by (eapply memo_same_stable; eauto).
      destruct (IH (snd r) s2 (ys0 ++ [fst r]) m' s' N2 M2 T2 H) as [ys [N' [F' [E' [T' M']]]]].
      exists (fst r :: ys). rewrite <- app_assoc in N'. simpl in N'.
      split; [exact N'|]. split; [|split; [|split; assumption]].
      + constructor; auto. eapply rsame_stable; [|exact R1]. eapply ext_trans; eauto.
      + eapply ext_trans; [exact E1|]. eapply ext_trans; eauto.
  Qed.

  Lemma dc_list_root f l xs s r s' :
    nth_error (heap s) l = Some (OList xs) -> TS ct (heap s) ->
    dc ct (S f) (VRef l) [] s = (Ok r, s') ->
    exists l' ys, fst r = VRef l' /\ nth_error (heap s') l' = Some (OList ys) /\
                  Forall2 (fun x y => rsame x y (heap s')) xs ys /\
                  ext (heap s) (heap s') /\ TS ct (heap s').
  Proof.
    intros N T H. simpl in H. unfold bind at 1 in H. unfold read at 1 in H. rewrite N in H.
    unfold bind at 1 in H. unfold alloc at 1 in H.
    set (l' := length (heap s)) in H.
    set (s1 := mkst (heap s ++ [OList []]) (ncalls s) (fail_at s)) in H.
    assert (E1 : ext (heap s) (heap s1)) by apply ext_app.
    assert (N1 : nth_error (heap s1) l' = Some (OList [])).
    { simpl. rewrite nth_error_app2 by (unfold l'; lia). unfold l'. now rewrite Nat.sub_diag. }
    assert (T1 : TS ct (heap s1)).
    { eapply TS_step; [exact T|exact E1|]. intros l0 o' N0. simpl in N0.
      destruct (lt_dec l0 (length (heap s))) as [L|L].
      - left. now rewrite nth_error_app1 in N0.
      - right. rewrite nth_error_app2 in N0 by lia.
        destruct (l0 - length (heap s)) as [|n]; simpl in N0; [|destruct n; discriminate].
        inversion N0; subst. exact I. }
    assert (M1 : memo_same [(l, l')] (heap s1)).
    { intros x y [Exy|[]]. inversion Exy; subst. eapply (lsame_of_shapes 0).
      - destruct (E1 _ _ N) as [o' [No So]]. exists o'. auto.
      - exists (OList []). auto. }
    unfold bind at 1 in H.
    match type of H with context [foldM ?g xs _ s1] => change g with (lstep l' f) in H end.
    match type of H with context [foldM ?g ?xs0 ?m0 ?st] => remember (foldM g xs0 m0 st) as R eqn:F end.
    symmetry in F.
    destruct R as [[m'|e] s2]; cbv beta iota in H; [|discriminate]. unfold ret in H.
    destruct (list_fold l' f xs _ s1 [] m' s2 N1 M1 T1 F) as [ys [N2 [F2 [E2 [T2 _]]]]].
    inversion H; subst r s'. exists l', ys. simpl.
    split; [reflexivity|]. split; [exact N2|]. split; [exact F2|]. split; [|exact T2].
    eapply ext_trans; eauto.
  Qed.

  Lemma rsame_check_f fuel h v r t :
    simple t = true -> rsame v r h ->
    check_type fuel ct h v t = true -> check_type fuel ct h r t = true.
  Proof.
    intros St [->|[l [l' [-> [-> [_ [_ E]]]]]]] C; auto. rewrite <- C. apply check_simple_same; auto.
    simpl. eauto.
  Qed.

  Lemma forallb_Forall2 (f g : val -> bool) xs ys (R : val -> val -> Prop) :
    Forall2 R xs ys -> (forall x y, R x y -> f x = true -> g y = true) ->
    forallb f xs = true -> forallb g ys = true.
  Proof.
    intros F H. induction F; simpl; auto. rewrite !andb_true_iff. intros [A B]. split; eauto.
  Qed.

  Theorem copy_conforms_list s l e r s' :
    TS ct (heap s) -> simple e = true ->
    check_type FUEL ct (heap s) (VRef l) (TList e) = true ->
    deepcopy ct (VRef l) s = (Ok r, s') ->
    check_type FUEL ct (heap s') r (TList e) = true.
  Proof.
    intros T Se C H. destruct FUEL_SS as [f Ef]. unfold deepcopy in H. rewrite Ef in *.
    change (match nth_error (heap s) l with
            | Some (OList xs) => forallb (fun x => check_type (S f) ct (heap s) x e) xs
            | _ => false end = true) in C.
    destruct (nth_error (heap s) l) as [[xs| | |]|] eqn:N; try discriminate.
    unfold bind in H. destruct (dc ct (S (S f)) (VRef l) [] s) as [[r0|e0] s0] eqn:D; [|discriminate].
    unfold ret in H. inversion H; subst r s'.
    destruct (dc_list_root (S f) l xs s r0 s0 N T D) as [l' [ys [-> [N' [F [E _]]]]]].
    change (match nth_error (heap s0) l' with
            | Some (OList xs) => forallb (fun x => check_type (S f) ct (heap s0) x e) xs
            | _ => false end = true).
    rewrite N'. eapply forallb_Forall2; [exact F| |exact C].
    intros x y R Cx. cbv beta in R, Cx |- *. eapply rsame_check_f; [exact Se|exact R|].
    eapply check_simple_ext; eauto.
  Qed.

  Definition dstep (l' : loc) (f : nat) (m : memo_t) (p : val * val) : M memo_t :=
    rk <- dc ct f (fst p) m ;;
    rv <- dc ct f (snd p) (snd rk) ;;
    o' <- read l' ;;
    match o' with
    | ODict ys => write l' (ODict (ys ++ [(fst rk, fst rv)])) ;;; ret (snd rv)
    | _ => fail RuntimeErr end.

  Definition psame (h : heap_t) (p q : val * val) : Prop :=
    rsame (fst p) (fst q) h /\ rsame (snd p) (snd q) h.

  Lemma dict_fold l' f : forall xs m s ys0 m' s',
    nth_error (heap s) l' = Some (ODict ys0) -> memo_same m (heap s) -> TS ct (heap s) ->
    foldM (dstep l' f) xs m s = (Ok m', s') ->
    exists ys, nth_error (heap s') l' = Some (ODict (ys0 ++ ys)) /\
               Forall2 (psame (heap s')) xs ys /\
               ext (heap s) (heap s') /\ TS ct (heap s') /\ memo_same m' (heap s').
  Proof.
    induction xs as [|x xs IH]; intros m s ys0 m' s' N M T H; simpl in H.
    - inversion H; subst. exists []. rewrite app_nil_r.
      split; [exact N|]. split; [constructor|]. split; [apply ext_refl|]. split; assumption.
    - unfold bind at 1 in H. unfold dstep at 1 in H. unfold bind at 1 in H.
      pose proof (dc_run f (fst x) m s M T) as R. simpl in R.
      destruct (dc ct f (fst x) m s) as [[rk|e] s1]; [|discriminate].
      simpl in R. destruct R as [E1 [T1 [F1 [R1 M1]]]].
      unfold bind at 1 in H.
      pose proof (dc_run f (snd x) (snd rk) s1 M1 T1) as R'. simpl in R'.
      destruct (dc ct f (snd x) (snd rk) s1) as [[rv|e] s1']; [|discriminate].
      simpl in R'. destruct R' as [E1' [T1' [F1' [R1' M1']]]].
      assert (L : l' < length (heap s)) by (apply nth_error_Some; congruence).
      assert (L1 : l' < length (heap s1)) by (pose proof (ext_length _ _ E1); lia).
      assert (N1 : nth_error (heap s1') l' = Some (ODict ys0)) by (rewrite F1', F1; auto).
      unfold bind at 1 in H. unfold read in H. rewrite N1 in H.
      unfold bind at 1 in H. erewrite write_eq in H by eauto. unfold ret at 1 in H.
      set (s2 := mkst (set_nth l' (ODict (ys0 ++ [(fst rk, fst rv)])) (heap s1')) (ncalls s1') (fail_at s1')) in H.
      destruct (TS_write_container (heap s1') l' (ODict (ys0 ++ [(fst rk, fst rv)])) _ T1' N1 eq_refl) as [T2 E2];
        [simpl; lia|].
      assert (N2 : nth_error (heap s2) l' = Some (ODict (ys0 ++ [(fst rk, fst rv)]))).
      { simpl. apply nth_error_set_nth_same. apply nth_error_Some. congruence. }
      assert (M2 : memo_same (snd rv) (heap s2)) by (eapply memo_same_stable; eauto).
      destruct (IH (snd rv) s2 (ys0 ++ [(fst rk, fst rv)]) m' s' N2 M2 T2 H) as [ys [N' [F' [E' [T' M']]]]].
      exists ((fst rk, fst rv) :: ys). rewrite <- app_assoc in N'. simpl in N'.
      split; [exact N'|]. split; [|split; [|split; assumption]].
      + constructor; auto. split; simpl.
        * eapply rsame_stable; [|exact R1]. eapply ext_trans; [exact E1'|]. eapply ext_trans; eauto.
        * eapply rsame_stable; [|exact R1']. eapply ext_trans; eauto.
      + eapply ext_trans; [exact E1|]. eapply ext_trans; [exact E1'|]. eapply ext_trans; eauto.
  Qed.

  Lemma dc_dict_root f l xs s r s' :
    nth_error (heap s) l = Some (ODict xs) -> TS ct (heap s) ->
    dc ct (S f) (VRef l) [] s = (Ok r, s') ->
    exists l' ys, fst r = VRef l' /\ nth_error (heap s') l' = Some (ODict ys) /\
                  Forall2 (psame (heap s')) xs ys /\
                  ext (heap s) (heap s') /\ TS ct (heap s').
  Proof.
    intros N T H. simpl in H. unfold bind at 1 in H. unfold read at 1 in H. rewrite N in H.
    unfold bind at 1 in H. unfold alloc at 1 in H.
    set (l' := length (heap s)) in H.
    set (s1 := mkst (heap s ++ [ODict []]) (ncalls s) (fail_at s)) in H.
    assert (E1 : ext (heap s) (heap s1)) by apply ext_app.
    assert (N1 : nth_error (heap s1) l' = Some (ODict [])).
    { simpl. rewrite nth_error_app2 by (unfold l'; lia). unfold l'. now rewrite Nat.sub_diag. }
    assert (T1 : TS ct (heap s1)).
    { eapply TS_step; [exact T|exact E1|]. intros l0 o' N0. simpl in N0.
      destruct (lt_dec l0 (length (heap s))) as [L|L].
      - left. now rewrite nth_error_app1 in N0.
      - right. rewrite nth_error_app2 in N0 by lia.
        destruct (l0 - length (heap s)) as [|n]; simpl in N0; [|destruct n; discriminate].
        inversion N0; subst. exact I. }
    assert (M1 : memo_same [(l, l')] (heap s1)).
    { intros x y [Exy|[]]. inversion Exy; subst. eapply (lsame_of_shapes 1).
      - destruct (E1 _ _ N) as [o' [No So]]. exists o'. auto.
      - exists (ODict []). auto. }
    unfold bind at 1 in H.
    match type of H with context [foldM ?g xs _ s1] => change g with (dstep l' f) in H end.
    match type of H with context [foldM ?g ?xs0 ?m0 ?st] => remember (foldM g xs0 m0 st) as R eqn:F end.
    symmetry in F.
    destruct R as [[m'|e] s2]; cbv beta iota in H; [|discriminate]. unfold ret in H.
    destruct (dict_fold l' f xs _ s1 [] m' s2 N1 M1 T1 F) as [ys [N2 [F2 [E2 [T2 _]]]]].
    inversion H; subst r s'. exists l', ys. simpl.
    split; [reflexivity|]. split; [exact N2|]. split; [exact F2|]. split; [|exact T2].
    eapply ext_trans; eauto.
  Qed.

  Lemma forallb_Forall2p (f g : val * val -> bool) xs ys (R : val * val -> val * val -> Prop) :
    Forall2 R xs ys -> (forall x y, R x y -> f x = true -> g y = true) ->
    forallb f xs = true -> forallb g ys = true.
  Proof.
    intros F H. induction F; simpl; auto. rewrite !andb_true_iff. intros [A B]. split; eauto.
  Qed.

  Theorem copy_conforms_dict s l k e r s' :
    TS ct (heap s) -> simple k = true -> simple e = true ->
    check_type FUEL ct (heap s) (VRef l) (TDict k e) = true ->
    deepcopy ct (VRef l) s = (Ok r, s') ->
    check_type FUEL ct (heap s') r (TDict k e) = true.
  Proof.
    intros T Sk Se C H. destruct FUEL_SS as [f Ef]. unfold deepcopy in H. rewrite Ef in *.
    change (match nth_error (heap s) l with
            | Some (ODict xs) => forallb (fun p => check_type (S f) ct (heap s) (fst p) k
                                                   && check_type (S f) ct (heap s) (snd p) e) xs
            | _ => false end = true) in C.
    destruct (nth_error (heap s) l) as [[|xs| |]|] eqn:N; try discriminate.
    unfold bind in H. destruct (dc ct (S (S f)) (VRef l) [] s) as [[r0|e0] s0] eqn:D; [|discriminate].
    unfold ret in H. inversion H; subst r s'.
    destruct (dc_dict_root (S f) l xs s r0 s0 N T D) as [l' [ys [-> [N' [F [E _]]]]]].
    change (match nth_error (heap s0) l' with
            | Some (ODict xs) => forallb (fun p => check_type (S f) ct (heap s0) (fst p) k
                                                   && check_type (S f) ct (heap s0) (snd p) e) xs
            | _ => false end = true).
    rewrite N'. eapply forallb_Forall2p; [exact F| |exact C].
    intros x y [R1 R2] Cx. cbv beta in Cx |- *. apply andb_true_iff in Cx. destruct Cx as [C1 C2].
    apply andb_true_iff. split.
    - eapply rsame_check_f; [exact Sk|exact R1|]. eapply check_simple_ext; eauto.
    - eapply rsame_check_f; [exact Se|exact R2|]. eapply check_simple_ext; eauto.
  Qed.

  Definition sstep (f : nat) (acc : list val * memo_t) (x : val) : M (list val * memo_t) :=
    r <- dc ct f x (snd acc) ;; ret (fst acc ++ [fst r], snd r).

  Lemma set_fold f : forall xs acc s acc' s',
    memo_same (snd acc) (heap s) -> TS ct (heap s) ->
    foldM (sstep f) xs acc s = (Ok acc', s') ->
    exists ys, fst acc' = fst acc ++ ys /\
               Forall2 (fun x y => rsame x y (heap s')) xs ys /\
               ext (heap s) (heap s') /\ TS ct (heap s') /\ memo_same (snd acc') (heap s').
  Proof.
    induction xs as [|x xs IH]; intros acc s acc' s' M T H; simpl in H.
    - inversion H; subst. exists []. rewrite app_nil_r.
      split; [reflexivity|]. split; [constructor|]. split; [apply ext_refl|]. split; assumption.
    - unfold bind at 1 in H. unfold sstep at 1 in H. unfold bind at 1 in H.
      pose proof (dc_run f x (snd acc) s M T) as R. simpl in R.
      destruct (dc ct f x (snd acc) s) as [[r|e] s1]; [|discriminate].
      simpl in R. destruct R as [E1 [T1 [F1 [R1 M1]]]].
      unfold ret at 1 in H.
      destruct (IH (fst acc ++ [fst r], snd r) s1 acc' s' M1 T1 H) as [ys [A' [F' [E' [T' M']]]]].
      exists (fst r :: ys). simpl in A'. rewrite <- app_assoc in A'. simpl in A'.
      split; [exact A'|]. split; [|split; [|split; assumption]].
      + constructor; auto. eapply rsame_stable; eauto.
      + eapply ext_trans; eauto.
  Qed.

  Theorem copy_conforms_set s l e r s' :
    TS ct (heap s) -> simple e = true ->
    check_type FUEL ct (heap s) (VRef l) (TSet e) = true ->
    deepcopy ct (VRef l) s = (Ok r, s') ->
    check_type FUEL ct (heap s') r (TSet e) = true.
  Proof.
    intros T Se C H. destruct FUEL_SS as [f Ef]. unfold deepcopy in H. rewrite Ef in *.
    change (match nth_error (heap s) l with
            | Some (OSet xs) => forallb (fun x => check_type (S f) ct (heap s) x e) xs
            | _ => false end = true) in C.
    destruct (nth_error (heap s) l) as [[| |xs|]|] eqn:N; try discriminate.
    unfold bind at 1 in H. simpl dc in H. unfold bind at 1 in H. unfold read at 1 in H. rewrite N in H.
    unfold bind at 1 in H.
    match type of H with context [foldM ?g xs _ s] => change g with (sstep (S f)) in H end.
    match type of H with context [foldM ?g ?xs0 ?m0 ?st] => remember (foldM g xs0 m0 st) as R eqn:F end.
    symmetry in F.
    destruct R as [[acc'|e0] s2]; cbv beta iota in H; [|discriminate].
    assert (M0 : memo_same (snd (@nil val, @nil (loc * loc))) (heap s)) by (intros ? ? []).
    destruct (set_fold (S f) xs _ s acc' s2 M0 T F) as [ys [A [F2 [E2 [T2 _]]]]].
    simpl in A. unfold bind at 1 in H. unfold alloc, ret in H. inversion H; subst r s'. simpl heap.
    change (match nth_error (heap s2 ++ [OSet (fst acc')]) (length (heap s2)) with
            | Some (OSet xs) => forallb (fun x => check_type (S f) ct (heap s2 ++ [OSet (fst acc')]) x e) xs
            | _ => false end = true).
    rewrite nth_error_app2 by lia. rewrite Nat.sub_diag. simpl nth_error. rewrite A.
    eapply forallb_Forall2; [exact F2| |exact C].
    intros x y R Cx. cbv beta in R, Cx |- *.
    eapply check_simple_ext; [exact Se|apply ext_app|].
    eapply rsame_check_f; [exact Se|exact R|]. eapply check_simple_ext; eauto.
  Qed.

  (* ingredient (b): the deep copy of a conforming value conforms, for every flat annotation *)
  Theorem copy_conforms_flat s v t r s' :
    TS ct (heap s) -> flat t = true ->
    check_type FUEL ct (heap s) v t = true ->
    deepcopy ct v s = (Ok r, s') ->
    check_type FUEL ct (heap s') r t = true.
  Proof.
    intros T Ft C H. unfold flat in Ft. destruct (simple t) eqn:St.
    - destruct (deepcopy_hoare ct v s I T) as [E [_ R]]. rewrite H in E, R. cbn [fst snd] in E, R.
      eapply rsame_check; eauto. eapply check_simple_ext; eauto.
    - simpl in Ft. destruct v as [| | | | | | | |l].
      1-8: (destruct FUEL_SS as [f Ef]; rewrite Ef in C; destruct t; simpl in Ft, C; discriminate).
      destruct t; simpl in Ft; try discriminate.
      + eapply copy_conforms_list; eauto.
      + apply andb_true_iff in Ft. destruct Ft. eapply copy_conforms_dict; eauto.
      + eapply copy_conforms_set; eauto.
  Qed.
End CopyFlat.
