(* C05 refinement, top-level helpers as wholes (continuation of RefineMore*.v):
   reset(_inplace=True) -- every managed attribute goes back to its prepared
   literal default or disappears, AttributeError of an attribute that holds
   nothing and has no default is swallowed -- against spec_reset. *)
From Coq Require Import List ZArith Bool Arith Lia.
From SC Require Import Base.Res Base.PyList Inst.Heap Inst.ClassTable Inst.Model Inst.Canon
  Inst.Abs Inst.SpecHelpers Inst.ElemProofs Inst.Framed Inst.RefineProofs Inst.CopyProofs Inst.RefineMore
  Inst.RefineMore3 Inst.CopyStore Inst.RefineMore2.
Import ListNotations.
Open Scope nat_scope.

#[local] Opaque FUEL.

Definition reset_top_step (ct : ctable) (rec : call -> M val) (l : loc) (sp : attr_spec) : M unit :=
  catch (rec (KDelAttr l (a_name sp) false false) ;;; ret tt) (fun e => err_eqb e AttrErr) (ret tt).

Lemma reset_top_step_eq ct rec l sp s :
  reset_top_step ct rec l sp s =
  match rec (KDelAttr l (a_name sp) false false) s with
  | (Ok _, s1) => (Ok tt, s1)
  | (Err e, s1) => if err_eqb e AttrErr then (Ok tt, s1) else (Err e, s1)
  end.
Proof.
  unfold reset_top_step, catch, bind. destruct (rec (KDelAttr l (a_name sp) false false) s) as [[v|e] s1]; reflexivity.
Qed.

(* reset(): an attribute with nothing to delete is skipped *)
Definition spec_reset_step (ct : ctable) (h0 : list obj) (rec' : scall -> sres aval) (y : aval) (sp : attr_spec)
  : sres aval :=
  match reset_attr ct h0 rec' y (a_name sp) true with
  | SErr AttrErr => SOk y
  | r => r
  end.

Section ResetTop.
  Variable ct : ctable.
  Variable h0 : list obj.
  Variable rec' : scall -> sres aval.
  Variables (l : loc) (c : cid) (k : cls).
  Hypothesis Hc : lookup_cls ct c = Some k.
  Hypothesis Hfz : c_frozen k = false.
  Hypothesis Hni : no_inval k.

  Lemma guard_after_delete b d s :
    nth_error (heap s) l = Some (OInst c d) -> NoDup (map fst d) ->
    aok (absv (heap s) (VRef l)) = true ->
    let s' := upd s l (OInst c (assoc_del b d)) in
    nth_error (heap s') l = Some (OInst c (assoc_del b d)) /\
    NoDup (map fst (assoc_del b d)) /\
    aok (absv (heap s') (VRef l)) = true /\
    (forall i, i <> l -> nth_error (heap s') i = nth_error (heap s) i) /\
    length (heap s') = length (heap s).
  Proof.
    intros Hl Hd Hok s'.
    assert (Hlen : l < length (heap s)) by (apply nth_error_Some; congruence).
    split; [now apply upd_at|]. split; [now apply nodup_assoc_del|]. split.
    - unfold s'. rewrite (abs_after_delete l b c d s Hl Hd Hok s eq_refl).
      cbn [aok]. pose proof Hok as Hok2. rewrite (absv_recv l c d s Hl) in Hok2. cbn [aok] in Hok2.
      unfold fdel. apply forallb_forall. intros q Hq. apply filter_In in Hq. destruct Hq as [Hq _].
      rewrite forallb_forall in Hok2. now apply Hok2.
    - split.
      + intros i Hi. unfold s'. rewrite heap_upd. apply set_nth_other. intro E. apply Hi. now symmetry.
      + unfold s'. rewrite heap_upd. apply set_nth_length.
  Qed.

  Lemma reset_top_step_refines f0 sp d s :
    nth_error (heap s) l = Some (OInst c d) -> NoDup (map fst d) ->
    aok (absv (heap s) (VRef l)) = true -> fail_at s = None ->
    lookup_attr k (a_name sp) = Some sp -> dep_ok k sp = true ->
    match reset_top_step ct (exec ct (S (S f0))) l sp s with
    | (Ok _, s') =>
        (exists d', nth_error (heap s') l = Some (OInst c d') /\ NoDup (map fst d')) /\
        aok (absv (heap s') (VRef l)) = true /\ fail_at s' = None /\
        spec_reset_step ct h0 rec' (absv (heap s) (VRef l)) sp = SOk (absv (heap s') (VRef l)) /\
        (forall i, i <> l -> nth_error (heap s') i = nth_error (heap s) i) /\
        length (heap s') = length (heap s)
    | (Err e, s') =>
        spec_reset_step ct h0 rec' (absv (heap s) (VRef l)) sp = SErr e /\
        (forall i, i <> l -> nth_error (heap s') i = nth_error (heap s) i) /\
        length (heap s') = length (heap s)
    end.
  Proof.
    intros Hl Hd Hok Hfa Hb Hdep. set (b := a_name sp) in *.
    unfold dep_ok in Hdep. fold b in Hdep.
    apply andb_true_iff in Hdep. destruct Hdep as [Hdep Hdv].
    apply andb_true_iff in Hdep. destruct Hdep as [Hdep Hlit].
    apply andb_true_iff in Hdep. destruct Hdep as [Hdep Hp0].
    apply andb_true_iff in Hdep. destruct Hdep as [Hty Hnc].
    apply Nat.ltb_lt in Hty. apply negb_true_iff in Hnc. apply literal_defaultb_ok in Hlit. fold b in Hlit.
    assert (Hp : match a_prepare sp with Some f => scalar_fn f = true | None => True end)
      by (destruct (a_prepare sp); auto).
    assert (Hpass : forall force, negb (force || initializing d) && c_frozen k = false)
      by (intro; rewrite Hfz; apply andb_false_r).
    unfold spec_reset_step. fold b. rewrite (absv_recv l c d s Hl).
    rewrite reset_top_step_eq. fold b. rewrite exec_S. cbn [body].
    apply orb_true_iff in Hdv. destruct Hdv as [Hdv|Hdv].
    - rewrite (delattr_default_run ct l b c d k sp s Hl Hc Hb f0 s eq_refl (Hpass false) Hlit Hdv).
      rewrite (spec_reset_default ct h0 b c d k sp s Hc Hb Hni Hnc Hp rec' Hlit Hdv).
      pose proof (assign_scalar_closed ct l b c d k sp s Hl Hc Hb Hd Hok Hni Hty Hnc Hp f0 true (class_default k b) s
                    (Hpass true) eq_refl Hfa Hdv) as H.
      pose proof (spec_core_err ct b c d sp s (class_default k b)) as Herr.
      destruct (assign_gen ct l b sp (exec ct (S f0)) true (class_default k b) s) as [[r|e] s'].
      + destruct H as [_ [v' [s2 [Hh2 [Hf2 [Hv' [-> [Hs Habs]]]]]]]].
        destruct (guard_after_store l b c d s Hl Hd Hok s2 v' Hh2 Hv') as [Hl' [Hd' [Hok' [Hoth Hlen']]]].
        split; [eauto|]. split; [exact Hok'|]. split; [exact Hf2|]. split; [now rewrite Hs, Habs|].
        split; [exact Hoth|exact Hlen'].
      + destruct H as [Hs [Hh Hf]]. assert (e = TypeErr) as -> by (now apply Herr).
        cbn [err_eqb]. rewrite Hs. split; [reflexivity|]. split; [intros i _; now rewrite Hh|now rewrite Hh].
    - assert (Hdv' : class_default k b = VMissing) by (destruct (class_default k b); try discriminate; reflexivity).
      rewrite (delattr_nodefault_run ct l b c d k sp s Hl Hc Hb Hni _ s eq_refl (Hpass false) Hlit Hdv').
      rewrite (spec_reset_nodefault ct h0 b c d k sp s Hc Hb Hd Hni rec' Hlit Hdv').
      destruct (assoc b d) as [w|].
      + destruct (guard_after_delete b d s Hl Hd Hok) as [Hl' [Hd' [Hok' [Hoth Hlen']]]].
        split; [eauto|]. split; [exact Hok'|]. split; [exact Hfa|].
        split; [now rewrite (abs_after_delete l b c d s Hl Hd Hok s eq_refl)|]. split; [exact Hoth|exact Hlen'].
      + cbn [err_eqb]. split; [eauto|]. split; [exact Hok|]. split; [exact Hfa|].
        split; [now rewrite (absv_recv l c d s Hl)|]. split; auto.
  Qed.

  Lemma reset_top_loop_refines f0 : forall L d s,
    nth_error (heap s) l = Some (OInst c d) -> NoDup (map fst d) ->
    aok (absv (heap s) (VRef l)) = true -> fail_at s = None ->
    (forall sp, In sp L -> lookup_attr k (a_name sp) = Some sp /\ dep_ok k sp = true) ->
    match iterM (reset_top_step ct (exec ct (S (S f0))) l) L s with
    | (Ok _, s') =>
        sfold (spec_reset_step ct h0 rec') L (absv (heap s) (VRef l)) = SOk (absv (heap s') (VRef l)) /\
        (forall i, i <> l -> nth_error (heap s') i = nth_error (heap s) i) /\
        length (heap s') = length (heap s)
    | (Err e, s') =>
        sfold (spec_reset_step ct h0 rec') L (absv (heap s) (VRef l)) = SErr e /\
        (forall i, i <> l -> nth_error (heap s') i = nth_error (heap s) i) /\
        length (heap s') = length (heap s)
    end.
  Proof.
    induction L as [|sp L IH]; intros d s Hl Hd Hok Hfa HL.
    - cbn [iterM sfold]. unfold ret. auto.
    - cbn [iterM sfold].
      destruct (HL sp (or_introl eq_refl)) as [Hb Hdep].
      pose proof (reset_top_step_refines f0 sp d s Hl Hd Hok Hfa Hb Hdep) as H.
      destruct (reset_top_step ct (exec ct (S (S f0))) l sp s) as [[u|e] s1] eqn:E.
      + rewrite (bind_ok _ _ _ _ _ E).
        destruct H as [[d1 [Hl1 Hd1]] [Hok1 [Hfa1 [Hs [Hoth Hlen]]]]]. rewrite Hs. cbn [sbind].
        pose proof (IH d1 s1 Hl1 Hd1 Hok1 Hfa1 (fun sp0 H0 => HL sp0 (or_intror H0))) as IH'.
        destruct (iterM (reset_top_step ct (exec ct (S (S f0))) l) L s1) as [[u'|e'] s'].
        * destruct IH' as [E1 [E2 E3]]. split; [exact E1|]. split; [|congruence].
          intros i Hi. rewrite E2 by exact Hi. now apply Hoth.
        * destruct IH' as [E1 [E2 E3]]. split; [exact E1|]. split; [|congruence].
          intros i Hi. rewrite E2 by exact Hi. now apply Hoth.
      + rewrite (bind_err _ _ _ _ _ E). destruct H as [Hs [Hoth Hlen]]. rewrite Hs. cbn [sbind]. auto.
  Qed.
End ResetTop.

Section ResetTopHelper.
  Variable ct : ctable.
  Variable h0 : list obj.
  Variables (l : loc) (c : cid) (d : list (aid * val)) (k : cls).
  Variable s : state.
  Hypothesis Hl : nth_error (heap s) l = Some (OInst c d).
  Hypothesis Hc : lookup_cls ct c = Some k.
  Hypothesis Hd : NoDup (map fst d).
  Hypothesis Hok : aok (absv (heap s) (VRef l)) = true.
  Hypothesis Hfz : c_frozen k = false.
  Hypothesis Hni : no_inval k.
  Hypothesis Hfa : fail_at s = None.
  Hypothesis Hnames : NoDup (map a_name (c_attrs k)).
  Hypothesis Hall : forallb (dep_ok k) (c_attrs k) = true.

  (* reset(_inplace=True) *)
  Theorem reset_top_inplace_refines :
    let h := mkh [] true true VMissing false None None [] None in
    let ah := mkah [] true true AMissing false None None [] None in
    match run_helper ct l HResetTop h s with
    | (Ok r, s') => r = VRef l /\
                    spec_helper ct h0 (absv (heap s) (VRef l)) SResetTop ah = SOk (absv (heap s') (VRef l)) /\
                    (forall i, i <> l -> nth_error (heap s') i = nth_error (heap s) i)
    | (Err e, s') => spec_helper ct h0 (absv (heap s) (VRef l)) SResetTop ah = SErr e /\
                     (forall i, i <> l -> nth_error (heap s') i = nth_error (heap s) i)
    end.
  Proof.
    intros h ah.
    assert (Hspec : spec_helper ct h0 (absv (heap s) (VRef l)) SResetTop ah =
                    sfold (spec_reset_step ct h0 (sexec ct h0 SFUEL)) (c_attrs k) (absv (heap s) (VRef l))).
    { rewrite (spec_helper_inplace_unfrozen ct h0 l c d k s Hl Hc Hfz SResetTop ah eq_refl).
      rewrite (absv_recv l c d s Hl). unfold spec_unfrozen, spec_reset, cls_for. rewrite Hc. reflexivity. }
    rewrite Hspec. clear Hspec.
    unfold run_helper, h. cbn [h_if negb h_inplace]. rewrite bind_ret.
    rewrite (bind_ok _ _ _ _ _ (read_inst_at l s c d Hl)). cbn [fst].
    rewrite (bind_ok _ _ _ _ _ (cls_of_at ct c s k Hc)).
    rewrite (bind_thawed_false ct l _ _ s c d k Hl Hc).
    assert (HL : forall sp, In sp (c_attrs k) -> lookup_attr k (a_name sp) = Some sp /\ dep_ok k sp = true).
    { intros sp Hin. split; [unfold lookup_attr; now apply find_nodup_name|].
      rewrite forallb_forall in Hall. now apply Hall. }
    pose proof (reset_top_loop_refines ct h0 (sexec ct h0 SFUEL) l c k Hc Hfz Hni 38 (c_attrs k) d s Hl Hd Hok Hfa HL) as H.
    change (fun sp : attr_spec =>
              catch (exec ct XFUEL (KDelAttr l (a_name sp) false false);;; ret tt)
                    (fun e : err => err_eqb e AttrErr) (ret tt))
      with (reset_top_step ct (exec ct XFUEL) l).
    rewrite XFUEL_S. unfold bind.
    destruct (iterM (reset_top_step ct (exec ct 40) l) (c_attrs k) s) as [[u|e] s'].
    - destruct H as [E1 [E2 _]]. unfold ret. auto.
    - destruct H as [E1 [E2 _]]. auto.
  Qed.
End ResetTopHelper.

(* reset() without _inplace on a flat receiver of an unfrozen class: deep copy, then the
   in-place reset of the copy *)
Section ResetTopCopy.
  Variable ct : ctable.
  Variable h0 : list obj.
  Variables (l : loc) (c : cid) (d : list (aid * val)) (k : cls).
  Variable s : state.
  Hypothesis Hl : nth_error (heap s) l = Some (OInst c d).
  Hypothesis Hc : lookup_cls ct c = Some k.
  Hypothesis Hd : NoDup (map fst d).
  Hypothesis Hflat : flat_fields (heap s) d.
  Hypothesis Hdnc : c_dnc k = false.
  Hypothesis Hfz : c_frozen k = false.
  Hypothesis Hni : no_inval k.
  Hypothesis Hfa : fail_at s = None.
  Hypothesis Hpc : c_post_copy k = None.
  Hypothesis Hnames : NoDup (map a_name (c_attrs k)).
  Hypothesis Hall : forallb (dep_ok k) (c_attrs k) = true.

  Theorem reset_top_copy_unfrozen :
    let h := mkh [] false true VMissing false None None [] None in
    let ah := mkah [] false true AMissing false None None [] None in
    match run_helper ct l HResetTop h s with
    | (Ok r, s') => exists l', r = VRef l' /\ length (heap s) <= l' /\
                    spec_helper ct h0 (absv (heap s) (VRef l)) SResetTop ah = SOk (absv (heap s') (VRef l')) /\
                    (forall i, i < length (heap s) -> nth_error (heap s') i = nth_error (heap s) i)
    | (Err e, s') => spec_helper ct h0 (absv (heap s) (VRef l)) SResetTop ah = SErr e /\
                     (forall i, i < length (heap s) -> nth_error (heap s') i = nth_error (heap s) i)
    end.
  Proof.
    intros h ah.
    destruct (copy_twin ct l c d k s Hl Hc Hd Hflat Hdnc Hfa Hpc)
      as [l' [d' [s2 [Hdc [Hfresh [Hcell [Hd' [Habs [Hok' [Hfa2 Hsame]]]]]]]]]].
    assert (Hrun : run_helper ct l HResetTop h s =
                   run_helper ct l' HResetTop (mkh [] true true VMissing false None None [] None) s2).
    { unfold run_helper, h. cbn [h_if negb h_inplace]. rewrite bind_assoc.
      rewrite (bind_ok _ _ _ _ _ Hdc). cbn [loc_of]. rewrite !bind_ret.
      rewrite !(bind_ok _ _ _ _ _ (read_inst_at l' s2 c d' Hcell)). cbn [fst].
      rewrite !(bind_ok _ _ _ _ _ (cls_of_at ct c s2 k Hc)).
      unfold bind. rewrite !(thawed_unfrozen ct l' _ _ s2 c d' k Hcell Hc Hfz). reflexivity. }
    rewrite Hrun.
    rewrite (spec_copy_is_inplace ct h0 l c d k s Hl Hc Hfz SResetTop ah (mkah [] true true AMissing false None None [] None)
               (absv (heap s2) (VRef l')) Habs eq_refl eq_refl eq_refl I (fun x => eq_refl)).
    pose proof (reset_top_inplace_refines ct h0 l' c d' k s2 Hcell Hc Hd' Hok' Hfz Hni Hfa2 Hnames Hall) as H.
    cbv zeta in H.
    destruct (run_helper ct l' HResetTop (mkh [] true true VMissing false None None [] None) s2) as [[r|e] s'].
    - destruct H as [-> [Hs Hoth]]. exists l'. split; [reflexivity|]. split; [exact Hfresh|]. split; [exact Hs|].
      intros i Hi. rewrite Hoth by lia. now apply Hsame.
    - destruct H as [Hs Hoth]. split; [exact Hs|]. intros i Hi. rewrite Hoth by lia. now apply Hsame.
  Qed.
End ResetTopCopy.

(* ------------------------------------------------------------------ *)
(** * transform(_inplace=True, a=f, b=g, ...) as a whole *)

Definition transform_all (ct : ctable) (rec : call -> M val) (l : loc) (kwfn : list (aid * fn)) : M unit :=
  iterM (fun p => cur <- getattr_default ct l (fst p) ;;
                  t <- apply_fn (snd p) cur ;;
                  if is_missing t then ret tt
                  else rec (KSetAttr l (fst p) t false false) ;;; ret tt) kwfn.

(* a per-attribute transform the theorem covers, in the state whose dict is d *)
Definition kwfn_ok (k : cls) (d : list (aid * val)) (p : aid * fn) : bool :=
  match lookup_attr k (fst p) with
  | Some sp => (ty_depth (a_ty sp) <? FUEL) && negb (ty_is_collection (a_ty sp)) &&
               match a_prepare sp with Some f => scalar_fn f | None => true end &&
               scalar_fn (snd p) && vscalar (cur_val (fst p) d k)
  | None => false
  end.

Definition spec_kwfn_step (ct : ctable) (h0 : list obj) (x : aval) (p : aid * fn) : sres aval :=
  cur <~ read_attr ct h0 x (fst p) ;;
  t <~ afn (snd p) cur ;;
  if a_is_missing t then SOk x else sexec ct h0 SFUEL (SSetAttr x (fst p) t).

Lemma transform_all_cons ct rec l a0 f0 t s :
  transform_all ct rec l ((a0, f0) :: t) s =
  (cur <- getattr_default ct l a0 ;; v <- apply_fn f0 cur ;;
   (if is_missing v then ret tt else rec (KSetAttr l a0 v false false) ;;; ret tt) ;;;
   transform_all ct rec l t) s.
Proof.
  unfold transform_all. cbn [iterM fst snd]. rewrite !bind_assoc.
  unfold bind. destruct (getattr_default ct l a0 s) as [[cur|e] s1]; [|reflexivity].
  destruct (apply_fn f0 cur s1) as [[v|e] s2]; reflexivity.
Qed.

Lemma cur_val_assoc_set a0 v' a1 d k :
  cur_val a1 (assoc_set a0 v' d) k = if a0 =? a1 then v' else cur_val a1 d k.
Proof. unfold cur_val. rewrite assoc_assoc_set. destruct (a0 =? a1); reflexivity. Qed.

Lemma kwfn_ok_assoc_set k d a0 v' p : vscalar v' = true -> kwfn_ok k d p = true -> kwfn_ok k (assoc_set a0 v' d) p = true.
Proof.
  intros Hv H. unfold kwfn_ok in *. destruct (lookup_attr k (fst p)); [|discriminate].
  apply andb_true_iff in H. destruct H as [H Hc]. rewrite H. cbn [andb].
  rewrite cur_val_assoc_set. destruct (a0 =? fst p); auto.
Qed.

Section TransformTop.
  Variable ct : ctable.
  Variable h0 : list obj.
  Variables (l : loc) (c : cid) (k : cls).
  Hypothesis Hc : lookup_cls ct c = Some k.
  Hypothesis Hfz : c_frozen k = false.
  Hypothesis Hni : no_inval k.

  Lemma getattr_default_run a sp d s :
    nth_error (heap s) l = Some (OInst c d) -> lookup_attr k a = Some sp ->
    getattr_default ct l a s = (Ok (cur_val a d k), s).
  Proof.
    intros Hl Ha. unfold getattr_default, cur_val.
    rewrite (bind_ok _ _ _ _ _ (read_inst_at l s c d Hl)). cbn [fst snd].
    destruct (assoc a d); [reflexivity|]. now rewrite (bind_ok _ _ _ _ _ (cls_of_at ct c s k Hc)).
  Qed.

  Lemma spec_kwfn_step_cur a0 g0 sp d s :
    nth_error (heap s) l = Some (OInst c d) -> NoDup (map fst d) -> lookup_attr k a0 = Some sp ->
    vscalar (cur_val a0 d k) = true ->
    spec_kwfn_step ct h0 (absv (heap s) (VRef l)) (a0, g0) =
    (t <~ afn g0 (abs0 (cur_val a0 d k)) ;;
     if a_is_missing t then SOk (absv (heap s) (VRef l))
     else sexec ct h0 SFUEL (SSetAttr (absv (heap s) (VRef l)) a0 t)).
  Proof.
    intros Hl Hd Ha0 Hcur. unfold spec_kwfn_step. cbn [fst snd].
    rewrite (absv_recv l c d s Hl).
    now rewrite (read_attr_cur ct h0 a0 c d k sp s Hc Ha0 Hd (vscalar_nonref _ Hcur)).
  Qed.

  Lemma transform_all_refines f0 : forall kwfn d s,
    nth_error (heap s) l = Some (OInst c d) -> NoDup (map fst d) ->
    aok (absv (heap s) (VRef l)) = true -> fail_at s = None ->
    forallb (kwfn_ok k d) kwfn = true ->
    match transform_all ct (exec ct (S (S f0))) l kwfn s with
    | (Ok _, s') =>
        sfold (spec_kwfn_step ct h0) kwfn (absv (heap s) (VRef l)) = SOk (absv (heap s') (VRef l)) /\
        (forall i, i <> l -> nth_error (heap s') i = nth_error (heap s) i) /\
        length (heap s') = length (heap s)
    | (Err e, s') =>
        sfold (spec_kwfn_step ct h0) kwfn (absv (heap s) (VRef l)) = SErr e /\
        (forall i, i <> l -> nth_error (heap s') i = nth_error (heap s) i) /\
        length (heap s') = length (heap s)
    end.
  Proof.
    induction kwfn as [|[a0 g0] kwfn IH]; intros d s Hl Hd Hok Hfa Hkws.
    - unfold transform_all. cbn [iterM sfold]. unfold ret. auto.
    - cbn [forallb] in Hkws. apply andb_true_iff in Hkws. destruct Hkws as [Hk0 Hkws].
      unfold kwfn_ok in Hk0. cbn [fst snd] in Hk0.
      destruct (lookup_attr k a0) as [sp|] eqn:Ha0; [|discriminate].
      apply andb_true_iff in Hk0. destruct Hk0 as [Hk0 Hcur].
      apply andb_true_iff in Hk0. destruct Hk0 as [Hk0 Hg0].
      apply andb_true_iff in Hk0. destruct Hk0 as [Hk0 Hp0].
      apply andb_true_iff in Hk0. destruct Hk0 as [Hty Hnc].
      apply Nat.ltb_lt in Hty. apply negb_true_iff in Hnc.
      assert (Hp : match a_prepare sp with Some f => scalar_fn f = true | None => True end)
        by (destruct (a_prepare sp); auto).
      rewrite transform_all_cons. cbn [sfold].
      rewrite (bind_ok _ _ _ _ _ (getattr_default_run a0 sp d s Hl Ha0)).
      (* the specification reads the same current value *)
      rewrite (spec_kwfn_step_cur a0 g0 sp d s Hl Hd Ha0 Hcur).
      pose proof (apply_fn_scalar g0 (cur_val a0 d k) s Hfa Hg0 Hcur) as Hap.
      destruct (afn g0 (abs0 (cur_val a0 d k))) as [nv|e| |]; try contradiction.
      + destruct Hap as [v' [Hrun [-> Hv']]]. rewrite (bind_ok _ _ _ _ _ Hrun). cbn [sbind].
        rewrite (not_amissing_scalar v' Hv').
        assert (is_missing v' = false) as -> by (destruct v'; cbn [vscalar] in Hv'; try discriminate; reflexivity).
        cbv beta iota. rewrite bind_assoc. unfold bind at 1.
        rewrite exec_S_set.
        rewrite (setattr_unfold ct _ l a0 c d k sp v' false (ticked s) Hl Hc Ha0).
        assert (Hstep : sexec ct h0 SFUEL (SSetAttr (absv (heap s) (VRef l)) a0 (abs0 v'))
                        = spec_core ct a0 c d sp s v').
        { pose proof (spec_kw_step_scalar ct h0 l c k Hc Hni a0 sp d s v' Hl Ha0 Hnc Hp Hv') as E.
          unfold spec_kw_step in E. cbn [fst snd in_names existsb orb] in E.
          rewrite (not_amissing_scalar v' Hv') in E. exact E. }
        rewrite Hstep. clear Hstep.
        assert (Hpass : negb (false || initializing d) && c_frozen k = false) by (rewrite Hfz; apply andb_false_r).
        pose proof (assign_scalar_closed ct l a0 c d k sp s Hl Hc Ha0 Hd Hok Hni Hty Hnc Hp f0 false v' (ticked s)
                      Hpass (heap_ticked s) Hfa Hv') as H.
        destruct (assign_gen ct l a0 sp (exec ct (S f0)) false v' (ticked s)) as [[r|e] s1].
        * destruct H as [_ [w [s2 [Hh2 [Hf2 [Hw [-> [Hs Habs]]]]]]]].
          rewrite Hs. cbn [sbind]. rewrite <- Habs. rewrite bind_ret.
          destruct (guard_after_store l a0 c d s Hl Hd Hok s2 w Hh2 Hw) as [Hl' [Hd' [Hok' [Hoth Hlen]]]].
          assert (Hkws' : forallb (kwfn_ok k (assoc_set a0 w d)) kwfn = true).
          { apply forallb_forall. intros p Hp'. apply kwfn_ok_assoc_set; auto.
            rewrite forallb_forall in Hkws. now apply Hkws. }
          pose proof (IH _ _ Hl' Hd' Hok' (eq_trans (fail_at_upd s2 l _) Hf2) Hkws') as IH'.
          destruct (transform_all ct (exec ct (S (S f0))) l kwfn (upd s2 l (OInst c (assoc_set a0 w d)))) as [[u|e] s'].
          -- destruct IH' as [E1 [E2 E3]]. split; [exact E1|]. split; [|congruence].
             intros i Hi. rewrite E2 by exact Hi. now apply Hoth.
          -- destruct IH' as [E1 [E2 E3]]. split; [exact E1|]. split; [|congruence].
             intros i Hi. rewrite E2 by exact Hi. now apply Hoth.
        * destruct H as [Hs [Hh _]]. rewrite Hs. cbn [sbind]. split; [reflexivity|]. split; [|now rewrite Hh].
          intros i _. now rewrite Hh.
      + rewrite (bind_err _ _ _ _ _ Hap). cbn [sbind]. split; [reflexivity|]. split; auto.
  Qed.
End TransformTop.


Lemma abs_eq_scalar n h w v : vscalar v = true -> abs (S n) h w = abs0 v -> w = v.
Proof.
  intros Hv H. destruct w as [| | | | | | | |lx].
  1-8: (destruct v; cbn [vscalar] in Hv; try discriminate; cbn [abs abs0] in H; congruence).
  cbn [abs] in H. destruct (nth_error h lx) as [[xs|kvs|xs|c0 d0]|];
    destruct v; cbn [vscalar] in Hv; try discriminate; cbn [abs0] in H; discriminate.
Qed.

(* the deep copy of a flat receiver: the twin reads the same scalar current values *)
Lemma copy_twin_dict ct l c d k s :
  nth_error (heap s) l = Some (OInst c d) -> lookup_cls ct c = Some k -> NoDup (map fst d) ->
  flat_fields (heap s) d -> c_dnc k = false -> fail_at s = None -> c_post_copy k = None ->
  exists l' d' s2,
    deepcopy ct (VRef l) s = (Ok (VRef l'), s2) /\ length (heap s) <= l' /\
    nth_error (heap s2) l' = Some (OInst c d') /\ NoDup (map fst d') /\
    absv (heap s2) (VRef l') = absv (heap s) (VRef l) /\ aok (absv (heap s2) (VRef l')) = true /\
    fail_at s2 = None /\
    (forall i, i < length (heap s) -> nth_error (heap s2) i = nth_error (heap s) i) /\
    (forall a0, vscalar (cur_val a0 d k) = true -> cur_val a0 d' k = cur_val a0 d k).
Proof.
  intros Hl Hc Hd Hflat Hdnc Hfa Hpc.
  destruct (copy_twin ct l c d k s Hl Hc Hd Hflat Hdnc Hfa Hpc)
    as [l' [d' [s2 [Hdc [Hfresh [Hcell [Hd' [Habs [Hok' [Hfa2 Hsame]]]]]]]]]].
  exists l', d', s2. repeat (split; [assumption|]).
  intros a0 Hcur.
  pose proof Habs as E. rewrite (absv_recv l' c d' s2 Hcell), (absv_recv l c d s Hl) in E.
  apply (f_equal (fun x => match x with AInst _ fl => fl | _ => [] end)) in E. cbv beta iota in E.
  assert (Ea : option_map (abs 23 (heap s2)) (assoc a0 d') = option_map (abs 23 (heap s)) (assoc a0 d)).
  { rewrite <- (assoc_flds d' s2 Hd' a0), <- (assoc_flds d s Hd a0). now rewrite E. }
  unfold cur_val in *. destruct (assoc a0 d) as [v|]; destruct (assoc a0 d') as [w|]; cbn [option_map] in Ea;
    try discriminate; auto.
  apply (f_equal (fun o => match o with Some x => x | None => ABad end)) in Ea. cbv beta iota in Ea.
  rewrite (abs_nonref_eq 23 (heap s) v (vscalar_nonref _ Hcur)) in Ea.
  now apply (abs_eq_scalar 22 (heap s2) w v Hcur).
Qed.

Section TransformBody.
  Variable ct : ctable.
  Local Opaque iterM thawed deepcopy.

  Lemma transform_body_shape rec l p0 ps s inp :
    mutate_value ct rec (mkmv (VRef l) VMissing false PNone None None None None (p0 :: ps) inp) s =
    (value5 <- (if inp then ret (VRef l) else protect ct (VRef l));;
     thawed_val ct value5 (negb inp)
       (iterM (fun p : aid * fn =>
                 l0 <- loc_of value5;; cur <- getattr_default ct l0 (fst p);; t <- apply_fn (snd p) cur;;
                 (if is_missing t then ret tt else rec (KSetAttr l0 (fst p) t false false);;; ret tt))
              (p0 :: ps));;; ret value5) s.
  Proof.
    unfold mutate_value. cbn [mv_new]. unfold mutate_value_body.
    cbn [mv_new mv_old mv_replace mv_prepare mv_attrs mv_ctor mv_expected mv_transform mv_attr_transforms
         mv_inplace is_missing negb andb orb].
    cbn [bind ret get_heap thawed_val loc_of existsb].
    rewrite ?bind_ret. reflexivity.
  Qed.

  Lemma transform_loop_at rec l' kwfn :
    iterM (fun p : aid * fn =>
             l0 <- loc_of (VRef l');; cur <- getattr_default ct l0 (fst p);; t <- apply_fn (snd p) cur;;
             (if is_missing t then ret tt else rec (KSetAttr l0 (fst p) t false false);;; ret tt)) kwfn
    = transform_all ct rec l' kwfn.
  Proof. unfold transform_all. apply iterM_ext. intros [a0 g0]. reflexivity. Qed.

  Lemma transform_body_inplace rec l p0 ps s c d k :
    nth_error (heap s) l = Some (OInst c d) -> lookup_cls ct c = Some k ->
    mutate_value ct rec (mkmv (VRef l) VMissing false PNone None None None None (p0 :: ps) true) s =
    bind (transform_all ct rec l (p0 :: ps)) (fun _ => ret (VRef l)) s.
  Proof.
    intros Hl Hc. rewrite transform_body_shape. rewrite bind_ret. cbn [thawed_val negb].
    rewrite transform_loop_at. now rewrite (bind_thawed_false ct l _ _ s c d k Hl Hc).
  Qed.

  Lemma transform_body_copy_ok rec l p0 ps s l' s2 :
    deepcopy ct (VRef l) s = (Ok (VRef l'), s2) ->
    mutate_value ct rec (mkmv (VRef l) VMissing false PNone None None None None (p0 :: ps) false) s =
    bind (thawed ct l' true (transform_all ct rec l' (p0 :: ps))) (fun _ => ret (VRef l')) s2.
  Proof.
    intro Hdc. rewrite transform_body_shape. unfold protect. cbn [val_is_scalar negb].
    rewrite (bind_ok _ _ _ _ _ Hdc). cbn [thawed_val]. now rewrite transform_loop_at.
  Qed.
End TransformBody.

Section TransformTopHelper.
  Variable ct : ctable.
  Variable h0 : list obj.
  Variables (l : loc) (c : cid) (d : list (aid * val)) (k : cls).
  Variable s : state.
  Hypothesis Hl : nth_error (heap s) l = Some (OInst c d).
  Hypothesis Hc : lookup_cls ct c = Some k.
  Hypothesis Hd : NoDup (map fst d).
  Hypothesis Hfz : c_frozen k = false.
  Hypothesis Hni : no_inval k.
  Hypothesis Hfa : fail_at s = None.

  Lemma spec_transform_top_kwfn x p ps :
    spec_transform_top ct h0 x None (p :: ps) = sfold (spec_kwfn_step ct h0) (p :: ps) x.
  Proof. reflexivity. Qed.

  (* transform(_inplace=True, a=f, ...) *)
  Theorem transform_top_inplace_refines p0 ps :
    aok (absv (heap s) (VRef l)) = true ->
    forallb (kwfn_ok k d) (p0 :: ps) = true ->
    let h := mkh [] true true VMissing false None None (p0 :: ps) None in
    let ah := mkah [] true true AMissing false None None (p0 :: ps) None in
    match run_helper ct l HTransformTop h s with
    | (Ok r, s') => r = VRef l /\
                    spec_helper ct h0 (absv (heap s) (VRef l)) STransformTop ah = SOk (absv (heap s') (VRef l)) /\
                    (forall i, i <> l -> nth_error (heap s') i = nth_error (heap s) i)
    | (Err e, s') => spec_helper ct h0 (absv (heap s) (VRef l)) STransformTop ah = SErr e /\
                     (forall i, i <> l -> nth_error (heap s') i = nth_error (heap s) i)
    end.
  Proof.
    intros Hok Hkws h ah.
    assert (Hspec : spec_helper ct h0 (absv (heap s) (VRef l)) STransformTop ah =
                    sfold (spec_kwfn_step ct h0) (p0 :: ps) (absv (heap s) (VRef l))).
    { rewrite (spec_helper_inplace_unfrozen ct h0 l c d k s Hl Hc Hfz STransformTop ah eq_refl).
      rewrite (absv_recv l c d s Hl). unfold spec_unfrozen, ah. cbn [ah_fn ah_kwfn].
      apply spec_transform_top_kwfn. }
    rewrite Hspec. clear Hspec.
    unfold run_helper, h. cbn [h_if negb h_inplace h_fn h_kwfn]. rewrite exec_XFUEL_mv.
    rewrite (transform_body_inplace ct _ l p0 ps s c d k Hl Hc).
    pose proof (transform_all_refines ct h0 l c k Hc Hfz Hni 37 (p0 :: ps) d s Hl Hd Hok Hfa Hkws) as H.
    unfold bind. destruct (transform_all ct (exec ct 39) l (p0 :: ps) s) as [[u|e] s'].
    - destruct H as [E1 [E2 _]]. unfold ret. auto.
    - destruct H as [E1 [E2 _]]. auto.
  Qed.

  (* transform(a=f, ...) without _inplace, flat receiver *)
  Theorem transform_top_copy_unfrozen p0 ps :
    flat_fields (heap s) d -> c_dnc k = false -> c_post_copy k = None ->
    forallb (kwfn_ok k d) (p0 :: ps) = true ->
    let h := mkh [] false true VMissing false None None (p0 :: ps) None in
    let ah := mkah [] false true AMissing false None None (p0 :: ps) None in
    match run_helper ct l HTransformTop h s with
    | (Ok r, s') => exists l', r = VRef l' /\ length (heap s) <= l' /\
                    spec_helper ct h0 (absv (heap s) (VRef l)) STransformTop ah = SOk (absv (heap s') (VRef l')) /\
                    (forall i, i < length (heap s) -> nth_error (heap s') i = nth_error (heap s) i)
    | (Err e, s') => spec_helper ct h0 (absv (heap s) (VRef l)) STransformTop ah = SErr e /\
                     (forall i, i < length (heap s) -> nth_error (heap s') i = nth_error (heap s) i)
    end.
  Proof.
    intros Hflat Hdnc Hpc Hkws h ah.
    assert (Hspec : spec_helper ct h0 (absv (heap s) (VRef l)) STransformTop ah =
                    sfold (spec_kwfn_step ct h0) (p0 :: ps) (absv (heap s) (VRef l))).
    { rewrite (spec_helper_copy ct h0 l c d s Hl STransformTop ah eq_refl eq_refl I).
      rewrite (absv_recv l c d s Hl). unfold spec_unfrozen, ah. cbn [ah_fn ah_kwfn].
      apply spec_transform_top_kwfn. }
    rewrite Hspec. clear Hspec.
    destruct (copy_twin_dict ct l c d k s Hl Hc Hd Hflat Hdnc Hfa Hpc)
      as [l' [d' [s2 [Hdc [Hfresh [Hcell [Hd' [Habs [Hok' [Hfa2 [Hsame Hcur]]]]]]]]]]].
    unfold run_helper, h. cbn [h_if negb h_inplace h_fn h_kwfn]. rewrite exec_XFUEL_mv.
    rewrite (transform_body_copy_ok ct _ l p0 ps s l' s2 Hdc).
    unfold bind. rewrite (thawed_unfrozen ct l' _ _ s2 c d' k Hcell Hc Hfz).
    assert (Hkws' : forallb (kwfn_ok k d') (p0 :: ps) = true).
    { apply forallb_forall. intros p Hp. rewrite forallb_forall in Hkws. specialize (Hkws p Hp).
      unfold kwfn_ok in *. destruct (lookup_attr k (fst p)); [|discriminate].
      apply andb_true_iff in Hkws. destruct Hkws as [H1 H2]. rewrite H1. cbn [andb].
      now rewrite (Hcur (fst p) H2). }
    pose proof (transform_all_refines ct h0 l' c k Hc Hfz Hni 37 (p0 :: ps) d' s2 Hcell Hd' Hok' Hfa2 Hkws') as H.
    rewrite Habs in H.
    destruct (transform_all ct (exec ct 39) l' (p0 :: ps) s2) as [[u|e] s'].
    - destruct H as [E1 [E2 _]]. unfold ret. exists l'. split; [reflexivity|]. split; [exact Hfresh|]. split; [exact E1|].
      intros i Hi. rewrite E2 by lia. now apply Hsame.
    - destruct H as [E1 [E2 _]]. split; [exact E1|]. intros i Hi. rewrite E2 by lia. now apply Hsame.
  Qed.
End TransformTopHelper.

(* ------------------------------------------------------------------ *)
(** * del obj.a is reset_<a>(_inplace=True) *)

Section DelAttrOp.
  Variable ct : ctable.
  Variable h0 : list obj.
  Variables (l : loc) (a : aid) (c : cid) (d : list (aid * val)) (k : cls) (sp : attr_spec).
  Variable s : state.
  Hypothesis Hl : nth_error (heap s) l = Some (OInst c d).
  Hypothesis Hc : lookup_cls ct c = Some k.
  Hypothesis Ha : lookup_attr k a = Some sp.
  Hypothesis Hd : NoDup (map fst d).
  Hypothesis Hok : aok (absv (heap s) (VRef l)) = true.
  Hypothesis Hfz : c_frozen k = false.
  Hypothesis Hni : no_inval k.
  Hypothesis Hfa : fail_at s = None.
  Hypothesis Hty : ty_depth (a_ty sp) < FUEL.
  Hypothesis Hnc : ty_is_collection (a_ty sp) = false.
  Hypothesis Hp : match a_prepare sp with Some f => scalar_fn f = true | None => True end.

  Notation hin := (mkh [] true true VMissing false None None [] None).
  Notation ahin := (mkah [] true true AMissing false None None [] None).

  (* the same computation, up to the value handed back (None / the receiver) *)
  Lemma delattr_op_is_reset roots x :
    nth x roots VNone = VRef l ->
    step ct roots (OpDelAttr x a) s =
    match run_helper ct l (HReset a) hin s with
    | (Ok _, s') => (Ok VNone, s')
    | (Err e, s') => (Err e, s')
    end.
  Proof.
    intro Hx. unfold step, run_helper. rewrite Hx. cbn [loc_of h_if negb h_inplace]. rewrite !bind_ret.
    rewrite (bind_thawed_false ct l _ _ s c d k Hl Hc). unfold bind.
    destruct (exec ct XFUEL (KDelAttr l a false false) s) as [[v|e] s']; reflexivity.
  Qed.

  Theorem delattr_op_refines roots x :
    nth x roots VNone = VRef l ->
    literal_default a k sp -> vscalar (class_default k a) = true \/ class_default k a = VMissing ->
    match step ct roots (OpDelAttr x a) s with
    | (Ok r, s') => spec_helper ct h0 (absv (heap s) (VRef l)) (SDelAttrOp a) ahin = SOk (absv (heap s') (VRef l)) /\
                    (forall i, i <> l -> nth_error (heap s') i = nth_error (heap s) i)
    | (Err e, s') => spec_helper ct h0 (absv (heap s) (VRef l)) (SDelAttrOp a) ahin = SErr e /\ heap s' = heap s
    end.
  Proof.
    intros Hx Hlit Hdv. rewrite (delattr_op_is_reset roots x Hx).
    assert (Hsame : spec_helper ct h0 (absv (heap s) (VRef l)) (SDelAttrOp a) ahin =
                    spec_helper ct h0 (absv (heap s) (VRef l)) (SReset a) ahin).
    { rewrite !(spec_helper_inplace_unfrozen ct h0 l c d k s Hl Hc Hfz _ ahin eq_refl). reflexivity. }
    rewrite Hsame.
    pose proof (reset_scalar_inplace_refines ct h0 l a c d k sp s Hl Hc Ha Hd Hok Hfz Hni Hfa Hty Hnc Hp Hlit Hdv) as H.
    cbv zeta in H.
    destruct (run_helper ct l (HReset a) hin s) as [[r|e] s']; [destruct H as [_ H]|]; exact H.
  Qed.
End DelAttrOp.
