(* C05 refinement, top-level helpers as wholes (continuation of RefineMore*.v):
   reset(_inplace=True) -- every managed attribute goes back to its prepared
   literal default or disappears, AttributeError of an attribute that holds
   nothing and has no default is swallowed -- against spec_reset. *)
From Coq Require Import List ZArith Bool Arith Lia.
From SC Require Import Base.Res Base.PyList Inst.Heap Inst.ClassTable Inst.Model Inst.Canon
  Inst.Abs Inst.SpecHelpers Inst.ElemProofs Inst.Framed Inst.RefineProofs Inst.CopyProofs Inst.RefineMore
  Inst.RefineMore3 Inst.CopyStore Inst.RefineMore2.
Import ListNotations.
Open Scope nat_scope.

#[local] Opaque FUEL.

Definition reset_top_step (ct : ctable) (rec : call -> M val) (l : loc) (sp : attr_spec) : M unit :=
  catch (rec (KDelAttr l (a_name sp) false false) ;;; ret tt) (fun e => err_eqb e AttrErr) (ret tt).

Lemma reset_top_step_eq ct rec l sp s :
  reset_top_step ct rec l sp s =
  match rec (KDelAttr l (a_name sp) false false) s with
  | (Ok _, s1) => (Ok tt, s1)
  | (Err e, s1) => if err_eqb e AttrErr then (Ok tt, s1) else (Err e, s1)
  end.
Proof.
  unfold reset_top_step, catch, bind. destruct (rec (KDelAttr l (a_name sp) false false) s) as [[v|e] s1]; reflexivity.
Qed.

(* reset(): an attribute with nothing to delete is skipped *)
Definition spec_reset_step (ct : ctable) (h0 : list obj) (rec' : scall -> sres aval) (y : aval) (sp : attr_spec)
  : sres aval :=
  match reset_attr ct h0 rec' y (a_name sp) true with
  | SErr AttrErr => SOk y
  | r => r
  end.

Section ResetTop.
  Variable ct : ctable.
  Variable h0 : list obj.
  Variable rec' : scall -> sres aval.
  Variables (l : loc) (c : cid) (k : cls).
  Hypothesis Hc : lookup_cls ct c = Some k.
  Hypothesis Hfz : c_frozen k = false.
  Hypothesis Hni : no_inval k.

  Lemma guard_after_delete b d s :
    nth_error (heap s) l = Some (OInst c d) -> NoDup (map fst d) ->
    aok (absv (heap s) (VRef l)) = true ->
    let s' := upd s l (OInst c (assoc_del b d)) in
    nth_error (heap s') l = Some (OInst c (assoc_del b d)) /\
    NoDup (map fst (assoc_del b d)) /\
    aok (absv (heap s') (VRef l)) = true /\
    (forall i, i <> l -> nth_error (heap s') i = nth_error (heap s) i) /\
    length (heap s') = length (heap s).
  Proof.
    intros Hl Hd Hok s'.
    assert (Hlen : l < length (heap s)) by (apply nth_error_Some; congruence).
    split; [now apply upd_at|]. split; [now apply nodup_assoc_del|]. split.
    - unfold s'. rewrite (abs_after_delete l b c d s Hl Hd Hok s eq_refl).
      cbn [aok]. pose proof Hok as Hok2. rewrite (absv_recv l c d s Hl) in Hok2. cbn [aok] in Hok2.
      unfold fdel. apply forallb_forall. intros q Hq. apply filter_In in Hq. destruct Hq as [Hq _].
      rewrite forallb_forall in Hok2. now apply Hok2.
    - split.
      + intros i Hi. unfold s'. rewrite heap_upd. apply set_nth_other. intro E. apply Hi. now symmetry.
      + unfold s'. rewrite heap_upd. apply set_nth_length.
  Qed.

  Lemma reset_top_step_refines f0 sp d s :
    nth_error (heap s) l = Some (OInst c d) -> NoDup (map fst d) ->
    aok (absv (heap s) (VRef l)) = true -> fail_at s = None ->
    lookup_attr k (a_name sp) = Some sp -> dep_ok k sp = true ->
    match reset_top_step ct (exec ct (S (S f0))) l sp s with
    | (Ok _, s') =>
        (exists d', nth_error (heap s') l = Some (OInst c d') /\ NoDup (map fst d')) /\
        aok (absv (heap s') (VRef l)) = true /\ fail_at s' = None /\
        spec_reset_step ct h0 rec' (absv (heap s) (VRef l)) sp = SOk (absv (heap s') (VRef l)) /\
        (forall i, i <> l -> nth_error (heap s') i = nth_error (heap s) i) /\
        length (heap s') = length (heap s)
    | (Err e, s') =>
        spec_reset_step ct h0 rec' (absv (heap s) (VRef l)) sp = SErr e /\
        (forall i, i <> l -> nth_error (heap s') i = nth_error (heap s) i) /\
        length (heap s') = length (heap s)
    end.
  Proof.
    intros Hl Hd Hok Hfa Hb Hdep. set (b := a_name sp) in *.
    unfold dep_ok in Hdep. fold b in Hdep.
    apply andb_true_iff in Hdep. destruct Hdep as [Hdep Hdv].
    apply andb_true_iff in Hdep. destruct Hdep as [Hdep Hlit].
    apply andb_true_iff in Hdep. destruct Hdep as [Hdep Hp0].
    apply andb_true_iff in Hdep. destruct Hdep as [Hty Hnc].
    apply Nat.ltb_lt in Hty. apply negb_true_iff in Hnc. apply literal_defaultb_ok in Hlit. fold b in Hlit.
    assert (Hp : match a_prepare sp with Some f => scalar_fn f = true | None => True end)
      by (destruct (a_prepare sp); auto).
    assert (Hpass : forall force, negb (force || initializing d) && c_frozen k = false)
      by (intro; rewrite Hfz; apply andb_false_r).
    unfold spec_reset_step. fold b. rewrite (absv_recv l c d s Hl).
    rewrite reset_top_step_eq. fold b. rewrite exec_S. cbn [body].
    apply orb_true_iff in Hdv. destruct Hdv as [Hdv|Hdv].
    - rewrite (delattr_default_run ct l b c d k sp s Hl Hc Hb f0 s eq_refl (Hpass false) Hlit Hdv).
      rewrite (spec_reset_default ct h0 b c d k sp s Hc Hb Hni Hnc Hp rec' Hlit Hdv).
      pose proof (assign_scalar_closed ct l b c d k sp s Hl Hc Hb Hd Hok Hni Hty Hnc Hp f0 true (class_default k b) s
                    (Hpass true) eq_refl Hfa Hdv) as H.
      pose proof (spec_core_err ct b c d sp s (class_default k b)) as Herr.
      destruct (assign_gen ct l b sp (exec ct (S f0)) true (class_default k b) s) as [[r|e] s'].
      + destruct H as [_ [v' [s2 [Hh2 [Hf2 [Hv' [-> [Hs Habs]]]]]]]].
        destruct (guard_after_store l b c d s Hl Hd Hok s2 v' Hh2 Hv') as [Hl' [Hd' [Hok' [Hoth Hlen']]]].
        split; [eauto|]. split; [exact Hok'|]. split; [exact Hf2|]. split; [now rewrite Hs, Habs|].
        split; [exact Hoth|exact Hlen'].
      + destruct H as [Hs [Hh Hf]]. assert (e = TypeErr) as -> by (now apply Herr).
        cbn [err_eqb]. rewrite Hs. split; [reflexivity|]. split; [intros i _; now rewrite Hh|now rewrite Hh].
    - assert (Hdv' : class_default k b = VMissing) by (destruct (class_default k b); try discriminate; reflexivity).
      rewrite (delattr_nodefault_run ct l b c d k sp s Hl Hc Hb Hni _ s eq_refl (Hpass false) Hlit Hdv').
      rewrite (spec_reset_nodefault ct h0 b c d k sp s Hc Hb Hd Hni rec' Hlit Hdv').
      destruct (assoc b d) as [w|].
      + destruct (guard_after_delete b d s Hl Hd Hok) as [Hl' [Hd' [Hok' [Hoth Hlen']]]].
        split; [eauto|]. split; [exact Hok'|]. split; [exact Hfa|].
        split; [now rewrite (abs_after_delete l b c d s Hl Hd Hok s eq_refl)|]. split; [exact Hoth|exact Hlen'].
      + cbn [err_eqb]. split; [eauto|]. split; [exact Hok|]. split; [exact Hfa|].
        split; [now rewrite (absv_recv l c d s Hl)|]. split; auto.
  Qed.

  Lemma reset_top_loop_refines f0 : forall L d s,
    nth_error (heap s) l = Some (OInst c d) -> NoDup (map fst d) ->
    aok (absv (heap s) (VRef l)) = true -> fail_at s = None ->
    (forall sp, In sp L -> lookup_attr k (a_name sp) = Some sp /\ dep_ok k sp = true) ->
    match iterM (reset_top_step ct (exec ct (S (S f0))) l) L s with
    | (Ok _, s') =>
        sfold (spec_reset_step ct h0 rec') L (absv (heap s) (VRef l)) = SOk (absv (heap s') (VRef l)) /\
        (forall i, i <> l -> nth_error (heap s') i = nth_error (heap s) i) /\
        length (heap s') = length (heap s)
    | (Err e, s') =>
        sfold (spec_reset_step ct h0 rec') L (absv (heap s) (VRef l)) = SErr e /\
        (forall i, i <> l -> nth_error (heap s') i = nth_error (heap s) i) /\
        length (heap s') = length (heap s)
    end.
  Proof.
    induction L as [|sp L IH]; intros d s Hl Hd Hok Hfa HL.
    - cbn [iterM sfold]. unfold ret. auto.
    - cbn [iterM sfold].
      destruct (HL sp (or_introl eq_refl)) as [Hb Hdep].
      pose proof (reset_top_step_refines f0 sp d s Hl Hd Hok Hfa Hb Hdep) as H.
      destruct (reset_top_step ct (exec ct (S (S f0))) l sp s) as [[u|e] s1] eqn:E.
      + rewrite (bind_ok _ _ _ _ _ E).
        destruct H as [[d1 [Hl1 Hd1]] [Hok1 [Hfa1 [Hs [Hoth Hlen]]]]]. rewrite Hs. cbn [sbind].
        pose proof (IH d1 s1 Hl1 Hd1 Hok1 Hfa1 (fun sp0 H0 => HL sp0 (or_intror H0))) as IH'.
        destruct (iterM (reset_top_step ct (exec ct (S (S f0))) l) L s1) as [[u'|e'] s'].
        * destruct IH' as [E1 [E2 E3]]. split; [exact E1|]. split; [|congruence].
          intros i Hi. rewrite E2 by exact Hi. now apply Hoth.
        * destruct IH' as [E1 [E2 E3]]. split; [exact E1|]. split; [|congruence].
          intros i Hi. rewrite E2 by exact Hi. now apply Hoth.
      + rewrite (bind_err _ _ _ _ _ E). destruct H as [Hs [Hoth Hlen]]. rewrite Hs. cbn [sbind]. auto.
  Qed.
End ResetTop.

Section ResetTopHelper.
  Variable ct : ctable.
  Variable h0 : list obj.
  Variables (l : loc) (c : cid) (d : list (aid * val)) (k : cls).
  Variable s : state.
  Hypothesis Hl : nth_error (heap s) l = Some (OInst c d).
  Hypothesis Hc : lookup_cls ct c = Some k.
  Hypothesis Hd : NoDup (map fst d).
  Hypothesis Hok : aok (absv (heap s) (VRef l)) = true.
  Hypothesis Hfz : c_frozen k = false.
  Hypothesis Hni : no_inval k.
  Hypothesis Hfa : fail_at s = None.
  Hypothesis Hnames : NoDup (map a_name (c_attrs k)).
  Hypothesis Hall : forallb (dep_ok k) (c_attrs k) = true.

  (* reset(_inplace=True) *)
  Theorem reset_top_inplace_refines :
    let h := mkh [] true true VMissing false None None [] None in
    let ah := mkah [] true true AMissing false None None [] None in
    match run_helper ct l HResetTop h s with
    | (Ok r, s') => r = VRef l /\
                    spec_helper ct h0 (absv (heap s) (VRef l)) SResetTop ah = SOk (absv (heap s') (VRef l)) /\
                    (forall i, i <> l -> nth_error (heap s') i = nth_error (heap s) i)
    | (Err e, s') => spec_helper ct h0 (absv (heap s) (VRef l)) SResetTop ah = SErr e /\
                     (forall i, i <> l -> nth_error (heap s') i = nth_error (heap s) i)
    end.
  Proof.
    intros h ah.
    assert (Hspec : spec_helper ct h0 (absv (heap s) (VRef l)) SResetTop ah =
                    sfold (spec_reset_step ct h0 (sexec ct h0 SFUEL)) (c_attrs k) (absv (heap s) (VRef l))).
    { rewrite (spec_helper_inplace_unfrozen ct h0 l c d k s Hl Hc Hfz SResetTop ah eq_refl).
      rewrite (absv_recv l c d s Hl). unfold spec_unfrozen, spec_reset, cls_for. rewrite Hc. reflexivity. }
    rewrite Hspec. clear Hspec.
    unfold run_helper, h. cbn [h_if negb h_inplace]. rewrite bind_ret.
    rewrite (bind_ok _ _ _ _ _ (read_inst_at l s c d Hl)). cbn [fst].
    rewrite (bind_ok _ _ _ _ _ (cls_of_at ct c s k Hc)).
    rewrite (bind_thawed_false ct l _ _ s c d k Hl Hc).
    assert (HL : forall sp, In sp (c_attrs k) -> lookup_attr k (a_name sp) = Some sp /\ dep_ok k sp = true).
    { intros sp Hin. split; [unfold lookup_attr; now apply find_nodup_name|].
      rewrite forallb_forall in Hall. now apply Hall. }
    pose proof (reset_top_loop_refines ct h0 (sexec ct h0 SFUEL) l c k Hc Hfz Hni 38 (c_attrs k) d s Hl Hd Hok Hfa HL) as H.
    change (fun sp : attr_spec =>
              catch (exec ct XFUEL (KDelAttr l (a_name sp) false false);;; ret tt)
                    (fun e : err => err_eqb e AttrErr) (ret tt))
      with (reset_top_step ct (exec ct XFUEL) l).
    rewrite XFUEL_S. unfold bind.
    destruct (iterM (reset_top_step ct (exec ct 40) l) (c_attrs k) s) as [[u|e] s'].
    - destruct H as [E1 [E2 _]]. unfold ret. auto.
    - destruct H as [E1 [E2 _]]. auto.
  Qed.
End ResetTopHelper.

(* reset() without _inplace on a flat receiver of an unfrozen class: deep copy, then the
   in-place reset of the copy *)
Section ResetTopCopy.
  Variable ct : ctable.
  Variable h0 : list obj.
  Variables (l : loc) (c : cid) (d : list (aid * val)) (k : cls).
  Variable s : state.
  Hypothesis Hl : nth_error (heap s) l = Some (OInst c d).
  Hypothesis Hc : lookup_cls ct c = Some k.
  Hypothesis Hd : NoDup (map fst d).
  Hypothesis Hflat : flat_fields (heap s) d.
  Hypothesis Hdnc : c_dnc k = false.
  Hypothesis Hfz : c_frozen k = false.
  Hypothesis Hni : no_inval k.
  Hypothesis Hfa : fail_at s = None.
  Hypothesis Hpc : c_post_copy k = None.
  Hypothesis Hnames : NoDup (map a_name (c_attrs k)).
  Hypothesis Hall : forallb (dep_ok k) (c_attrs k) = true.

  Theorem reset_top_copy_unfrozen :
    let h := mkh [] false true VMissing false None None [] None in
    let ah := mkah [] false true AMissing false None None [] None in
    match run_helper ct l HResetTop h s with
    | (Ok r, s') => exists l', r = VRef l' /\ length (heap s) <= l' /\
                    spec_helper ct h0 (absv (heap s) (VRef l)) SResetTop ah = SOk (absv (heap s') (VRef l')) /\
                    (forall i, i < length (heap s) -> nth_error (heap s') i = nth_error (heap s) i)
    | (Err e, s') => spec_helper ct h0 (absv (heap s) (VRef l)) SResetTop ah = SErr e /\
                     (forall i, i < length (heap s) -> nth_error (heap s') i = nth_error (heap s) i)
    end.
  Proof.
    intros h ah.
    destruct (copy_twin ct l c d k s Hl Hc Hd Hflat Hdnc Hfa Hpc)
      as [l' [d' [s2 [Hdc [Hfresh [Hcell [Hd' [Habs [Hok' [Hfa2 Hsame]]]]]]]]]].
    assert (Hrun : run_helper ct l HResetTop h s =
                   run_helper ct l' HResetTop (mkh [] true true VMissing false None None [] None) s2).
    { unfold run_helper, h. cbn [h_if negb h_inplace]. rewrite bind_assoc.
      rewrite (bind_ok _ _ _ _ _ Hdc). cbn [loc_of]. rewrite !bind_ret.
      rewrite !(bind_ok _ _ _ _ _ (read_inst_at l' s2 c d' Hcell)). cbn [fst].
      rewrite !(bind_ok _ _ _ _ _ (cls_of_at ct c s2 k Hc)).
      unfold bind. rewrite !(thawed_unfrozen ct l' _ _ s2 c d' k Hcell Hc Hfz). reflexivity. }
    rewrite Hrun.
    rewrite (spec_copy_is_inplace ct h0 l c d k s Hl Hc Hfz SResetTop ah (mkah [] true true AMissing false None None [] None)
               (absv (heap s2) (VRef l')) Habs eq_refl eq_refl eq_refl I (fun x => eq_refl)).
    pose proof (reset_top_inplace_refines ct h0 l' c d' k s2 Hcell Hc Hd' Hok' Hfz Hni Hfa2 Hnames Hall) as H.
    cbv zeta in H.
    destruct (run_helper ct l' HResetTop (mkh [] true true VMissing false None None [] None) s2) as [[r|e] s'].
    - destruct H as [-> [Hs Hoth]]. exists l'. split; [reflexivity|]. split; [exact Hfresh|]. split; [exact Hs|].
      intros i Hi. rewrite Hoth by lia. now apply Hsame.
    - destruct H as [Hs Hoth]. split; [exact Hs|]. intros i Hi. rewrite Hoth by lia. now apply Hsame.
  Qed.
End ResetTopCopy.
