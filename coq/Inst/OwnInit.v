(* C03, ownership, part 7: del / reset_<a> in place and the constructor of a
   flat class.  Generalises mutate_attr(inplace=True) to the `force` / `skip`
   flags and to a frame that survives instance-dict writes. *)
From Coq Require Import List ZArith Bool Arith Lia.
From SC Require Import Base.Res Base.PyList Inst.Heap Inst.ClassTable Inst.Model Inst.Framed
  Inst.TypeProofs Inst.OwnProofs Inst.OwnProofs2 Inst.OwnProofs3 Inst.OwnColl Inst.OwnCopy Inst.OwnCow.
Import ListNotations.
Open Scope nat_scope.
Set Warnings "-unused-intro-pattern".
#[local] Opaque FUEL.

(* l is an instance of class cl *)
Definition is_inst (l : loc) (cl : cid) (h : heap_t) : Prop := exists d, nth_error h l = Some (OInst cl d).

Lemma xstable_is_inst l cl : xstable (is_inst l cl).
Proof.
  split; [split|].
  - intros h o _ _ [d N]. exists d. rewrite nth_error_app1; auto. apply nth_error_Some. congruence.
  - intros h c o0 o N S Sc _ [d N1]. exists d. destruct (Nat.eq_dec c l) as [->|Ne].
    + rewrite N in N1. inversion N1; subst. simpl in Sc. lia.
    + now rewrite set_nth_other.
  - intros h l0 cl0 d0 d' N [d N1]. destruct (Nat.eq_dec l0 l) as [->|Ne].
    + rewrite N in N1. inversion N1; subst. exists d'. apply nth_error_set_nth_same.
      apply nth_error_Some. congruence.
    + exists d. now rewrite set_nth_other.
Qed.

(* a flat value: a non-reference, or a reference to a container without references *)
Definition flat_val (h : heap_t) (v : val) : Prop :=
  match v with VRef lx => cont_at h lx | _ => True end.

Lemma xstable_flat_val v : xstable (fun h => flat_val h v).
Proof.
  destruct v; try apply xstable_true. unfold flat_val, cont_at. split; [split|].
  - intros h o _ _ (o1 & N & R). exists o1. split; auto. rewrite nth_error_app1; auto.
    apply nth_error_Some. congruence.
  - intros h c o0 o N S Sc Le (o1 & N1 & Nr & So). destruct (Nat.eq_dec c l) as [->|Ne].
    + rewrite N in N1. inversion N1; subst o1. exists o.
      split; [apply nth_error_set_nth_same; apply nth_error_Some; congruence|].
      split; [|lia]. intros c' Hi. apply cnt_In in Hi. specialize (Le c').
      rewrite (norefs_orefs o0 c' Nr) in Le. unfold orefs in Le. lia.
    + exists o1. rewrite set_nth_other; auto.
  - intros h l0 cl d d' N (o1 & N1 & Nr & So). exists o1. split; auto.
    rewrite set_nth_other; auto. intros ->. rewrite N in N1. inversion N1; subst. simpl in So. lia.
Qed.

Section Gen.
  Variable ct : ctable.
  Hypothesis Hflat : flat_table ct.
  Variable fuel0 : nat.
  Notation rec := (exec ct fuel0).
  Notation Inv := (Inv ct).

  Lemma raw_setattr_frame l a v F :
    istable F ->
    T (fun h => (Inv h /\ F h) /\ storable l a v h /\ conforms_at ct l a v h) (raw_setattr l a v)
      (fun _ h => Inv h /\ F h) (fun h => Inv h /\ F h).
  Proof.
    intro SF. unfold raw_setattr.
    eapply T_bind; [apply T_read_inst; tauto|]. intros [cl d]. cbn [fst snd].
    apply T_write. intros h [[[I Fh] [St Cf]] N].
    split; [apply nth_error_Some; congruence|].
    split; [|eapply SF; eauto].
    destruct St as [L|(cl' & d' & N' & As)].
    - apply Inv_store; auto. intros k sp Hk Ha. eapply Cf; eauto.
    - rewrite N in N'. inversion N'; subst cl' d'.
      rewrite (Inv_restore ct h l cl d a v I N As). exact I.
  Qed.

  (* mutate_attr(..., inplace=True) with any force / skip flags, keeping a frame *)
  Theorem mutate_attr_inplace_gen l a v tc force skip F :
    xstable F -> (skip = false -> inval_spec ct) ->
    T (fun h => (Inv h /\ F h) /\ storable l a v h /\ (tc = false -> conforms_at ct l a v h))
      (mutate_attr ct rec l a v true tc force skip) (fun _ h => Inv h /\ F h) (fun h => Inv h /\ F h).
  Proof.
    intros [SFc SF] Hiv. unfold mutate_attr. destruct (is_sentinel v); [apply T_ret; tauto|].
    set (P := fun h => (Inv h /\ F h) /\ storable l a v h /\ (tc = false -> conforms_at ct l a v h)).
    assert (PE : forall h, P h -> Inv h /\ F h) by (unfold P; tauto).
    eapply T_bind; [apply T_read_inst; exact PE|]. intros [cl d]. cbn [fst snd].
    eapply T_bind; [apply T_cls_of|]. { intros h [H _]. auto. }
    intros k.
    eapply T_bind; [apply T_guard|]. { intros h [[H _] _]. auto. }
    intros ?.
    eapply T_bind with (Q := fun _ h => (Inv h /\ F h) /\ storable l a v h /\ conforms_at ct l a v h).
    { eapply T_pre with (P := fun h => (P h /\ nth_error h l = Some (OInst cl d)) /\ lookup_cls ct cl = Some k);
        [auto|].
      apply T_pull. intro Hk.
      destruct (lookup_attr k a) as [sp|] eqn:Ha.
      - destruct tc.
        + eapply T_bind; [apply T_check|]. intros ok. destruct ok; [|apply T_fail; intros h [[H _] _]; auto].
          apply T_ret. intros h [[[I [St _]] N] C]. split; auto. split; auto.
          intros cl' d' k' sp' N' Hk' Ha'. rewrite N in N'. inversion N'; subst cl' d'.
          rewrite Hk in Hk'. inversion Hk'; subst k'. rewrite Ha in Ha'. inversion Ha'; subst sp'. auto.
        + apply T_ret. intros h [[I [St Cf]] N]. auto.
      - apply T_ret. intros h [[I [St _]] N]. split; auto. split; auto.
        intros cl' d' k' sp' N' Hk' Ha'. rewrite N in N'. inversion N'; subst cl' d'.
        rewrite Hk in Hk'. inversion Hk'; subst k'. rewrite Ha in Ha'. discriminate. }
    intros ?. cbv zeta. cbn [orb negb andb].
    eapply T_bind with (Q := fun l' h => ((Inv h /\ F h) /\ storable l a v h /\ conforms_at ct l a v h) /\ l' = l).
    { apply T_ret. auto. }
    intros l'. apply T_pull. intros ->.
    eapply T_bind with (Q := fun v' h => ((Inv h /\ F h) /\ storable l a v h /\ conforms_at ct l a v h) /\ v' = v).
    { apply T_ret. auto. }
    intros v'. apply T_pull. intros ->.
    eapply T_bind with (Q := fun _ h => Inv h /\ F h); [|intros ?; apply T_ret; auto].
    apply T_thawed_false; [tauto|].
    eapply T_bind; [apply raw_setattr_frame; auto|]. intros ?.
    destruct skip; [apply T_ret; auto|apply (Hiv eq_refl fuel0 l a F (conj SFc SF))].
  Qed.
End Gen.

Section SetAttrGen.
  Variable ct : ctable.
  Hypothesis Hflat : flat_table ct.
  Hypothesis Hninv : inval_spec ct.
  Notation Inv := (Inv ct).

  (* setattr with flags and a frame, on an instance of class cl whose attribute a is a leaf;
     the frame survives failures too *)
  Lemma setattr_gen fuel l cl k a v force skip F :
    xstable F -> lookup_cls ct cl = Some k ->
    (forall sp, lookup_attr k a = Some sp -> leaf_attr sp) ->
    T (fun h => (Inv h /\ F h) /\ is_inst l cl h /\ loose h v)
      (setattr_ ct (exec ct fuel) l a v force skip) (fun _ h => (Inv h /\ F h) /\ is_inst l cl h)
      (fun h => (Inv h /\ F h) /\ is_inst l cl h).
  Proof.
    intros [SFc SFi] Hk Hla. unfold setattr_.
    eapply T_bind; [apply T_read_inst; tauto|]. intros [cl0 d0]. cbn [fst snd].
    eapply T_bind; [apply T_cls_of; tauto|]. intros k0.
    intros s [[[[I Fh] [[d N] L]] N0] Hk0].
    rewrite N in N0. inversion N0; subst cl0 d0. rewrite Hk in Hk0. inversion Hk0; subst k0.
    set (G := fun h => F h /\ is_inst l cl h).
    assert (SG : xstable G) by (apply xstable_and; [split; auto|apply xstable_is_inst]).
    assert (GE : forall h, IF ct G h -> (Inv h /\ F h) /\ is_inst l cl h).
    { intros h [I1 [F1 N1]]. auto. }
    assert (Store : forall value, T (fun h => IF ct G h /\ loose h value)
                            (mutate_attr ct (exec ct fuel) l a value true true force skip)
                            (fun _ h => (Inv h /\ F h) /\ is_inst l cl h)
                            (fun h => (Inv h /\ F h) /\ is_inst l cl h)).
    { intros value. eapply T_conseq;
        [apply (mutate_attr_inplace_gen ct Hflat fuel l a value true force skip G SG (fun _ => Hninv))| | |exact GE].
      - intros h [[I1 G1] L1]. split; [split; auto|]. split; [left; exact L1|discriminate].
      - intros r h H. apply GE. exact H. }
    destruct (lookup_attr k a) as [sp|] eqn:Ha.
    - refine ((_ : T (fun h => IF ct G h /\ loose h v) _ (fun _ h => (Inv h /\ F h) /\ is_inst l cl h)
                     (fun h => (Inv h /\ F h) /\ is_inst l cl h)) s _);
        [|split; [split; [exact I|split; [exact Fh|exists d; exact N]]|exact L]].
      eapply T_bind with (Q := fun value h => IF ct G h /\ loose h value).
      + eapply T_conseq;
          [apply (prepare_attr_value_any ct Hflat fuel sp l v G (Hla sp eq_refl) (proj1 SG))
          | auto | auto | exact GE].
      + intros value. apply Store.
    - rewrite bind_ret_l. apply (Store v s). split; [split; [exact I|split; [exact Fh|exists d; exact N]]|exact L].
  Qed.

  Lemma exec_setattr_gen fuel l cl k a v force skip F :
    xstable F -> lookup_cls ct cl = Some k ->
    (forall sp, lookup_attr k a = Some sp -> leaf_attr sp) ->
    T (fun h => (Inv h /\ F h) /\ is_inst l cl h /\ loose h v)
      (exec ct fuel (KSetAttr l a v force skip)) (fun _ h => (Inv h /\ F h) /\ is_inst l cl h)
      (fun h => (Inv h /\ F h) /\ is_inst l cl h).
  Proof.
    intros SF Hk Hla. destruct fuel as [|f]; [apply T_fail; tauto|]. rewrite exec_S. now apply (setattr_gen f l cl k).
  Qed.
End SetAttrGen.

(* ------------------------------------------------------------------ *)
(** * Defaults, del, reset_<a> *)
Definition fac_flat (f : fac) : Prop :=
  match f with
  | FacList xs | FacSet xs => forall x, In x xs -> nonref x
  | FacDict kvs => forall p, In p kvs -> nonref (fst p) /\ nonref (snd p)
  | FacInst _ => False
  end.

(* the default of sp in class k is a non-reference (possibly overridden by a plain subclass)
   or is built by a factory of scalars *)
Definition default_ok (k : cls) (sp : attr_spec) : Prop :=
  match assoc (a_name sp) (c_overrides k) with
  | Some v => nonref v
  | None => nonref (a_default sp) /\ match a_factory sp with Some f => fac_flat f | None => True end
  end.

Lemma nonref_loose h v : nonref v -> loose h v.
Proof. intro H. destruct v; simpl; auto. exfalso. eapply H; reflexivity. Qed.

Lemma T_catch {A} (P : heap_t -> Prop) (m k : M A) hd (Q : A -> heap_t -> Prop) (E' E : heap_t -> Prop) :
  T P m Q E' -> T E' k Q E -> (forall h, E' h -> E h) -> T P (catch m hd k) Q E.
Proof.
  intros Hm Hk HE s Ps. unfold catch. specialize (Hm s Ps).
  destruct (m s) as [[a|e] s1]; auto. destruct (hd e); auto. apply Hk; auto.
Qed.

Section Defaults.
  Variable ct : ctable.
  Hypothesis Hflat : flat_table ct.
  Hypothesis Hninv : inval_spec ct.
  Notation Inv := (Inv ct).

  Lemma protect_nonref v s : nonref v -> protect ct v s = (Ok v, s).
  Proof.
    intro H. unfold protect. destruct (val_is_scalar v); [reflexivity|].
    unfold deepcopy. destruct FUEL_SS as [f Ef]. rewrite Ef. rewrite (dc_nonref ct (S f) v [] H). reflexivity.
  Qed.

  Lemma lookup_default_quiet rec sp k F :
    default_ok k sp -> astable F ->
    T (IF ct F) (lookup_default_value ct rec sp k) (fun d h => IF ct F h /\ loose h d) (IF ct F).
  Proof.
    intros Hdo SF. unfold lookup_default_value. unfold default_ok in Hdo.
    destruct (assoc (a_name sp) (c_overrides k)) as [ov|].
    { intros s Hs. rewrite (protect_nonref _ s Hdo). split; auto. now apply nonref_loose. }
    destruct Hdo as [Hd Hf]. unfold default_value.
    destruct (a_factory sp) as [f|].
    - unfold run_factory. eapply T_bind; [apply T_hpure; [apply hpure_tick|auto]|]. intros ?.
      assert (Al : forall o, shape o < 3 -> norefs o ->
                T (IF ct F) (l <- alloc o ;; ret (VRef l)) (fun v h => IF ct F h /\ loose h v) (IF ct F)).
      { intros o S Nr. eapply T_bind; [|intros l; apply T_ret; intros h H; exact H].
        eapply T_pre; [|apply T_alloc]. intros h H. cbv beta. apply IF_alloc; auto. }
      destruct f; simpl in Hf; try contradiction; apply Al; try (simpl; lia).
      + intros c Hi. exact (Hf _ Hi c eq_refl).
      + intros c Hi. simpl in Hi. apply in_app_or in Hi.
        destruct Hi as [Hi|Hi]; apply in_map_iff in Hi; destruct Hi as [p [E Hp]];
          destruct (Hf p Hp) as [H1 H2]; [exact (H1 c E)|exact (H2 c E)].
      + intros c Hi. exact (Hf _ Hi c eq_refl).
    - intros s Hs. rewrite (protect_nonref _ s Hd). split; auto. now apply nonref_loose.
  Qed.

  (* del obj.a / the body of reset_<a>, in place, on a leaf attribute of an instance of class cl;
     the frame survives failures *)
  Lemma delattr_inv fuel l cl k a skip F :
    (skip = false -> inval_spec ct) ->
    xstable F -> lookup_cls ct cl = Some k ->
    (forall sp, lookup_attr k a = Some sp -> leaf_attr sp /\ default_ok k sp) ->
    T (fun h => (Inv h /\ F h) /\ is_inst l cl h)
      (delattr_ ct (exec ct fuel) l a false skip) (fun _ h => (Inv h /\ F h) /\ is_inst l cl h)
      (fun h => (Inv h /\ F h) /\ is_inst l cl h).
  Proof.
    intros Hiv SF Hk Hla. pose proof SF as [SFc SFi]. unfold delattr_.
    eapply T_bind; [apply T_read_inst; tauto|]. intros [cl0 d0]. cbn [fst snd].
    eapply T_bind; [apply T_cls_of; tauto|]. intros k0.
    intros s [[[[I Fh] [d N]] N0] Hk0].
    rewrite N in N0. inversion N0; subst cl0 d0. rewrite Hk in Hk0. inversion Hk0; subst k0.
    set (G := fun h => F h /\ is_inst l cl h).
    assert (SG : xstable G) by (apply xstable_and; [exact SF|apply xstable_is_inst]).
    assert (GE : forall h, IF ct G h -> (Inv h /\ F h) /\ is_inst l cl h).
    { intros h [I1 [F1 N1]]. auto. }
    assert (Del : T (IF ct G) (raw_delattr l a ;;; (if skip then ret tt else invalidate_attrs ct (exec ct fuel) l a) ;;; ret VNone)
                    (fun _ h => (Inv h /\ F h) /\ is_inst l cl h) (fun h => (Inv h /\ F h) /\ is_inst l cl h)).
    { eapply T_bind with (Q := fun _ h => IF ct G h).
      - unfold raw_delattr. eapply T_bind; [apply T_read_inst; exact GE|]. intros [cl1 d1]. cbn [fst snd].
        destruct (assoc a d1); [|apply T_fail; intros h [H _]; apply GE; exact H].
        apply T_write. intros h [[I1 G1] N1]. split; [apply nth_error_Some; congruence|].
        split; [now apply Inv_delete|]. eapply (proj2 SG); eauto.
      - intros ?. eapply T_bind with (Q := fun _ h => IF ct G h).
        + destruct skip; [apply T_ret; auto|].
          eapply T_conseq; [apply (Hiv eq_refl fuel l a G SG)|auto|auto|exact GE].
        + intros ?. apply T_ret. exact GE. }
    refine ((_ : T (IF ct G) _ (fun _ h => (Inv h /\ F h) /\ is_inst l cl h)
                   (fun h => (Inv h /\ F h) /\ is_inst l cl h)) s _);
      [|split; [exact I|split; [exact Fh|exists d; exact N]]].
    eapply T_bind; [apply T_guard; exact GE|]. intros ?.
    cbv iota. destruct (lookup_attr k a) as [sp|] eqn:Ha; [|exact Del].
    destruct (Hla sp eq_refl) as [Hl Hd].
    eapply T_bind with (Q := fun dv h => IF ct G h /\ loose h dv).
    { eapply T_conseq; [apply (lookup_default_quiet (exec ct fuel) sp k G Hd (proj1 (proj1 SG)))| auto | auto |exact GE]. }
    intros dv. destruct (is_missing dv).
    - eapply T_pre; [|exact Del]. tauto.
    - eapply T_bind with (Q := fun value h => IF ct G h /\ loose h value).
      + eapply T_conseq;
          [apply (prepare_attr_value_any ct Hflat fuel sp l dv G Hl (proj1 SG))
          | auto | auto | exact GE].
      + intros value. eapply T_conseq;
          [apply (mutate_attr_inplace_gen ct Hflat fuel l a value true true skip G SG Hiv)| | |exact GE].
        * intros h [[I1 G1] L1]. split; [split; auto|]. split; [left; exact L1|discriminate].
        * intros r h H. apply GE. exact H.
  Qed.

  Lemma exec_delattr_inv fuel l cl k a skip F :
    (skip = false -> inval_spec ct) ->
    xstable F -> lookup_cls ct cl = Some k ->
    (forall sp, lookup_attr k a = Some sp -> leaf_attr sp /\ default_ok k sp) ->
    T (fun h => (Inv h /\ F h) /\ is_inst l cl h)
      (exec ct fuel (KDelAttr l a false skip)) (fun _ h => (Inv h /\ F h) /\ is_inst l cl h)
      (fun h => (Inv h /\ F h) /\ is_inst l cl h).
  Proof.
    intros Hiv SF Hk Hla. destruct fuel as [|f]; [apply T_fail; tauto|]. rewrite exec_S. now apply (delattr_inv f l cl k).
  Qed.

  (* del obj.a *)
  Theorem step_delattr roots x a s :
    Inv (heap s) ->
    (forall l, nth x roots VNone = VRef l -> exists cl k, is_inst l cl (heap s) /\ lookup_cls ct cl = Some k /\
       forall sp, lookup_attr k a = Some sp -> leaf_attr sp /\ default_ok k sp) ->
    Inv (heap (snd (step ct roots (OpDelAttr x a) s))).
  Proof.
    intros I R. unfold step.
    destruct (nth x roots VNone) as [| | | | | | | |l] eqn:Er; try exact I.
    cbn [loc_of]. rewrite bind_ret_l. destruct (R l eq_refl) as (cl & k & Hi & Hk & Hla).
    eapply T_run_then; [apply (exec_delattr_inv XFUEL l cl k a false (fun _ => True) (fun _ => Hninv) xstable_true Hk Hla)| | |]; auto.
    - cbv beta. auto.
    - cbv beta. tauto.
    - cbv beta. tauto.
  Qed.

  (* obj.reset_<a>(_inplace=True) *)
  Theorem step_reset_inplace roots x a hh s :
    h_inplace hh = true -> Inv (heap s) ->
    (forall l, nth x roots VNone = VRef l -> exists cl k, is_inst l cl (heap s) /\ lookup_cls ct cl = Some k /\
       forall sp, lookup_attr k a = Some sp -> leaf_attr sp /\ default_ok k sp) ->
    Inv (heap (snd (step ct roots (OpHelper x (HReset a) hh) s))).
  Proof.
    intros Hin I R. unfold step.
    destruct (nth x roots VNone) as [| | | | | | | |l] eqn:Er; try exact I.
    cbn [loc_of]. rewrite bind_ret_l. destruct (R l eq_refl) as (cl & k & Hi & Hk & Hla).
    unfold run_helper. destruct (negb (h_if hh)); [exact I|]. rewrite Hin. rewrite bind_ret_l. cbn [negb].
    eapply T_run_then with (P := fun h => (Inv h /\ True) /\ is_inst l cl h)
                           (Q := fun _ h => (Inv h /\ True) /\ is_inst l cl h)
                           (E := fun h => (Inv h /\ True) /\ is_inst l cl h);
      [|cbv beta; auto|cbv beta; tauto|cbv beta; tauto].
    apply T_thawed_false; [tauto|].
    apply (exec_delattr_inv XFUEL l cl k a false (fun _ => True) (fun _ => Hninv) xstable_true Hk Hla).
  Qed.
End Defaults.

(* ------------------------------------------------------------------ *)
(** * The constructor of a flat class *)
Section Ctor.
  Variable ct : ctable.
  Hypothesis Hflat : flat_table ct.
  Hypothesis Hninv : inval_spec ct.
  Hypothesis Hres : no_reserved_names ct.
  Notation Inv := (Inv ct).

  (* a class that the constructor theorem covers: flat, its own metadata, no spec parent,
     no __post_init__, leaf attributes with scalar / factory-of-scalars defaults *)
  Definition ctor_class (c : cid) (k : cls) : Prop :=
    lookup_cls ct c = Some k /\ flat_class k /\
    (exists ko, lookup_cls ct (c_owner k) = Some ko /\ tl (c_mro ko) = []) /\
    oqfn (c_post_init k) /\
    forall sp, In sp (c_attrs k) -> leaf_attr sp /\ default_ok k sp.

  Definition kw_flat (kw : list (aid * val)) (h : heap_t) : Prop :=
    forall a v, In (a, v) kw -> flat_val h v.

  Lemma xstable_kw_flat kw : xstable (kw_flat kw).
  Proof.
    split; [split|].
    - intros h o S Nr H a v Hi. apply (proj1 (proj1 (xstable_flat_val v))); auto; eapply H; eauto.
    - intros h c o0 o N S Sc Le H a v Hi. eapply (proj2 (proj1 (xstable_flat_val v))); eauto; eapply H; eauto.
    - intros h l cl d d' N H a v Hi. eapply (proj2 (xstable_flat_val v)); eauto; eapply H; eauto.
  Qed.

  (* protect_via_deepcopy of a flat value: a non-reference, or a fresh copy nobody references *)
  Lemma protect_flat v F :
    cstable F ->
    T (fun h => IF ct F h /\ flat_val h v) (protect ct v) (fun r h => IF ct F h /\ loose h r) (IF ct F).
  Proof.
    intros SF s [[I Fh] Fv].
    destruct v as [| | | | | | | |lx];
      try (rewrite protect_nonref by (intros c E; discriminate); split; [split; auto|exact Logic.I]).
    destruct Fv as (o & No & Nr & So).
    unfold protect. cbn [val_is_scalar]. unfold deepcopy. destruct FUEL_SS as [f Ef]. rewrite Ef.
    pose proof (dc_container ct Hflat f lx [] o (length (heap s)) F (cstable_fstable _ _ SF) Nr So eq_refl s) as DC.
    assert (Pre : CP ct F (length (heap s)) lx o (heap s)) by (split; [split; auto|split; auto]).
    specialize (DC Pre). unfold bind at 1.
    destruct (dc ct (S (S f)) (VRef lx) [] s) as [[r|e] s1]; [|exact DC].
    destruct DC as ((IF1 & _) & l' & -> & _ & L1 & _). cbn [ret fst]. split; auto.
  Qed.

  Lemma init_inv fuel c k l kw :
    ctor_class c k ->
    T (fun h => (Inv h /\ kw_flat kw h) /\ is_inst l c h)
      (init_ ct (exec ct fuel) (c_owner k) l kw) (fun _ h => Inv h) Inv.
  Proof.
    intros (Hk & Fc & (ko & Hko & Hmro) & Hpi & Hat).
    set (G := fun h => kw_flat kw h /\ is_inst l c h).
    assert (SG : xstable G) by (apply xstable_and; [apply xstable_kw_flat|apply xstable_is_inst]).
    assert (GE : forall h, IF ct G h -> Inv h) by (intros h [H _]; exact H).
    eapply T_pre with (P := IF ct G); [intros h [[I K] N]; split; [exact I|split; auto]|].
    unfold init_.
    eapply T_bind; [apply T_cls_of; exact GE|]. intros ks. apply T_pull. intro Hks.
    rewrite Hko in Hks. inversion Hks; subst ks.
    destruct (negb (init_wrapper_ok ko kw)); [apply T_fail; exact GE|].
    eapply T_bind; [apply T_read_inst; exact GE|]. intros [c0 d0]. cbn [fst snd].
    eapply T_pre with (P := fun h => IF ct G h /\ c0 = c).
    { intros h [[I [K [d N]]] N0]. rewrite N in N0. inversion N0; subst. split; auto. split; auto. split; auto. exists d0; auto. }
    apply T_pull. intros ->.
    eapply T_bind; [apply T_cls_of; exact GE|]. intros im. apply T_pull. intro Him.
    rewrite Hk in Him. inversion Him; subst im.
    cbv zeta. rewrite Nat.eqb_refl.
    (* the flag and the (empty) chain of parents *)
    eapply T_bind with (Q := fun kw1 h => IF ct G h /\ kw1 = kw).
    { rewrite Hmro. cbn [rev foldM].
      eapply T_bind with (Q := fun _ h => IF ct G h); [|intros ?; apply T_ret; auto].
      eapply T_conseq;
        [apply (raw_setattr_frame ct Hflat l A_INITIALIZING (VBool true) G (proj2 SG))| | |intros h [H _]; exact H].
      - intros h [I [K [d N]]]. split; [split; [exact I|split; [exact K|exists d; exact N]]|].
        split; [left; exact Logic.I|].
        intros cl0 d1 k0 sp N1 Hk0 Ha0. rewrite (Hres _ _ Hk0) in Ha0. discriminate.
      - intros r h H. exact H. }
    intros kw1. apply T_pull. intros ->.
    eapply T_bind with (Q := fun _ h => IF ct G h).
    - (* the attributes *)
      apply T_iterM. intros sp Hsp. destruct (Hat sp Hsp) as [Hl Hd].
      destruct (negb (a_init sp) || negb (a_owner sp =? c_owner k)); [apply T_ret; auto|].
      assert (Dn : a_dnc sp = false) by (destruct Fc as (_ & _ & Fa); apply Fa; auto).
      eapply T_bind with
        (Q := fun (r : val * bool) h => IF ct G h /\ (if snd r then flat_val h (fst r) else loose h (fst r))).
      { assert (Dflt : T (IF ct G) (d <- lookup_default_value ct (exec ct fuel) sp k ;; ret (d, false))
                         (fun (r : val * bool) h => IF ct G h /\ (if snd r then flat_val h (fst r) else loose h (fst r)))
                         Inv).
        { eapply T_bind with (Q := fun dv h => IF ct G h /\ loose h dv).
          - eapply T_conseq; [apply (lookup_default_quiet ct Hflat (exec ct fuel) sp k G Hd (proj1 (proj1 SG)))|auto|auto|exact GE].
          - intros dv. apply T_ret. intros h H. exact H. }
        destruct (assoc (a_name sp) kw) as [v|] eqn:As; [|exact Dflt].
        destruct (is_missing v); [exact Dflt|].
        apply T_ret. intros h [I [K N]]. rewrite Dn. cbn [andb negb fst snd].
        split; [split; [exact I|split; auto]|]. eapply K. apply assoc_in. exact As. }
      intros [value copy_required]. cbn [fst snd].
      destruct (is_missing value); [apply T_ret; tauto|].
      eapply T_bind with (Q := fun value' h => IF ct G h /\ loose h value').
      { destruct copy_required.
        - eapply T_conseq; [apply (protect_flat value G (proj1 SG))|auto|auto|exact GE].
        - apply T_ret. auto. }
      intros value'.
      eapply T_bind with (Q := fun _ h => IF ct G h); [|intros ?; apply T_ret; auto].
      eapply T_conseq;
        [apply (exec_setattr_gen ct Hflat Hninv fuel l c k (a_name sp) value' true true (kw_flat kw)
                  (xstable_kw_flat kw) Hk)| | |intros h [[H _] _]; exact H].
      + intros sp' Ha'. apply Hat. eapply lookup_attr_in; eauto.
      + intros h [[I [K N]] L]. split; [split; auto|]. split; auto.
      + intros r h [[I K] N]. split; [exact I|split; auto].
    - intros ?.
      eapply T_bind with (Q := fun _ h => Inv h); [|intros ?; apply T_ret; auto].
      eapply T_bind with (Q := fun _ h => Inv h).
      + (* __post_init__: a quiet callback *)
        destruct (c_post_init k) as [g|]; [|apply T_ret; exact GE].
        eapply T_bind with (Q := fun _ h => Inv h); [|intros ?; apply T_ret; auto].
        eapply T_conseq; [apply (apply_fn_quiet ct Hflat g VNone G Hpi (proj1 (proj1 SG)))|auto| |exact GE].
        intros r h [[H _] _]. exact H.
      + intros ?. apply raw_delattr_Inv; auto.
  Qed.

  Lemma exec_init_inv fuel c k l kw :
    ctor_class c k ->
    T (fun h => (Inv h /\ kw_flat kw h) /\ is_inst l c h)
      (exec ct fuel (KInit (c_owner k) l kw)) (fun _ h => Inv h) Inv.
  Proof.
    intro H. destruct fuel as [|f]; [apply T_fail; tauto|]. rewrite exec_S. now apply (init_inv f c k).
  Qed.

  (* the call C(pos, k1=v1, ...): the values are flat (they are copied); a positional argument
     is the value of the key attribute *)
  Theorem construct_inv fuel c k pos kw s :
    ctor_class c k -> Inv (heap s) -> kw_flat kw (heap s) ->
    match pos with Some v => flat_val (heap s) v | None => True end ->
    Inv (heap (snd (construct ct (exec ct fuel) c pos kw s))).
  Proof.
    intros Hc I K Kp. pose proof Hc as (Hk & Fc & _).
    unfold construct.
    erewrite bind_ok'; [|unfold cls_of; rewrite Hk; reflexivity].
    assert (Pure : forall s0 (m : M unit) (R : M val), heap s0 = heap s -> hpure m ->
               (forall s', heap s' = heap s -> Inv (heap (snd (R s')))) ->
               Inv (heap (snd ((m ;;; R) s0)))).
    { intros s0 m R Es Hp HR. unfold bind. specialize (Hp s0). destruct (m s0) as [[u|e] s1]; simpl in *.
      - apply HR. congruence.
      - rewrite Hp, Es. exact I. }
    assert (Tail : forall kw', kw_flat kw' (heap s) -> forall s', heap s' = heap s ->
               Inv (heap (snd ((l <- alloc (OInst c []) ;; exec ct fuel (KInit (c_owner k) l kw') ;;; ret (VRef l)) s')))).
    { intros kw' K' s' Es. unfold bind at 1. unfold alloc. rewrite Es.
      set (l := length (heap s)).
      set (s1 := mkst (heap s ++ [OInst c []]) (ncalls s') (fail_at s')).
      eapply (T_run_then _ _ _ _ Inv _ s1 (exec_init_inv fuel c k l kw' Hc)); auto.
      cbv beta. simpl heap. split; [split; [apply Inv_alloc_inst; auto|]|].
      - intros a v Hi. specialize (K' a v Hi). destruct v; simpl in *; auto.
        destruct K' as (o & N & R). exists o. split; auto. rewrite nth_error_app1; auto.
        apply nth_error_Some. congruence.
      - exists []. rewrite nth_error_app2 by (unfold l; lia). unfold l. now rewrite Nat.sub_diag. }
    assert (Rest : forall kw', kw_flat kw' (heap s) ->
      Inv (heap (snd (((match c_key k with
       | Some ka =>
           match lookup_attr k ka with
           | Some ksp => if is_missing (a_default ksp)
                            && match a_factory ksp with None => true | Some _ => false end
                            && negb (kw_has ka kw')
                         then fail TypeErr else ret tt
           | None => ret tt end
       | None => ret tt end) ;;;
      (if init_wrapper_ok k kw' then ret tt else fail TypeErr) ;;;
      l <- alloc (OInst c []) ;; exec ct fuel (KInit (c_owner k) l kw') ;;; ret (VRef l)) s)))).
    { intros kw' K'. apply Pure; auto.
      - destruct (c_key k) as [ka|]; [|apply hpure_ret].
        destruct (lookup_attr k ka) as [ksp|]; [|apply hpure_ret].
        destruct (_ && _ && _); [apply hpure_fail|apply hpure_ret].
      - intros s' Es. apply Pure; auto.
        destruct (init_wrapper_ok k kw'); [apply hpure_ret|apply hpure_fail]. }
    destruct pos as [v|].
    - destruct (c_key k) as [ka|] eqn:Ek.
      + destruct (kw_has ka kw); [exact I|]. rewrite bind_ret_l. apply Rest.
        intros a0 v0 [E|Hi]; [inversion E; subst; exact Kp|eapply K; eauto].
      + exact I.
    - rewrite bind_ret_l. apply Rest. exact K.
  Qed.

  Theorem step_construct roots c k pos kw s :
    ctor_class c k -> Inv (heap s) -> kw_flat kw (heap s) ->
    match pos with Some v => flat_val (heap s) v | None => True end ->
    Inv (heap (snd (step ct roots (OpConstruct c pos kw) s))).
  Proof.
    intros Hc I K Kp. unfold step.
    assert (Ex : exists f, XFUEL = S f) by (exists 39; reflexivity). destruct Ex as [f ->].
    rewrite exec_S. cbn [body]. now apply (construct_inv f c k).
  Qed.
End Ctor.

(* ------------------------------------------------------------------ *)
(** * reset_<a> copy-on-write, reset() in place and copy-on-write *)
Section Resets.
  Variable ct : ctable.
  Hypothesis Hflat : flat_table ct.
  Hypothesis Hninv : inval_spec ct.
  Hypothesis Hres : no_reserved_names ct.
  Notation Inv := (Inv ct).
  Notation rec := (exec ct XFUEL).

  Definition PI (l : loc) (cl : cid) (h : heap_t) : Prop := Inv h /\ is_inst l cl h.

  Lemma del_keep l cl k a :
    lookup_cls ct cl = Some k ->
    (forall sp, lookup_attr k a = Some sp -> leaf_attr sp /\ default_ok k sp) ->
    T (PI l cl) (rec (KDelAttr l a false false)) (fun _ h => PI l cl h) (PI l cl).
  Proof.
    intros Hk Hla. eapply T_conseq;
      [apply (exec_delattr_inv ct Hflat XFUEL l cl k a false (fun _ => True) (fun _ => Hninv) xstable_true Hk Hla)| | |];
      unfold PI; tauto.
  Qed.

  (* _thawed(l, thaw) around a computation that keeps PI *)
  Lemma thawed_keep {A} l cl thaw (m : M A) :
    T (PI l cl) m (fun _ h => PI l cl h) (PI l cl) ->
    T (PI l cl) (thawed ct l thaw m) (fun _ h => Inv h) Inv.
  Proof.
    intro Hm. unfold thawed.
    assert (PE : forall h, PI l cl h -> Inv h) by (unfold PI; tauto).
    assert (Hm' : T (PI l cl) m (fun _ h => Inv h) Inv) by (eapply T_conseq; [exact Hm|auto|intros; apply PE; auto|exact PE]).
    eapply T_bind; [apply T_hpure; [apply hpure_read|exact PE]|]. intros o.
    destruct o; try exact Hm'.
    eapply T_bind; [apply T_hpure; [unfold cls_of; hpgo|exact PE]|]. intros k0.
    destruct (negb thaw || negb (c_frozen k0) || initializing d); [exact Hm'|].
    eapply T_bind with (Q := fun _ h => PI l cl h).
    - eapply T_conseq;
        [apply (raw_setattr_frame ct Hflat l A_INITIALIZING (VBool true) (is_inst l cl) (proj2 (xstable_is_inst l cl)))| | |].
      + intros h [I N]. split; [split; auto|]. split; [left; exact Logic.I|].
        intros cl0 d1 k1 sp N1 Hk1 Ha1. rewrite (Hres _ _ Hk1) in Ha1. discriminate.
      + intros r h H. exact H.
      + intros h [I _]. exact I.
    - intros ?. eapply T_finally with (Q' := fun _ h => PI l cl h) (E' := PI l cl).
      + exact Hm.
      + intros ?. eapply T_pre; [|apply raw_delattr_Inv; auto]. exact PE.
      + eapply T_pre; [|apply raw_delattr_Inv; auto]. exact PE.
  Qed.

  Lemma FUEL3 : exists f, FUEL = S (S (S f)).
  Proof. exact FUEL_SSS. Qed.

  (* the copy of the receiver of a copy-on-write reset *)
  Lemma copy_recv l s cl (d : list (nat * val)) k (K : loc -> M val) :
    Inv (heap s) -> flat_recv ct l (heap s) cl d k ->
    (forall new s1, Inv (heap s1) -> is_inst new cl (heap s1) -> Inv (heap (snd (K new s1)))) ->
    Inv (heap (snd ((l' <- (v <- deepcopy ct (VRef l) ;; loc_of v) ;; K l') s))).
  Proof.
    intros I (N & Hk & Fc & Km) HK.
    pose proof (FI_of_Inv ct (heap s) l cl d k I N Hk Fc Km) as Fi.
    destruct FUEL3 as [f Ef].
    pose proof (dc_instance ct Hflat f l s cl d k I Fi) as DC.
    unfold bind at 1. unfold bind at 1. unfold deepcopy. unfold bind at 1. rewrite Ef.
    destruct (dc ct (S (S (S f))) (VRef l) [] s) as [[r|e] s1]; [|exact (proj2 DC)].
    destruct DC as (new & d' & Er & _ & _ & I1 & (N1 & _) & _).
    cbn [ret]. rewrite Er. cbn [loc_of ret]. apply HK; auto. exists d'. exact N1.
  Qed.

  (* obj.reset_<a>() -- copy-on-write *)
  Theorem reset_cow l a hh s cl d k :
    h_inplace hh = false -> Inv (heap s) -> flat_recv ct l (heap s) cl d k ->
    (forall sp, lookup_attr k a = Some sp -> leaf_attr sp /\ default_ok k sp) ->
    Inv (heap (snd (run_helper ct l (HReset a) hh s))).
  Proof.
    intros Hin I FR Hla. pose proof FR as (_ & Hk & _).
    unfold run_helper. destruct (negb (h_if hh)); [exact I|]. rewrite Hin. cbn [negb].
    apply (copy_recv l s cl d k (fun l' => thawed ct l' true (rec (KDelAttr l' a false false)) ;;; ret (VRef l')) I FR).
    intros new s1 I1 N1.
    eapply (T_run_then (PI new cl) _ (fun _ h => Inv h) Inv Inv _ s1); auto; [|split; auto].
    apply thawed_keep. apply (del_keep new cl k a Hk Hla).
  Qed.

  Lemma reset_all_keep l cl k :
    lookup_cls ct cl = Some k ->
    (forall a sp, lookup_attr k a = Some sp -> leaf_attr sp /\ default_ok k sp) ->
    T (PI l cl)
      (iterM (fun sp => catch (rec (KDelAttr l (a_name sp) false false) ;;; ret tt)
                              (fun e => err_eqb e AttrErr) (ret tt)) (c_attrs k))
      (fun _ h => PI l cl h) (PI l cl).
  Proof.
    intros Hk Hla. apply T_iterM. intros sp _.
    eapply T_catch with (E' := PI l cl); [|apply T_ret; auto|auto].
    eapply T_bind; [apply (del_keep l cl k (a_name sp) Hk (Hla (a_name sp)))|]. intros ?. apply T_ret. auto.
  Qed.

  Lemma reset_all_from l' cl k thaw s1 :
    lookup_cls ct cl = Some k ->
    (forall a sp, lookup_attr k a = Some sp -> leaf_attr sp /\ default_ok k sp) ->
    Inv (heap s1) -> is_inst l' cl (heap s1) ->
    Inv (heap (snd ((p <- read_inst l' ;; k0 <- cls_of ct (fst p) ;;
                     thawed ct l' thaw
                       (iterM (fun sp => catch (rec (KDelAttr l' (a_name sp) false false) ;;; ret tt)
                                               (fun e => err_eqb e AttrErr) (ret tt)) (c_attrs k0)) ;;;
                     ret (VRef l')) s1))).
  Proof.
    intros Hk Hla I1 [d1 N1].
    erewrite bind_ok'; [|apply read_inst_eq; eauto]. cbn [fst snd].
    erewrite bind_ok'; [|unfold cls_of; rewrite Hk; reflexivity].
    eapply (T_run_then (PI l' cl) _ (fun _ h => Inv h) Inv Inv _ s1); auto; [|split; [auto|exists d1; auto]].
    apply thawed_keep. now apply reset_all_keep.
  Qed.

  (* obj.reset(), in place and copy-on-write *)
  Theorem reset_all l hh s cl d k :
    Inv (heap s) -> flat_recv ct l (heap s) cl d k ->
    (forall a sp, lookup_attr k a = Some sp -> leaf_attr sp /\ default_ok k sp) ->
    Inv (heap (snd (run_helper ct l HResetTop hh s))).
  Proof.
    intros I FR Hla. pose proof FR as (N & Hk & _).
    unfold run_helper. destruct (negb (h_if hh)); [exact I|].
    destruct (h_inplace hh); cbn [negb].
    - rewrite bind_ret_l. apply (reset_all_from l cl k false s Hk Hla I). exists d. exact N.
    - apply (copy_recv l s cl d k (fun l' =>
               p <- read_inst l' ;; k0 <- cls_of ct (fst p) ;;
               thawed ct l' true
                 (iterM (fun sp => catch (rec (KDelAttr l' (a_name sp) false false) ;;; ret tt)
                                         (fun e => err_eqb e AttrErr) (ret tt)) (c_attrs k0)) ;;;
               ret (VRef l')) I FR).
      intros new s1 I1 N1. now apply (reset_all_from new cl k true s1 Hk Hla).
  Qed.
End Resets.
