(* C08 (extension): "every instance holds every defaulted attribute in its own dictionary".

   `kext ct s s'` relates two states: every cell of s is still there in s', an
   instance cell is still an instance of the same class, and it still holds every
   key it held whose attribute has a default (`keep`): the library never removes a
   defaulted attribute from an instance dictionary.  What it does remove: the
   bookkeeping key __spec_class_initializing__, unmanaged attributes, and managed
   attributes without default (del / reset_<a> / reset / invalidation).

   `kv m Q` / `kj P m Q` are Hoare-style judgements carrying kext (for EVERY outcome,
   Ok or Err) plus a postcondition for Ok results; one lemma per function of Model.v,
   closed by induction on fuel (`exec_kv`), then `run_helper`, `step`.
   On top: a successful constructor call returns an instance that holds every
   defaulted init-enabled attribute (`construct_holds`), hence over histories every
   root created by a constructor holds them for ever (`ctor_roots_hold_defaults`).
   The guard "no keyword is UNCHANGED" is necessary: see `unchanged_keyword_refuted`
   at the end of the file. *)
From Coq Require Import List ZArith Bool Arith Lia.
From SC Require Import Base.Res Base.PyList Inst.Heap Inst.ClassTable Inst.Model Inst.Framed Inst.Reach.
Import ListNotations.
Open Scope nat_scope.

#[local] Opaque FUEL.

(* ------------------------------------------------------------------ *)
(** * association lists *)
Lemma assoc_set_keeps {A} a (v : A) d a' : assoc a' d <> None -> assoc a' (assoc_set a v d) <> None.
Proof.
  unfold assoc, assoc_set. intro H.
  destruct (existsb (fun p : nat * A => fst p =? a) d).
  - induction d as [|[x y] d IH]; simpl in *; auto.
    destruct (x =? a') eqn:E.
    + destruct (x =? a) eqn:E2; simpl.
      * apply Nat.eqb_eq in E, E2. subst. rewrite Nat.eqb_refl. simpl. discriminate.
      * rewrite E. simpl. discriminate.
    + destruct (x =? a) eqn:E2; simpl.
      * apply Nat.eqb_eq in E2. subst. rewrite E. auto.
      * rewrite E. auto.
  - induction d as [|[x y] d IH]; simpl in *; [congruence|].
    destruct (x =? a'); simpl; [discriminate|auto].
Qed.

Lemma assoc_set_has {A} a (v : A) d : assoc a (assoc_set a v d) <> None.
Proof.
  unfold assoc, assoc_set.
  destruct (existsb (fun p : nat * A => fst p =? a) d) eqn:E.
  - induction d as [|[x y] d IH]; simpl in *; [discriminate|].
    destruct (x =? a) eqn:E2; simpl.
    + rewrite Nat.eqb_refl. simpl. discriminate.
    + rewrite E2. auto.
  - induction d as [|[x y] d IH]; simpl in *.
    + rewrite Nat.eqb_refl. simpl. discriminate.
    + apply orb_false_iff in E. destruct E as [E1 E2]. rewrite E1. auto.
Qed.

Lemma assoc_del_keeps {A} a (d : list (nat * A)) a' : a' <> a -> assoc a' d <> None -> assoc a' (assoc_del a d) <> None.
Proof.
  unfold assoc, assoc_del. intros Hne H.
  induction d as [|[x y] d IH]; simpl in *; auto.
  destruct (x =? a') eqn:E.
  - apply Nat.eqb_eq in E. subst x.
    destruct (a' =? a) eqn:E2; [apply Nat.eqb_eq in E2; congruence|]. simpl. rewrite Nat.eqb_refl. simpl. discriminate.
  - destruct (negb (x =? a)); simpl; [rewrite E|]; auto.
Qed.

Lemma assoc_app_keeps {A} (d e : list (nat * A)) a' : assoc a' d <> None -> assoc a' (d ++ e) <> None.
Proof.
  unfold assoc. intro H. induction d as [|[x y] d IH]; simpl in *; [congruence|].
  destruct (x =? a'); simpl; [discriminate|auto].
Qed.

Lemma assoc_app_last {A} (d : list (nat * A)) a v : assoc a (d ++ [(a, v)]) <> None.
Proof.
  unfold assoc. induction d as [|[x y] d IH]; simpl.
  - rewrite Nat.eqb_refl. simpl. discriminate.
  - destruct (x =? a); simpl; [discriminate|auto].
Qed.

Lemma nth_error_set_nth_eq {A} n (x : A) l : n < length l -> nth_error (set_nth n x l) n = Some x.
Proof. revert n; induction l; intros [|n] H; simpl in *; auto; try lia. apply IHl. lia. Qed.

(* ------------------------------------------------------------------ *)
(** * The relation *)
Section Keys.
  Variable ct : ctable.

  (* Attr.lookup_default_value cannot come back with MISSING *)
  Definition has_default (k : cls) (sp : attr_spec) : bool :=
    match assoc (a_name sp) (c_overrides k) with
    | Some v => negb (is_missing v)
    | None => match a_factory sp with Some _ => true | None => negb (is_missing (a_default sp)) end
    end.

  (* a key the library never removes from a dictionary of class c *)
  Definition keep (c : cid) (a : aid) : Prop :=
    a <> A_INITIALIZING /\
    exists k sp, lookup_cls ct c = Some k /\ lookup_attr k a = Some sp /\ has_default k sp = true.

  Definition kcell (o o' : obj) : Prop :=
    match o with
    | OInst c d => exists d', o' = OInst c d' /\ forall a, keep c a -> assoc a d <> None -> assoc a d' <> None
    | _ => match o' with OInst _ _ => False | _ => True end
    end.

  Definition kext (s s' : state) : Prop :=
    forall l o, nth_error (heap s) l = Some o -> exists o', nth_error (heap s') l = Some o' /\ kcell o o'.

  Lemma kcell_refl o : kcell o o.
  Proof. destruct o; simpl; auto. eauto. Qed.

  Lemma kcell_trans o1 o2 o3 : kcell o1 o2 -> kcell o2 o3 -> kcell o1 o3.
  Proof.
    destruct o1; simpl.
    - destruct o2; simpl; try contradiction; auto.
    - destruct o2; simpl; try contradiction; auto.
    - destruct o2; simpl; try contradiction; auto.
    - intros [d' [-> H1]]. simpl. intros [d'' [-> H2]]. exists d''. split; auto.
  Qed.

  Lemma kext_refl s : kext s s.
  Proof. intros l o H. exists o. split; auto using kcell_refl. Qed.

  Lemma kext_trans s1 s2 s3 : kext s1 s2 -> kext s2 s3 -> kext s1 s3.
  Proof.
    intros A B l o H. destruct (A l o H) as [o' [H' K']]. destruct (B l o' H') as [o'' [H'' K'']].
    exists o''. split; auto. eapply kcell_trans; eauto.
  Qed.

  Lemma kext_heap s s' : heap s' = heap s -> kext s s'.
  Proof. intros E l o H. exists o. rewrite E. split; auto using kcell_refl. Qed.

  Lemma kext_alloc s o : kext s (mkst (heap s ++ [o]) (ncalls s) (fail_at s)).
  Proof.
    intros l o1 H. exists o1. split; [|apply kcell_refl]. simpl.
    rewrite nth_error_app1; auto. apply nth_error_Some. congruence.
  Qed.

  Lemma kext_write s l o0 o :
    nth_error (heap s) l = Some o0 -> kcell o0 o -> kext s (mkst (set_nth l o (heap s)) (ncalls s) (fail_at s)).
  Proof.
    intros H0 K l' o1 H. simpl. destruct (Nat.eq_dec l l') as [<-|Hne].
    - exists o. split; [apply nth_error_set_nth_eq; apply nth_error_Some; congruence|]. congruence.
    - exists o1. rewrite set_nth_other by exact Hne. split; auto using kcell_refl.
  Qed.

  (* ---------- kstable facts ---------- *)
  Definition kstable (F : state -> Prop) : Prop := forall s s', kext s s' -> F s -> F s'.

  Definition isinst (l : loc) (c : cid) (s : state) : Prop := exists d, nth_error (heap s) l = Some (OInst c d).
  Definition noninst (l : loc) (s : state) : Prop :=
    exists o, nth_error (heap s) l = Some o /\ match o with OInst _ _ => False | _ => True end.
  Definition has (l : loc) (c : cid) (a : aid) (s : state) : Prop :=
    exists d, nth_error (heap s) l = Some (OInst c d) /\ assoc a d <> None.

  Lemma isinst_stable l c : kstable (isinst l c).
  Proof. intros s s' E [d H]. destruct (E l _ H) as [o' [H' [d' [-> _]]]]. exists d'. exact H'. Qed.
  Lemma noninst_stable l : kstable (noninst l).
  Proof.
    intros s s' E [o [H N]]. destruct (E l _ H) as [o' [H' K]]. exists o'. split; auto.
    destruct o; try contradiction; exact K.
  Qed.
  Lemma has_stable l c a : keep c a -> kstable (has l c a).
  Proof.
    intros Hk s s' E [d [H Ha]]. destruct (E l _ H) as [o' [H' [d' [-> K]]]]. exists d'. split; auto.
  Qed.
  Lemma stable_and (F G : state -> Prop) : kstable F -> kstable G -> kstable (fun s => F s /\ G s).
  Proof. intros HF HG s s' E [A B]. split; eauto. Qed.
  Lemma stable_const (P : Prop) : kstable (fun _ => P).
  Proof. intros s s' _ H; exact H. Qed.
  Lemma stable_forall {T} (F : T -> state -> Prop) : (forall x, kstable (F x)) -> kstable (fun s => forall x, F x s).
  Proof. intros H s s' E A x. eapply H; eauto. Qed.
  Lemma stable_impl (P : Prop) (F : state -> Prop) : kstable F -> kstable (fun s => P -> F s).
  Proof. intros H s s' E A p. eapply H; eauto. Qed.

  (* ---------- the judgements ---------- *)
  Definition kj {T} (P : state -> Prop) (m : M T) (Q : T -> state -> Prop) : Prop :=
    forall s, P s -> kext s (snd (m s)) /\ match fst (m s) with Ok a => Q a (snd (m s)) | Err _ => True end.
  Definition kv {T} (m : M T) (Q : T -> Prop) : Prop :=
    forall s, kext s (snd (m s)) /\ match fst (m s) with Ok a => Q a | Err _ => True end.
  Definition kp {T} (m : M T) : Prop := kv m (fun _ => True).

  Lemma kj_of_kv {T} (m : M T) Q (F : state -> Prop) : kv m Q -> kstable F -> kj F m (fun a s => Q a /\ F s).
  Proof.
    intros H St s Fs. destruct (H s) as [E Qa]. split; auto. destruct (fst (m s)); auto. split; eauto.
  Qed.
  Lemma kv_weaken {T} (m : M T) (Q Q' : T -> Prop) : kv m Q -> (forall a, Q a -> Q' a) -> kv m Q'.
  Proof. intros H W s. destruct (H s) as [E Qa]. split; auto. destruct (fst (m s)); auto. Qed.
  Lemma kp_of_kv {T} (m : M T) Q : kv m Q -> kp m.
  Proof. intro H. eapply kv_weaken; eauto. Qed.

  Lemma kv_ret {T} (a : T) (Q : T -> Prop) : Q a -> kv (ret a) Q.
  Proof. intros H s. simpl. split; auto using kext_refl. Qed.
  Lemma kv_fail {T} e (Q : T -> Prop) : kv (fail e) Q.
  Proof. intros s. simpl. split; auto using kext_refl. Qed.
  Lemma kv_bind {T U} (m : M T) (k : T -> M U) Q R :
    kv m Q -> (forall a, Q a -> kv (k a) R) -> kv (bind m k) R.
  Proof.
    intros Hm Hk s. unfold bind. specialize (Hm s). destruct (m s) as [[a|e] s1]; simpl in *.
    - destruct Hm as [E Qa]. destruct (Hk a Qa s1) as [E2 R2]. split; auto. eapply kext_trans; eauto.
    - tauto.
  Qed.
  Lemma kp_bind {T U} (m : M T) (k : T -> M U) : kp m -> (forall a, kp (k a)) -> kp (bind m k).
  Proof. intros Hm Hk. eapply kv_bind; [exact Hm|]. intros; apply Hk. Qed.

  Lemma kj_ret {T} (P : state -> Prop) (a : T) (Q : T -> state -> Prop) : (forall s, P s -> Q a s) -> kj P (ret a) Q.
  Proof. intros H s Ps. simpl. split; auto using kext_refl. Qed.
  Lemma kj_fail {T} (P : state -> Prop) e (Q : T -> state -> Prop) : kj P (fail e) Q.
  Proof. intros s Ps. simpl. split; auto using kext_refl. Qed.
  Lemma kj_bind {T U} (P : state -> Prop) (m : M T) (k : T -> M U) Q R :
    kj P m Q -> (forall a, kj (Q a) (k a) R) -> kj P (bind m k) R.
  Proof.
    intros Hm Hk s Ps. unfold bind. specialize (Hm s Ps). destruct (m s) as [[a|e] s1]; simpl in *.
    - destruct Hm as [E Qa]. destruct (Hk a s1 Qa) as [E2 R2]. split; auto. eapply kext_trans; eauto.
    - tauto.
  Qed.
  Lemma kj_conseq {T} (P P' : state -> Prop) (m : M T) (Q Q' : T -> state -> Prop) :
    kj P m Q -> (forall s, P' s -> P s) -> (forall a s, Q a s -> Q' a s) -> kj P' m Q'.
  Proof.
    intros H HP HQ s Ps. destruct (H s (HP _ Ps)) as [E Qa]. split; auto. destruct (fst (m s)); auto.
  Qed.
  Lemma kj_pre {T} (P P' : state -> Prop) (m : M T) Q : kj P m Q -> (forall s, P' s -> P s) -> kj P' m Q.
  Proof. intros H HP. eapply kj_conseq; eauto. Qed.
  Lemma kj_post {T} (P : state -> Prop) (m : M T) (Q Q' : T -> state -> Prop) :
    kj P m Q -> (forall a s, Q a s -> Q' a s) -> kj P m Q'.
  Proof. intros H HQ. eapply kj_conseq; eauto. Qed.
  Lemma kj_frame {T} (F P : state -> Prop) (m : M T) Q :
    kstable F -> kj P m Q -> kj (fun s => P s /\ F s) m (fun a s => Q a s /\ F s).
  Proof.
    intros St H s [Ps Fs]. destruct (H s Ps) as [E Qa]. split; auto. destruct (fst (m s)); auto. split; eauto.
  Qed.
  Lemma kj_pure {T} (phi : Prop) (P : state -> Prop) (m : M T) Q : (phi -> kj P m Q) -> kj (fun s => phi /\ P s) m Q.
  Proof. intros H s [Hp Ps]. apply H; auto. Qed.
  Lemma kj_kext {T} (P : state -> Prop) (m : M T) Q s : kj P m Q -> P s -> kext s (snd (m s)).
  Proof. intros H Ps. apply (H s Ps). Qed.
  Lemma kj_of_kp {T} (m : M T) (F : state -> Prop) : kp m -> kstable F -> kj F m (fun _ s => F s).
  Proof. intros H St. eapply kj_post; [eapply kj_of_kv; eauto|]. intros a s [_ Fs]; exact Fs. Qed.

  (* ---------- primitives ---------- *)
  Lemma kv_alloc o : kp (alloc o).
  Proof. intros s. unfold alloc. simpl. split; auto using kext_alloc. Qed.
  Lemma kj_alloc (P : state -> Prop) o : kstable P -> kj P (alloc o) (fun l s => P s /\ nth_error (heap s) l = Some o).
  Proof.
    intros St s Ps. unfold alloc. simpl. split; [apply kext_alloc|]. split.
    - eapply St; [apply kext_alloc|exact Ps].
    - rewrite nth_error_app2 by lia. rewrite Nat.sub_diag. reflexivity.
  Qed.
  Lemma kv_read l : kp (read l).
  Proof. intros s. unfold read. destruct (nth_error (heap s) l); simpl; split; auto using kext_refl. Qed.
  Lemma kj_read (P : state -> Prop) l : kj P (read l) (fun o s => P s /\ nth_error (heap s) l = Some o).
  Proof. intros s Ps. unfold read. destruct (nth_error (heap s) l) eqn:E; simpl; split; auto using kext_refl. Qed.
  Lemma kj_write l o o0 :
    kcell o0 o ->
    kj (fun s => nth_error (heap s) l = Some o0) (write l o) (fun _ s => nth_error (heap s) l = Some o).
  Proof.
    intros K s H0. unfold write. destruct (l <? length (heap s)) eqn:E; simpl; [|split; auto using kext_refl].
    split; [eapply kext_write; eauto|]. apply nth_error_set_nth_eq. now apply Nat.ltb_lt.
  Qed.
  Lemma kv_tick : kp tick.
  Proof.
    intros s. unfold tick. destruct (fail_at s) as [k|]; [destruct (k =? S (ncalls s))|]; simpl; split; auto;
      apply kext_heap; reflexivity.
  Qed.
  Lemma kv_get_heap : kp get_heap.
  Proof. intros s. simpl. split; auto using kext_refl. Qed.

  Lemma kv_catch {T} (m k : M T) h Q : kv m Q -> kv k Q -> kv (catch m h k) Q.
  Proof.
    intros Hm Hk s. unfold catch. specialize (Hm s). destruct (m s) as [[a|e] s1]; simpl in *; auto.
    destruct (h e); simpl; auto. destruct Hm as [E _]. destruct (Hk s1) as [E2 Q2]. split; auto.
    eapply kext_trans; eauto.
  Qed.
  Lemma kv_finally {T} (m : M T) (c : M unit) Q : kv m Q -> kp c -> kv (finally_ m c) Q.
  Proof.
    intros Hm Hc s. unfold finally_. specialize (Hm s). destruct (m s) as [[a|e] s1]; simpl in *;
      destruct Hm as [E P]; destruct (Hc s1) as [E2 _].
    - destruct (c s1) as [[u|e] s2]; simpl in *; split; auto; eapply kext_trans; eauto.
    - split; auto. eapply kext_trans; eauto.
  Qed.
  Lemma kj_finally {T} (P : state -> Prop) (m : M T) (c : M unit) (Q : T -> state -> Prop) (F : state -> Prop) :
    kstable F -> kj P m (fun a s => Q a s /\ F s) -> (forall s, P s -> F s) ->
    (forall a, kj (fun s => Q a s /\ F s) c (fun _ s => Q a s)) -> kp c ->
    kj P (finally_ m c) Q.
  Proof.
    intros St Hm HPF Hc Hcp s Ps. unfold finally_. specialize (Hm s Ps).
    destruct (m s) as [[a|e] s1]; simpl in *; destruct Hm as [E Pm].
    - destruct (Hc a s1 Pm) as [E2 Q2]. destruct (c s1) as [[u|e] s2]; simpl in *; split; auto;
        eapply kext_trans; eauto.
    - destruct (Hcp s1) as [E2 _]. split; auto. eapply kext_trans; eauto.
  Qed.
  Lemma kv_iterM {T} (f : T -> M unit) (l : list T) : (forall x, In x l -> kp (f x)) -> kp (iterM f l).
  Proof.
    induction l as [|x l IH]; intro H; simpl.
    - now apply kv_ret.
    - apply kp_bind; [apply H; simpl; auto|]. intros _. apply IH. intros; apply H; simpl; auto.
  Qed.
  Lemma kv_foldM {T U} (f : U -> T -> M U) (l : list T) (P : U -> Prop) :
    (forall acc x, In x l -> P acc -> kv (f acc x) P) -> forall acc, P acc -> kv (foldM f l acc) P.
  Proof.
    induction l as [|x l IH]; intros H acc Hacc; simpl.
    - now apply kv_ret.
    - eapply kv_bind; [apply H; simpl; auto|]. intros acc' Hacc'. apply IH; auto. intros; apply H; simpl; auto.
  Qed.
  Lemma kv_mapM {T U} (f : T -> M U) (l : list T) : (forall x, In x l -> kp (f x)) -> kp (mapM f l).
  Proof.
    induction l as [|x l IH]; intro H; simpl.
    - now apply kv_ret.
    - apply kp_bind; [apply H; simpl; auto|]. intros y.
      apply kp_bind; [apply IH; intros; apply H; simpl; auto|]. intros; now apply kv_ret.
  Qed.
  (* iterM with an invariant over the processed prefix *)
  Lemma kj_iterM {T} (f : T -> M unit) (Inv : list T -> state -> Prop) :
    (forall done x, kj (Inv done) (f x) (fun _ s => Inv (done ++ [x]) s)) ->
    forall l done, kj (Inv done) (iterM f l) (fun _ s => Inv (done ++ l) s).
  Proof.
    intros H. induction l as [|x l IH]; intros done; simpl.
    - apply kj_ret. intros s Hs. rewrite app_nil_r. exact Hs.
    - eapply kj_bind; [apply H|]. intros ?. eapply kj_post; [apply IH|].
      intros ? s Hs. rewrite <- app_assoc in Hs. exact Hs.
  Qed.
  Lemma kj_foldM {T U} (f : U -> T -> M U) (Inv : list T -> U -> state -> Prop) :
    (forall done acc x, kj (Inv done acc) (f acc x) (fun acc' s => Inv (done ++ [x]) acc' s)) ->
    forall l done acc, kj (Inv done acc) (foldM f l acc) (fun acc' s => Inv (done ++ l) acc' s).
  Proof.
    intros H. induction l as [|x l IH]; intros done acc; simpl.
    - apply kj_ret. intros s Hs. rewrite app_nil_r. exact Hs.
    - eapply kj_bind; [apply H|]. intros acc'. eapply kj_post; [apply IH|].
      intros a s Hs. rewrite <- app_assoc in Hs. exact Hs.
  Qed.
End Keys.

Create HintDb kp.
#[export] Hint Resolve kv_alloc kv_read kv_tick kv_get_heap : kp.

Ltac kstep :=
  lazymatch goal with
  | |- kp _ (ret _) => apply kv_ret; exact I
  | |- kp _ (fail _) => apply kv_fail
  | |- kp _ (bind _ _) => apply kp_bind; [ | intros ]
  | |- kp _ (let _ := _ in _) => cbv zeta
  | |- kp _ (if ?c then _ else _) => destruct c eqn:?
  | |- kp _ (match ?x with _ => _ end) => destruct x eqn:?
  | |- kp _ (iterM _ _) => apply kv_iterM; intros
  | |- kp _ (mapM _ _) => apply kv_mapM; intros
  | |- kp _ (foldM _ _ _) => apply kv_foldM with (P := fun _ => True); [intros|exact I]
  | |- kp _ _ => solve [eauto with kp]
  | |- kv ?c ?m (fun _ => True) => change (kp c m); kstep
  end.
Ltac kgo := repeat kstep.

(* ------------------------------------------------------------------ *)
(** * Guards on the class table (computable) *)
Definition nub (v : val) : bool := match v with VUnchanged => false | _ => true end.
Definition ns (v : val) : Prop := is_sentinel v = false.
Definition nu (v : val) : Prop := v <> VUnchanged.
Definition kw_nu (kw : list (aid * val)) : Prop := Forall (fun p => nu (snd p)) kw.

(* a preparer that does not return a sentinel constant *)
Definition fn_ns (f : fn) : bool := match f with FConst c => negb (is_sentinel c) | _ => true end.
Definition ofn_ns (o : option fn) : bool := match o with Some f => fn_ns f | None => true end.

Definition cls_nsb (k : cls) : bool :=
  forallb (fun sp => ofn_ns (a_prepare sp) && nub (a_default sp)) (c_attrs k)
  && forallb (fun p => nub (snd p)) (c_overrides k).
(* every attribute is owned by the class itself or by a class of its MRO; own metadata *)
Definition cls_ownb (k : cls) : bool :=
  (c_owner k =? c_id k)
  && forallb (fun sp => (a_owner sp =? c_id k) || existsb (fun p => p =? a_owner sp) (tl (c_mro k))) (c_attrs k).
Definition tgb (ct : ctable) : bool := forallb (fun k => cls_nsb k && cls_ownb k) ct.

Lemma nub_nu v : nub v = true -> nu v.
Proof. destruct v; simpl; intro H; try discriminate; intro E; discriminate. Qed.
Lemma ns_nu v : ns v -> nu v.
Proof. intros H E. subst. discriminate. Qed.

Lemma lookup_cls_In ct c k : lookup_cls ct c = Some k -> In k ct /\ c_id k = c.
Proof. unfold lookup_cls. intro H. apply find_some in H. destruct H as [H1 H2]. split; auto. now apply Nat.eqb_eq. Qed.
Lemma lookup_attr_In k a sp : lookup_attr k a = Some sp -> In sp (c_attrs k) /\ a_name sp = a.
Proof. unfold lookup_attr. intro H. apply find_some in H. destruct H as [H1 H2]. split; auto. now apply Nat.eqb_eq. Qed.

Lemma tgb_cls ct c k : tgb ct = true -> lookup_cls ct c = Some k -> cls_nsb k = true /\ cls_ownb k = true.
Proof.
  intros H Hk. destruct (lookup_cls_In _ _ _ Hk) as [Hin _]. unfold tgb in H. rewrite forallb_forall in H.
  specialize (H _ Hin). now apply andb_true_iff in H.
Qed.
Lemma tgb_owner ct c k : tgb ct = true -> lookup_cls ct c = Some k -> c_owner k = c.
Proof.
  intros H Hk. destruct (tgb_cls _ _ _ H Hk) as [_ H2]. destruct (lookup_cls_In _ _ _ Hk) as [_ Hid].
  unfold cls_ownb in H2. apply andb_true_iff in H2. destruct H2 as [H2 _]. apply Nat.eqb_eq in H2. congruence.
Qed.
Lemma tgb_owners ct c k sp : tgb ct = true -> lookup_cls ct c = Some k -> In sp (c_attrs k) ->
  a_owner sp = c \/ In (a_owner sp) (tl (c_mro k)).
Proof.
  intros H Hk Hsp. destruct (tgb_cls _ _ _ H Hk) as [_ H2]. destruct (lookup_cls_In _ _ _ Hk) as [_ Hid].
  unfold cls_ownb in H2. apply andb_true_iff in H2. destruct H2 as [_ H2]. rewrite forallb_forall in H2.
  specialize (H2 _ Hsp). apply orb_true_iff in H2. destruct H2 as [H2|H2].
  - left. apply Nat.eqb_eq in H2. congruence.
  - right. apply existsb_exists in H2. destruct H2 as [p [Hp E]]. apply Nat.eqb_eq in E. subst. exact Hp.
Qed.
Lemma tgb_spec ct c k sp : tgb ct = true -> lookup_cls ct c = Some k -> In sp (c_attrs k) ->
  ofn_ns (a_prepare sp) = true /\ nu (a_default sp).
Proof.
  intros H Hk Hsp. destruct (tgb_cls _ _ _ H Hk) as [H1 _]. unfold cls_nsb in H1.
  apply andb_true_iff in H1. destruct H1 as [H1 _]. rewrite forallb_forall in H1. specialize (H1 _ Hsp).
  apply andb_true_iff in H1. destruct H1. split; auto using nub_nu.
Qed.
Lemma tgb_override ct c k a v : tgb ct = true -> lookup_cls ct c = Some k -> assoc a (c_overrides k) = Some v -> nu v.
Proof.
  intros H Hk Ha. destruct (tgb_cls _ _ _ H Hk) as [H1 _]. unfold cls_nsb in H1.
  apply andb_true_iff in H1. destruct H1 as [_ H1]. rewrite forallb_forall in H1.
  unfold assoc in Ha. destruct (find (fun p : nat * val => fst p =? a) (c_overrides k)) as [[x y]|] eqn:F; [|discriminate].
  simpl in Ha. inversion Ha; subst. apply find_some in F. destruct F as [F _]. apply nub_nu. exact (H1 _ F).
Qed.

(* ------------------------------------------------------------------ *)
(** * readers *)
Definition rdr {T} (m : M T) : Prop := forall s, snd (m s) = s.
Lemma rdr_ret {T} (a : T) : rdr (ret a).
Proof. intro s; reflexivity. Qed.
Lemma rdr_fail {T} e : rdr (@fail T e).
Proof. intro s; reflexivity. Qed.
Lemma rdr_bind {T U} (m : M T) (k : T -> M U) : rdr m -> (forall a, rdr (k a)) -> rdr (bind m k).
Proof. intros Hm Hk s. unfold bind. specialize (Hm s). destruct (m s) as [[a|e] s1]; simpl in *; subst; auto. apply Hk. Qed.
Lemma rdr_read l : rdr (read l).
Proof. intro s. unfold read. destruct (nth_error (heap s) l); reflexivity. Qed.
Lemma rdr_read_inst l : rdr (read_inst l).
Proof. unfold read_inst. apply rdr_bind; [apply rdr_read|]. intros [| | |]; auto using rdr_ret, rdr_fail. Qed.
Lemma rdr_cls_of ct c : rdr (cls_of ct c).
Proof. unfold cls_of. destruct (lookup_cls ct c); auto using rdr_ret, rdr_fail. Qed.

Lemma kj_rdr {T} ct (P : state -> Prop) (m : M T) : rdr m -> kj ct P m (fun a s => P s /\ fst (m s) = Ok a).
Proof.
  intros H s Ps. specialize (H s). destruct (m s) as [r s1] eqn:E. simpl in *. subst s1.
  split; [apply kext_refl|]. destruct r; auto. rewrite E. auto.
Qed.
Lemma kv_rdr {T} ct (m : M T) : rdr m -> kp ct m.
Proof. intros H s. rewrite (H s). split; [apply kext_refl|]. destruct (fst (m s)); auto. Qed.

(* ------------------------------------------------------------------ *)
(** * callbacks and deep copy *)
Section Copy.
  Variable ct : ctable.
  Local Notation KV := (kv ct).
  Local Notation KP := (kp ct).

  Lemma kv_check_typeM v t : KP (check_typeM ct v t).
  Proof. unfold check_typeM. kgo. Qed.
  Lemma kv_val_eqM x y : KP (val_eqM ct x y).
  Proof. unfold val_eqM. kgo. Qed.

  (* read cell l, then write it back with an object of the same kind *)
  Lemma kp_rw {T} l (K : obj -> M T) :
    (forall o, kj ct (fun s => nth_error (heap s) l = Some o) (K o) (fun _ _ => True)) -> KP (o <- read l ;; K o).
  Proof.
    intros H s.
    assert (J : kj ct (fun _ => True) (o <- read l ;; K o) (fun _ _ => True)).
    { eapply kj_bind; [apply kj_read|]. intros o. eapply kj_pre; [apply H|]. intros s0 [_ H0]; exact H0. }
    destruct (J s I) as [E Q]. split; [exact E|]. destruct (fst _); exact I.
  Qed.
  Lemma kj_write_then {T} l o0 o (k : M T) :
    kcell ct o0 o -> KP k ->
    kj ct (fun s => nth_error (heap s) l = Some o0) (write l o ;;; k) (fun _ _ => True).
  Proof.
    intros K Hk. eapply kj_bind; [apply kj_write; exact K|]. intros ?.
    eapply kj_conseq; [apply (kj_of_kp ct k (fun _ => True)); [exact Hk|apply stable_const]| |]; simpl; auto.
  Qed.

  Lemma kv_apply_fn f v : KV (apply_fn f v) (fun r => fn_ns f = true -> r = v \/ ns r).
  Proof.
    unfold apply_fn. eapply kv_bind; [apply kv_tick|]. intros _ _. destruct f; simpl.
    - apply kv_ret; auto.
    - destruct v; try apply kv_fail; apply kv_ret; right; reflexivity.
    - destruct v0; try apply kv_fail; apply kv_ret; intros H; right; unfold ns; simpl in *;
        try reflexivity; discriminate.
    - eapply kv_bind; [apply kv_alloc|]. intros; apply kv_ret; right; reflexivity.
    - destruct v; try apply kv_fail. eapply kv_bind; [apply kv_read|]. intros o _.
      destruct o; try apply kv_fail. eapply kv_bind; [apply kv_alloc|]. intros; apply kv_ret; right; reflexivity.
    - eapply kv_bind; [apply kv_alloc|]. intros; apply kv_ret; right; reflexivity.
    - apply kv_fail.
  Qed.
  Lemma kp_apply_fn f v : KP (apply_fn f v).
  Proof. eapply kp_of_kv. apply kv_apply_fn. Qed.

  (* the copy of a reference is a reference; anything else is returned as it is *)
  Definition same_kind (v r : val) : Prop :=
    match v with VRef _ => exists l', r = VRef l' | _ => r = v end.

  Lemma same_kind_nu v r : same_kind v r -> nu v -> nu r.
  Proof. destruct v; simpl; intros H N; subst; auto. destruct H as [l' ->]. discriminate. Qed.
  Lemma same_kind_missing v r : same_kind v r -> is_missing r = is_missing v.
  Proof. destruct v; simpl; intros H; subst; auto. destruct H as [l' ->]. reflexivity. Qed.
  Lemma same_kind_ns v r : same_kind v r -> ns v -> ns r.
  Proof. destruct v; simpl; intros H N; subst; auto. destruct H as [l' ->]. reflexivity. Qed.

  Lemma dc_kv fuel : forall v memo, KV (dc ct fuel v memo) (fun r => same_kind v (fst r)).
  Proof.
    induction fuel as [|f IH]; intros v memo; simpl; [apply kv_fail|].
    destruct v; try (apply kv_ret; reflexivity).
    destruct (assoc l memo) as [l'|]; [apply kv_ret; simpl; eauto|].
    eapply kv_bind; [apply kv_read|]. intros o _. destruct o as [xs|kvs|xs|c d].
    - eapply kv_bind; [apply kv_alloc|]. intros l' _.
      eapply kv_bind with (Q := fun _ => True); [|intros; apply kv_ret; simpl; eauto].
      apply kv_foldM with (P := fun _ => True); auto. intros m x _ _.
      eapply kv_bind; [apply IH|]. intros r _.
      apply kp_rw. intros o'. destruct o'; try apply kj_fail.
      apply kj_write_then; [exact I|apply kv_ret; exact I].
    - eapply kv_bind; [apply kv_alloc|]. intros l' _.
      eapply kv_bind with (Q := fun _ => True); [|intros; apply kv_ret; simpl; eauto].
      apply kv_foldM with (P := fun _ => True); auto. intros m p _ _.
      eapply kv_bind; [apply IH|]. intros rk _. eapply kv_bind; [apply IH|]. intros rv _.
      apply kp_rw. intros o'. destruct o'; try apply kj_fail.
      apply kj_write_then; [exact I|apply kv_ret; exact I].
    - eapply kv_bind with (Q := fun _ => True).
      + apply kv_foldM with (P := fun _ => True); auto. intros acc x _ _.
        eapply kv_bind; [apply IH|]. intros; apply kv_ret; exact I.
      + intros r _. eapply kv_bind; [apply kv_alloc|]. intros; apply kv_ret; simpl; eauto.
    - destruct (lookup_cls ct c) as [k|]; [|apply kv_fail].
      destruct (c_dnc k); [apply kv_ret; simpl; eauto|].
      eapply kv_bind; [apply kv_alloc|]. intros new _.
      eapply kv_bind with (Q := fun _ => True).
      + apply kv_foldM with (P := fun _ => True); auto. intros m [a x] _ _.
        eapply kv_bind with (Q := fun _ => True).
        * destruct (lookup_attr k a) as [sp|]; [destruct (a_dnc sp); [apply kv_ret; exact I|]|];
            (destruct (val_is_scalar x); [apply kv_ret; exact I|eapply kp_of_kv; apply IH]).
        * intros r _. apply kp_rw. intros o'. destruct o' as [| | |c' d']; try apply kj_fail.
          apply kj_write_then; [|apply kv_ret; exact I].
          simpl. eexists. split; [reflexivity|]. intros a0 _. apply assoc_app_keeps.
      + intros memo' _. eapply kv_bind with (Q := fun _ => True).
        * destruct (c_post_copy k); [|apply kv_ret; exact I].
          eapply kv_bind; [apply kp_apply_fn|]. intros; apply kv_ret; exact I.
        * intros _ _. apply kv_ret. simpl. eauto.
  Qed.

  Lemma deepcopy_kv v : KV (deepcopy ct v) (same_kind v).
  Proof. unfold deepcopy. eapply kv_bind; [apply dc_kv|]. intros r H. apply kv_ret. exact H. Qed.
  Lemma protect_kv v : KV (protect ct v) (same_kind v).
  Proof.
    unfold protect. destruct (val_is_scalar v) eqn:E; [|apply deepcopy_kv].
    apply kv_ret. destruct v; simpl in *; auto; discriminate.
  Qed.
  Lemma kp_deepcopy v : KP (deepcopy ct v).
  Proof. eapply kp_of_kv; apply deepcopy_kv. Qed.
  Lemma kp_protect v : KP (protect ct v).
  Proof. eapply kp_of_kv; apply protect_kv. Qed.
End Copy.
#[export] Hint Resolve kv_check_typeM kv_val_eqM kp_apply_fn kp_deepcopy kp_protect : kp.

(* ------------------------------------------------------------------ *)
(** * The recursive core *)
Definition mns (v : val) : Prop := is_missing v = true \/ ns v.
Lemma ns_mns v : ns v -> mns v.
Proof. intro H; right; exact H. Qed.
Lemma mns_ns v : mns v -> is_missing v = false -> ns v.
Proof. intros [H|H] E; [congruence|exact H]. Qed.

Lemma bind_ret_l' {A B} (a : A) (k : A -> M B) : bind (ret a) k = k a.
Proof. reflexivity. Qed.

Section Core.
  Variable ct : ctable.
  Variable rec : call -> M val.
  Local Notation KV := (kv ct).
  Local Notation KP := (kp ct).
  Local Notation KJ := (kj ct).
  Local Notation TT := (fun _ : state => True).

  (* __delattr__ with force=True is never issued by the library itself *)
  Definition callk (k : call) : Prop :=
    match k with KDelAttr _ _ force _ => force = false | _ => True end.

  (* defaulted, init-enabled attribute *)
  Definition keep_init (c : cid) (a : aid) : Prop :=
    a <> A_INITIALIZING /\
    exists k sp, lookup_cls ct c = Some k /\ lookup_attr k a = Some sp /\ has_default k sp = true /\ a_init sp = true.
  Lemma keep_init_keep c a : keep_init c a -> keep ct c a.
  Proof. intros [H (k & sp & H1 & H2 & H3 & _)]. split; eauto. Qed.

  (* instance l of class c holds every defaulted init-enabled attribute in its own dictionary *)
  Definition hd (l : loc) (c : cid) (s : state) : Prop :=
    isinst l c s /\ forall a, keep_init c a -> has l c a s.
  Lemma hd_stable l c : kstable ct (hd l c).
  Proof.
    intros s s' E [I H]. split; [eapply isinst_stable; eauto|].
    intros a K. eapply has_stable; [apply keep_init_keep; exact K|exact E|apply H; exact K].
  Qed.

  Definition prep_ns (p : prep) : Prop :=
    match p with PNone => True | PAttr f => fn_ns f = true | PItem _ _ => False end.
  (* the shape of the mutate_value call issued by prepare_attr_value *)
  Definition mv_ns (m : mv_args) : Prop :=
    mns (mv_old m) /\ nu (mv_new m) /\ prep_ns (mv_prepare m) /\ mv_transform m = None /\
    mv_attr_transforms m = [] /\ mv_ctor m <> None.

  Definition kpost (k : call) (r : val) (s : state) : Prop :=
    match k with
    | KConstruct c pos kw =>
        exists l, r = VRef l /\
          (tgb ct = true -> kw_nu kw -> match pos with Some v => nu v | None => True end -> hd l c s)
    | KMutateValue m => mv_ns m -> ns r
    | KSetAttr l a v _ _ => tgb ct = true -> nu v -> forall c, isinst l c s -> keep ct c a -> has l c a s
    | KInit pc self kw =>
        tgb ct = true -> kw_nu kw ->
        forall c k a sp, isinst self c s -> lookup_cls ct c = Some k -> lookup_attr k a = Some sp ->
          a <> A_INITIALIZING -> a_init sp = true -> has_default k sp = true ->
          (a_owner sp = pc \/ (c = pc /\ In (a_owner sp) (tl (c_mro k)))) -> has self c a s
    | KDelAttr _ _ _ _ => True
    end.

  Hypothesis Hrec : forall k, callk k -> KJ TT (rec k) (kpost k).

  Lemma rec_kp k : callk k -> KP (rec k).
  Proof. intros H s. destruct (Hrec k H s I) as [E _]. split; auto. destruct (fst (rec k s)); auto. Qed.
  Lemma rec_kv_construct c pos kw : KV (rec (KConstruct c pos kw)) (fun r => exists l, r = VRef l).
  Proof.
    intros s. destruct (Hrec (KConstruct c pos kw) I s I) as [E Q]. split; auto.
    destruct (fst (rec _ s)); auto. destruct Q as [l [-> _]]. eauto.
  Qed.

  (* ---------- reading ---------- *)
  Lemma kp_loc_of v : KP (loc_of v).
  Proof. destruct v; simpl; kgo. Qed.
  Lemma kp_loc_of_t v : KP (loc_of_t v).
  Proof. destruct v; simpl; kgo. Qed.
  Lemma kp_read_inst l : KP (read_inst l).
  Proof. apply kv_rdr. apply rdr_read_inst. Qed.
  Lemma kp_cls_of c : KP (cls_of ct c).
  Proof. apply kv_rdr. apply rdr_cls_of. Qed.
  Lemma kj_read_inst (P : state -> Prop) l :
    KJ P (read_inst l) (fun p s => P s /\ nth_error (heap s) l = Some (OInst (fst p) (snd p))).
  Proof.
    unfold read_inst. eapply kj_bind; [apply kj_read|]. intros o. destruct o; try apply kj_fail.
    apply kj_ret. auto.
  Qed.
  Lemma kj_cls_of (P : state -> Prop) c : KJ P (cls_of ct c) (fun k s => P s /\ lookup_cls ct c = Some k).
  Proof. unfold cls_of. destruct (lookup_cls ct c); [apply kj_ret; auto|apply kj_fail]. Qed.
  Lemma kv_cls_of c : KV (cls_of ct c) (fun k => lookup_cls ct c = Some k).
  Proof. unfold cls_of. destruct (lookup_cls ct c); [apply kv_ret; auto|apply kv_fail]. Qed.
  Lemma kp_getattr_default l a : KP (getattr_default ct l a).
  Proof.
    unfold getattr_default. apply kp_bind; [apply kp_read_inst|]. intros p.
    destruct (assoc a (snd p)); [kstep|]. apply kp_bind; [apply kp_cls_of|]. intros; kstep.
  Qed.
  Hint Resolve kp_loc_of kp_loc_of_t kp_read_inst kp_cls_of kp_getattr_default : kp.

  (* ---------- the instance dictionary ---------- *)
  Lemma raw_setattr_kj l a v c :
    KJ (isinst l c) (raw_setattr l a v) (fun _ s => has l c a s).
  Proof.
    intros s [d0 H0]. unfold raw_setattr, read_inst, bind, read. rewrite H0. simpl.
    unfold write. destruct (l <? length (heap s)) eqn:L; simpl; [|split; [apply kext_refl|exact I]].
    split.
    - eapply kext_write; [exact H0|]. simpl. eexists. split; [reflexivity|]. intros a0 _. apply assoc_set_keeps.
    - exists (assoc_set a v d0). split; [apply nth_error_set_nth_eq; now apply Nat.ltb_lt|apply assoc_set_has].
  Qed.
  Lemma kp_raw_setattr l a v : KP (raw_setattr l a v).
  Proof.
    intros s. unfold raw_setattr, read_inst, bind, read.
    destruct (nth_error (heap s) l) as [[| | |c d]|] eqn:H0; simpl; try (split; [apply kext_refl|exact I]).
    unfold write. destruct (l <? length (heap s)) eqn:L; simpl; [|split; [apply kext_refl|exact I]].
    split; [|exact I].
    eapply kext_write; [exact H0|]. simpl. eexists. split; [reflexivity|]. intros a0 _. apply assoc_set_keeps.
  Qed.
  (* removal of a key that is not a defaulted attribute of the instance's class *)
  Lemma raw_delattr_kj l a c :
    ~ keep ct c a -> KJ (isinst l c) (raw_delattr l a) (fun _ _ => True).
  Proof.
    intros NK s [d0 H0]. unfold raw_delattr, read_inst, bind, read. rewrite H0. simpl.
    destruct (assoc a d0); simpl; [|split; [apply kext_refl|exact I]].
    unfold write. destruct (l <? length (heap s)) eqn:L; simpl; [|split; [apply kext_refl|exact I]].
    split; [|exact I].
    eapply kext_write; [exact H0|]. simpl. eexists. split; [reflexivity|]. intros a0 K.
    apply assoc_del_keeps. intro E. subst. contradiction.
  Qed.
  Lemma kp_raw_delattr_init l : KP (raw_delattr l A_INITIALIZING).
  Proof.
    intros s. unfold raw_delattr, read_inst, bind, read.
    destruct (nth_error (heap s) l) as [[| | |c d]|] eqn:H0; simpl; try (split; [apply kext_refl|exact I]).
    destruct (assoc A_INITIALIZING d); simpl; [|split; [apply kext_refl|exact I]].
    unfold write. destruct (l <? length (heap s)) eqn:L; simpl; [|split; [apply kext_refl|exact I]].
    split; [|exact I].
    eapply kext_write; [exact H0|]. simpl. eexists. split; [reflexivity|]. intros a0 [K _].
    apply assoc_del_keeps. exact K.
  Qed.
  Hint Resolve kp_raw_setattr kp_raw_delattr_init : kp.

  Lemma kp_thawed {T} l thaw (m : M T) : KP m -> KP (thawed ct l thaw m).
  Proof.
    intro H. unfold thawed. apply kp_bind; [apply kv_read|]. intros o. destruct o; auto.
    apply kp_bind; [apply kp_cls_of|]. intros k. destruct (negb thaw || negb (c_frozen k) || initializing d); auto.
    apply kp_bind; [apply kp_raw_setattr|]. intros _. apply kv_finally; [exact H|apply kp_raw_delattr_init].
  Qed.
  Lemma kp_thawed_val {T} v thaw (m : M T) : KP m -> KP (thawed_val ct v thaw m).
  Proof. intro H. destruct v; simpl; auto. now apply kp_thawed. Qed.
  Lemma kj_thawed_false {T} (P : state -> Prop) l (m : M T) Q : KJ P m Q -> KJ P (thawed ct l false m) Q.
  Proof.
    intro H. unfold thawed. eapply kj_bind; [apply kj_read|]. intros o.
    assert (Hm : KJ (fun s => P s /\ nth_error (heap s) l = Some o) m Q).
    { eapply kj_pre; [exact H|]. intros s [Ps _]; exact Ps. }
    destruct o; auto. eapply kj_bind; [apply kj_cls_of|]. intros k. simpl.
    eapply kj_pre; [exact H|]. intros s [[Ps _] _]; exact Ps.
  Qed.

  Lemma kp_invalidate_attrs l a : KP (invalidate_attrs ct rec l a).
  Proof.
    unfold invalidate_attrs. apply kp_bind; [apply kp_read_inst|]. intros p.
    apply kp_bind; [apply kp_cls_of|]. intros k. cbv zeta. apply kv_iterM. intros sp _.
    kstep; [|kstep]. apply kv_catch; [|kstep].
    apply kp_bind; [apply rec_kp; reflexivity|]. intros; kstep.
  Qed.
  Hint Resolve kp_invalidate_attrs : kp.

  Lemma kp_mutate_attr l a v inplace tc force skip : KP (mutate_attr ct rec l a v inplace tc force skip).
  Proof.
    unfold mutate_attr. kstep; [kstep|].
    apply kp_bind; [apply kp_read_inst|]. intros p. apply kp_bind; [apply kp_cls_of|]. intros k.
    apply kp_bind; [kgo|]. intros _.
    apply kp_bind; [kgo|]. intros _. cbv zeta.
    apply kp_bind; [kgo|]. intros l'.
    apply kp_bind; [kgo|]. intros value'.
    apply kp_bind; [|intros; kstep].
    apply kp_thawed. apply kp_bind; [apply kp_raw_setattr|]. intros _. kgo.
  Qed.
  Hint Resolve kp_mutate_attr : kp.

  (* in place, with a value that is not a sentinel: the attribute is in the dictionary afterwards *)
  Lemma mutate_attr_kj l a v tc force skip c :
    ns v -> keep ct c a ->
    KJ (isinst l c) (mutate_attr ct rec l a v true tc force skip) (fun _ s => has l c a s).
  Proof.
    intros Hv Hk. unfold mutate_attr. rewrite Hv.
    eapply kj_bind; [apply kj_read_inst|]. intros p.
    eapply kj_bind; [apply kj_cls_of|]. intros k.
    eapply kj_bind with (Q := fun _ s => isinst l c s).
    { destruct (negb (force || initializing (snd p)) && true && c_frozen k); [apply kj_fail|].
      apply kj_ret. intros s [[H _] _]; exact H. }
    intros ?.
    eapply kj_bind with (Q := fun _ s => isinst l c s).
    { eapply kj_post; [apply kj_of_kp; [|apply isinst_stable]|auto].
      destruct (lookup_attr k a); [destruct tc|]; kgo. }
    intros ?. cbv zeta. cbn [orb negb andb]. rewrite !bind_ret_l'.
    eapply kj_bind with (Q := fun _ s => has l c a s); [|intros; apply kj_ret; auto].
    apply kj_thawed_false.
    eapply kj_bind; [apply raw_setattr_kj|]. intros ?.
    eapply kj_post; [apply kj_of_kp; [|apply has_stable; exact Hk]|auto].
    destruct skip; kgo.
  Qed.

  (* ---------- defaults ---------- *)
  Lemma run_factory_kv f : KV (run_factory rec f) (fun r => exists l, r = VRef l).
  Proof.
    unfold run_factory. eapply kv_bind; [apply kv_tick|]. intros _ _. destruct f;
      try (eapply kv_bind; [apply kv_alloc|]; intros; apply kv_ret; eauto).
    apply rec_kv_construct.
  Qed.

  (* what lookup_default_value returns: not MISSING when there is a default; never UNCHANGED *)
  Definition Qdef (k : cls) (sp : attr_spec) (d : val) : Prop :=
    (has_default k sp = true -> is_missing d = false) /\
    (tgb ct = true -> (exists c, lookup_cls ct c = Some k) -> In sp (c_attrs k) -> nu d).

  Lemma lookup_default_value_kv sp k : KV (lookup_default_value ct rec sp k) (Qdef k sp).
  Proof.
    unfold lookup_default_value, Qdef, has_default.
    destruct (assoc (a_name sp) (c_overrides k)) as [v|] eqn:Eo.
    - eapply kv_weaken; [apply protect_kv|]. intros r Hr. split.
      + intro H. rewrite (same_kind_missing _ _ Hr). now apply negb_true_iff.
      + intros Hg [c Hc] _. eapply same_kind_nu; [exact Hr|]. eapply tgb_override; eauto.
    - unfold default_value. destruct (a_factory sp) as [f|].
      + eapply kv_weaken; [apply run_factory_kv|]. intros r [l ->]. split; [reflexivity|]. intros; discriminate.
      + eapply kv_weaken; [apply protect_kv|]. intros r Hr. split.
        * intro H. rewrite (same_kind_missing _ _ Hr). now apply negb_true_iff.
        * intros Hg [c Hc] Hin. eapply same_kind_nu; [exact Hr|]. eapply tgb_spec; eauto.
  Qed.
  Lemma kp_lookup_default_value sp k : KP (lookup_default_value ct rec sp k).
  Proof. eapply kp_of_kv; apply lookup_default_value_kv. Qed.
  Hint Resolve kp_lookup_default_value : kp.

  Lemma instantiate_ty_kv t : KV (instantiate_ty rec t) ns.
  Proof.
    unfold instantiate_ty. destruct t; try (apply kv_ret; reflexivity); try apply kv_fail;
      try (eapply kv_bind; [apply kv_alloc|]; intros; apply kv_ret; reflexivity).
    eapply kv_weaken; [apply rec_kv_construct|]. intros r [l ->]. reflexivity.
  Qed.
  Lemma kp_instantiate_ty t : KP (instantiate_ty rec t).
  Proof. eapply kp_of_kv; apply instantiate_ty_kv. Qed.
  Lemma kp_rec_construct c pos kw : KP (rec (KConstruct c pos kw)).
  Proof. apply rec_kp. exact I. Qed.
  Hint Resolve kp_instantiate_ty kp_rec_construct : kp.

  Lemma kp_str_key v : KP (str_key_to_aid v).
  Proof. unfold str_key_to_aid. destruct v; kgo. Qed.
  Hint Resolve kp_str_key : kp.

  Lemma kp_prepare_item sp inst item : KP (prepare_item ct rec sp inst item).
  Proof. unfold prepare_item. kgo. Qed.
  Lemma kp_apply_xform x v : KP (apply_xform ct rec x v).
  Proof. unfold apply_xform. destruct x as [[f|] [[sp inst]|]]; kgo; apply kp_prepare_item. Qed.
  Hint Resolve kp_prepare_item kp_apply_xform : kp.

  Lemma kp_rec_setattr l a v f sk : KP (rec (KSetAttr l a v f sk)).
  Proof. apply rec_kp. exact I. Qed.
  Hint Resolve kp_rec_setattr : kp.

  (* ---------- mutate_value ---------- *)
  Lemma mutate_value_body_kv m : KV (mutate_value_body ct rec m) (fun r => mv_ns m -> ns r).
  Proof.
    unfold mutate_value_body. cbv zeta.
    set (use_new := negb (is_missing (mv_new m)) && negb (match mv_new m with VEmpty => true | _ => false end)).
    set (value0 := if use_new then mv_new m else if mv_replace m then VMissing else mv_old m).
    assert (H0 : mv_ns m -> mns value0).
    { intros (Ho & Hn & _). unfold value0, use_new.
      destruct (mv_new m); simpl; try (right; reflexivity); try (destruct (mv_replace m); [left; reflexivity|exact Ho]).
      exfalso; apply Hn; reflexivity. }
    eapply kv_bind with (Q := fun v1 => mv_ns m -> mns v1).
    { destruct (use_new || mv_replace m); [|apply kv_ret; exact H0].
      destruct (mv_prepare m) as [|f|sp inst] eqn:Ep.
      - apply kv_ret; exact H0.
      - eapply kv_weaken; [apply kv_apply_fn|]. intros r Hr Hm. pose proof Hm as Hm'.
        destruct Hm as (Ho & Hn & Hp & Hrest). rewrite Ep in Hp. simpl in Hp.
        destruct (Hr Hp) as [->|Hr']; [apply H0; exact Hm'|right; exact Hr'].
      - eapply kv_weaken; [apply kp_prepare_item|]. intros r _ (_ & _ & Hp & _). rewrite Ep in Hp. contradiction. }
    intros value1 H1. apply kv_bind with (Q := fun _ => True); [apply kv_get_heap|]. intros h _.
    eapply kv_bind with (Q := fun r : val * bool * list aid => mv_ns m -> ns (fst (fst r))).
    { assert (Hmiss : forall ctor,
        KV (match ctor with
            | CtorSpec c =>
                k <- cls_of ct c ;;
                let names := init_names k in
                let args := filter (fun p => existsb (fun n => n =? fst p) names
                                             && negb (is_missing (snd p)))
                                   (match mv_attrs m with Some l => l | None => [] end) in
                v <- rec (KConstruct c None args) ;;
                ret (v, true, match mv_attrs m with Some _ => names | None => [] end)
            | CtorTy t => v <- instantiate_ty rec t ;; ret (v, true, @nil aid)
            end) (fun r : val * bool * list aid => mv_ns m -> ns (fst (fst r)))).
      { intros [c|t].
        - eapply kv_bind; [apply kv_cls_of|]. intros k _. cbv zeta.
          eapply kv_bind; [apply rec_kv_construct|]. intros v [l ->]. apply kv_ret. reflexivity.
        - eapply kv_bind; [apply instantiate_ty_kv|]. intros v Hv. apply kv_ret. simpl. auto. }
      assert (Hplain : KV (ret (value1, mv_inplace m, @nil aid))
                          (fun r : val * bool * list aid => mv_ns m -> is_missing value1 = false -> ns (fst (fst r)))).
      { apply kv_ret. simpl. intros Hm E. apply mns_ns; auto. }
      destruct (mv_ctor m) as [ctor|] eqn:Ec.
      2:{ apply kv_ret. intros (_ & _ & _ & _ & _ & Hc). congruence. }
      assert (Hdict : KV
        (l <- loc_of value1 ;; o <- read l ;;
         match o with
         | ODict kvs =>
             kw <- mapM (fun p => a <- str_key_to_aid (fst p) ;; ret (a, snd p)) kvs ;;
             let merged := fold_left (fun acc p => assoc_set (fst p) (snd p) acc) kw
                                     (match mv_attrs m with Some l => l | None => [] end) in
             match ctor with
             | CtorSpec c => v <- rec (KConstruct c None merged) ;; ret (v, false, @nil aid)
             | CtorTy t => match merged with
                           | [] => v <- instantiate_ty rec t ;; ret (v, false, @nil aid)
                           | _ => fail TypeErr end
             end
         | _ => fail RuntimeErr end) (fun r : val * bool * list aid => mv_ns m -> ns (fst (fst r)))).
      { eapply kv_bind; [apply kp_loc_of|]. intros l0 _. eapply kv_bind; [apply kv_read|]. intros o _.
        destruct o as [|kvs| |]; try apply kv_fail.
        eapply kv_bind with (Q := fun _ => True).
        { apply kv_mapM. intros p _. kgo. }
        intros kw _. cbv zeta. destruct ctor as [c|t].
        - eapply kv_bind; [apply rec_kv_construct|]. intros v [l ->]. apply kv_ret. reflexivity.
        - destruct (fold_left _ kw _); [|apply kv_fail].
          eapply kv_bind; [apply instantiate_ty_kv|]. intros v Hv. apply kv_ret. simpl. auto. }
      destruct (mv_expected m) as [ety|].
      - match goal with |- kv _ (if ?c then _ else _) _ => destruct c end; [exact Hdict|].
        destruct (is_missing value1) eqn:Em; [apply Hmiss|].
        eapply kv_weaken; [exact Hplain|]. intros r Hr Hm. apply Hr; auto.
      - destruct (is_missing value1) eqn:Em; [apply Hmiss|].
        eapply kv_weaken; [exact Hplain|]. intros r Hr Hm. apply Hr; auto. }
    intros [[value2 safe2] used] H2. simpl in H2.
    eapply kv_bind with (Q := fun r : val * bool => mv_ns m -> ns (fst r)).
    { destruct (match mv_attrs m with Some l => l | None => [] end) as [|p0 attrs'] eqn:Ea; [apply kv_ret; exact H2|].
      assert (Hbody : KV
        (value3 <- (if safe2 then ret value2 else protect ct value2) ;;
         thawed_val ct value3 (negb (mv_inplace m))
           (iterM (fun p => if existsb (fun n => n =? fst p) used then ret tt
                            else if is_missing (snd p) then ret tt
                            else (l <- loc_of value3 ;;
                                  rec (KSetAttr l (fst p) (snd p) false false) ;;; ret tt))
                  (p0 :: attrs')) ;;;
         ret (value3, true)) (fun r : val * bool => mv_ns m -> ns (fst r))).
      { eapply kv_bind with (Q := fun v3 => mv_ns m -> ns v3).
        - destruct safe2; [apply kv_ret; exact H2|]. eapply kv_weaken; [apply protect_kv|].
          intros r Hr Hm. eapply same_kind_ns; eauto.
        - intros value3 H3. eapply kv_bind with (Q := fun _ => True).
          + apply kp_thawed_val. apply kv_iterM. intros p _. kgo.
          + intros _ _. apply kv_ret. exact H3. }
      destruct value2; try exact Hbody; apply kv_fail. }
    intros [value3 safe3] H3. simpl in H3.
    eapply kv_bind with (Q := fun v4 => mv_ns m -> ns v4).
    { destruct (mv_transform m) as [x|] eqn:Ex; [|apply kv_ret; exact H3].
      eapply kv_weaken; [apply kp_apply_xform|]. intros r _ (_ & _ & _ & Ht & _). congruence. }
    intros value4 H4.
    destruct (mv_attr_transforms m) as [|q0 ats] eqn:Eats; [apply kv_ret; exact H4|].
    eapply kv_weaken with (Q := fun _ => True); [|intros r _ (_ & _ & _ & _ & Ha & _); congruence].
    apply kp_bind; [destruct safe3; kgo|]. intros value5.
    apply kp_bind; [|intros; kgo].
    apply kp_thawed_val. apply kv_iterM. intros p _. kgo.
  Qed.

  Lemma mutate_value_kv m : KV (mutate_value ct rec m) (fun r => mv_ns m -> ns r).
  Proof.
    unfold mutate_value. destruct (mv_new m) eqn:E; try apply mutate_value_body_kv.
    apply kv_ret. intros (_ & Hn & _). exfalso. apply Hn. exact E.
  Qed.

  (* ---------- collections ---------- *)
  Lemma kp_of_kj {T} (m : M T) Q : KJ TT m Q -> KP m.
  Proof. intros H s. destruct (H s I) as [E _]. split; auto. destruct (fst (m s)); auto. Qed.
  Lemma kj_rdr_bind {T U} (P : state -> Prop) (m : M T) (k : T -> M U) Q :
    rdr m -> (forall a, KJ P (k a) Q) -> KJ P (bind m k) Q.
  Proof.
    intros Hm Hk. eapply kj_bind; [apply kj_rdr; exact Hm|]. intros a. eapply kj_pre; [apply Hk|].
    intros s [Ps _]; exact Ps.
  Qed.
  (* a judgement under a state-independent assumption *)
  Lemma kj_assume {T} (phi : Prop) (P : state -> Prop) (m : M T) Q :
    (phi -> KJ P m Q) -> KP m -> KJ P m (fun a s => phi -> Q a s).
  Proof.
    intros H Hp s Ps. split; [apply (Hp s)|]. destruct (fst (m s)) eqn:E; auto. intro Hphi.
    destruct (H Hphi s Ps) as [_ Q']. rewrite E in Q'. exact Q'.
  Qed.

  Lemma kj_read_list (P : state -> Prop) v :
    KJ P (read_list v) (fun p s => P s /\ nth_error (heap s) (fst p) = Some (OList (snd p))).
  Proof.
    intros s Ps. unfold read_list, loc_of_t, bind, read. destruct v; simpl; try (split; [apply kext_refl|exact I]).
    destruct (nth_error (heap s) l) as [[xs| | |]|] eqn:E; simpl; split; auto using kext_refl.
  Qed.
  Lemma kj_read_dict (P : state -> Prop) v :
    KJ P (read_dict v) (fun p s => P s /\ nth_error (heap s) (fst p) = Some (ODict (snd p))).
  Proof.
    intros s Ps. unfold read_dict, loc_of_t, bind, read. destruct v; simpl; try (split; [apply kext_refl|exact I]).
    destruct (nth_error (heap s) l) as [[|xs | |]|] eqn:E; simpl; split; auto using kext_refl.
  Qed.
  Lemma kj_read_set (P : state -> Prop) v :
    KJ P (read_set v) (fun p s => P s /\ nth_error (heap s) (fst p) = Some (OSet (snd p))).
  Proof.
    intros s Ps. unfold read_set, loc_of_t, bind, read. destruct v; simpl; try (split; [apply kext_refl|exact I]).
    destruct (nth_error (heap s) l) as [[| |xs|]|] eqn:E; simpl; split; auto using kext_refl.
  Qed.
  Lemma kp_read_list v : KP (read_list v).
  Proof. eapply kp_of_kj. apply kj_read_list. Qed.
  Lemma kp_read_dict v : KP (read_dict v).
  Proof. eapply kp_of_kj. apply kj_read_dict. Qed.
  Lemma kp_read_set v : KP (read_set v).
  Proof. eapply kp_of_kj. apply kj_read_set. Qed.
  Hint Resolve kp_read_list kp_read_dict kp_read_set : kp.

  Lemma rdr_get_heap : rdr get_heap.
  Proof. intro s; reflexivity. Qed.
  Lemma rdr_dict_assign kvs k v : rdr (dict_assign ct kvs k v).
  Proof. unfold dict_assign. destruct (negb (hashable k)); [apply rdr_fail|]. apply rdr_bind; [apply rdr_get_heap|]. intros; apply rdr_ret. Qed.
  Lemma rdr_set_mem xs v : rdr (set_mem ct xs v).
  Proof. unfold set_mem. destruct (negb (hashable v)); [apply rdr_fail|]. apply rdr_bind; [apply rdr_get_heap|]. intros; apply rdr_ret. Qed.
  Lemma rdr_set_discard xs v : rdr (set_discard ct xs v).
  Proof. unfold set_discard. destruct (negb (hashable v)); [apply rdr_fail|]. apply rdr_bind; [apply rdr_get_heap|]. intros; apply rdr_ret. Qed.

  Lemma kp_find_eq_index xs v : KP (find_eq_index ct xs v).
  Proof. unfold find_eq_index. kgo. Qed.
  Lemma kp_dict_lookup kvs k : KP (dict_lookup ct kvs k).
  Proof. unfold dict_lookup. kgo. Qed.
  Lemma kp_set_mem xs v : KP (set_mem ct xs v).
  Proof. apply kv_rdr. apply rdr_set_mem. Qed.
  Lemma kp_set_discard xs v : KP (set_discard ct xs v).
  Proof. apply kv_rdr. apply rdr_set_discard. Qed.
  Hint Resolve kp_find_eq_index kp_dict_lookup kp_set_mem kp_set_discard : kp.

  Lemma kp_seq_extractor sp coll voi r bi : KP (seq_extractor ct sp coll voi r bi).
  Proof. unfold seq_extractor. kgo. Qed.
  Lemma kp_map_extractor coll key r : KP (map_extractor ct coll key r).
  Proof. unfold map_extractor. kgo. Qed.
  Lemma kp_set_extractor coll voi r : KP (set_extractor ct coll voi r).
  Proof. unfold set_extractor. kgo. Qed.
  Hint Resolve kp_seq_extractor kp_map_extractor kp_set_extractor : kp.

  Lemma kj_write_list (P : state -> Prop) l xs ys :
    KJ (fun s => P s /\ nth_error (heap s) l = Some (OList xs)) (write l (OList ys)) (fun _ _ => True).
  Proof. eapply kj_conseq; [apply kj_write with (o0 := OList xs); exact I|intros s [_ H]; exact H|intros; exact I]. Qed.

  Lemma kp_seq_inserter sp coll index item ins : KP (seq_inserter ct sp coll index item ins).
  Proof.
    unfold seq_inserter. apply kp_bind; [apply kv_check_typeM|]. intros ok. destruct (negb ok); [apply kv_fail|].
    eapply kp_of_kj. eapply kj_bind; [apply kj_read_list|]. intros p.
    destruct index; try apply kj_fail; cbv zeta.
    - apply kj_write_list.
    - destruct ins; [apply kj_write_list|]. destruct (norm_index _ _); [apply kj_write_list|apply kj_fail].
    - destruct ins; [apply kj_write_list|]. destruct (norm_index _ _); [apply kj_write_list|apply kj_fail].
  Qed.
  Lemma kp_map_inserter sp coll key item : KP (map_inserter ct sp coll key item).
  Proof.
    unfold map_inserter. apply kp_bind; [apply kv_check_typeM|]. intros okk. destruct (negb okk); [apply kv_fail|].
    apply kp_bind; [apply kv_check_typeM|]. intros ok. destruct (negb ok); [apply kv_fail|].
    eapply kp_of_kj. eapply kj_bind; [apply kj_read_dict|]. intros p.
    apply kj_rdr_bind; [apply rdr_dict_assign|]. intros kvs.
    eapply kj_conseq; [apply kj_write with (o0 := ODict (snd p)); exact I|intros s [_ H]; exact H|intros; exact I].
  Qed.
  Lemma kp_set_inserter sp coll index item : KP (set_inserter ct sp coll index item).
  Proof.
    unfold set_inserter. apply kp_bind; [apply kv_check_typeM|]. intros ok. destruct (negb ok); [apply kv_fail|].
    eapply kp_of_kj. eapply kj_bind; [apply kj_read_set|]. intros p.
    apply kj_rdr_bind; [destruct (negb (is_missing index)); [apply rdr_set_discard|apply rdr_ret]|]. intros xs1.
    apply kj_rdr_bind; [apply rdr_set_mem|]. intros b0.
    eapply kj_conseq; [apply kj_write with (o0 := OSet (snd p)); exact I|intros s [_ H]; exact H|intros; exact I].
  Qed.
  Hint Resolve kp_seq_inserter kp_map_inserter kp_set_inserter : kp.

  Lemma create_collection_kv sp : KV (create_collection rec sp) ns.
  Proof. unfold create_collection. apply instantiate_ty_kv. Qed.
  Lemma kp_create_collection sp : KP (create_collection rec sp).
  Proof. eapply kp_of_kv; apply create_collection_kv. Qed.
  Lemma kp_rec_mv m : KP (rec (KMutateValue m)).
  Proof. apply rec_kp. exact I. Qed.
  Hint Resolve kp_create_collection kp_rec_mv : kp.

  Lemma mutate_collection_kv fam sp inst coll io :
    KV (mutate_collection ct rec fam sp inst coll io) (fun r => mns coll -> ns r).
  Proof.
    unfold mutate_collection.
    eapply kv_bind with (Q := fun c1 => mns coll -> ns c1).
    { destruct (is_missing coll) eqn:E.
      - eapply kv_weaken; [apply create_collection_kv|]. auto.
      - apply kv_ret. intro H. apply mns_ns; auto. }
    intros coll1 H1. apply kv_bind with (Q := fun _ => True); [destruct fam; kgo|]. intros ex _. cbv zeta.
    apply kv_bind with (Q := fun _ => True); [kgo|]. intros ni _.
    apply kv_bind with (Q := fun _ => True); [destruct fam; kgo|]. intros _ _. apply kv_ret. exact H1.
  Qed.
  Lemma kp_mutate_collection fam sp inst coll io : KP (mutate_collection ct rec fam sp inst coll io).
  Proof. eapply kp_of_kv; apply mutate_collection_kv. Qed.

  Lemma add_items_kv fam sp inst coll items : KV (add_items ct rec fam sp inst coll items) (fun r => ns coll -> ns r).
  Proof.
    unfold add_items. destruct items; try apply kv_fail.
    eapply kv_bind; [apply kv_read|]. intros o _.
    destruct fam, o; try apply kv_fail;
      (apply kv_foldM with (P := fun c => ns coll -> ns c); [|auto]; intros acc x _ Hacc;
       eapply kv_weaken; [apply mutate_collection_kv|]; intros r Hr Hc; apply Hr; apply ns_mns; auto).
  Qed.
  Lemma prepare_items_kv fam sp inst coll : KV (prepare_items ct rec fam sp inst coll) (fun r => ns coll -> ns r).
  Proof.
    unfold prepare_items. destruct fam.
    - eapply kv_bind; [apply kp_read_list|]. intros p _.
      apply kv_foldM with (P := fun c => ns coll -> ns c); [|auto]. intros acc x _ Hacc.
      eapply kv_weaken; [apply mutate_collection_kv|]. intros r Hr Hc. apply Hr. apply ns_mns. auto.
    - apply add_items_kv.
    - eapply kv_bind; [apply kp_read_set|]. intros p _.
      apply kv_foldM with (P := fun c => ns coll -> ns c); [|auto]. intros acc x _ Hacc.
      eapply kv_weaken; [apply mutate_collection_kv|]. intros r Hr Hc. apply Hr. apply ns_mns. auto.
  Qed.
  Lemma kp_truthy v : KP (truthy_collection v).
  Proof. unfold truthy_collection. destruct v; kgo. Qed.
  Hint Resolve kp_truthy : kp.

  Lemma coll_prepare_kv sp inst coll : KV (coll_prepare ct rec sp inst coll) (fun r => ns coll -> ns r).
  Proof.
    unfold coll_prepare. destruct (family_of (a_ty sp)) as [fam|]; [|apply kv_ret; auto].
    eapply kv_bind with (Q := fun c1 => ns coll -> ns c1).
    { destruct coll; try solve [apply kv_ret; auto]; (eapply kv_weaken; [apply create_collection_kv|]; auto). }
    intros coll1 H1. apply kv_bind with (Q := fun _ => True); [apply kv_check_typeM|]. intros ok _.
    destruct (negb ok).
    - eapply kv_bind; [apply create_collection_kv|]. intros fresh Hf.
      eapply kv_weaken; [apply add_items_kv|]. auto.
    - apply kv_bind with (Q := fun _ => True); [apply kp_truthy|]. intros t _.
      destruct (a_prepare_item sp); [|apply kv_ret; exact H1]. destruct t; [|apply kv_ret; exact H1].
      apply kv_bind with (Q := fun _ => True); [apply kp_loc_of|]. intros l _.
      apply kv_bind with (Q := fun _ => True); [apply kv_read|]. intros o _.
      apply kv_bind with (Q := fun _ => True); [apply kv_alloc|]. intros l' _.
      eapply kv_weaken; [apply prepare_items_kv|]. intros r Hr _. apply Hr. reflexivity.
  Qed.

  Lemma rec_kv_mv m : KV (rec (KMutateValue m)) (fun r => mv_ns m -> ns r).
  Proof.
    intros s. destruct (Hrec (KMutateValue m) I s I) as [E Q]. split; auto.
  Qed.

  Lemma prepare_attr_value_kv sp inst value attrs :
    KV (prepare_attr_value ct rec sp inst value attrs) (fun r => nu value -> ofn_ns (a_prepare sp) = true -> ns r).
  Proof.
    unfold prepare_attr_value.
    assert (Hgen : KV
      (v <- rec (KMutateValue
                  (mkmv VMissing value false
                        (match a_prepare sp with Some f => PAttr f | None => PNone end)
                        attrs (Some (ctor_of_ty (a_ty sp))) (Some (a_ty sp)) None [] false)) ;;
       if ty_is_collection (a_ty sp) then coll_prepare ct rec sp inst v else ret v)
      (fun r => nu value -> ofn_ns (a_prepare sp) = true -> ns r)).
    { eapply kv_bind; [apply rec_kv_mv|]. intros v Hv.
      assert (Hv' : nu value -> ofn_ns (a_prepare sp) = true -> ns v).
      { intros Hn Hp. apply Hv. unfold mv_ns; simpl. split; [left; reflexivity|]. split; [exact Hn|].
        split; [destruct (a_prepare sp); simpl; auto|]. repeat split; auto. discriminate. }
      destruct (ty_is_collection (a_ty sp)); [|apply kv_ret; exact Hv'].
      eapply kv_weaken; [apply coll_prepare_kv|]. auto. }
    destruct value; try exact Hgen. apply kv_ret. intros H; exfalso; apply H; reflexivity.
  Qed.
  Lemma kp_prepare_attr_value sp inst value attrs : KP (prepare_attr_value ct rec sp inst value attrs).
  Proof. eapply kp_of_kv; apply prepare_attr_value_kv. Qed.
  Hint Resolve kp_prepare_attr_value kp_mutate_collection : kp.

  (* ---------- __delattr__ / __setattr__ ---------- *)
  Lemma kj_kp {T} (P : state -> Prop) (m : M T) : KP m -> KJ P m (fun _ _ => True).
  Proof. intros H s _. destruct (H s) as [E _]. split; auto. destruct (fst (m s)); auto. Qed.
  Lemma isinst_inj l c c' s : isinst l c s -> isinst l c' s -> c = c'.
  Proof. intros [d H] [d' H']. congruence. Qed.

  Lemma not_keep_none c k a : lookup_cls ct c = Some k -> lookup_attr k a = None -> ~ keep ct c a.
  Proof. intros Hk Ha [_ (k' & sp & H1 & H2 & _)]. congruence. Qed.
  Lemma not_keep_nodefault c k a sp :
    lookup_cls ct c = Some k -> lookup_attr k a = Some sp -> has_default k sp = false -> ~ keep ct c a.
  Proof. intros Hk Ha Hd [_ (k' & sp' & H1 & H2 & H3)]. congruence. Qed.

  Lemma kp_delattr l a skip : KP (delattr_ ct rec l a false skip).
  Proof.
    unfold delattr_. eapply kp_of_kj.
    eapply kj_bind; [apply kj_read_inst|]. intros p.
    eapply kj_bind; [apply kj_cls_of|]. intros k.
    apply kj_pre with (P := fun s => lookup_cls ct (fst p) = Some k /\ isinst l (fst p) s).
    2:{ intros s [[_ H] Hk]. split; auto. eexists; eauto. }
    apply kj_pure. intro Hk.
    eapply kj_bind with (Q := fun _ s => isinst l (fst p) s).
    { destruct (negb (false || initializing (snd p)) && c_frozen k); [apply kj_fail|apply kj_ret; auto]. }
    intros ?. change (if false then None else lookup_attr k a) with (lookup_attr k a).
    assert (Htail : ~ keep ct (fst p) a ->
              KJ (isinst l (fst p))
                 (raw_delattr l a ;;; (if skip then ret tt else invalidate_attrs ct rec l a) ;;; ret VNone)
                 (fun _ _ => True)).
    { intro NK. eapply kj_bind; [apply raw_delattr_kj; exact NK|]. intros ?. apply kj_kp. kgo. }
    destruct (lookup_attr k a) as [sp|] eqn:Ea.
    - eapply kj_bind; [apply kj_of_kv; [apply lookup_default_value_kv|apply isinst_stable]|]. intros d.
      apply kj_pure. intros [Hd _].
      destruct (is_missing d) eqn:Em.
      + apply Htail. apply (not_keep_nodefault _ k a sp Hk Ea).
        destruct (has_default k sp); [exact (Hd eq_refl)|reflexivity].
      + apply kj_kp. kgo.
    - apply Htail. eapply not_keep_none; eauto.
  Qed.

  Lemma setattr_kj l a v force skip :
    KJ TT (setattr_ ct rec l a v force skip) (kpost (KSetAttr l a v force skip)).
  Proof.
    unfold setattr_, kpost.
    eapply kj_bind; [apply kj_read_inst|]. intros p.
    eapply kj_bind; [apply kj_cls_of|]. intros k.
    apply kj_pre with (P := fun s => lookup_cls ct (fst p) = Some k /\ isinst l (fst p) s).
    2:{ intros s [[_ H] Hk]. split; auto. eexists; eauto. }
    apply kj_pure. intro Hk.
    eapply kj_bind with (Q := fun value s => (tgb ct = true -> nu v -> keep ct (fst p) a -> ns value) /\ isinst l (fst p) s).
    { destruct (lookup_attr k a) as [sp|] eqn:Ea.
      - eapply kj_post; [apply kj_of_kv; [apply prepare_attr_value_kv|apply isinst_stable]|].
        intros value s [Hq Hi]. split; auto. intros Hg Hn _. apply Hq; auto.
        destruct (lookup_attr_In _ _ _ Ea) as [Hin _]. eapply tgb_spec; eauto.
      - apply kj_ret. intros s Hi. split; auto. intros _ _ [_ (k' & sp' & H1 & H2 & _)]. congruence. }
    intros value. apply kj_pure. intro Hval.
    eapply kj_conseq with (P := fun s => isinst l (fst p) s /\ isinst l (fst p) s);
      [apply kj_frame with (F := isinst l (fst p));
         [apply isinst_stable|
          apply kj_assume with (phi := ns value /\ keep ct (fst p) a); [|apply kp_mutate_attr]]|auto|].
    { intros [H1 H2]. apply mutate_attr_kj; auto. }
    intros r s [Hpost Hi'] Hg Hn c Hi Hkeep.
    assert (c = fst p) by (eapply isinst_inj; eauto). subst c. apply Hpost. split; auto.
  Qed.

  Lemma kp_rec_init c l kw : KP (rec (KInit c l kw)).
  Proof. apply rec_kp. exact I. Qed.
  Hint Resolve kp_rec_init kp_delattr : kp.

  (* ---------- __init__ ---------- *)
  Lemma kp_init spec_cls self kw0 : KP (init_ ct rec spec_cls self kw0).
  Proof. unfold init_. kgo. Qed.

  (* InitMethod.init after the classes have been looked up (same text as in Model.init_) *)
  Definition kinit_tail (spec_cls : cid) (self : loc) (ks im : cls) (top : bool) (kw0 : list (aid * val)) : M val :=
    kw1 <- (if top then
              raw_setattr self A_INITIALIZING (VBool true) ;;;
              foldM (fun kw parent =>
                       pk <- cls_of ct parent ;;
                       r <- foldM (fun acc psp =>
                                     let '(pkw, kw') := acc in
                                     match lookup_attr im (a_name psp) with
                                     | None => ret acc
                                     | Some isp =>
                                         if negb (a_owner isp =? parent) then ret acc
                                         else match assoc (a_name psp) kw' with
                                              | Some v =>
                                                  v' <- (if a_dnc isp then ret v else protect ct v) ;;
                                                  ret (pkw ++ [(a_name psp, v')], assoc_del (a_name psp) kw')
                                              | None =>
                                                  d <- lookup_default_value ct rec isp im ;;
                                                  if is_missing d then ret acc
                                                  else ret (pkw ++ [(a_name psp, d)], kw')
                                              end
                                     end)
                                  (c_attrs pk) ([], kw) ;;
                       let '(pkw, kw') := r in
                       let pkw' := match c_key pk with
                                   | Some ka => if kw_has ka pkw then pkw else pkw ++ [(ka, VMissing)]
                                   | None => pkw end in
                       rec (KInit parent self pkw') ;;; ret kw')
                    (rev (tl (c_mro ks))) kw0
            else ret kw0) ;;
    iterM (fun sp =>
             if negb (a_init sp) || negb (a_owner sp =? spec_cls) then ret tt else
             r <- (match assoc (a_name sp) kw1 with
                   | Some v => if is_missing v then (d <- lookup_default_value ct rec sp im ;; ret (d, false))
                               else ret (v, top && negb (a_dnc sp))
                   | None => d <- lookup_default_value ct rec sp im ;; ret (d, false) end) ;;
             let '(value, copy_required) := r in
             if is_missing value then ret tt else
             value' <- (if copy_required then protect ct value else ret value) ;;
             rec (KSetAttr self (a_name sp) value' true true) ;;; ret tt)
          (c_attrs im) ;;;
    (if top then
       (match c_post_init im with
        | Some g => apply_fn g VNone ;;; ret tt
        | None => ret tt end) ;;;
       raw_delattr self A_INITIALIZING
     else ret tt) ;;;
    ret VNone.

  Lemma kinit_unfold spec_cls self kw0 :
    init_ ct rec spec_cls self kw0 =
    (ks <- cls_of ct spec_cls ;;
     if negb (init_wrapper_ok ks kw0) then fail TypeErr else
     p <- read_inst self ;; im <- cls_of ct (fst p) ;;
     kinit_tail spec_cls self ks im (c_owner im =? spec_cls) kw0).
  Proof. reflexivity. Qed.

  (* the defaulted init-enabled attributes owned by one of `owners` are in the dictionary of self *)
  Definition HP (self : loc) (c : cid) (k : cls) (owners : cid -> Prop) (s : state) : Prop :=
    forall a sp, lookup_attr k a = Some sp -> a <> A_INITIALIZING -> a_init sp = true ->
                 has_default k sp = true -> owners (a_owner sp) -> has self c a s.
  Lemma HP_stable self c k owners : lookup_cls ct c = Some k -> kstable ct (HP self c k owners).
  Proof.
    intros Hk s s' E H a sp H1 H2 H3 H4 H5. eapply has_stable; [|exact E|eapply H; eauto].
    split; auto. exists k, sp. auto.
  Qed.

  Lemma kw_nu_app kw a v : kw_nu kw -> nu v -> kw_nu (kw ++ [(a, v)]).
  Proof. intros H Hv. apply Forall_app. split; [exact H|]. constructor; [exact Hv|constructor]. Qed.
  Lemma kw_nu_del kw a : kw_nu kw -> kw_nu (assoc_del a kw).
  Proof.
    intros H. unfold kw_nu, assoc_del in *. rewrite Forall_forall in *. intros p Hp.
    apply filter_In in Hp. destruct Hp; auto.
  Qed.
  Lemma kw_nu_assoc kw a v : kw_nu kw -> assoc a kw = Some v -> nu v.
  Proof.
    unfold assoc. intros H E.
    destruct (find (fun p : nat * val => fst p =? a) kw) as [[x y]|] eqn:F; simpl in E; [|discriminate].
    inversion E; subst. apply find_some in F. destruct F as [F _]. unfold kw_nu in H.
    rewrite Forall_forall in H. exact (H _ F).
  Qed.

  Section InitTail.
    Variables (spec_cls : cid) (self : loc) (ks im : cls) (c : cid) (kw0 : list (aid * val)).
    Hypothesis Hg : tgb ct = true.
    Hypothesis Hks : lookup_cls ct spec_cls = Some ks.
    Hypothesis Him : lookup_cls ct c = Some im.
    Hypothesis Hkw : kw_nu kw0.

    Let top := c_owner im =? spec_cls.
    Let HP1 := HP self c im (fun o => top = true /\ In o (tl (c_mro ks))).
    Let F1 := fun s => isinst self c s /\ HP1 s.

    Lemma F1_stable : kstable ct F1.
    Proof. apply stable_and; [apply isinst_stable|apply HP_stable; exact Him]. Qed.

    Lemma phase1_kj :
      KJ (isinst self c)
         (if top then
            raw_setattr self A_INITIALIZING (VBool true) ;;;
            foldM (fun kw parent =>
                     pk <- cls_of ct parent ;;
                     r <- foldM (fun acc psp =>
                                   let '(pkw, kw') := acc in
                                   match lookup_attr im (a_name psp) with
                                   | None => ret acc
                                   | Some isp =>
                                       if negb (a_owner isp =? parent) then ret acc
                                       else match assoc (a_name psp) kw' with
                                            | Some v =>
                                                v' <- (if a_dnc isp then ret v else protect ct v) ;;
                                                ret (pkw ++ [(a_name psp, v')], assoc_del (a_name psp) kw')
                                            | None =>
                                                d <- lookup_default_value ct rec isp im ;;
                                                if is_missing d then ret acc
                                                else ret (pkw ++ [(a_name psp, d)], kw')
                                            end
                                   end)
                                (c_attrs pk) ([], kw) ;;
                     let '(pkw, kw') := r in
                     let pkw' := match c_key pk with
                                 | Some ka => if kw_has ka pkw then pkw else pkw ++ [(ka, VMissing)]
                                 | None => pkw end in
                     rec (KInit parent self pkw') ;;; ret kw')
                  (rev (tl (c_mro ks))) kw0
          else ret kw0)
         (fun kw1 s => kw_nu kw1 /\ F1 s).
    Proof.
      destruct top eqn:Et.
      2:{ apply kj_ret. intros s Hi. split; [exact Hkw|]. split; [exact Hi|].
          intros a sp _ _ _ _ [E _]. discriminate. }
      eapply kj_bind; [apply kj_of_kp; [apply kp_raw_setattr|apply isinst_stable]|]. intros ?.
      set (Inv := fun (done : list cid) (kw : list (aid * val)) (s : state) =>
                    kw_nu kw /\ isinst self c s /\ HP self c im (fun o => In o done) s).
      eapply kj_conseq; [apply (kj_foldM ct _ Inv) with (done := [])| |].
      - (* one parent *)
        intros done kw parent.
        assert (StF : kstable ct (fun s => isinst self c s /\ HP self c im (fun o => In o done) s)).
        { apply stable_and; [apply isinst_stable|apply HP_stable; exact Him]. }
        apply kj_pre with (P := fun s => kw_nu kw /\ (isinst self c s /\ HP self c im (fun o => In o done) s)).
        2:{ intros s (A & B & C). auto. }
        apply kj_pure. intro Hkwn.
        eapply kj_bind; [apply kj_of_kv; [apply kv_cls_of|exact StF]|]. intros pk. apply kj_pure. intros _.
        eapply kj_bind.
        { apply kj_of_kv; [|exact StF].
          apply kv_foldM with (P := fun acc : list (aid * val) * list (aid * val) => kw_nu (fst acc) /\ kw_nu (snd acc));
            [|split; [constructor|exact Hkwn]].
          intros [pkw kw'] psp _ [Hp1 Hp2]. simpl in Hp1, Hp2.
          destruct (lookup_attr im (a_name psp)) as [isp|] eqn:Ei; [|apply kv_ret; split; auto].
          destruct (negb (a_owner isp =? parent)); [apply kv_ret; split; auto|].
          destruct (assoc (a_name psp) kw') eqn:Ea.
          - eapply kv_bind with (Q := nu).
            + destruct (a_dnc isp); [apply kv_ret; eapply kw_nu_assoc; eauto|].
              eapply kv_weaken; [apply protect_kv|]. intros r Hr. eapply same_kind_nu; eauto.
              eapply kw_nu_assoc; eauto.
            + intros v' Hv'. apply kv_ret. simpl. split; [apply kw_nu_app; auto|apply kw_nu_del; auto].
          - eapply kv_bind; [apply lookup_default_value_kv|]. intros d [_ Hd].
            destruct (is_missing d); apply kv_ret; simpl; split; auto.
            apply kw_nu_app; auto. apply Hd; eauto. eapply lookup_attr_In; eauto. }
        intros [pkw kw']. apply kj_pure. intros [Hp1 Hp2]. simpl in Hp1, Hp2. cbv zeta.
        set (pkw' := match c_key pk with
                     | Some ka => if kw_has ka pkw then pkw else pkw ++ [(ka, VMissing)]
                     | None => pkw end).
        assert (Hpkw' : kw_nu pkw').
        { unfold pkw'. destruct (c_key pk) as [ka|]; auto. destruct (kw_has ka pkw); auto. apply kw_nu_app; auto. discriminate. }
        eapply kj_bind.
        { eapply kj_pre; [apply kj_frame with (F := fun s => isinst self c s /\ HP self c im (fun o => In o done) s);
                            [exact StF|apply (Hrec (KInit parent self pkw') I)]|].
          intros s H; split; [exact I|exact H]. }
        intros ?. apply kj_ret. intros s [Hpost [Hi Hh]]. unfold Inv. split; [exact Hp2|]. split; [exact Hi|].
        intros a' sp H1 H2 H3 H4 H5. apply in_app_or in H5. destruct H5 as [H5|[H5|[]]].
        + eapply Hh; eauto.
        + simpl in Hpost. eapply (Hpost Hg Hpkw' c im a' sp); eauto.
      - intros s Hi. unfold Inv. split; [exact Hkw|]. split; [exact Hi|]. intros a' sp _ _ _ _ [].
      - intros kw1 s (A & B & C). simpl in C. split; [exact A|]. split; [exact B|].
        intros a' sp H1 H2 H3 H4 [_ H5]. eapply C; eauto. apply in_rev in H5. exact H5.
    Qed.

    Definition Inv2 (done : list attr_spec) (s : state) : Prop :=
      F1 s /\ forall sp, In sp done -> lookup_attr im (a_name sp) = Some sp -> a_name sp <> A_INITIALIZING ->
                         a_init sp = true -> a_owner sp = spec_cls -> has_default im sp = true ->
                         has self c (a_name sp) s.
    Lemma Inv2_stable done : kstable ct (Inv2 done).
    Proof.
      apply stable_and; [apply F1_stable|]. intros s s' E H sp H0 H1 H2 H3 H4 H5.
      eapply has_stable; [|exact E|eapply H; eauto]. split; auto. exists im, sp. auto.
    Qed.

    Lemma phase2_kj kw1 :
      kw_nu kw1 ->
      KJ F1
        (iterM (fun sp =>
             if negb (a_init sp) || negb (a_owner sp =? spec_cls) then ret tt else
             r <- (match assoc (a_name sp) kw1 with
                   | Some v => if is_missing v then (d <- lookup_default_value ct rec sp im ;; ret (d, false))
                               else ret (v, top && negb (a_dnc sp))
                   | None => d <- lookup_default_value ct rec sp im ;; ret (d, false) end) ;;
             let '(value, copy_required) := r in
             if is_missing value then ret tt else
             value' <- (if copy_required then protect ct value else ret value) ;;
             rec (KSetAttr self (a_name sp) value' true true) ;;; ret tt)
          (c_attrs im))
        (fun _ s => Inv2 (c_attrs im) s).
    Proof.
      intro Hkw1.
      assert (Hall : forall l done,
        (forall x, In x l -> In x (c_attrs im)) ->
        KJ (Inv2 done)
           (iterM (fun sp =>
             if negb (a_init sp) || negb (a_owner sp =? spec_cls) then ret tt else
             r <- (match assoc (a_name sp) kw1 with
                   | Some v => if is_missing v then (d <- lookup_default_value ct rec sp im ;; ret (d, false))
                               else ret (v, top && negb (a_dnc sp))
                   | None => d <- lookup_default_value ct rec sp im ;; ret (d, false) end) ;;
             let '(value, copy_required) := r in
             if is_missing value then ret tt else
             value' <- (if copy_required then protect ct value else ret value) ;;
             rec (KSetAttr self (a_name sp) value' true true) ;;; ret tt) l)
           (fun _ s => Inv2 (done ++ l) s)).
      2:{ eapply kj_conseq; [apply (Hall (c_attrs im) []); auto| |auto].
          intros s Hs. split; [exact Hs|]. intros sp []. }
      induction l as [|sp l IH]; intros done Hsub; simpl.
      { apply kj_ret. intros s Hs. rewrite app_nil_r. exact Hs. }
      eapply kj_bind with (Q := fun _ s => Inv2 (done ++ [sp]) s).
      2:{ intros ?. eapply kj_post; [apply IH; intros; apply Hsub; simpl; auto|].
          intros ? s Hs. rewrite <- app_assoc in Hs. exact Hs. }
      assert (Hspin : In sp (c_attrs im)) by (apply Hsub; simpl; auto).
      (* what has to be shown for the new element when nothing is written *)
      assert (Hskip : forall s, Inv2 done s ->
                (a_init sp = true -> a_owner sp = spec_cls -> has_default im sp = true -> False) ->
                Inv2 (done ++ [sp]) s).
      { intros s [Hf Hd] Hno. split; [exact Hf|]. intros sp' Hin H1 H2 H3 H4 H5.
        apply in_app_or in Hin. destruct Hin as [Hin|[<-|[]]]; [eapply Hd; eauto|]. exfalso; auto. }
      destruct (negb (a_init sp) || negb (a_owner sp =? spec_cls)) eqn:Ec.
      { apply kj_ret. intros s Hs. apply Hskip; auto. intros Hi Ho _.
        rewrite Hi, Ho, Nat.eqb_refl in Ec. discriminate. }
      eapply kj_bind.
      { apply kj_of_kv with (Q := fun r : val * bool => nu (fst r) /\ (has_default im sp = true -> is_missing (fst r) = false));
          [|apply Inv2_stable].
        assert (Hdf : KV (d <- lookup_default_value ct rec sp im ;; ret (d, false))
                         (fun r : val * bool => nu (fst r) /\ (has_default im sp = true -> is_missing (fst r) = false))).
        { eapply kv_bind; [apply lookup_default_value_kv|]. intros d [Hd1 Hd2]. apply kv_ret. simpl. split; auto.
          apply Hd2; eauto. }
        destruct (assoc (a_name sp) kw1) as [v|] eqn:Ea; [|exact Hdf].
        destruct (is_missing v) eqn:Emv; [exact Hdf|]. apply kv_ret. simpl. split; auto.
        eapply kw_nu_assoc; eauto. }
      intros [value cr]. apply kj_pure. intros [Hnu Hmiss]. simpl in Hnu, Hmiss.
      destruct (is_missing value) eqn:Emv.
      { apply kj_ret. intros s Hs. apply Hskip; auto. intros _ _ Hd. specialize (Hmiss Hd). congruence. }
      eapply kj_bind.
      { apply kj_of_kv with (Q := nu); [|apply Inv2_stable].
        destruct cr; [|apply kv_ret; exact Hnu].
        eapply kv_weaken; [apply protect_kv|]. intros r Hr. eapply same_kind_nu; eauto. }
      intros value'. apply kj_pure. intro Hnu'.
      eapply kj_bind.
      { eapply kj_pre; [apply kj_frame with (F := Inv2 done);
                          [apply Inv2_stable|apply (Hrec (KSetAttr self (a_name sp) value' true true) I)]|].
        intros s H; split; [exact I|exact H]. }
      intros ?. apply kj_ret. intros s [Hpost [Hf Hd]]. split; [exact Hf|].
      intros sp' Hin H1 H2 H3 H4 H5.
      apply in_app_or in Hin. destruct Hin as [Hin|[<-|[]]]; [eapply Hd; eauto|].
      simpl in Hpost. apply (Hpost Hg Hnu' c); [apply Hf|]. split; auto. exists im, sp. auto.
    Qed.

    Lemma init_tail_kj :
      KJ (isinst self c) (kinit_tail spec_cls self ks im top kw0)
         (fun _ s => HP self c im (fun o => o = spec_cls \/ (c = spec_cls /\ In o (tl (c_mro im)))) s).
    Proof.
      unfold kinit_tail. eapply kj_bind; [apply phase1_kj|]. intros kw1.
      apply kj_pure. intro Hkw1.
      eapply kj_bind; [apply phase2_kj; exact Hkw1|]. intros ?.
      eapply kj_bind with (Q := fun _ s => Inv2 (c_attrs im) s).
      { apply kj_of_kp; [|apply Inv2_stable]. kgo. }
      intros ?. apply kj_ret. intros s [[Hi Hh] Hd] a' sp H1 H2 H3 H4 [H5|[H5 H6]].
      - destruct (lookup_attr_In _ _ _ H1) as [Hin Hn]. subst a'. eapply Hd; eauto.
      - assert (Ht : top = true).
        { unfold top. rewrite (tgb_owner ct c im Hg Him). rewrite H5. apply Nat.eqb_refl. }
        assert (Hkk : ks = im) by (rewrite H5 in Him; congruence).
        eapply Hh; eauto. split; [exact Ht|]. rewrite Hkk. exact H6.
    Qed.
  End InitTail.

  Lemma init_kj spec_cls self kw0 :
    KJ TT (init_ ct rec spec_cls self kw0) (kpost (KInit spec_cls self kw0)).
  Proof.
    eapply kj_post with (Q := fun _ s => (tgb ct = true /\ kw_nu kw0) ->
        forall c k a sp, isinst self c s -> lookup_cls ct c = Some k -> lookup_attr k a = Some sp ->
          a <> A_INITIALIZING -> a_init sp = true -> has_default k sp = true ->
          (a_owner sp = spec_cls \/ (c = spec_cls /\ In (a_owner sp) (tl (c_mro k)))) -> has self c a s).
    2:{ intros r s H. simpl. intros Hg Hkw. apply H. auto. }
    apply kj_assume; [|apply kp_init]. intros [Hg Hkw].
    rewrite kinit_unfold.
    eapply kj_bind; [apply kj_cls_of|]. intros ks.
    destruct (negb (init_wrapper_ok ks kw0)); [apply kj_fail|].
    eapply kj_bind; [apply kj_read_inst|]. intros p.
    eapply kj_bind; [apply kj_cls_of|]. intros im.
    apply kj_pre with (P := fun s => (lookup_cls ct spec_cls = Some ks /\ lookup_cls ct (fst p) = Some im)
                                      /\ (isinst self (fst p) s /\ isinst self (fst p) s)).
    2:{ intros s [[[_ H1] H2] H3]. split; auto. split; eexists; eauto. }
    apply kj_pure. intros [Hks Him].
    eapply kj_post; [apply kj_frame with (F := isinst self (fst p));
                       [apply isinst_stable|apply (init_tail_kj spec_cls self ks im (fst p) kw0 Hg Hks Him Hkw)]|].
    intros r s [Hh Hi] c k a sp Hic Hk H1 H2 H3 H4 H5.
    assert (c = fst p) by (eapply isinst_inj; eauto). subst c.
    assert (k = im) by congruence. subst k. eapply Hh; eauto.
  Qed.

  (* ---------- the call C(pos, kw) ---------- *)
  Lemma construct_kj c pos kw :
    KJ TT (construct ct rec c pos kw) (kpost (KConstruct c pos kw)).
  Proof.
    unfold construct.
    eapply kj_bind; [apply kj_cls_of|]. intros k.
    apply kj_pre with (P := fun s => lookup_cls ct c = Some k /\ True); [|intros s [_ H]; auto].
    apply kj_pure. intro Hk.
    eapply kj_bind with (Q := fun kw' _ => kw_nu kw -> match pos with Some v => nu v | None => True end -> kw_nu kw').
    { destruct pos as [v|]; [|apply kj_ret; auto]. destruct (c_key k) as [ka|]; [|apply kj_fail].
      destruct (kw_has ka kw); [apply kj_fail|]. apply kj_ret. intros s _ H1 H2. constructor; auto. }
    intros kw'. apply kj_pre with (P := fun s => (kw_nu kw -> match pos with Some v => nu v | None => True end -> kw_nu kw') /\ True);
      [|intros s H; auto].
    apply kj_pure. intro Hkw'.
    eapply kj_bind with (Q := fun _ _ => True).
    { apply kj_kp. kgo. }
    intros ?. eapply kj_bind with (Q := fun _ _ => True).
    { apply kj_kp. kgo. }
    intros ?. eapply kj_bind; [apply kj_alloc; apply stable_const|]. intros l.
    apply kj_pre with (P := isinst l c); [|intros s [_ H]; eexists; eauto].
    eapply kj_bind.
    { eapply kj_pre; [apply kj_frame with (F := isinst l c);
                        [apply isinst_stable|apply (Hrec (KInit (c_owner k) l kw') I)]|].
      intros s H; split; [exact I|exact H]. }
    intros ?. apply kj_ret. intros s [Hpost Hi]. simpl. exists l. split; [reflexivity|].
    intros Hg Hn Hp. split; [exact Hi|]. intros a' [Ha (k' & sp & H1 & H2 & H3 & H4)].
    assert (k' = k) by congruence. subst k'.
    simpl in Hpost. apply (Hpost Hg (Hkw' Hn Hp) c k a' sp); auto.
    rewrite (tgb_owner ct c k Hg Hk).
    destruct (lookup_attr_In _ _ _ H2) as [Hin _].
    destruct (tgb_owners ct c k sp Hg Hk Hin) as [E|E]; auto.
  Qed.

  Theorem body_kj k : callk k -> KJ TT (body ct rec k) (kpost k).
  Proof.
    destruct k; simpl; intro H.
    - apply setattr_kj.
    - subst force. apply kj_kp. apply kp_delattr.
    - apply construct_kj.
    - apply init_kj.
    - eapply kj_conseq; [apply kj_of_kv with (F := TT); [apply mutate_value_kv|apply stable_const]|auto|].
      intros r s [Hq _]. exact Hq.
  Qed.
End Core.

Theorem exec_kj ct fuel : forall k, callk k -> kj ct (fun _ => True) (exec ct fuel k) (kpost ct k).
Proof.
  induction fuel as [|f IH]; intros k Hk.
  - simpl. apply kj_fail.
  - change (exec ct (S f) k) with (body ct (exec ct f) k). apply body_kj; auto.
Qed.

(* ------------------------------------------------------------------ *)
(** * The public operations *)
Section Ops.
  Variable ct : ctable.
  Notation rec := (exec ct XFUEL).
  Local Notation KP := (kp ct).
  Local Notation KJ := (kj ct).
  Let Hrec := exec_kj ct XFUEL.
  Local Opaque exec XFUEL.

  Local Hint Resolve (kp_loc_of ct) (kp_loc_of_t ct) (kp_read_inst ct) (kp_cls_of ct) (kp_getattr_default ct)
    (kp_raw_setattr ct) (kp_invalidate_attrs ct rec Hrec) (kp_mutate_attr ct rec Hrec)
    (kp_lookup_default_value ct rec Hrec) (kp_instantiate_ty ct rec Hrec) (kp_rec_construct ct rec Hrec)
    (kp_prepare_item ct rec Hrec) (kp_rec_setattr ct rec Hrec) (kp_read_list ct) (kp_read_dict ct) (kp_read_set ct)
    (kp_seq_extractor ct) (kp_map_extractor ct) (kp_set_extractor ct) (kp_create_collection ct rec Hrec)
    (kp_rec_mv ct rec Hrec) (kp_prepare_attr_value ct rec Hrec) (kp_mutate_collection ct rec Hrec)
    (kp_rec_init ct rec Hrec) (kp_set_discard ct) : kp.

  Lemma kp_rec_del l a skip : KP (rec (KDelAttr l a false skip)).
  Proof. apply (rec_kp ct rec Hrec). reflexivity. Qed.
  Local Hint Resolve kp_rec_del : kp.

  Lemma kp_spec_for l a : KP (spec_for ct l a).
  Proof. unfold spec_for. kgo. Qed.
  Lemma kp_mk_mutator sp l inplace : KP (mk_mutator ct sp l inplace).
  Proof. unfold mk_mutator. kgo. Qed.
  Lemma kp_current_value l sp inplace used : KP (current_value ct l sp inplace used).
  Proof. unfold current_value. kgo. Qed.
  Lemma kp_with_attr l sp new attrs inplace : KP (with_attr ct l sp new attrs inplace).
  Proof. unfold with_attr. kgo. Qed.
  Local Hint Resolve kp_spec_for kp_mk_mutator kp_current_value kp_with_attr : kp.

  Lemma kp_thawed' {T} l thaw (m : M T) : KP m -> KP (thawed ct l thaw m).
  Proof. apply kp_thawed. Qed.

  (* removal from the collection object just read *)
  Lemma kp_without_tail (sp : attr_spec) (c : val) (h : hargs) :
    KP (match family_of (a_ty sp) with
         | Some FSeq =>
             ex <- seq_extractor ct sp c (pos0 h) true (tri_of (h_by_index h)) ;;
             (match fst ex with
              | VNone => ret tt
              | VInt _ | VBool _ =>
                  let i := match fst ex with VInt z => z | VBool true => 1%Z | _ => 0%Z end in
                  p <- read_list c ;;
                  match norm_index (zlen (snd p)) i with
                  | Some n => write (fst p) (OList (remove_at n (snd p)))
                  | None => fail IndexErr end
              | _ => fail TypeErr end)
         | Some FMap =>
             ex <- map_extractor ct c (pos0 h) true ;;
             p <- read_dict c ;;
             h' <- get_heap ;;
             write (fst p) (ODict (filter (fun q => negb (val_eqb FUEL ct h' (fst q) (fst ex))) (snd p)))
         | Some FSet =>
             ex <- set_extractor ct c (pos0 h) true ;;
             p <- read_set c ;;
             xs <- set_discard ct (snd p) (fst ex) ;;
             write (fst p) (OSet xs)
         | None => fail AttrErr end).
  Proof.
    destruct (family_of (a_ty sp)) as [[| |]|]; [| | |apply kv_fail].
    - apply kp_bind; [apply kp_seq_extractor|]. intros ex.
      destruct (fst ex); try apply kv_fail; try (apply kv_ret; exact I); cbv zeta.
      + eapply kp_of_kj. eapply kj_bind; [apply kj_read_list|]. intros p.
        destruct (norm_index _ _); [apply kj_write_list|apply kj_fail].
      + eapply kp_of_kj. eapply kj_bind; [apply kj_read_list|]. intros p.
        destruct (norm_index _ _); [apply kj_write_list|apply kj_fail].
    - apply kp_bind; [apply kp_map_extractor|]. intros ex.
      eapply kp_of_kj. eapply kj_bind; [apply kj_read_dict|]. intros p.
      apply kj_rdr_bind; [apply rdr_get_heap|]. intros h'.
      eapply kj_conseq; [apply kj_write with (o0 := ODict (snd p)); exact I|intros s [_ H]; exact H|intros; exact I].
    - apply kp_bind; [apply kp_set_extractor|]. intros ex.
      eapply kp_of_kj. eapply kj_bind; [apply kj_read_set|]. intros p.
      apply kj_rdr_bind; [apply rdr_set_discard|]. intros xs.
      eapply kj_conseq; [apply kj_write with (o0 := OSet (snd p)); exact I|intros s [_ H]; exact H|intros; exact I].
  Qed.

  Theorem run_helper_kp l hp h : KP (run_helper ct l hp h).
  Proof.
    unfold run_helper. destruct (negb (h_if h)); [apply kv_ret; exact I|].
    destruct hp.
    - kgo.
    - destruct (pos0 h); kgo.
    - kgo.
    - apply kp_bind; [kgo|]. intros l'. apply kp_bind; [|intros; kgo]. apply kp_thawed. kgo.
    - kgo.
    - kgo.
    - kgo.
    - apply kp_bind; [kgo|]. intros r. cbv zeta. apply kp_bind; [kgo|]. intros c0.
      apply kp_bind; [kgo|]. intros c. apply kp_bind; [apply kp_without_tail|]. intros _. kgo.
    - kgo.
    - kgo.
    - apply kp_bind; [kgo|]. intros l'. apply kp_bind; [kgo|]. intros p. apply kp_bind; [kgo|]. intros k.
      apply kp_bind; [|intros; kgo]. apply kp_thawed. apply kv_iterM. intros sp _.
      apply kv_catch; kgo.
  Qed.

  (* every operation of `step`, whatever its arguments and outcome: no instance loses a defaulted attribute *)
  Theorem step_kext roots o s : kext ct s (snd (step ct roots o s)).
  Proof.
    assert (H : KP (step ct roots o)).
    { destruct o; simpl.
      - kgo.
      - kgo.
      - kgo.
      - apply kp_bind; [kgo|]. intros l. apply run_helper_kp.
      - kgo.
      - kgo. }
    apply (H s).
  Qed.

  (* a successful constructor call returns an instance holding every defaulted init-enabled attribute *)
  Theorem construct_holds c pos kw s r s' :
    tgb ct = true -> kw_nu kw -> match pos with Some v => nu v | None => True end ->
    exec ct XFUEL (KConstruct c pos kw) s = (Ok r, s') ->
    exists l, r = VRef l /\ hd ct l c s'.
  Proof.
    intros Hg Hkw Hpos Hrun. destruct (Hrec (KConstruct c pos kw) I s I) as [_ Q].
    rewrite Hrun in Q. simpl in Q. destruct Q as [l [-> H]]. exists l. split; auto.
  Qed.
End Ops.

(* ------------------------------------------------------------------ *)
(** * Histories *)
From SC Require Import Inst.SepProofs.

Definition op_nu (o : op) : Prop :=
  match o with
  | OpConstruct _ pos kw => kw_nu kw /\ match pos with Some v => nu v | None => True end
  | _ => True
  end.

Section History.
  Variable ct : ctable.

  Lemma run_ops_kext ops : forall s roots, kext ct s (fst (run_ops ct s roots ops)).
  Proof.
    induction ops as [|[o fa] t IH]; intros s roots; simpl; [apply kext_refl|].
    destruct (step ct roots o (mkst (heap s) 0 fa)) as [r s'] eqn:E.
    eapply kext_trans; [|apply IH]. eapply kext_trans; [apply (kext_heap ct s (mkst (heap s) 0 fa)); reflexivity|].
    pose proof (step_kext ct roots o (mkst (heap s) 0 fa)) as K. rewrite E in K. exact K.
  Qed.

  Lemma run_ops_roots ops : forall s roots x, x < length roots ->
    nth x (snd (run_ops ct s roots ops)) VNone = nth x roots VNone.
  Proof.
    induction ops as [|[o fa] t IH]; intros s roots x Hx; simpl; [reflexivity|].
    destruct (step ct roots o (mkst (heap s) 0 fa)) as [r s'].
    rewrite IH by (rewrite app_length; simpl; lia). apply app_nth1. exact Hx.
  Qed.

  (* over any history whatsoever (any operations, any arguments, failing steps included): a root
     produced by a constructor call holds every defaulted init-enabled attribute of its class in its
     own dictionary, at the end of the history *)
  Theorem ctor_roots_hold_defaults :
    tgb ct = true ->
    forall ops s roots, Forall (fun p => op_nu (fst p)) ops ->
    forall i c pos kw fa l,
      nth_error ops i = Some (OpConstruct c pos kw, fa) ->
      nth (length roots + i) (snd (run_ops ct s roots ops)) VNone = VRef l ->
      hd ct l c (fst (run_ops ct s roots ops)).
  Proof.
    intros Hg. induction ops as [|[o fa0] t IH]; intros s roots Hall i c pos kw fa l Hn Hr.
    { destruct i; discriminate. }
    inversion Hall as [|? ? Ho Ht]; subst. simpl in Ho.
    simpl in Hr |- *. destruct (step ct roots o (mkst (heap s) 0 fa0)) as [r s'] eqn:E.
    destruct i as [|i].
    - simpl in Hn. inversion Hn; subst o fa0. clear Hn.
      rewrite Nat.add_0_r in Hr. rewrite run_ops_roots in Hr by (rewrite app_length; simpl; lia).
      rewrite app_nth2 in Hr by lia. rewrite Nat.sub_diag in Hr. simpl in Hr.
      destruct r as [v|e]; [|discriminate]. subst v.
      simpl in E. destruct Ho as [Hkw Hpos].
      destruct (construct_holds ct c pos kw _ _ _ Hg Hkw Hpos E) as [l' [El H]]. inversion El; subst l'.
      eapply hd_stable; [apply run_ops_kext|exact H].
    - simpl in Hn. apply (IH s' _ Ht i c pos kw fa l Hn).
      rewrite app_length. simpl. rewrite <- Hr. f_equal. lia.
  Qed.
End History.

(* ------------------------------------------------------------------ *)
(** * The guard "no keyword is UNCHANGED" is necessary *)
(* class 2: xs : List[int] = [1] (the class-level default object is cell 0) *)
Definition exu_ct : ctable :=
  [mkcls 2 [mkattr 50 (TList TInt) (VRef 0) None 2 true false None None []]
         false false None [2] 2 [] None None].
Definition exu_s0 : state := mkst [OList [VInt 1]] 0 None.

(* C(xs=UNCHANGED) returns an instance WITHOUT xs in its dictionary (getattr falls back to the
   class attribute); with_x(5, _inplace=True) on it then writes the class-level default object
   itself (cell 0), which every later C() copies.  Reproduced on /repo. *)
Example unchanged_keyword_refuted :
  tgb exu_ct = true /\
  keep_init exu_ct 2 50 /\
  (let '(r, s1) := exec exu_ct XFUEL (KConstruct 2 None [(50, VUnchanged)]) exu_s0 in
   r = Ok (VRef 1) /\ nth_error (heap s1) 1 = Some (OInst 2 []) /\
   let '(r2, s2) := step exu_ct [VRef 0; VRef 1]
                         (OpHelper 1 (HWithItem 50) (mkh [VInt 5] true true VMissing false None None [] None)) s1 in
   r2 = Ok (VRef 1) /\ nth_error (heap s2) 0 = Some (OList [VInt 1; VInt 5])).
Proof.
  split; [reflexivity|]. split.
  - split; [discriminate|]. eexists. eexists. repeat split; reflexivity.
  - vm_compute. repeat split; reflexivity.
Qed.

(* without UNCHANGED the same class gets its own copy (cell 2) and the class-level object is left alone *)
Example construct_holds_nonvacuous :
  tgb exu_ct = true /\ keep_init exu_ct 2 50 /\
  (let '(r, s1) := exec exu_ct XFUEL (KConstruct 2 None []) exu_s0 in
   r = Ok (VRef 1) /\ nth_error (heap s1) 1 = Some (OInst 2 [(50, VRef 2)]) /\
   let '(r2, s2) := step exu_ct [VRef 0; VRef 1]
                         (OpHelper 1 (HWithItem 50) (mkh [VInt 5] true true VMissing false None None [] None)) s1 in
   r2 = Ok (VRef 1) /\ nth_error (heap s2) 0 = Some (OList [VInt 1]) /\
   nth_error (heap s2) 2 = Some (OList [VInt 1; VInt 5])).
Proof.
  split; [reflexivity|]. split.
  - split; [discriminate|]. eexists. eexists. repeat split; reflexivity.
  - vm_compute. repeat split; reflexivity.
Qed.
