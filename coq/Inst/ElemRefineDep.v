(* C06: the element-helper refinement theorems do not need a class without any
   invalidated_by: it is enough that NO attribute of the class names the edited
   attribute (or '*') in its invalidated_by.  This file restates the three base
   facts of RefineProofs.v / CopyProofs.v under that weaker condition. *)
From Coq Require Import List ZArith Bool Arith Lia.
From SC Require Import Base.Res Base.PyList Inst.Heap Inst.ClassTable Inst.Model Inst.Canon
  Inst.Abs Inst.SpecHelpers Inst.ElemProofs Inst.Framed Inst.RefineProofs Inst.CopyProofs.
Import ListNotations.
Open Scope nat_scope.

(* no attribute of class k is invalidated by attribute a *)
Definition dep_on (sp : attr_spec) (a : aid) : bool :=
  existsb (fun y => (y =? a) || (y =? 99)) (a_inv_by sp).
Definition no_depb (k : cls) (a : aid) : bool := forallb (fun sp => negb (dep_on sp a)) (c_attrs k).
Definition no_dep (k : cls) (a : aid) : Prop := forall sp, In sp (c_attrs k) -> dep_on sp a = false.

Lemma no_depb_sound k a : no_depb k a = true -> no_dep k a.
Proof.
  unfold no_depb, no_dep. rewrite forallb_forall. intros H sp Hsp. specialize (H sp Hsp). now apply negb_true_iff.
Qed.

Lemma no_inval_no_dep k a : no_inval k -> no_dep k a.
Proof. intros H sp Hsp. unfold dep_on. now rewrite (H sp Hsp). Qed.

Lemma dependants_nodep k a : no_dep k a -> dependants k a = [].
Proof.
  intro H. unfold dependants. unfold no_dep in H. revert H. generalize (c_attrs k). intro l.
  induction l as [|sp l IH]; intro H; cbn [filter map]; auto.
  assert (E : existsb (fun y => (y =? a) || (y =? WILDCARD)) (a_inv_by sp) = false) by (apply (H sp); simpl; auto).
  rewrite E. apply IH. intros; apply H; simpl; auto.
Qed.

Lemma inv_closure_nodep k a : no_dep k a -> forall fuel, inv_closure fuel k [a] [a] = [a].
Proof.
  intros H fuel. destruct fuel as [|f]; [reflexivity|]. cbn [inv_closure]. rewrite dependants_nodep by auto.
  cbn [filter app]. destruct f; reflexivity.
Qed.

Lemma invalidatees_nodep k a : no_dep k a -> invalidatees k a = [].
Proof.
  intro H. unfold invalidatees. cbn [inval_close].
  assert (E : forall l0, fold_left (fun l sp => if depends_on sp a && negb (in_names (a_name sp) ([a] ++ l))
                                               then l ++ [a_name sp] else l) (c_attrs k) l0 = l0).
  { unfold no_dep in H. revert H. generalize (c_attrs k). intro l. induction l as [|sp l IH]; intros H l0; cbn [fold_left]; auto.
    assert (depends_on sp a = false) as -> by (apply (H sp); simpl; auto).
    cbn [andb]. apply IH. intros; apply H; simpl; auto. }
  rewrite E. cbn [app]. destruct (length (c_attrs k)); reflexivity.
Qed.

Section RunStoreDep.
  Variable ct : ctable.
  Variable rec : call -> M val.

  Lemma invalidate_attrs_nodep l a s c d k :
    nth_error (heap s) l = Some (OInst c d) -> lookup_cls ct c = Some k -> no_dep k a ->
    invalidate_attrs ct rec l a s = (Ok tt, s).
  Proof.
    intros Hl Hc Hn. unfold invalidate_attrs.
    rewrite (bind_ok _ _ _ _ _ (read_inst_at l s c d Hl)). cbn [fst].
    rewrite (bind_ok _ _ _ _ _ (cls_of_at ct c s k Hc)).
    rewrite inv_closure_nodep by auto.
    apply iterM_ret_tt. intros sp _. simpl.
    destruct (a =? a_name sp) eqn:E; simpl; auto.
    apply Nat.eqb_eq in E. subst a. now rewrite Nat.eqb_refl.
  Qed.

  (* mutate_attr(obj, a, v, inplace=True) on an unfrozen instance whose attribute a invalidates nothing *)
  Lemma mutate_attr_inplace_run_nodep l a v tc s c d k :
    nth_error (heap s) l = Some (OInst c d) -> lookup_cls ct c = Some k -> c_frozen k = false ->
    is_sentinel v = false -> no_dep k a ->
    mutate_attr ct rec l a v true tc false false s =
    match (if tc then match lookup_attr k a with
                      | Some sp => check_type FUEL ct (heap s) v (a_ty sp)
                      | None => true end
           else true) with
    | true => (Ok (VRef l), upd s l (OInst c (assoc_set a v d)))
    | false => (Err TypeErr, s)
    end.
  Proof.
    intros Hl Hc Hf Hs Hn. unfold mutate_attr. rewrite Hs.
    rewrite (bind_ok _ _ _ _ _ (read_inst_at l s c d Hl)). cbn [fst snd].
    rewrite (bind_ok _ _ _ _ _ (cls_of_at ct c s k Hc)).
    rewrite Hf, andb_false_r. rewrite bind_ret.
    assert (Hlen : l < length (heap s)) by (apply nth_error_Some; congruence).
    assert (Hstore : forall s0, s0 = s ->
      (l' <- (if negb (true || c_dnc k) then v0 <- deepcopy ct (VRef l);; loc_of v0 else ret l);;
       value <- (if negb (true || c_dnc k) && same_object (assoc a d) v
                 then p' <- read_inst l';; ret match assoc a (snd p') with Some v' => v' | None => v end
                 else ret v);;
       thawed ct l' (negb (true || c_dnc k))
         (raw_setattr l' a value;;; (if false then ret tt else invalidate_attrs ct rec l' a));;;
       ret (VRef l')) s0 = (Ok (VRef l), upd s l (OInst c (assoc_set a v d)))).
    { intros s0 ->. cbn [orb negb andb]. rewrite !bind_ret.
      unfold bind at 1. rewrite (thawed_false ct l _ s c d k Hl Hc).
      rewrite (bind_ok _ _ _ _ _ (raw_setattr_at l a v s c d Hl)).
      rewrite (invalidate_attrs_nodep l a _ c (assoc_set a v d) k); auto.
      now apply upd_at. }
    destruct tc.
    - destruct (lookup_attr k a) as [sp|].
      + rewrite bind_assoc.
        rewrite (bind_ok (check_typeM ct v (a_ty sp)) _ s (check_type FUEL ct (heap s) v (a_ty sp)) s eq_refl).
        destruct (check_type FUEL ct (heap s) v (a_ty sp)).
        * rewrite bind_ret. now apply Hstore.
        * reflexivity.
      + rewrite bind_ret. now apply Hstore.
    - destruct (lookup_attr k a); rewrite bind_ret; now apply Hstore.
  Qed.

  Lemma thawed_store_run_nodep l' a v s c d k :
    nth_error (heap s) l' = Some (OInst c d) -> lookup_cls ct c = Some k -> no_dep k a ->
    assoc A_INITIALIZING d = None ->
    thawed ct l' true (raw_setattr l' a v ;;; invalidate_attrs ct rec l' a) s =
    (Ok tt, upd s l' (OInst c (stored (c_frozen k) a v d))).
  Proof.
    intros Hl Hc Hn Hi.
    assert (Hlen : l' < length (heap s)) by (apply nth_error_Some; congruence).
    assert (HM : forall d0, (raw_setattr l' a v ;;; invalidate_attrs ct rec l' a) (upd s l' (OInst c d0)) =
                            (Ok tt, upd s l' (OInst c (assoc_set a v d0)))).
    { intro d0.
      rewrite (bind_ok _ _ _ _ _ (raw_setattr_at l' a v _ c d0 (upd_at s l' _ Hlen))). rewrite upd_upd.
      apply (invalidate_attrs_nodep l' a _ c (assoc_set a v d0) k); auto. now apply upd_at. }
    unfold thawed. rewrite (bind_ok _ _ _ _ _ (read_run l' s _ Hl)).
    rewrite (bind_ok _ _ _ _ _ (cls_of_at ct c s k Hc)).
    unfold initializing. rewrite Hi. cbn [negb orb]. unfold stored.
    destruct (c_frozen k); cbn [negb orb].
    - rewrite (bind_ok _ _ _ _ _ (raw_setattr_at l' A_INITIALIZING (VBool true) s c d Hl)).
      unfold finally_. rewrite HM.
      assert (Hw : exists w, assoc A_INITIALIZING (assoc_set a v (assoc_set A_INITIALIZING (VBool true) d)) = Some w).
      { rewrite !assoc_assoc_set, Nat.eqb_refl. destruct (a =? A_INITIALIZING); eauto. }
      destruct Hw as [w Hw].
      rewrite (raw_delattr_at l' A_INITIALIZING _ c _ w (upd_at s l' _ Hlen) Hw). now rewrite upd_upd.
    - rewrite <- (upd_same s l' (OInst c d) Hl) at 1. apply HM.
  Qed.
End RunStoreDep.
