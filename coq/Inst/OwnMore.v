(* C03, ownership, part 8: update_<item> (in place and copy-on-write). *)
From Coq Require Import List ZArith Bool Arith Lia.
From SC Require Import Base.Res Base.PyList Inst.Heap Inst.ClassTable Inst.Model Inst.Framed
  Inst.TypeProofs Inst.OwnProofs Inst.OwnProofs2 Inst.OwnProofs3 Inst.OwnColl Inst.OwnCopy Inst.OwnCow.
Import ListNotations.
Open Scope nat_scope.
Set Warnings "-unused-intro-pattern".
#[local] Opaque FUEL.

Section UpdateItem.
  Variable ct : ctable.
  Hypothesis Hflat : flat_table ct.
  Hypothesis Hninv : no_inval_table ct.
  Hypothesis Hres : no_reserved_names ct.
  Notation Inv := (Inv ct).
  Notation rec := (exec ct XFUEL).
  Local Opaque exec XFUEL.
  Let HrecMv := Hmv ct Hflat XFUEL.

  Definition upd_mid (hh : hargs) (sp : attr_spec) (l : loc) (c : val) : M val :=
    match family_of (a_ty sp) with
    | Some FSeq =>
        mutate_collection ct rec FSeq sp l c
          (mkio (pos0 hh) (pos1 hh) None None [] false
                (negb (is_missing (pos0 hh))) (tri_of (h_by_index hh)) false)
    | Some FMap =>
        mutate_collection ct rec FMap sp l c
          (mkio (pos0 hh) (pos1 hh) None None [] false true (TriTrue) false)
    | Some FSet =>
        mutate_collection ct rec FSet sp l c
          (mkio (pos0 hh) (pos1 hh) None None [] false
                (negb (is_missing (pos0 hh))) (TriTrue) false)
    | None => fail AttrErr end.

  (* obj.update_<item>(old, new, _inplace=True) *)
  Theorem update_item_inplace l a hh s :
    h_inplace hh = true -> h_kw hh = None ->
    Inv (heap s) -> recv_leafc ct l a (heap s) -> dflt_missingc ct l a (heap s) ->
    Inv (heap (snd (run_helper ct l (HUpdateItem a) hh s))).
  Proof.
    intros Hin Hkw I R D. unfold run_helper. destruct (negb (h_if hh)); [exact I|]. rewrite Hin, Hkw.
    cbv zeta.
    apply (elem_prefix ct l a s (fun r c =>
      c' <- upd_mid hh (snd r) l c ;; mutate_attr ct rec l a c' true false false false) I R D).
    intros cl d k sp fam N Hk Ha Hl. pose proof Hl as (Hf & _). cbn [snd]. unfold upd_mid. rewrite Hf.
    split.
    - intros fc As.
      destruct fam;
        (eapply (T_run _ _ _ _ Inv s); [eapply (tail_held ct Hflat Hninv l cl d k a sp _ fc); eauto| | |]; auto;
         [intros F SF HV; eapply mutate_collection_leaf; eauto; repeat split|split; auto]).
    - intros As.
      destruct fam;
        (eapply (T_run _ _ _ _ Inv s); [eapply (tail_missing ct Hflat Hninv l cl d k a sp); eauto; repeat split| | |]; auto;
         split; auto).
  Qed.

  (* obj.update_<item>(old, new) -- copy-on-write *)
  Theorem update_item_cow l a hh s cl d k :
    h_inplace hh = false -> h_kw hh = None ->
    Inv (heap s) -> flat_recv ct l (heap s) cl d k ->
    (forall sp, lookup_attr k a = Some sp -> exists fam, leaf_coll sp fam) ->
    (assoc a d = None -> class_default k a = VMissing) ->
    Inv (heap (snd (run_helper ct l (HUpdateItem a) hh s))).
  Proof.
    intros Hin Hkw I FR Hla D. pose proof FR as (N & Hk & Fc & Km).
    unfold run_helper. destruct (negb (h_if hh)); [exact I|]. rewrite Hin, Hkw. cbv zeta.
    apply (elem_prefix_cow ct Hflat l a s cl d k (fun r c =>
      c' <- upd_mid hh (snd r) l c ;; mutate_attr ct rec l a c' false false false false) I FR Hla D).
    intros sp fam Ha Hl. pose proof Hl as (Hf & _). cbn [snd]. unfold upd_mid. rewrite Hf.
    split.
    - intros fc s1 H.
      destruct fam;
        (eapply (T_run _ _ _ _ Inv s1); [eapply (tail_loose_cow ct Hflat Hninv Hres l cl d k a sp _ fc); eauto| | |]; auto;
         intros F SF HV; eapply mutate_collection_leaf; eauto; repeat split).
    - intros As.
      destruct fam;
        (eapply (T_run _ _ _ _ Inv s); [eapply (tail_missing_cow ct Hflat Hninv Hres l cl d k a sp); eauto; repeat split| | |]; auto;
         split; auto).
  Qed.
End UpdateItem.
