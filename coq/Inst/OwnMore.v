(* C03, ownership, part 8: update_<item> (in place and copy-on-write). *)
From Coq Require Import List ZArith Bool Arith Lia.
From SC Require Import Base.Res Base.PyList Inst.Heap Inst.ClassTable Inst.Model Inst.Framed
  Inst.TypeProofs Inst.OwnProofs Inst.OwnProofs2 Inst.OwnProofs3 Inst.OwnColl Inst.OwnCopy Inst.OwnCow
  Inst.OwnInit.
Import ListNotations.
Open Scope nat_scope.
Set Warnings "-unused-intro-pattern".
#[local] Opaque FUEL.

Section UpdateItem.
  Variable ct : ctable.
  Hypothesis Hflat : flat_table ct.
  Hypothesis Hninv : no_inval_table ct.
  Hypothesis Hres : no_reserved_names ct.
  Notation Inv := (Inv ct).
  Notation rec := (exec ct XFUEL).
  Local Opaque exec XFUEL.
  Let HrecMv := Hmv ct Hflat XFUEL.

  Definition upd_mid (hh : hargs) (sp : attr_spec) (l : loc) (c : val) : M val :=
    match family_of (a_ty sp) with
    | Some FSeq =>
        mutate_collection ct rec FSeq sp l c
          (mkio (pos0 hh) (pos1 hh) None None [] false
                (negb (is_missing (pos0 hh))) (tri_of (h_by_index hh)) false)
    | Some FMap =>
        mutate_collection ct rec FMap sp l c
          (mkio (pos0 hh) (pos1 hh) None None [] false true (TriTrue) false)
    | Some FSet =>
        mutate_collection ct rec FSet sp l c
          (mkio (pos0 hh) (pos1 hh) None None [] false
                (negb (is_missing (pos0 hh))) (TriTrue) false)
    | None => fail AttrErr end.

  (* obj.update_<item>(old, new, _inplace=True) *)
  Theorem update_item_inplace l a hh s :
    h_inplace hh = true -> h_kw hh = None ->
    Inv (heap s) -> recv_leafc ct l a (heap s) -> dflt_missingc ct l a (heap s) ->
    Inv (heap (snd (run_helper ct l (HUpdateItem a) hh s))).
  Proof.
    intros Hin Hkw I R D. unfold run_helper. destruct (negb (h_if hh)); [exact I|]. rewrite Hin, Hkw.
    cbv zeta.
    apply (elem_prefix ct l a s (fun r c =>
      c' <- upd_mid hh (snd r) l c ;; mutate_attr ct rec l a c' true false false false) I R D).
    intros cl d k sp fam N Hk Ha Hl. pose proof Hl as (Hf & _). cbn [snd]. unfold upd_mid. rewrite Hf.
    split.
    - intros fc As.
      destruct fam;
        (eapply (T_run _ _ _ _ Inv s); [eapply (tail_held ct Hflat Hninv l cl d k a sp _ fc); eauto| | |]; auto;
         [intros F SF HV; eapply mutate_collection_leaf; eauto; repeat split|split; auto]).
    - intros As.
      destruct fam;
        (eapply (T_run _ _ _ _ Inv s); [eapply (tail_missing ct Hflat Hninv l cl d k a sp); eauto; repeat split| | |]; auto;
         split; auto).
  Qed.

  (* obj.update_<item>(old, new) -- copy-on-write *)
  Theorem update_item_cow l a hh s cl d k :
    h_inplace hh = false -> h_kw hh = None ->
    Inv (heap s) -> flat_recv ct l (heap s) cl d k ->
    (forall sp, lookup_attr k a = Some sp -> exists fam, leaf_coll sp fam) ->
    (assoc a d = None -> class_default k a = VMissing) ->
    Inv (heap (snd (run_helper ct l (HUpdateItem a) hh s))).
  Proof.
    intros Hin Hkw I FR Hla D. pose proof FR as (N & Hk & Fc & Km).
    unfold run_helper. destruct (negb (h_if hh)); [exact I|]. rewrite Hin, Hkw. cbv zeta.
    apply (elem_prefix_cow ct Hflat l a s cl d k (fun r c =>
      c' <- upd_mid hh (snd r) l c ;; mutate_attr ct rec l a c' false false false false) I FR Hla D).
    intros sp fam Ha Hl. pose proof Hl as (Hf & _). cbn [snd]. unfold upd_mid. rewrite Hf.
    split.
    - intros fc s1 H.
      destruct fam;
        (eapply (T_run _ _ _ _ Inv s1); [eapply (tail_loose_cow ct Hflat Hninv Hres l cl d k a sp _ fc); eauto| | |]; auto;
         intros F SF HV; eapply mutate_collection_leaf; eauto; repeat split).
    - intros As.
      destruct fam;
        (eapply (T_run _ _ _ _ Inv s); [eapply (tail_missing_cow ct Hflat Hninv Hres l cl d k a sp); eauto; repeat split| | |]; auto;
         split; auto).
  Qed.
End UpdateItem.


(* ------------------------------------------------------------------ *)
(** * transform_<item>, update_<a>, transform_<a> *)
Section Transforms.
  Variable ct : ctable.
  Hypothesis Hflat : flat_table ct.
  Hypothesis Hninv : no_inval_table ct.
  Hypothesis Hres : no_reserved_names ct.
  Notation Inv := (Inv ct).
  Notation rec := (exec ct XFUEL).
  Local Opaque exec XFUEL.
  Let HrecMv := Hmv ct Hflat XFUEL.

  Lemma tail_missingx l cl d k a sp fam io :
    lookup_cls ct cl = Some k -> lookup_attr k a = Some sp -> leaf_coll sp fam -> io_plainx sp io ->
    T (fun h => Inv h /\ inst_at l cl d h)
      (c' <- mutate_collection ct rec fam sp l VMissing io ;;
       mutate_attr ct rec l a c' true false false false)
      (fun _ h => Inv h) Inv.
  Proof.
    intros Hk Ha Hl Hio. pose proof Hl as (Hf & _).
    intros s [I N].
    pose proof (create_coll ct Hflat rec sp fam (inst_at l cl d) Hf (astable_inst_at l cl d) s (conj I N)) as Cr.
    unfold mutate_collection. cbn [is_missing]. unfold bind at 1. unfold bind at 1.
    destruct (create_collection rec sp s) as [[c1|err] s1]; [|exact (proj1 Cr)].
    destruct Cr as [[I1 N1] [fc [-> [L C]]]].
    exact (tail_loose ct Hflat Hninv l cl d k a sp fam fc (mutate_collection ct rec fam sp l (VRef fc) io) Hk Ha Hl
             (fun F SF HV => mutate_collection_leafx ct Hflat rec HrecMv fam sp l fc io F Hl Hio SF HV)
             s1 (conj (conj I1 (conj N1 L)) C)).
  Qed.

  Lemma tail_missing_cowx l cl (d : list (nat * val)) k a sp fam io :
    flat_class k -> keys_managed k d ->
    lookup_cls ct cl = Some k -> lookup_attr k a = Some sp -> leaf_coll sp fam -> io_plainx sp io ->
    T (fun h => Inv h /\ inst_at l cl d h)
      (c' <- mutate_collection ct rec fam sp l VMissing io ;;
       mutate_attr ct rec l a c' false false false false)
      (fun _ h => Inv h) Inv.
  Proof.
    intros Fc Km Hk Ha Hl Hio. pose proof Hl as (Hf & _).
    intros s [I N].
    pose proof (create_coll ct Hflat rec sp fam (inst_at l cl d) Hf (astable_inst_at l cl d) s (conj I N)) as Cr.
    unfold mutate_collection. cbn [is_missing]. unfold bind at 1. unfold bind at 1.
    destruct (create_collection rec sp s) as [[c1|err] s1]; [|exact (proj1 Cr)].
    destruct Cr as [[I1 N1] [fc [-> [L C]]]].
    exact (tail_loose_cow ct Hflat Hninv Hres l cl d k a sp fam fc (mutate_collection ct rec fam sp l (VRef fc) io)
             Fc Km Hk Ha Hl
             (fun F SF HV => mutate_collection_leafx ct Hflat rec HrecMv fam sp l fc io F Hl Hio SF HV)
             s1 (conj (conj I1 (conj N1 L)) C)).
  Qed.

  Definition tr_io (hh : hargs) : item_op :=
    mkio (pos0 hh) VMissing None
         (match h_fn hh with Some f => Some (XFn f, @None (attr_spec * loc)) | None => None end)
         [] false true (tri_of (h_by_index hh)) false.

  Lemma tr_io_plain sp hh : oqfn (h_fn hh) -> io_plainx sp (tr_io hh).
  Proof.
    intro Hq. split; [reflexivity|]. split; [reflexivity|]. unfold tr_io. simpl.
    destruct (h_fn hh) as [f|]; [right; right; exists f; auto|left; reflexivity].
  Qed.

  (* obj.transform_<item>(x, f, _inplace=True), f a quiet function, no attribute transforms *)
  Theorem transform_item_inplace l a hh s :
    h_inplace hh = true -> h_kwfn hh = [] -> oqfn (h_fn hh) ->
    Inv (heap s) -> recv_leafc ct l a (heap s) -> dflt_missingc ct l a (heap s) ->
    Inv (heap (snd (run_helper ct l (HTransformItem a) hh s))).
  Proof.
    intros Hin Hkf Hq I R D. unfold run_helper. destruct (negb (h_if hh)); [exact I|]. rewrite Hin, Hkf.
    cbv zeta.
    apply (elem_prefix ct l a s (fun r c =>
      c' <- (match family_of (a_ty (snd r)) with
             | Some fam => mutate_collection ct rec fam (snd r) l c (tr_io hh)
             | None => fail AttrErr end) ;;
      mutate_attr ct rec l a c' true false false false) I R D).
    intros cl d k sp fam N Hk Ha Hl. pose proof Hl as (Hf & _). cbn [snd]. rewrite Hf.
    split.
    - intros fc As.
      eapply (T_run _ _ _ _ Inv s); [eapply (tail_held ct Hflat Hninv l cl d k a sp fam fc); eauto| | |]; auto.
      + intros F SF HV. apply (mutate_collection_leafx ct Hflat rec HrecMv fam sp l fc (tr_io hh) F Hl (tr_io_plain sp hh Hq) SF HV).
      + split; auto.
    - intros As.
      eapply (T_run _ _ _ _ Inv s); [eapply (tail_missingx l cl d k a sp fam (tr_io hh)); eauto; now apply tr_io_plain| | |]; auto.
      split; auto.
  Qed.

  Theorem transform_item_cow l a hh s cl d k :
    h_inplace hh = false -> h_kwfn hh = [] -> oqfn (h_fn hh) ->
    Inv (heap s) -> flat_recv ct l (heap s) cl d k ->
    (forall sp, lookup_attr k a = Some sp -> exists fam, leaf_coll sp fam) ->
    (assoc a d = None -> class_default k a = VMissing) ->
    Inv (heap (snd (run_helper ct l (HTransformItem a) hh s))).
  Proof.
    intros Hin Hkf Hq I FR Hla D. pose proof FR as (N & Hk & Fc & Km).
    unfold run_helper. destruct (negb (h_if hh)); [exact I|]. rewrite Hin, Hkf. cbv zeta.
    apply (elem_prefix_cow ct Hflat l a s cl d k (fun r c =>
      c' <- (match family_of (a_ty (snd r)) with
             | Some fam => mutate_collection ct rec fam (snd r) l c (tr_io hh)
             | None => fail AttrErr end) ;;
      mutate_attr ct rec l a c' false false false false) I FR Hla D).
    intros sp fam Ha Hl. pose proof Hl as (Hf & _). cbn [snd]. rewrite Hf.
    split.
    - intros fc s1 H.
      eapply (T_run _ _ _ _ Inv s1); [eapply (tail_loose_cow ct Hflat Hninv Hres l cl d k a sp fam fc); eauto| | |]; auto.
      intros F SF HV. apply (mutate_collection_leafx ct Hflat rec HrecMv fam sp l fc (tr_io hh) F Hl (tr_io_plain sp hh Hq) SF HV).
    - intros As.
      eapply (T_run _ _ _ _ Inv s); [eapply (tail_missing_cowx l cl d k a sp fam (tr_io hh)); eauto; now apply tr_io_plain| | |]; auto.
      split; auto.
  Qed.
End Transforms.
