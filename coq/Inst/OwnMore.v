(* C03, ownership, part 8: update_<item> (in place and copy-on-write). *)
From Coq Require Import List ZArith Bool Arith Lia.
From SC Require Import Base.Res Base.PyList Inst.Heap Inst.ClassTable Inst.Model Inst.Framed
  Inst.TypeProofs Inst.OwnProofs Inst.OwnProofs2 Inst.OwnProofs3 Inst.OwnColl Inst.OwnCopy Inst.OwnCow
  Inst.OwnInit.
Import ListNotations.
Open Scope nat_scope.
Set Warnings "-unused-intro-pattern".
#[local] Opaque FUEL.

Section UpdateItem.
  Variable ct : ctable.
  Hypothesis Hflat : flat_table ct.
  Hypothesis Hninv : inval_spec ct.
  Hypothesis Hres : no_reserved_names ct.
  Notation Inv := (Inv ct).
  Notation rec := (exec ct XFUEL).
  Local Opaque exec XFUEL.
  Let HrecMv := Hmv ct Hflat XFUEL.

  Definition upd_mid (hh : hargs) (sp : attr_spec) (l : loc) (c : val) : M val :=
    match family_of (a_ty sp) with
    | Some FSeq =>
        mutate_collection ct rec FSeq sp l c
          (mkio (pos0 hh) (pos1 hh) None None [] false
                (negb (is_missing (pos0 hh))) (tri_of (h_by_index hh)) false)
    | Some FMap =>
        mutate_collection ct rec FMap sp l c
          (mkio (pos0 hh) (pos1 hh) None None [] false true (TriTrue) false)
    | Some FSet =>
        mutate_collection ct rec FSet sp l c
          (mkio (pos0 hh) (pos1 hh) None None [] false
                (negb (is_missing (pos0 hh))) (TriTrue) false)
    | None => fail AttrErr end.

  (* obj.update_<item>(old, new, _inplace=True) *)
  Theorem update_item_inplace l a hh s :
    h_inplace hh = true -> h_kw hh = None ->
    Inv (heap s) -> recv_leafc ct l a (heap s) -> dflt_missingc ct l a (heap s) ->
    Inv (heap (snd (run_helper ct l (HUpdateItem a) hh s))).
  Proof.
    intros Hin Hkw I R D. unfold run_helper. destruct (negb (h_if hh)); [exact I|]. rewrite Hin, Hkw.
    cbv zeta.
    apply (elem_prefix ct l a s (fun r c =>
      c' <- upd_mid hh (snd r) l c ;; mutate_attr ct rec l a c' true false false false) I R D).
    intros cl d k sp fam N Hk Ha Hl. pose proof Hl as (Hf & _). cbn [snd]. unfold upd_mid. rewrite Hf.
    split.
    - intros fc As.
      destruct fam;
        (eapply (T_run _ _ _ _ Inv s); [eapply (tail_held ct Hflat Hninv l cl d k a sp _ fc); eauto| | |]; auto;
         [intros F SF HV; eapply mutate_collection_leaf; eauto; repeat split|split; auto]).
    - intros As.
      destruct fam;
        (eapply (T_run _ _ _ _ Inv s); [eapply (tail_missing ct Hflat Hninv l cl d k a sp); eauto; repeat split| | |]; auto;
         split; auto).
  Qed.

  (* obj.update_<item>(old, new) -- copy-on-write *)
  Theorem update_item_cow l a hh s cl d k :
    h_inplace hh = false -> h_kw hh = None ->
    Inv (heap s) -> flat_recv ct l (heap s) cl d k ->
    (forall sp, lookup_attr k a = Some sp -> exists fam, leaf_coll sp fam) ->
    (assoc a d = None -> class_default k a = VMissing) ->
    Inv (heap (snd (run_helper ct l (HUpdateItem a) hh s))).
  Proof.
    intros Hin Hkw I FR Hla D. pose proof FR as (N & Hk & Fc & Km).
    unfold run_helper. destruct (negb (h_if hh)); [exact I|]. rewrite Hin, Hkw. cbv zeta.
    apply (elem_prefix_cow ct Hflat l a s cl d k (fun r c =>
      c' <- upd_mid hh (snd r) l c ;; mutate_attr ct rec l a c' false false false false) I FR Hla D).
    intros sp fam Ha Hl. pose proof Hl as (Hf & _). cbn [snd]. unfold upd_mid. rewrite Hf.
    split.
    - intros fc s1 H.
      destruct fam;
        (eapply (T_run _ _ _ _ Inv s1); [eapply (tail_loose_cow ct Hflat Hninv Hres l cl d k a sp _ fc); eauto| | |]; auto;
         intros F SF HV; eapply mutate_collection_leaf; eauto; repeat split).
    - intros As.
      destruct fam;
        (eapply (T_run _ _ _ _ Inv s); [eapply (tail_missing_cow ct Hflat Hninv Hres l cl d k a sp); eauto; repeat split| | |]; auto;
         split; auto).
  Qed.
End UpdateItem.


(* ------------------------------------------------------------------ *)
(** * transform_<item>, update_<a>, transform_<a> *)
Section Transforms.
  Variable ct : ctable.
  Hypothesis Hflat : flat_table ct.
  Hypothesis Hninv : inval_spec ct.
  Hypothesis Hres : no_reserved_names ct.
  Notation Inv := (Inv ct).
  Notation rec := (exec ct XFUEL).
  Local Opaque exec XFUEL.
  Let HrecMv := Hmv ct Hflat XFUEL.

  Lemma tail_missingx l cl d k a sp fam io :
    lookup_cls ct cl = Some k -> lookup_attr k a = Some sp -> leaf_coll sp fam -> io_plainx sp io ->
    T (fun h => Inv h /\ inst_at l cl d h)
      (c' <- mutate_collection ct rec fam sp l VMissing io ;;
       mutate_attr ct rec l a c' true false false false)
      (fun _ h => Inv h) Inv.
  Proof.
    intros Hk Ha Hl Hio. pose proof Hl as (Hf & _).
    intros s [I N].
    pose proof (create_coll ct Hflat rec sp fam (inst_at l cl d) Hf (astable_inst_at l cl d) s (conj I N)) as Cr.
    unfold mutate_collection. cbn [is_missing]. unfold bind at 1. unfold bind at 1.
    destruct (create_collection rec sp s) as [[c1|err] s1]; [|exact (proj1 Cr)].
    destruct Cr as [[I1 N1] [fc [-> [L C]]]].
    exact (tail_loose ct Hflat Hninv l cl d k a sp fam fc (mutate_collection ct rec fam sp l (VRef fc) io) Hk Ha Hl
             (fun F SF HV => mutate_collection_leafx ct Hflat rec HrecMv fam sp l fc io F Hl Hio SF HV)
             s1 (conj (conj I1 (conj N1 L)) C)).
  Qed.

  Lemma tail_missing_cowx l cl (d : list (nat * val)) k a sp fam io :
    flat_class k -> keys_managed k d ->
    lookup_cls ct cl = Some k -> lookup_attr k a = Some sp -> leaf_coll sp fam -> io_plainx sp io ->
    T (fun h => Inv h /\ inst_at l cl d h)
      (c' <- mutate_collection ct rec fam sp l VMissing io ;;
       mutate_attr ct rec l a c' false false false false)
      (fun _ h => Inv h) Inv.
  Proof.
    intros Fc Km Hk Ha Hl Hio. pose proof Hl as (Hf & _).
    intros s [I N].
    pose proof (create_coll ct Hflat rec sp fam (inst_at l cl d) Hf (astable_inst_at l cl d) s (conj I N)) as Cr.
    unfold mutate_collection. cbn [is_missing]. unfold bind at 1. unfold bind at 1.
    destruct (create_collection rec sp s) as [[c1|err] s1]; [|exact (proj1 Cr)].
    destruct Cr as [[I1 N1] [fc [-> [L C]]]].
    exact (tail_loose_cow ct Hflat Hninv Hres l cl d k a sp fam fc (mutate_collection ct rec fam sp l (VRef fc) io)
             Fc Km Hk Ha Hl
             (fun F SF HV => mutate_collection_leafx ct Hflat rec HrecMv fam sp l fc io F Hl Hio SF HV)
             s1 (conj (conj I1 (conj N1 L)) C)).
  Qed.

  Definition tr_io (hh : hargs) : item_op :=
    mkio (pos0 hh) VMissing None
         (match h_fn hh with Some f => Some (XFn f, @None (attr_spec * loc)) | None => None end)
         [] false true (tri_of (h_by_index hh)) false.

  Lemma tr_io_plain sp hh : oqfn (h_fn hh) -> io_plainx sp (tr_io hh).
  Proof.
    intro Hq. split; [reflexivity|]. split; [reflexivity|]. unfold tr_io. simpl.
    destruct (h_fn hh) as [f|]; [right; right; exists f; auto|left; reflexivity].
  Qed.

  (* obj.transform_<item>(x, f, _inplace=True), f a quiet function, no attribute transforms *)
  Theorem transform_item_inplace l a hh s :
    h_inplace hh = true -> h_kwfn hh = [] -> oqfn (h_fn hh) ->
    Inv (heap s) -> recv_leafc ct l a (heap s) -> dflt_missingc ct l a (heap s) ->
    Inv (heap (snd (run_helper ct l (HTransformItem a) hh s))).
  Proof.
    intros Hin Hkf Hq I R D. unfold run_helper. destruct (negb (h_if hh)); [exact I|]. rewrite Hin, Hkf.
    cbv zeta.
    apply (elem_prefix ct l a s (fun r c =>
      c' <- (match family_of (a_ty (snd r)) with
             | Some fam => mutate_collection ct rec fam (snd r) l c (tr_io hh)
             | None => fail AttrErr end) ;;
      mutate_attr ct rec l a c' true false false false) I R D).
    intros cl d k sp fam N Hk Ha Hl. pose proof Hl as (Hf & _). cbn [snd]. rewrite Hf.
    split.
    - intros fc As.
      eapply (T_run _ _ _ _ Inv s); [eapply (tail_held ct Hflat Hninv l cl d k a sp fam fc); eauto| | |]; auto.
      + intros F SF HV. apply (mutate_collection_leafx ct Hflat rec HrecMv fam sp l fc (tr_io hh) F Hl (tr_io_plain sp hh Hq) SF HV).
      + split; auto.
    - intros As.
      eapply (T_run _ _ _ _ Inv s); [eapply (tail_missingx l cl d k a sp fam (tr_io hh)); eauto; now apply tr_io_plain| | |]; auto.
      split; auto.
  Qed.

  Theorem transform_item_cow l a hh s cl d k :
    h_inplace hh = false -> h_kwfn hh = [] -> oqfn (h_fn hh) ->
    Inv (heap s) -> flat_recv ct l (heap s) cl d k ->
    (forall sp, lookup_attr k a = Some sp -> exists fam, leaf_coll sp fam) ->
    (assoc a d = None -> class_default k a = VMissing) ->
    Inv (heap (snd (run_helper ct l (HTransformItem a) hh s))).
  Proof.
    intros Hin Hkf Hq I FR Hla D. pose proof FR as (N & Hk & Fc & Km).
    unfold run_helper. destruct (negb (h_if hh)); [exact I|]. rewrite Hin, Hkf. cbv zeta.
    apply (elem_prefix_cow ct Hflat l a s cl d k (fun r c =>
      c' <- (match family_of (a_ty (snd r)) with
             | Some fam => mutate_collection ct rec fam (snd r) l c (tr_io hh)
             | None => fail AttrErr end) ;;
      mutate_attr ct rec l a c' false false false false) I FR Hla D).
    intros sp fam Ha Hl. pose proof Hl as (Hf & _). cbn [snd]. rewrite Hf.
    split.
    - intros fc s1 H.
      eapply (T_run _ _ _ _ Inv s1); [eapply (tail_loose_cow ct Hflat Hninv Hres l cl d k a sp fam fc); eauto| | |]; auto.
      intros F SF HV. apply (mutate_collection_leafx ct Hflat rec HrecMv fam sp l fc (tr_io hh) F Hl (tr_io_plain sp hh Hq) SF HV).
    - intros As.
      eapply (T_run _ _ _ _ Inv s); [eapply (tail_missing_cowx l cl d k a sp fam (tr_io hh)); eauto; now apply tr_io_plain| | |]; auto.
      split; auto.
  Qed.
End Transforms.

Section AttrUpdates.
  Variable ct : ctable.
  Hypothesis Hflat : flat_table ct.
  Hypothesis Hninv : inval_spec ct.
  Hypothesis Hres : no_reserved_names ct.
  Notation Inv := (Inv ct).
  Notation rec := (exec ct XFUEL).

  Lemma leaf_attr_ctor sp : leaf_attr sp -> exists t, ctor_of_ty (a_ty sp) = CtorTy t /\ ty_plain t.
  Proof.
    intros [[fam (Hf & _)]|(Sc & _)].
    - exists (a_ty sp). unfold ctor_of_ty. destruct (a_ty sp); simpl in Hf; try discriminate; simpl; auto.
    - exists (a_ty sp). unfold ctor_of_ty. destruct (scalar_nospec _ Sc) as [-> _]. split; auto.
      destruct (a_ty sp); simpl in *; auto; discriminate.
  Qed.

  Lemma upd_mv_plain sp old new xf :
    leaf_attr sp -> xf_plain xf ->
    mv_plain (mkmv old new false PNone None (Some (ctor_of_ty (a_ty sp))) (Some (a_ty sp)) xf [] false).
  Proof.
    intros Hl Hx. destruct (leaf_attr_ctor sp Hl) as [t [Ec Pt]]. unfold mv_plain.
    cbn [mv_prepare mv_attrs mv_transform mv_attr_transforms mv_ctor mv_expected prep_plain].
    split; [exact I|]. split; auto. split; auto. split; auto. exists t, (a_ty sp). rewrite Ec. auto.
  Qed.

  Lemma hpure_getattr_default l a : hpure (getattr_default ct l a).
  Proof.
    unfold getattr_default. apply hpure_bind; [unfold read_inst; hpgo|]. intros p.
    destruct (assoc a (snd p)); [apply hpure_ret|]. apply hpure_bind; [unfold cls_of; hpgo|]. intros; apply hpure_ret.
  Qed.

  (* obj.update_<a>(v, _inplace=True), v a real value (not a sentinel) nobody references *)
  Theorem update_inplace l a hh s :
    h_inplace hh = true -> h_kw hh = None -> is_sentinel (pos0 hh) = false ->
    Inv (heap s) -> loose (heap s) (pos0 hh) -> recv_leafa ct l a (heap s) ->
    Inv (heap (snd (run_helper ct l (HUpdate a) hh s))).
  Proof.
    intros Hin Hkw Hs I L R. unfold run_helper. destruct (negb (h_if hh)); [exact I|].
    rewrite Hin, Hkw, Hs.
    assert (Body : Inv (heap (snd ((r <- spec_for ct l a ;;
              old <- current_value ct l (snd r) true false ;;
              v <- rec (KMutateValue (mkmv old (pos0 hh) false PNone None
                                           (Some (ctor_of_ty (a_ty (snd r)))) (Some (a_ty (snd r))) None [] false)) ;;
              with_attr ct l (snd r) v None true) s)))).
    { destruct (nth_error (heap s) l) as [o|] eqn:N.
      2:{ unfold bind at 1. unfold spec_for, bind at 1. unfold read_inst, bind at 1. unfold read. rewrite N. exact I. }
      destruct o as [xs|kvs|xs|cl d];
        try (unfold bind at 1; unfold spec_for, bind at 1; unfold read_inst, bind at 1; unfold read; rewrite N; exact I).
      destruct (lookup_cls ct cl) as [k|] eqn:Hk.
      2:{ unfold bind at 1. unfold spec_for. erewrite bind_ok'; [|apply read_inst_eq; eauto]. cbn [fst snd].
          unfold bind at 1. unfold cls_of. rewrite Hk. exact I. }
      unfold bind at 1. rewrite (spec_for_run ct l a s cl d k N Hk).
      destruct (lookup_attr k a) as [sp|] eqn:Ha; [|exact I]. cbn [snd].
      pose proof (R _ _ _ _ N Hk Ha) as Hl. pose proof (lookup_attr_name k a sp Ha) as Hn.
      eapply (T_run (fun h => Inv h /\ loose h (pos0 hh)) _ (fun _ h => Inv h) Inv Inv s); auto.
      unfold current_value.
      eapply T_bind with (Q := fun _ h => Inv h /\ loose h (pos0 hh)).
      { eapply T_bind; [apply T_hpure; [apply hpure_getattr_default|tauto]|]. intros v0.
        cbn [orb negb]. apply T_ret. auto. }
      intros old.
      eapply T_bind with (Q := fun v h => Inv h /\ loose h v).
      { eapply T_conseq; [apply (Hmv ct Hflat XFUEL _ (fun h => loose h (pos0 hh)) (astable_loose _)
                                  (upd_mv_plain sp old (pos0 hh) None Hl Logic.I))| | |].
        - intros h [I0 L0]. split; auto.
        - intros r h [[I0 L0] Rr]. split; auto.
          destruct Rr as [[_ [E|[E _]]]|[->|Lr]]; auto.
          + exfalso. cbn [mv_new] in E. rewrite E in Hs. discriminate.
          + exfalso. unfold mv_use_new in E. cbn [mv_new] in E.
            destruct (pos0 hh); simpl in *; discriminate.
        - intros h [I0 _]. exact I0. }
      intros v. unfold with_attr. rewrite Hn.
      apply (prepare_then_store_any ct Hflat Hninv XFUEL XFUEL l a sp v Hl). }
    destruct (pos0 hh); simpl in Hs; try discriminate; exact Body.
  Qed.

  Local Opaque exec XFUEL.

  (* the copy-on-write tail of with_<a> / update_<a> / transform_<a> *)
  Lemma prepare_then_store_cow l cl (d : list (nat * val)) k a sp v :
    flat_class k -> keys_managed k d -> lookup_cls ct cl = Some k -> leaf_attr sp ->
    T (fun h => IF ct (inst_at l cl d) h /\ loose h v)
      (value <- prepare_attr_value ct rec sp l v None ;;
       mutate_attr ct rec l a value false true false false)
      (fun _ h => Inv h) Inv.
  Proof.
    intros Fc Km Hk Hl.
    eapply T_bind with (Q := fun value h => IF ct (inst_at l cl d) h /\ loose h value).
    - eapply T_conseq;
        [apply (prepare_attr_value_any ct Hflat XFUEL sp l v (inst_at l cl d) Hl (cstable_inst_at l cl d))
        | auto | auto | intros h [I1 _]; exact I1].
    - intros value. eapply T_pre; [|apply (mutate_attr_cow_T ct Hflat Hninv Hres l cl d k a value true Fc Km Hk)].
      intros h [[I1 N1] L1]. split; auto. split; auto. split; auto. intros E; discriminate.
  Qed.

  (* obj.update_<a>(v) -- copy-on-write *)
  Theorem update_cow l a hh s cl d k :
    h_inplace hh = false -> h_kw hh = None -> is_sentinel (pos0 hh) = false ->
    Inv (heap s) -> loose (heap s) (pos0 hh) -> flat_recv ct l (heap s) cl d k ->
    (forall sp, lookup_attr k a = Some sp -> leaf_attr sp) ->
    Inv (heap (snd (run_helper ct l (HUpdate a) hh s))).
  Proof.
    intros Hin Hkw Hs I L (N & Hk & Fc & Km) Hla. unfold run_helper. destruct (negb (h_if hh)); [exact I|].
    rewrite Hin, Hkw, Hs.
    assert (Body : Inv (heap (snd ((r <- spec_for ct l a ;;
              old <- current_value ct l (snd r) false false ;;
              v <- rec (KMutateValue (mkmv old (pos0 hh) false PNone None
                                           (Some (ctor_of_ty (a_ty (snd r)))) (Some (a_ty (snd r))) None [] false)) ;;
              with_attr ct l (snd r) v None false) s)))).
    { unfold bind at 1. rewrite (spec_for_run ct l a s cl d k N Hk).
      destruct (lookup_attr k a) as [sp|] eqn:Ha; [|exact I]. cbn [snd].
      pose proof (Hla sp eq_refl) as Hl. pose proof (lookup_attr_name k a sp Ha) as Hn.
      eapply (T_run (fun h => IF ct (inst_at l cl d) h /\ loose h (pos0 hh)) _ (fun _ h => Inv h) Inv Inv s); auto;
        [|split; [split; auto|auto]].
      unfold current_value.
      eapply T_bind with (Q := fun _ h => IF ct (inst_at l cl d) h /\ loose h (pos0 hh)).
      { eapply T_bind; [apply T_hpure; [apply hpure_getattr_default|intros h [[H _] _]; exact H]|]. intros v0.
        cbn [orb negb]. rewrite orb_true_r. apply T_ret. auto. }
      intros old.
      eapply T_bind with (Q := fun v h => IF ct (inst_at l cl d) h /\ loose h v).
      { eapply T_conseq; [apply (Hmv ct Hflat XFUEL _ (fun h => inst_at l cl d h /\ loose h (pos0 hh))
                                  (astable_and _ _ (astable_inst_at l cl d) (astable_loose _))
                                  (upd_mv_plain sp old (pos0 hh) None Hl Logic.I))| | |].
        - intros h [[I0 N0] L0]. split; auto.
        - intros r h [[I0 [N0 L0]] Rr]. split; [split; auto|].
          destruct Rr as [[_ [E|[E _]]]|[->|Lr]]; auto.
          + exfalso. cbn [mv_new] in E. rewrite E in Hs. discriminate.
          + exfalso. unfold mv_use_new in E. cbn [mv_new] in E.
            destruct (pos0 hh); simpl in *; discriminate.
        - intros h [I0 _]. exact I0. }
      intros v. unfold with_attr. rewrite Hn.
      apply (prepare_then_store_cow l cl d k a sp v Fc Km Hk Hl). }
    destruct (pos0 hh); simpl in Hs; try discriminate; exact Body.
  Qed.

  Lemma held_flat h l cl (d : list (nat * val)) k a sp v :
    Inv h -> nth_error h l = Some (OInst cl d) -> lookup_cls ct cl = Some k ->
    lookup_attr k a = Some sp -> leaf_attr sp -> assoc a d = Some v -> flat_val h v.
  Proof.
    intros I N Hk Ha [[fam Hl]|(Sc & _)] As.
    - destruct (held_coll ct h l cl d k a sp fam v I N Hk Ha Hl As) as [fc [-> C]].
      destruct Hl as (_ & Scc & _). unfold conf in C.
      destruct (check_flat_valid ct FUEL h (a_ty sp) fc (scalar_coll_flat _ Scc) C) as [o [No So]].
      destruct (conf_norefs ct h fc (a_ty sp) o Scc C No) as [Nr _]. exists o. auto.
    - destruct I as [T _].
      assert (C : check_type FUEL ct h v (a_ty sp) = true) by (eapply T; eauto; now apply assoc_in).
      destruct v; simpl; auto. exfalso. exact (scalar_check_noref ct h FUEL (a_ty sp) (VRef l0) Sc C l0 eq_refl).
  Qed.

  (* obj.transform_<a>(f) -- copy-on-write, f a quiet function, no attribute transforms *)
  Theorem transform_cow l a hh s cl d k :
    h_inplace hh = false -> h_kwfn hh = [] -> oqfn (h_fn hh) ->
    Inv (heap s) -> flat_recv ct l (heap s) cl d k ->
    (forall sp, lookup_attr k a = Some sp -> leaf_attr sp) ->
    (assoc a d = None -> nonref (class_default k a)) ->
    Inv (heap (snd (run_helper ct l (HTransform a) hh s))).
  Proof.
    intros Hin Hkf Hq I (N & Hk & Fc & Km) Hla D. unfold run_helper. destruct (negb (h_if hh)); [exact I|].
    rewrite Hin, Hkf.
    unfold bind at 1. rewrite (spec_for_run ct l a s cl d k N Hk).
    destruct (lookup_attr k a) as [sp|] eqn:Ha; [|exact I]. cbn [snd].
    pose proof (Hla sp eq_refl) as Hl. pose proof (lookup_attr_name k a sp Ha) as Hn.
    assert (Dn : a_dnc sp = false).
    { destruct Fc as (_ & _ & Fa). apply Fa. eapply lookup_attr_in; eauto. }
    unfold current_value. rewrite Dn. cbn [orb negb].
    unfold bind at 1. unfold bind at 1. rewrite Hn.
    rewrite (getattr_default_run ct l a s cl d k N Hk).
    set (v0 := match assoc a d with Some v => v | None => class_default k a end).
    assert (Fv : flat_val (heap s) v0).
    { unfold v0. destruct (assoc a d) as [v|] eqn:As.
      - eapply held_flat; eauto.
      - specialize (D eq_refl). destruct (class_default k a); simpl; auto. exfalso. eapply D; reflexivity. }
    pose proof (protect_flat ct Hflat v0 (inst_at l cl d) (cstable_inst_at l cl d) s
                  (conj (conj I N) Fv)) as PF.
    destruct (protect ct v0 s) as [[old|e] s1]; [|exact (proj1 PF)].
    destruct PF as [[I1 N1] L1].
    eapply (T_run (fun h => IF ct (inst_at l cl d) h /\ loose h old) _ (fun _ h => Inv h) Inv Inv s1); auto;
      [|split; [split; auto|auto]].
    eapply T_bind with (Q := fun v h => IF ct (inst_at l cl d) h /\ loose h v).
    { eapply T_conseq; [apply (Hmv ct Hflat XFUEL _ (fun h => inst_at l cl d h /\ loose h old)
                                (astable_and _ _ (astable_inst_at l cl d) (astable_loose _)))| | |].
      - apply (upd_mv_plain sp old VMissing
                 (match h_fn hh with Some f => Some (XFn f, None) | None => None end) Hl).
        destruct (h_fn hh); simpl; auto.
      - intros h [[I0 N0] L0]. split; auto.
      - intros r h [[I0 [N0 L0]] Rr]. split; [split; auto|].
        destruct Rr as [[-> _]|[->|Lr]]; auto. exact Logic.I.
      - intros h [I0 _]. exact I0. }
    intros v. unfold with_attr. rewrite Hn.
    apply (prepare_then_store_cow l cl d k a sp v Fc Km Hk Hl).
  Qed.
End AttrUpdates.

(* ------------------------------------------------------------------ *)
(** * In-place re-preparation of the value the attribute holds:
      transform_<a>(f, _inplace=True), update_<a>(_inplace=True) *)
Lemma T_or {A} (P A1 B1 : heap_t -> Prop) (m : M A) (Q : A -> heap_t -> Prop) (E : heap_t -> Prop) :
  T (fun h => P h /\ A1 h) m Q E -> T (fun h => P h /\ B1 h) m Q E ->
  T (fun h => P h /\ (A1 h \/ B1 h)) m Q E.
Proof. intros H1 H2 s [Ps [Ha|Hb]]; [apply H1|apply H2]; auto. Qed.

Section Held.
  Variable ct : ctable.
  Hypothesis Hflat : flat_table ct.
  Hypothesis Hninv : inval_spec ct.
  Notation Inv := (Inv ct).
  Notation rec := (exec ct XFUEL).
  Local Opaque exec XFUEL.
  Let HrecMv := Hmv ct Hflat XFUEL.

  (* prepare_attr_value on the collection the attribute holds, or on a value nobody references *)
  Lemma prepare_attr_value_held fam sp l cl d fc v :
    leaf_coll sp fam ->
    T (fun h => IF ct (inst_at l cl d) h /\ conf ct h (VRef fc) sp /\ (v = VRef fc \/ loose h v))
      (prepare_attr_value ct rec sp l v None)
      (fun r h => IF ct (inst_at l cl d) h /\ (r = VRef fc \/ loose h r))
      (IF ct (inst_at l cl d)).
  Proof.
    intros Hl. pose proof Hl as (Hf & Sc & _).
    set (F := inst_at l cl d).
    assert (SF : cstable F) by apply cstable_inst_at.
    set (G := fun h => F h /\ conf ct h (VRef fc) sp /\ (v = VRef fc \/ loose h v)).
    assert (SG : astable G).
    { intros h o S Nr (Fh & C & D). split; [apply SF; auto|]. split.
      - apply (astable_check ct (VRef fc) (a_ty sp)); auto. now apply scalar_coll_flat'.
      - destruct D as [E|L]; [left; exact E|right; now apply astable_loose]. }
    assert (Ec : ty_is_collection (a_ty sp) = true)
      by (destruct (a_ty sp); simpl in Hf; try discriminate; reflexivity).
    assert (B : T (fun h => IF ct F h /\ conf ct h (VRef fc) sp /\ (v = VRef fc \/ loose h v))
                  (v' <- rec (KMutateValue (mkmv VMissing v false
                                (match a_prepare sp with Some f => PAttr f | None => PNone end)
                                None (Some (ctor_of_ty (a_ty sp))) (Some (a_ty sp)) None [] false)) ;;
                   if ty_is_collection (a_ty sp) then coll_prepare ct rec sp l v' else ret v')
                  (fun r h => IF ct F h /\ (r = VRef fc \/ loose h r)) (IF ct F)).
    { eapply T_bind with (Q := fun v' h => (IF ct F h /\ conf ct h (VRef fc) sp) /\ (v' = VRef fc \/ loose h v')).
      - eapply T_conseq.
        + apply (HrecMv _ G SG). eapply attr_mv_plain'; eauto.
        + intros h [[I Fh] [C D]]. split; auto. split; auto.
        + intros r h [[I (Fh & C & D)] R]. split; [split; [split; auto|exact C]|].
          destruct R as [[-> _]|[->|R]]; [right; exact Logic.I|exact D|right; exact R].
        + intros h [I (Fh & _)]. split; auto.
      - intros v'. rewrite Ec. apply T_or.
        + apply T_pull. intros ->.
          apply (coll_prepare_held ct Hflat rec HrecMv fam sp l fc F Hl SF).
        + eapply T_conseq; [apply (coll_prepare_leaf ct Hflat rec HrecMv fam sp l v' F Hl SF)| | |auto].
          * intros h [[H _] L]. split; auto.
          * intros r h [H L]. split; auto. }
    unfold prepare_attr_value. destruct v; try exact B.
    apply T_ret. intros h [H _]. split; auto. right. exact Logic.I.
  Qed.

  (* old <- current value (in place: the object itself); v <- mutate_value(old, new, transform);
     with_<a>(v, _inplace=True) *)
  Lemma reprepare_inplace l a sp new xf s cl d k :
    Inv (heap s) -> nth_error (heap s) l = Some (OInst cl d) -> lookup_cls ct cl = Some k ->
    lookup_attr k a = Some sp -> leaf_attr sp -> loose (heap s) new -> xf_plain xf ->
    (assoc a d = None -> nonref (class_default k a)) ->
    Inv (heap (snd ((old <- current_value ct l sp true true ;;
                     v <- rec (KMutateValue (mkmv old new false PNone None
                                (Some (ctor_of_ty (a_ty sp))) (Some (a_ty sp)) xf [] false)) ;;
                     with_attr ct l sp v None true) s))).
  Proof.
    intros I N Hk Ha Hl Ln Hx D.
    pose proof (lookup_attr_name k a sp Ha) as Hn.
    unfold current_value. cbn [orb]. unfold bind at 1. unfold bind at 1. rewrite Hn.
    rewrite (getattr_default_run ct l a s cl d k N Hk). cbn [ret].
    set (v0 := match assoc a d with Some v => v | None => class_default k a end).
    (* either the attribute holds a collection, or the old value is a non-reference *)
    assert (Cases : (exists fam fc, leaf_coll sp fam /\ assoc a d = Some (VRef fc) /\ v0 = VRef fc) \/ nonref v0).
    { unfold v0. destruct (assoc a d) as [v|] eqn:As.
      - destruct Hl as [[fam Hlc]|Hls].
        + left. destruct (held_coll ct (heap s) l cl d k a sp fam v I N Hk Ha Hlc As) as [fc [-> _]].
          exists fam, fc. auto.
        + right. pose proof (held_flat ct (heap s) l cl d k a sp v I N Hk Ha (or_intror Hls) As) as Fv.
          destruct Hls as (Scl & _). destruct I as [T _].
          assert (C : check_type FUEL ct (heap s) v (a_ty sp) = true) by (eapply T; eauto; now apply assoc_in).
          intros c ->. exact (scalar_check_noref ct (heap s) FUEL (a_ty sp) (VRef c) Scl C c eq_refl).
      - right. apply D. reflexivity. }
    destruct Cases as [(fam & fc & Hlc & As & Ev)|Nv].
    - (* the held collection *)
      rewrite Ev.
      destruct (held_coll ct (heap s) l cl d k a sp fam (VRef fc) I N Hk Ha Hlc As) as [fc' [_ C]].
      eapply (T_run (fun h => (IF ct (inst_at l cl d) h /\ conf ct h (VRef fc) sp) /\ loose h new) _
                    (fun _ h => Inv h) Inv Inv s); auto; [|split; [split; [split; auto|exact C]|exact Ln]].
      pose proof Hlc as (Hf & Sc & _).
      eapply T_bind with (Q := fun v h => IF ct (inst_at l cl d) h /\ conf ct h (VRef fc) sp /\ (v = VRef fc \/ loose h v)).
      { set (G := fun h => inst_at l cl d h /\ conf ct h (VRef fc) sp /\ loose h new).
        assert (SG : astable G).
        { intros h o S Nr (Fh & Cc & L). split; [apply astable_inst_at; auto|]. split.
          - apply (astable_check ct (VRef fc) (a_ty sp)); auto. now apply scalar_coll_flat'.
          - now apply astable_loose. }
        eapply T_conseq; [apply (HrecMv _ G SG (upd_mv_plain sp (VRef fc) new xf Hl Hx))| | |].
        - intros h [[[I0 N0] C0] L0]. split; auto. split; auto.
        - intros r h [[I0 (N0 & C0 & L0)] R]. split; [split; auto|]. split; auto.
          destruct R as [[-> _]|[->|R]]; auto.
        - intros h [I0 _]. exact I0. }
      intros v. unfold with_attr. rewrite Hn.
      eapply T_bind with (Q := fun r h => IF ct (inst_at l cl d) h /\ (r = VRef fc \/ loose h r)).
      + eapply T_conseq; [apply (prepare_attr_value_held fam sp l cl d fc v Hlc)|auto|auto|intros h [H _]; exact H].
      + intros value. eapply T_pre; [|apply (mutate_attr_inplace ct Hflat Hninv XFUEL l a value true)].
        intros h [[I0 N0] [->|L0]]; (split; [exact I0|]); (split; [|discriminate]).
        * right. exists cl, d. auto.
        * left. exact L0.
    - (* the old value is a non-reference: everything in flight is unreferenced *)
      eapply (T_run (fun h => Inv h /\ loose h new) _ (fun _ h => Inv h) Inv Inv s); auto.
      eapply T_bind with (Q := fun v h => Inv h /\ loose h v).
      { eapply T_conseq; [apply (HrecMv _ (fun h => loose h new) (astable_loose _) (upd_mv_plain sp v0 new xf Hl Hx))| | |].
        - intros h [I0 L0]. split; auto.
        - intros r h [[I0 L0] R]. split; auto.
          destruct R as [[-> _]|[->|R]]; auto. now apply nonref_loose.
        - intros h [I0 _]. exact I0. }
      intros v. unfold with_attr. rewrite Hn.
      apply (prepare_then_store_any ct Hflat Hninv XFUEL XFUEL l a sp v Hl).
  Qed.

  (* obj.transform_<a>(f, _inplace=True), f a quiet function, no attribute transforms *)
  Theorem transform_inplace l a hh s cl d k :
    h_inplace hh = true -> h_kwfn hh = [] -> oqfn (h_fn hh) ->
    Inv (heap s) -> nth_error (heap s) l = Some (OInst cl d) -> lookup_cls ct cl = Some k ->
    (forall sp, lookup_attr k a = Some sp -> leaf_attr sp) ->
    (assoc a d = None -> nonref (class_default k a)) ->
    Inv (heap (snd (run_helper ct l (HTransform a) hh s))).
  Proof.
    intros Hin Hkf Hq I N Hk Hla D. unfold run_helper. destruct (negb (h_if hh)); [exact I|].
    rewrite Hin, Hkf.
    unfold bind at 1. rewrite (spec_for_run ct l a s cl d k N Hk).
    destruct (lookup_attr k a) as [sp|] eqn:Ha; [|exact I]. cbn [snd].
    apply (reprepare_inplace l a sp VMissing
             (match h_fn hh with Some f => Some (XFn f, None) | None => None end) s cl d k I N Hk Ha (Hla sp eq_refl));
      auto; [exact Logic.I|destruct (h_fn hh); simpl; auto].
  Qed.

  (* obj.update_<a>(_inplace=True) with no new value: the held value is prepared again *)
  Theorem update_inplace_noarg l a hh s cl d k :
    h_inplace hh = true -> h_kw hh = None -> pos0 hh = VMissing ->
    Inv (heap s) -> nth_error (heap s) l = Some (OInst cl d) -> lookup_cls ct cl = Some k ->
    (forall sp, lookup_attr k a = Some sp -> leaf_attr sp) ->
    (assoc a d = None -> nonref (class_default k a)) ->
    Inv (heap (snd (run_helper ct l (HUpdate a) hh s))).
  Proof.
    intros Hin Hkw Hp I N Hk Hla D. unfold run_helper. destruct (negb (h_if hh)); [exact I|].
    rewrite Hin, Hkw, Hp. cbn [is_sentinel].
    unfold bind at 1. rewrite (spec_for_run ct l a s cl d k N Hk).
    destruct (lookup_attr k a) as [sp|] eqn:Ha; [|exact I]. cbn [snd].
    apply (reprepare_inplace l a sp VMissing None s cl d k I N Hk Ha (Hla sp eq_refl)); auto; exact Logic.I.
  Qed.
End Held.
