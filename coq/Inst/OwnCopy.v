(* C03, ownership, part 5: deepcopy.

   The deep copy of a container of scalars is a fresh cell with the same
   content that nobody references; the deep copy of a *flat instance* (every
   entry of its dict is a non-reference or a leaf collection it owns) is a
   fresh instance whose collections are fresh copies: `Inv = TI /\ Owned` is
   preserved and the copy is again flat. *)
From Coq Require Import List ZArith Bool Arith Lia.
From SC Require Import Base.Res Base.PyList Inst.Heap Inst.ClassTable Inst.Model Inst.Framed
  Inst.TypeProofs Inst.OwnProofs Inst.OwnProofs2 Inst.OwnProofs3 Inst.OwnColl.
Import ListNotations.
Open Scope nat_scope.
Set Warnings "-unused-intro-pattern".
#[local] Opaque FUEL.

(* facts that survive allocations of reference-free containers and writes to cells >= b *)
Definition fstable (b : nat) (F : heap_t -> Prop) : Prop :=
  astable F /\
  (forall h c o0 o, b <= c -> nth_error h c = Some o0 -> shape o = shape o0 -> shape o0 < 3 ->
     (forall c', orefs c' o = orefs c' o0) -> F h -> F (set_nth c o h)).

Lemma cstable_fstable b F : cstable F -> fstable b F.
Proof.
  intros [A B]. split; auto. intros h c o0 o Hb N S Sc Eq Fh. eapply B; eauto.
  intro c'. rewrite Eq. lia.
Qed.

Lemma fstable_and b F G : fstable b F -> fstable b G -> fstable b (fun h => F h /\ G h).
Proof.
  intros [A1 B1] [A2 B2]. split; [now apply astable_and|].
  intros h c o0 o Hb N S Sc Le [H1 H2]. split; eauto.
Qed.

(* a fold whose invariant knows the elements already processed *)
Lemma T_foldM_prefix {A B} (f : B -> A -> M B) (I : list A -> B -> heap_t -> Prop) (E : heap_t -> Prop) l :
  (forall done x acc, In x l -> T (I done acc) (f acc x) (fun acc' h => I (done ++ [x]) acc' h) E) ->
  forall done acc, T (I done acc) (foldM f l acc) (fun acc' h => I (done ++ l) acc' h) E.
Proof.
  induction l as [|x t IH]; intros H done acc; simpl.
  - apply T_ret. intros h Hh. now rewrite app_nil_r.
  - eapply T_bind; [apply H; simpl; auto|]. intros acc'.
    eapply T_post; [|apply IH; intros; apply H; simpl; auto].
    intros a h Hh. cbv beta in Hh. now rewrite <- app_assoc in Hh.
Qed.

Definition nonref (v : val) : Prop := forall c, v <> VRef c.

Lemma norefs_list xs : norefs (OList xs) -> forall x, In x xs -> nonref x.
Proof. intros H x Hx c ->. exact (H c Hx). Qed.
Lemma norefs_set xs : norefs (OSet xs) -> forall x, In x xs -> nonref x.
Proof. intros H x Hx c ->. exact (H c Hx). Qed.
Lemma norefs_dict kvs : norefs (ODict kvs) -> forall p, In p kvs -> nonref (fst p) /\ nonref (snd p).
Proof.
  intros H p Hp. split; intros c E; apply (H c); simpl; apply in_or_app; [left|right];
    apply in_map_iff; exists p; auto.
Qed.

Lemma nonref_is_ref c v : nonref v -> is_ref c v = false.
Proof. intro H. destruct v; auto. exfalso. now apply (H l). Qed.

Section DcEq.
  Variable ct : ctable.

  Lemma dc_nonref f v memo : nonref v -> dc ct (S f) v memo = ret (v, memo).
  Proof. intro H. destruct v; try reflexivity. exfalso. now apply (H l). Qed.

  (* one level of dc on a reference that is not in the memo *)
  Lemma dc_ref f l memo :
    assoc l memo = None ->
    dc ct (S f) (VRef l) memo =
      (o <- read l ;;
       match o with
       | OList xs =>
           l' <- alloc (OList []) ;;
           memo' <- foldM (fun m x =>
                             r <- dc ct f x m ;;
                             o' <- read l' ;;
                             match o' with
                             | OList ys => write l' (OList (ys ++ [fst r])) ;;; ret (snd r)
                             | _ => fail RuntimeErr end)
                          xs ((l, l') :: memo) ;;
           ret (VRef l', memo')
       | ODict kvs =>
           l' <- alloc (ODict []) ;;
           memo' <- foldM (fun m p =>
                             rk <- dc ct f (fst p) m ;;
                             rv <- dc ct f (snd p) (snd rk) ;;
                             o' <- read l' ;;
                             match o' with
                             | ODict ys => write l' (ODict (ys ++ [(fst rk, fst rv)])) ;;; ret (snd rv)
                             | _ => fail RuntimeErr end)
                          kvs ((l, l') :: memo) ;;
           ret (VRef l', memo')
       | OSet xs =>
           r <- foldM (fun acc x => r <- dc ct f x (snd acc) ;; ret (fst acc ++ [fst r], snd r))
                      xs ([], memo) ;;
           l' <- alloc (OSet (fst r)) ;;
           ret (VRef l', (l, l') :: snd r)
       | OInst c d =>
           match lookup_cls ct c with
           | None => fail RuntimeErr
           | Some k =>
               if c_dnc k then ret (VRef l, memo)
               else
                 new <- alloc (OInst c []) ;;
                 memo' <- foldM (fun m p =>
                            let '(a, x) := p in
                            r <- (match lookup_attr k a with
                                  | Some sp => if a_dnc sp then ret (x, m)
                                               else if val_is_scalar x then ret (x, m) else dc ct f x m
                                  | None => if val_is_scalar x then ret (x, m) else dc ct f x m
                                  end) ;;
                            o' <- read new ;;
                            match o' with
                            | OInst c' d' => write new (OInst c' (d' ++ [(a, fst r)])) ;;; ret (snd r)
                            | _ => fail RuntimeErr end)
                          d memo ;;
                 (match c_post_copy k with
                  | Some g => apply_fn g VNone ;;; ret tt
                  | None => ret tt end) ;;;
                 ret (VRef new, (l, new) :: memo')
           end
       end).
  Proof. intro H. cbn [dc]. rewrite H. reflexivity. Qed.
End DcEq.

Section DcContainer.
  Variable ct : ctable.
  Hypothesis Hflat : flat_table ct.
  Notation IF := (IF ct).
  Notation Inv := (Inv ct).

  Lemma orefs_snoc_list c' ys x : nonref x -> orefs c' (OList (ys ++ [x])) = orefs c' (OList ys).
  Proof.
    intro H. unfold orefs. cbn [obj_vals]. rewrite cnt_app, cnt_cons, (nonref_is_ref c' x H).
    assert (Z0 : cnt c' [] = 0) by reflexivity. rewrite Z0. lia.
  Qed.

  Lemma orefs_snoc_dict c' ys k v :
    nonref k -> nonref v -> orefs c' (ODict (ys ++ [(k, v)])) = orefs c' (ODict ys).
  Proof.
    intros Hk Hv. unfold orefs. cbn [obj_vals]. rewrite !map_app, !cnt_app. cbn [map fst snd].
    rewrite !cnt_cons, (nonref_is_ref c' k Hk), (nonref_is_ref c' v Hv).
    assert (Z0 : cnt c' [] = 0) by reflexivity. rewrite !Z0. lia.
  Qed.

  (* the frame kept while a copy is being built *)
  Definition CP (F : heap_t -> Prop) (b lx : nat) (o : obj) (h : heap_t) : Prop :=
    IF F h /\ b <= length h /\ nth_error h lx = Some o.

  Lemma CP_alloc F b lx o h o1 :
    fstable b F -> shape o1 < 3 -> norefs o1 -> CP F b lx o h ->
    CP F b lx o (h ++ [o1]) /\ loose (h ++ [o1]) (VRef (length h)) /\
    nth_error (h ++ [o1]) (length h) = Some o1.
  Proof.
    intros [SA _] S Nr (I & Hb & N).
    destruct (IF_alloc ct Hflat F h o1 SA S Nr I) as [I1 L1].
    split; [split; [exact I1|split]|split; [exact L1|]].
    - rewrite app_length. simpl. lia.
    - rewrite nth_error_app1; auto. apply nth_error_Some. congruence.
    - rewrite nth_error_app2 by lia. now rewrite Nat.sub_diag.
  Qed.

  (* appending to the cell l' (>= b, nobody references it) under construction *)
  Lemma CP_write F b lx o h l' o0 o1 :
    fstable b F -> CP F b lx o h -> b <= l' -> l' <> lx ->
    nth_error h l' = Some o0 -> shape o1 = shape o0 -> shape o0 < 3 ->
    (forall c', orefs c' o1 = orefs c' o0) -> refcount h l' = 0 ->
    CP F b lx o (set_nth l' o1 h) /\ loose (set_nth l' o1 h) (VRef l') /\
    nth_error (set_nth l' o1 h) l' = Some o1.
  Proof.
    intros [_ SW] ((I & Fh) & Hb & N) Hl Ne N' S Sc Le Z.
    assert (L : l' < length h) by (apply nth_error_Some; congruence).
    split; [split; [split|split]|split].
    - eapply Inv_write_loose; eauto. intro c'. rewrite Le. lia.
    - eapply SW; eauto.
    - now rewrite set_nth_length.
    - rewrite set_nth_other; auto.
    - simpl. split; [now rewrite set_nth_length|].
      pose proof (refcount_set_nth h l' o1 o0 l' N'). specialize (Le l'). lia.
    - now apply nth_error_set_nth_same.
  Qed.

  (* deepcopy of a container of non-references that is not in the memo *)
  Lemma dc_container f lx memo o b F :
    fstable b F -> norefs o -> shape o < 3 -> assoc lx memo = None ->
    T (CP F b lx o) (dc ct (S (S f)) (VRef lx) memo)
      (fun r h => CP F b lx o h /\ exists l', r = (VRef l', (lx, l') :: memo) /\ b <= l' /\
                    loose h (VRef l') /\ nth_error h l' = Some o)
      (IF F).
  Proof.
    intros SF Nr So Hm. rewrite (dc_ref ct (S f) lx memo Hm).
    assert (PE : forall h, CP F b lx o h -> IF F h) by (intros h H; apply H).
    eapply T_bind; [apply T_read; exact PE|]. intros o1.
    assert (Sub : forall s, CP F b lx o (heap s) /\ nth_error (heap s) lx = Some o1 -> o1 = o).
    { intros s [(_ & _ & N) N1]. congruence. }
    destruct o as [xs|kvs|xs|c d]; [| | |simpl in So; lia].
    - (* list *)
      intros s Hs. pose proof (Sub s Hs) as ->. destruct Hs as [Hcp _]. cbv beta iota.
      unfold bind at 1. unfold alloc at 1.
      set (l' := length (heap s)).
      destruct (CP_alloc F b lx (OList xs) (heap s) (OList []) SF) as (C1 & L1 & N1);
        [simpl; lia|intros c0 []|exact Hcp|].
      assert (Hl' : b <= l') by (destruct Hcp as (_ & Hb & _); exact Hb).
      assert (Ne : l' <> lx).
      { destruct Hcp as (_ & _ & N). intro E. assert (lx < l') by (apply nth_error_Some; congruence). lia. }
      set (J := fun (done : list val) (m : memo_t) h =>
                  CP F b lx (OList xs) h /\ m = (lx, l') :: memo /\
                  loose h (VRef l') /\ nth_error h l' = Some (OList done)).
      assert (Fold : T (J [] ((lx, l') :: memo))
                       (foldM (fun m x =>
                             r <- dc ct (S f) x m ;;
                             o' <- read l' ;;
                             match o' with
                             | OList ys => write l' (OList (ys ++ [fst r])) ;;; ret (snd r)
                             | _ => fail RuntimeErr end) xs ((lx, l') :: memo))
                       (fun m h => J ([] ++ xs) m h) (IF F)).
      { apply T_foldM_prefix. intros done x m Hx. unfold J.
        rewrite (dc_nonref ct f x m (norefs_list xs Nr x Hx)).
        intros s0 (C0 & -> & L0 & N0). rewrite bind_ret_l. cbn [fst snd].
        unfold bind at 1. unfold read. rewrite N0.
        unfold bind at 1. erewrite write_eq by eauto. simpl.
        destruct L0 as [L0 Z0].
        destruct (CP_write F b lx (OList xs) (heap s0) l' (OList done) (OList (done ++ [x])) SF C0 Hl' Ne N0)
          as (C2 & L2 & N2); auto; try (simpl; lia);
          try (intro c'; rewrite orefs_snoc_list; [reflexivity|apply (norefs_list xs Nr x Hx)]).
        all: try (split; [exact C2|split; [reflexivity|split; [exact L2|exact N2]]]). }
      assert (HT : T (J [] ((lx, l') :: memo))
                     (memo' <- foldM (fun m x =>
                             r <- dc ct (S f) x m ;;
                             o' <- read l' ;;
                             match o' with
                             | OList ys => write l' (OList (ys ++ [fst r])) ;;; ret (snd r)
                             | _ => fail RuntimeErr end) xs ((lx, l') :: memo) ;; ret (VRef l', memo'))
                     (fun r h => CP F b lx (OList xs) h /\ exists l'0, r = (VRef l'0, (lx, l'0) :: memo) /\ b <= l'0 /\
                                   loose h (VRef l'0) /\ nth_error h l'0 = Some (OList xs))
                     (IF F)).
      { eapply T_bind; [apply Fold|]. intros m'. apply T_ret.
        intros h (C2 & -> & L2 & N2). split; auto. exists l'. auto. }
      exact (HT (mkst (heap s ++ [OList []]) (ncalls s) (fail_at s)) (conj C1 (conj eq_refl (conj L1 N1)))).
    - (* dict *)
      intros s Hs. pose proof (Sub s Hs) as ->. destruct Hs as [Hcp _]. cbv beta iota.
      unfold bind at 1. unfold alloc at 1.
      set (l' := length (heap s)).
      destruct (CP_alloc F b lx (ODict kvs) (heap s) (ODict []) SF) as (C1 & L1 & N1);
        [simpl; lia|intros c0 []|exact Hcp|].
      assert (Hl' : b <= l') by (destruct Hcp as (_ & Hb & _); exact Hb).
      assert (Ne : l' <> lx).
      { destruct Hcp as (_ & _ & N). intro E. assert (lx < l') by (apply nth_error_Some; congruence). lia. }
      set (J := fun (done : list (val * val)) (m : memo_t) h =>
                  CP F b lx (ODict kvs) h /\ m = (lx, l') :: memo /\
                  loose h (VRef l') /\ nth_error h l' = Some (ODict done)).
      assert (Fold : T (J [] ((lx, l') :: memo))
                       (foldM (fun m p =>
                             rk <- dc ct (S f) (fst p) m ;;
                             rv <- dc ct (S f) (snd p) (snd rk) ;;
                             o' <- read l' ;;
                             match o' with
                             | ODict ys => write l' (ODict (ys ++ [(fst rk, fst rv)])) ;;; ret (snd rv)
                             | _ => fail RuntimeErr end) kvs ((lx, l') :: memo))
                       (fun m h => J ([] ++ kvs) m h) (IF F)).
      { apply T_foldM_prefix. intros done p m Hp. unfold J.
        destruct (norefs_dict kvs Nr p Hp) as [Hk Hv].
        rewrite (dc_nonref ct f (fst p) m Hk).
        intros s0 (C0 & -> & L0 & N0). rewrite bind_ret_l. cbn [fst snd].
        rewrite (dc_nonref ct f (snd p) _ Hv). rewrite bind_ret_l. cbn [fst snd].
        unfold bind at 1. unfold read. rewrite N0.
        unfold bind at 1. erewrite write_eq by eauto. simpl.
        destruct L0 as [L0 Z0].
        destruct (CP_write F b lx (ODict kvs) (heap s0) l' (ODict done) (ODict (done ++ [(fst p, snd p)])) SF C0 Hl' Ne N0)
          as (C2 & L2 & N2); auto; try (simpl; lia);
          try (intro c'; rewrite orefs_snoc_dict; [reflexivity|exact Hk|exact Hv]).
        all: try (destruct p; cbn [fst snd] in *; split; [exact C2|split; [reflexivity|split; [exact L2|exact N2]]]). }
      assert (HT : T (J [] ((lx, l') :: memo))
                     (memo' <- foldM (fun m p =>
                             rk <- dc ct (S f) (fst p) m ;;
                             rv <- dc ct (S f) (snd p) (snd rk) ;;
                             o' <- read l' ;;
                             match o' with
                             | ODict ys => write l' (ODict (ys ++ [(fst rk, fst rv)])) ;;; ret (snd rv)
                             | _ => fail RuntimeErr end) kvs ((lx, l') :: memo) ;; ret (VRef l', memo'))
                     (fun r h => CP F b lx (ODict kvs) h /\ exists l'0, r = (VRef l'0, (lx, l'0) :: memo) /\ b <= l'0 /\
                                   loose h (VRef l'0) /\ nth_error h l'0 = Some (ODict kvs))
                     (IF F)).
      { eapply T_bind; [apply Fold|]. intros m'. apply T_ret.
        intros h (C2 & -> & L2 & N2). split; auto. exists l'. auto. }
      exact (HT (mkst (heap s ++ [ODict []]) (ncalls s) (fail_at s)) (conj C1 (conj eq_refl (conj L1 N1)))).
    - (* set: the elements are collected first *)
      assert (Acc : forall ys acc0 s0, (forall x, In x ys -> nonref x) ->
                foldM (fun acc x => r <- dc ct (S f) x (snd acc) ;; ret (fst acc ++ [fst r], snd r))
                      ys (acc0, memo) s0 = (Ok (acc0 ++ ys, memo), s0)).
      { induction ys as [|y t IH]; intros acc0 s0 Hn; cbn [foldM]; [now rewrite app_nil_r|].
        rewrite (dc_nonref ct f y _ (Hn y (or_introl eq_refl))).
        unfold bind at 1. rewrite bind_ret_l. cbn [fst snd]. unfold ret at 1.
        rewrite IH by (intros; apply Hn; simpl; auto). now rewrite <- app_assoc. }
      intros s Hs. pose proof (Sub s Hs) as ->. destruct Hs as [Hcp _]. cbv beta iota.
      unfold bind at 1. rewrite (Acc xs [] s (norefs_set xs Nr)). cbn [fst snd app].
      unfold bind at 1. unfold alloc at 1. simpl.
      destruct (CP_alloc F b lx (OSet xs) (heap s) (OSet xs) SF) as (C1 & L1 & N1); auto.
      split; auto. exists (length (heap s)). split; auto. split; [apply Hcp|auto].
  Qed.
End DcContainer.

(* ------------------------------------------------------------------ *)
(** * Deepcopy of a flat instance *)
Lemma T_foldM_split {A B} (f : B -> A -> M B) (I : list A -> B -> heap_t -> Prop) (E : heap_t -> Prop) l :
  (forall done x rest acc, l = done ++ x :: rest ->
     T (I done acc) (f acc x) (fun acc' h => I (done ++ [x]) acc' h) E) ->
  forall acc, T (I [] acc) (foldM f l acc) (fun acc' h => I l acc' h) E.
Proof.
  intro H.
  assert (G : forall l' done acc, l = done ++ l' ->
              T (I done acc) (foldM f l' acc) (fun acc' h => I l acc' h) E).
  { induction l' as [|x t IH]; intros done acc El; simpl.
    - apply T_ret. intros h Hh. rewrite app_nil_r in El. now subst.
    - eapply T_bind; [eapply H; eauto|]. intros acc'. apply IH. rewrite <- app_assoc. exact El. }
  intro acc. apply G. reflexivity.
Qed.

Lemma forallb_ext_in {A} (f g : A -> bool) l : (forall x, In x l -> f x = g x) -> forallb f l = forallb g l.
Proof. induction l; simpl; auto. intro H. rewrite H, IHl; auto. Qed.

(* a fact about the cells below b *)
Definition old_fact (b : nat) (F : heap_t -> Prop) : Prop :=
  forall h h', (forall c, c < b -> nth_error h' c = nth_error h c) -> F h -> F h'.

Lemma check_nonref_heap ct f : forall t v h h', nonref v ->
  check_type f ct h v t = check_type f ct h' v t.
Proof.
  induction f as [|f IH]; intros t v h h' Hv; simpl; auto.
  destruct t; auto.
  - destruct v; auto; apply IH; auto.
  - f_equal; auto.
  - destruct v; auto. exfalso. eapply Hv; reflexivity.
  - destruct v; auto. exfalso. eapply Hv; reflexivity.
  - destruct v; auto. exfalso. eapply Hv; reflexivity.
  - destruct v; auto. exfalso. eapply Hv; reflexivity.
Qed.

(* a cell with the same reference-free content conforms to the same annotations *)
Lemma check_same_content ct f : forall t h h' lx l' o,
  nth_error h lx = Some o -> nth_error h' l' = Some o -> norefs o -> shape o < 3 ->
  check_type f ct h (VRef lx) t = check_type f ct h' (VRef l') t.
Proof.
  induction f as [|f IH]; intros t h h' lx l' o N N' Nr So; simpl; auto.
  destruct t; auto.
  - eapply IH; eauto.
  - f_equal; eapply IH; eauto.
  - rewrite N, N'. destruct o; auto. apply forallb_ext_in. intros x Hx.
    apply check_nonref_heap. eapply norefs_list; eauto.
  - rewrite N, N'. destruct o; auto. apply forallb_ext_in. intros p Hp.
    destruct (norefs_dict _ Nr p Hp). f_equal; apply check_nonref_heap; auto.
  - rewrite N, N'. destruct o; auto. apply forallb_ext_in. intros x Hx.
    apply check_nonref_heap. eapply norefs_set; eauto.
  - rewrite N, N'. destruct o; auto.
Qed.
