(* C03, ownership, part 5: deepcopy.

   The deep copy of a container of scalars is a fresh cell with the same
   content that nobody references; the deep copy of a *flat instance* (every
   entry of its dict is a non-reference or a leaf collection it owns) is a
   fresh instance whose collections are fresh copies: `Inv = TI /\ Owned` is
   preserved and the copy is again flat. *)
From Coq Require Import List ZArith Bool Arith Lia.
From SC Require Import Base.Res Base.PyList Inst.Heap Inst.ClassTable Inst.Model Inst.Framed
  Inst.TypeProofs Inst.OwnProofs Inst.OwnProofs2 Inst.OwnProofs3 Inst.OwnColl.
Import ListNotations.
Open Scope nat_scope.
Set Warnings "-unused-intro-pattern".
#[local] Opaque FUEL.

(* facts that survive allocations of reference-free containers and writes to cells >= b *)
Definition fstable (b : nat) (F : heap_t -> Prop) : Prop :=
  (forall h o, b <= length h -> shape o < 3 -> norefs o -> F h -> F (h ++ [o])) /\
  (forall h c o0 o, b <= length h -> b <= c -> nth_error h c = Some o0 -> shape o = shape o0 -> shape o0 < 3 ->
     (forall c', orefs c' o = orefs c' o0) -> F h -> F (set_nth c o h)).

Lemma cstable_fstable b F : cstable F -> fstable b F.
Proof.
  intros [A B]. split; [intros; apply A; auto|]. intros h c o0 o Hl Hb N S Sc Eq Fh. eapply B; eauto.
  intro c'. rewrite Eq. lia.
Qed.

Lemma fstable_and b F G : fstable b F -> fstable b G -> fstable b (fun h => F h /\ G h).
Proof.
  intros [A1 B1] [A2 B2]. split.
  - intros h o Hl S Nr [H1 H2]. split; auto.
  - intros h c o0 o Hl Hb N S Sc Le [H1 H2]. split; eauto.
Qed.

(* facts about the content and the reference counts of the cells below b *)
Lemma below_fstable b (F : heap_t -> Prop) :
  (forall h h', (forall c, c < b -> nth_error h' c = nth_error h c) ->
                (forall c, c < b -> refcount h' c = refcount h c) -> F h -> F h') ->
  fstable b F.
Proof.
  intro H. split.
  - intros h o Hl S Nr Fh. eapply H; [| |exact Fh].
    + intros c Hc. rewrite nth_error_app1; auto. lia.
    + intros c Hc. rewrite refcount_app. simpl. rewrite (norefs_orefs o c Nr). lia.
  - intros h c o0 o Hl Hb N S Sc Eq Fh. eapply H; [| |exact Fh].
    + intros c1 Hc. rewrite set_nth_other; auto. lia.
    + intros c1 Hc. pose proof (refcount_set_nth h c o o0 c1 N). rewrite (Eq c1) in H0. lia.
Qed.

(* a fold whose invariant knows the elements already processed *)
Lemma T_foldM_prefix {A B} (f : B -> A -> M B) (I : list A -> B -> heap_t -> Prop) (E : heap_t -> Prop) l :
  (forall done x acc, In x l -> T (I done acc) (f acc x) (fun acc' h => I (done ++ [x]) acc' h) E) ->
  forall done acc, T (I done acc) (foldM f l acc) (fun acc' h => I (done ++ l) acc' h) E.
Proof.
  induction l as [|x t IH]; intros H done acc; simpl.
  - apply T_ret. intros h Hh. now rewrite app_nil_r.
  - eapply T_bind; [apply H; simpl; auto|]. intros acc'.
    eapply T_post; [|apply IH; intros; apply H; simpl; auto].
    intros a h Hh. cbv beta in Hh. now rewrite <- app_assoc in Hh.
Qed.

Section DcEq.
  Variable ct : ctable.

  Lemma dc_nonref f v (memo : memo_t) : nonref v -> dc ct (S f) v memo = ret (v, memo).
  Proof. intro H. destruct v; try reflexivity. exfalso. now apply (H l). Qed.

  (* one level of dc on a reference that is not in the memo *)
  Lemma dc_ref f l (memo : memo_t) :
    assoc l memo = None ->
    dc ct (S f) (VRef l) memo =
      (o <- read l ;;
       match o with
       | OList xs =>
           l' <- alloc (OList []) ;;
           memo' <- foldM (fun m x =>
                             r <- dc ct f x m ;;
                             o' <- read l' ;;
                             match o' with
                             | OList ys => write l' (OList (ys ++ [fst r])) ;;; ret (snd r)
                             | _ => fail RuntimeErr end)
                          xs ((l, l') :: memo) ;;
           ret (VRef l', memo')
       | ODict kvs =>
           l' <- alloc (ODict []) ;;
           memo' <- foldM (fun m p =>
                             rk <- dc ct f (fst p) m ;;
                             rv <- dc ct f (snd p) (snd rk) ;;
                             o' <- read l' ;;
                             match o' with
                             | ODict ys => write l' (ODict (ys ++ [(fst rk, fst rv)])) ;;; ret (snd rv)
                             | _ => fail RuntimeErr end)
                          kvs ((l, l') :: memo) ;;
           ret (VRef l', memo')
       | OSet xs =>
           r <- foldM (fun acc x => r <- dc ct f x (snd acc) ;; ret (fst acc ++ [fst r], snd r))
                      xs ([], memo) ;;
           l' <- alloc (OSet (fst r)) ;;
           ret (VRef l', (l, l') :: snd r)
       | OInst c d =>
           match lookup_cls ct c with
           | None => fail RuntimeErr
           | Some k =>
               if c_dnc k then ret (VRef l, memo)
               else
                 new <- alloc (OInst c []) ;;
                 memo' <- foldM (fun m p =>
                            let '(a, x) := p in
                            r <- (match lookup_attr k a with
                                  | Some sp => if a_dnc sp then ret (x, m)
                                               else if val_is_scalar x then ret (x, m) else dc ct f x m
                                  | None => if val_is_scalar x then ret (x, m) else dc ct f x m
                                  end) ;;
                            o' <- read new ;;
                            match o' with
                            | OInst c' d' => write new (OInst c' (d' ++ [(a, fst r)])) ;;; ret (snd r)
                            | _ => fail RuntimeErr end)
                          d memo ;;
                 (match c_post_copy k with
                  | Some g => apply_fn g VNone ;;; ret tt
                  | None => ret tt end) ;;;
                 ret (VRef new, (l, new) :: memo')
           end
       end).
  Proof. intro H. cbn [dc]. rewrite H. reflexivity. Qed.
End DcEq.

Section DcContainer.
  Variable ct : ctable.
  Hypothesis Hflat : flat_table ct.
  Notation IF := (IF ct).
  Notation Inv := (Inv ct).

  Lemma orefs_snoc_list c' ys x : nonref x -> orefs c' (OList (ys ++ [x])) = orefs c' (OList ys).
  Proof.
    intro H. unfold orefs. cbn [obj_vals]. rewrite cnt_app, cnt_cons, (nonref_is_ref c' x H).
    assert (Z0 : cnt c' [] = 0) by reflexivity. rewrite Z0. lia.
  Qed.

  Lemma orefs_snoc_dict c' ys k v :
    nonref k -> nonref v -> orefs c' (ODict (ys ++ [(k, v)])) = orefs c' (ODict ys).
  Proof.
    intros Hk Hv. unfold orefs. cbn [obj_vals]. rewrite !map_app, !cnt_app. cbn [map fst snd].
    rewrite !cnt_cons, (nonref_is_ref c' k Hk), (nonref_is_ref c' v Hv).
    assert (Z0 : cnt c' [] = 0) by reflexivity. rewrite !Z0. lia.
  Qed.

  (* the frame kept while a copy is being built *)
  Definition CP (F : heap_t -> Prop) (b lx : nat) (o : obj) (h : heap_t) : Prop :=
    IF F h /\ b <= length h /\ nth_error h lx = Some o.

  Lemma CP_alloc F b lx o h o1 :
    fstable b F -> shape o1 < 3 -> norefs o1 -> CP F b lx o h ->
    CP F b lx o (h ++ [o1]) /\ loose (h ++ [o1]) (VRef (length h)) /\
    nth_error (h ++ [o1]) (length h) = Some o1.
  Proof.
    intros [SA _] S Nr ((I & Fh) & Hb & N).
    assert (I1 : IF F (h ++ [o1])) by (split; [apply Inv_alloc; auto|apply SA; auto]).
    assert (L1 : loose (h ++ [o1]) (VRef (length h))).
    { simpl. split; [rewrite app_length; simpl; lia|].
      rewrite refcount_app. simpl. rewrite (norefs_orefs o1 _ Nr).
      destruct I as [_ (Hc & _)]. rewrite (refcount_fresh h (length h) Hc); lia. }
    split; [split; [exact I1|split]|split; [exact L1|]].
    - rewrite app_length. simpl. lia.
    - rewrite nth_error_app1; auto. apply nth_error_Some. congruence.
    - rewrite nth_error_app2 by lia. now rewrite Nat.sub_diag.
  Qed.

  (* appending to the cell l' (>= b, nobody references it) under construction *)
  Lemma CP_write F b lx o h l' o0 o1 :
    fstable b F -> CP F b lx o h -> b <= l' -> l' <> lx ->
    nth_error h l' = Some o0 -> shape o1 = shape o0 -> shape o0 < 3 ->
    (forall c', orefs c' o1 = orefs c' o0) -> refcount h l' = 0 ->
    CP F b lx o (set_nth l' o1 h) /\ loose (set_nth l' o1 h) (VRef l') /\
    nth_error (set_nth l' o1 h) l' = Some o1.
  Proof.
    intros [_ SW] ((I & Fh) & Hb & N) Hl Ne N' S Sc Le Z.
    assert (SW' := SW h l' o0 o1 Hb Hl N' S Sc Le Fh).
    assert (L : l' < length h) by (apply nth_error_Some; congruence).
    split; [split; [split|split]|split].
    - eapply Inv_write_loose; eauto. intro c'. rewrite Le. lia.
    - exact SW'.
    - now rewrite set_nth_length.
    - rewrite set_nth_other; auto.
    - simpl. split; [now rewrite set_nth_length|].
      pose proof (refcount_set_nth h l' o1 o0 l' N'). specialize (Le l'). lia.
    - now apply nth_error_set_nth_same.
  Qed.

  (* deepcopy of a container of non-references that is not in the memo *)
  Lemma dc_container f lx (memo : memo_t) o b F :
    fstable b F -> norefs o -> shape o < 3 -> assoc lx memo = None ->
    T (CP F b lx o) (dc ct (S (S f)) (VRef lx) memo)
      (fun r h => CP F b lx o h /\ exists l', r = (VRef l', (lx, l') :: memo) /\ b <= l' /\
                    loose h (VRef l') /\ nth_error h l' = Some o)
      (IF F).
  Proof.
    intros SF Nr So Hm. rewrite (dc_ref ct (S f) lx memo Hm).
    assert (PE : forall h, CP F b lx o h -> IF F h) by (intros h H; apply H).
    eapply T_bind; [apply T_read; exact PE|]. intros o1.
    assert (Sub : forall s, CP F b lx o (heap s) /\ nth_error (heap s) lx = Some o1 -> o1 = o).
    { intros s [(_ & _ & N) N1]. congruence. }
    destruct o as [xs|kvs|xs|c d]; [| | |simpl in So; lia].
    - (* list *)
      intros s Hs. pose proof (Sub s Hs) as ->. destruct Hs as [Hcp _]. cbv beta iota.
      unfold bind at 1. unfold alloc at 1.
      set (l' := length (heap s)).
      destruct (CP_alloc F b lx (OList xs) (heap s) (OList []) SF) as (C1 & L1 & N1);
        [simpl; lia|intros c0 []|exact Hcp|].
      assert (Hl' : b <= l') by (destruct Hcp as (_ & Hb & _); exact Hb).
      assert (Ne : l' <> lx).
      { destruct Hcp as (_ & _ & N). intro E. assert (lx < l') by (apply nth_error_Some; congruence). lia. }
      set (J := fun (done : list val) (m : memo_t) h =>
                  CP F b lx (OList xs) h /\ m = (lx, l') :: memo /\
                  loose h (VRef l') /\ nth_error h l' = Some (OList done)).
      assert (Fold : T (J [] ((lx, l') :: memo))
                       (foldM (fun m x =>
                             r <- dc ct (S f) x m ;;
                             o' <- read l' ;;
                             match o' with
                             | OList ys => write l' (OList (ys ++ [fst r])) ;;; ret (snd r)
                             | _ => fail RuntimeErr end) xs ((lx, l') :: memo))
                       (fun m h => J ([] ++ xs) m h) (IF F)).
      { apply T_foldM_prefix. intros done x m Hx. unfold J.
        rewrite (dc_nonref ct f x m (norefs_list xs Nr x Hx)).
        intros s0 (C0 & -> & L0 & N0). rewrite bind_ret_l. cbn [fst snd].
        unfold bind at 1. unfold read. rewrite N0.
        unfold bind at 1. erewrite write_eq by eauto. simpl.
        destruct L0 as [L0 Z0].
        destruct (CP_write F b lx (OList xs) (heap s0) l' (OList done) (OList (done ++ [x])) SF C0 Hl' Ne N0)
          as (C2 & L2 & N2); auto; try (simpl; lia);
          try (intro c'; rewrite orefs_snoc_list; [reflexivity|apply (norefs_list xs Nr x Hx)]).
        all: try (split; [exact C2|split; [reflexivity|split; [exact L2|exact N2]]]). }
      assert (HT : T (J [] ((lx, l') :: memo))
                     (memo' <- foldM (fun m x =>
                             r <- dc ct (S f) x m ;;
                             o' <- read l' ;;
                             match o' with
                             | OList ys => write l' (OList (ys ++ [fst r])) ;;; ret (snd r)
                             | _ => fail RuntimeErr end) xs ((lx, l') :: memo) ;; ret (VRef l', memo'))
                     (fun r h => CP F b lx (OList xs) h /\ exists l'0, r = (VRef l'0, (lx, l'0) :: memo) /\ b <= l'0 /\
                                   loose h (VRef l'0) /\ nth_error h l'0 = Some (OList xs))
                     (IF F)).
      { eapply T_bind; [apply Fold|]. intros m'. apply T_ret.
        intros h (C2 & -> & L2 & N2). split; auto. exists l'. auto. }
      exact (HT (mkst (heap s ++ [OList []]) (ncalls s) (fail_at s)) (conj C1 (conj eq_refl (conj L1 N1)))).
    - (* dict *)
      intros s Hs. pose proof (Sub s Hs) as ->. destruct Hs as [Hcp _]. cbv beta iota.
      unfold bind at 1. unfold alloc at 1.
      set (l' := length (heap s)).
      destruct (CP_alloc F b lx (ODict kvs) (heap s) (ODict []) SF) as (C1 & L1 & N1);
        [simpl; lia|intros c0 []|exact Hcp|].
      assert (Hl' : b <= l') by (destruct Hcp as (_ & Hb & _); exact Hb).
      assert (Ne : l' <> lx).
      { destruct Hcp as (_ & _ & N). intro E. assert (lx < l') by (apply nth_error_Some; congruence). lia. }
      set (J := fun (done : list (val * val)) (m : memo_t) h =>
                  CP F b lx (ODict kvs) h /\ m = (lx, l') :: memo /\
                  loose h (VRef l') /\ nth_error h l' = Some (ODict done)).
      assert (Fold : T (J [] ((lx, l') :: memo))
                       (foldM (fun m p =>
                             rk <- dc ct (S f) (fst p) m ;;
                             rv <- dc ct (S f) (snd p) (snd rk) ;;
                             o' <- read l' ;;
                             match o' with
                             | ODict ys => write l' (ODict (ys ++ [(fst rk, fst rv)])) ;;; ret (snd rv)
                             | _ => fail RuntimeErr end) kvs ((lx, l') :: memo))
                       (fun m h => J ([] ++ kvs) m h) (IF F)).
      { apply T_foldM_prefix. intros done p m Hp. unfold J.
        destruct (norefs_dict kvs Nr p Hp) as [Hk Hv].
        rewrite (dc_nonref ct f (fst p) m Hk).
        intros s0 (C0 & -> & L0 & N0). rewrite bind_ret_l. cbn [fst snd].
        rewrite (dc_nonref ct f (snd p) _ Hv). rewrite bind_ret_l. cbn [fst snd].
        unfold bind at 1. unfold read. rewrite N0.
        unfold bind at 1. erewrite write_eq by eauto. simpl.
        destruct L0 as [L0 Z0].
        destruct (CP_write F b lx (ODict kvs) (heap s0) l' (ODict done) (ODict (done ++ [(fst p, snd p)])) SF C0 Hl' Ne N0)
          as (C2 & L2 & N2); auto; try (simpl; lia);
          try (intro c'; rewrite orefs_snoc_dict; [reflexivity|exact Hk|exact Hv]).
        all: try (destruct p; cbn [fst snd] in *; split; [exact C2|split; [reflexivity|split; [exact L2|exact N2]]]). }
      assert (HT : T (J [] ((lx, l') :: memo))
                     (memo' <- foldM (fun m p =>
                             rk <- dc ct (S f) (fst p) m ;;
                             rv <- dc ct (S f) (snd p) (snd rk) ;;
                             o' <- read l' ;;
                             match o' with
                             | ODict ys => write l' (ODict (ys ++ [(fst rk, fst rv)])) ;;; ret (snd rv)
                             | _ => fail RuntimeErr end) kvs ((lx, l') :: memo) ;; ret (VRef l', memo'))
                     (fun r h => CP F b lx (ODict kvs) h /\ exists l'0, r = (VRef l'0, (lx, l'0) :: memo) /\ b <= l'0 /\
                                   loose h (VRef l'0) /\ nth_error h l'0 = Some (ODict kvs))
                     (IF F)).
      { eapply T_bind; [apply Fold|]. intros m'. apply T_ret.
        intros h (C2 & -> & L2 & N2). split; auto. exists l'. auto. }
      exact (HT (mkst (heap s ++ [ODict []]) (ncalls s) (fail_at s)) (conj C1 (conj eq_refl (conj L1 N1)))).
    - (* set: the elements are collected first *)
      assert (Acc : forall ys acc0 s0, (forall x, In x ys -> nonref x) ->
                foldM (fun acc x => r <- dc ct (S f) x (snd acc) ;; ret (fst acc ++ [fst r], snd r))
                      ys (acc0, memo) s0 = (Ok (acc0 ++ ys, memo), s0)).
      { induction ys as [|y t IH]; intros acc0 s0 Hn; cbn [foldM]; [now rewrite app_nil_r|].
        rewrite (dc_nonref ct f y _ (Hn y (or_introl eq_refl))).
        unfold bind at 1. rewrite bind_ret_l. cbn [fst snd]. unfold ret at 1.
        rewrite IH by (intros; apply Hn; simpl; auto). now rewrite <- app_assoc. }
      intros s Hs. pose proof (Sub s Hs) as ->. destruct Hs as [Hcp _]. cbv beta iota.
      unfold bind at 1. rewrite (Acc xs [] s (norefs_set xs Nr)). cbn [fst snd app].
      unfold bind at 1. unfold alloc at 1. simpl.
      destruct (CP_alloc F b lx (OSet xs) (heap s) (OSet xs) SF) as (C1 & L1 & N1); auto.
      split; auto. exists (length (heap s)). split; auto. split; [apply Hcp|auto].
  Qed.
End DcContainer.

(* ------------------------------------------------------------------ *)
(** * Deepcopy of a flat instance *)
Lemma T_foldM_split {A B} (f : B -> A -> M B) (I : list A -> B -> heap_t -> Prop) (E : heap_t -> Prop) l :
  (forall done x rest acc, l = done ++ x :: rest ->
     T (I done acc) (f acc x) (fun acc' h => I (done ++ [x]) acc' h) E) ->
  forall acc, T (I [] acc) (foldM f l acc) (fun acc' h => I l acc' h) E.
Proof.
  intro H.
  assert (G : forall l' done acc, l = done ++ l' ->
              T (I done acc) (foldM f l' acc) (fun acc' h => I l acc' h) E).
  { induction l' as [|x t IH]; intros done acc El; simpl.
    - apply T_ret. intros h Hh. rewrite app_nil_r in El. now subst.
    - eapply T_bind; [eapply H; eauto|]. intros acc'. apply IH. rewrite <- app_assoc. exact El. }
  intro acc. apply G. reflexivity.
Qed.

(* a fact about the cells below b *)
Definition old_fact (b : nat) (F : heap_t -> Prop) : Prop :=
  forall h h', (forall c, c < b -> nth_error h' c = nth_error h c) -> F h -> F h'.



Section DcInstance.
  Variable ct : ctable.
  Hypothesis Hflat : flat_table ct.
  Notation Inv := (Inv ct).

  Definition cont_at (h : heap_t) (lx : loc) : Prop :=
    exists o, nth_error h lx = Some o /\ norefs o /\ shape o < 3.

  Definition ref_entries_ok (k : cls) (h : heap_t) (d : list (nat * val)) : Prop :=
    forall a lx, In (a, VRef lx) d ->
      cont_at h lx /\ refcount h lx = 1 /\ (forall sp, lookup_attr k a = Some sp -> a_dnc sp = false).

  (* a flat instance: every reference it holds is to a container of non-references that
     nobody else references (and is not do_not_copy); the class is copied normally *)
  Definition FI (h : heap_t) (l : loc) (cl : cid) (d : list (nat * val)) (k : cls) : Prop :=
    nth_error h l = Some (OInst cl d) /\ lookup_cls ct cl = Some k /\ c_dnc k = false /\
    oqfn (c_post_copy k) /\ ref_entries_ok k h d.

  (* the cells below b keep their content and their reference counts *)
  Definition frame_rel (b : nat) (h0 h : heap_t) : Prop :=
    (forall c, c < b -> nth_error h c = nth_error h0 c) /\
    (forall c, c < b -> refcount h c = refcount h0 c) /\ b <= length h.

  Lemma frame_rel_refl h : frame_rel (length h) h h.
  Proof. split; auto. Qed.

  Lemma frame_rel_trans b b' h0 h1 h2 :
    b <= b' -> frame_rel b h0 h1 -> frame_rel b' h1 h2 -> frame_rel b h0 h2.
  Proof.
    intros L (A1 & B1 & C1) (A2 & B2 & C2). split; [|split; [|lia]].
    - intros c Hc. rewrite A2 by lia. auto.
    - intros c Hc. rewrite B2 by lia. auto.
  Qed.

  Lemma Inv_alloc_inst h cl : Inv h -> Inv (h ++ [OInst cl []]).
  Proof.
    intros [T (Hc & Hk & Ho)]. split.
    - apply TI_alloc; auto. intros k a v sp _ [].
    - split; [|split].
      + intros l x c N I. rewrite app_length. simpl.
        apply nth_error_snoc in N. destruct N as [[L N]|[-> ->]]; [specialize (Hc _ _ _ N I); lia|destruct I].
      + intros l cl0 d N. apply nth_error_snoc in N. destruct N as [[L N]|[-> E]]; [eauto|].
        inversion E; subst. constructor.
      + intros l cl0 d k a c sp N Hk' Hi Ha Hf. rewrite refcount_app. cbn [refcount].
        assert (Z : orefs c (OInst cl []) = 0) by reflexivity. rewrite Z.
        apply nth_error_snoc in N. destruct N as [[L N]|[-> E]].
        * rewrite (Ho _ _ _ _ _ _ _ N Hk' Hi Ha Hf). lia.
        * inversion E; subst. destruct Hi.
  Qed.

  Lemma NoDup_prefix_snoc {A} (xs : list A) x rest : NoDup (xs ++ x :: rest) -> NoDup (xs ++ [x]).
  Proof.
    intro H. apply NoDup_app_cons_end.
    - apply NoDup_remove_1 in H. clear -H. induction xs; simpl in *; [constructor|].
      inversion H; subst. constructor; [|auto]. intro Hi. apply H2. apply in_or_app. auto.
    - apply NoDup_remove_2 in H. intro Hi. apply H. apply in_or_app. auto.
  Qed.

  Lemma cnt_snoc c xs v : cnt c (xs ++ [v]) = cnt c xs + (if is_ref c v then 1 else 0).
  Proof. rewrite cnt_app, cnt_cons. assert (Z0 : cnt c [] = 0) by reflexivity. rewrite Z0. lia. Qed.

  Lemma map_snd_snoc (d : list (nat * val)) a v : map snd (d ++ [(a, v)]) = map snd d ++ [v].
  Proof. now rewrite map_app. Qed.
  Lemma map_fst_snoc (d : list (nat * val)) a v : map fst (d ++ [(a, v)]) = map fst d ++ [a].
  Proof. now rewrite map_app. Qed.

  (* the invariant of the attribute loop *)
  Definition CI (h0 : heap_t) (new : loc) (cl : cid) (k : cls)
             (done : list (nat * val)) (m : memo_t) (h : heap_t) : Prop :=
    frame_rel (length h0) h0 h /\ Inv h /\
    (exists done', nth_error h new = Some (OInst cl done') /\ map fst done' = map fst done /\
                   ref_entries_ok k h done') /\
    refcount h new = 0 /\
    (forall lx, assoc lx m <> None -> exists a, In (a, VRef lx) done).

  Definition CE (h0 : heap_t) (h : heap_t) : Prop := frame_rel (length h0) h0 h /\ Inv h.

  (* appending the entry (a, v) to the dict of the instance being built *)
  Lemma CI_append h0 new cl k (done : list (nat * val)) h (done' : list (nat * val)) a x v (m' : memo_t) :
    new = length h0 ->
    frame_rel (length h0) h0 h -> Inv h ->
    nth_error h new = Some (OInst cl done') -> map fst done' = map fst done ->
    ref_entries_ok k h done' -> refcount h new = 0 ->
    NoDup (map fst (done ++ [(a, x)])) ->
    (* the value appended: a non-reference, or a fresh container copy *)
    (nonref v \/ exists l', v = VRef l' /\ length h0 <= l' /\ l' <> new /\ cont_at h l' /\ refcount h l' = 0 /\
                            (forall sp, lookup_attr k a = Some sp -> a_dnc sp = false)) ->
    (forall k0 sp, lookup_cls ct cl = Some k0 -> lookup_attr k0 a = Some sp ->
                   check_type FUEL ct h v (a_ty sp) = true) ->
    (forall lx, assoc lx m' <> None -> exists a0, In (a0, VRef lx) (done ++ [(a, x)])) ->
    CI h0 new cl k (done ++ [(a, x)]) m' (set_nth new (OInst cl (done' ++ [(a, v)])) h).
  Proof.
    intros En (FA & FB & FC) I N Ek Re Zn Nd Hv Cv Hm.
    pose proof I as [T O]. pose proof O as (Hc & Hk & Ho).
    assert (Ln : new < length h) by (apply nth_error_Some; congruence).
    assert (Cd : forall c, cnt c (map snd done') = 0 \/ c <> new).
    { intro c. destruct (Nat.eq_dec c new) as [->|]; auto. left.
      pose proof (refcount_ge h new _ new N) as G. unfold orefs in G. simpl in G. lia. }
    assert (Rf : forall c, refcount (set_nth new (OInst cl (done' ++ [(a, v)])) h) c
                           = refcount h c + (if is_ref c v then 1 else 0)).
    { intro c. pose proof (refcount_set_nth h new (OInst cl (done' ++ [(a, v)])) _ c N) as E.
      unfold orefs in E. simpl in E. rewrite map_snd_snoc, cnt_snoc in E. lia. }
    assert (Vn : is_ref new v = false).
    { destruct Hv as [Hv|(l' & -> & _ & Ne & _)]; [now apply nonref_is_ref|]. simpl. now apply Nat.eqb_neq. }
    split; [|split; [|split; [|split]]].
    - (* frame *)
      split; [|split; [|now rewrite set_nth_length]].
      + intros c Hc0. rewrite set_nth_other by lia. auto.
      + intros c Hc0. rewrite Rf.
        assert (is_ref c v = false).
        { destruct Hv as [Hv|(l' & -> & Hl' & _)]; [now apply nonref_is_ref|]. simpl. apply Nat.eqb_neq. lia. }
        rewrite H. rewrite <- FB by auto. lia.
    - (* Inv *)
      split.
      + eapply TI_write_inst; eauto. intros k0 a0 v0 sp Hk0 Hi Ha _.
        apply in_app_or in Hi. destruct Hi as [Hi|[E|[]]]; [eapply T; eauto|].
        inversion E; subst a0 v0. eauto.
      + eapply Owned_write_inst; eauto.
        * rewrite map_fst_snoc, Ek. rewrite map_fst_snoc in Nd. exact Nd.
        * intros a1 c1 Hi. apply in_app_or in Hi. destruct Hi as [Hi|[E|[]]].
          -- eapply Hc; [exact N|]. simpl. apply in_map_iff. exists (a1, VRef c1). auto.
          -- inversion E; subst. destruct Hv as [Hv|(l' & E' & _ & _ & (o & No & _) & _)].
             ++ exfalso. eapply Hv; reflexivity.
             ++ inversion E'; subst. apply nth_error_Some. congruence.
        * intros a1 c1 Hi. rewrite map_snd_snoc, cnt_snoc. apply in_app_or in Hi. destruct Hi as [Hi|[E|[]]].
          -- left. split; auto.
             assert (is_ref c1 v = false).
             { destruct Hv as [Hv|(l' & -> & _ & _ & _ & Zl & _)]; [now apply nonref_is_ref|].
               simpl. apply Nat.eqb_neq. intros ->.
               pose proof (refcount_ge h new _ c1 N) as G. unfold orefs in G. simpl in G.
               pose proof (entry_counted c1 done' a1 Hi). lia. }
             rewrite H. lia.
          -- inversion E; subst a1 v. right.
             destruct Hv as [Hv|(l' & E' & _ & _ & _ & Zl & _)]; [exfalso; eapply Hv; reflexivity|].
             inversion E'; subst l'. split; auto. simpl. rewrite Nat.eqb_refl.
             pose proof (refcount_ge h new _ c1 N) as G. unfold orefs in G. simpl in G. lia.
        * intros c1 G1. rewrite map_snd_snoc, cnt_snoc.
          assert (is_ref c1 v = false).
          { destruct Hv as [Hv|(l' & -> & _ & _ & _ & Zl & _)]; [now apply nonref_is_ref|].
            simpl. apply Nat.eqb_neq. intros ->. lia. }
          rewrite H. lia.
    - (* the new dict *)
      exists (done' ++ [(a, v)]). split; [apply nth_error_set_nth_same; auto|].
      split; [rewrite !map_fst_snoc, Ek; reflexivity|].
      intros a1 lx Hi. apply in_app_or in Hi. destruct Hi as [Hi|[E|[]]].
      + destruct (Re a1 lx Hi) as ((o & No & Nr & So) & R1 & Dn).
        assert (lx <> new) by (intros ->; rewrite N in No; inversion No; subst; simpl in So; lia).
        split; [exists o; rewrite set_nth_other by auto; auto|]. split; auto.
        rewrite Rf.
        assert (is_ref lx v = false).
        { destruct Hv as [Hv|(l' & -> & _ & _ & _ & Zl & _)]; [now apply nonref_is_ref|].
          simpl. apply Nat.eqb_neq. intros ->. lia. }
        rewrite H0. lia.
      + inversion E; subst a1 v.
        destruct Hv as [Hv|(l' & E' & _ & Ne & (o & No & Nr & So) & Zl & Dn)]; [exfalso; eapply Hv; reflexivity|].
        inversion E'; subst l'.
        split; [exists o; rewrite set_nth_other by auto; auto|]. split; auto.
        rewrite Rf. simpl. rewrite Nat.eqb_refl. lia.
    - rewrite Rf, Vn. lia.
    - exact Hm.
  Qed.
End DcInstance.

Section DcInstance2.
  Variable ct : ctable.
  Hypothesis Hflat : flat_table ct.
  Notation Inv := (Inv ct).

  Lemma FUEL_SSS : exists f, FUEL = S (S (S f)).
  Proof. Local Transparent FUEL. exists 61. reflexivity. Qed.
  #[local] Opaque FUEL.

  Lemma assoc_cons {A} k k0 (v : A) t : assoc k ((k0, v) :: t) = if k0 =? k then Some v else assoc k t.
  Proof. unfold assoc. simpl. destruct (k0 =? k); reflexivity. Qed.

  Lemma attr_copy_nonref k a x (m : memo_t) f : nonref x ->
    (match lookup_attr k a with
     | Some sp => if a_dnc sp then ret (x, m)
                  else if val_is_scalar x then ret (x, m) else dc ct (S (S f)) x m
     | None => if val_is_scalar x then ret (x, m) else dc ct (S (S f)) x m
     end) = ret (x, m).
  Proof.
    intro H. rewrite (dc_nonref ct (S f) x m H).
    destruct (lookup_attr k a) as [sp|]; [destruct (a_dnc sp)|]; destruct (val_is_scalar x); reflexivity.
  Qed.

  Lemma append_entry_run h0 new cl k (done done' : list (nat * val)) a x v (m' : memo_t) s0 :
    new = length h0 ->
    frame_rel (length h0) h0 (heap s0) -> Inv (heap s0) ->
    nth_error (heap s0) new = Some (OInst cl done') -> map fst done' = map fst done ->
    ref_entries_ok k (heap s0) done' -> refcount (heap s0) new = 0 ->
    NoDup (map fst (done ++ [(a, x)])) ->
    (nonref v \/ exists l', v = VRef l' /\ length h0 <= l' /\ l' <> new /\ cont_at (heap s0) l' /\
                            refcount (heap s0) l' = 0 /\
                            (forall sp, lookup_attr k a = Some sp -> a_dnc sp = false)) ->
    (forall k0 sp, lookup_cls ct cl = Some k0 -> lookup_attr k0 a = Some sp ->
                   check_type FUEL ct (heap s0) v (a_ty sp) = true) ->
    (forall lx, assoc lx m' <> None -> exists a0, In (a0, VRef lx) (done ++ [(a, x)])) ->
    match (o' <- read new ;;
           match o' with
           | OInst c' d' => write new (OInst c' (d' ++ [(a, v)])) ;;; ret m'
           | _ => fail RuntimeErr end) s0 with
    | (Ok r, s1) => CI ct h0 new cl k (done ++ [(a, x)]) r (heap s1)
    | (Err _, s1) => CE ct h0 (heap s1)
    end.
  Proof.
    intros En FR I N Ek Re Zn Nd Hv Cv Hm.
    unfold bind at 1. unfold read. rewrite N.
    unfold bind at 1. erewrite write_eq by eauto. cbn [ret heap].
    eapply CI_append; eauto.
  Qed.

  Lemma entry_not_twice (done rest : list (nat * val)) a x a' x' :
    NoDup (map fst (done ++ (a, x) :: rest)) -> In (a', x') done -> a' <> a.
  Proof.
    intros Nd Hi ->. rewrite map_app in Nd. simpl in Nd. apply NoDup_remove_2 in Nd.
    apply Nd. apply in_or_app. left. apply in_map_iff. exists (a, x'). auto.
  Qed.

  Theorem dc_instance f l s cl (d : list (nat * val)) k :
    Inv (heap s) -> FI ct (heap s) l cl d k ->
    match dc ct (S (S (S f))) (VRef l) [] s with
    | (Ok r, s') =>
        exists new d', fst r = VRef new /\ length (heap s) <= new /\
          frame_rel (length (heap s)) (heap s) (heap s') /\ Inv (heap s') /\
          FI ct (heap s') new cl d' k /\ map fst d' = map fst d /\ refcount (heap s') new = 0
    | (Err _, s') => CE ct (heap s) (heap s')
    end.
  Proof.
    intros I0 (N & Hk & Hdnc & Hpc & Re0).
    set (h0 := heap s) in *. set (new := length h0).
    assert (Ndd : NoDup (map fst d)) by (destruct I0 as [_ (_ & Hku & _)]; eapply Hku; eauto).
    rewrite (dc_ref ct (S (S f)) l [] eq_refl).
    unfold bind at 1. unfold read. fold h0. rewrite N. cbv beta iota. rewrite Hk, Hdnc.
    unfold bind at 1. unfold alloc at 1. fold h0. fold new.
    set (STEP := fun (m : memo_t) (p : nat * val) =>
                   let '(a, x) := p in
                   r <- (match lookup_attr k a with
                         | Some sp => if a_dnc sp then ret (x, m)
                                      else if val_is_scalar x then ret (x, m) else dc ct (S (S f)) x m
                         | None => if val_is_scalar x then ret (x, m) else dc ct (S (S f)) x m
                         end) ;;
                   o' <- read new ;;
                   match o' with
                   | OInst c' d' => write new (OInst c' (d' ++ [(a, fst r)])) ;;; ret (snd r)
                   | _ => fail RuntimeErr end).
    assert (Step : forall done x rest m, d = done ++ x :: rest ->
              T (CI ct h0 new cl k done m) (STEP m x)
                (fun m' h => CI ct h0 new cl k (done ++ [x]) m' h) (CE ct h0)).
    { intros done [a xv] rest m Ed s0 (FR & I & (done' & Nn & Ek & Re) & Zn & Hm).
      assert (Nd1 : NoDup (map fst (done ++ [(a, xv)]))).
      { rewrite Ed in Ndd. rewrite map_app in Ndd |- *. simpl in *. now apply NoDup_prefix_snoc in Ndd. }
      assert (Hin : In (a, xv) d) by (rewrite Ed; apply in_or_app; right; left; reflexivity).
      assert (T0 : forall k0 sp, lookup_cls ct cl = Some k0 -> lookup_attr k0 a = Some sp ->
                                 check_type FUEL ct h0 xv (a_ty sp) = true).
      { intros k0 sp Hk0 Ha0. destruct I0 as [T0 _]. eapply T0; eauto. }
      assert (Cx : nonref xv \/ exists lx, xv = VRef lx)
        by (destruct xv; [left; intros c E; discriminate ..|right; eauto]).
      unfold STEP.
      destruct Cx as [Hx|[lx ->]].
      - rewrite (attr_copy_nonref k a xv m f Hx). rewrite bind_ret_l. cbn [fst snd].
        eapply append_entry_run; eauto.
        + intros k0 sp Hk0 Ha0. rewrite <- (check_nonref_heap ct FUEL (a_ty sp) xv h0 (heap s0) Hx). eauto.
        + intros lx0 Hl0. destruct (Hm lx0 Hl0) as [a0 Hi0]. exists a0. apply in_or_app. auto.
      - destruct (Re0 a lx Hin) as ((o & No & Nr & So) & R1 & Dn).
        assert (Llx : lx < length h0) by (apply nth_error_Some; congruence).
        assert (Am : assoc lx m = None).
        { destruct (assoc lx m) eqn:Am; auto. exfalso.
          destruct (Hm lx) as [a' Hi']; [congruence|].
          assert (Na : a' <> a) by (rewrite Ed in Ndd; eapply entry_not_twice; eauto).
          assert (Hi2 : In (a', VRef lx) d) by (rewrite Ed; apply in_or_app; auto).
          pose proof (cnt_two_entries lx d a' a Na Hi2 Hin) as C2.
          pose proof (refcount_ge h0 l _ lx N) as G. unfold orefs in G. simpl in G. lia. }
        assert (Em : (match lookup_attr k a with
                      | Some sp => if a_dnc sp then ret (VRef lx, m)
                                   else if val_is_scalar (VRef lx) then ret (VRef lx, m)
                                        else dc ct (S (S f)) (VRef lx) m
                      | None => if val_is_scalar (VRef lx) then ret (VRef lx, m)
                                else dc ct (S (S f)) (VRef lx) m
                      end) = dc ct (S (S f)) (VRef lx) m).
        { destruct (lookup_attr k a) as [sp|] eqn:Ea; [rewrite (Dn sp eq_refl)|]; reflexivity. }
        rewrite Em. clear Em.
        set (bj := length (heap s0)).
        destruct FR as (FA & FB & FC).
        assert (Hb1 : forall a1 l1, In (a1, VRef l1) done' -> l1 < bj).
        { intros a1 l1 Hi1. destruct (Re a1 l1 Hi1) as ((o1 & No1 & _) & _). apply nth_error_Some. congruence. }
        assert (Hnb : new < bj) by (apply nth_error_Some; congruence).
        set (Fj := fun h' : heap_t =>
                     ((forall c, c < length h0 -> nth_error h' c = nth_error h0 c) /\
                      (forall c, c < length h0 -> refcount h' c = refcount h0 c) /\
                      nth_error h' new = Some (OInst cl done') /\ ref_entries_ok k h' done' /\
                      refcount h' new = 0) /\ length h0 <= length h').
        assert (SFj : fstable bj Fj).
        { apply fstable_and.
          - apply below_fstable. intros h1 h2 A1 A2 (P1 & P2 & P3 & P4 & P5).
            split; [|split; [|split; [|split]]].
            + intros c Hc. rewrite A1 by lia. auto.
            + intros c Hc. rewrite A2 by lia. auto.
            + rewrite A1; auto.
            + intros a1 l1 Hi1. destruct (P4 a1 l1 Hi1) as ((o1 & No1 & Q1) & R & Dn1).
              specialize (Hb1 a1 l1 Hi1). split; [exists o1; rewrite A1; auto|]. split; auto. rewrite A2; auto.
            + rewrite A2; auto.
          - split.
            + intros h1 o1 _ _ _ L. rewrite app_length. lia.
            + intros h1 c o0 o1 _ _ _ _ _ _ L. now rewrite set_nth_length. }
        pose proof (dc_container ct Hflat f lx m o bj Fj SFj Nr So Am s0) as DC.
        assert (Pre : CP ct Fj bj lx o (heap s0)).
        { split; [split; [exact I|]|split; [unfold bj; lia|rewrite FA; auto]].
          split; [split; [exact FA|split; [exact FB|split; [exact Nn|split; [exact Re|exact Zn]]]]|exact FC]. }
        specialize (DC Pre). unfold bind at 1.
        destruct (dc ct (S (S f)) (VRef lx) m s0) as [[r|e] s1].
        + destruct DC as (((I1 & ((P1 & P2 & P3 & P4 & P5) & P6)) & Hbj & Nlx) & l' & -> & Hl' & [Ll' Zl'] & Nl').
          cbn [fst snd].
          eapply (append_entry_run h0 new cl k done done' a (VRef lx) (VRef l') ((lx, l') :: m) s1); eauto.
          * split; [exact P1|split; [exact P2|exact P6]].
          * right. exists l'. split; auto. split; [unfold bj in Hl'; lia|]. split; [lia|].
            split; [exists o; auto|]. split; auto.
          * intros k0 sp Hk0 Ha0.
            rewrite <- (check_same_content ct FUEL (a_ty sp) h0 (heap s1) lx l' o No Nl' Nr So). eauto.
          * intros lx0 Hl0. rewrite assoc_cons in Hl0. destruct (Nat.eqb_spec lx lx0) as [E0|Ne0]; [subst lx0|].
            -- exists a. apply in_or_app. right. left. reflexivity.
            -- destruct (Hm lx0 Hl0) as [a0 Hi0]. exists a0. apply in_or_app. auto.
        + destruct DC as (I1 & ((P1 & P2 & _) & P6)). split; auto. split; [exact P1|split; [exact P2|exact P6]]. }
    set (s1 := mkst (h0 ++ [OInst cl []]) (ncalls s) (fail_at s)).
    assert (Init : CI ct h0 new cl k [] [] (heap s1)).
    { simpl. split; [|split; [apply Inv_alloc_inst; auto|split; [|split]]].
      - split; [|split].
        + intros c Hc. now rewrite nth_error_app1.
        + intros c Hc. rewrite refcount_app. cbn [refcount]. assert (Z : orefs c (OInst cl []) = 0) by reflexivity. lia.
        + rewrite app_length. lia.
      - exists []. split; [|split; [reflexivity|intros a lx []]].
        rewrite nth_error_app2 by (unfold new; lia). unfold new. now rewrite Nat.sub_diag.
      - rewrite refcount_app. cbn [refcount]. assert (Z : orefs new (OInst cl []) = 0) by reflexivity.
        destruct I0 as [_ (Hc & _)]. rewrite (refcount_fresh h0 new Hc) by (unfold new; lia). lia.
      - intros lx Hl. exfalso. apply Hl. reflexivity. }
    assert (HT : T (CI ct h0 new cl k [] [])
                   (memo' <- foldM STEP d [] ;;
                    (match c_post_copy k with
                     | Some g => apply_fn g VNone ;;; ret tt
                     | None => ret tt end) ;;;
                    ret (VRef new, (l, new) :: memo'))
                   (fun r h => exists new0 d', fst r = VRef new0 /\ new <= new0 /\
                                  frame_rel new h0 h /\ Inv h /\
                                  FI ct h new0 cl d' k /\ map fst d' = map fst d /\ refcount h new0 = 0)
                   (CE ct h0)).
    { eapply T_bind; [apply (T_foldM_split STEP (CI ct h0 new cl k) (CE ct h0) d Step [])|].
      intros memo'.
      eapply T_bind with (Q := fun _ h => CI ct h0 new cl k d memo' h).
      { (* __post_copy__: a quiet callback *)
        destruct (c_post_copy k) as [g|]; [|apply T_ret; intros h H; exact H].
        set (Fc := fun h : heap_t =>
                     frame_rel (length h0) h0 h /\
                     (exists done', nth_error h new = Some (OInst cl done') /\ map fst done' = map fst d /\
                                    ref_entries_ok k h done') /\
                     refcount h new = 0 /\
                     (forall lx, assoc lx memo' <> None -> exists a, In (a, VRef lx) d)).
        assert (SFc : astable Fc).
        { intros h o S Nr ((FA & FB & FC) & (done' & Nn & Ek & Re) & Zn & Hm). split; [|split; [|split; [|exact Hm]]].
          - split; [|split].
            + intros c Hc. rewrite nth_error_app1 by lia. auto.
            + intros c Hc. rewrite refcount_app. simpl. rewrite (norefs_orefs o c Nr). rewrite <- FB by auto. lia.
            + rewrite app_length. lia.
          - exists done'. split; [rewrite nth_error_app1; auto; apply nth_error_Some; congruence|]. split; auto.
            intros a1 l1 Hi1. destruct (Re a1 l1 Hi1) as ((o1 & No1 & Q1) & R1 & Dn1).
            split; [exists o1; rewrite nth_error_app1; auto; apply nth_error_Some; congruence|]. split; auto.
            rewrite refcount_app. simpl. rewrite (norefs_orefs o l1 Nr). lia.
          - rewrite refcount_app. simpl. rewrite (norefs_orefs o new Nr). lia. }
        eapply T_bind with (Q := fun _ h => CI ct h0 new cl k d memo' h); [|intros ?; apply T_ret; auto].
        eapply T_conseq; [apply (apply_fn_quiet ct Hflat g VNone Fc Hpc SFc)| | |].
        - intros h (FR & I & Dd & Zn & Hm). split; [exact I|]. split; auto.
        - intros r h [[I (FR & Dd & Zn & Hm)] _]. split; auto.
        - intros h [I (FR & _)]. split; auto. }
      intros ?. apply T_ret.
      intros h (FR & I & (d' & Nn & Ek & Re) & Zn & _). exists new, d'. split; auto. split; auto. split; auto.
      split; auto. split; [|split; auto]. split; auto. }
    exact (HT s1 Init).
  Qed.
End DcInstance2.
