(* C05: "with _inplace=True the identical resulting state appears on the receiver
   itself" -- the copy-on-write run and the in-place run of the same call on
   the same (flat, unfrozen) receiver end in abstractly equal instances, or
   fail with the same error class.  Consequence of the refinement theorems of
   RefineProofs / CopyStore / RefineMore*.v: both runs refine one specification. *)
From Coq Require Import List ZArith Bool Arith Lia.
From SC Require Import Base.Res Base.PyList Inst.Heap Inst.ClassTable Inst.Model Inst.Canon
  Inst.Abs Inst.SpecHelpers Inst.ElemProofs Inst.Framed Inst.RefineProofs Inst.CopyProofs Inst.CopyStore
  Inst.RefineMore Inst.RefineMore2 Inst.RefineMore3 Inst.RefineMore4.
Import ListNotations.
Open Scope nat_scope.

#[local] Opaque FUEL.

(* the copy-on-write run rc and the in-place run ri agree *)
Definition same_outcome (l : loc) (rc ri : res val * state) : Prop :=
  match rc, ri with
  | (Ok r1, s1), (Ok r2, s2) =>
      exists l', r1 = VRef l' /\ r2 = VRef l /\ absv (heap s1) (VRef l') = absv (heap s2) (VRef l)
  | (Err e1, _), (Err e2, _) => e1 = e2
  | _, _ => False
  end.

Lemma sok_inj (a b : aval) : SOk a = SOk b -> a = b.
Proof. intro H. exact (f_equal (fun x => match x with SOk y => y | _ => ABad end) H). Qed.
Lemma serr_inj (a b : err) : @SErr aval a = SErr b -> a = b.
Proof. intro H. exact (f_equal (fun x => match x with SErr y => y | _ => a end) H). Qed.

Lemma same_outcome_from_spec l (sp1 sp2 : sres aval) rc ri :
  sp1 = sp2 ->
  match rc with
  | (Ok r, s1) => exists l', r = VRef l' /\ sp1 = SOk (absv (heap s1) (VRef l'))
  | (Err e, _) => sp1 = SErr e end ->
  match ri with
  | (Ok r, s2) => r = VRef l /\ sp2 = SOk (absv (heap s2) (VRef l))
  | (Err e, _) => sp2 = SErr e end ->
  same_outcome l rc ri.
Proof.
  intros E Hc Hi. destruct rc as [[r1|e1] s1], ri as [[r2|e2] s2]; unfold same_outcome.
  - destruct Hc as [l' [-> H1]]. destruct Hi as [-> H2]. exists l'. split; [reflexivity|]. split; [reflexivity|].
    apply sok_inj. rewrite <- H1, <- H2. exact E.
  - destruct Hc as [l' [_ H1]]. rewrite H1, Hi in E. discriminate E.
  - destruct Hi as [_ H2]. rewrite Hc, H2 in E. discriminate E.
  - apply serr_inj. rewrite <- Hc, <- Hi. exact E.
Qed.

Section CopyVsInplace.
  Variable ct : ctable.
  Variable h0 : list obj.
  Variables (l : loc) (c : cid) (d : list (aid * val)) (k : cls).
  Variable s : state.
  Hypothesis Hl : nth_error (heap s) l = Some (OInst c d).
  Hypothesis Hc : lookup_cls ct c = Some k.
  Hypothesis Hd : NoDup (map fst d).
  Hypothesis Hflat : flat_fields (heap s) d.
  Hypothesis Hdnc : c_dnc k = false.
  Hypothesis Hfz : c_frozen k = false.
  Hypothesis Hni : no_inval k.
  Hypothesis Hfa : fail_at s = None.
  Hypothesis Hpc : c_post_copy k = None.
  Hypothesis Hinit : assoc A_INITIALIZING d = None.

  Notation X := (absv (heap s) (VRef l)).
  Let Hok : aok X = true := aok_flat (heap s) l c d Hl Hflat.

  Lemma spec_flag_irrelevant hp ahc ahi :
    ah_if ahc = true -> ah_inplace ahc = false -> ah_if ahi = true ->
    match hp with SSetAttrOp _ | SDelAttrOp _ => False | _ => True end ->
    (forall x, spec_unfrozen ct h0 x hp ahc = spec_unfrozen ct h0 x hp ahi) ->
    spec_helper ct h0 X hp ahc = spec_helper ct h0 X hp ahi.
  Proof.
    intros H1 H2 H3 H4 H5.
    exact (spec_copy_is_inplace ct h0 l c d k s Hl Hc Hfz hp ahc ahi X eq_refl H1 H2 H3 H4 H5).
  Qed.

  (* with_<a>(v) *)
  Theorem with_copy_vs_inplace a sp v :
    lookup_attr k a = Some sp -> ty_depth (a_ty sp) < FUEL -> ty_is_collection (a_ty sp) = false ->
    match a_prepare sp with Some f => scalar_fn f = true | None => True end ->
    a <> A_INITIALIZING -> vscalar v = true ->
    same_outcome l (run_helper ct l (HWith a) (mkh [v] false true VMissing false None None [] None) s)
                   (run_helper ct l (HWith a) (mkh [v] true true VMissing false None None [] None) s).
  Proof.
    intros Ha Hty Hnc Hp Ha0 Hv.
    apply (same_outcome_from_spec l _ _ _ _
             (spec_flag_irrelevant (SWith a) (mkah [abs0 v] false true AMissing false None None [] None)
                (mkah [abs0 v] true true AMissing false None None [] None) eq_refl eq_refl eq_refl I (fun x => eq_refl))).
    - destruct (run_helper ct l (HWith a) (mkh [v] false true VMissing false None None [] None) s) as [[r|e] s1] eqn:E.
      + destruct (with_scalar_copy_refines ct h0 l a c d k sp s Hl Hc Ha Hd Hflat Hdnc Hni Hfa Hty Hnc Hinit Ha0 v r s1 Hv Hp E)
          as [l' [dfin [-> [_ [_ [Hs _]]]]]]. eauto.
      + exact (proj1 (with_scalar_copy_err ct h0 l a c d k sp s Hl Hc Ha Hflat Hdnc Hni Hfa Hty Hnc Hinit Hp v e s1 Hv Hpc E)).
    - pose proof (with_scalar_inplace_refines ct h0 l a c d k sp s Hl Hc Ha Hd Hok Hfz Hni Hfa Hty Hnc v Hv Hp) as H.
      cbv zeta in H.
      destruct (run_helper ct l (HWith a) (mkh [v] true true VMissing false None None [] None) s) as [[r|e] s2];
        [exact H|exact (proj1 H)].
  Qed.

  (* transform_<a>(f) *)
  Theorem transform_copy_vs_inplace a sp f :
    lookup_attr k a = Some sp -> ty_depth (a_ty sp) < FUEL -> ty_is_collection (a_ty sp) = false ->
    match a_prepare sp with Some g => scalar_fn g = true | None => True end ->
    a <> A_INITIALIZING -> scalar_fn f = true -> vscalar (cur_val a d k) = true ->
    same_outcome l (run_helper ct l (HTransform a) (mkh [] false true VMissing false None None [] (Some f)) s)
                   (run_helper ct l (HTransform a) (mkh [] true true VMissing false None None [] (Some f)) s).
  Proof.
    intros Ha Hty Hnc Hp Ha0 Hf Hcur.
    apply (same_outcome_from_spec l _ _ _ _
             (spec_flag_irrelevant (STransform a) (mkah [] false true AMissing false None None [] (Some f))
                (mkah [] true true AMissing false None None [] (Some f)) eq_refl eq_refl eq_refl I (fun x => eq_refl))).
    - destruct (run_helper ct l (HTransform a) (mkh [] false true VMissing false None None [] (Some f)) s) as [[r|e] s1] eqn:E.
      + destruct (transform_scalar_copy_refines ct h0 l a c d k sp s Hl Hc Ha Hd Hflat Hdnc Hni Hfa Hty Hnc Hinit Ha0 Hp f r s1 Hf Hcur E)
          as [l' [dfin [-> [_ [_ [Hs _]]]]]]. eauto.
      + exact (proj1 (transform_scalar_copy_err ct h0 l a c d k sp s Hl Hc Ha Hd Hflat Hdnc Hni Hfa Hty Hnc Hinit Hp f e s1 Hf Hcur Hpc E)).
    - pose proof (transform_scalar_inplace_refines ct h0 l a c d k sp s Hl Hc Ha Hd Hok Hfz Hni Hfa Hty Hnc Hp f Hf Hcur) as H.
      cbv zeta in H.
      destruct (run_helper ct l (HTransform a) (mkh [] true true VMissing false None None [] (Some f)) s) as [[r|e] s2].
      + destruct H as [H1 [H2 _]]. auto.
      + exact (proj1 H).
  Qed.

  (* reset_<a>() *)
  Theorem reset_copy_vs_inplace a sp :
    lookup_attr k a = Some sp -> ty_depth (a_ty sp) < FUEL -> ty_is_collection (a_ty sp) = false ->
    match a_prepare sp with Some g => scalar_fn g = true | None => True end ->
    literal_default a k sp -> vscalar (class_default k a) = true \/ class_default k a = VMissing ->
    same_outcome l (run_helper ct l (HReset a) (mkh [] false true VMissing false None None [] None) s)
                   (run_helper ct l (HReset a) (mkh [] true true VMissing false None None [] None) s).
  Proof.
    intros Ha Hty Hnc Hp Hlit Hdv.
    apply (same_outcome_from_spec l _ _ _ _
             (spec_flag_irrelevant (SReset a) (mkah [] false true AMissing false None None [] None)
                (mkah [] true true AMissing false None None [] None) eq_refl eq_refl eq_refl I (fun x => eq_refl))).
    - pose proof (reset_scalar_copy_unfrozen ct h0 l c d k s Hl Hc Hd Hflat Hdnc Hfz Hni Hfa Hpc a sp Ha Hty Hnc Hp Hlit Hdv) as H.
      cbv zeta in H.
      destruct (run_helper ct l (HReset a) (mkh [] false true VMissing false None None [] None) s) as [[r|e] s1].
      + destruct H as [l' [-> [_ [Hs _]]]]. eauto.
      + exact (proj1 H).
    - pose proof (reset_scalar_inplace_refines ct h0 l a c d k sp s Hl Hc Ha Hd Hok Hfz Hni Hfa Hty Hnc Hp Hlit Hdv) as H.
      cbv zeta in H.
      destruct (run_helper ct l (HReset a) (mkh [] true true VMissing false None None [] None) s) as [[r|e] s2].
      + destruct H as [H1 [H2 _]]. auto.
      + exact (proj1 H).
  Qed.

  (* update(a=v, ...) *)
  Theorem update_top_copy_vs_inplace p0 ps :
    forallb (kw_ok k) (p0 :: ps) = true ->
    same_outcome l (run_helper ct l HUpdateTop (mkh [] false true VMissing false None (Some (p0 :: ps)) [] None) s)
                   (run_helper ct l HUpdateTop (mkh [] true true VMissing false None (Some (p0 :: ps)) [] None) s).
  Proof.
    intro Hkws.
    apply (same_outcome_from_spec l _ _ _ _
             (spec_flag_irrelevant SUpdateTop (mkah [] false true AMissing false None (Some (akw (p0 :: ps))) [] None)
                (mkah [] true true AMissing false None (Some (akw (p0 :: ps))) [] None) eq_refl eq_refl eq_refl I (fun x => eq_refl))).
    - pose proof (update_top_copy_unfrozen ct h0 l c d k s Hl Hc Hd Hflat Hdnc Hfz Hni Hfa Hpc p0 ps Hkws) as H.
      cbv zeta in H.
      destruct (run_helper ct l HUpdateTop (mkh [] false true VMissing false None (Some (p0 :: ps)) [] None) s) as [[r|e] s1].
      + destruct H as [l' [-> [_ [Hs _]]]]. eauto.
      + exact (proj1 H).
    - pose proof (update_top_inplace_refines ct h0 l c k Hc Hfz Hni d s p0 ps Hl Hd Hok Hfa Hkws) as H.
      cbv zeta in H.
      destruct (run_helper ct l HUpdateTop (mkh [] true true VMissing false None (Some (p0 :: ps)) [] None) s) as [[r|e] s2].
      + destruct H as [H1 [H2 _]]. auto.
      + exact (proj1 H).
  Qed.

  (* transform(a=f, ...) *)
  Theorem transform_top_copy_vs_inplace p0 ps :
    forallb (kwfn_ok k d) (p0 :: ps) = true ->
    same_outcome l (run_helper ct l HTransformTop (mkh [] false true VMissing false None None (p0 :: ps) None) s)
                   (run_helper ct l HTransformTop (mkh [] true true VMissing false None None (p0 :: ps) None) s).
  Proof.
    intro Hkws.
    apply (same_outcome_from_spec l _ _ _ _
             (spec_flag_irrelevant STransformTop (mkah [] false true AMissing false None None (p0 :: ps) None)
                (mkah [] true true AMissing false None None (p0 :: ps) None) eq_refl eq_refl eq_refl I (fun x => eq_refl))).
    - pose proof (transform_top_copy_unfrozen ct h0 l c d k s Hl Hc Hd Hfz Hni Hfa p0 ps Hflat Hdnc Hpc Hkws) as H.
      cbv zeta in H.
      destruct (run_helper ct l HTransformTop (mkh [] false true VMissing false None None (p0 :: ps) None) s) as [[r|e] s1].
      + destruct H as [l' [-> [_ [Hs _]]]]. eauto.
      + exact (proj1 H).
    - pose proof (transform_top_inplace_refines ct h0 l c d k s Hl Hc Hd Hfz Hni Hfa p0 ps Hok Hkws) as H.
      cbv zeta in H.
      destruct (run_helper ct l HTransformTop (mkh [] true true VMissing false None None (p0 :: ps) None) s) as [[r|e] s2].
      + destruct H as [H1 [H2 _]]. auto.
      + exact (proj1 H).
  Qed.

  (* reset() *)
  Theorem reset_top_copy_vs_inplace :
    NoDup (map a_name (c_attrs k)) -> forallb (dep_ok k) (c_attrs k) = true ->
    same_outcome l (run_helper ct l HResetTop (mkh [] false true VMissing false None None [] None) s)
                   (run_helper ct l HResetTop (mkh [] true true VMissing false None None [] None) s).
  Proof.
    intros Hnames Hall.
    apply (same_outcome_from_spec l _ _ _ _
             (spec_flag_irrelevant SResetTop (mkah [] false true AMissing false None None [] None)
                (mkah [] true true AMissing false None None [] None) eq_refl eq_refl eq_refl I (fun x => eq_refl))).
    - pose proof (reset_top_copy_unfrozen ct h0 l c d k s Hl Hc Hd Hflat Hdnc Hfz Hni Hfa Hpc Hnames Hall) as H.
      cbv zeta in H.
      destruct (run_helper ct l HResetTop (mkh [] false true VMissing false None None [] None) s) as [[r|e] s1].
      + destruct H as [l' [-> [_ [Hs _]]]]. eauto.
      + exact (proj1 H).
    - pose proof (reset_top_inplace_refines ct h0 l c d k s Hl Hc Hd Hok Hfz Hni Hfa Hnames Hall) as H.
      cbv zeta in H.
      destruct (run_helper ct l HResetTop (mkh [] true true VMissing false None None [] None) s) as [[r|e] s2].
      + destruct H as [H1 [H2 _]]. auto.
      + exact (proj1 H).
  Qed.
End CopyVsInplace.
