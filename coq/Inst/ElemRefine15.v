(* C06: fifteenth layer: HISTORIES.  A successful in-place element-helper call
   rewrites the cell of the container with a container of scalars of the same
   family and changes no other cell: the side condition of the refinement
   theorems (elem_guard) therefore holds again after the call, so the
   single-call theorems chain over every history of such calls. *)
From Coq Require Import List ZArith Bool Arith Lia.
From SC Require Import Base.Res Base.PyList Inst.Heap Inst.ClassTable Inst.Model Inst.Canon
  Inst.Abs Inst.SpecHelpers Inst.ElemProofs Inst.Framed Inst.RefineProofs Inst.CopyProofs Inst.ElemRefineDep Inst.CopyStore
  Inst.ElemRefine Inst.ElemRefine2 Inst.ElemRefine3 Inst.ElemRefine4 Inst.ElemRefine5 Inst.ElemRefine6
  Inst.ElemRefine7 Inst.ElemRefine8 Inst.ElemRefine9 Inst.ElemRefine13.
Import ListNotations.
Open Scope nat_scope.

#[local] Opaque FUEL.
Local Opaque py_eq.

Inductive okind := KL | KD | KS | KI.
Definition obj_kind (o : obj) : okind :=
  match o with OList _ => KL | ODict _ => KD | OSet _ => KS | OInst _ _ => KI end.

(* ------------------------------------------------------------------ *)
(** * The edits keep the family of the container *)

Lemma list_with_pure_kind ct ity xs idx v ins o' : list_with_pure ct ity xs idx v ins = inl o' -> obj_kind o' = KL.
Proof.
  unfold list_with_pure. intro E.
  destruct idx; try (destruct (conforms ct ity (abs0 v)); inversion E; reflexivity).
  destruct ins.
  - destruct (conforms ct ity (abs0 v)); inversion E; reflexivity.
  - destruct (norm_index (zlen xs) z); [|discriminate]. destruct (conforms ct ity (abs0 v)); inversion E; reflexivity.
Qed.

Lemma list_without_pure_kind ct ity xs voi bi o' : list_without_pure ct ity xs voi bi = inl o' -> obj_kind o' = KL.
Proof.
  unfold list_without_pure. intro E. destruct (is_missing voi); [inversion E; reflexivity|].
  destruct (by_index_rule ct ity (abs0 voi) bi).
  - destruct (vint_of voi); [|discriminate]. destruct (norm_index (zlen xs) z); inversion E; reflexivity.
  - destruct (find_index _ (map abs0 xs)); inversion E; reflexivity.
Qed.

Lemma list_change_pure_kind ct ity xs voi bi pr o' : list_change_pure ct ity xs voi bi pr = inl o' -> obj_kind o' = KL.
Proof.
  unfold list_change_pure, list_change_fin. intro E.
  destruct (by_index_rule ct ity (abs0 voi) bi).
  - destruct (vint_of voi); [|discriminate]. destruct (norm_index (zlen xs) z) as [n|]; [|discriminate].
    destruct (pr (nth n xs VMissing)) as [v'|]; [|discriminate].
    destruct (conforms ct ity (abs0 v')); inversion E; reflexivity.
  - destruct (find_index _ (map abs0 xs)) as [n|]; [|discriminate].
    destruct (pr (nth n xs VMissing)) as [v'|]; [|discriminate].
    destruct (conforms ct ity (abs0 v')); inversion E; reflexivity.
Qed.

Lemma dict_with_pure_kind ct tk tv kvs key v o' : dict_with_pure ct tk tv kvs key v = inl o' -> obj_kind o' = KD.
Proof. unfold dict_with_pure. destruct (_ && _); intro E; inversion E; reflexivity. Qed.

Lemma dict_without_pure_kind ct kvs key o' : dict_without_pure ct kvs key = inl o' -> obj_kind o' = KD.
Proof. unfold dict_without_pure. destruct (find _ kvs); intro E; inversion E; reflexivity. Qed.

Lemma dict_change_pure_kind ct tk tv kvs voi pr o' : dict_change_pure ct tk tv kvs voi pr = inl o' -> obj_kind o' = KD.
Proof.
  unfold dict_change_pure. destruct (find _ kvs) as [p|]; [|discriminate].
  destruct (pr (snd p)) as [v'|]; [|discriminate]. destruct (_ && _); intro E; inversion E; reflexivity.
Qed.

Lemma set_with_pure_kind ct ity xs v o' : set_with_pure ct ity xs v = inl o' -> obj_kind o' = KS.
Proof. unfold set_with_pure. destruct (conforms ct ity (abs0 v)); intro E; inversion E; reflexivity. Qed.

Lemma set_without_pure_kind ct xs voi o' : set_without_pure ct xs voi = inl o' -> obj_kind o' = KS.
Proof. unfold set_without_pure. destruct (existsb _ xs); intro E; inversion E; reflexivity. Qed.

Lemma set_change_pure_kind ct ity xs voi pr o' : set_change_pure ct ity xs voi pr = inl o' -> obj_kind o' = KS.
Proof.
  unfold set_change_pure. destruct (existsb _ xs); [|discriminate].
  destruct (pr voi) as [v'|]; [|discriminate]. destruct (conforms ct ity (abs0 v')); intro E; inversion E; reflexivity.
Qed.

(* ------------------------------------------------------------------ *)
(** * The frame: what an in-place call does to the heap *)

(* the heap after the call: the cell lc holds a container of scalars of the same family,
   every other cell is as before *)
Definition cell_rewritten (s s' : state) (lc : loc) (o : obj) : Prop :=
  exists o', heap s' = set_nth lc o' (heap s) /\ scalar_obj o' = true /\ obj_kind o' = obj_kind o.

Section KeepFrame.
  Variable ct : ctable.
  Variables (l : loc) (a : aid) (c : cid) (d : list (aid * val)) (k : cls) (sp : attr_spec).
  Variable s : state.
  Variables (lc : loc) (o : obj).
  Hypothesis Hl : nth_error (heap s) l = Some (OInst c d).
  Hypothesis Hc : lookup_cls ct c = Some k.
  Hypothesis Ha : lookup_attr k a = Some sp.
  Hypothesis Hd : NoDup (map fst d).
  Hypothesis Hfz : c_frozen k = false.
  Hypothesis Hni : no_dep k a.
  Hypothesis Hfld : assoc a d = Some (VRef lc).
  Hypothesis Hlc : nth_error (heap s) lc = Some o.
  Hypothesis Ho : scalar_obj o = true.
  Hypothesis Hshare : forall b w, In (b, w) d -> b <> a -> w <> VRef lc.

  Variable tail : val -> M val.
  Variable pe : obj + err.
  Hypothesis Htail : forall s1 lc1, nth_error (heap s1) lc1 = Some o -> fail_at s1 = fail_at s ->
    exists st, heap st = heap s1 /\
    tail (VRef lc1) s1 =
    match pe with
    | inl o' => mutate_attr ct (exec ct XFUEL) l a (VRef lc1) true false false false (upd st lc1 o')
    | inr e => (Err e, st)
    end.
  Hypothesis Hsc : forall o', pe = inl o' -> scalar_obj o' = true.
  Hypothesis Hkind : forall o', pe = inl o' -> obj_kind o' = obj_kind o.

  Theorem ip_keeps res :
    res = bind (mk_mutator ct sp l true) tail s ->
    match res with
    | (Ok r, s') => cell_rewritten s s' lc o
    | (Err e, s') => heap s' = heap s
    end.
  Proof.
    intros ->.
    rewrite (bind_ok _ _ _ _ _ (fr_mk_mutator ct l a c d k sp s lc Hl Hc Ha Hfz Hfld)).
    destruct (Htail s lc Hlc eq_refl) as [st [Hst Et]]. rewrite Et. clear Et.
    destruct pe as [o'|e]; [|exact Hst].
    rewrite (fr_store_back ct l a c d k lc Hc Hd Hfz Hni Hfld _
               (fr_recv_after l a c d s lc o Hl Hfld Hlc Ho Hshare st o' Hst)).
    exists o'. split; [now rewrite heap_upd, Hst|]. split; [exact (Hsc o' eq_refl)|exact (Hkind o' eq_refl)].
  Qed.
End KeepFrame.

(* ------------------------------------------------------------------ *)
(** * The twelve calls *)

Definition keeps_cell (ct : ctable) (s : state) (l : loc) (hp : helper) (h : hargs) (lc : loc) (o : obj) : Prop :=
  match run_helper ct l hp h s with
  | (Ok _, s') => cell_rewritten s s' lc o
  | (Err _, s') => heap s' = heap s
  end.

Section KeepThms.
  Variable ct : ctable.
  Variables (l : loc) (a : aid) (c : cid) (d : list (aid * val)) (k : cls) (sp : attr_spec).
  Variable s : state.
  Variable lc : loc.
  Hypothesis Hl : nth_error (heap s) l = Some (OInst c d).
  Hypothesis Hc : lookup_cls ct c = Some k.
  Hypothesis Ha : lookup_attr k a = Some sp.
  Hypothesis Hd : NoDup (map fst d).
  Hypothesis Hfz : c_frozen k = false.
  Hypothesis Hni : no_dep k a.
  Hypothesis Hfld : assoc a d = Some (VRef lc).
  Hypothesis Hshare : forall b w, In (b, w) d -> b <> a -> w <> VRef lc.

  Lemma kp_run_with h : h_if h = true -> h_inplace h = true ->
    run_helper ct l (HWithItem a) h s = bind (mk_mutator ct sp l true) (with_tail ct l a sp h) s.
  Proof.
    intros Hif Hin. rewrite (run_with_tail ct l a h s Hif).
    rewrite (bind_ok _ _ _ _ _ (fr_spec_for ct l a c d k sp s Hl Hc Ha)). cbn [snd]. now rewrite Hin.
  Qed.
  Lemma kp_run_without h : h_if h = true -> h_inplace h = true ->
    run_helper ct l (HWithoutItem a) h s = bind (mk_mutator ct sp l true) (without_tail ct l a sp h) s.
  Proof.
    intros Hif Hin. rewrite (run_without_tail ct l a h s Hif).
    rewrite (bind_ok _ _ _ _ _ (fr_spec_for ct l a c d k sp s Hl Hc Ha)). cbn [snd]. now rewrite Hin.
  Qed.

  Ltac frame o Hlc Ho tl pe :=
    unfold keeps_cell;
    apply (ip_keeps ct l a c d k sp s lc o Hl Hc Ha Hd Hfz Hni Hfld Hlc Ho Hshare tl pe).

  Section L.
    Variables (xs : list val) (ity : ty).
    Hypothesis Hty : a_ty sp = TList ity.
    Hypothesis Hdepth : ty_depth ity < FUEL.
    Hypothesis Hlc : nth_error (heap s) lc = Some (OList xs).

    Theorem with_item_list_keeps idx v ins :
      forallb nonref xs = true -> a_prepare_item sp = None -> spec_of_ty_strict ity = None ->
      vscalar v = true -> (idx = VMissing \/ exists i, idx = VInt i) ->
      keeps_cell ct s l (HWithItem a) (mkh [v] true true idx ins None None [] None) lc (OList xs).
    Proof.
      intros Hxs Hprep Hstrict Hv Hidx.
      frame (OList xs) Hlc Hxs (with_tail ct l a sp (mkh [v] true true idx ins None None [] None)) (list_with_pure ct ity xs idx v ins).
      - intros s1 lc1 H1 _. exists s1. split; auto. now apply with_tail_list.
      - intros o' E. apply (list_with_pure_scalar ct ity xs idx v ins o'); auto. now apply vscalar_nonref.
      - intros o' E. exact (list_with_pure_kind ct ity xs idx v ins o' E).
      - now apply kp_run_with.
    Qed.

    Theorem without_item_list_keeps voi bi :
      forallb nonref xs = true -> nonref voi = true ->
      keeps_cell ct s l (HWithoutItem a) (mkh [voi] true true VMissing false bi None [] None) lc (OList xs).
    Proof.
      intros Hxs Hv.
      frame (OList xs) Hlc Hxs (without_tail ct l a sp (mkh [voi] true true VMissing false bi None [] None)) (list_without_pure ct ity xs voi bi).
      - intros s1 lc1 H1 _. exists s1. split; auto. now apply without_tail_list.
      - intros o' E. now apply (list_without_pure_scalar ct ity xs voi bi o').
      - intros o' E. exact (list_without_pure_kind ct ity xs voi bi o' E).
      - now apply kp_run_without.
    Qed.

    Theorem transform_item_list_keeps voi fo bi :
      forallb vscalar xs = true ->
      nonref voi = true -> is_missing voi = false -> fail_at s = None -> fo_ok fo ->
      (by_index_rule ct ity (abs0 voi) bi = false -> ident_on_eq ct xs voi = true) ->
      keeps_cell ct s l (HTransformItem a) (mkh [voi] true true VMissing false bi None [] fo) lc (OList xs).
    Proof.
      intros Hxs Hv Hm Hfa Hfo Hid.
      assert (Hxn : forallb nonref xs = true) by (now apply vscalar_forall_nonref).
      assert (Hin : forall old, In old xs -> vscalar old = true) by (intros old Ho; rewrite forallb_forall in Hxs; auto).
      assert (Hitem : item_type (a_ty sp) = ity) by (now rewrite Hty).
      assert (Hmv : forall s1, fail_at s1 = fail_at s -> forall old, vscalar old = true ->
                mutate_value ct (exec ct 39) (mkmv old VMissing false (PItem sp l) None (Some (ctor_of_ty ity)) (Some ity) (xf fo) [] false) s1
                = (trp fo old, stft fo s1)).
      { intros s1 Hf1 old Ho. pose proof (tr_mv ct l sp s fo Hfa Hfo s1 Hf1 old Ho) as E. now rewrite Hitem in E. }
      assert (Hval : by_index_rule ct ity (abs0 voi) bi = false ->
                     forall n, find_index (fun y => py_eq ct y (abs0 voi)) (map abs0 xs) = Some n ->
                       vscalar voi = true /\ trp fo voi = trp fo (nth n xs VMissing)).
      { intros Hb n Ef.
        assert (Hn : n < length xs) by (apply find_index_lt in Ef; now rewrite map_length in Ef).
        rewrite (ident_on_eq_found ct xs voi n Hxn Hv (Hid Hb) Ef). split; auto.
        rewrite <- (ident_on_eq_found ct xs voi n Hxn Hv (Hid Hb) Ef). apply Hin. now apply nth_In. }
      frame (OList xs) Hlc Hxn (transform_tail ct l a sp (mkh [voi] true true VMissing false bi None [] fo)) (list_change_pure ct ity xs voi bi (trp fo)).
      - intros s1 lc1 H1 Hf1. unfold transform_tail. rewrite Hty.
        cbn [family_of pos0 h_pos nth h_fn h_kwfn h_by_index h_inplace].
        exact (change_tail_list ct l a sp xs ity Hty Hdepth Hxs s VMissing (xf fo) (fun old => vscalar old = true)
                 (trp fo) (stft fo) (stft_heap fo) Hmv (tr_prn fo Hfo) Hin true voi bi s1 lc1 Hv Hm Hval H1 Hf1).
      - intros o'. apply (list_change_pure_scalar ct xs ity Hxs (trp fo) (tr_prn fo Hfo) voi bi o').
      - intros o' E. exact (list_change_pure_kind ct ity xs voi bi (trp fo) o' E).
      - exact (run_transform_ip ct l a c d k sp s Hl Hc Ha (mkh [voi] true true VMissing false bi None [] fo) eq_refl eq_refl).
    Qed.

    Theorem update_item_list_keeps voi v bi :
      forallb vscalar xs = true -> a_prepare_item sp = None -> spec_of_ty_strict ity = None ->
      nonref voi = true -> is_missing voi = false -> nonref v = true ->
      (vscalar v = false -> by_index_rule ct ity (abs0 voi) bi = false -> ident_on_eq ct xs voi = true) ->
      keeps_cell ct s l (HUpdateItem a) (mkh [voi; v] true true VMissing false bi None [] None) lc (OList xs).
    Proof.
      intros Hxs Hprep Hstrict Hv Hm Hnv Hid.
      assert (Hxn : forallb nonref xs = true) by (now apply vscalar_forall_nonref).
      assert (Hin0 : forall old, In old xs -> vscalar old = true) by (intros old Ho; rewrite forallb_forall in Hxs; auto).
      set (okold := fun old : val => vscalar v = true \/ vscalar old = true).
      assert (Hmv : forall s1, fail_at s1 = fail_at s -> forall old, okold old ->
                mutate_value ct (exec ct 39) (mkmv old v false (PItem sp l) None (Some (ctor_of_ty ity)) (Some ity) None [] false) s1
                = (up_pr v old, s1)).
      { intros s1 _ old Ho. unfold up_pr. destruct (vscalar v) eqn:Esv.
        - now apply mutate_value_update_scalar.
        - destruct Ho as [Ho|Ho]; [discriminate|]. rewrite Ho. now apply mutate_value_update_sentinel. }
      assert (Hin : forall old, In old xs -> okold old) by (intros old Ho; right; now apply Hin0).
      assert (Hval : by_index_rule ct ity (abs0 voi) bi = false ->
                     forall n, find_index (fun y => py_eq ct y (abs0 voi)) (map abs0 xs) = Some n ->
                       okold voi /\ up_pr v voi = up_pr v (nth n xs VMissing)).
      { intros Hb n Ef. unfold okold, up_pr. destruct (vscalar v) eqn:Esv; [split; auto|].
        assert (Hn : n < length xs) by (apply find_index_lt in Ef; now rewrite map_length in Ef).
        rewrite (ident_on_eq_found ct xs voi n Hxn Hv (Hid eq_refl Hb) Ef). split; auto. right.
        rewrite <- (ident_on_eq_found ct xs voi n Hxn Hv (Hid eq_refl Hb) Ef). apply Hin0. now apply nth_In. }
      frame (OList xs) Hlc Hxn (update_tail ct l a sp (mkh [voi; v] true true VMissing false bi None [] None)) (list_change_pure ct ity xs voi bi (up_pr v)).
      - intros s1 lc1 H1 Hf1. unfold update_tail. rewrite Hty.
        cbn [family_of pos0 pos1 h_pos nth h_kw h_by_index h_inplace]. rewrite Hm. cbn [negb].
        exact (change_tail_list ct l a sp xs ity Hty Hdepth Hxs s v None okold (up_pr v) (fun s1 => s1) (fun s1 => eq_refl)
                 Hmv (up_prn v Hnv) Hin true voi bi s1 lc1 Hv Hm Hval H1 Hf1).
      - intros o'. apply (list_change_pure_scalar ct xs ity Hxs (up_pr v) (up_prn v Hnv) voi bi o').
      - intros o' E. exact (list_change_pure_kind ct ity xs voi bi (up_pr v) o' E).
      - exact (run_update_ip ct l a c d k sp s Hl Hc Ha (mkh [voi; v] true true VMissing false bi None [] None) eq_refl eq_refl).
    Qed.
  End L.

  Section D.
    Variables (kvs : list (val * val)) (tk tv : ty).
    Hypothesis Hty : a_ty sp = TDict tk tv.
    Hypothesis Hdk : ty_depth tk < FUEL.
    Hypothesis Hdv : ty_depth tv < FUEL.
    Hypothesis Hlc : nth_error (heap s) lc = Some (ODict kvs).
    Hypothesis Hkvs : forallb pair_nonref kvs = true.

    Theorem with_item_dict_keeps key v :
      a_prepare_item sp = None -> spec_of_ty_strict tv = None -> nonref key = true -> vscalar v = true ->
      keeps_cell ct s l (HWithItem a) (mkh [key; v] true true VMissing false None None [] None) lc (ODict kvs).
    Proof.
      intros Hprep Hstrict Hk Hv.
      frame (ODict kvs) Hlc Hkvs (with_tail ct l a sp (mkh [key; v] true true VMissing false None None [] None)) (dict_with_pure ct tk tv kvs key v).
      - intros s1 lc1 H1 _. exists s1. split; auto. now apply with_tail_dict.
      - intros o' E. apply (dict_with_pure_scalar ct tk tv kvs key v o'); auto. now apply vscalar_nonref.
      - intros o' E. exact (dict_with_pure_kind ct tk tv kvs key v o' E).
      - now apply kp_run_with.
    Qed.

    Theorem without_item_dict_keeps key :
      nonref key = true ->
      keeps_cell ct s l (HWithoutItem a) (mkh [key] true true VMissing false None None [] None) lc (ODict kvs).
    Proof.
      intros Hk.
      frame (ODict kvs) Hlc Hkvs (without_tail ct l a sp (mkh [key] true true VMissing false None None [] None)) (dict_without_pure ct kvs key).
      - intros s1 lc1 H1 _. exists s1. split; auto. now apply (without_tail_dict ct l a sp tk tv).
      - intros o' E. now apply (dict_without_pure_scalar ct kvs key o').
      - intros o' E. exact (dict_without_pure_kind ct kvs key o' E).
      - now apply kp_run_without.
    Qed.

    Theorem transform_item_dict_keeps key fo bi :
      vals_proper kvs = true -> nonref key = true -> fail_at s = None -> fo_ok fo ->
      keeps_cell ct s l (HTransformItem a) (mkh [key] true true VMissing false bi None [] fo) lc (ODict kvs).
    Proof.
      intros Hvp Hk Hfa Hfo.
      frame (ODict kvs) Hlc Hkvs (transform_tail ct l a sp (mkh [key] true true VMissing false bi None [] fo)) (dict_change_pure ct tk tv kvs key (trp fo)).
      - exact (transform_tail_dict ct l a sp s kvs tk tv Hty Hdk Hdv Hkvs Hvp true key fo bi Hk Hfa Hfo).
      - intros o'. apply (dict_change_pure_scalar ct tk tv kvs Hkvs (trp fo) (tr_prn fo Hfo) key o' Hk).
      - intros o' E. exact (dict_change_pure_kind ct tk tv kvs key (trp fo) o' E).
      - exact (run_transform_ip ct l a c d k sp s Hl Hc Ha (mkh [key] true true VMissing false bi None [] fo) eq_refl eq_refl).
    Qed.

    Theorem update_item_dict_keeps key v :
      vals_proper kvs = true -> a_prepare_item sp = None -> spec_of_ty_strict tv = None ->
      nonref key = true -> nonref v = true ->
      keeps_cell ct s l (HUpdateItem a) (mkh [key; v] true true VMissing false None None [] None) lc (ODict kvs).
    Proof.
      intros Hvp Hprep Hstrict Hk Hnv.
      frame (ODict kvs) Hlc Hkvs (update_tail ct l a sp (mkh [key; v] true true VMissing false None None [] None)) (dict_change_pure ct tk tv kvs key (up_pr v)).
      - exact (update_tail_dict ct l a sp s kvs tk tv Hty Hdk Hdv Hkvs Hvp true key v Hprep Hstrict Hk Hnv).
      - intros o'. apply (dict_change_pure_scalar ct tk tv kvs Hkvs (up_pr v) (up_prn v Hnv) key o' Hk).
      - intros o' E. exact (dict_change_pure_kind ct tk tv kvs key (up_pr v) o' E).
      - exact (run_update_ip ct l a c d k sp s Hl Hc Ha (mkh [key; v] true true VMissing false None None [] None) eq_refl eq_refl).
    Qed.
  End D.

  Section S.
    Variables (xs : list val) (ity : ty).
    Hypothesis Hty : a_ty sp = TSet ity.
    Hypothesis Hdepth : ty_depth ity < FUEL.
    Hypothesis Hlc : nth_error (heap s) lc = Some (OSet xs).
    Hypothesis Hxs : forallb nonref xs = true.

    Theorem with_item_set_keeps v :
      a_prepare_item sp = None -> spec_of_ty_strict ity = None -> vscalar v = true ->
      keeps_cell ct s l (HWithItem a) (mkh [v] true true VMissing false None None [] None) lc (OSet xs).
    Proof.
      intros Hprep Hstrict Hv.
      frame (OSet xs) Hlc Hxs (with_tail ct l a sp (mkh [v] true true VMissing false None None [] None)) (set_with_pure ct ity xs v).
      - intros s1 lc1 H1 _. exists s1. split; auto. now apply with_tail_set.
      - intros o' E. apply (set_with_pure_scalar ct ity xs v o'); auto. now apply vscalar_nonref.
      - intros o' E. exact (set_with_pure_kind ct ity xs v o' E).
      - now apply kp_run_with.
    Qed.

    Theorem without_item_set_keeps voi :
      nonref voi = true ->
      keeps_cell ct s l (HWithoutItem a) (mkh [voi] true true VMissing false None None [] None) lc (OSet xs).
    Proof.
      intros Hv.
      frame (OSet xs) Hlc Hxs (without_tail ct l a sp (mkh [voi] true true VMissing false None None [] None)) (set_without_pure ct xs voi).
      - intros s1 lc1 H1 _. exists s1. split; auto. now apply (without_tail_set ct l a sp ity).
      - intros o' E. now apply (set_without_pure_scalar ct xs voi o').
      - intros o' E. exact (set_without_pure_kind ct xs voi o' E).
      - now apply kp_run_without.
    Qed.

    Theorem transform_item_set_keeps voi fo bi :
      vscalar voi = true -> fail_at s = None -> fo_ok fo ->
      keeps_cell ct s l (HTransformItem a) (mkh [voi] true true VMissing false bi None [] fo) lc (OSet xs).
    Proof.
      intros Hv Hfa Hfo.
      frame (OSet xs) Hlc Hxs (transform_tail ct l a sp (mkh [voi] true true VMissing false bi None [] fo)) (set_change_pure ct ity xs voi (trp fo)).
      - exact (transform_tail_set ct l a sp s xs ity Hty Hdepth Hxs true voi fo bi Hv Hfa Hfo).
      - intros o'. apply (set_change_pure_scalar ct ity xs Hxs (trp fo) (tr_prn fo Hfo) voi o').
      - intros o' E. exact (set_change_pure_kind ct ity xs voi (trp fo) o' E).
      - exact (run_transform_ip ct l a c d k sp s Hl Hc Ha (mkh [voi] true true VMissing false bi None [] fo) eq_refl eq_refl).
    Qed.

    Theorem update_item_set_keeps voi v :
      a_prepare_item sp = None -> spec_of_ty_strict ity = None -> vscalar voi = true -> nonref v = true ->
      keeps_cell ct s l (HUpdateItem a) (mkh [voi; v] true true VMissing false None None [] None) lc (OSet xs).
    Proof.
      intros Hprep Hstrict Hv Hnv.
      frame (OSet xs) Hlc Hxs (update_tail ct l a sp (mkh [voi; v] true true VMissing false None None [] None)) (set_change_pure ct ity xs voi (up_pr v)).
      - exact (update_tail_set ct l a sp s xs ity Hty Hdepth Hxs true voi v Hprep Hstrict Hv Hnv).
      - intros o'. apply (set_change_pure_scalar ct ity xs Hxs (up_pr v) (up_prn v Hnv) voi o').
      - intros o' E. exact (set_change_pure_kind ct ity xs voi (up_pr v) o' E).
      - exact (run_update_ip ct l a c d k sp s Hl Hc Ha (mkh [voi; v] true true VMissing false None None [] None) eq_refl eq_refl).
    Qed.
  End S.
End KeepThms.
