(* C05 refinement, nested values: with_<a>(x, _inplace=True) / obj.a = x where x is an
   existing instance (of a spec class) that does not reach the receiver: the
   reference is stored as it is (no copy), the abstraction of the receiver
   gets the abstraction of x under `a`; the type check is the
   specification's `conforms` (subclass test for spec annotations, through
   Optional / Union / Any). *)
From Coq Require Import List ZArith Bool Arith Lia.
From SC Require Import Base.Res Base.PyList Inst.Heap Inst.ClassTable Inst.Model Inst.Canon
  Inst.Abs Inst.SpecHelpers Inst.ElemProofs Inst.Framed Inst.RefineProofs Inst.CopyProofs Inst.RefineMore.
Import ListNotations.
Open Scope nat_scope.

#[local] Opaque FUEL.

Lemma check_type_inst ct h lv cv dv fl :
  nth_error h lv = Some (OInst cv dv) ->
  forall t f, ty_depth t < f -> check_type f ct h (VRef lv) t = conforms ct t (AInst cv fl).
Proof.
  intros Hv t. induction t; intros [|f] Hd; try lia; simpl in Hd; simpl; try reflexivity.
  - apply IHt. lia.
  - rewrite IHt1, IHt2 by lia. reflexivity.
  - now rewrite Hv.
  - now rewrite Hv.
  - now rewrite Hv.
  - now rewrite Hv.
Qed.

Section ValueInstance.
  Variable ct : ctable.
  Variable rec : call -> M val.

  Lemma mutate_value_instance old lv cv dv replace ctor ety inp s :
    nth_error (heap s) lv = Some (OInst cv dv) ->
    mutate_value ct rec (mkmv old (VRef lv) replace PNone None (Some ctor) (Some ety) None [] inp) s
    = (Ok (VRef lv), s).
  Proof.
    intro Hv. unfold mutate_value. cbn [mv_new]. unfold mutate_value_body.
    cbn [mv_new mv_old mv_replace mv_prepare mv_attrs mv_ctor mv_expected mv_transform mv_attr_transforms
         mv_inplace is_missing negb andb orb].
    cbn [bind ret get_heap]. rewrite Hv. reflexivity.
  Qed.

  Lemma mutate_value_instance_id old lv cv dv replace ctor ety inp s :
    nth_error (heap s) lv = Some (OInst cv dv) -> fail_at s = None ->
    mutate_value ct rec (mkmv old (VRef lv) replace (PAttr FId) None (Some ctor) (Some ety) None [] inp) s
    = (Ok (VRef lv), ticked s).
  Proof.
    intros Hv Hfa. unfold mutate_value. cbn [mv_new]. unfold mutate_value_body.
    cbn [mv_new mv_old mv_replace mv_prepare mv_attrs mv_ctor mv_expected mv_transform mv_attr_transforms
         mv_inplace is_missing negb andb orb].
    unfold apply_fn. rewrite bind_assoc. rewrite (bind_ok _ _ _ _ _ (tick_run s Hfa)).
    cbn [bind ret get_heap]. change (heap (ticked s)) with (heap s). rewrite Hv. reflexivity.
  Qed.
End ValueInstance.

Section WithInstance.
  Variable ct : ctable.
  Variable h0 : list obj.
  Variables (l : loc) (a : aid) (c : cid) (d : list (aid * val)) (k : cls) (sp : attr_spec).
  Variable s : state.
  Variables (lv : loc) (cv : cid) (dv : list (aid * val)).
  Hypothesis Hl : nth_error (heap s) l = Some (OInst c d).
  Hypothesis Hc : lookup_cls ct c = Some k.
  Hypothesis Ha : lookup_attr k a = Some sp.
  Hypothesis Hd : NoDup (map fst d).
  Hypothesis Hok : aok (absv (heap s) (VRef l)) = true.
  Hypothesis Hfz : c_frozen k = false.
  Hypothesis Hni : no_inval k.
  Hypothesis Hfa : fail_at s = None.
  Hypothesis Hty : ty_depth (a_ty sp) < FUEL.
  Hypothesis Hnc : ty_is_collection (a_ty sp) = false.
  Hypothesis Hprep : a_prepare sp = None \/ a_prepare sp = Some FId.
  (* the value: an instance, acyclic, not reaching the receiver *)
  Hypothesis Hv : nth_error (heap s) lv = Some (OInst cv dv).
  Hypothesis Hvok : aok (abs 23 (heap s) (VRef lv)) = true.
  Hypothesis Hindep : forall o, abs 23 (set_nth l o (heap s)) (VRef lv) = abs 23 (heap s) (VRef lv).

  Let flds := map (fun p => (fst p, abs 23 (heap s) (snd p))) (sorted_fields d).
  Let vflds := map (fun p => (fst p, abs 22 (heap s) (snd p))) (sorted_fields dv).

  Lemma abs_value : abs 23 (heap s) (VRef lv) = AInst cv vflds.
  Proof. exact (abs_inst (heap s) lv cv dv 22 Hv). Qed.

  Lemma absv_value : absv (heap s) (VRef lv) = AInst cv vflds.
  Proof. rewrite absv_unfold. rewrite (aok_mono 23 (heap s) (VRef lv) Hvok). exact abs_value. Qed.

  Lemma spec_with_instance rec' :
    (pv <~ prepared ct h0 rec' sp (AInst cv vflds) None ;; store ct rec' (AInst c flds) sp pv true) =
    if conforms ct (a_ty sp) (AInst cv vflds) then SOk (AInst c (fset a (AInst cv vflds) flds)) else SErr TypeErr.
  Proof.
    assert (Hprepd : prepared ct h0 rec' sp (AInst cv vflds) None = SOk (AInst cv vflds)).
    { unfold prepared. rewrite Hnc. destruct Hprep as [-> | ->]; reflexivity. }
    rewrite Hprepd. cbn [sbind]. unfold store. cbn [a_is_sentinel].
    destruct (conforms ct (a_ty sp) (AInst cv vflds)); cbn [negb]; [|reflexivity].
    rewrite (a_name_sp a k sp Ha). unfold invalidate, cls_for. rewrite Hc. cbn [sbind].
    rewrite invalidatees_none by auto. reflexivity.
  Qed.

  Theorem with_gen_instance_refines f0 :
    let ah := mkah [absv (heap s) (VRef lv)] true true AMissing false None None [] None in
    match with_inplace_gen ct (exec ct (S f0)) l a (VRef lv) s with
    | (Ok r, s') => r = VRef l /\
                    spec_helper ct h0 (absv (heap s) (VRef l)) (SWith a) ah = SOk (absv (heap s') (VRef l)) /\
                    (forall i, i <> l -> nth_error (heap s') i = nth_error (heap s) i)
    | (Err e, s') => spec_helper ct h0 (absv (heap s) (VRef l)) (SWith a) ah = SErr e /\ heap s' = heap s
    end.
  Proof.
    intro ah.
    assert (Hspec : spec_helper ct h0 (absv (heap s) (VRef l)) (SWith a) ah =
                    if conforms ct (a_ty sp) (AInst cv vflds) then SOk (AInst c (fset a (AInst cv vflds) flds))
                    else SErr TypeErr).
    { rewrite (spec_helper_inplace_unfrozen ct h0 l c d k s Hl Hc Hfz (SWith a) ah eq_refl). fold flds.
      unfold spec_unfrozen, spec_with, cls_for, apos0, ah. cbn [ah_pos nth ah_kw]. rewrite Hc. cbn [sbind]. rewrite Ha.
      rewrite absv_value. apply spec_with_instance. }
    rewrite Hspec. clear Hspec.
    unfold with_inplace_gen.
    rewrite (bind_ok _ _ _ _ _ (spec_for_run ct l a c d k sp s Hl Hc Ha s eq_refl)). cbn [snd].
    rewrite (a_name_sp a k sp Ha).
    (* the prepared value is the reference itself *)
    assert (Hpr : exists s1, prepare_attr_value ct (exec ct (S f0)) sp l (VRef lv) None s = (Ok (VRef lv), s1) /\
                             heap s1 = heap s).
    { unfold prepare_attr_value. rewrite Hnc, exec_S. cbn [body].
      destruct Hprep as [-> | ->].
      - exists s. split; [|reflexivity].
        now rewrite (bind_ok _ _ _ _ _ (mutate_value_instance ct _ VMissing lv cv dv false _ _ false s Hv)).
      - exists (ticked s). split; [|reflexivity].
        now rewrite (bind_ok _ _ _ _ _ (mutate_value_instance_id ct _ VMissing lv cv dv false _ _ false s Hv Hfa)). }
    destruct Hpr as [s1 [Hrun Hh1]]. rewrite (bind_ok _ _ _ _ _ Hrun).
    assert (Hl1 : nth_error (heap s1) l = Some (OInst c d)) by (now rewrite Hh1).
    assert (Hpass : negb (false || initializing d) && c_frozen k = false) by (rewrite Hfz; apply andb_false_r).
    rewrite (mutate_attr_inplace_pass ct _ l a (VRef lv) true false s1 c d k Hl1 Hc Hpass eq_refl Hni).
    rewrite Ha, Hh1. rewrite (check_type_inst ct (heap s) lv cv dv vflds Hv (a_ty sp) FUEL Hty).
    destruct (conforms ct (a_ty sp) (AInst cv vflds)).
    - split; [reflexivity|]. split.
      + rewrite heap_upd, Hh1, absv_unfold.
        rewrite (abs_inst_update (heap s) l c d 23 a (VRef lv) Hl Hd); [now rewrite abs_value| |exact Hindep].
        rewrite <- absv_unfold. exact Hok.
      + intros i Hi. rewrite heap_upd, Hh1. apply set_nth_other. intro E. apply Hi. now symmetry.
    - split; [reflexivity|exact Hh1].
  Qed.

  Corollary with_instance_inplace_refines :
    let h := mkh [VRef lv] true true VMissing false None None [] None in
    let ah := mkah [absv (heap s) (VRef lv)] true true AMissing false None None [] None in
    match run_helper ct l (HWith a) h s with
    | (Ok r, s') => r = VRef l /\
                    spec_helper ct h0 (absv (heap s) (VRef l)) (SWith a) ah = SOk (absv (heap s') (VRef l)) /\
                    (forall i, i <> l -> nth_error (heap s') i = nth_error (heap s) i)
    | (Err e, s') => spec_helper ct h0 (absv (heap s) (VRef l)) (SWith a) ah = SErr e /\ heap s' = heap s
    end.
  Proof.
    intros h ah. unfold h. rewrite run_helper_with_inplace, XFUEL_S. exact (with_gen_instance_refines 39).
  Qed.

  Corollary setattr_instance_refines roots x :
    nth x roots VNone = VRef l ->
    let ah := mkah [absv (heap s) (VRef lv)] true true AMissing false None None [] None in
    match step ct roots (OpSetAttr x a (VRef lv)) s with
    | (Ok r, s') => spec_helper ct h0 (absv (heap s) (VRef l)) (SSetAttrOp a) ah = SOk (absv (heap s') (VRef l)) /\
                    (forall i, i <> l -> nth_error (heap s') i = nth_error (heap s) i)
    | (Err e, s') => spec_helper ct h0 (absv (heap s) (VRef l)) (SSetAttrOp a) ah = SErr e /\ heap s' = heap s
    end.
  Proof.
    intros Hx ah. rewrite (step_setattr ct roots x a (VRef lv) l s Hx).
    assert (Hman : forall c0 d0 k0, nth_error (heap s) l = Some (OInst c0 d0) -> lookup_cls ct c0 = Some k0 ->
                                    lookup_attr k0 a <> None).
    { intros c0 d0 k0 E1 E2. rewrite Hl in E1. inversion E1; subst. rewrite Hc in E2. inversion E2; subst.
      rewrite Ha. discriminate. }
    unfold bind. rewrite (setattr_is_with_inplace ct (exec ct 39) l a (VRef lv) s Hman).
    pose proof (with_gen_instance_refines 38) as H. cbv zeta in H.
    assert (Hsame : spec_helper ct h0 (absv (heap s) (VRef l)) (SSetAttrOp a) ah =
                    spec_helper ct h0 (absv (heap s) (VRef l)) (SWith a) ah).
    { rewrite !(spec_helper_inplace_unfrozen ct h0 l c d k s Hl Hc Hfz _ ah eq_refl). reflexivity. }
    rewrite Hsame.
    destruct (with_inplace_gen ct (exec ct 39) l a (VRef lv) s) as [[r|e] s']; [destruct H as [_ H]|]; exact H.
  Qed.
End WithInstance.

(* a sufficient condition for "does not reach the receiver": the value lives in a closed
   region of the heap below the receiver's cell *)
Lemma indep_below b h l v n : closed b h -> val_below b v -> b <= l ->
  forall o, abs n (set_nth l o h) v = abs n h v.
Proof.
  intros Hcl Hv Hb o. apply (abs_agree b h (set_nth l o h) Hcl); [|exact Hv].
  intros i Hi. apply set_nth_other. lia.
Qed.
