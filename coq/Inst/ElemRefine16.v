(* C06: sixteenth layer: histories of copy-on-write calls.  The instance a
   copy-on-write element-helper call returns is again a flat instance whose
   attribute holds a container of scalars of the same family: the side condition
   of the copy-on-write theorems (copy_guard) holds for the RESULT, so the
   theorems chain along `a.with_x(1).without_x(0).with_x(2)...`. *)
From Coq Require Import List ZArith Bool Arith Lia.
From SC Require Import Base.Res Base.PyList Inst.Heap Inst.ClassTable Inst.Model Inst.Canon
  Inst.Abs Inst.SpecHelpers Inst.ElemProofs Inst.Framed Inst.RefineProofs Inst.CopyProofs Inst.ElemRefineDep Inst.CopyStore
  Inst.ElemRefine Inst.ElemRefine2 Inst.ElemRefine3 Inst.ElemRefine4 Inst.ElemRefine5 Inst.ElemRefine6
  Inst.ElemRefine7 Inst.ElemRefine8 Inst.ElemRefine9 Inst.ElemRefine13 Inst.ElemRefine15.
Import ListNotations.
Open Scope nat_scope.

#[local] Opaque FUEL.
Local Opaque py_eq.

(* the shape of the instance a copy-on-write call returns *)
Definition copy_shape (s' : state) (l' : loc) (a : aid) (c : cid) (o : obj) : Prop :=
  exists dfin lp o',
    nth_error (heap s') l' = Some (OInst c dfin) /\ NoDup (map fst dfin) /\ flat_fields (heap s') dfin /\
    assoc a dfin = Some (VRef lp) /\ assoc A_INITIALIZING dfin = None /\
    nth_error (heap s') lp = Some o' /\ scalar_obj o' = true /\ obj_kind o' = obj_kind o.

Section CopyShape.
  Variable ct : ctable.
  Variable rec : call -> M val.

  Lemma mutate_attr_copy_ref_shape l a lv ov s c d k :
    nth_error (heap s) l = Some (OInst c d) -> lookup_cls ct c = Some k ->
    c_dnc k = false -> c_post_copy k = None -> no_dep k a -> flat_fields (heap s) d -> NoDup (map fst d) ->
    assoc A_INITIALIZING d = None -> a <> A_INITIALIZING ->
    nth_error (heap s) lv = Some ov -> scalar_obj ov = true -> same_object (assoc a d) (VRef lv) = false ->
    exists l' s' dfin,
      mutate_attr ct rec l a (VRef lv) false false false false s = (Ok (VRef l'), s') /\
      nth_error (heap s') l' = Some (OInst c dfin) /\ NoDup (map fst dfin) /\ flat_fields (heap s') dfin /\
      assoc a dfin = Some (VRef lv) /\ assoc A_INITIALIZING dfin = None /\ nth_error (heap s') lv = Some ov.
  Proof.
    intros Hl Hc Hdnc Hpc Hni Hflat Hnd Hinit Ha0 Hlv Hov Hso.
    destruct (deepcopy_flat_ok ct l s c d k Hl Hc Hdnc Hflat Hpc) as [r0 [s2 Hdc]].
    destruct (deepcopy_flat_abs ct l s c d k r0 s2 0 Hl Hc Hdnc Hflat Hdc)
      as [l' [d' [-> [Hfresh [Hcell' [Hkeys [Hflat' [_ [Hfail Hsame]]]]]]]]].
    assert (Hinit' : assoc A_INITIALIZING d' = None).
    { pose proof (proj1 (assoc_none_notin A_INITIALIZING d) Hinit) as Hn.
      apply assoc_none_notin. intro Hin. apply Hn.
      exact (eq_ind _ (fun l0 => In A_INITIALIZING l0) Hin _ Hkeys). }
    assert (Hlen' : l' < length (heap s2)) by (apply nth_error_Some; congruence).
    assert (Hnd' : NoDup (map fst d')) by (exact (eq_ind _ (fun l0 => NoDup l0) Hnd _ (eq_sym Hkeys))).
    assert (Hlvlt : lv < length (heap s)) by (apply nth_error_Some; congruence).
    assert (Hlv2 : nth_error (heap s2) lv = Some ov) by (rewrite Hsame; auto).
    assert (Hlvne : lv <> l') by lia.
    set (dfin := stored (c_frozen k) a (VRef lv) d').
    exists l', (upd s2 l' (OInst c dfin)), dfin.
    split; [|split; [|split; [|split; [|split; [|split]]]]].
    - unfold mutate_attr. cbn [is_sentinel].
      rewrite (bind_ok _ _ _ _ _ (read_inst_at l s c d Hl)). cbn [fst snd].
      rewrite (bind_ok _ _ _ _ _ (cls_of_at ct c s k Hc)).
      rewrite andb_false_r. cbn [andb]. rewrite bind_ret.
      assert (Etc : (match lookup_attr k a with
                     | Some sp => if false then (ok <- check_typeM ct (VRef lv) (a_ty sp) ;; if ok then ret tt else fail TypeErr)
                                  else ret tt
                     | None => ret tt end) = ret tt) by (destruct (lookup_attr k a); reflexivity).
      rewrite Etc, bind_ret. rewrite Hdnc, Hso. cbn [orb negb andb].
      rewrite bind_assoc. rewrite (bind_ok _ _ _ _ _ Hdc). cbn [loc_of]. rewrite !bind_ret.
      rewrite (bind_ok _ _ _ _ _ (thawed_store_run_nodep ct rec l' a (VRef lv) s2 c d' k Hcell' Hc Hni Hinit')).
      reflexivity.
    - now apply upd_at.
    - now apply stored_nodup.
    - intros p Hp. destruct p as [b0 w]. cbn [snd]. apply stored_in in Hp.
      destruct Hp as [E|Hp].
      + inversion E; subst. right. exists lv, ov. split; auto. split; auto. rewrite heap_upd, set_nth_other; auto.
      + destruct (Hflat' (b0, w) Hp) as [Hw|[lx [o [Ew [Ho Hso']]]]]; cbn [snd] in *; [left; auto|].
        right. exists lx, o. split; auto. split; auto.
        assert (lx <> l') by (intro; subst lx; rewrite Hcell' in Ho; inversion Ho; subst o; discriminate).
        rewrite heap_upd, set_nth_other; auto.
    - unfold dfin. rewrite stored_lookup by auto. now rewrite Nat.eqb_refl.
    - unfold dfin. rewrite stored_lookup by auto. destruct (a =? A_INITIALIZING) eqn:E; auto.
      apply Nat.eqb_eq in E. congruence.
    - rewrite heap_upd, set_nth_other; auto.
  Qed.
End CopyShape.

(* ------------------------------------------------------------------ *)
(** * The frame *)

Section CopyKeepFrame.
  Variable ct : ctable.
  Variables (l : loc) (a : aid) (c : cid) (d : list (aid * val)) (k : cls) (sp : attr_spec).
  Variable s : state.
  Variables (lc : loc) (o : obj).
  Hypothesis Hl : nth_error (heap s) l = Some (OInst c d).
  Hypothesis Hc : lookup_cls ct c = Some k.
  Hypothesis Ha : lookup_attr k a = Some sp.
  Hypothesis Hd : NoDup (map fst d).
  Hypothesis Hdnc : c_dnc k = false.
  Hypothesis Hpc : c_post_copy k = None.
  Hypothesis Hni : no_dep k a.
  Hypothesis Hfld : assoc a d = Some (VRef lc).
  Hypothesis Hlc : nth_error (heap s) lc = Some o.
  Hypothesis Ho : scalar_obj o = true.
  Hypothesis Hflat : flat_fields (heap s) d.
  Hypothesis Hinit : assoc A_INITIALIZING d = None.
  Hypothesis Ha0 : a <> A_INITIALIZING.

  Variable tail : val -> M val.
  Variable pe : obj + err.
  Hypothesis Htail : forall s1 lc1, nth_error (heap s1) lc1 = Some o -> fail_at s1 = fail_at s ->
    exists st, heap st = heap s1 /\
    tail (VRef lc1) s1 =
    match pe with
    | inl o' => mutate_attr ct (exec ct XFUEL) l a (VRef lc1) false false false false (upd st lc1 o')
    | inr e => (Err e, st)
    end.
  Hypothesis Hsc : forall o', pe = inl o' -> scalar_obj o' = true.
  Hypothesis Hkind : forall o', pe = inl o' -> obj_kind o' = obj_kind o.

  Let lp := length (heap s).

  Theorem fc_keeps res :
    res = bind (mk_mutator ct sp l false) tail s ->
    match res with
    | (Ok r, s') => exists l', r = VRef l' /\ copy_shape s' l' a c o
    | (Err e, s') => True
    end.
  Proof.
    intros ->.
    assert (Hcoll_unused : True) by exact I.
    assert (Hmk : mk_mutator ct sp l false s = (Ok (VRef lp), push s o)).
    { unfold mk_mutator. rewrite (bind_ok _ _ _ _ _ (read_inst_at l s c d Hl)). cbn [fst snd].
      rewrite (bind_ok _ _ _ _ _ (cls_of_at ct c s k Hc)). cbn [andb]. rewrite bind_ret.
      rewrite (name_sp a k sp Ha). rewrite (bind_ok _ _ _ _ _ (getattr_default_at ct l a s c d _ Hl Hfld)).
      cbn [is_missing orb]. unfold protect. cbn [val_is_scalar].
      rewrite deepcopy_unfold.
      rewrite (bind_ok _ _ _ _ _ (dc_scalar_obj ct (S 61) lc o (@nil (loc * loc)) s Hlc Ho eq_refl)).
      reflexivity. }
    rewrite (bind_ok _ _ _ _ _ Hmk).
    assert (Hlp : nth_error (heap (push s o)) lp = Some o).
    { unfold push, lp. cbn [heap]. now rewrite nth_error_app2, Nat.sub_diag by lia. }
    destruct (Htail (push s o) lp Hlp eq_refl) as [st [Hst Et]]. rewrite Et. clear Et.
    assert (Hold_p : old_cells_kept s st).
    { intros i Hi. rewrite Hst. unfold push. cbn [heap]. now apply nth_error_app1. }
    destruct pe as [o'|e]; [|exact I].
    set (se := upd st lp o').
    assert (Hold_e : old_cells_kept s se).
    { intros i Hi. unfold se. rewrite heap_upd, set_nth_other by (unfold lp; lia). now apply Hold_p. }
    assert (Hl_e : nth_error (heap se) l = Some (OInst c d)).
    { rewrite Hold_e; auto. apply nth_error_Some. congruence. }
    assert (Hlp_e : nth_error (heap se) lp = Some o').
    { unfold se. apply upd_at. rewrite Hst. unfold push. cbn [heap]. rewrite app_length. cbn [length]. unfold lp. lia. }
    assert (Hflat_e : flat_fields (heap se) d).
    { intros p Hp. destruct (Hflat p Hp) as [Hn|[lx [ox [E [Hx Hs]]]]]; [left; auto|].
      right. exists lx, ox. split; auto. split; auto. rewrite Hold_e; auto. apply nth_error_Some. congruence. }
    assert (Hso : same_object (assoc a d) (VRef lp) = false).
    { rewrite Hfld. cbn [same_object]. apply Nat.eqb_neq. unfold lp.
      assert (lc < length (heap s)) by (apply nth_error_Some; congruence). lia. }
    destruct (mutate_attr_copy_ref_shape ct (exec ct XFUEL) l a lp o' se c d k Hl_e Hc Hdnc Hpc Hni Hflat_e Hd Hinit Ha0
                Hlp_e (Hsc o' eq_refl) Hso) as [l' [s' [dfin [Hrun [H1 [H2 [H3 [H4 [H5 H6]]]]]]]]].
    fold se. rewrite Hrun. exists l'. split; [reflexivity|].
    exists dfin, lp, o'. repeat (split; [assumption|]). split; [exact (Hsc o' eq_refl)|exact (Hkind o' eq_refl)].
  Qed.
End CopyKeepFrame.

(* ------------------------------------------------------------------ *)
(** * The twelve copy-on-write calls *)

Definition keeps_shape (ct : ctable) (s : state) (l : loc) (a : aid) (c : cid) (hp : helper) (h : hargs) (o : obj) : Prop :=
  match run_helper ct l hp h s with
  | (Ok r, s') => exists l', r = VRef l' /\ copy_shape s' l' a c o
  | (Err _, s') => True
  end.

Section CopyKeepThms.
  Variable ct : ctable.
  Variables (l : loc) (a : aid) (c : cid) (d : list (aid * val)) (k : cls) (sp : attr_spec).
  Variable s : state.
  Variable lc : loc.
  Hypothesis Hl : nth_error (heap s) l = Some (OInst c d).
  Hypothesis Hc : lookup_cls ct c = Some k.
  Hypothesis Ha : lookup_attr k a = Some sp.
  Hypothesis Hd : NoDup (map fst d).
  Hypothesis Hdnc : c_dnc k = false.
  Hypothesis Hpc : c_post_copy k = None.
  Hypothesis Hni : no_dep k a.
  Hypothesis Hfld : assoc a d = Some (VRef lc).
  Hypothesis Hflat : flat_fields (heap s) d.
  Hypothesis Hinit : assoc A_INITIALIZING d = None.
  Hypothesis Ha0 : a <> A_INITIALIZING.

  Lemma ck_run_with h : h_if h = true -> h_inplace h = false ->
    run_helper ct l (HWithItem a) h s = bind (mk_mutator ct sp l false) (with_tail ct l a sp h) s.
  Proof.
    intros Hif Hin. rewrite (run_with_tail ct l a h s Hif).
    rewrite (bind_ok _ _ _ _ _ (fr_spec_for ct l a c d k sp s Hl Hc Ha)). cbn [snd]. now rewrite Hin.
  Qed.
  Lemma ck_run_without h : h_if h = true -> h_inplace h = false ->
    run_helper ct l (HWithoutItem a) h s = bind (mk_mutator ct sp l false) (without_tail ct l a sp h) s.
  Proof.
    intros Hif Hin. rewrite (run_without_tail ct l a h s Hif).
    rewrite (bind_ok _ _ _ _ _ (fr_spec_for ct l a c d k sp s Hl Hc Ha)). cbn [snd]. now rewrite Hin.
  Qed.

  Ltac frame o Hlc Ho tl pe :=
    unfold keeps_shape;
    apply (fc_keeps ct l a c d k sp s lc o Hl Hc Ha Hd Hdnc Hpc Hni Hfld Hlc Ho Hflat Hinit Ha0 tl pe).

  Section L.
    Variables (xs : list val) (ity : ty).
    Hypothesis Hty : a_ty sp = TList ity.
    Hypothesis Hdepth : ty_depth ity < FUEL.
    Hypothesis Hlc : nth_error (heap s) lc = Some (OList xs).

    Theorem with_item_list_copy_keeps idx v ins :
      forallb nonref xs = true -> a_prepare_item sp = None -> spec_of_ty_strict ity = None ->
      vscalar v = true -> (idx = VMissing \/ exists i, idx = VInt i) ->
      keeps_shape ct s l a c (HWithItem a) (mkh [v] false true idx ins None None [] None) (OList xs).
    Proof.
      intros Hxs Hprep Hstrict Hv Hidx.
      frame (OList xs) Hlc Hxs (with_tail ct l a sp (mkh [v] false true idx ins None None [] None)) (list_with_pure ct ity xs idx v ins).
      - intros s1 lc1 H1 _. exists s1. split; auto. now apply with_tail_list.
      - intros o' E. apply (list_with_pure_scalar ct ity xs idx v ins o'); auto. now apply vscalar_nonref.
      - intros o' E. exact (list_with_pure_kind ct ity xs idx v ins o' E).
      - now apply ck_run_with.
    Qed.

    Theorem without_item_list_copy_keeps voi bi :
      forallb nonref xs = true -> nonref voi = true ->
      keeps_shape ct s l a c (HWithoutItem a) (mkh [voi] false true VMissing false bi None [] None) (OList xs).
    Proof.
      intros Hxs Hv.
      frame (OList xs) Hlc Hxs (without_tail ct l a sp (mkh [voi] false true VMissing false bi None [] None)) (list_without_pure ct ity xs voi bi).
      - intros s1 lc1 H1 _. exists s1. split; auto. now apply without_tail_list.
      - intros o' E. now apply (list_without_pure_scalar ct ity xs voi bi o').
      - intros o' E. exact (list_without_pure_kind ct ity xs voi bi o' E).
      - now apply ck_run_without.
    Qed.

    Theorem transform_item_list_copy_keeps voi fo bi :
      forallb vscalar xs = true ->
      nonref voi = true -> is_missing voi = false -> fail_at s = None -> fo_ok fo ->
      (by_index_rule ct ity (abs0 voi) bi = false -> ident_on_eq ct xs voi = true) ->
      keeps_shape ct s l a c (HTransformItem a) (mkh [voi] false true VMissing false bi None [] fo) (OList xs).
    Proof.
      intros Hxs Hv Hm Hfa Hfo Hid.
      assert (Hxn : forallb nonref xs = true) by (now apply vscalar_forall_nonref).
      assert (Hin : forall old, In old xs -> vscalar old = true) by (intros old Ho; rewrite forallb_forall in Hxs; auto).
      assert (Hitem : item_type (a_ty sp) = ity) by (now rewrite Hty).
      assert (Hmv : forall s1, fail_at s1 = fail_at s -> forall old, vscalar old = true ->
                mutate_value ct (exec ct 39) (mkmv old VMissing false (PItem sp l) None (Some (ctor_of_ty ity)) (Some ity) (xf fo) [] false) s1
                = (trp fo old, stft fo s1)).
      { intros s1 Hf1 old Ho. pose proof (tr_mv ct l sp s fo Hfa Hfo s1 Hf1 old Ho) as E. now rewrite Hitem in E. }
      assert (Hval : by_index_rule ct ity (abs0 voi) bi = false ->
                     forall n, find_index (fun y => py_eq ct y (abs0 voi)) (map abs0 xs) = Some n ->
                       vscalar voi = true /\ trp fo voi = trp fo (nth n xs VMissing)).
      { intros Hb n Ef.
        assert (Hn : n < length xs) by (apply find_index_lt in Ef; now rewrite map_length in Ef).
        rewrite (ident_on_eq_found ct xs voi n Hxn Hv (Hid Hb) Ef). split; auto.
        rewrite <- (ident_on_eq_found ct xs voi n Hxn Hv (Hid Hb) Ef). apply Hin. now apply nth_In. }
      frame (OList xs) Hlc Hxn (transform_tail ct l a sp (mkh [voi] false true VMissing false bi None [] fo)) (list_change_pure ct ity xs voi bi (trp fo)).
      - intros s1 lc1 H1 Hf1. unfold transform_tail. rewrite Hty.
        cbn [family_of pos0 h_pos nth h_fn h_kwfn h_by_index h_inplace].
        exact (change_tail_list ct l a sp xs ity Hty Hdepth Hxs s VMissing (xf fo) (fun old => vscalar old = true)
                 (trp fo) (stft fo) (stft_heap fo) Hmv (tr_prn fo Hfo) Hin false voi bi s1 lc1 Hv Hm Hval H1 Hf1).
      - intros o'. apply (list_change_pure_scalar ct xs ity Hxs (trp fo) (tr_prn fo Hfo) voi bi o').
      - intros o' E. exact (list_change_pure_kind ct ity xs voi bi (trp fo) o' E).
      - exact (run_transform_cp ct l a c d k sp s Hl Hc Ha (mkh [voi] false true VMissing false bi None [] fo) eq_refl eq_refl).
    Qed.

    Theorem update_item_list_copy_keeps voi v bi :
      forallb vscalar xs = true -> a_prepare_item sp = None -> spec_of_ty_strict ity = None ->
      nonref voi = true -> is_missing voi = false -> nonref v = true ->
      (vscalar v = false -> by_index_rule ct ity (abs0 voi) bi = false -> ident_on_eq ct xs voi = true) ->
      keeps_shape ct s l a c (HUpdateItem a) (mkh [voi; v] false true VMissing false bi None [] None) (OList xs).
    Proof.
      intros Hxs Hprep Hstrict Hv Hm Hnv Hid.
      assert (Hxn : forallb nonref xs = true) by (now apply vscalar_forall_nonref).
      assert (Hin0 : forall old, In old xs -> vscalar old = true) by (intros old Ho; rewrite forallb_forall in Hxs; auto).
      set (okold := fun old : val => vscalar v = true \/ vscalar old = true).
      assert (Hmv : forall s1, fail_at s1 = fail_at s -> forall old, okold old ->
                mutate_value ct (exec ct 39) (mkmv old v false (PItem sp l) None (Some (ctor_of_ty ity)) (Some ity) None [] false) s1
                = (up_pr v old, s1)).
      { intros s1 _ old Ho. unfold up_pr. destruct (vscalar v) eqn:Esv.
        - now apply mutate_value_update_scalar.
        - destruct Ho as [Ho|Ho]; [discriminate|]. rewrite Ho. now apply mutate_value_update_sentinel. }
      assert (Hin : forall old, In old xs -> okold old) by (intros old Ho; right; now apply Hin0).
      assert (Hval : by_index_rule ct ity (abs0 voi) bi = false ->
                     forall n, find_index (fun y => py_eq ct y (abs0 voi)) (map abs0 xs) = Some n ->
                       okold voi /\ up_pr v voi = up_pr v (nth n xs VMissing)).
      { intros Hb n Ef. unfold okold, up_pr. destruct (vscalar v) eqn:Esv; [split; auto|].
        assert (Hn : n < length xs) by (apply find_index_lt in Ef; now rewrite map_length in Ef).
        rewrite (ident_on_eq_found ct xs voi n Hxn Hv (Hid eq_refl Hb) Ef). split; auto. right.
        rewrite <- (ident_on_eq_found ct xs voi n Hxn Hv (Hid eq_refl Hb) Ef). apply Hin0. now apply nth_In. }
      frame (OList xs) Hlc Hxn (update_tail ct l a sp (mkh [voi; v] false true VMissing false bi None [] None)) (list_change_pure ct ity xs voi bi (up_pr v)).
      - intros s1 lc1 H1 Hf1. unfold update_tail. rewrite Hty.
        cbn [family_of pos0 pos1 h_pos nth h_kw h_by_index h_inplace]. rewrite Hm. cbn [negb].
        exact (change_tail_list ct l a sp xs ity Hty Hdepth Hxs s v None okold (up_pr v) (fun s1 => s1) (fun s1 => eq_refl)
                 Hmv (up_prn v Hnv) Hin false voi bi s1 lc1 Hv Hm Hval H1 Hf1).
      - intros o'. apply (list_change_pure_scalar ct xs ity Hxs (up_pr v) (up_prn v Hnv) voi bi o').
      - intros o' E. exact (list_change_pure_kind ct ity xs voi bi (up_pr v) o' E).
      - exact (run_update_cp ct l a c d k sp s Hl Hc Ha (mkh [voi; v] false true VMissing false bi None [] None) eq_refl eq_refl).
    Qed.
  End L.

  Section D.
    Variables (kvs : list (val * val)) (tk tv : ty).
    Hypothesis Hty : a_ty sp = TDict tk tv.
    Hypothesis Hdk : ty_depth tk < FUEL.
    Hypothesis Hdv : ty_depth tv < FUEL.
    Hypothesis Hlc : nth_error (heap s) lc = Some (ODict kvs).
    Hypothesis Hkvs : forallb pair_nonref kvs = true.

    Theorem with_item_dict_copy_keeps key v :
      a_prepare_item sp = None -> spec_of_ty_strict tv = None -> nonref key = true -> vscalar v = true ->
      keeps_shape ct s l a c (HWithItem a) (mkh [key; v] false true VMissing false None None [] None) (ODict kvs).
    Proof.
      intros Hprep Hstrict Hk Hv.
      frame (ODict kvs) Hlc Hkvs (with_tail ct l a sp (mkh [key; v] false true VMissing false None None [] None)) (dict_with_pure ct tk tv kvs key v).
      - intros s1 lc1 H1 _. exists s1. split; auto. now apply with_tail_dict.
      - intros o' E. apply (dict_with_pure_scalar ct tk tv kvs key v o'); auto. now apply vscalar_nonref.
      - intros o' E. exact (dict_with_pure_kind ct tk tv kvs key v o' E).
      - now apply ck_run_with.
    Qed.

    Theorem without_item_dict_copy_keeps key :
      nonref key = true ->
      keeps_shape ct s l a c (HWithoutItem a) (mkh [key] false true VMissing false None None [] None) (ODict kvs).
    Proof.
      intros Hk.
      frame (ODict kvs) Hlc Hkvs (without_tail ct l a sp (mkh [key] false true VMissing false None None [] None)) (dict_without_pure ct kvs key).
      - intros s1 lc1 H1 _. exists s1. split; auto. now apply (without_tail_dict ct l a sp tk tv).
      - intros o' E. now apply (dict_without_pure_scalar ct kvs key o').
      - intros o' E. exact (dict_without_pure_kind ct kvs key o' E).
      - now apply ck_run_without.
    Qed.

    Theorem transform_item_dict_copy_keeps key fo bi :
      vals_proper kvs = true -> nonref key = true -> fail_at s = None -> fo_ok fo ->
      keeps_shape ct s l a c (HTransformItem a) (mkh [key] false true VMissing false bi None [] fo) (ODict kvs).
    Proof.
      intros Hvp Hk Hfa Hfo.
      frame (ODict kvs) Hlc Hkvs (transform_tail ct l a sp (mkh [key] false true VMissing false bi None [] fo)) (dict_change_pure ct tk tv kvs key (trp fo)).
      - exact (transform_tail_dict ct l a sp s kvs tk tv Hty Hdk Hdv Hkvs Hvp false key fo bi Hk Hfa Hfo).
      - intros o'. apply (dict_change_pure_scalar ct tk tv kvs Hkvs (trp fo) (tr_prn fo Hfo) key o' Hk).
      - intros o' E. exact (dict_change_pure_kind ct tk tv kvs key (trp fo) o' E).
      - exact (run_transform_cp ct l a c d k sp s Hl Hc Ha (mkh [key] false true VMissing false bi None [] fo) eq_refl eq_refl).
    Qed.

    Theorem update_item_dict_copy_keeps key v :
      vals_proper kvs = true -> a_prepare_item sp = None -> spec_of_ty_strict tv = None ->
      nonref key = true -> nonref v = true ->
      keeps_shape ct s l a c (HUpdateItem a) (mkh [key; v] false true VMissing false None None [] None) (ODict kvs).
    Proof.
      intros Hvp Hprep Hstrict Hk Hnv.
      frame (ODict kvs) Hlc Hkvs (update_tail ct l a sp (mkh [key; v] false true VMissing false None None [] None)) (dict_change_pure ct tk tv kvs key (up_pr v)).
      - exact (update_tail_dict ct l a sp s kvs tk tv Hty Hdk Hdv Hkvs Hvp false key v Hprep Hstrict Hk Hnv).
      - intros o'. apply (dict_change_pure_scalar ct tk tv kvs Hkvs (up_pr v) (up_prn v Hnv) key o' Hk).
      - intros o' E. exact (dict_change_pure_kind ct tk tv kvs key (up_pr v) o' E).
      - exact (run_update_cp ct l a c d k sp s Hl Hc Ha (mkh [key; v] false true VMissing false None None [] None) eq_refl eq_refl).
    Qed.
  End D.

  Section S.
    Variables (xs : list val) (ity : ty).
    Hypothesis Hty : a_ty sp = TSet ity.
    Hypothesis Hdepth : ty_depth ity < FUEL.
    Hypothesis Hlc : nth_error (heap s) lc = Some (OSet xs).
    Hypothesis Hxs : forallb nonref xs = true.

    Theorem with_item_set_copy_keeps v :
      a_prepare_item sp = None -> spec_of_ty_strict ity = None -> vscalar v = true ->
      keeps_shape ct s l a c (HWithItem a) (mkh [v] false true VMissing false None None [] None) (OSet xs).
    Proof.
      intros Hprep Hstrict Hv.
      frame (OSet xs) Hlc Hxs (with_tail ct l a sp (mkh [v] false true VMissing false None None [] None)) (set_with_pure ct ity xs v).
      - intros s1 lc1 H1 _. exists s1. split; auto. now apply with_tail_set.
      - intros o' E. apply (set_with_pure_scalar ct ity xs v o'); auto. now apply vscalar_nonref.
      - intros o' E. exact (set_with_pure_kind ct ity xs v o' E).
      - now apply ck_run_with.
    Qed.

    Theorem without_item_set_copy_keeps voi :
      nonref voi = true ->
      keeps_shape ct s l a c (HWithoutItem a) (mkh [voi] false true VMissing false None None [] None) (OSet xs).
    Proof.
      intros Hv.
      frame (OSet xs) Hlc Hxs (without_tail ct l a sp (mkh [voi] false true VMissing false None None [] None)) (set_without_pure ct xs voi).
      - intros s1 lc1 H1 _. exists s1. split; auto. now apply (without_tail_set ct l a sp ity).
      - intros o' E. now apply (set_without_pure_scalar ct xs voi o').
      - intros o' E. exact (set_without_pure_kind ct xs voi o' E).
      - now apply ck_run_without.
    Qed.

    Theorem transform_item_set_copy_keeps voi fo bi :
      vscalar voi = true -> fail_at s = None -> fo_ok fo ->
      keeps_shape ct s l a c (HTransformItem a) (mkh [voi] false true VMissing false bi None [] fo) (OSet xs).
    Proof.
      intros Hv Hfa Hfo.
      frame (OSet xs) Hlc Hxs (transform_tail ct l a sp (mkh [voi] false true VMissing false bi None [] fo)) (set_change_pure ct ity xs voi (trp fo)).
      - exact (transform_tail_set ct l a sp s xs ity Hty Hdepth Hxs false voi fo bi Hv Hfa Hfo).
      - intros o'. apply (set_change_pure_scalar ct ity xs Hxs (trp fo) (tr_prn fo Hfo) voi o').
      - intros o' E. exact (set_change_pure_kind ct ity xs voi (trp fo) o' E).
      - exact (run_transform_cp ct l a c d k sp s Hl Hc Ha (mkh [voi] false true VMissing false bi None [] fo) eq_refl eq_refl).
    Qed.

    Theorem update_item_set_copy_keeps voi v :
      a_prepare_item sp = None -> spec_of_ty_strict ity = None -> vscalar voi = true -> nonref v = true ->
      keeps_shape ct s l a c (HUpdateItem a) (mkh [voi; v] false true VMissing false None None [] None) (OSet xs).
    Proof.
      intros Hprep Hstrict Hv Hnv.
      frame (OSet xs) Hlc Hxs (update_tail ct l a sp (mkh [voi; v] false true VMissing false None None [] None)) (set_change_pure ct ity xs voi (up_pr v)).
      - exact (update_tail_set ct l a sp s xs ity Hty Hdepth Hxs false voi v Hprep Hstrict Hv Hnv).
      - intros o'. apply (set_change_pure_scalar ct ity xs Hxs (up_pr v) (up_prn v Hnv) voi o').
      - intros o' E. exact (set_change_pure_kind ct ity xs voi (up_pr v) o' E).
      - exact (run_update_cp ct l a c d k sp s Hl Hc Ha (mkh [voi; v] false true VMissing false None None [] None) eq_refl eq_refl).
    Qed.
  End S.
End CopyKeepThms.
