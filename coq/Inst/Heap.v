(* Values, object heap and the state-and-exception monad of the instance model. *)
From Coq Require Import List ZArith Bool Arith.
From SC Require Import Base.Res.
Import ListNotations.

Definition loc := nat.
Definition cid := nat.   (* class id *)
Definition aid := nat.   (* attribute / keyword name id *)

Inductive val :=
| VMissing | VEmpty | VUnchanged            (* sentinels *)
| VNone | VBool (b : bool) | VInt (z : Z) | VStr (z : Z)
| VAtom (z : Z)                             (* function / class / module: immutable, identity *)
| VRef (l : loc).                           (* mutable object *)

Inductive obj :=
| OList (xs : list val)
| ODict (kvs : list (val * val))            (* insertion ordered *)
| OSet (xs : list val)                      (* insertion ordered model of a set *)
| OInst (c : cid) (d : list (aid * val)).   (* instance __dict__, insertion ordered *)

Record state := mkst {
  heap : list obj;
  ncalls : nat;                (* user callbacks invoked so far *)
  fail_at : option nat;        (* the callback invocation that raises, if any *)
}.

Definition M (A : Type) := state -> res A * state.

Definition ret {A} (a : A) : M A := fun s => (Ok a, s).
Definition fail {A} (e : err) : M A := fun s => (Err e, s).
Definition bind {A B} (m : M A) (k : A -> M B) : M B :=
  fun s => match m s with
           | (Ok a, s') => k a s'
           | (Err e, s') => (Err e, s')
           end.
Notation "x <- m ;; k" := (bind m (fun x => k)) (at level 61, m at next level, right associativity).
Notation "m ;;; k" := (bind m (fun _ => k)) (at level 61, right associativity).

(* try m, handling errors accepted by `h` with `k` *)
Definition catch {A} (m : M A) (h : err -> bool) (k : M A) : M A :=
  fun s => match m s with
           | (Err e, s') => if h e then k s' else (Err e, s')
           | r => r
           end.

(* try ... finally: run m, then cleanup whatever the outcome; an error of m wins *)
Definition finally_ {A} (m : M A) (cleanup : M unit) : M A :=
  fun s => match m s with
           | (Ok a, s') => match cleanup s' with
                           | (Ok _, s'') => (Ok a, s'')
                           | (Err e, s'') => (Err e, s'') end
           | (Err e, s') => (Err e, snd (cleanup s'))
           end.

Definition alloc (o : obj) : M loc :=
  fun s => (Ok (length (heap s)), mkst (heap s ++ [o]) (ncalls s) (fail_at s)).

Definition read (l : loc) : M obj :=
  fun s => match nth_error (heap s) l with
           | Some o => (Ok o, s)
           | None => (Err RuntimeErr, s)
           end.

Fixpoint set_nth {A} (n : nat) (x : A) (l : list A) : list A :=
  match l, n with
  | [], _ => []
  | _ :: t, O => x :: t
  | y :: t, S m => y :: set_nth m x t
  end.

Definition write (l : loc) (o : obj) : M unit :=
  fun s => if l <? length (heap s)
           then (Ok tt, mkst (set_nth l o (heap s)) (ncalls s) (fail_at s))
           else (Err RuntimeErr, s).

(* a user callback is about to run: count it, raise if it is the chosen one *)
Definition tick : M unit :=
  fun s => let n := S (ncalls s) in
           let s' := mkst (heap s) n (fail_at s) in
           match fail_at s with
           | Some k => if k =? n then (Err UserErr, s') else (Ok tt, s')
           | None => (Ok tt, s')
           end.

Fixpoint mapM {A B} (f : A -> M B) (l : list A) : M (list B) :=
  match l with
  | [] => ret []
  | x :: t => y <- f x ;; ys <- mapM f t ;; ret (y :: ys)
  end.

Fixpoint iterM {A} (f : A -> M unit) (l : list A) : M unit :=
  match l with
  | [] => ret tt
  | x :: t => f x ;;; iterM f t
  end.

Fixpoint foldM {A B} (f : B -> A -> M B) (l : list A) (b : B) : M B :=
  match l with
  | [] => ret b
  | x :: t => b' <- f b x ;; foldM f t b'
  end.

(* ---------- value equality (Python ==) on heap values, with fuel ---------- *)
Definition val_atom_eqb (a b : val) : option bool :=
  match a, b with
  | VMissing, VMissing | VEmpty, VEmpty | VUnchanged, VUnchanged | VNone, VNone => Some true
  | VBool x, VBool y => Some (Bool.eqb x y)
  | VInt x, VInt y => Some (Z.eqb x y)
  | VBool x, VInt y => Some (Z.eqb (if x then 1 else 0) y)   (* True == 1 *)
  | VInt x, VBool y => Some (Z.eqb x (if y then 1 else 0))
  | VStr x, VStr y => Some (Z.eqb x y)
  | VAtom x, VAtom y => Some (Z.eqb x y)
  | VRef _, VRef _ => None
  | _, _ => Some false
  end.

Definition assoc {A} (k : nat) (l : list (nat * A)) : option A :=
  option_map snd (find (fun p => fst p =? k) l).

Definition assoc_set {A} (k : nat) (v : A) (l : list (nat * A)) : list (nat * A) :=
  if existsb (fun p => fst p =? k) l
  then map (fun p => if fst p =? k then (k, v) else p) l
  else l ++ [(k, v)].

Definition assoc_del {A} (k : nat) (l : list (nat * A)) : list (nat * A) :=
  filter (fun p => negb (fst p =? k)) l.

Definition is_sentinel (v : val) : bool :=
  match v with VMissing | VEmpty | VUnchanged => true | _ => false end.
Definition is_missing (v : val) : bool :=
  match v with VMissing => true | _ => false end.
