(* C05 refinement, copy-on-write forms (continuation of CopyStore.v and RefineMore.v):
   - the Err outcomes of with_<a>(v) on a flat receiver: error class of the
     specification, heap untouched;
   - transform_<a>(f) without _inplace, frozen or not (it is with_<a>(f(old)));
   - reset_<a>() and update(a=v, ...) without _inplace on a flat receiver of an
     unfrozen class: a deep copy followed by the in-place call on the copy. *)
From Coq Require Import List ZArith Bool Arith Lia.
From SC Require Import Base.Res Base.PyList Inst.Heap Inst.ClassTable Inst.Model Inst.Canon
  Inst.Abs Inst.SpecHelpers Inst.ElemProofs Inst.Framed Inst.RefineProofs Inst.CopyProofs Inst.CopyStore
  Inst.RefineMore.
Import ListNotations.
Open Scope nat_scope.

#[local] Opaque FUEL.

(* ------------------------------------------------------------------ *)
(** * A flat instance is acyclic *)

Lemma aok_flat_val h x n : flat_val h x -> aok (abs (S n) h x) = true.
Proof.
  intros [Hx|[lx [o [-> [Ho Hso]]]]].
  - rewrite abs_nonref_eq by exact Hx. destruct x; simpl in *; auto; discriminate.
  - cbn [abs]. rewrite Ho. destruct o as [xs|kvs|xs|c d]; simpl in Hso; try discriminate.
    + cbn [aok]. apply forallb_forall. intros y Hy. apply in_map_iff in Hy. destruct Hy as [x [<- Hx]].
      rewrite forallb_forall in Hso. rewrite abs_nonref_eq by auto.
      specialize (Hso x Hx). destruct x; simpl in *; auto; discriminate.
    + cbn [aok]. apply forallb_forall. intros y Hy. apply in_map_iff in Hy. destruct Hy as [p [<- Hp]].
      rewrite forallb_forall in Hso. specialize (Hso p Hp). apply andb_true_iff in Hso. destruct Hso as [H1 H2].
      cbn [fst snd]. rewrite !abs_nonref_eq by auto.
      destruct (fst p); simpl in *; try discriminate; destruct (snd p); simpl in *; auto; discriminate.
    + cbn [aok]. apply forallb_forall. intros y Hy. apply in_map_iff in Hy. destruct Hy as [x [<- Hx]].
      apply In_sort_by in Hx. rewrite forallb_forall in Hso. rewrite abs_nonref_eq by auto.
      specialize (Hso x Hx). destruct x; simpl in *; auto; discriminate.
Qed.

Lemma aok_flat h l c d : nth_error h l = Some (OInst c d) -> flat_fields h d ->
  aok (absv h (VRef l)) = true.
Proof.
  intros Hl Hflat. rewrite absv_unfold, (abs_inst h l c d 23 Hl). cbn [aok].
  apply forallb_forall. intros q Hq. apply in_map_iff in Hq. destruct Hq as [p [<- Hp]]. cbn [snd].
  unfold sorted_fields in Hp. apply In_sort_by in Hp. apply aok_flat_val. now apply Hflat.
Qed.

(* ------------------------------------------------------------------ *)
(** * with_<a>(v), transform_<a>(f) without _inplace *)

Section CopyMore.
  Variable ct : ctable.
  Variable h0 : list obj.
  Variables (l : loc) (a : aid) (c : cid) (d : list (aid * val)) (k : cls) (sp : attr_spec).
  Variable s : state.
  Hypothesis Hl : nth_error (heap s) l = Some (OInst c d).
  Hypothesis Hc : lookup_cls ct c = Some k.
  Hypothesis Ha : lookup_attr k a = Some sp.
  Hypothesis Hd : NoDup (map fst d).
  Hypothesis Hflat : flat_fields (heap s) d.
  Hypothesis Hdnc : c_dnc k = false.
  Hypothesis Hni : no_inval k.
  Hypothesis Hfa : fail_at s = None.
  Hypothesis Hty : ty_depth (a_ty sp) < FUEL.
  Hypothesis Hnc : ty_is_collection (a_ty sp) = false.
  Hypothesis Hinit : assoc A_INITIALIZING d = None.
  Hypothesis Ha0 : a <> A_INITIALIZING.
  Hypothesis Hp : match a_prepare sp with Some f => scalar_fn f = true | None => True end.

  Let flds := map (fun p => (fst p, abs 23 (heap s) (snd p))) (sorted_fields d).
  Notation X := (absv (heap s) (VRef l)).
  Notation hwith v := (mkh [v] false true VMissing false None None [] None).
  Notation ahwith v := (mkah [v] false true AMissing false None None [] None).

  (* the Err outcomes of the copy-on-write with_<a>(v): the specification's error class,
     and nothing at all was written (no __post_copy__ hook declared) *)
  Theorem with_scalar_copy_err v e s' :
    vscalar v = true -> c_post_copy k = None ->
    run_helper ct l (HWith a) (hwith v) s = (Err e, s') ->
    spec_helper ct h0 X (SWith a) (ahwith (abs0 v)) = SErr e /\ heap s' = heap s.
  Proof.
    intros Hv Hpc H0. pose proof H0 as H.
    rewrite (spec_with_copy_scalar ct h0 l a c d k sp s Hl Hc Ha Hnc v Hv Hp).
    unfold run_helper in H. cbn [h_if negb pos0 h_pos nth h_kw h_inplace] in H.
    rewrite (bind_ok _ _ _ _ _ (spec_for_run ct l a c d k sp s Hl Hc Ha s eq_refl)) in H. cbn [snd] in H.
    unfold with_attr in H. rewrite (a_name_sp a k sp Ha) in H. rewrite XFUEL_S in H.
    pose proof (prepare_scalar_run ct l sp Hnc Hp 39 v s Hfa Hv) as Hpr. unfold pv_of in Hpr.
    destruct (match a_prepare sp with Some f => afn f (abs0 v) | None => SOk (abs0 v) end) as [pv|e'| |] eqn:Epv;
      try contradiction.
    - destruct Hpr as [v' [s2 [Hrun [Hh2 [Hf2 [Hv' ->]]]]]].
      rewrite (bind_ok _ _ _ _ _ Hrun) in H. cbn [sbind].
      assert (Hl2 : nth_error (heap s2) l = Some (OInst c d)) by (now rewrite Hh2).
      rewrite (mutate_attr_copy_unfold ct _ l a v' s2 c d k sp Hl2 Hc Ha Hdnc Hv' Hty) in H.
      unfold flds. rewrite (spec_store_scalar ct a c d k sp s Hc Ha Hni (sexec ct h0 SFUEL) v' Hv').
      destruct (conforms ct (a_ty sp) (abs0 v')) eqn:Hconf.
      + exfalso.
        assert (Hspec : spec_helper ct h0 X (SWith a) (ahwith (abs0 v)) =
                        SOk (AInst c (fset a (abs0 v') flds))).
        { rewrite (spec_with_copy_scalar ct h0 l a c d k sp s Hl Hc Ha Hnc v Hv Hp), Epv. cbn [sbind].
          unfold flds. now rewrite (spec_store_scalar ct a c d k sp s Hc Ha Hni (sexec ct h0 SFUEL) v' Hv'), Hconf. }
        destruct (with_scalar_copy_total ct h0 l a c d k sp s Hl Hc Ha Hflat Hdnc Hni Hfa Hty Hnc Hinit v _ Hv Hp Hpc Hspec)
          as [r [s'' Hok]].
        rewrite H0 in Hok. discriminate.
      + inversion H; subst. split; [reflexivity|exact Hh2].
    - destruct Hpr as [s2 [Hrun [Hh2 Hf2]]].
      rewrite (bind_err _ _ _ _ _ Hrun) in H. inversion H; subst. cbn [sbind]. split; [reflexivity|exact Hh2].
  Qed.

End CopyMore.

Section CopyTransform.
  Variable ct : ctable.
  Variable h0 : list obj.
  Variables (l : loc) (a : aid) (c : cid) (d : list (aid * val)) (k : cls) (sp : attr_spec).
  Variable s : state.
  Hypothesis Hl : nth_error (heap s) l = Some (OInst c d).
  Hypothesis Hc : lookup_cls ct c = Some k.
  Hypothesis Ha : lookup_attr k a = Some sp.
  Hypothesis Hd : NoDup (map fst d).
  Hypothesis Hflat : flat_fields (heap s) d.
  Hypothesis Hdnc : c_dnc k = false.
  Hypothesis Hni : no_inval k.
  Hypothesis Hfa : fail_at s = None.
  Hypothesis Hty : ty_depth (a_ty sp) < FUEL.
  Hypothesis Hnc : ty_is_collection (a_ty sp) = false.
  Hypothesis Hinit : assoc A_INITIALIZING d = None.
  Hypothesis Ha0 : a <> A_INITIALIZING.
  Hypothesis Hp : match a_prepare sp with Some f => scalar_fn f = true | None => True end.

  Let flds := map (fun p => (fst p, abs 23 (heap s) (snd p))) (sorted_fields d).
  Notation X := (absv (heap s) (VRef l)).
  Notation hwith v := (mkh [v] false true VMissing false None None [] None).
  Notation ahwith v := (mkah [v] false true AMissing false None None [] None).

  (* ---- transform_<a>(f) is with_<a>(f(old)), in the model and in the specification ---- *)
  Notation cur := (cur_val a d k).
  Notation htr f := (mkh [] false true VMissing false None None [] (Some f)).
  Notation ahtr f := (mkah [] false true AMissing false None None [] (Some f)).

  Lemma transform_copy_model f :
    vscalar cur = true ->
    run_helper ct l (HTransform a) (htr f) s =
    match apply_fn f cur s with
    | (Ok v', s1) => with_attr ct l sp v' None false s1
    | (Err e, s1) => (Err e, s1)
    end.
  Proof.
    intro Hcur. unfold run_helper. cbn [h_if negb h_inplace h_fn h_kwfn].
    rewrite (bind_ok _ _ _ _ _ (spec_for_run ct l a c d k sp s Hl Hc Ha s eq_refl)). cbn [snd].
    rewrite (bind_ok _ _ _ _ _ (current_value_run ct l a c d k sp s Hl Hc Ha false true s eq_refl (vscalar_nonref _ Hcur))).
    rewrite exec_XFUEL_mv. unfold bind at 1.
    rewrite (mutate_value_transform_scalar ct _ cur f _ _ false s Hcur).
    destruct (apply_fn f cur s) as [[v'|e] s1]; reflexivity.
  Qed.

  Lemma with_copy_model v s1 : heap s1 = heap s ->
    run_helper ct l (HWith a) (hwith v) s1 = with_attr ct l sp v None false s1.
  Proof.
    intro Hh. unfold run_helper. cbn [h_if negb pos0 h_pos nth h_kw h_inplace].
    now rewrite (bind_ok _ _ _ _ _ (spec_for_run ct l a c d k sp s Hl Hc Ha s1 Hh)).
  Qed.

  Lemma spec_helper_copy hp ah : ah_if ah = true -> ah_inplace ah = false ->
    match hp with SSetAttrOp _ | SDelAttrOp _ => False | _ => True end ->
    spec_helper ct h0 X hp ah = spec_unfrozen ct h0 (AInst c flds) hp ah.
  Proof.
    intros Hif Hin Hhp. rewrite (absv_recv l c d s Hl). fold flds. unfold spec_helper. rewrite Hif. cbn [negb].
    unfold mutates_in_place. rewrite Hin. destruct hp; try contradiction; reflexivity.
  Qed.

  Lemma transform_copy_spec f :
    vscalar cur = true ->
    spec_helper ct h0 X (STransform a) (ahtr f) =
    (nv <~ afn f (abs0 cur) ;; spec_helper ct h0 X (SWith a) (ahwith nv)).
  Proof.
    intro Hcur. rewrite (spec_helper_copy (STransform a) (ahtr f) eq_refl eq_refl I).
    unfold spec_unfrozen, spec_transform, attr_of, cls_for. cbn [ah_fn ah_kwfn].
    rewrite Hc. cbn [sbind]. rewrite Ha.
    unfold flds. rewrite (read_attr_cur ct h0 a c d k sp s Hc Ha Hd (vscalar_nonref _ Hcur)). cbn [sbind].
    rewrite (spec_value_transform_scalar ct h0 _ cur f _ _ Hcur).
    destruct (afn f (abs0 cur)) as [nv|e| |]; cbn [sbind]; try reflexivity.
    now rewrite (spec_helper_copy (SWith a) (ahwith nv) eq_refl eq_refl I).
  Qed.

  Theorem transform_scalar_copy_refines f r s' :
    scalar_fn f = true -> vscalar cur = true ->
    run_helper ct l (HTransform a) (htr f) s = (Ok r, s') ->
    exists l' dfin,
      r = VRef l' /\ length (heap s) <= l' /\
      (forall i, i < length (heap s) -> nth_error (heap s') i = nth_error (heap s) i) /\
      spec_helper ct h0 X (STransform a) (ahtr f) = SOk (absv (heap s') (VRef l')) /\
      nth_error (heap s') l' = Some (OInst c dfin) /\ assoc A_INITIALIZING dfin = None.
  Proof.
    intros Hf Hcur H. rewrite (transform_copy_model f Hcur) in H. rewrite (transform_copy_spec f Hcur).
    pose proof (apply_fn_scalar f cur s Hfa Hf Hcur) as Hap.
    destruct (afn f (abs0 cur)) as [nv|e| |]; try contradiction.
    - destruct Hap as [v' [Hrun [-> Hv']]]. rewrite Hrun in H.
      rewrite <- (with_copy_model v' (ticked s) (heap_ticked s)) in H. cbn [sbind].
      exact (with_scalar_copy_refines ct h0 l a c d k sp (ticked s) Hl Hc Ha Hd Hflat Hdnc Hni Hfa Hty Hnc Hinit Ha0
               v' r s' Hv' Hp H).
    - rewrite Hap in H. discriminate.
  Qed.

  Theorem transform_scalar_copy_err f e s' :
    scalar_fn f = true -> vscalar cur = true -> c_post_copy k = None ->
    run_helper ct l (HTransform a) (htr f) s = (Err e, s') ->
    spec_helper ct h0 X (STransform a) (ahtr f) = SErr e /\ heap s' = heap s.
  Proof.
    intros Hf Hcur Hpc H. rewrite (transform_copy_model f Hcur) in H. rewrite (transform_copy_spec f Hcur).
    pose proof (apply_fn_scalar f cur s Hfa Hf Hcur) as Hap.
    destruct (afn f (abs0 cur)) as [nv|e'| |]; try contradiction.
    - destruct Hap as [v' [Hrun [-> Hv']]]. rewrite Hrun in H.
      rewrite <- (with_copy_model v' (ticked s) (heap_ticked s)) in H. cbn [sbind].
      exact (with_scalar_copy_err ct h0 l a c d k sp (ticked s) Hl Hc Ha Hflat Hdnc Hni Hfa Hty Hnc Hinit Hp
               v' e s' Hv' Hpc H).
    - rewrite Hap in H. inversion H; subst. cbn [sbind]. split; reflexivity.
  Qed.
End CopyTransform.

(* ------------------------------------------------------------------ *)
(** * update(a=v, ...) without _inplace: deep copy, then the assignments on the copy *)

Section UpdateCopyBody.
  Variable ct : ctable.
  Local Opaque iterM thawed deepcopy.

  Lemma update_body_copy_ok rec l p0 ps s l' s2 :
    deepcopy ct (VRef l) s = (Ok (VRef l'), s2) ->
    mutate_value ct rec (mkmv (VRef l) VMissing false PNone (Some (p0 :: ps)) None None None [] false) s =
    bind (thawed ct l' true (assign_all rec l' (p0 :: ps))) (fun _ => ret (VRef l')) s2.
  Proof.
    intro Hdc. unfold mutate_value. cbn [mv_new]. unfold mutate_value_body.
    cbn [mv_new mv_old mv_replace mv_prepare mv_attrs mv_ctor mv_expected mv_transform mv_attr_transforms
         mv_inplace is_missing negb andb orb].
    cbn [bind ret get_heap thawed_val loc_of existsb].
    rewrite ?bind_ret. unfold protect. cbn [val_is_scalar].
    rewrite bind_assoc. rewrite (bind_ok _ _ _ _ _ Hdc). cbn [thawed_val].
    match goal with |- context [iterM ?f (p0 :: ps)] => set (F := f) end.
    assert (E : iterM F (p0 :: ps) = assign_all rec l' (p0 :: ps)).
    { unfold assign_all. apply iterM_ext. intros [a0 v0]. subst F. cbv beta. cbn [fst snd loc_of].
      destruct (is_missing v0); reflexivity. }
    rewrite E. unfold bind.
    destruct (thawed ct l' true (assign_all rec l' (p0 :: ps)) s2) as [[u|e] s3]; reflexivity.
  Qed.

  Lemma update_body_copy_err rec l p0 ps s e s2 :
    deepcopy ct (VRef l) s = (Err e, s2) ->
    mutate_value ct rec (mkmv (VRef l) VMissing false PNone (Some (p0 :: ps)) None None None [] false) s =
    (Err e, s2).
  Proof.
    intro Hdc. unfold mutate_value. cbn [mv_new]. unfold mutate_value_body.
    cbn [mv_new mv_old mv_replace mv_prepare mv_attrs mv_ctor mv_expected mv_transform mv_attr_transforms
         mv_inplace is_missing negb andb orb].
    cbn [bind ret get_heap thawed_val loc_of existsb].
    rewrite ?bind_ret. unfold protect. cbn [val_is_scalar].
    rewrite bind_assoc. now rewrite (bind_err _ _ _ _ _ Hdc).
  Qed.
End UpdateCopyBody.

Lemma thawed_unfrozen {A} ct l' thaw (m : M A) s2 c d' k :
  nth_error (heap s2) l' = Some (OInst c d') -> lookup_cls ct c = Some k -> c_frozen k = false ->
  thawed ct l' thaw m s2 = m s2.
Proof.
  intros Hl Hc Hfz. unfold thawed. rewrite (bind_ok _ _ _ _ _ (read_run l' s2 _ Hl)).
  rewrite (bind_ok _ _ _ _ _ (cls_of_at ct c s2 k Hc)). rewrite Hfz. cbn [negb]. now rewrite orb_true_r.
Qed.

(* ------------------------------------------------------------------ *)
(** * reset_<a>() and update(a=v, ...) without _inplace, unfrozen class *)

Section CopyUnfrozen.
  Variable ct : ctable.
  Variable h0 : list obj.
  Variables (l : loc) (c : cid) (d : list (aid * val)) (k : cls).
  Variable s : state.
  Hypothesis Hl : nth_error (heap s) l = Some (OInst c d).
  Hypothesis Hc : lookup_cls ct c = Some k.
  Hypothesis Hd : NoDup (map fst d).
  Hypothesis Hflat : flat_fields (heap s) d.
  Hypothesis Hdnc : c_dnc k = false.
  Hypothesis Hfz : c_frozen k = false.
  Hypothesis Hni : no_inval k.
  Hypothesis Hfa : fail_at s = None.
  Hypothesis Hpc : c_post_copy k = None.

  Notation X := (absv (heap s) (VRef l)).

  (* the deep copy: a fresh flat twin of the receiver *)
  Lemma copy_twin :
    exists l' d' s2,
      deepcopy ct (VRef l) s = (Ok (VRef l'), s2) /\ length (heap s) <= l' /\
      nth_error (heap s2) l' = Some (OInst c d') /\ NoDup (map fst d') /\
      absv (heap s2) (VRef l') = X /\ aok (absv (heap s2) (VRef l')) = true /\
      fail_at s2 = None /\
      (forall i, i < length (heap s) -> nth_error (heap s2) i = nth_error (heap s) i).
  Proof.
    destruct (deepcopy_flat_ok ct l s c d k Hl Hc Hdnc Hflat Hpc) as [r0 [s2 Hdc]].
    destruct (deepcopy_flat_abs ct l s c d k r0 s2 22 Hl Hc Hdnc Hflat Hdc)
      as [l' [d' [-> [Hfresh [Hcell [Hkeys [Hflat' [Habs [Hfail Hsame]]]]]]]]].
    exists l', d', s2. split; [exact Hdc|]. split; [exact Hfresh|]. split; [exact Hcell|]. split.
    { exact (eq_ind _ (fun l0 => NoDup l0) Hd _ (eq_sym Hkeys)). }
    split; [unfold absv; exact Habs|]. split; [exact (aok_flat _ l' c d' Hcell Hflat')|].
    split; [now rewrite Hfail|exact Hsame].
  Qed.

  Lemma spec_copy_is_inplace hp ahc ahi x' :
    x' = X -> ah_if ahc = true -> ah_inplace ahc = false -> ah_if ahi = true ->
    match hp with SSetAttrOp _ | SDelAttrOp _ => False | _ => True end ->
    (forall x, spec_unfrozen ct h0 x hp ahc = spec_unfrozen ct h0 x hp ahi) ->
    spec_helper ct h0 X hp ahc = spec_helper ct h0 x' hp ahi.
  Proof.
    intros -> Hifc Hinc Hifi Hhp E.
    rewrite (spec_helper_copy ct h0 l c d s Hl hp ahc Hifc Hinc Hhp).
    rewrite (spec_helper_inplace_unfrozen ct h0 l c d k s Hl Hc Hfz hp ahi Hifi).
    apply E.
  Qed.

  (* ---- reset_<a>() ---- *)
  Theorem reset_scalar_copy_unfrozen a sp :
    lookup_attr k a = Some sp -> ty_depth (a_ty sp) < FUEL -> ty_is_collection (a_ty sp) = false ->
    match a_prepare sp with Some f => scalar_fn f = true | None => True end ->
    literal_default a k sp -> vscalar (class_default k a) = true \/ class_default k a = VMissing ->
    let h := mkh [] false true VMissing false None None [] None in
    let ah := mkah [] false true AMissing false None None [] None in
    match run_helper ct l (HReset a) h s with
    | (Ok r, s') => exists l', r = VRef l' /\ length (heap s) <= l' /\
                    spec_helper ct h0 X (SReset a) ah = SOk (absv (heap s') (VRef l')) /\
                    (forall i, i < length (heap s) -> nth_error (heap s') i = nth_error (heap s) i)
    | (Err e, s') => spec_helper ct h0 X (SReset a) ah = SErr e /\
                     (forall i, i < length (heap s) -> nth_error (heap s') i = nth_error (heap s) i)
    end.
  Proof.
    intros Ha Hty Hnc Hp Hlit Hdv h ah.
    destruct copy_twin as [l' [d' [s2 [Hdc [Hfresh [Hcell [Hd' [Habs [Hok' [Hfa2 Hsame]]]]]]]]]].
    (* the model: the in-place call on the twin *)
    assert (Hrun : run_helper ct l (HReset a) h s =
                   run_helper ct l' (HReset a) (mkh [] true true VMissing false None None [] None) s2).
    { unfold run_helper, h. cbn [h_if negb h_inplace]. rewrite bind_assoc.
      rewrite (bind_ok _ _ _ _ _ Hdc). cbn [loc_of]. rewrite !bind_ret.
      unfold bind. rewrite !(thawed_unfrozen ct l' _ _ s2 c d' k Hcell Hc Hfz). reflexivity. }
    rewrite Hrun.
    rewrite (spec_copy_is_inplace (SReset a) ah (mkah [] true true AMissing false None None [] None)
               (absv (heap s2) (VRef l')) Habs eq_refl eq_refl eq_refl I (fun x => eq_refl)).
    pose proof (reset_scalar_inplace_refines ct h0 l' a c d' k sp s2 Hcell Hc Ha Hd' Hok' Hfz Hni Hfa2 Hty Hnc Hp Hlit Hdv) as H.
    cbv zeta in H.
    destruct (run_helper ct l' (HReset a) (mkh [] true true VMissing false None None [] None) s2) as [[r|e] s'].
    - destruct H as [-> [Hs Hoth]]. exists l'. split; [reflexivity|]. split; [exact Hfresh|]. split; [exact Hs|].
      intros i Hi. rewrite Hoth by lia. now apply Hsame.
    - destruct H as [Hs Hh]. split; [exact Hs|]. intros i Hi. rewrite Hh. now apply Hsame.
  Qed.

  (* ---- update(a=v, b=w, ...) ---- *)
  Theorem update_top_copy_unfrozen p0 ps :
    forallb (kw_ok k) (p0 :: ps) = true ->
    let h := mkh [] false true VMissing false None (Some (p0 :: ps)) [] None in
    let ah := mkah [] false true AMissing false None (Some (akw (p0 :: ps))) [] None in
    match run_helper ct l HUpdateTop h s with
    | (Ok r, s') => exists l', r = VRef l' /\ length (heap s) <= l' /\
                    spec_helper ct h0 X SUpdateTop ah = SOk (absv (heap s') (VRef l')) /\
                    (forall i, i < length (heap s) -> nth_error (heap s') i = nth_error (heap s) i)
    | (Err e, s') => spec_helper ct h0 X SUpdateTop ah = SErr e /\
                     (forall i, i < length (heap s) -> nth_error (heap s') i = nth_error (heap s) i)
    end.
  Proof.
    intros Hkws h ah.
    destruct copy_twin as [l' [d' [s2 [Hdc [Hfresh [Hcell [Hd' [Habs [Hok' [Hfa2 Hsame]]]]]]]]]].
    assert (Hrun : run_helper ct l HUpdateTop h s =
                   run_helper ct l' HUpdateTop (mkh [] true true VMissing false None (Some (p0 :: ps)) [] None) s2).
    { rewrite (update_inplace_is_iterated_setattr ct l' p0 ps s2 c d' k Hcell Hc).
      unfold run_helper, h. cbn [h_if negb pos0 h_pos nth h_kw h_inplace]. rewrite exec_XFUEL_mv.
      rewrite (update_body_copy_ok ct _ l p0 ps s l' s2 Hdc).
      unfold bind. now rewrite (thawed_unfrozen ct l' _ _ s2 c d' k Hcell Hc Hfz). }
    rewrite Hrun.
    rewrite (spec_copy_is_inplace SUpdateTop ah (mkah [] true true AMissing false None (Some (akw (p0 :: ps))) [] None)
               (absv (heap s2) (VRef l')) Habs eq_refl eq_refl eq_refl I (fun x => eq_refl)).
    pose proof (update_top_inplace_refines ct h0 l' c k Hc Hfz Hni d' s2 p0 ps Hcell Hd' Hok' Hfa2 Hkws) as H.
    cbv zeta in H.
    destruct (run_helper ct l' HUpdateTop (mkh [] true true VMissing false None (Some (p0 :: ps)) [] None) s2) as [[r|e] s'].
    - destruct H as [-> [Hs [Hoth _]]]. exists l'. split; [reflexivity|]. split; [exact Hfresh|]. split; [exact Hs|].
      intros i Hi. rewrite Hoth by lia. now apply Hsame.
    - destruct H as [Hs [Hoth _]]. split; [exact Hs|]. intros i Hi. rewrite Hoth by lia. now apply Hsame.
  Qed.
End CopyUnfrozen.
